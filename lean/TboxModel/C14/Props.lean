/-
C14 — PROPERTY THEOREMS (statements rely on Model.lean / Spec.lean only; helper lemmas live in
ProofsHeader / ProofsRaw / ProofsStream / ProofsRpc).

Property: "For each of the three framings, any byte stream - however segmented - is decoded into
the same sequence of JSON messages as the unsegmented stream, every message written by the
framing's own encoder decodes to an equal JSON value, and malformed or hostile input is reported
through the return value, never by an exception, crash or out-of-bounds access.  Every request
issued with a completion callback has that callback invoked exactly once: with the matching
response if one arrives before the deadline, otherwise with a timeout error; duplicate, late and
unknown-id responses are ignored."

`nlohmann::json` is abstract: `parse : List Byte → Option μ` is any function.
-/
import TboxModel.C14.ProofsHeader
import TboxModel.C14.ProofsRaw
import TboxModel.C14.ProofsStream
import TboxModel.C14.ProofsRpc
import TboxModel.C14.ProofsRing
import TboxModel.C14.ProofsServer
import TboxModel.C14.ProofsProto
import TboxModel.C14.ProofsTime
namespace Tbox.C14

/-! ## (1) header-stream framing -/

/-- **C14_header_roundtrip.** What the encoder writes (magic, 32-bit length, text), followed by
anything, is delimited by the decoder as exactly that text and exactly its bytes are consumed.
(`text.length < 2^32`: the encoder casts the size to `uint32_t`.) -/
theorem C14_header_roundtrip (magic : UInt16) (text rest : List Byte) (h : text.length < 2^32) :
    decodeHeader magic (encodeHeader magic text ++ rest) = .frame text (6 + text.length) := by
  have hl : (UInt32.ofNat text.length).toNat = text.length := by
    simp [UInt32.toNat_ofNat']; omega
  simp only [encodeHeader, be16enc, be32enc, List.cons_append, List.nil_append]
  rw [decodeHeader_spec, be16_roundtrip, be32_roundtrip, hl]
  simp

/-- **C14_header_total.** For every byte string and every length field up to 2³²−1 the repaired
decoder never lets an exception escape, and a delimited frame lies inside the input:
it is `data[6 .. n)` with `6 ≤ n ≤ |data|`. -/
theorem C14_header_total (magic : UInt16) (data : List Byte) :
    decodeHeader magic data ≠ .throws ∧
    ∀ t n, decodeHeader magic data = .frame t n →
      6 ≤ n ∧ n ≤ data.length ∧ t = (data.drop 6).take (n - 6) := by
  by_cases hlen : data.length < 6
  · rw [decodeHeader_short magic data hlen]; simp
  · obtain ⟨b0, b1, b2, b3, b4, b5, rest, rfl⟩ := six_split data (by omega)
    rw [decodeHeader_spec]
    split
    · simp
    · split
      · simp
      · refine ⟨by simp, ?_⟩
        intro t n h
        simp only [Frame.frame.injEq] at h
        obtain ⟨h1, h2⟩ := h
        subst h2 h1
        simp only [List.length_cons, List.drop_succ_cons, List.drop_zero]
        refine ⟨by omega, by omega, ?_⟩
        congr 1; omega

/-- **C14_header_total_counterexample** (DESIGN §7 row 8; the tree before
patches/C14-01-header-length-wrap.diff): with the 32-bit sum `content_size + kHeadSize`, a frame
announcing 0xFFFFFFFF bytes passes the size check (the sum wraps to 5) and `std::string(nullptr, n)`
throws. -/
theorem C14_header_total_counterexample :
    decodeHeaderOrig 0x3e5a [0x3e, 0x5a, 0xff, 0xff, 0xff, 0xff, 0x78, 0x79] = .throws ∧
    ((0xffffffff : UInt32) + 6).toNat = 5 := by decide

/-- **C14_header_resumable.** A decision of the header decoder other than "need more bytes" is
not changed by more bytes, and a frame consumes between 1 and |data| bytes. -/
theorem C14_header_resumable (magic : UInt16) :
    Stable (decodeHeader magic) ∧ Progress (decodeHeader magic) := by
  constructor
  · intro b x hne
    by_cases hlen : b.length < 6
    · exact absurd (decodeHeader_short magic b hlen) hne
    · obtain ⟨b0, b1, b2, b3, b4, b5, rest, rfl⟩ := six_split b (by omega)
      simp only [List.cons_append] at hne ⊢
      rw [decodeHeader_spec] at hne ⊢
      rw [decodeHeader_spec]
      by_cases hm : be16dec b0 b1 ≠ magic
      · rw [if_pos hm, if_pos hm]
      · simp only [hm, if_false] at hne ⊢
        by_cases hn : (be32dec b2 b3 b4 b5).toNat > rest.length
        · simp only [hn, if_true] at hne; exact absurd rfl hne
        · have : ¬ (be32dec b2 b3 b4 b5).toNat > (rest ++ x).length := by simp; omega
          simp only [hn, this, if_false]
          congr 1
          rw [List.take_append_of_le_length (by omega)]
  · intro b t k h
    have := (C14_header_total magic b).2 t k h
    omega

/-! ## (2) raw-stream framing: the `FindEndPos` scanner -/

/-- **C14_raw_end.** For every well-shaped top-level value text (array/object with arbitrarily
nested content, strings containing quotes, backslashes, brackets and arbitrary bytes; or a string
literal), preceded by any non-graphic bytes (white space) and followed by *anything*, the scanner
returns exactly the end of the value. -/
theorem C14_raw_end (ws : List Byte) (hws : ∀ c ∈ ws, isGraph c = false) (v : List Tok)
    (hv : TopValue v) (rest : List Byte) :
    findEndPos (ws ++ printToks v ++ rest) = ((ws ++ printToks v).length : Int) := by
  unfold findEndPos
  rw [scan_top ws hws v hv rest]

/-- **C14_raw_prefix.** … and on every proper prefix of it the scanner returns 0 ("not complete"),
never a position and never −1. -/
theorem C14_raw_prefix (ws : List Byte) (hws : ∀ c ∈ ws, isGraph c = false) (v : List Tok)
    (hv : TopValue v) (p y : List Byte) (hp : p ++ y = ws ++ printToks v) (hy : y ≠ []) :
    findEndPos p = 0 := by
  have hfull := scan_top ws hws v hv []
  rw [List.append_nil, ← hp] at hfull
  have hylen : 0 < y.length := List.length_pos_iff.mpr hy
  unfold findEndPos
  cases h : scanRun {} [] p with
  | cont st seen => rfl
  | done q =>
    have h1 := (scanRun_stable p y).1 q h
    have h2 := (scanRun_pos {} [] p).1 q h
    rw [h1] at hfull
    simp at hfull h2
    omega
  | neg q =>
    have h1 := (scanRun_stable p y).2 q h
    rw [h1] at hfull
    simp at hfull

/-- **C14_raw_total.** For arbitrary bytes the scanner's result is −1, 0 or a position inside the
input; the raw-stream decoder never throws; a frame it delimits is a prefix of the input; and
unbalanced input (a closing bracket without its opening one — the scanner's −1) is *reported*:
the repaired decoder returns −2 for it (≥ 2 bytes given). -/
theorem C14_raw_total (data : List Byte) :
    (-1 ≤ findEndPos data ∧ findEndPos data ≤ data.length) ∧
    decodeRaw data ≠ .throws ∧
    (∀ t n, decodeRaw data = .frame t n → 0 < n ∧ n ≤ data.length ∧ t = data.take n) ∧
    (2 ≤ data.length → findEndPos data < 0 → decodeRaw data = .err (-2)) := by
  have hr := findEndPos_range data
  refine ⟨hr, ?_, ?_, ?_⟩
  · unfold decodeRaw decodeRawG; split
    · simp
    · simp only; split
      · simp
      · split <;> simp
  · intro t n h
    unfold decodeRaw decodeRawG at h
    split at h
    · simp at h
    · simp only at h
      split at h
      · simp only [Frame.frame.injEq] at h
        obtain ⟨h1, h2⟩ := h
        subst h2 h1
        refine ⟨by omega, by omega, rfl⟩
      · split at h <;> simp at h
  · intro h2 hneg
    unfold decodeRaw decodeRawG
    have : ¬ data.length < 2 := by omega
    have h3 : ¬ findEndPos data > 0 := by omega
    simp [this, h3, hneg]

/-- **C14_raw_unbalanced_counterexample** (the tree before
patches/C14-03-raw-unbalanced-is-an-error.diff): a stray `]` is answered "need more bytes" and so is
every extension of it — the malformed input is never reported and the stream never recovers. -/
theorem C14_raw_unbalanced_counterexample :
    decodeRawOrig [0x5d, 0x7b, 0x7d] = .needMore ∧
    (∀ x, decodeRawOrig ([0x5d, 0x7b] ++ x) = .needMore) ∧
    decodeRaw [0x5d, 0x7b, 0x7d] = .err (-2) := by
  refine ⟨by decide, ?_, by decide⟩
  intro x
  have h : scanRun {} [] ([0x5d, 0x7b] ++ x) = .neg 1 := by
    rw [scanRun_append]; rfl
  unfold decodeRawOrig decodeRawG findEndPos
  rw [h]
  simp

/-- **C14_raw_resumable.** The raw-stream decoder is prefix stable and makes progress. -/
theorem C14_raw_resumable : Stable decodeRaw ∧ Progress decodeRaw := by
  constructor
  · intro b x hne
    unfold decodeRaw decodeRawG at hne ⊢
    by_cases hlen : b.length < 2
    · simp [hlen] at hne
    · have hlen2 : ¬ (b ++ x).length < 2 := by simp; omega
      simp only [hlen, hlen2, if_false] at hne ⊢
      have hsame : findEndPos b ≠ 0 → findEndPos (b ++ x) = findEndPos b := by
        intro h0
        unfold findEndPos at h0 ⊢
        cases h : scanRun {} [] b with
        | cont st seen => rw [h] at h0; simp at h0
        | done p => rw [(scanRun_stable b x).1 p h]
        | neg p => rw [(scanRun_stable b x).2 p h]
      by_cases he : findEndPos b > 0
      · rw [hsame (by omega)]
        simp only [he, if_true]
        have hle := (findEndPos_range b).2
        congr 1
        rw [List.take_append_of_le_length (by omega)]
      · by_cases hn : findEndPos b < 0
        · rw [hsame (by omega)]
          simp only [he, if_false]
        · have : findEndPos b = 0 := by omega
          simp [this] at hne
  · intro b t k h
    have := (C14_raw_total b).2.2.1 t k h
    omega

/-- **C14_raw_roundtrip.** Any printed top-level value (what `dump()` writes for an object or an
array is one), after white space and before anything, is delimited by the raw-stream decoder as
exactly that text. -/
theorem C14_raw_roundtrip (ws : List Byte) (hws : ∀ c ∈ ws, isGraph c = false) (v : List Tok)
    (hv : TopValue v) (rest : List Byte) :
    decodeRaw (ws ++ printToks v ++ rest) = .frame (ws ++ printToks v) (ws ++ printToks v).length := by
  have hlen : 2 ≤ (printToks v).length := by
    cases hv with
    | bracket sq a _ => simp [printToks, Tok.print]
    | str body _ => simp [printToks, Tok.print]
  unfold decodeRaw decodeRawG
  have h2 : ¬ (ws ++ printToks v ++ rest).length < 2 := by simp; omega
  simp only [h2, if_false, C14_raw_end ws hws v hv rest]
  have hpos : ((ws ++ printToks v).length : Int) > 0 := by simp; omega
  simp only [hpos, if_true, Int.toNat_natCast]
  congr 1
  exact List.take_left

/-- **C14_raw_scalar_counterexample.** The scanner is *not* right for top-level numbers and
literals (outside the property, which speaks of objects and arrays): `123` "ends" after `1`. -/
theorem C14_raw_scalar_counterexample :
    findEndPos [0x31, 0x32, 0x33] = 1 ∧ decodeRaw [0x31, 0x32, 0x33] = .frame [0x31] 1 := by decide

/-! ## (3) packet framing -/

/-- **C14_packet_roundtrip.** One datagram is one text; it never throws and consumes the datagram. -/
theorem C14_packet_roundtrip (text : List Byte) :
    decodePacket text ≠ .throws ∧ (2 ≤ text.length → decodePacket text = .frame text text.length) := by
  unfold decodePacket
  constructor
  · split <;> simp
  · intro h; have : ¬ text.length < 2 := by omega
    simp [this]

/-! ## segmentation independence of the receive loop -/

/-- **C14_stream_segmentation.** For every prefix-stable decoder that makes progress (the header
and raw framings are, `C14_header_resumable`, `C14_raw_resumable`), every JSON parser, every byte
stream and *every* segmentation of it: feeding the segments one by one yields the same events
(messages, errors) in the same order, the same dead/alive state and the same unconsumed rest as
running the loop once on the whole stream. -/
theorem C14_stream_segmentation {μ : Type} (dec : List Byte → Frame) (parse : List Byte → Option μ)
    (hs : Stable dec) (hp : Progress dec) (h0 : dec [] = .needMore) (segs : List (List Byte)) :
    (feedAll dec parse (some []) segs).1 = (drain dec parse segs.flatten).1 ∧
    ((feedAll dec parse (some []) segs).2 = none ↔ (drain dec parse segs.flatten).2 = none) ∧
    (∀ l, (drain dec parse segs.flatten).2 = some l → (feedAll dec parse (some []) segs).2 = some l) := by
  have hq : recvData dec parse [] = none := by unfold recvData; simp [h0]
  simpa using feedAll_eq_drain dec parse hs hp segs [] hq

/-- **C14_header_segmentation / C14_raw_segmentation.** The two stream framings, unconditionally. -/
theorem C14_header_segmentation {μ : Type} (magic : UInt16) (parse : List Byte → Option μ)
    (segs : List (List Byte)) :
    (feedAll (decodeHeader magic) parse (some []) segs).1 = (drain (decodeHeader magic) parse segs.flatten).1 ∧
    ((feedAll (decodeHeader magic) parse (some []) segs).2 = none ↔
      (drain (decodeHeader magic) parse segs.flatten).2 = none) :=
  have h := C14_stream_segmentation (decodeHeader magic) parse (C14_header_resumable magic).1
    (C14_header_resumable magic).2 (decodeHeader_short magic [] (by decide)) segs
  ⟨h.1, h.2.1⟩

theorem C14_raw_segmentation {μ : Type} (parse : List Byte → Option μ) (segs : List (List Byte)) :
    (feedAll decodeRaw parse (some []) segs).1 = (drain decodeRaw parse segs.flatten).1 ∧
    ((feedAll decodeRaw parse (some []) segs).2 = none ↔ (drain decodeRaw parse segs.flatten).2 = none) :=
  have h := C14_stream_segmentation decodeRaw parse C14_raw_resumable.1 C14_raw_resumable.2 (by decide) segs
  ⟨h.1, h.2.1⟩

/-! ## (4) pending requests: each completion callback runs at most once -/

/-- no callback tag is pending twice and every pending tag has been handed out -/
def RInv (s : Rpc) : Prop := ∀ t, pendCount t s.pending ≤ (if t < s.nTag then 1 else 0)

theorem RInv_init (n : Nat) : RInv (Rpc.init n) := by intro t; simp [Rpc.init, pendCount]

/-- **C14_callback_once.** For every sequence of requests (plain or issuing a further request from
inside the callback), notifications, responses (any id, any order, duplicated, unknown) and ticks,
from any consistent state: every completion callback runs at most once; a callback that has run
is no longer pending (so nothing can run it again); and no callback runs that was never handed to
`request`. -/
theorem C14_callback_once (s : Rpc) (h : RInv s) (ops : List Op) (t : Nat) :
    firedCount t (run s ops).2 ≤ 1 ∧
    firedCount t (run s ops).2 + pendCount t (run s ops).1.pending ≤ 1 ∧
    ((run s ops).1.nTag ≤ t → firedCount t (run s ops).2 = 0) ∧
    RInv (run s ops).1 := by
  have hd := Delta_run ops s
  have h1 := hd.2 t
  have h2 := h t
  have hm := hd.1
  refine ⟨?_, ?_, ?_, ?_⟩
  · split at h1 <;> split at h2 <;> omega
  · split at h1 <;> split at h2 <;> omega
  · intro hge; split at h1 <;> split at h2 <;> omega
  · intro u
    have h1 := hd.2 u
    have h2 := h u
    split at h1 <;> split at h2 <;> split <;> omega

/-- **C14_callback_code.** A response whose id is pending runs exactly that request's callback,
first, with the response's code (`0` + result, or the error code). -/
theorem C14_callback_code (s : Rpc) (id code : Int) (k : Nat) (cb : Cb)
    (h : pendingFind s.pending id = some (k, cb)) :
    (s.complete id code).2.head? = some (.fired cb.tag code) ∧ (k : Int) = id := by
  refine ⟨?_, (pendingFind_mem _ _ _ _ h).2⟩
  unfold Rpc.complete Rpc.fire
  simp only [h]
  split <;> simp

/-- **C14_callback_ignored.** A response whose id is not pending — unknown, duplicate, or late
(already completed by a response or by the timeout) — causes no callback and changes nothing; and
after a (non-chaining) completion the id is not pending any more, so a duplicate *is* such a
response. -/
theorem C14_callback_ignored (s : Rpc) (id code : Int) :
    (pendingFind s.pending id = none → s.complete id code = (s, [])) ∧
    (∀ k cb, pendingFind s.pending id = some (k, cb) → cb.chain = false →
      pendingFind (s.complete id code).1.pending id = none) := by
  constructor
  · intro h; unfold Rpc.complete; simp [h]
  · intro k cb h hc
    have hk := (pendingFind_mem _ _ _ _ h).2
    unfold Rpc.complete Rpc.fire
    simp only [h, hc, Bool.false_eq_true, if_false]
    unfold pendingFind pendingErase
    rw [List.find?_eq_none]
    intro e he
    simp only [List.mem_filter, decide_eq_true_eq] at he
    simp only [decide_eq_true_eq]
    intro heq
    apply he.2
    have : (e.1 : Int) = (k : Int) := by rw [heq, hk]
    exact Int.ofNat_inj.mp this

/-- **C14_tick_slot.** A tick hands exactly the ids of the slot that follows the current one to
the timeout handler (each is completed with the timeout code if still pending, ignored otherwise)
and leaves that slot empty as the new current slot. -/
theorem C14_tick_slot (s : Rpc) (cur nxt : List Nat) (rest : List (List Nat)) (h : s.ring = cur :: nxt :: rest) :
    s.tick = Rpc.completeAll
      { s with ring := [] :: (rest ++ [cur]), vn := s.vn - nxt.length,
               timerOn := if s.vn - nxt.length = 0 then false else s.timerOn }
      kRequestTimeout nxt := by
  unfold Rpc.tick; simp [h]

/-- **C14_response_id_range.** A response whose id literal is outside the range of `int` is
ignored (repaired `util::json::Get(int&)`): no callback, no state change. -/
theorem C14_response_id_range (s : Rpc) (rid code : Int)
    (h : ¬ (-2147483648 ≤ rid ∧ rid ≤ 2147483647)) : s.respond rid code = (s, []) := by
  unfold Rpc.respond Rpc.respondG respIdG; simp [h]

/-- **C14_response_id_counterexample** (the tree before patches/C14-04-json-get-int-range.diff):
`get<int>()` truncates, so the unknown id 4294967297 (= 2³² + 1) completes request 1. -/
theorem C14_response_id_counterexample :
    (Rpc.respondG false ((Rpc.init 3).request false).1 4294967297 0).2 = [.fired 0 0] ∧
    (((Rpc.init 3).request false).1.respond 4294967297 0).2 = [] := by decide

/-- **C14_ring_expiry.** From any state of the monitor (non-degenerate ring, ids in it not above
the id counter), a request adds its id `x`; then for *every* continuation — requests (their ids are
added to the then-current slot), responses, notifications, ticks, and requests issued from inside
timeout callbacks while a tick is being processed (slot swapped out first, then the callbacks) —
the list of ids handed to the timeout handler by the `j`-th following tick (counted from 0)
contains `x` exactly once if `j + 1 = N` (the number of slots) and not at all otherwise: `x` expires
at exactly the `N`-th following tick, once, never earlier, never again. -/
theorem C14_ring_expiry (s : Rpc) (hr : s.ring ≠ []) (hf : ∀ y ∈ s.ring.flatten, y ≤ s.idAlloc)
    (c : Bool) (ops : List Op) (j : Nat) (items : List Nat)
    (h : (runHanded (s.request c).1 ops)[j]? = some items) :
    items.count (s.idAlloc + 1) = if j + 1 = s.ring.length then 1 else 0 := by
  have hl := Live_request s c hr hf
  rw [Live_run (s.idAlloc + 1) ops _ _ hl j items h]
  have : 0 < s.ring.length := List.length_pos_iff.mpr hr
  by_cases hj : j = s.ring.length - 1
  · have : j + 1 = s.ring.length := by omega
    rw [if_pos hj, if_pos this]
  · have : ¬ j + 1 = s.ring.length := by omega
    rw [if_neg hj, if_neg this]

/-- **C14_callback_timeout.** A request (callback tag `s.nTag`) whose id gets no response —
whatever else happens: other requests, responses to other ids (duplicated, unknown, beyond `int`),
notifications, chained requests — is still pending after `N − 1` ticks, its callback has not run,
and the `N`-th tick runs it with the timeout code. -/
theorem C14_callback_timeout (s : Rpc) (hr : s.ring ≠ []) (hf : ∀ y ∈ s.ring.flatten, y ≤ s.idAlloc)
    (hinv : RInv s) (c : Bool) (ops : List Op) (hno : NoResponseFor (s.idAlloc + 1) ops)
    (ht : ticks ops + 1 = s.ring.length) :
    firedCount s.nTag (run (s.request c).1 ops).2 = 0 ∧
    REv.fired s.nTag kRequestTimeout ∈ (run (s.request c).1 ops).1.tick.2 := by
  have hl := Live_request s c hr hf
  have hp := Pend_new s c
  obtain ⟨hp', hi'⟩ := Track_run (s.idAlloc + 1) { tag := s.nTag, chain := c } ops (s.request c).1
    (s.ring.length - 1) hp hl.2.1 hno (by omega)
  refine ⟨?_, Track_fire _ _ _ hp' hi'⟩
  -- still pending ⇒ not fired (at-most-once accounting)
  have hinv1 : RInv (s.request c).1 := by
    have := (C14_callback_once s hinv [.request c] 0).2.2.2
    simpa [run, step] using this
  have hacc := (C14_callback_once (s.request c).1 hinv1 ops s.nTag).2.1
  have hmem := (pendingFind_mem _ _ _ _ hp'.1).1
  have hpos : 1 ≤ pendCount s.nTag (run (s.request c).1 ops).1.pending := by
    have := pendCount_erase_mem s.nTag (s.idAlloc + 1) { tag := s.nTag, chain := c } _ hmem
    simp at this; omega
  omega

theorem run_append (s : Rpc) (a b : List Op) :
    run s (a ++ b) = ((run (run s a).1 b).1, (run s a).2 ++ (run (run s a).1 b).2) := by
  induction a generalizing s with
  | nil => simp [run]
  | cons op a ih => simp only [List.cons_append, run, ih, List.append_assoc]

theorem firedCount_pos_of_mem (t : Nat) (code : Int) (evs : List REv) (h : REv.fired t code ∈ evs) :
    1 ≤ firedCount t evs := by
  induction evs with
  | nil => simp at h
  | cons e es ih =>
    rcases List.mem_cons.mp h with h | h
    · subst h; simp [firedCount]
    · have := ih h
      cases e <;> simp [firedCount] <;> omega

/-- **C14_callback_exactly_once.** … hence, in every history in which the request gets no
response and at least `N` ticks happen, its callback runs exactly once (and that run is the
timeout of the `N`-th tick; `C14_callback_code` covers the case of a matching response). -/
theorem C14_callback_exactly_once (s : Rpc) (hr : s.ring ≠ []) (hf : ∀ y ∈ s.ring.flatten, y ≤ s.idAlloc)
    (hinv : RInv s) (c : Bool) (ops more : List Op) (hno : NoResponseFor (s.idAlloc + 1) ops)
    (ht : ticks ops + 1 = s.ring.length) :
    firedCount s.nTag (run (s.request c).1 (ops ++ .tick :: more)).2 = 1 := by
  have hinv1 : RInv (s.request c).1 := by
    have := (C14_callback_once s hinv [.request c] 0).2.2.2
    simpa [run, step] using this
  have hmost := (C14_callback_once (s.request c).1 hinv1 (ops ++ .tick :: more) s.nTag).1
  have hfire := (C14_callback_timeout s hr hf hinv c ops hno ht).2
  have : 1 ≤ firedCount s.nTag (run (s.request c).1 (ops ++ .tick :: more)).2 := by
    rw [run_append]
    simp only [run, step, firedCount_append]
    have := firedCount_pos_of_mem _ _ _ hfire
    omega
  omega

/-- **C14_pending_timer_on.** In every state reachable from `initialize(proto, N)` (`N ≥ 1`) by
any op sequence: every pending request's id is in the ring, `value_number_` is the ring's size, and
the 1-s timer is enabled iff the ring is non-empty — so while a request is pending the ticks that
will time it out do happen. -/
theorem C14_pending_timer_on (n : Nat) (hn : 1 ≤ n) (ops : List Op) :
    let s := (run (Rpc.init n) ops).1
    (s.pending ≠ [] → s.timerOn = true) ∧ (∀ e ∈ s.pending, e.1 ∈ s.ring.flatten) ∧
    s.vn = s.ring.flatten.length ∧ (s.timerOn = true ↔ 0 < s.vn) := by
  have h := TInv_run ops _ (TInv_init n hn)
  obtain ⟨h1, h2, h3, h4⟩ := h
  have hmem : ∀ e ∈ (run (Rpc.init n) ops).1.pending, e.1 ∈ (run (Rpc.init n) ops).1.ring.flatten := by
    intro e he; rcases h4 e he with h | h
    · exact h
    · simp at h
  refine ⟨?_, hmem, h2, h3⟩
  intro hne
  obtain ⟨e, he⟩ := List.exists_mem_of_ne_nil _ hne
  have := hmem e he
  apply h3.mpr
  rw [h2]
  exact List.length_pos_of_mem this

/-- **C14_pending_timer_on_counterexample** (the reordering of seeded/C14-1: idle decided before
the callbacks, timer disabled after them): a request re-issued from its own timeout callback stays
pending with the timer off, so it never completes. -/
theorem C14_pending_timer_on_counterexample :
    let s := (((Rpc.init 1).request true).1.tickSeeded).1
    s.pending ≠ [] ∧ s.timerOn = false := by decide

/-- **C14_raw_backscan_in_bounds.** Whenever the scanner is inside a string (the only place the
backward backslash loop `for (j = i - 1; j != 0 && …)` runs), at least one character has been read:
`i ≥ 1`, so the loop starts at a valid index and, stopping at `j = 0`, never leaves the input. -/
theorem C14_raw_backscan_in_bounds (pre : List Byte) (st : Scan) (seen : List Byte)
    (h : scanRun {} [] pre = .cont st seen) (hs : st.inStr = true) :
    seen ≠ [] ∧ seen.length = pre.length := by
  have hseen := scanRun_cont_seen _ _ _ _ _ h
  cases pre with
  | nil => simp [scanRun] at h; rw [← h.1] at hs; simp at hs
  | cons c cs => subst hseen; simp

/-! ## (5) the message encoders of proto.cpp, per message kind -/

/-- **C14_message_roundtrip.** Every JSON value written by `sendRequest` (with or without id, with
or without params), `sendResult` and `sendError` (with or without message) is dispatched by
`onRecvJson` to exactly one callback with the same id, method/params, result, error code.
(`id`, `errcode` are C++ `int`s; the JSON values `params`, `result` are arbitrary.) -/
theorem C14_message_roundtrip (id code : Int) (hid : isInt32 id) (hc : isInt32 code)
    (method message : String) (params result : J) :
    recvJsonObj (mkRequest id method params) = [.request id method params] ∧
    recvJsonObj (mkResult id result) = [.response id 0 result] ∧
    recvJsonObj (mkError id code message) = [.response id code .null] :=
  ⟨rt_request id hid method params, rt_result id hid result, rt_error id code hid hc message⟩

/-- **C14_encoder_roundtrip.** For each framing: what the framing's encoder writes for a JSON value
`j` (its `dump()`, framed), followed by anything, is received as exactly the message `j` — for every
parser/printer pair with `parse (dump j) = some j` (the trusted nlohmann round trip); for the raw
stream the printed text of the value must be a well-shaped top-level value (what `dump()` of an
object or array is; the acceptor checks it for every message the real encoder writes). -/
theorem C14_encoder_roundtrip {μ : Type} (parse : List Byte → Option μ) (dump : μ → List Byte)
    (hpd : ∀ j, parse (dump j) = some j) (j : μ) (rest : List Byte) :
    (∀ magic, (dump j).length < 2^32 →
      recvData (decodeHeader magic) parse (encodeHeader magic (dump j) ++ rest) = some (.msg j (6 + (dump j).length))) ∧
    ((∃ v, TopValue v ∧ dump j = printToks v) →
      recvData decodeRaw parse (dump j ++ rest) = some (.msg j (dump j).length)) ∧
    (2 ≤ (dump j).length → recvData decodePacket parse (dump j) = some (.msg j (dump j).length)) := by
  refine ⟨?_, ?_, ?_⟩
  · intro magic hl
    unfold recvData
    rw [C14_header_roundtrip magic (dump j) rest hl]
    simp [hpd]
  · rintro ⟨v, hv, he⟩
    have := C14_raw_roundtrip [] (by simp) v hv rest
    simp only [List.nil_append] at this
    unfold recvData
    rw [he, this, ← he]
    simp [hpd]
  · intro h2
    unfold recvData
    rw [(C14_packet_roundtrip (dump j)).2 h2]
    simp [hpd]

/-! ## (6) server half -/

/-- **C14_server_request_answer.** One inbound request: an unknown method is answered with exactly
one `kMethodNotFound` error; a synchronous service with exactly one response carrying the service's
code (a notification, id 0, with none); an asynchronous service with none, the id being remembered. -/
theorem C14_server_request_answer (s : Srv) (id code : Int) :
    (s.recvRequest id .unknown).2 = [.sent id kMethodNotFound] ∧
    (id ≠ 0 → (s.recvRequest id (.sync code)).2 = [.called id, .sent id code]) ∧
    ((s.recvRequest 0 (.sync code)).2 = [.called 0] ∧ (s.recvRequest 0 .async).2 = [.called 0]) ∧
    (id ≠ 0 → (s.recvRequest id .async).2 = [.called id] ∧ id ∈ (s.recvRequest id .async).1.tobe) := by
  refine ⟨rfl, ?_, ⟨rfl, rfl⟩, ?_⟩
  · intro h; simp [Srv.recvRequest, Srv.respond, h]
  · intro h
    refine ⟨by simp [Srv.recvRequest, h], ?_⟩
    simp only [Srv.recvRequest, h, ne_eq, not_false_eq_true, if_true]
    unfold Srv.monitorAdd
    simp only
    split <;> split <;> simp_all

/-- **C14_server_sends_exactly.** For every sequence of inbound requests (any ids, repeated ids,
any methods), `respond()` calls and respond-timeout ticks, and every id `i`: the number of
responses sent with id `i` is exactly the number called for — one per request to a synchronous
service, one error per request to an unknown method, one per `respond()` call.  The library never
answers a request twice by itself and the respond timeout sends nothing. -/
theorem C14_server_sends_exactly (s : Srv) (ops : List SOp) (i : Int) :
    sentCount i (s.run ops).2 = expectedSends i ops := Srv_run_sends ops i s

/-- **C14_server_respond_unchecked** (as coded; outside the statement of C14, which speaks of the
requesting side): `respond()` does not consult `tobe_respond_` — it sends for an id that was never
requested, sends again when called twice, and still sends after the respond timeout has dropped
the id.  "Answered at most once" therefore holds for the library (`C14_server_sends_exactly`) but
is not enforced against the application. -/
theorem C14_server_respond_unchecked :
    ((Srv.init 2).respond 9 0).2 = [.sent 9 0] ∧
    ((Srv.init 2).run [.recv 1 .async, .respond 1 0, .respond 1 0]).2 = [.called 1, .sent 1 0, .sent 1 0] ∧
    ((Srv.init 1).run [.recv 1 .async, .tick, .respond 1 0]).2 = [.called 1, .sent 1 0] ∧
    ((Srv.init 1).run [.recv 1 .async, .tick]).1.tobe = [] := by decide

/-! ## (7) two peers: the client's guarantees hold against any server and any pipe -/

theorem world_step_client (w : World) (op : WOp) :
    (w.step op).1.c = (run w.c (clientOp w op)).1 ∧ (w.step op).2.1 = (run w.c (clientOp w op)).2 := by
  cases op with
  | request c svc => simp [World.step, clientOp, run, step]
  | notify svc => simp [World.step, clientOp, run, step]
  | deliver b i =>
    cases b with
    | true =>
      simp only [World.step, clientOp]
      cases w.c2s[i]? <;> simp [run, World.serverRecv]
    | false =>
      simp only [World.step, clientOp]
      cases w.s2c[i]? <;> simp [run, step, World.clientRecv]
  | drop b i => cases b <;> simp [World.step, clientOp, run]
  | dup b i => cases b <;> simp [World.step, clientOp, run]
  | srespond id code => simp [World.step, clientOp, run]
  | ctick => simp [World.step, clientOp, run, step]
  | stick => simp [World.step, clientOp, run]

/-- **C14_world_client_simulation.** Whatever the server peer and the pipe do (answer late, never,
twice; drop, duplicate, reorder), what happens at the client peer is a run of the client model on
the op sequence `clientOps` (its own requests, the responses actually delivered, its ticks). -/
theorem C14_world_client_simulation (ops : List WOp) : ∀ w : World,
    (w.run ops).1.c = (run w.c (clientOps w ops)).1 ∧ (w.run ops).2.1 = (run w.c (clientOps w ops)).2 := by
  induction ops with
  | nil => intro w; simp [World.run, clientOps, run]
  | cons op ops ih =>
    intro w
    obtain ⟨h1, h2⟩ := world_step_client w op
    obtain ⟨i1, i2⟩ := ih (w.step op).1
    simp only [World.run, clientOps, run_append]
    rw [← h1, ← h2, ← i1, ← i2]
    exact ⟨rfl, rfl⟩

/-- **C14_world_callback_once.** … hence, in the two-peer system, every completion callback of the
client runs at most once, for every behaviour of the server application and of the pipe. -/
theorem C14_world_callback_once (w : World) (h : RInv w.c) (ops : List WOp) (t : Nat) :
    firedCount t (w.run ops).2.1 ≤ 1 := by
  rw [(C14_world_client_simulation ops w).2]
  exact (C14_callback_once w.c h _ t).1

/-- **C14_world_callback_exactly_once.** … and a request for which no response with its id is
delivered while the client sees `N − 1` of its ticks (the server answers never, or late, or its
answers are lost) is completed exactly once, by the timeout of the `N`-th tick — later deliveries of
late or duplicated answers included (`more`). -/
theorem C14_world_callback_exactly_once (w : World) (hr : w.c.ring ≠ [])
    (hf : ∀ y ∈ w.c.ring.flatten, y ≤ w.c.idAlloc) (hinv : RInv w.c) (chain : Bool) (svc : Service)
    (ops more : List WOp)
    (hno : NoResponseFor (w.c.idAlloc + 1) (clientOps (w.step (.request chain svc)).1 ops))
    (ht : ticks (clientOps (w.step (.request chain svc)).1 ops) + 1 = w.c.ring.length) :
    firedCount w.c.nTag (w.run (.request chain svc :: (ops ++ .ctick :: more))).2.1 = 1 := by
  rw [(C14_world_client_simulation _ w).2]
  have hsplit : clientOps w (.request chain svc :: (ops ++ .ctick :: more)) =
      .request chain :: (clientOps (w.step (.request chain svc)).1 ops ++
        .tick :: clientOps ((w.step (.request chain svc)).1.run (ops ++ [.ctick])).1 more) := by
    simp only [clientOps, clientOp, List.singleton_append, List.cons.injEq, true_and]
    have : ∀ (a b : List WOp) (v : World), clientOps v (a ++ b) = clientOps v a ++ clientOps (v.run a).1 b := by
      intro a
      induction a with
      | nil => intro b v; simp [clientOps, World.run]
      | cons x xs ih => intro b v; simp only [List.cons_append, clientOps, World.run, ih, List.append_assoc]
    rw [show ops ++ WOp.ctick :: more = (ops ++ [.ctick]) ++ more by simp, this, this]
    simp [clientOps, clientOp]
  rw [hsplit]
  simp only [run, step]
  have hc : (w.step (.request chain svc)).1.c = (w.c.request chain).1 := by simp [World.step]
  have := C14_callback_exactly_once w.c hr hf hinv chain _ (clientOps ((w.step (.request chain svc)).1.run (ops ++ [.ctick])).1 more) hno ht
  simp only [firedCount_append]
  have h0 : firedCount w.c.nTag (w.c.request chain).2 = 0 := by simp [Rpc.request, firedCount]
  omega

/-! ## (8) the deadline in milliseconds, under the tick timer as coded -/

/-- **C14_timer_phase.** Along every timed history (requests, notifications, responses, clock
advances of any size) from `initialize(proto, N)`: while the 1-s timer is enabled its next expiry lies
in `(now, now + 1000]` — in particular the fuel `ms / 1000 + 2` of the loop's catch-up
(`handleExpiredTimers`) always suffices: no due tick is left unexecuted — and the monitor invariant
(`C14_pending_timer_on`) holds. -/
theorem C14_timer_phase (n : Nat) (hn : 1 ≤ n) (ops : List TOp) :
    TimeInv (runT (Rpc.init n) ops).1 ∧ TInv (runT (Rpc.init n) ops).1 [] :=
  ⟨TimeInv_runT ops _ (by intro h; simp [Rpc.init] at h), TInv_runT ops _ (TInv_init n hn)⟩

theorem DL_request (s : Rpc) (ht : TInv s []) (hti : TimeInv s) (hf : ∀ y ∈ s.ring.flatten, y ≤ s.idAlloc)
    (c : Bool) : DL s.now s.ring.length (s.idAlloc + 1) (s.request c).1 (s.ring.length - 1) := by
  have hl := Live_request s c ht.1 hf
  have hpos : 0 < s.ring.length := List.length_pos_iff.mpr ht.1
  refine ⟨hl, TInv_request s c [] ht, ?_⟩
  rw [(request_time s c).2]
  unfold Qb
  by_cases hv : s.vn = 0
  · simp only [hv, if_true]; omega
  · simp only [hv, if_false]
    have := hti (ht.2.2.1.mpr (by omega))
    omega

/-- **C14_deadline_ms.** A request is issued at clock `t0` (any reachable state: monitor and timer
invariants of `C14_timer_phase`). For every timed continuation, the tick that hands its id to the
timeout handler was scheduled for an instant in `(t0 + (N−1)·1000, t0 + N·1000]` and is executed by
the loop at or after that instant (never early). -/
theorem C14_deadline_ms (s : Rpc) (ht : TInv s []) (hti : TimeInv s)
    (hf : ∀ y ∈ s.ring.flatten, y ≤ s.idAlloc) (c : Bool) (ops : List TOp) (e : TickRec)
    (he : e ∈ logT (s.request c).1 ops) (hx : s.idAlloc + 1 ∈ e.items) :
    s.now + (s.ring.length - 1) * 1000 < e.sched ∧ e.sched ≤ s.now + s.ring.length * 1000 ∧
    e.sched ≤ e.clock :=
  logT_bound s.now s.ring.length (s.idAlloc + 1) ops _ (Or.inl ⟨_, DL_request s ht hti hf c⟩) e he hx

/-- **C14_deadline_reached.** … and it is not late either: once the clock has reached
`t0 + N·1000` (and the loop has run, which every `adv` does), the id has been handed out — together
with `C14_callback_timeout` the callback has run with the timeout code by then. -/
theorem C14_deadline_reached (s : Rpc) (ht : TInv s []) (hti : TimeInv s)
    (hf : ∀ y ∈ s.ring.flatten, y ≤ s.idAlloc) (c : Bool) (ops : List TOp)
    (hclock : s.now + s.ring.length * 1000 ≤ (runT (s.request c).1 ops).1.now) :
    cnt (s.idAlloc + 1) (runT (s.request c).1 ops).1.ring = 0 := by
  have hd := DL_request s ht hti hf c
  rcases runT_DL s.now s.ring.length (s.idAlloc + 1) ops _ (Or.inl ⟨_, hd⟩) with ⟨m, hl, hti', hq⟩ | hg
  · exfalso
    have hv := Live_vn_pos _ _ m [] hl hti'
    have hon := hti'.2.2.1.mpr (by omega)
    have htime : TimeInv (runT (s.request c).1 ops).1 :=
      TimeInv_runT ops _ (TimeInv_of_TStep _ _ (TStep_request s c) hti)
    have := htime hon
    unfold Qb at hq
    omega
  · exact hg.2.2

/-! ### non-vacuity / concrete runs (evaluation, not part of the unbounded claims) -/

example : RInv (Rpc.init 3) := RInv_init 3

-- the hypotheses of C14_ring_expiry / C14_callback_timeout / C14_callback_exactly_once are met by a
-- non-trivial history (other requests, a chained one, responses to other / unknown / huge ids)
example :
    let s := (run (Rpc.init 3) [.request false, .tick]).1
    s.ring ≠ [] ∧ (∀ y ∈ s.ring.flatten, y ≤ s.idAlloc) ∧ RInv s ∧
    NoResponseFor (s.idAlloc + 1) [.request true, .tick, .response 1 0, .response 4294967298 0, .response 7 5, .tick] ∧
    ticks [.request true, .tick, .response 1 0, .response 4294967298 0, .response 7 5, .tick] + 1 = s.ring.length := by
  refine ⟨by decide, by decide, (C14_callback_once _ (RInv_init 3) _ 0).2.2.2, ?_, by decide⟩
  intro rid code h
  simp at h
  rcases h with ⟨rfl, _⟩ | ⟨rfl, _⟩ | ⟨rfl, _⟩ <;> decide

-- response before the deadline; duplicate ignored; second request times out at the 2nd tick, once
example :
    (run (Rpc.init 2) [.request false, .response 1 0, .response 1 0, .request false, .tick, .response 9 0,
                       .tick, .tick, .response 2 0]).2
      = [.sent 1, .fired 0 0, .sent 2, .fired 1 kRequestTimeout] := by decide

-- timed layer: N = 2, request at t0 = 0 with the timer off: ticks scheduled for 1000 and 2000, run late
-- (at 1100 and 2100) because the clock jumps; the id is handed out by the one scheduled for 2000 = t0 + N·1000
example : logT ((Rpc.init 2).request false).1 [.adv 500, .adv 600, .adv 1000]
      = [⟨1000, 1100, []⟩, ⟨2000, 2100, [1]⟩] := by decide
example : TInv (Rpc.init 2) [] ∧ TimeInv (Rpc.init 2) := ⟨TInv_init 2 (by decide), by intro h; simp [Rpc.init] at h⟩

-- world: async service, answered twice and once more after the client's timeout; the callback runs once
example : ((World.run { c := Rpc.init 1, v := Srv.init 2 }
      [.request false .async, .deliver true 0, .srespond 1 0, .srespond 1 5, .deliver false 1, .deliver false 0,
       .ctick, .srespond 1 0, .deliver false 0]).2.1)
      = [.sent 1, .fired 0 5] := by decide

-- n = 1, 3: expiry exactly at the n-th tick; a chained request gets its own deadline
example : (run (Rpc.init 1) [.request true, .tick, .tick, .tick]).2
      = [.sent 1, .fired 0 kRequestTimeout, .sent 2, .fired 1 kRequestTimeout] := by decide
example : (run (Rpc.init 3) [.request false, .tick, .tick]).2 = [.sent 1] ∧
          (run (Rpc.init 3) [.request false, .tick, .tick, .tick]).2 = [.sent 1, .fired 0 kRequestTimeout] := by decide

-- the header round trip and the scanner on a concrete nested text with quotes/backslashes/brackets in strings
example : decodeHeader 0x3e5a (encodeHeader 0x3e5a [0x7b, 0x7d] ++ [1, 2, 3]) = .frame [0x7b, 0x7d] 8 := by decide
example : TopValue [.opn false, .str [.plain 0x61, .esc 0x22, .plain 0x5d, .esc 0x5c], .filler 0x3a,
                    .opn true, .filler 0x31, .cls true, .cls false] :=
  .bracket false _ (.leaf _ _ (by decide) (.leaf _ _ (by decide) (.wrap true [.filler 0x31] [] (.leaf _ _ (by decide) .nil) .nil)))
example : findEndPos [0x20,0x20,0x7b,0x22,0x61,0x5c,0x22,0x5d,0x5c,0x5c,0x22,0x3a,0x5b,0x31,0x5d,0x7d,0x78,0x79,0x7a] = 16 := by decide

end Tbox.C14
