/-
C14 — specification-level definitions.

* `Stable dec`: a framing decoder is *resumable* when a decision other than "need more bytes"
  is never changed by appending bytes.
* the JSON *shape* grammar used for the raw-stream scanner: a text is a sequence of tokens
  (filler bytes that are no quote/bracket/brace, string literals made of plain characters and
  backslash escapes, opening/closing brackets), well nested (`Bal`).  Every JSON text printed by
  any JSON printer is of this shape (numbers, literals, commas, colons and white space are
  filler); the grammar is deliberately more liberal (bracket kinds need not match, exactly as
  the scanner does not check them).
-/
import TboxModel.C14.Model
namespace Tbox.C14

/-- prefix stability of a framing decoder -/
def Stable (dec : List Byte → Frame) : Prop :=
  ∀ b x, dec b ≠ .needMore → dec (b ++ x) = dec b

/-- a frame never claims zero bytes or more bytes than it was given -/
def Progress (dec : List Byte → Frame) : Prop :=
  ∀ b t k, dec b = .frame t k → 0 < k ∧ k ≤ b.length

/-- sequencing of two receive-loop results -/
def andThen {μ} (r : List (Ev μ) × Conn) (k : List Byte → List (Ev μ) × Conn) : List (Ev μ) × Conn :=
  match r.2 with
  | none => (r.1, none)
  | some left => (r.1 ++ (k left).1, (k left).2)

/-! ### JSON shape -/

/-- one character of a string literal's body -/
inductive SChar where
  | plain (c : Byte)      -- any byte except `"` and `\`
  | esc (c : Byte)        -- `\` followed by any byte (`\"`, `\\`, `\n`, `\u` …)
deriving Repr, DecidableEq

def SChar.ok : SChar → Bool
  | .plain c => c ≠ cQuote && c ≠ cBack
  | .esc _ => true

def SChar.print : SChar → List Byte
  | .plain c => [c]
  | .esc c => [cBack, c]

def printBody (body : List SChar) : List Byte := body.flatMap SChar.print

/-- bytes that mean nothing to the scanner outside strings -/
def isFiller (c : Byte) : Bool :=
  c ≠ cQuote && c ≠ cLsq && c ≠ cRsq && c ≠ cLbr && c ≠ cRbr

inductive Tok where
  | filler (c : Byte)
  | str (body : List SChar)
  | opn (sq : Bool)       -- `[` (true) or `{`
  | cls (sq : Bool)       -- `]` (true) or `}`
deriving Repr, DecidableEq

def Tok.print : Tok → List Byte
  | .filler c => [c]
  | .str body => cQuote :: printBody body ++ [cQuote]
  | .opn sq => [if sq then cLsq else cLbr]
  | .cls sq => [if sq then cRsq else cRbr]

def printToks (ts : List Tok) : List Byte := ts.flatMap Tok.print

/-- well-formed leaf tokens -/
def Tok.leafOk : Tok → Bool
  | .filler c => isFiller c
  | .str body => body.all SChar.ok
  | _ => false

/-- balanced token sequences (the inside of an array/object, or a sequence of values) -/
inductive Bal : List Tok → Prop where
  | nil : Bal []
  | leaf (t : Tok) (ts : List Tok) : t.leafOk = true → Bal ts → Bal (t :: ts)
  | wrap (sq : Bool) (a b : List Tok) : Bal a → Bal b → Bal (.opn sq :: a ++ .cls sq :: b)

/-- a top-level JSON value as JSON-RPC uses it: an array or an object (or a string literal) -/
inductive TopValue : List Tok → Prop where
  | bracket (sq : Bool) (a : List Tok) : Bal a → TopValue (.opn sq :: a ++ [.cls sq])
  | str (body : List SChar) : body.all SChar.ok = true → TopValue [.str body]

/-! ### the timeout ring as the ticks see it -/

/-- the slots in the order the coming ticks hand them to the timeout handler:
the slot after the current one first, the current slot last -/
def order : List (List Nat) → List (List Nat)
  | [] => []
  | cur :: rest => rest ++ [cur]

/-- the ids the next tick hands to the timeout handler (`tobe_handle`) -/
def Rpc.nextItems (s : Rpc) : List Nat := (order s.ring).headD []

/-- the ids handed to the timeout handler by each `tick` of an op sequence, in order -/
def runHanded (s : Rpc) : List Op → List (List Nat)
  | [] => []
  | op :: ops =>
    match op with
    | .tick => s.nextItems :: runHanded (step s .tick).1 ops
    | _ => runHanded (step s op).1 ops

def ticks : List Op → Nat
  | [] => 0
  | .tick :: ops => ticks ops + 1
  | _ :: ops => ticks ops

/-- `onTimerTick` as reordered by the seeded change seeded/C14-1 (idle decided before the
callbacks, timer disabled after them) — only used for `C14_pending_timer_on_counterexample` -/
def Rpc.tickSeeded (s : Rpc) : Rpc × List REv :=
  match s.ring with
  | [] => (s, [])
  | cur :: rest =>
    match rest ++ [cur] with
    | [] => (s, [])
    | items :: others =>
      let vn' := s.vn - items.length
      let r := Rpc.completeAll { s with ring := [] :: others, vn := vn' } kRequestTimeout items
      (if vn' = 0 then { r.1 with timerOn := false } else r.1, r.2)

/-! ### the timed layer: clock advances instead of bare ticks -/

inductive TOp where
  | op (o : Op)                        -- any API call / arriving message (a bare `.tick` is ignored here:
                                       --   in the timed layer ticks come from the clock only)
  | adv (ms : Nat)                     -- the clock advances and the loop runs
deriving Repr, DecidableEq

def stepT (s : Rpc) : TOp → Rpc × List REv
  | .op o => if o = .tick then (s, []) else step s o
  | .adv ms => s.advance ms

def runT (s : Rpc) : List TOp → Rpc × List REv
  | [] => (s, [])
  | op :: ops =>
    let r1 := stepT s op
    let r2 := runT r1.1 ops
    (r2.1, r1.2 ++ r2.2)

/-- one executed tick: the expiry time it was scheduled for, the clock when it ran, the ids it handed out -/
structure TickRec where
  sched : Nat
  clock : Nat
  items : List Nat
deriving Repr, DecidableEq

/-- the ticks `Rpc.expire` executes (same recursion, recording instead of returning events) -/
def Rpc.expireLog : Nat → Rpc → List TickRec
  | 0, _ => []
  | fuel + 1, s =>
    if s.timerOn ∧ s.due ≤ s.now then
      ⟨s.due, s.now, s.nextItems⟩ :: Rpc.expireLog fuel (({ s with due := s.due + 1000 }).tick).1
    else []

/-- all ticks executed along a timed run -/
def logT (s : Rpc) : List TOp → List TickRec
  | [] => []
  | op :: ops =>
    (match op with
     | .adv ms => Rpc.expireLog (ms / 1000 + 2) { s with now := s.now + ms }
     | _ => []) ++ logT (stepT s op).1 ops

/-- the timer's phase is sane: while enabled, its expiry lies in the next interval -/
def TimeInv (s : Rpc) : Prop := s.timerOn = true → s.now < s.due ∧ s.due ≤ s.now + 1000

/-! ### scripts without `cleanup()` -/

def Act.noCleanup : Act → Prop
  | .cleanup => False
  | _ => True

instance (a : Act) : Decidable a.noCleanup := by cases a <;> (unfold Act.noCleanup; exact inferInstance)

/-- no callback script of the program calls `cleanup()` -/
def Prog.safe (p : Prog) : Prop :=
  (∀ sc ∈ p.cbs, ∀ a ∈ sc, a.noCleanup) ∧ (∀ h ∈ p.hs, ∀ a ∈ h.acts, a.noCleanup)

/-- the op sequence does not call `cleanup()` at top level -/
def NoCleanupOps (ops : List Op) : Prop := ∀ op ∈ ops, op ≠ .cleanup

instance (ops : List Op) : Decidable (NoCleanupOps ops) := by unfold NoCleanupOps; exact inferInstance

instance (p : Prog) : Decidable p.safe := by unfold Prog.safe; exact inferInstance

def NoCleanupT (ops : List TOp) : Prop := ∀ op ∈ ops, op ≠ .op .cleanup

/-- the object has been cleaned up: nothing pending, nothing monitored, timer off -/
def Cleaned (s : Rpc) : Prop :=
  s.dead = true ∧ s.pending = [] ∧ s.ring = [] ∧ s.vn = 0 ∧ s.timerOn = false

instance (s : Rpc) : Decidable (Cleaned s) := by unfold Cleaned; exact inferInstance

/-- the monitor invariant: every pending request's token (its `seq`) is in the ring, `value_number_` is
the ring's size, the 1-s timer is enabled iff something is monitored -/
def Monitored (s : Rpc) : Prop :=
  (∀ e ∈ s.pending, e.2.tag + 1 ∈ s.ring.flatten) ∧ s.vn = s.ring.flatten.length ∧ (s.timerOn = true ↔ 0 < s.vn)

instance (s : Rpc) : Decidable (Monitored s) := by unfold Monitored; exact inferInstance

/-! ### the code as found, for the counterexamples -/

/-- `TimeoutMonitor::onTimerTick` before patches/C14-06: the sweep calls the member `cb_` itself, which
a `cleanup()` made by one timeout callback clears — the next id calls an empty `std::function`
(`std::bad_function_call` leaves `onTimerTick`): the `Bool` -/
def Rpc.completeAllOrig (s : Rpc) (code : Int) : List Nat → Rpc × List REv × Bool
  | [] => (s, [], false)
  | id :: ids =>
    if s.dead then (s, [], true)
    else
      let r1 := s.expireOne id code
      let r2 := Rpc.completeAllOrig r1.1 code ids
      (r2.1, r1.2 ++ r2.2.1, r2.2.2)

def Rpc.tickOrig (s : Rpc) : Rpc × List REv × Bool :=
  match s.ring with
  | [] => (s, [], false)
  | cur :: rest =>
    match rest ++ [cur] with
    | [] => (s, [], false)
    | items :: others =>
      let vn' := s.vn - items.length
      Rpc.completeAllOrig { s with ring := [] :: others, vn := vn', timerOn := if vn' = 0 then false else s.timerOn }
        kRequestTimeout items

/-- `Rpc::onRecvRequest` before patches/C14-07: after the handler returned the object is used without
asking whether the handler cleaned it up (`respond()` dereferences the null `proto_`; the async branch
adds to a cleaned-up monitor): `.misuse` -/
def Rpc.onRequestOrig (s : Rpc) (id : Int) (m : Nat) : Rpc × List REv :=
  match (s.services.getD m none).bind (fun h => (s.prog.hs[h]?).map (fun hd => (h, hd))) with
  | none => (s, [.answered id kMethodNotFound])
  | some (h, hd) =>
    if id ≠ 0 then
      let s1 := { s with srv := s.srv.insert id }
      let r := s1.runActs id hd.acts
      match hd.ret with
      | .sync code => let r2 := r.1.apiRespond id code; (r2.1, .called id h :: (r.2 ++ r2.2))
      | .async => if r.1.dead then (r.1, .called id h :: (r.2 ++ [.misuse]))
                  else ({ r.1 with srv := r.1.srv.monitorAdd id }, .called id h :: r.2)
    else
      let r := s.runActs 0 hd.acts
      (r.1, .called 0 h :: r.2)

/-! ### two peers: the op sequence one peer sees of a world run -/

/-- ops applied to peer b (`onB = true`) or a by one world op -/
def peerOp (w : World) (onB : Bool) : WOp → List Op
  | .api b op => if b = onB then [op] else []
  | .deliver toB i =>
    if toB = onB then
      (match (if toB then w.ab[i]? else w.ba[i]?) with
       | some m => [m.op]
       | none => [])
    else []
  | _ => []

def peerOps (w : World) (onB : Bool) : List WOp → List Op
  | [] => []
  | op :: ops => peerOp w onB op ++ peerOps (w.step op).1 onB ops

/-! ### the id counter set from outside (`jump`)

`id_alloc_` after any number of requests that were issued and completed in between — and, by
going backwards, after the counter has wrapped: a `jump v` followed by `request` takes the first id
after `v` that is not pending — an id that may still have a (stale) token in the timeout ring.
(Test-only in the harness; the theorems over `runJ` hold for every position of the counter.) -/

inductive JOp where
  | op (o : Op)
  | jump (v : Nat)
deriving Repr, DecidableEq

def stepJ (s : Rpc) : JOp → Rpc × List REv
  | .op o => step s o
  | .jump v => (s.jump v, [])

def runJ (s : Rpc) : List JOp → Rpc × List REv
  | [] => (s, [])
  | op :: ops =>
    let r1 := stepJ s op
    let r2 := runJ r1.1 ops
    (r2.1, r1.2 ++ r2.2)

/-! ### the id allocation and the timeout ring as found (before patches/C14-08, C14-09), for the
counterexample: `id = ++id_alloc_` without a look at the table, the ring holds bare ids and the timeout
handler looks the id up -/

def Rpc.requestOrig (s : Rpc) (script : Nat) (m : Nat := 0) : Rpc × List REv :=
  let id := s.idAlloc + 1
  let cb : Cb := { tag := s.nTag, script := script }
  let s1 := { s with idAlloc := id, nTag := s.nTag + 1,
                     pending := pendingErase s.pending id ++ [(id, cb)] }
  (s1.monitorAdd id, [.sent id m])

def Rpc.completeAllById (s : Rpc) (code : Int) : List Nat → Rpc × List REv
  | [] => (s, [])
  | id :: ids =>
    let r1 := s.complete (id : Int) code
    let r2 := Rpc.completeAllById r1.1 code ids
    (r2.1, r1.2 ++ r2.2)

def Rpc.tickById (s : Rpc) : Rpc × List REv :=
  match s.ring with
  | [] => (s, [])
  | cur :: rest =>
    match rest ++ [cur] with
    | [] => (s, [])
    | items :: others =>
      let vn' := s.vn - items.length
      Rpc.completeAllById { s with ring := [] :: others, vn := vn', timerOn := if vn' = 0 then false else s.timerOn }
        kRequestTimeout items

def stepOrigJ (s : Rpc) : JOp → Rpc × List REv
  | .op (.request c m) => if s.dead then (s, [.misuse]) else s.requestOrig c m
  | .op .tick => s.tickById
  | .op o => step s o
  | .jump v => (s.jump v, [])

def runOrigJ (s : Rpc) : List JOp → Rpc × List REv
  | [] => (s, [])
  | op :: ops =>
    let r1 := stepOrigJ s op
    let r2 := runOrigJ r1.1 ops
    (r2.1, r1.2 ++ r2.2)

/-- the counter and every pending id are positive C++ `int`s -/
def IdInv (s : Rpc) : Prop := s.idAlloc ≤ kIntMax ∧ ∀ e ∈ s.pending, 1 ≤ e.1 ∧ e.1 ≤ kIntMax

end Tbox.C14
