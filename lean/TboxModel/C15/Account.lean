/- C15 — helper lemmas for "no lookup is lost": unless a 16-bit id was handed out while still
outstanding / still in the ring (`idReuse`), every issued lookup is outstanding, called back,
cancelled or was refused — also for lookups issued and cancelled from inside callbacks.
Core Lean only. -/
import TboxModel.C15.Pending
namespace Tbox.C15

/-- keys of `requests_` are distinct (it is a `std::map`) -/
def KU (st : St) : Prop := (st.reqs.map (·.1)).Nodup

/-- every issued lookup is accounted for -/
def Acc (st : St) : Prop :=
  ∀ s, s < st.nextSerial →
    s ∈ st.called ∨ s ∈ st.cancelled ∨ s ∈ st.refused ∨ ∃ e ∈ st.reqs, e.2.serial = s

/-- `idReuse` only ever rises, and while it is down a transition keeps the accounting -/
def Pres (st st' : St) : Prop :=
  st'.idReuse = false → st.idReuse = false ∧ (KU st → Acc st → KU st' ∧ Acc st')

theorem Pres.refl (st : St) : Pres st st := fun h => ⟨h, fun k a => ⟨k, a⟩⟩

theorem Pres.trans {a b c : St} (h1 : Pres a b) (h2 : Pres b c) : Pres a c := by
  intro hc
  obtain ⟨hb, f2⟩ := h2 hc
  obtain ⟨ha, f1⟩ := h1 hb
  exact ⟨ha, fun k a => let r := f1 k a; f2 r.1 r.2⟩

theorem key_inj (l : List (Nat × Req)) (hnd : (l.map (·.1)).Nodup) {e e' : Nat × Req}
    (h1 : e ∈ l) (h2 : e' ∈ l) (heq : e.1 = e'.1) : e = e' := by
  induction l with
  | nil => cases h1
  | cons x l ih =>
    simp only [List.map_cons, List.nodup_cons] at hnd
    rcases List.mem_cons.mp h1 with a | a <;> rcases List.mem_cons.mp h2 with b | b
    · rw [a, b]
    · exfalso; apply hnd.1; rw [← a, heq]; exact List.mem_map.mpr ⟨_, b, rfl⟩
    · exfalso; apply hnd.1; rw [← b, ← heq]; exact List.mem_map.mpr ⟨_, a, rfl⟩
    · exact ih hnd.2 a b

theorem erase_keys_sublist (reqs : List (Nat × Req)) (id : Nat) :
    ((erase reqs id).map (·.1)).Sublist (reqs.map (·.1)) :=
  (List.filter_sublist (l := reqs)).map _

theorem mem_erase_of_ne {reqs : List (Nat × Req)} {id : Nat} {e : Nat × Req} (h : e ∈ reqs) (hne : e.1 ≠ id) :
    e ∈ erase reqs id := by
  unfold erase
  exact List.mem_filter.mpr ⟨h, by simpa using hne⟩

theorem find_none {reqs : List (Nat × Req)} {id : Nat} (h : find reqs id = none) : ∀ e ∈ reqs, e.1 ≠ id := by
  intro e he heq
  unfold find at h
  simp only [Option.map_eq_none_iff] at h
  have := List.find?_eq_none.mp h e he
  simp [heq] at this

theorem bump_keys (reqs : List (Nat × Req)) (id : Nat) :
    (reqs.map fun e => if e.1 == id then (e.1, { e.2 with responseCount := e.2.responseCount + 1 }) else e).map
      (·.1) = reqs.map (·.1) := by
  rw [List.map_map]
  apply List.map_congr_left
  intro e _
  simp only [Function.comp]
  split <;> rfl

theorem lookup_pres (st : St) (sid : Nat) : Pres st (lookup st sid).1 := by
  unfold lookup
  by_cases hs0 : st.servers = 0
  · simp only [hs0, if_true]
    intro hf
    refine ⟨hf, fun hk ha => ⟨hk, ?_⟩⟩
    intro s hs
    by_cases hlt : s < st.nextSerial
    · rcases ha s hlt with h1 | h1 | h1 | h1
      · exact Or.inl h1
      · exact Or.inr (Or.inl h1)
      · exact Or.inr (Or.inr (Or.inl (List.mem_append.mpr (Or.inl h1))))
      · exact Or.inr (Or.inr (Or.inr h1))
    · have : s = st.nextSerial := by
        have : s < st.nextSerial + 1 := hs
        omega
      exact Or.inr (Or.inr (Or.inl (List.mem_append.mpr (Or.inr (by simp [this])))))
  · simp only [hs0, if_false]
    intro hf
    have hf' : st.idReuse = false ∧ find st.reqs ((st.alloc + 1) % 65536) = none := by
      simp only [Bool.or_eq_false_iff] at hf
      refine ⟨hf.1.1, ?_⟩
      have := hf.1.2
      cases hfind : find st.reqs ((st.alloc + 1) % 65536) <;> simp_all
    refine ⟨hf'.1, fun hk ha => ⟨?_, ?_⟩⟩
    · show (List.map _ (_ :: erase st.reqs _)).Nodup
      simp only [List.map_cons, List.nodup_cons]
      refine ⟨?_, List.Nodup.sublist (erase_keys_sublist _ _) hk⟩
      intro hm
      obtain ⟨e, he, hke⟩ := List.mem_map.mp hm
      exact (mem_erase he).2 hke
    · have hno := find_none hf'.2
      intro s hs
      by_cases hlt : s < st.nextSerial
      · rcases ha s hlt with h1 | h1 | h1 | ⟨e, he, hse⟩
        · exact Or.inl h1
        · exact Or.inr (Or.inl h1)
        · exact Or.inr (Or.inr (Or.inl h1))
        · exact Or.inr (Or.inr (Or.inr ⟨e, List.mem_cons_of_mem _ (mem_erase_of_ne he (hno e he)), hse⟩))
      · have : s = st.nextSerial := by
          have : s < st.nextSerial + 1 := hs
          omega
        exact Or.inr (Or.inr (Or.inr ⟨_, List.mem_cons_self, this.symm⟩))

theorem cancel_pres (st : St) (id : Nat) : Pres st (cancel st id).1 := by
  unfold cancel
  cases hf : find st.reqs id with
  | none => exact Pres.refl st
  | some r =>
    dsimp only
    intro hfl
    refine ⟨hfl, fun hk ha => ⟨List.Nodup.sublist (erase_keys_sublist _ _) hk, ?_⟩⟩
    intro s hs
    rcases ha s hs with h1 | h1 | h1 | ⟨e, he, rfl⟩
    · exact Or.inl h1
    · exact Or.inr (Or.inl (List.mem_append.mpr (Or.inl h1)))
    · exact Or.inr (Or.inr (Or.inl h1))
    · by_cases hid : e.1 = id
      · have : e = (id, r) := key_inj st.reqs hk he (find_mem hf) hid
        subst this
        exact Or.inr (Or.inl (List.mem_append.mpr (Or.inr (by simp))))
      · exact Or.inr (Or.inr (Or.inr ⟨e, mem_erase_of_ne he hid, rfl⟩))

theorem runScript_pres (self : Nat) : ∀ (acts : List Act) (st : St), Pres st (runScript self st acts).1 := by
  intro acts
  induction acts with
  | nil => intro st; exact Pres.refl st
  | cons a as ih =>
    intro st
    cases a with
    | lookup sid => simpa [runScript] using (lookup_pres st sid).trans (ih _)
    | cancel id => simpa [runScript] using (cancel_pres st id).trans (ih _)
    | cancelSelf => simpa [runScript] using (cancel_pres st self).trans (ih _)

theorem finish_pres (st : St) (id : Nat) (r : Req) (res : Result) (hf : find st.reqs id = some r) :
    Pres st (finish st id r res).1 := by
  generalize hst0 : ({ st with reqs := erase st.reqs id, called := st.called ++ [r.serial] } : St) = st0
  have hfin : (finish st id r res).1 = (runScript id st0 r.script).1 := by rw [← hst0]; rfl
  rw [hfin]
  refine Pres.trans ?_ (runScript_pres id r.script st0)
  intro hfl
  have hfl' : st.idReuse = false := by rw [← hst0] at hfl; exact hfl
  refine ⟨hfl', fun hk ha => ?_⟩
  rw [← hst0]
  refine ⟨List.Nodup.sublist (erase_keys_sublist _ _) hk, ?_⟩
  intro s hlt
  rcases ha s hlt with h1 | h1 | h1 | ⟨e, he, rfl⟩
  · exact Or.inl (List.mem_append.mpr (Or.inl h1))
  · exact Or.inr (Or.inl h1)
  · exact Or.inr (Or.inr (Or.inl h1))
  · by_cases hid : e.1 = id
    · have : e = (id, r) := key_inj st.reqs hk he (find_mem hf) hid
      subst this
      exact Or.inl (List.mem_append.mpr (Or.inr (by simp)))
    · exact Or.inr (Or.inr (Or.inr ⟨e, mem_erase_of_ne he hid, rfl⟩))

theorem applyReply_pres (st : St) (rep : Reply) : Pres st (applyReply st rep).1 := by
  cases rep with
  | ignore => exact Pres.refl st
  | answer id a c =>
    simp only [applyReply]
    cases hf : find st.reqs id with
    | none => exact Pres.refl st
    | some r => exact finish_pres _ _ _ _ hf
  | rcode id rc =>
    simp only [applyReply]
    cases hf : find st.reqs id with
    | none => exact Pres.refl st
    | some r =>
      simp only
      split
      · exact finish_pres _ _ _ _ hf
      · split
        · exact finish_pres _ _ _ _ hf
        · split
          · intro hfl
            refine ⟨hfl, fun hk ha => ⟨?_, ?_⟩⟩
            · show (List.map _ (List.map _ st.reqs)).Nodup
              rw [bump_keys]; exact hk
            · intro s hs
              rcases ha s hs with h1 | h1 | h1 | ⟨e, he, rfl⟩
              · exact Or.inl h1
              · exact Or.inr (Or.inl h1)
              · exact Or.inr (Or.inr (Or.inl h1))
              · refine Or.inr (Or.inr (Or.inr ⟨_, List.mem_map.mpr ⟨e, he, rfl⟩, ?_⟩))
                split <;> rfl
          · exact finish_pres _ _ _ _ hf

theorem onRecv_pres (st : St) (d : List Byte) : Pres st (onRecv st d).1 := by
  unfold onRecv
  split
  · exact Pres.refl st
  · split
    · exact applyReply_pres _ _
    · exact Pres.refl st

theorem foldl_onTimeout_pres {st0 : St} (items : List Nat) :
    ∀ (acc : St × List Event), Pres st0 acc.1 → Pres st0 (items.foldl onTimeout acc).1 := by
  induction items with
  | nil => intro acc h; exact h
  | cons x l ih =>
    intro acc h
    apply ih
    unfold onTimeout
    cases hf : find acc.1.reqs x with
    | none => exact h
    | some r => exact h.trans (finish_pres acc.1 x r { status := .timeout } hf)

theorem tick_pres (st : St) : Pres st (tick st).1 := by
  unfold tick
  split
  · exact Pres.refl st
  · apply foldl_onTimeout_pres
    exact fun h => ⟨h, fun k a => ⟨k, a⟩⟩

theorem step_pres (st : St) (op : Op) : Pres st (step st op).1 := by
  cases op with
  | servers n => exact fun h => ⟨h, fun k a => ⟨k, a⟩⟩
  | defScript acts => exact fun h => ⟨h, fun k a => ⟨k, a⟩⟩
  | lookup sid => exact lookup_pres st sid
  | cancel id => exact cancel_pres st id
  | running id => exact Pres.refl st
  | recv d => exact onRecv_pres st d
  | tick => exact tick_pres st

theorem run_pres : ∀ (ops : List Op) (st : St), Pres st (run st ops).1 := by
  intro ops
  induction ops with
  | nil => intro st; exact Pres.refl st
  | cons op ops ih => intro st; simpa [run] using (step_pres st op).trans (ih _)

/-! ### the ghost log `called` is exactly the list of callback invocations -/

def CalledOK (st st' : St) (evs : List Event) : Prop := st'.called = st.called ++ evs.map (·.serial)

theorem CalledOK.refl (st : St) : CalledOK st st [] := by simp [CalledOK]

theorem CalledOK.trans {a b c : St} {e1 e2 : List Event} (h1 : CalledOK a b e1) (h2 : CalledOK b c e2) :
    CalledOK a c (e1 ++ e2) := by
  unfold CalledOK at *
  rw [h2, h1, List.map_append, List.append_assoc]

theorem runScript_called (self : Nat) : ∀ (acts : List Act) (st : St), (runScript self st acts).1.called = st.called := by
  intro acts
  induction acts with
  | nil => intro st; rfl
  | cons a as ih =>
    intro st
    cases a with
    | lookup sid =>
      simp only [runScript]; rw [ih]; unfold lookup; split <;> rfl
    | cancel id =>
      simp only [runScript]; rw [ih]; unfold cancel; split <;> rfl
    | cancelSelf =>
      simp only [runScript]; rw [ih]; unfold cancel; split <;> rfl

theorem finish_called (st : St) (id : Nat) (r : Req) (res : Result) :
    CalledOK st (finish st id r res).1 (finish st id r res).2 := by
  have := runScript_called id r.script { st with reqs := erase st.reqs id, called := st.called ++ [r.serial] }
  unfold CalledOK
  show (runScript id _ r.script).1.called = _
  rw [this]; rfl

theorem applyReply_called (st : St) (rep : Reply) : CalledOK st (applyReply st rep).1 (applyReply st rep).2 := by
  cases rep with
  | ignore => exact CalledOK.refl st
  | answer id a c =>
    simp only [applyReply]
    split
    · exact CalledOK.refl st
    · exact finish_called _ _ _ _
  | rcode id rc =>
    simp only [applyReply]
    split
    · exact CalledOK.refl st
    · split
      · exact finish_called _ _ _ _
      · split
        · exact finish_called _ _ _ _
        · split
          · simp [CalledOK]
          · exact finish_called _ _ _ _

theorem foldl_onTimeout_called {st0 : St} (items : List Nat) :
    ∀ (acc : St × List Event), CalledOK st0 acc.1 acc.2 →
      CalledOK st0 (items.foldl onTimeout acc).1 (items.foldl onTimeout acc).2 := by
  induction items with
  | nil => intro acc h; exact h
  | cons x l ih =>
    intro acc h
    apply ih
    unfold onTimeout
    split
    · exact h
    · rename_i r _
      exact h.trans (finish_called acc.1 x r { status := .timeout })

theorem step_called (st : St) (op : Op) : CalledOK st (step st op).1 (step st op).2.events := by
  cases op with
  | servers n => simp [CalledOK, step]
  | defScript acts => simp [CalledOK, step]
  | lookup sid => simp only [step, CalledOK]; unfold lookup; split <;> simp
  | cancel id => simp only [step, CalledOK]; unfold cancel; split <;> simp
  | running id => simp [CalledOK, step]
  | recv d =>
    simp only [step]
    unfold onRecv
    split
    · exact CalledOK.refl st
    · split
      · exact applyReply_called _ _
      · exact CalledOK.refl st
  | tick =>
    simp only [step]
    unfold tick
    split
    · exact CalledOK.refl st
    · apply foldl_onTimeout_called
      simp [CalledOK]

theorem run_called : ∀ (ops : List Op) (st : St), CalledOK st (run st ops).1 (allEvents (run st ops).2) := by
  intro ops
  induction ops with
  | nil => intro st; exact CalledOK.refl st
  | cons op ops ih =>
    intro st
    simpa [run, allEvents] using (step_called st op).trans (ih _)

end Tbox.C15
