/- C15 — helper lemmas for "no lookup is lost": under `freshRun` every issued lookup is
outstanding, called back, cancelled or was refused.  Core Lean only. -/
import TboxModel.C15.Pending
namespace Tbox.C15

/-- keys of `requests_` are distinct (it is a `std::map`) -/
def KU (st : St) : Prop := (st.reqs.map (·.1)).Nodup

/-- every entry of `st.reqs` is still in `st'.reqs` (same serial) or its callback is in `evs` -/
def Leaves (st st' : St) (evs : List Event) : Prop :=
  ∀ e ∈ st.reqs, (∃ e' ∈ st'.reqs, e'.2.serial = e.2.serial) ∨ e.2.serial ∈ evs.map (·.serial)

theorem Leaves.refl (st : St) : Leaves st st [] := fun e he => Or.inl ⟨e, he, rfl⟩

theorem Leaves.trans {st st1 st2 : St} {e1 e2 : List Event} (h1 : Leaves st st1 e1) (h2 : Leaves st1 st2 e2) :
    Leaves st st2 (e1 ++ e2) := by
  intro e he
  rcases h1 e he with ⟨e', he', hs⟩ | h
  · rcases h2 e' he' with ⟨e'', he'', hs'⟩ | h
    · exact Or.inl ⟨e'', he'', hs'.trans hs⟩
    · right; rw [List.map_append]; exact List.mem_append.mpr (Or.inr (hs ▸ h))
  · right; rw [List.map_append]; exact List.mem_append.mpr (Or.inl h)

theorem key_inj (l : List (Nat × Req)) (hnd : (l.map (·.1)).Nodup) {e e' : Nat × Req}
    (h1 : e ∈ l) (h2 : e' ∈ l) (heq : e.1 = e'.1) : e = e' := by
  induction l with
  | nil => cases h1
  | cons x l ih =>
    simp only [List.map_cons, List.nodup_cons] at hnd
    rcases List.mem_cons.mp h1 with a | a <;> rcases List.mem_cons.mp h2 with b | b
    · rw [a, b]
    · exfalso; apply hnd.1; rw [← a, heq]; exact List.mem_map.mpr ⟨_, b, rfl⟩
    · exfalso; apply hnd.1; rw [← b, ← heq]; exact List.mem_map.mpr ⟨_, a, rfl⟩
    · exact ih hnd.2 a b

theorem erase_keys_sublist (reqs : List (Nat × Req)) (id : Nat) :
    ((erase reqs id).map (·.1)).Sublist (reqs.map (·.1)) :=
  (List.filter_sublist (l := reqs)).map _

theorem mem_erase_of_ne {reqs : List (Nat × Req)} {id : Nat} {e : Nat × Req} (h : e ∈ reqs) (hne : e.1 ≠ id) :
    e ∈ erase reqs id := by
  unfold erase
  exact List.mem_filter.mpr ⟨h, by simpa using hne⟩

theorem ku_erase {st : St} (id : Nat) (h : KU st) : KU { st with reqs := erase st.reqs id } :=
  List.Nodup.sublist (erase_keys_sublist _ _) h

theorem finish_leaves {st : St} {id : Nat} {r : Req} (res : Result) (hk : KU st) (hf : find st.reqs id = some r) :
    Leaves st (finish st id r res).1 (finish st id r res).2 ∧ KU (finish st id r res).1 := by
  refine ⟨?_, ku_erase id hk⟩
  intro e he
  by_cases hid : e.1 = id
  · right
    have : e = (id, r) := key_inj st.reqs hk he (find_mem hf) hid
    subst this
    simp [finish]
  · exact Or.inl ⟨e, mem_erase_of_ne he hid, rfl⟩

theorem find_none {reqs : List (Nat × Req)} {id : Nat} (h : find reqs id = none) : ∀ e ∈ reqs, e.1 ≠ id := by
  intro e he heq
  unfold find at h
  simp only [Option.map_eq_none_iff] at h
  have := List.find?_eq_none.mp h e he
  simp [heq] at this

theorem bump_keys (reqs : List (Nat × Req)) (id : Nat) :
    (reqs.map fun e => if e.1 == id then (e.1, { e.2 with responseCount := e.2.responseCount + 1 }) else e).map
      (·.1) = reqs.map (·.1) := by
  rw [List.map_map]
  apply List.map_congr_left
  intro e _
  simp only [Function.comp]
  split <;> rfl

theorem applyReply_leaves {st : St} (rep : Reply) (hk : KU st) :
    Leaves st (applyReply st rep).1 (applyReply st rep).2 ∧ KU (applyReply st rep).1 := by
  cases rep with
  | ignore => exact ⟨Leaves.refl st, hk⟩
  | answer id a c =>
    simp only [applyReply]
    cases hf : find st.reqs id with
    | none => exact ⟨Leaves.refl st, hk⟩
    | some r => exact finish_leaves _ hk hf
  | rcode id rc =>
    simp only [applyReply]
    cases hf : find st.reqs id with
    | none => exact ⟨Leaves.refl st, hk⟩
    | some r =>
      simp only
      split
      · exact finish_leaves _ hk hf
      · split
        · exact finish_leaves _ hk hf
        · split
          · refine ⟨?_, ?_⟩
            · intro e he
              left
              refine ⟨_, List.mem_map.mpr ⟨e, he, rfl⟩, ?_⟩
              split <;> rfl
            · show (List.map _ (List.map _ st.reqs)).Nodup
              rw [bump_keys]; exact hk
          · exact finish_leaves _ hk hf

theorem onRecv_leaves {st : St} (d : List Byte) (hk : KU st) :
    Leaves st (onRecv st d).1 (onRecv st d).2 ∧ KU (onRecv st d).1 := by
  unfold onRecv
  split
  · exact ⟨Leaves.refl st, hk⟩
  · split
    · exact applyReply_leaves _ hk
    · exact ⟨Leaves.refl st, hk⟩

theorem foldl_onTimeout_leaves {st0 : St} (items : List Nat) :
    ∀ (acc : St × List Event), Leaves st0 acc.1 acc.2 ∧ KU acc.1 →
      Leaves st0 (items.foldl onTimeout acc).1 (items.foldl onTimeout acc).2 ∧ KU (items.foldl onTimeout acc).1 := by
  induction items with
  | nil => intro acc h; exact h
  | cons x l ih =>
    intro acc h
    apply ih
    unfold onTimeout
    cases hf : find acc.1.reqs x with
    | none => exact h
    | some r =>
      have := finish_leaves { status := .timeout } h.2 hf
      exact ⟨h.1.trans this.1, this.2⟩

theorem tick_leaves {st : St} (hk : KU st) : Leaves st (tick st).1 (tick st).2 ∧ KU (tick st).1 := by
  unfold tick
  split
  · exact ⟨Leaves.refl st, hk⟩
  · apply foldl_onTimeout_leaves
    exact ⟨fun e he => Or.inl ⟨e, he, rfl⟩, hk⟩

/-- every issued lookup is accounted for -/
def Acc (st : St) (h : Hist) : Prop :=
  ∀ s, s < st.nextSerial →
    s ∈ h.called ∨ s ∈ h.cancelled ∨ s ∈ h.refused ∨ ∃ e ∈ st.reqs, e.2.serial = s

/-- generic preservation: histories only grow, entries only leave through a callback -/
theorem acc_of_leaves {st st' : St} {h : Hist} {evs : List Event} (ha : Acc st h)
    (hl : Leaves st st' evs) (hn : st'.nextSerial = st.nextSerial) :
    Acc st' { h with called := h.called ++ evs.map (·.serial) } := by
  intro s hs
  rw [hn] at hs
  rcases ha s hs with h1 | h1 | h1 | ⟨e, he, rfl⟩
  · exact Or.inl (List.mem_append.mpr (Or.inl h1))
  · exact Or.inr (Or.inl h1)
  · exact Or.inr (Or.inr (Or.inl h1))
  · rcases hl e he with ⟨e', he', hs'⟩ | h2
    · exact Or.inr (Or.inr (Or.inr ⟨e', he', hs'⟩))
    · exact Or.inl (List.mem_append.mpr (Or.inr h2))

theorem applyReply_nextSerial (st : St) (rep : Reply) : (applyReply st rep).1.nextSerial = st.nextSerial := by
  cases rep <;> simp only [applyReply] <;> repeat' (first | rfl | split)

theorem onRecv_nextSerial (st : St) (d : List Byte) : (onRecv st d).1.nextSerial = st.nextSerial := by
  unfold onRecv
  split
  · rfl
  · split
    · exact applyReply_nextSerial _ _
    · rfl

theorem foldl_onTimeout_nextSerial (items : List Nat) :
    ∀ acc : St × List Event, (items.foldl onTimeout acc).1.nextSerial = acc.1.nextSerial := by
  induction items with
  | nil => intro acc; rfl
  | cons x l ih =>
    intro acc
    rw [List.foldl_cons, ih]
    unfold onTimeout
    split <;> rfl

theorem tick_nextSerial (st : St) : (tick st).1.nextSerial = st.nextSerial := by
  unfold tick
  split
  · rfl
  · simp only [foldl_onTimeout_nextSerial]

theorem step_acc {st : St} {h : Hist} (op : Op) (hk : KU st) (ha : Acc st h)
    (hfresh : freshRun st [op] = true) :
    Acc (step st op).1 (histStep st h op) ∧ KU (step st op).1 := by
  cases op with
  | servers n =>
    refine ⟨?_, hk⟩
    have := acc_of_leaves (st' := { st with servers := n }) (evs := []) ha (fun e he => Or.inl ⟨e, he, rfl⟩) rfl
    simpa [histStep, step] using this
  | running id =>
    refine ⟨?_, hk⟩
    have := acc_of_leaves (evs := []) ha (Leaves.refl st) rfl
    simpa [histStep, step] using this
  | recv d =>
    have hl := onRecv_leaves d hk
    refine ⟨?_, hl.2⟩
    have := acc_of_leaves ha hl.1 (onRecv_nextSerial st d)
    simpa [histStep, step] using this
  | tick =>
    have hl := tick_leaves hk
    refine ⟨?_, hl.2⟩
    have := acc_of_leaves ha hl.1 (tick_nextSerial st)
    simpa [histStep, step] using this
  | cancel id =>
    simp only [step, histStep, cancel]
    cases hf : find st.reqs id with
    | none =>
      refine ⟨?_, hk⟩
      have := acc_of_leaves (evs := []) ha (Leaves.refl st) rfl
      simpa using this
    | some r =>
      refine ⟨?_, ku_erase id hk⟩
      intro s hs
      rcases ha s hs with h1 | h1 | h1 | ⟨e, he, rfl⟩
      · exact Or.inl (by simpa using h1)
      · exact Or.inr (Or.inl (List.mem_append.mpr (Or.inl h1)))
      · exact Or.inr (Or.inr (Or.inl h1))
      · by_cases hid : e.1 = id
        · have : e = (id, r) := key_inj st.reqs hk he (find_mem hf) hid
          subst this
          exact Or.inr (Or.inl (List.mem_append.mpr (Or.inr (by simp))))
        · exact Or.inr (Or.inr (Or.inr ⟨e, mem_erase_of_ne he hid, rfl⟩))
  | lookup =>
    simp only [step, histStep, lookup]
    by_cases hs0 : st.servers = 0
    · simp only [hs0, if_true]
      refine ⟨?_, hk⟩
      intro s hs
      by_cases hlt : s < st.nextSerial
      · rcases ha s hlt with h1 | h1 | h1 | h1
        · exact Or.inl (by simpa using h1)
        · exact Or.inr (Or.inl h1)
        · exact Or.inr (Or.inr (Or.inl (List.mem_append.mpr (Or.inl h1))))
        · exact Or.inr (Or.inr (Or.inr h1))
      · have : s = st.nextSerial := by
          have : s < st.nextSerial + 1 := hs
          omega
        exact Or.inr (Or.inr (Or.inl (List.mem_append.mpr (Or.inr (by simp [this])))))
    · simp only [hs0, if_false]
      have hfr : find st.reqs ((st.alloc + 1) % 65536) = none := by
        simp [freshRun, hs0] at hfresh
        exact hfresh
      have hno := find_none hfr
      refine ⟨?_, ?_⟩
      · intro s hs
        by_cases hlt : s < st.nextSerial
        · rcases ha s hlt with h1 | h1 | h1 | ⟨e, he, hse⟩
          · exact Or.inl (by simpa using h1)
          · exact Or.inr (Or.inl h1)
          · exact Or.inr (Or.inr (Or.inl h1))
          · exact Or.inr (Or.inr (Or.inr ⟨e, List.mem_cons_of_mem _ (mem_erase_of_ne he (hno e he)), hse⟩))
        · have : s = st.nextSerial := by
            have : s < st.nextSerial + 1 := hs
            omega
          exact Or.inr (Or.inr (Or.inr ⟨_, List.mem_cons_self, this.symm⟩))
      · show (List.map _ (_ :: erase st.reqs _)).Nodup
        simp only [List.map_cons, List.nodup_cons]
        refine ⟨?_, List.Nodup.sublist (erase_keys_sublist _ _) hk⟩
        intro hm
        obtain ⟨e, he, hke⟩ := List.mem_map.mp hm
        exact (mem_erase he).2 hke

theorem runH_acc : ∀ (ops : List Op) (st : St) (h : Hist), KU st → Acc st h → freshRun st ops = true →
    Acc (runH st h ops).1 (runH st h ops).2 := by
  intro ops
  induction ops with
  | nil => intro st h _ ha _; exact ha
  | cons op ops ih =>
    intro st h hk ha hf
    have hf1 : freshRun st [op] = true := by
      simp only [freshRun, Bool.and_eq_true] at hf ⊢
      exact ⟨hf.1, trivial⟩
    have hf2 : freshRun (step st op).1 ops = true := by
      simp only [freshRun, Bool.and_eq_true] at hf
      exact hf.2
    have := step_acc op hk ha hf1
    exact ih _ _ this.2 this.1 hf2

end Tbox.C15
