/- C15 — helper lemmas for "no lookup is lost": the id allocation always finds a free id while
fewer than 65 535 lookups are outstanding (pigeonhole), so no outstanding lookup is ever
overwritten; every issued lookup is outstanding, called back, cancelled or was refused — also for
lookups issued and cancelled from inside callbacks; a cancelled lookup is never called.
Core Lean only. -/
import TboxModel.C15.Pending
namespace Tbox.C15

/-- keys of `requests_` are distinct (it is a `std::map`) -/
def KU (st : St) : Prop := (st.reqs.map (·.1)).Nodup

/-- every issued lookup is accounted for -/
def Acc (st : St) : Prop :=
  ∀ s, s < st.nextSerial →
    s ∈ st.called ∨ s ∈ st.cancelled ∨ s ∈ st.refused ∨ ∃ e ∈ st.reqs, e.2.serial = s

/-- a transition keeps the accounting -/
def Pres (st st' : St) : Prop := KU st → Acc st → KU st' ∧ Acc st'

theorem Pres.refl (st : St) : Pres st st := fun k a => ⟨k, a⟩

theorem Pres.trans {a b c : St} (h1 : Pres a b) (h2 : Pres b c) : Pres a c :=
  fun k a => let r := h1 k a; h2 r.1 r.2

theorem key_inj (l : List (Nat × Req)) (hnd : (l.map (·.1)).Nodup) {e e' : Nat × Req}
    (h1 : e ∈ l) (h2 : e' ∈ l) (heq : e.1 = e'.1) : e = e' := by
  induction l with
  | nil => cases h1
  | cons x l ih =>
    simp only [List.map_cons, List.nodup_cons] at hnd
    rcases List.mem_cons.mp h1 with a | a <;> rcases List.mem_cons.mp h2 with b | b
    · rw [a, b]
    · exfalso; apply hnd.1; rw [← a, heq]; exact List.mem_map.mpr ⟨_, b, rfl⟩
    · exfalso; apply hnd.1; rw [← b, ← heq]; exact List.mem_map.mpr ⟨_, a, rfl⟩
    · exact ih hnd.2 a b

theorem erase_keys_sublist (reqs : List (Nat × Req)) (id : Nat) :
    ((erase reqs id).map (·.1)).Sublist (reqs.map (·.1)) :=
  (List.filter_sublist (l := reqs)).map _

theorem mem_erase_of_ne {reqs : List (Nat × Req)} {id : Nat} {e : Nat × Req} (h : e ∈ reqs) (hne : e.1 ≠ id) :
    e ∈ erase reqs id := by
  unfold erase
  exact List.mem_filter.mpr ⟨h, by simpa using hne⟩

theorem find_none {reqs : List (Nat × Req)} {id : Nat} (h : find reqs id = none) : ∀ e ∈ reqs, e.1 ≠ id := by
  intro e he heq
  unfold find at h
  simp only [Option.map_eq_none_iff] at h
  have := List.find?_eq_none.mp h e he
  simp [heq] at this

theorem bump_keys (reqs : List (Nat × Req)) (id : Nat) :
    (reqs.map fun e => if e.1 == id then (e.1, { e.2 with responseCount := e.2.responseCount + 1 }) else e).map
      (·.1) = reqs.map (·.1) := by
  rw [List.map_map]
  apply List.map_congr_left
  intro e _
  simp only [Function.comp]
  split <;> rfl

/-! ### the id allocation loop terminates with a free id (pigeonhole) -/

theorem nodup_subset_length : ∀ (l m : List Nat), l.Nodup → (∀ x ∈ l, x ∈ m) → l.length ≤ m.length := by
  intro l
  induction l with
  | nil => intro m _ _; exact Nat.zero_le _
  | cons a l ih =>
    intro m hl hs
    rw [List.nodup_cons] at hl
    have ha : a ∈ m := hs a List.mem_cons_self
    have hsub : ∀ x ∈ l, x ∈ m.erase a := by
      intro x hx
      have hne : x ≠ a := fun h => hl.1 (h ▸ hx)
      exact (List.mem_erase_of_ne hne).mpr (hs x (List.mem_cons_of_mem _ hx))
    have := ih (m.erase a) hl.2 hsub
    rw [List.length_erase_of_mem ha] at this
    have hpos := List.length_pos_of_mem ha
    simp only [List.length_cons]
    omega

/-- the loop either stops at a usable id or every id it looked at was 0 or outstanding -/
theorem probe_spec (reqs : List (Nat × Req)) : ∀ (f a : Nat),
    (probe reqs f a ≠ 0 ∧ find reqs (probe reqs f a) = none) ∨
    (∀ j, 1 ≤ j → j ≤ f → (a + j) % 65536 = 0 ∨ (find reqs ((a + j) % 65536)).isSome = true) := by
  intro f
  induction f with
  | zero => intro a; right; intro j h1 h2; omega
  | succ f ih =>
    intro a
    unfold probe
    by_cases hbad : (a + 1) % 65536 = 0 ∨ (find reqs ((a + 1) % 65536)).isSome = true
    · simp only [hbad, if_true]
      rcases ih ((a + 1) % 65536) with h | h
      · exact Or.inl h
      · right
        intro j h1 h2
        by_cases hj : j = 1
        · subst hj; exact hbad
        · have := h (j - 1) (by omega) (by omega)
          have e : ((a + 1) % 65536 + (j - 1)) % 65536 = (a + j) % 65536 := by omega
          rw [e] at this
          exact this
    · simp only [hbad, if_false]
      left
      refine ⟨fun h => hbad (Or.inl h), ?_⟩
      cases hf : find reqs ((a + 1) % 65536) with
      | none => rfl
      | some r => exact absurd (Or.inr (by rw [hf]; rfl)) hbad

/-- **fuel suffices**: with distinct keys and fewer than 65 535 lookups outstanding, 65 536 steps
of the allocation loop end at an id that is not 0 and not outstanding -/
theorem probe_good (reqs : List (Nat × Req)) (a : Nat) (hl : reqs.length < 65535) :
    probe reqs 65536 a ≠ 0 ∧ find reqs (probe reqs 65536 a) = none := by
  rcases probe_spec reqs 65536 a with h | h
  · exact h
  · exfalso
    have hall : ∀ k ∈ List.range' 1 65535, k ∈ reqs.map (·.1) := by
      intro k hk'
      have hk2 : 1 ≤ k ∧ k < 65536 := by
        have := List.mem_range'_1.mp hk'
        omega
      -- the step at which the loop looks at id k
      have hj : ∃ j, 1 ≤ j ∧ j ≤ 65536 ∧ (a + j) % 65536 = k := by
        refine ⟨(k + 65536 - a % 65536 - 1) % 65536 + 1, by omega, by omega, by omega⟩
      obtain ⟨j, j1, j2, j3⟩ := hj
      rcases h j j1 j2 with h0 | hs
      · omega
      · rw [j3] at hs
        cases hf : find reqs k with
        | none => rw [hf] at hs; cases hs
        | some r => exact List.mem_map.mpr ⟨(k, r), find_mem hf, rfl⟩
    have := nodup_subset_length _ _ (List.nodup_range' (s := 1) (n := 65535)) hall
    simp only [List.length_range', List.length_map] at this
    omega

/-! ### accounting -/

theorem refuse_pres (st : St) : Pres st (refuse st).1 := by
  intro hk ha
  refine ⟨hk, ?_⟩
  intro s hs
  by_cases hlt : s < st.nextSerial
  · rcases ha s hlt with h1 | h1 | h1 | h1
    · exact Or.inl h1
    · exact Or.inr (Or.inl h1)
    · exact Or.inr (Or.inr (Or.inl (List.mem_cons_of_mem _ h1)))
    · exact Or.inr (Or.inr (Or.inr h1))
  · have : s = st.nextSerial := by
      have : s < st.nextSerial + 1 := hs
      omega
    exact Or.inr (Or.inr (Or.inl (by rw [this]; exact List.mem_cons_self)))

theorem lookup_pres (st : St) (sid : Nat) : Pres st (lookup st sid).1 := by
  unfold lookup
  split
  · exact refuse_pres st
  · split
    · exact refuse_pres st
    · rename_i _ hlen
      intro hk ha
      have hgood := probe_good st.reqs st.alloc (by omega)
      refine ⟨?_, ?_⟩
      · show (List.map _ (_ :: erase st.reqs _)).Nodup
        simp only [List.map_cons, List.nodup_cons]
        refine ⟨?_, List.Nodup.sublist (erase_keys_sublist _ _) hk⟩
        intro hm
        obtain ⟨e, he, hke⟩ := List.mem_map.mp hm
        exact (mem_erase he).2 hke
      · have hno := find_none hgood.2
        intro s hs
        by_cases hlt : s < st.nextSerial
        · rcases ha s hlt with h1 | h1 | h1 | ⟨e, he, hse⟩
          · exact Or.inl h1
          · exact Or.inr (Or.inl h1)
          · exact Or.inr (Or.inr (Or.inl h1))
          · exact Or.inr (Or.inr (Or.inr ⟨e, List.mem_cons_of_mem _ (mem_erase_of_ne he (hno e he)), hse⟩))
        · have : s = st.nextSerial := by
            have : s < st.nextSerial + 1 := hs
            omega
          exact Or.inr (Or.inr (Or.inr ⟨_, List.mem_cons_self, this.symm⟩))

theorem cancel_pres (st : St) (id : Nat) : Pres st (cancel st id).1 := by
  unfold cancel
  cases hf : find st.reqs id with
  | none => exact Pres.refl st
  | some r =>
    dsimp only
    intro hk ha
    refine ⟨List.Nodup.sublist (erase_keys_sublist _ _) hk, ?_⟩
    intro s hs
    rcases ha s hs with h1 | h1 | h1 | ⟨e, he, rfl⟩
    · exact Or.inl h1
    · exact Or.inr (Or.inl (List.mem_cons_of_mem _ h1))
    · exact Or.inr (Or.inr (Or.inl h1))
    · by_cases hid : e.1 = id
      · have : e = (id, r) := key_inj st.reqs hk he (find_mem hf) hid
        subst this
        exact Or.inr (Or.inl List.mem_cons_self)
      · exact Or.inr (Or.inr (Or.inr ⟨e, mem_erase_of_ne he hid, rfl⟩))

theorem doAct_pres (self : Nat) (st : St) (a : Act) : Pres st (doAct self st a).1 := by
  cases a with
  | lookup sid => exact lookup_pres st sid
  | cancel id => exact cancel_pres st id
  | cancelSelf => exact cancel_pres st self
  | servers n => exact fun k a => ⟨k, a⟩
  | running id => exact Pres.refl st
  | runningSelf => exact Pres.refl st

theorem runScript_pres (self : Nat) : ∀ (acts : List Act) (st : St), Pres st (runScript self st acts).1 := by
  intro acts
  induction acts with
  | nil => intro st; exact Pres.refl st
  | cons a as ih => intro st; simpa [runScript] using (doAct_pres self st a).trans (ih _)

theorem finish_pres (st : St) (id : Nat) (r : Req) (res : Result) (hf : find st.reqs id = some r) :
    Pres st (finish st id r res).1 := by
  generalize hst0 : ({ st with reqs := erase st.reqs id, called := st.called ++ [r.serial] } : St) = st0
  have hfin : (finish st id r res).1 = (runScript id st0 r.script).1 := by rw [← hst0]; rfl
  rw [hfin]
  refine Pres.trans ?_ (runScript_pres id r.script st0)
  intro hk ha
  rw [← hst0]
  refine ⟨List.Nodup.sublist (erase_keys_sublist _ _) hk, ?_⟩
  intro s hlt
  rcases ha s hlt with h1 | h1 | h1 | ⟨e, he, rfl⟩
  · exact Or.inl (List.mem_append.mpr (Or.inl h1))
  · exact Or.inr (Or.inl h1)
  · exact Or.inr (Or.inr (Or.inl h1))
  · by_cases hid : e.1 = id
    · have : e = (id, r) := key_inj st.reqs hk he (find_mem hf) hid
      subst this
      exact Or.inl (List.mem_append.mpr (Or.inr (by simp)))
    · exact Or.inr (Or.inr (Or.inr ⟨e, mem_erase_of_ne he hid, rfl⟩))

theorem applyReply_pres (st : St) (rep : Reply) : Pres st (applyReply st rep).1 := by
  cases rep with
  | ignore => exact Pres.refl st
  | answer id a c =>
    simp only [applyReply]
    cases hf : find st.reqs id with
    | none => exact Pres.refl st
    | some r => exact finish_pres _ _ _ _ hf
  | rcode id rc =>
    simp only [applyReply]
    cases hf : find st.reqs id with
    | none => exact Pres.refl st
    | some r =>
      simp only
      split
      · exact finish_pres _ _ _ _ hf
      · split
        · exact finish_pres _ _ _ _ hf
        · split
          · intro hk ha
            refine ⟨?_, ?_⟩
            · show (List.map _ (List.map _ st.reqs)).Nodup
              rw [bump_keys]; exact hk
            · intro s hs
              rcases ha s hs with h1 | h1 | h1 | ⟨e, he, rfl⟩
              · exact Or.inl h1
              · exact Or.inr (Or.inl h1)
              · exact Or.inr (Or.inr (Or.inl h1))
              · refine Or.inr (Or.inr (Or.inr ⟨_, List.mem_map.mpr ⟨e, he, rfl⟩, ?_⟩))
                split <;> rfl
          · exact finish_pres _ _ _ _ hf

theorem onRecv_pres (st : St) (d : List Byte) : Pres st (onRecv st d).1 := by
  unfold onRecv
  split
  · exact Pres.refl st
  · split
    · exact applyReply_pres _ _
    · exact Pres.refl st

theorem foldl_onTimeout_pres {st0 : St} (items : List Token) :
    ∀ (acc : St × List Event), Pres st0 acc.1 → Pres st0 (items.foldl onTimeout acc).1 := by
  induction items with
  | nil => intro acc h; exact h
  | cons x l ih =>
    intro acc h
    apply ih
    unfold onTimeout
    cases hf : find acc.1.reqs x.1 with
    | none => exact h
    | some r =>
      dsimp only
      split
      · exact h.trans (finish_pres acc.1 x.1 r { status := .timeout } hf)
      · exact h

theorem tick_pres (st : St) : Pres st (tick st).1 := by
  unfold tick
  split
  · exact Pres.refl st
  · apply foldl_onTimeout_pres
    exact fun k a => ⟨k, a⟩

theorem sockEvent_pres (st : St) (a : KAns) : Pres st (sockEvent st a).1 := by
  rcases sockEvent_cases st a with e | ⟨d, e⟩
  · rw [e]; exact Pres.refl st
  · rw [e]; exact onRecv_pres st _

theorem sockRun_pres : ∀ (as : List KAns) (st : St), Pres st (sockRun st as).1 := by
  intro as
  induction as with
  | nil => intro st; exact Pres.refl st
  | cons a as ih => intro st; exact (sockEvent_pres st a).trans (ih _)

theorem step_pres (st : St) (op : Op) : Pres st (step st op).1 := by
  cases op with
  | servers n => exact fun k a => ⟨k, a⟩
  | defScript acts => exact fun k a => ⟨k, a⟩
  | lookup sid => exact lookup_pres st sid
  | cancel id => exact cancel_pres st id
  | running id => exact Pres.refl st
  | recv d => exact onRecv_pres st d
  | net d => exact onRecv_pres st (d.take 4096)
  | tick => exact tick_pres st
  | lookupN name sid send => exact lookup_pres st sid
  | sock as => exact sockRun_pres as st
  | recvAt k d => exact onRecv_pres st d

theorem run_pres : ∀ (ops : List Op) (st : St), Pres st (run st ops).1 := by
  intro ops
  induction ops with
  | nil => intro st; exact Pres.refl st
  | cons op ops ih => intro st; simpa [run] using (step_pres st op).trans (ih _)

/-! ### the ghost log `called` is exactly the list of callback invocations -/

def CalledOK (st st' : St) (evs : List Event) : Prop := st'.called = st.called ++ evs.map (·.serial)

theorem CalledOK.refl (st : St) : CalledOK st st [] := by simp [CalledOK]

theorem CalledOK.trans {a b c : St} {e1 e2 : List Event} (h1 : CalledOK a b e1) (h2 : CalledOK b c e2) :
    CalledOK a c (e1 ++ e2) := by
  unfold CalledOK at *
  rw [h2, h1, List.map_append, List.append_assoc]

theorem lookup_called (st : St) (sid : Nat) : (lookup st sid).1.called = st.called := by
  unfold lookup refuse; repeat' (first | rfl | split)

theorem cancel_called (st : St) (id : Nat) : (cancel st id).1.called = st.called := by
  unfold cancel; split <;> rfl

theorem doAct_called (self : Nat) (st : St) (a : Act) : (doAct self st a).1.called = st.called := by
  cases a with
  | lookup sid => exact lookup_called st sid
  | cancel id => exact cancel_called st id
  | cancelSelf => exact cancel_called st self
  | servers n => rfl
  | running id => rfl
  | runningSelf => rfl

theorem runScript_called (self : Nat) : ∀ (acts : List Act) (st : St), (runScript self st acts).1.called = st.called := by
  intro acts
  induction acts with
  | nil => intro st; rfl
  | cons a as ih => intro st; simp only [runScript]; rw [ih, doAct_called]

theorem finish_called (st : St) (id : Nat) (r : Req) (res : Result) :
    CalledOK st (finish st id r res).1 (finish st id r res).2 := by
  have := runScript_called id r.script { st with reqs := erase st.reqs id, called := st.called ++ [r.serial] }
  unfold CalledOK
  show (runScript id _ r.script).1.called = _
  rw [this]; rfl

theorem applyReply_called (st : St) (rep : Reply) : CalledOK st (applyReply st rep).1 (applyReply st rep).2 := by
  cases rep with
  | ignore => exact CalledOK.refl st
  | answer id a c =>
    simp only [applyReply]
    split
    · exact CalledOK.refl st
    · exact finish_called _ _ _ _
  | rcode id rc =>
    simp only [applyReply]
    split
    · exact CalledOK.refl st
    · split
      · exact finish_called _ _ _ _
      · split
        · exact finish_called _ _ _ _
        · split
          · simp [CalledOK]
          · exact finish_called _ _ _ _

theorem foldl_onTimeout_called {st0 : St} (items : List Token) :
    ∀ (acc : St × List Event), CalledOK st0 acc.1 acc.2 →
      CalledOK st0 (items.foldl onTimeout acc).1 (items.foldl onTimeout acc).2 := by
  induction items with
  | nil => intro acc h; exact h
  | cons x l ih =>
    intro acc h
    apply ih
    unfold onTimeout
    split
    · exact h
    · rename_i r _
      dsimp only
      split
      · exact h.trans (finish_called acc.1 x.1 r { status := .timeout })
      · exact h

theorem onRecv_called (st : St) (d : List Byte) : CalledOK st (onRecv st d).1 (onRecv st d).2 := by
  unfold onRecv
  split
  · exact CalledOK.refl st
  · split
    · exact applyReply_called _ _
    · exact CalledOK.refl st

theorem sockEvent_called (st : St) (a : KAns) : CalledOK st (sockEvent st a).1 (sockEvent st a).2 := by
  rcases sockEvent_cases st a with e | ⟨d, e⟩
  · rw [e]; exact CalledOK.refl st
  · rw [e]; exact onRecv_called st _

theorem sockRun_called : ∀ (as : List KAns) (st : St), CalledOK st (sockRun st as).1 (sockRun st as).2 := by
  intro as
  induction as with
  | nil => intro st; exact CalledOK.refl st
  | cons a as ih => intro st; exact (sockEvent_called st a).trans (ih _)

theorem step_called (st : St) (op : Op) : CalledOK st (step st op).1 (step st op).2.events := by
  cases op with
  | servers n => simp [CalledOK, step]
  | defScript acts => simp [CalledOK, step]
  | lookup sid => simp [step, CalledOK, lookup_called]
  | cancel id => simp [step, CalledOK, cancel_called]
  | running id => simp [CalledOK, step]
  | recv d => exact onRecv_called st d
  | net d => exact onRecv_called st (d.take 4096)
  | tick =>
    simp only [step]
    unfold tick
    split
    · exact CalledOK.refl st
    · apply foldl_onTimeout_called
      simp [CalledOK]
  | lookupN name sid send => simp [step, CalledOK, lookup_called]
  | sock as => exact sockRun_called as st
  | recvAt k d => exact onRecv_called st d

theorem run_called : ∀ (ops : List Op) (st : St), CalledOK st (run st ops).1 (allEvents (run st ops).2) := by
  intro ops
  induction ops with
  | nil => intro st; exact CalledOK.refl st
  | cons op ops ih =>
    intro st
    simpa [run, allEvents] using (step_called st op).trans (ih _)


/-! ### a cancelled or refused lookup is never called, a called one never cancelled -/

/-- the three logs are pairwise disjoint, an outstanding lookup is in none of them, everything
logged was issued -/
structure Disj (st : St) : Prop where
  cc : ∀ s ∈ st.cancelled, s ∉ st.called
  rc : ∀ s ∈ st.refused, s ∉ st.called ∧ s ∉ st.cancelled
  out : ∀ e ∈ st.reqs, e.2.serial ∉ st.called ∧ e.2.serial ∉ st.cancelled ∧ e.2.serial ∉ st.refused
  bc : ∀ s ∈ st.called, s < st.nextSerial
  bx : ∀ s ∈ st.cancelled, s < st.nextSerial
  br : ∀ s ∈ st.refused, s < st.nextSerial

def Inv (st : St) : Prop := WF st ∧ Disj st

theorem inv_congr {st st' : St} (hr : st'.reqs = st.reqs) (hn : st'.nextSerial = st.nextSerial)
    (hc : st'.called = st.called) (hx : st'.cancelled = st.cancelled) (hf : st'.refused = st.refused)
    (h : Inv st) : Inv st' := by
  obtain ⟨hw, d⟩ := h
  refine ⟨⟨by rw [hr]; exact hw.1, by rw [hr, hn]; exact hw.2⟩, ?_⟩
  constructor
  · rw [hx, hc]; exact d.cc
  · rw [hf, hc, hx]; exact d.rc
  · rw [hr, hc, hx, hf]; exact d.out
  · rw [hc, hn]; exact d.bc
  · rw [hx, hn]; exact d.bx
  · rw [hf, hn]; exact d.br

theorem refuse_inv {st : St} (h : Inv st) : Inv (refuse st).1 := by
  obtain ⟨hw, d⟩ := h
  refine ⟨(refuse_ok hw).1.1, ?_⟩
  refine ⟨d.cc, ?_, ?_, fun s hs => Nat.lt_succ_of_lt (d.bc s hs), fun s hs => Nat.lt_succ_of_lt (d.bx s hs), ?_⟩
  · intro s hs
    rcases List.mem_cons.mp hs with rfl | hs
    · exact ⟨fun hc => Nat.lt_irrefl _ (d.bc _ hc), fun hc => Nat.lt_irrefl _ (d.bx _ hc)⟩
    · exact d.rc s hs
  · intro e he
    refine ⟨(d.out e he).1, (d.out e he).2.1, ?_⟩
    intro hc
    rcases List.mem_cons.mp hc with heq | hc
    · have := hw.2 e he; omega
    · exact (d.out e he).2.2 hc
  · intro s hs
    rcases List.mem_cons.mp hs with rfl | hs
    · exact Nat.lt_succ_self _
    · exact Nat.lt_succ_of_lt (d.br s hs)

theorem lookup_inv {st : St} (sid : Nat) (h : Inv st) : Inv (lookup st sid).1 := by
  refine ⟨(lookup_ok sid h.1).1.1, ?_⟩
  unfold lookup
  split
  · exact (refuse_inv h).2
  · split
    · exact (refuse_inv h).2
    · obtain ⟨hw, d⟩ := h
      refine ⟨d.cc, d.rc, ?_, fun s hs => Nat.lt_succ_of_lt (d.bc s hs), fun s hs => Nat.lt_succ_of_lt (d.bx s hs),
              fun s hs => Nat.lt_succ_of_lt (d.br s hs)⟩
      intro e he
      rcases List.mem_cons.mp he with rfl | he
      · exact ⟨fun hc => Nat.lt_irrefl _ (d.bc _ hc), fun hc => Nat.lt_irrefl _ (d.bx _ hc),
               fun hc => Nat.lt_irrefl _ (d.br _ hc)⟩
      · exact d.out e (mem_erase he).1

theorem cancel_inv {st : St} (id : Nat) (h : Inv st) : Inv (cancel st id).1 := by
  refine ⟨(cancel_ok id h.1).1.1, ?_⟩
  unfold cancel
  cases hf : find st.reqs id with
  | none => exact h.2
  | some r =>
    dsimp only
    obtain ⟨hw, d⟩ := h
    have hm := find_mem hf
    refine ⟨?_, ?_, ?_, d.bc, ?_, d.br⟩
    · intro s hs
      rcases List.mem_cons.mp hs with rfl | hs
      · exact (d.out _ hm).1
      · exact d.cc s hs
    · intro s hs
      refine ⟨(d.rc s hs).1, ?_⟩
      intro hc
      rcases List.mem_cons.mp hc with rfl | hc
      · exact (d.out _ hm).2.2 hs
      · exact (d.rc s hs).2 hc
    · intro e he
      obtain ⟨hmem, hne⟩ := mem_erase he
      refine ⟨(d.out e hmem).1, ?_, (d.out e hmem).2.2⟩
      intro hc
      rcases List.mem_cons.mp hc with heq | hc
      · have : e = (id, r) := serial_inj st.reqs hw.1 hmem hm heq
        exact hne (by rw [this])
      · exact (d.out e hmem).2.1 hc
    · intro s hs
      rcases List.mem_cons.mp hs with rfl | hs
      · exact hw.2 _ hm
      · exact d.bx s hs

theorem doAct_inv (self : Nat) {st : St} (a : Act) (h : Inv st) : Inv (doAct self st a).1 := by
  cases a with
  | lookup sid => exact lookup_inv sid h
  | cancel id => exact cancel_inv id h
  | cancelSelf => exact cancel_inv self h
  | servers n => (apply inv_congr (st := st) ?_ ?_ ?_ ?_ ?_ h <;> rfl)
  | running id => exact h
  | runningSelf => exact h

theorem runScript_inv (self : Nat) : ∀ (acts : List Act) (st : St), Inv st → Inv (runScript self st acts).1 := by
  intro acts
  induction acts with
  | nil => intro st h; exact h
  | cons a as ih => intro st h; simpa [runScript] using ih _ (doAct_inv self a h)

theorem finish_inv {st : St} {id : Nat} {r : Req} (res : Result) (h : Inv st) (hf : find st.reqs id = some r) :
    Inv (finish st id r res).1 := by
  obtain ⟨hw, d⟩ := h
  have hm := find_mem hf
  show Inv (runScript id { st with reqs := erase st.reqs id, called := st.called ++ [r.serial] } r.script).1
  apply runScript_inv
  refine ⟨wf_erase_wf id hw rfl rfl, ?_, ?_, ?_, ?_, d.bx, d.br⟩
  · intro s hs hc
    rcases List.mem_append.mp hc with hc | hc
    · exact d.cc s hs hc
    · simp only [List.mem_singleton] at hc
      subst hc
      exact (d.out _ hm).2.1 hs
  · intro s hs
    refine ⟨?_, (d.rc s hs).2⟩
    intro hc
    rcases List.mem_append.mp hc with hc | hc
    · exact (d.rc s hs).1 hc
    · simp only [List.mem_singleton] at hc
      subst hc
      exact (d.out _ hm).2.2 hs
  · intro e he
    obtain ⟨hmem, hne⟩ := mem_erase he
    refine ⟨?_, (d.out e hmem).2.1, (d.out e hmem).2.2⟩
    intro hc
    rcases List.mem_append.mp hc with hc | hc
    · exact (d.out e hmem).1 hc
    · simp only [List.mem_singleton] at hc
      have : e = (id, r) := serial_inj st.reqs hw.1 hmem hm hc
      exact hne (by rw [this])
  · intro s hs
    rcases List.mem_append.mp hs with hs | hs
    · exact d.bc s hs
    · simp only [List.mem_singleton] at hs
      subst hs
      exact hw.2 _ hm

theorem applyReply_inv {st : St} (rep : Reply) (h : Inv st) : Inv (applyReply st rep).1 := by
  cases rep with
  | ignore => exact h
  | answer id a c =>
    simp only [applyReply]
    cases hf : find st.reqs id with
    | none => exact h
    | some r => exact finish_inv _ h hf
  | rcode id rc =>
    have hok := applyReply_ok (.rcode id rc) h.1
    simp only [applyReply] at hok ⊢
    cases hf : find st.reqs id with
    | none => exact h
    | some r =>
      rw [hf] at hok
      simp only at hok ⊢
      split
      · exact finish_inv _ h hf
      · split
        · exact finish_inv _ h hf
        · split
          · rename_i h1 h2 h3
            simp only [h1, h2, h3, if_true, if_false] at hok
            refine ⟨hok.1, h.2.cc, h.2.rc, ?_, h.2.bc, h.2.bx, h.2.br⟩
            intro e he
            obtain ⟨e0, he0, rfl⟩ := List.mem_map.mp he
            have := h.2.out e0 he0
            split <;> exact this
          · exact finish_inv _ h hf

theorem onRecv_inv {st : St} (d : List Byte) (h : Inv st) : Inv (onRecv st d).1 := by
  unfold onRecv
  split
  · exact h
  · split
    · exact applyReply_inv _ h
    · exact h

theorem foldl_onTimeout_inv (items : List Token) :
    ∀ (acc : St × List Event), Inv acc.1 → Inv (items.foldl onTimeout acc).1 := by
  induction items with
  | nil => intro acc h; exact h
  | cons x l ih =>
    intro acc h
    apply ih
    unfold onTimeout
    cases hf : find acc.1.reqs x.1 with
    | none => exact h
    | some r =>
      dsimp only
      split
      · exact finish_inv { status := .timeout } h hf
      · exact h

theorem sockEvent_inv {st : St} (a : KAns) (h : Inv st) : Inv (sockEvent st a).1 := by
  rcases sockEvent_cases st a with e | ⟨d, e⟩
  · rw [e]; exact h
  · rw [e]; exact onRecv_inv _ h

theorem sockRun_inv : ∀ (as : List KAns) {st : St}, Inv st → Inv (sockRun st as).1 := by
  intro as
  induction as with
  | nil => intro st h; exact h
  | cons a as ih => intro st h; exact ih (sockEvent_inv a h)

theorem step_inv {st : St} (op : Op) (h : Inv st) : Inv (step st op).1 := by
  cases op with
  | servers n => (apply inv_congr (st := st) ?_ ?_ ?_ ?_ ?_ h <;> rfl)
  | defScript acts => (apply inv_congr (st := st) ?_ ?_ ?_ ?_ ?_ h <;> rfl)
  | lookup sid => exact lookup_inv sid h
  | cancel id => exact cancel_inv id h
  | running id => exact h
  | recv d => exact onRecv_inv d h
  | net d => exact onRecv_inv (d.take 4096) h
  | tick =>
    simp only [step]
    unfold tick
    split
    · exact h
    · apply foldl_onTimeout_inv
      (apply inv_congr (st := st) ?_ ?_ ?_ ?_ ?_ h <;> rfl)
  | lookupN name sid send => exact lookup_inv sid h
  | sock as => exact sockRun_inv as h
  | recvAt k d => exact onRecv_inv d h

theorem run_inv : ∀ (ops : List Op) (st : St), Inv st → Inv (run st ops).1 := by
  intro ops
  induction ops with
  | nil => intro st h; exact h
  | cons op ops ih => intro st h; simpa [run] using ih _ (step_inv op h)

theorem init_inv : Inv init := ⟨init_wf, by constructor <;> simp [init]⟩

end Tbox.C15
