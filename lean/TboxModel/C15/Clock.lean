/-
C15 — clock and lifetime layer on top of `Model.lean` (round 4).

`Model.tick` is "the monitor's timer fires once".  WHEN it fires is decided by the loop
(modules/event/common_loop_timer.cpp) from the steady clock in milliseconds:

* `TimeoutMonitor::add`: `if (value_number_ == 0) sp_timer_->enable()` → `addTimer`:
  `t->expired = now + interval` (interval = 1000 ms, persistent);
* `handleExpiredTimers`: `now` is read ONCE per loop pass; `while (heap top: now >= t->expired)
  { t->expired += t->interval; cb(); }` — a pass that comes late (load) or after a clock jump
  (hours) fires the timer once per missed second, one after the other, in the same pass
  (catch-up), until the timer is ahead of the clock again or the monitor disabled it
  (`onTimerTick`: `value_number_ -= n; if (value_number_ == 0) sp_timer_->disable()` BEFORE the
  timeout callbacks; a callback that issues a lookup re-enables it: `expired = now + 1000`).
* `~DnsRequest()`: `udp_.disable()`, then the members die: `requests_` (the callbacks are
  dropped uncalled), the monitor (`cleanup()`: timer disabled, ring freed), the socket.  The
  harness constructs a fresh object right away (`destroy n` = delete + new with `n` servers,
  `n = 0` through the one-argument constructor), lookup serial numbers keep counting.

The state adds the clock, the timer's deadline and a ghost list of the lookups that were
outstanding when their object was destroyed.  `destroy` also logs them in `St.cancelled`
("cancelled by the destructor"), which keeps the accounting invariants of `Account.lean`.
-/
import TboxModel.C15.Model
namespace Tbox.C15

structure CSt where
  st : St := {}
  clock : Nat := 0              -- steady clock, ms (uint64_t; the wrap after 5·10^8 years is not modelled)
  deadline : Nat := 0           -- `Timer::expired` of the monitor's timer; meaningful iff `st.valueNumber > 0`
  dropped : List Nat := []      -- ghost: serials outstanding when their object was destroyed (newest first)
deriving Repr, DecidableEq

/-- the timer is enabled iff the ring holds something -/
def CSt.armed (c : CSt) : Bool := c.st.valueNumber > 0

/-- after code that may have called `timeout_monitor_.add()` outside the timer's own callback:
the timer was enabled by it iff `value_number_` went from 0 to positive — `expired = now + 1000` -/
def rearm (c : CSt) (st' : St) : CSt :=
  { c with st := st',
           deadline := if c.st.valueNumber = 0 ∧ st'.valueNumber > 0 then c.clock + 1000 else c.deadline }

/-- one firing of the monitor's timer inside `handleExpiredTimers`: `t->expired += interval`, then
`onTimerTick`.  If the swap emptied the ring the monitor disabled the timer before the callbacks
ran; a callback that issued a lookup enabled a NEW timer at `now + 1000`. -/
def fire (c : CSt) : CSt × List Event :=
  let r := tick c.st
  ({ c with st := r.1,
            deadline := if c.st.valueNumber - c.st.r1.length = 0 ∧ r.1.valueNumber > 0
                        then c.clock + 1000 else c.deadline + 1000 }, r.2)

/-- the `while` loop of `handleExpiredTimers` restricted to the monitor's timer -/
def catchUp : Nat → CSt → CSt × List Event
  | 0, c => (c, [])
  | f + 1, c =>
    if c.st.valueNumber > 0 ∧ c.deadline ≤ c.clock then
      let r1 := fire c
      let r2 := catchUp f r1.1
      (r2.1, r1.2 ++ r2.2)
    else (c, [])

/-- fuel that suffices (`catchUp_done`): one firing per whole second the timer is behind, plus one -/
def passFuel (c : CSt) : Nat := (c.clock - c.deadline) / 1000 + 1

/-- the clock moves forward by `ms`, then one loop pass -/
def advance (c : CSt) (ms : Nat) : CSt × List Event :=
  let c1 := { c with clock := c.clock + ms }
  catchUp (passFuel c1) c1

/-- `delete dns; dns = new DnsRequest(loop[, n servers])` -/
def destroy (st : St) (n : Nat) : St :=
  { st with servers := n, alloc := 0, reqs := [], r0 := [], r1 := [], r2 := [], r3 := [], r4 := [],
            valueNumber := 0, cancelled := st.reqs.map (·.2.serial) ++ st.cancelled }

inductive COp where
  | base (op : Op)          -- any operation of `Model.lean`; `.tick` = `advance 1000`
  | advance (ms : Nat)
  | destroy (n : Nat)
deriving Repr, DecidableEq

def cstep (c : CSt) : COp → CSt × Out
  | .base op =>
    if op = .tick then let r := advance c 1000; (r.1, { events := r.2 })
    else let r := step c.st op; (rearm c r.1, r.2)
  | .advance ms => let r := advance c ms; (r.1, { events := r.2 })
  | .destroy n =>
    ({ c with st := destroy c.st n, dropped := c.st.reqs.map (·.2.serial) ++ c.dropped }, {})

def cinit : CSt := {}

def crun (c : CSt) : List COp → CSt × List Out
  | [] => (c, [])
  | op :: ops =>
    let r1 := cstep c op
    let r2 := crun r1.1 ops
    (r2.1, r1.2 :: r2.2)

end Tbox.C15
