/- C15 — helper lemmas for the clock / lifetime layer (`Clock.lean`): every transition of the layer is
a transition the invariants of Pending/Account/Ring survive.  Core Lean only. -/
import TboxModel.C15.Clock
import TboxModel.C15.Ring
namespace Tbox.C15

/-- all invariants of the base model -/
def AllInv (st : St) : Prop := Inv st ∧ RI st

/-- summary of a transition of the layer -/
def Trans (st st' : St) (evs : List Event) : Prop :=
  AllInv st' ∧ StepOK st st' evs ∧ CalledOK st st' evs ∧ ∀ e ∈ evs, AgeOK e

theorem Trans.refl {st : St} (h : AllInv st) : Trans st st [] :=
  ⟨h, StepOK.refl h.1.1, CalledOK.refl st, by simp⟩

theorem Trans.trans {a b c : St} {e1 e2 : List Event} (h1 : Trans a b e1) (h2 : Trans b c e2) :
    Trans a c (e1 ++ e2) := by
  refine ⟨h2.1, h1.2.1.trans h2.2.1, h1.2.2.1.trans h2.2.2.1, ?_⟩
  intro e he
  rcases List.mem_append.mp he with he | he
  · exact h1.2.2.2 e he
  · exact h2.2.2.2 e he

theorem step_trans {st : St} (op : Op) (h : AllInv st) : Trans st (step st op).1 (step st op).2.events :=
  ⟨⟨step_inv op h.1, (step_ri op h.2).1⟩, step_ok op h.1.1, step_called st op, (step_ri op h.2).2⟩

theorem step_tick (st : St) : step st .tick = ((tick st).1, { events := (tick st).2 }) := rfl

theorem tick_trans {st : St} (h : AllInv st) : Trans st (tick st).1 (tick st).2 := by
  have := step_trans .tick h
  rw [step_tick] at this
  exact this

theorem fire_st (c : CSt) : (fire c).1.st = (tick c.st).1 := rfl
theorem fire_ev (c : CSt) : (fire c).2 = (tick c.st).2 := rfl
theorem fire_clock (c : CSt) : (fire c).1.clock = c.clock := rfl
theorem fire_dropped (c : CSt) : (fire c).1.dropped = c.dropped := rfl

theorem catchUp_trans : ∀ (f : Nat) (c : CSt), AllInv c.st → Trans c.st (catchUp f c).1.st (catchUp f c).2 := by
  intro f
  induction f with
  | zero => intro c h; exact Trans.refl h
  | succ f ih =>
    intro c h
    unfold catchUp
    split
    · have h1 : Trans c.st (fire c).1.st (fire c).2 := by rw [fire_st, fire_ev]; exact tick_trans h
      exact h1.trans (ih (fire c).1 h1.1)
    · exact Trans.refl h

theorem catchUp_clock : ∀ (f : Nat) (c : CSt), (catchUp f c).1.clock = c.clock ∧ (catchUp f c).1.dropped = c.dropped := by
  intro f
  induction f with
  | zero => intro c; exact ⟨rfl, rfl⟩
  | succ f ih =>
    intro c
    unfold catchUp
    split
    · have := ih (fire c).1
      exact ⟨this.1.trans (fire_clock c), this.2.trans (fire_dropped c)⟩
    · exact ⟨rfl, rfl⟩

theorem advance_trans (c : CSt) (ms : Nat) (h : AllInv c.st) : Trans c.st (advance c ms).1.st (advance c ms).2 :=
  catchUp_trans _ { c with clock := c.clock + ms } h

/-! ### the pass ends with the timer ahead of the clock (or off) -/

theorem fire_deadline (c : CSt) :
    (fire c).1.deadline = c.deadline + 1000 ∨ (fire c).1.deadline = c.clock + 1000 := by
  unfold fire
  simp only []
  split
  · exact Or.inr rfl
  · exact Or.inl rfl

/-- with `passFuel` units the loop stops by itself: afterwards the timer is off or ahead of the clock -/
theorem catchUp_done : ∀ (f : Nat) (c : CSt),
    (c.st.valueNumber > 0 ∧ c.deadline ≤ c.clock → (c.clock - c.deadline) / 1000 + 1 ≤ f) →
    ¬ ((catchUp f c).1.st.valueNumber > 0 ∧ (catchUp f c).1.deadline ≤ (catchUp f c).1.clock) := by
  intro f
  induction f with
  | zero =>
    intro c h hb
    have := h hb
    omega
  | succ f ih =>
    intro c hf
    unfold catchUp
    split
    · rename_i hc
      have hf' := hf hc
      apply ih (fire c).1
      rw [fire_clock]
      intro hb
      rcases fire_deadline c with hd | hd
      · rw [hd] at hb ⊢
        have e1 : c.clock - (c.deadline + 1000) = (c.clock - c.deadline) - 1000 := Nat.sub_add_eq _ _ _
        rw [e1]
        have h2 : 1000 ≤ c.clock - c.deadline := by omega
        have e2 : (c.clock - c.deadline) / 1000 = (c.clock - c.deadline - 1000) / 1000 + 1 := by
          rw [Nat.div_eq (c.clock - c.deadline) 1000]; simp [h2]
        omega
      · rw [hd] at hb
        omega
    · rename_i hc
      exact hc

/-- the deadline is never more than one interval ahead of the clock -/
theorem catchUp_le : ∀ (f : Nat) (c : CSt), c.deadline ≤ c.clock + 1000 →
    (catchUp f c).1.deadline ≤ (catchUp f c).1.clock + 1000 := by
  intro f
  induction f with
  | zero => intro c h; exact h
  | succ f ih =>
    intro c h
    unfold catchUp
    split
    · rename_i hc
      apply ih (fire c).1
      rw [fire_clock]
      rcases fire_deadline c with hd | hd <;> rw [hd] <;> omega
    · exact h

/-! ### destruction -/

theorem destroy_slot (st : St) (n a : Nat) : slot (destroy st n) a = [] := by
  unfold slot
  split <;> rfl

theorem destroy_trans {st : St} (n : Nat) (h : AllInv st) : Trans st (destroy st n) [] := by
  obtain ⟨⟨hw, hd⟩, ⟨ht, hk, ha⟩⟩ := h
  have hwf : WF (destroy st n) := by simp [WF, destroy]
  refine ⟨⟨⟨hwf, ?_⟩, ?_, ?_, ?_⟩, ⟨hwf, ?_, by simp, by simp⟩, by simp [CalledOK, destroy], by simp⟩
  · constructor
    · intro s hs
      show s ∉ st.called
      have hs' : s ∈ st.reqs.map (·.2.serial) ++ st.cancelled := hs
      rcases List.mem_append.mp hs' with h1 | h1
      · obtain ⟨e, he, rfl⟩ := List.mem_map.mp h1
        exact (hd.out e he).1
      · exact hd.cc s h1
    · intro s hs
      have hs' : s ∈ st.refused := hs
      refine ⟨(hd.rc s hs').1, ?_⟩
      show s ∉ st.reqs.map (·.2.serial) ++ st.cancelled
      intro hm
      rcases List.mem_append.mp hm with h1 | h1
      · obtain ⟨e, he, rfl⟩ := List.mem_map.mp h1
        exact (hd.out e he).2.2 hs'
      · exact (hd.rc s hs').2 h1
    · intro e he
      have : e ∈ ([] : List (Nat × Req)) := he
      cases this
    · exact hd.bc
    · intro s hs
      have hs' : s ∈ st.reqs.map (·.2.serial) ++ st.cancelled := hs
      show s < st.nextSerial
      rcases List.mem_append.mp hs' with h1 | h1
      · obtain ⟨e, he, rfl⟩ := List.mem_map.mp h1
        exact hw.2 e he
      · exact hd.bx s h1
    · exact hd.br
  · refine ⟨by simp [destroy], by simp [destroy, ringLen], ?_, ?_, by simp [destroy]⟩
    · intro a _ t ht'; rw [destroy_slot] at ht'; cases ht'
    · intro a _ t ht'; rw [destroy_slot] at ht'; cases ht'
  · simp [KU, destroy]
  · intro s hs
    have hs' : s < st.nextSerial := hs
    rcases ha s hs' with h1 | h1 | h1 | ⟨e, he, hse⟩
    · exact Or.inl h1
    · exact Or.inr (Or.inl (List.mem_append.mpr (Or.inr h1)))
    · exact Or.inr (Or.inr (Or.inl h1))
    · exact Or.inr (Or.inl (List.mem_append.mpr (Or.inl (List.mem_map.mpr ⟨e, he, hse⟩))))
  · intro s hs
    exact ⟨⟨hs.1, by simp [destroy]⟩, by simp⟩

/-! ### whole histories -/

theorem cstep_trans {c : CSt} (op : COp) (h : AllInv c.st) :
    Trans c.st (cstep c op).1.st (cstep c op).2.events := by
  cases op with
  | base op =>
    unfold cstep
    simp only []
    split
    · exact advance_trans c 1000 h
    · exact step_trans op h
  | advance ms => exact advance_trans c ms h
  | destroy n => exact destroy_trans n h

theorem crun_trans : ∀ (ops : List COp) (c : CSt), AllInv c.st →
    Trans c.st (crun c ops).1.st (allEvents (crun c ops).2) := by
  intro ops
  induction ops with
  | nil => intro c h; exact Trans.refl h
  | cons op ops ih =>
    intro c h
    have h1 := cstep_trans op h
    have h2 := ih (cstep c op).1 h1.1
    simpa [crun, allEvents] using h1.trans h2

theorem crun_append (c : CSt) (ops1 ops2 : List COp) :
    crun c (ops1 ++ ops2) =
      ((crun (crun c ops1).1 ops2).1, (crun c ops1).2 ++ (crun (crun c ops1).1 ops2).2) := by
  induction ops1 generalizing c with
  | nil => simp [crun]
  | cons op ops ih => simp [crun, ih]

theorem cinit_allinv : AllInv cinit.st := ⟨init_inv, init_ri⟩

/-- the timer's phase: while armed it is ahead of the clock by at most one interval -/
def Phase (c : CSt) : Prop := c.st.valueNumber > 0 → c.clock < c.deadline ∧ c.deadline ≤ c.clock + 1000

theorem advance_phase (c : CSt) (ms : Nat) (h : Phase c) : Phase (advance c ms).1 := by
  intro hv
  unfold advance at hv ⊢
  simp only [] at hv ⊢
  have hd := catchUp_done (passFuel { c with clock := c.clock + ms }) { c with clock := c.clock + ms } (fun _ => Nat.le_refl _)
  by_cases hv0 : c.st.valueNumber > 0
  · have hle := catchUp_le (passFuel { c with clock := c.clock + ms }) { c with clock := c.clock + ms }
      (by have := (h hv0).2; show c.deadline ≤ c.clock + ms + 1000; omega)
    constructor
    · apply Nat.lt_of_not_le
      intro hx
      exact hd ⟨hv, hx⟩
    · exact hle
  · -- the timer was off: nothing fires
    have h0 : c.st.valueNumber = 0 := by omega
    exfalso
    revert hv
    unfold passFuel catchUp
    simp [h0]

theorem cstep_phase {c : CSt} (op : COp) (h : Phase c) : Phase (cstep c op).1 := by
  cases op with
  | base op =>
    unfold cstep
    simp only []
    split
    · exact advance_phase c 1000 h
    · intro hv
      unfold rearm at hv ⊢
      simp only [] at hv ⊢
      split
      · omega
      · rename_i hn
        have : c.st.valueNumber > 0 := by
          apply Nat.pos_of_ne_zero
          intro h0
          exact hn ⟨h0, hv⟩
        exact h this
  | advance ms => exact advance_phase c ms h
  | destroy n =>
    intro hv
    have : (0 : Nat) > 0 := hv
    omega

theorem crun_phase : ∀ (ops : List COp) (c : CSt), Phase c → Phase (crun c ops).1 := by
  intro ops
  induction ops with
  | nil => intro c h; exact h
  | cons op ops ih => intro c h; exact ih _ (cstep_phase op h)

/-! ### five seconds of clock are at least five firings -/

/-- something outstanding ⇒ something in the ring ⇒ the timer is on -/
theorem timed_armed {st : St} (ht : Timed st) (h : st.reqs ≠ []) : st.valueNumber > 0 := by
  cases hr : st.reqs with
  | nil => exact absurd hr h
  | cons e l =>
    obtain ⟨_, ha, hm⟩ := ht.1 e (by rw [hr]; exact List.mem_cons_self)
    rw [ht.2.1]
    unfold ringLen
    generalize st.now - e.2.born = a at ha hm
    have : a = 0 ∨ a = 1 ∨ a = 2 ∨ a = 3 ∨ a = 4 := by omega
    rcases this with rfl | rfl | rfl | rfl | rfl <;>
      (have := List.length_pos_of_mem hm; simp only [slot] at this; omega)

/-- the state `onTimerTick` starts its walk from -/
def shifted (st : St) : St :=
  { st with r0 := [], r1 := st.r2, r2 := st.r3, r3 := st.r4, r4 := st.r0,
            valueNumber := st.valueNumber - st.r1.reverse.length, now := st.now + 1 }

theorem tick_eq (st : St) (h : st.valueNumber ≠ 0) :
    tick st = st.r1.reverse.foldl onTimeout (shifted st, []) := by
  unfold tick shifted
  simp [h]

/-- a firing only adds to what the shifted state holds -/
theorem tick_grow {st : St} (hri : RI st) (h : st.valueNumber ≠ 0) : Grow (shifted st) (tick st).1 := by
  obtain ⟨⟨t1, t2, t3, t4, t5⟩, hk, ha⟩ := hri
  rw [tick_eq st h]
  have hit : ∀ t ∈ st.r1.reverse, t.2 < (shifted st).nextSerial ∧
      ∀ e ∈ (shifted st).reqs, e.2.serial = t.2 → e.2.born + 5 = (shifted st).now := by
    intro t htm
    have htm' : t ∈ slot st 4 := List.mem_reverse.mp htm
    refine ⟨t4 4 (by omega) t htm', ?_⟩
    intro e he hs
    have he' : e ∈ st.reqs := he
    have h3 := t3 4 (by omega) t htm' e he' hs
    have h1 := (t1 e he').1
    show e.2.born + 5 = st.now + 1
    omega
  exact (foldl_onTimeout_grow (st1 := shifted st) st.r1.reverse [] (shifted st, []) hit (Grow.refl _)
    hk ha (by simp) (by simp)).1

theorem tick_now (st : St) (hri : RI st) (h : st.valueNumber ≠ 0) : (tick st).1.now = st.now + 1 :=
  (tick_grow hri h).1

/-- every lookup outstanding in `st` was issued after firing number `n0` -/
def Fresh (n0 : Nat) (st : St) : Prop := ∀ e ∈ st.reqs, n0 < e.2.born

theorem tick_fresh {st : St} {n0 : Nat} (hri : RI st) (hn : n0 ≤ st.now) (hf : Fresh n0 st) : Fresh n0 (tick st).1 := by
  by_cases h : st.valueNumber = 0
  · have : tick st = (st, []) := by unfold tick; simp [h]
    rw [this]; exact hf
  · obtain ⟨_, _, _, _, _, _, extra, _, _, _, he⟩ := tick_grow hri h
    intro e hm
    rcases he e hm with ⟨e0, he0, _, hb, _⟩ | ⟨hb, _⟩
    · rw [← hb]; exact hf e0 he0
    · rw [hb]; show n0 < st.now + 1; omega

/-- the firing that empties the ring: whatever is outstanding afterwards was issued by its callbacks -/
theorem tick_drained_fresh {st : St} (hg : AllInv st) (h : st.valueNumber ≠ 0)
    (hm : st.valueNumber - st.r1.length = 0) : ∀ e ∈ (tick st).1.reqs, e.2.born = st.now + 1 := by
  have hg' := (tick_trans hg).1
  obtain ⟨hn, g1, g2, g3, g4, _⟩ := tick_grow hg.2 h
  have hlen := hg.2.1.2.1
  unfold ringLen at hlen
  have z0 : st.r0 = [] := List.eq_nil_of_length_eq_zero (by omega)
  have z2 : st.r2 = [] := List.eq_nil_of_length_eq_zero (by omega)
  have z3 : st.r3 = [] := List.eq_nil_of_length_eq_zero (by omega)
  have z4 : st.r4 = [] := List.eq_nil_of_length_eq_zero (by omega)
  intro e he
  obtain ⟨hb, ha, hs⟩ := hg'.2.1.1 e he
  have hn' : (tick st).1.now = st.now + 1 := hn
  rw [hn'] at hb ha hs
  generalize hq : st.now + 1 - e.2.born = a at ha hs
  have : a = 0 ∨ a = 1 ∨ a = 2 ∨ a = 3 ∨ a = 4 := by omega
  rcases this with rfl | rfl | rfl | rfl | rfl
  · omega
  · have : (e.1, e.2.serial) ∈ (tick st).1.r4 := hs
    rw [g4] at this; have : (e.1, e.2.serial) ∈ st.r0 := this; rw [z0] at this; cases this
  · have : (e.1, e.2.serial) ∈ (tick st).1.r3 := hs
    rw [g3] at this; have : (e.1, e.2.serial) ∈ st.r4 := this; rw [z4] at this; cases this
  · have : (e.1, e.2.serial) ∈ (tick st).1.r2 := hs
    rw [g2] at this; have : (e.1, e.2.serial) ∈ st.r3 := this; rw [z3] at this; cases this
  · have : (e.1, e.2.serial) ∈ (tick st).1.r1 := hs
    rw [g1] at this; have : (e.1, e.2.serial) ∈ st.r2 := this; rw [z2] at this; cases this

theorem fire_deadline' (c : CSt) :
    (c.st.valueNumber - c.st.r1.length = 0 ∧ (fire c).1.deadline = c.clock + 1000) ∨
    (fire c).1.deadline = c.deadline + 1000 := by
  unfold fire
  simp only []
  split
  · rename_i h; exact Or.inl ⟨h.1, rfl⟩
  · exact Or.inr rfl

/-- through a pass: the firing counter only grows, lookups issued after firing `n0` stay the only ones, and
either only such lookups are outstanding or the timer kept its phase (one interval per firing) -/
theorem catchUp_track (n0 : Nat) : ∀ (f : Nat) (c : CSt), AllInv c.st → n0 ≤ c.st.now →
    c.st.now ≤ (catchUp f c).1.st.now ∧
    (Fresh n0 c.st → Fresh n0 (catchUp f c).1.st) ∧
    (Fresh n0 (catchUp f c).1.st ∨
      (catchUp f c).1.deadline = c.deadline + 1000 * ((catchUp f c).1.st.now - c.st.now)) := by
  intro f
  induction f with
  | zero => intro c _ _; exact ⟨Nat.le_refl _, id, Or.inr (by simp [catchUp])⟩
  | succ f ih =>
    intro c hg hn
    unfold catchUp
    split
    · rename_i hc
      have hv : c.st.valueNumber ≠ 0 := by omega
      have hg1 : AllInv (fire c).1.st := by rw [fire_st]; exact (tick_trans hg).1
      have hnow : (fire c).1.st.now = c.st.now + 1 := by rw [fire_st]; exact tick_now c.st hg.2 hv
      obtain ⟨i1, i2, i3⟩ := ih (fire c).1 hg1 (by omega)
      show c.st.now ≤ (catchUp f (fire c).1).1.st.now ∧ (Fresh n0 c.st → Fresh n0 (catchUp f (fire c).1).1.st) ∧
        (Fresh n0 (catchUp f (fire c).1).1.st ∨
          (catchUp f (fire c).1).1.deadline = c.deadline + 1000 * ((catchUp f (fire c).1).1.st.now - c.st.now))
      refine ⟨by omega, ?_, ?_⟩
      · intro hf
        apply i2
        rw [fire_st]
        exact tick_fresh hg.2 hn hf
      · rcases fire_deadline' c with ⟨hm, _⟩ | hd
        · left
          apply i2
          rw [fire_st]
          intro e he
          have := tick_drained_fresh hg hv hm e he
          omega
        · rcases i3 with i3 | i3
          · exact Or.inl i3
          · right
            rw [i3, hd, hnow]
            omega
    · exact ⟨Nat.le_refl _, id, Or.inr (by simp)⟩

end Tbox.C15
