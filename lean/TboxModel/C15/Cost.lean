/- C15 — helper lemmas: the record loops of `onUdpRecv` never run more iterations than the datagram has
room for, whatever the 16-bit counts claim.  Core Lean only. -/
import TboxModel.C15.Proofs
namespace Tbox.C15

def Res.isOk {α : Type} : Res α → Bool
  | .ok _ _ => true
  | _ => false

theorem bind_stable {α β : Type} {r : Res α} {f g : α → P → Res β}
    (h : ∀ a p, r = .ok a p → (f a p).isOk = false → g a p = f a p) :
    (r.bind f).isOk = false → r.bind g = r.bind f := by
  cases r with
  | ok a p => exact h a p rfl
  | bad p => intro _; rfl
  | uninit p => intro _; rfl
  | diverge p => intro _; rfl

theorem bind_congr_safe {α β : Type} {dv : Prop} {d : List Byte} {r : Res α} {Q : α → P → Prop}
    {f g : α → P → Res β} (hs : r.Safe dv d Q) (h : ∀ a p, Good d p → Q a p → f a p = g a p) :
    r.bind f = r.bind g := by
  cases r with
  | ok a p => exact h a p hs.1 hs.2
  | bad p => rfl
  | uninit p => rfl
  | diverge p => rfl

/-- a question loop that fails with count `n` fails identically with any larger count: the
iterations beyond the failing one are never reached -/
theorem skipQuestions_stable (d : List Byte) (fuel : Nat) : ∀ (n k : Nat) (p : P),
    (skipQuestions d fuel n p).isOk = false → skipQuestions d fuel (n + k) p = skipQuestions d fuel n p := by
  intro n
  induction n with
  | zero => intro k p h; simp [skipQuestions, Res.isOk] at h
  | succ n ih =>
    intro k p h
    have e : n + 1 + k = (n + k) + 1 := by omega
    rw [e]
    unfold skipQuestions at h ⊢
    refine bind_stable ?_ h
    intro _ p1 _ h
    refine bind_stable ?_ h
    intro _ p2 _ h
    refine bind_stable ?_ h
    intro _ p3 _ h
    exact ih k p3 h

theorem answers_stable (d : List Byte) (fuel : Nat) : ∀ (n k : Nat) (a : List ARec) (c : List CRec) (p : P),
    (answers d fuel n a c p).isOk = false → answers d fuel (n + k) a c p = answers d fuel n a c p := by
  intro n
  induction n with
  | zero => intro k a c p h; simp [answers, Res.isOk] at h
  | succ n ih =>
    intro k a c p h
    have e : n + 1 + k = (n + k) + 1 := by omega
    rw [e]
    unfold answers at h ⊢
    refine bind_stable ?_ h
    intro _ p1 _ h
    refine bind_stable ?_ h
    intro ty p2 _ h
    refine bind_stable ?_ h
    intro _ p3 _ h
    refine bind_stable ?_ h
    intro ttl p4 _ h
    refine bind_stable ?_ h
    intro ln p5 _ h
    by_cases h1 : ty = 1
    · simp only [h1, if_true] at h ⊢
      refine bind_stable ?_ h
      intro ip p6 _ h
      exact ih k _ c p6 h
    · simp only [h1, if_false] at h ⊢
      by_cases h5 : ty = 5
      · simp only [h5, if_true] at h ⊢
        refine bind_stable ?_ h
        intro name p6 _ h
        exact ih k a _ p6 h
      · simp only [h5, if_false] at h ⊢
        by_cases hs : (skip d p5 ln).1 = false
        · simp only [hs, if_true]
        · simp only [hs] at h ⊢
          exact ih k a c _ h

/-- the question loop consumes at least five bytes per question (name ≥ 1, type 2, class 2) -/
theorem safe_skipQuestions5 (d : List Byte) (fuel : Nat) :
    ∀ (n : Nat) (p : P), Good d p → (skipQuestions d fuel n p).Safe True d (fun _ p' => p.pos + 5 * n ≤ p'.pos) := by
  intro n
  induction n with
  | zero => intro p hp; exact ⟨hp, by simp⟩
  | succ n ih =>
    intro p hp
    unfold skipQuestions fetchU16
    refine (nameOK_any d fuel true [] p hp).bind ?_
    intro _ p1 hp1 h1
    refine (safe_chk_fetchN d 2 beNat p1 (some 0) hp1).bind ?_
    intro _ p2 hp2 h2
    refine (safe_chk_fetchN d 2 beNat p2 (some 0) hp2).bind ?_
    intro _ p3 hp3 h3
    refine (ih p3 hp3).mono ?_
    intro _ p' h
    have := h1.1; have := h2.1; have := h3.1
    omega

theorem skipQuestions_many (d : List Byte) (fuel n : Nat) (p : P) (hp : Good d p) (h : d.length < p.pos + 5 * n) :
    (skipQuestions d fuel n p).isOk = false := by
  have hs := safe_skipQuestions5 d fuel n p hp
  cases hr : skipQuestions d fuel n p with
  | ok a p' => rw [hr] at hs; have := hs.1.1; have := hs.2; omega
  | bad p' => rfl
  | uninit p' => rfl
  | diverge p' => rfl

theorem answers_many (d : List Byte) (fuel n : Nat) (a : List ARec) (c : List CRec) (p : P) (hp : Good d p)
    (h : d.length < p.pos + 11 * n) : (answers d fuel n a c p).isOk = false := by
  have hs := safe_answers d fuel (nameOK_any d fuel) n a c p hp
  cases hr : answers d fuel n a c p with
  | ok ac p' => rw [hr] at hs; have := hs.1.1; have := hs.2.2.2.2; omega
  | bad p' => rfl
  | uninit p' => rfl
  | diverge p' => rfl

/-- the loops may as well be run with their counts clipped to what the datagram has room for -/
theorem skipQuestions_clip (d : List Byte) (fuel n : Nat) (p : P) (hp : Good d p) :
    skipQuestions d fuel n p = skipQuestions d fuel (min n (d.length / 5 + 1)) p := by
  by_cases hn : n ≤ d.length / 5 + 1
  · rw [Nat.min_eq_left hn]
  · have hm : min n (d.length / 5 + 1) = d.length / 5 + 1 := Nat.min_eq_right (by omega)
    rw [hm]
    obtain ⟨k, rfl⟩ : ∃ k, n = d.length / 5 + 1 + k := ⟨n - (d.length / 5 + 1), by omega⟩
    exact skipQuestions_stable d fuel _ k p (skipQuestions_many d fuel _ p hp (by omega))

theorem answers_clip (d : List Byte) (fuel n : Nat) (a : List ARec) (c : List CRec) (p : P) (hp : Good d p) :
    answers d fuel n a c p = answers d fuel (min n (d.length / 11 + 1)) a c p := by
  by_cases hn : n ≤ d.length / 11 + 1
  · rw [Nat.min_eq_left hn]
  · have hm : min n (d.length / 11 + 1) = d.length / 11 + 1 := Nat.min_eq_right (by omega)
    rw [hm]
    obtain ⟨k, rfl⟩ : ∃ k, n = d.length / 11 + 1 + k := ⟨n - (d.length / 11 + 1), by omega⟩
    exact answers_stable d fuel _ k a c p (answers_many d fuel _ a c p hp (by omega))

/-- `parseReply` with both loop counts clipped to what fits: at most `|d|/5 + 1` question
iterations and `|d|/11 + 1` answer iterations, whatever `qd_count`/`an_count` say -/
def parseReplyClip (d : List Byte) (known : Nat → Bool) : Res Reply :=
  (chk (fetchU16 d {} (some 0))).bind fun id p =>
  (chk (fetchU16 d p (some 0))).bind fun flags p =>
  if !known id then .ok .ignore p else
  if flags / 32768 % 2 = 0 then .ok .ignore p else
  if flags % 16 = 0 then
    (chk (fetchU16 d p (some 0))).bind fun qd p =>
    (chk (fetchU16 d p (some 0))).bind fun an p =>
    (chk (fetchU16 d p (some 0))).bind fun _ns p =>
    (chk (fetchU16 d p (some 0))).bind fun _ar p =>
    (skipQuestions d (fuelFor d) (min qd (d.length / 5 + 1)) p).bind fun _ p =>
    (answers d (fuelFor d) (min an (d.length / 11 + 1)) [] [] p).bind fun ac p =>
    .ok (.answer id ac.1 ac.2) p
  else .ok (.rcode id (flags % 16)) p

theorem parseReply_eq_clip (d : List Byte) (known : Nat → Bool) : parseReply d known = parseReplyClip d known := by
  unfold parseReply parseReplyClip fetchU16
  have g0 : Good d ({} : P) := ⟨Nat.zero_le _, by simp⟩
  refine bind_congr_safe (dv := True) (safe_chk_fetchN d 2 beNat {} (some 0) g0) ?_
  intro id p1 hp1 _
  refine bind_congr_safe (dv := True) (safe_chk_fetchN d 2 beNat p1 (some 0) hp1) ?_
  intro flags p2 hp2 _
  split
  · rfl
  · split
    · rfl
    · split
      · refine bind_congr_safe (dv := True) (safe_chk_fetchN d 2 beNat p2 (some 0) hp2) ?_
        intro qd p3 hp3 _
        refine bind_congr_safe (dv := True) (safe_chk_fetchN d 2 beNat p3 (some 0) hp3) ?_
        intro an p4 hp4 _
        refine bind_congr_safe (dv := True) (safe_chk_fetchN d 2 beNat p4 (some 0) hp4) ?_
        intro _ p5 hp5 _
        refine bind_congr_safe (dv := True) (safe_chk_fetchN d 2 beNat p5 (some 0) hp5) ?_
        intro _ p6 hp6 _
        rw [← skipQuestions_clip d _ qd p6 hp6]
        refine bind_congr_safe (safe_skipQuestions5 d _ qd p6 hp6) ?_
        intro _ p7 hp7 _
        rw [← answers_clip d _ an [] [] p7 hp7]
      · rfl

end Tbox.C15
