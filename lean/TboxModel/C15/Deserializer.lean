/-
C15 — model of `tbox::util::Deserializer` (modules/util/serializer.cpp:186-330) as used by the
DNS client.

* The datagram is a `List Byte`; the parser state `P` is `pos_` plus two ghost fields: the log
  of every byte range the C++ dereferences (`acc`, newest first) and the number of compression
  pointers followed (`jumps`, statistics only).
* Every `fetch(T &out)` of the C++ takes its destination by reference and leaves it UNTOUCHED
  when `checkSize` fails.  Destinations are therefore `Loc α := Option α` (`none` = declared but
  never written = indeterminate); a fetch returns `(ok, new content of out, new parser)`.
  Reading a destination that is still `none` is the explicit outcome `Res.uninit`.
* Numeric values are `Nat` (big-endian value of the bytes read).  The A-record address is
  fetched little-endian into a `uint32_t` and stored as is, i.e. its in-memory image is the four
  datagram bytes in order: the model keeps those four bytes.
-/
namespace Tbox.C15

abbrev Byte := UInt8

/-- one dereferenced byte range `[off, off+len)` of the datagram -/
structure Access where
  off : Nat
  len : Nat
deriving Repr, DecidableEq

/-- `Deserializer` state: `pos_` (+ ghost access log, ghost jump counter) -/
structure P where
  pos : Nat := 0
  acc : List Access := []
  jumps : Nat := 0
deriving Repr, DecidableEq

/-- a C++ local passed by reference: `none` = indeterminate -/
abbrev Loc (α : Type) := Option α

def slice (d : List Byte) (off n : Nat) : List Byte := (d.drop off).take n

/-- big-endian value -/
def beNat (bs : List Byte) : Nat := bs.foldl (fun a b => a * 256 + b.toNat) 0

/-- `bool Deserializer::fetch(T &out)` for an `n`-byte `T`:
`if (!checkSize(n)) return false; out = …p[0..n)…; pos_ += n; return true;` -/
def fetchN {α : Type} (d : List Byte) (n : Nat) (conv : List Byte → α) (p : P) (out : Loc α) :
    Bool × Loc α × P :=
  if p.pos + n ≤ d.length then
    (true, some (conv (slice d p.pos n)), { p with pos := p.pos + n, acc := ⟨p.pos, n⟩ :: p.acc })
  else (false, out, p)

def fetchU8 (d : List Byte) := fetchN d 1 beNat
def fetchU16 (d : List Byte) := fetchN d 2 beNat
def fetchU32 (d : List Byte) := fetchN d 4 beNat
/-- `setEndian(kLittle); fetch(uint32_t&)`: memory image = the four bytes in datagram order -/
def fetchU32le (d : List Byte) := fetchN d 4 (fun bs => bs)
/-- `fetch(void *p, size_t n)` -/
def fetchRaw (d : List Byte) (n : Nat) := fetchN d n (fun bs => bs)

/-- `bool Deserializer::skip(size_t)` — moves `pos_`, dereferences nothing -/
def skip (d : List Byte) (p : P) (n : Nat) : Bool × P :=
  if p.pos + n ≤ d.length then (true, { p with pos := p.pos + n }) else (false, p)

/-- `bool Deserializer::set_pos(size_t)` -/
def setPos (d : List Byte) (p : P) (pos : Nat) : Bool × P :=
  if pos < d.length then (true, { p with pos := pos }) else (false, p)

/-- outcome of a piece of parsing code -/
inductive Res (α : Type) where
  | ok (a : α) (p : P)
  | bad (p : P)       -- the code gave up (`return false` / reply ignored)
  | uninit (p : P)    -- the code read a local that was never written
  | diverge (p : P)   -- out of fuel: the C++ would still be looping / recursing
deriving Repr

def Res.st {α : Type} : Res α → P
  | .ok _ p => p | .bad p => p | .uninit p => p | .diverge p => p

def Res.val? {α : Type} : Res α → Option α
  | .ok a _ => some a
  | _ => none

def Res.isBad {α : Type} : Res α → Bool
  | .bad _ => true
  | _ => false

def Res.bind {α β : Type} (r : Res α) (f : α → P → Res β) : Res β :=
  match r with
  | .ok a p => f a p
  | .bad p => .bad p
  | .uninit p => .uninit p
  | .diverge p => .diverge p

/-- `if (!parser.fetch(v)) return false;` followed by a read of `v` -/
def chk {α : Type} (r : Bool × Loc α × P) : Res α :=
  match r with
  | (false, _, p) => .bad p
  | (true, none, p) => .uninit p
  | (true, some a, p) => .ok a p

/-- `parser >> v;` (result of the fetch dropped) followed by a read of `v` -/
def unchk {α : Type} (r : Bool × Loc α × P) : Res α :=
  match r with
  | (_, none, p) => .uninit p
  | (_, some a, p) => .ok a p

/-- `oss << str` with `char str[]`: characters up to the first NUL -/
def cstr (bs : List Byte) : List Byte := bs.takeWhile (· ≠ 0)

/-- `if (!first) oss << '.';` -/
def sep (first : Bool) (oss : List Byte) : List Byte := if first then oss else oss ++ [46]

end Tbox.C15
