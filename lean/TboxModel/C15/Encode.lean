/- C15 — helper lemmas for the request encoder (`AppendDomain`) and its round trip through the
model's own name decoder.  Core Lean only. -/
import TboxModel.C15.Proofs
namespace Tbox.C15

/-- the dotted string the decoder prints for a list of labels -/
def joinFrom : Bool → List (List Byte) → List Byte
  | _, [] => []
  | first, l :: ls => (if first then [] else [46]) ++ l ++ joinFrom false ls

/-- a label the wire format can carry and the decoder prints unchanged: 1..63 bytes, no NUL -/
def labelOK (l : List Byte) : Bool := decide (1 ≤ l.length) && decide (l.length ≤ 63) && !l.contains 0

theorem slice_mid (pre x rest : List Byte) : slice (pre ++ (x ++ rest)) pre.length x.length = x := by
  simp [slice]

theorem slice_mid1 (pre : List Byte) (b : Byte) (rest : List Byte) : slice (pre ++ b :: rest) pre.length 1 = [b] := by
  simp [slice]

theorem beNat_single (b : Byte) : beNat [b] = b.toNat := by simp [beNat]

theorem cstr_noNul (l : List Byte) (h : l.contains 0 = false) : cstr l = l := by
  unfold cstr
  induction l with
  | nil => rfl
  | cons b bs ih =>
    simp only [List.contains_cons, Bool.or_eq_false_iff] at h
    have hb : b ≠ 0 := by
      intro hb; subst hb; simp at h
    have := ih h.2
    simp [hb]
    simpa using this

theorem encLabels_cons (l : List Byte) (ls : List (List Byte)) :
    encLabels (l :: ls) = (UInt8.ofNat (l.length % 256) :: l) ++ encLabels ls := by
  simp [encLabels]

/-- decoding well-formed encoded labels found at offset `|pre|` of any datagram gives the labels back -/
theorem fetchDomain_encLabels : ∀ (ls : List (List Byte)), (∀ l ∈ ls, labelOK l = true) →
    ∀ (pre suf oss : List Byte) (first : Bool) (p : P) (fuel hops : Nat), p.pos = pre.length → ls.length < fuel →
      ∃ p', fetchDomain (pre ++ (encLabels ls ++ 0 :: suf)) fuel hops first oss p = .ok (oss ++ joinFrom first ls) p' ∧
        p'.pos = pre.length + (encLabels ls).length + 1 := by
  intro ls
  induction ls with
  | nil =>
    intro _ pre suf oss first p fuel hops hp hf
    obtain ⟨f, rfl⟩ : ∃ f, fuel = f + 1 := ⟨fuel - 1, by simp at hf; omega⟩
    unfold fetchDomain fetchU8
    rcases chk_fetchN_cases (pre ++ (encLabels [] ++ 0 :: suf)) 1 beNat p (some 0) with ⟨_, e⟩ | ⟨hb, _⟩
    · rw [e]
      simp only [Res.bind]
      have : beNat (slice (pre ++ (encLabels [] ++ 0 :: suf)) p.pos 1) = 0 := by
        rw [hp]; simp [encLabels, slice_mid1, beNat_single]
      rw [this]
      simp [joinFrom, encLabels, hp]
    · exfalso; apply hb; simp [hp]; omega
  | cons l ls ih =>
    intro hwf pre suf oss first p fuel hops hp hf
    obtain ⟨f, rfl⟩ : ∃ f, fuel = f + 1 := ⟨fuel - 1, by simp at hf; omega⟩
    have hl := hwf l List.mem_cons_self
    simp only [labelOK, Bool.and_eq_true, decide_eq_true_eq, Bool.not_eq_true'] at hl
    obtain ⟨⟨hl1, hl2⟩, hl3⟩ := hl
    have hlen : (UInt8.ofNat (l.length % 256)).toNat = l.length := by
      simp [UInt8.toNat_ofNat']; omega
    -- the datagram, regrouped
    have hd : pre ++ (encLabels (l :: ls) ++ 0 :: suf) =
        pre ++ UInt8.ofNat (l.length % 256) :: (l ++ (encLabels ls ++ 0 :: suf)) := by
      rw [encLabels_cons]; simp
    have hd2 : pre ++ (encLabels (l :: ls) ++ 0 :: suf) =
        (pre ++ [UInt8.ofNat (l.length % 256)]) ++ (l ++ (encLabels ls ++ 0 :: suf)) := by
      rw [hd]; simp
    have hd3 : pre ++ (encLabels (l :: ls) ++ 0 :: suf) =
        (pre ++ UInt8.ofNat (l.length % 256) :: l) ++ (encLabels ls ++ 0 :: suf) := by
      rw [hd]; simp
    generalize hdd : pre ++ (encLabels (l :: ls) ++ 0 :: suf) = d at hd hd2 hd3
    unfold fetchDomain fetchU8
    rcases chk_fetchN_cases d 1 beNat p (some 0) with ⟨_, e⟩ | ⟨hb, _⟩
    · rw [e]
      simp only [Res.bind]
      have h1 : beNat (slice d p.pos 1) = l.length := by
        rw [hp, hd, slice_mid1, beNat_single, hlen]
      rw [h1]
      have hne : ¬ l.length = 0 := by omega
      have hnp : ¬ l.length / 64 = 3 := by omega
      simp only [hne, hnp, if_false]
      unfold fetchRaw
      rcases chk_fetchN_cases d l.length (fun bs => bs) { p with pos := p.pos + 1, acc := ⟨p.pos, 1⟩ :: p.acc } none
        with ⟨_, e2⟩ | ⟨hb2, _⟩
      · rw [e2]
        dsimp only
        have h2 : slice d (p.pos + 1) l.length = l := by
          have : p.pos + 1 = (pre ++ [UInt8.ofNat (l.length % 256)]).length := by simp [hp]
          rw [this, hd2, slice_mid]
        rw [h2, cstr_noNul l hl3]
        have hwf' : ∀ l' ∈ ls, labelOK l' = true := fun l' h' => hwf l' (List.mem_cons_of_mem _ h')
        obtain ⟨p', hres, hpos⟩ := ih hwf' (pre ++ UInt8.ofNat (l.length % 256) :: l) suf (sep first oss ++ l) false
          { pos := p.pos + 1 + l.length, acc := ⟨p.pos + 1, l.length⟩ :: ⟨p.pos, 1⟩ :: p.acc, jumps := p.jumps } f hops
          (by simp [hp]; omega) (by simp at hf; omega)
        rw [← hd3] at hres
        refine ⟨p', ?_, ?_⟩
        · rw [hres, sep_eq]; simp [joinFrom]
        · rw [hpos, encLabels_cons]; simp; omega
      · exfalso; apply hb2
        rw [hd]; simp [hp]; omega
    · exfalso; apply hb; rw [hd]; simp [hp]

end Tbox.C15
