/-
C15 — model of the DNS client `tbox::network::DnsRequest` (modules/network/dns_request.{h,cpp})
with the timeout ring of `eventx::TimeoutMonitor` (5 slots, one-second tick), transcribed from
the tree WITH patches/C15-01 … C15-04 applied (every fetch checked, locals initialised,
pointer hop limit).  The transcription of the unpatched parser is in `Orig.lean`.

Part 1: reply parsing (`FetchDomain`, the body of `onUdpRecv`).
Part 2: pending lookups (`requests_`), timeout ring, server-failure counting, callbacks.

Callbacks are SCRIPTS of API calls carried in the state (`Req.script`): when a lookup's callback
fires (reply, error status, all servers failed, timeout) the script is executed from inside the
callback, i.e. (patches/C15-03) after `onUdpRecv`/`onRequestTimeout` have erased the lookup and —
for timeouts — while `TimeoutMonitor::onTimerTick` is still walking the slot it swapped out.
The as-found order (callback first, erase afterwards) is kept in `Orig.lean`.

Ghost fields (never printed, never branch on): `P.acc`, `P.jumps`, `ARec.off`, `Req.born`,
`St.now`, `St.called`, `St.cancelled`, `St.refused`, `Event.age`.
-/
import TboxModel.C15.Deserializer
namespace Tbox.C15

/-! ### Part 1 — reply parsing -/

/-- `kMaxDomainPointerHops` -/
def maxHops : Nat := 16

/-- `bool FetchDomain(parser, domain, hops)`.  One unit of fuel per loop iteration and per
recursive call.  `first`/`oss` are the loop-carried locals. -/
def fetchDomain (d : List Byte) : Nat → Nat → Bool → List Byte → P → Res (List Byte)
  | 0, _, _, _, p => .diverge p
  | fuel + 1, hops, first, oss, p =>
    -- uint8_t len = 0; if (!parser.fetch(len)) return false;
    (chk (fetchU8 d p (some 0))).bind fun len p =>
    if len = 0 then .ok oss p else
    let oss := sep first oss
    if len / 64 = 3 then
      -- uint8_t offset_low = 0; if (!parser.fetch(offset_low)) return false;
      (chk (fetchU8 d p (some 0))).bind fun lo p =>
      if hops ≥ maxHops then .bad p else
      -- Deserializer sub_parser(parser); if (!sub_parser.set_pos(offset)) return false;
      let r := setPos d p ((len % 64) * 256 + lo)
      if r.1 = false then .bad p else
        (fetchDomain d fuel (hops + 1) true [] { r.2 with jumps := r.2.jumps + 1 }).bind
          fun name sub' => .ok (oss ++ name) { sub' with pos := p.pos }
    else
      -- char str[len + 1]; if (!parser.fetch(str, len)) return false;
      (chk (fetchRaw d len p none)).bind fun str p =>
      fetchDomain d fuel hops false (oss ++ cstr str) p

/-- enough fuel for every datagram (theorem `C15_terminates`) -/
def fuelFor (d : List Byte) : Nat := (maxHops + 1) * (d.length + 2)

structure ARec where
  ttl : Nat
  ip  : List Byte
  off : Nat          -- ghost: datagram offset the address was read from
deriving Repr, DecidableEq

structure CRec where
  ttl  : Nat
  name : List Byte
deriving Repr, DecidableEq

/-- the question loop -/
def skipQuestions (d : List Byte) (fuel : Nat) : Nat → P → Res Unit
  | 0, p => .ok () p
  | n + 1, p =>
    (fetchDomain d fuel 0 true [] p).bind fun _ p =>
    (chk (fetchU16 d p (some 0))).bind fun _ p =>
    (chk (fetchU16 d p (some 0))).bind fun _ p =>
    skipQuestions d fuel n p

/-- the answer loop -/
def answers (d : List Byte) (fuel : Nat) : Nat → List ARec → List CRec → P → Res (List ARec × List CRec)
  | 0, a, c, p => .ok (a, c) p
  | n + 1, a, c, p =>
    (fetchDomain d fuel 0 true [] p).bind fun _ p =>
    (chk (fetchU16 d p (some 0))).bind fun anType p =>
    (chk (fetchU16 d p (some 0))).bind fun _anClass p =>
    (chk (fetchU32 d p (some 0))).bind fun ttl p =>
    (chk (fetchU16 d p (some 0))).bind fun anLen p =>
    if anType = 1 then
      (chk (fetchU32le d p (some [0, 0, 0, 0]))).bind fun ip p' =>
      answers d fuel n (a ++ [⟨ttl, ip, p.pos⟩]) c p'
    else if anType = 5 then
      (fetchDomain d fuel 0 true [] p).bind fun name p =>
      answers d fuel n a (c ++ [⟨ttl, name⟩]) p
    else
      let r := skip d p anLen
      if r.1 = false then .bad p else answers d fuel n a c r.2

/-- what `onUdpRecv` learns from a datagram -/
inductive Reply where
  | ignore                                              -- unknown id / not a response
  | answer (id : Nat) (a : List ARec) (c : List CRec)   -- rcode 0, completely parsed
  | rcode (id : Nat) (rc : Nat)                         -- rcode ≠ 0
deriving Repr, DecidableEq

/-- the parsing part of `onUdpRecv`; `known id` = `findRequest(id) != nullptr`.
`Res.bad` = the datagram is dropped. -/
def parseReply (d : List Byte) (known : Nat → Bool) : Res Reply :=
  (chk (fetchU16 d {} (some 0))).bind fun id p =>
  (chk (fetchU16 d p (some 0))).bind fun flags p =>
  if !known id then .ok .ignore p else
  if flags / 32768 % 2 = 0 then .ok .ignore p else
  if flags % 16 = 0 then
    (chk (fetchU16 d p (some 0))).bind fun qd p =>
    (chk (fetchU16 d p (some 0))).bind fun an p =>
    (chk (fetchU16 d p (some 0))).bind fun _ns p =>
    (chk (fetchU16 d p (some 0))).bind fun _ar p =>
    (skipQuestions d (fuelFor d) qd p).bind fun _ p =>
    (answers d (fuelFor d) an [] [] p).bind fun ac p =>
    .ok (.answer id ac.1 ac.2) p
  else .ok (.rcode id (flags % 16)) p

/-! ### Part 0 — request encoding (`AppendDomain`, the send buffer of `request()`) -/

/-- `util::string::Split(domain, ".", vec)`: the pieces between the dots, empty pieces kept
(`""` ↦ one empty piece, `"a..b"` ↦ `a`, ``, `b`, `"a."` ↦ `a`, ``) -/
def splitDot : List Byte → List (List Byte)
  | [] => [[]]
  | b :: bs =>
    if b = 46 then [] :: splitDot bs
    else (b :: (splitDot bs).headD []) :: (splitDot bs).tail

/-- `dump << uint16_t` in big-endian mode (serializer.cpp:80-84: `p[1] = in & 0xff; in >>= 8; p[0] = in & 0xff`) -/
def u16be (v : Nat) : List Byte := [UInt8.ofNat (v / 256 % 256), UInt8.ofNat (v % 256)]

/-- `for (seg : vec) { dump << uint8_t(seg.length()); dump.append(seg.data(), seg.length()); }` —
the length byte is the piece's length NARROWED to 8 bits, nothing is checked -/
def encLabels (ls : List (List Byte)) : List Byte :=
  ls.flatMap fun seg => UInt8.ofNat (seg.length % 256) :: seg

/-- `AppendDomain(dump, domain)` -/
def appendDomain (name : List Byte) : List Byte := encLabels (splitDot name) ++ [0]

/-- the datagram `request()` sends to every configured server: header (id, flags 0x0100,
qd 1, an/ns/ar 0), QNAME, QTYPE A, QCLASS IN -/
def encodeQuery (id : Nat) (name : List Byte) : List Byte :=
  u16be id ++ u16be 256 ++ u16be 1 ++ u16be 0 ++ u16be 0 ++ u16be 0 ++ appendDomain name ++ u16be 1 ++ u16be 1

/-- what the kernel answers to one `sendto` of `len` bytes: `ans = 0` = the datagram is taken
(UDP: all of it, or `EMSGSIZE` = 90 beyond 65 507 bytes); any other `ans` is the errno of a
failure.  `request()` drops the value (`udp_.send(…)` is a discarded expression). -/
def sendRet (len ans : Nat) : Int :=
  if ans = 0 then (if len ≤ 65507 then (len : Int) else -90) else -(ans : Int)

/-- what the kernel answers to one `recvfrom` of `UdpSocket::onSocketEvent` -/
inductive KAns where
  | err (errno : Nat)          -- -1 (EINTR, EAGAIN, ECONNREFUSED, …): nothing consumed
  | data (d : List Byte)       -- the next queued datagram, cut to the buffer
deriving Repr, DecidableEq

/-! ### Part 2 — pending lookups, timeout ring, callbacks -/

inductive Status where
  | success | domainError | allDnsFail | timeout | fail
deriving Repr, DecidableEq

structure Result where
  status : Status
  a : List ARec := []
  c : List CRec := []
deriving Repr, DecidableEq

/-- one API call made from inside a callback -/
inductive Act where
  | lookup (sid : Nat)     -- request(domain, callback = script number `sid`)
  | cancel (id : Nat)      -- cancel(id)
  | cancelSelf             -- cancel(the id of the lookup whose callback is running)
  | servers (n : Nat)      -- setDnsIPAddresses(n addresses)
  | running (id : Nat)     -- isRunning(id)
  | runningSelf            -- isRunning(the id of the lookup whose callback is running)
deriving Repr, DecidableEq

/-- `DnsRequest::Request`; the callback is the script, identified by the lookup's serial number -/
structure Req where
  serial : Nat
  script : List Act := []
  responseCount : Nat := 0
  born : Nat := 0        -- ghost: value of `St.now` when the lookup was issued
deriving Repr, DecidableEq

/-- a callback invocation, with the return values of the API calls its script made -/
structure Event where
  serial : Nat
  result : Result
  acts : List (Act × Nat) := []
  age : Nat := 0         -- ghost: ticks since the lookup was issued
deriving Repr, DecidableEq

/-- `DnsRequest::TimeoutToken`: what the timeout ring stores — the id and the sequence number of
the request (the model uses the lookup's serial number as sequence number: both are unique) -/
abbrev Token := Nat × Nat

structure St where
  servers : Nat := 1                   -- dns_ip_vec_.size()
  alloc : Nat := 0                     -- req_id_alloc_ (uint16_t)
  reqs : List (Nat × Req) := []        -- requests_
  r0 : List Token := []                -- timeout ring: curr_item_->items, NEWEST FIRST
  r1 : List Token := []                --   curr_item_->next->items  (handled at the next tick)
  r2 : List Token := []
  r3 : List Token := []
  r4 : List Token := []
  valueNumber : Nat := 0               -- value_number_ (timer enabled iff > 0)
  nextSerial : Nat := 0                -- lookups issued so far (harness-side callback index)
  scripts : List (List Act) := []      -- harness-side table of callback scripts
  now : Nat := 0                       -- ghost: ticks so far
  called : List Nat := []              -- ghost: serials whose callback ran, in order
  cancelled : List Nat := []           -- ghost: serials cancelled while outstanding (newest first)
  refused : List Nat := []             -- ghost: serials of refused lookups (newest first)
deriving Repr, DecidableEq

def find (reqs : List (Nat × Req)) (id : Nat) : Option Req :=
  (reqs.find? (fun e => e.1 == id)).map (·.2)

def erase (reqs : List (Nat × Req)) (id : Nat) : List (Nat × Req) :=
  reqs.filter (fun e => e.1 != id)

/-- `do { req_id = ++req_id_alloc_; } while (req_id == 0 || requests_.find(req_id) != requests_.end());`
with fuel (`probe_good`: 65 536 steps find an id whenever fewer than 65 535 lookups are outstanding) -/
def probe (reqs : List (Nat × Req)) : Nat → Nat → Nat
  | 0, a => a
  | f + 1, a =>
    let id := (a + 1) % 65536
    if id = 0 ∨ (find reqs id).isSome then probe reqs f id else id

/-- a refused `request()`: returns the invalid id 0, registers nothing -/
def refuse (st : St) : St × Nat :=
  ({ st with nextSerial := st.nextSerial + 1, refused := st.nextSerial :: st.refused }, 0)

/-- `request()` with callback script `sid`: returns the id (0 = refused: no server configured, or
all 65 535 ids outstanding) -/
def lookup (st : St) (sid : Nat) : St × Nat :=
  if st.servers = 0 then refuse st
  else if st.reqs.length ≥ 65535 then refuse st
  else
    let id := probe st.reqs 65536 st.alloc
    -- requests_[req_id] = req; timeout_monitor_.add({req_id, req.seq});
    ({ st with alloc := id,
               reqs := (id, { serial := st.nextSerial, script := st.scripts.getD sid [], born := st.now })
                        :: erase st.reqs id,
               r0 := (id, st.nextSerial) :: st.r0,
               valueNumber := st.valueNumber + 1,
               nextSerial := st.nextSerial + 1 }, id)

/-- `cancel()` -/
def cancel (st : St) (id : Nat) : St × Bool :=
  match find st.reqs id with
  | none => (st, false)
  | some r => ({ st with reqs := erase st.reqs id, cancelled := r.serial :: st.cancelled }, true)

/-- one API call made from inside the callback of lookup `self`: new state and return value -/
def doAct (self : Nat) (st : St) : Act → St × Nat
  | .lookup sid => lookup st sid
  | .cancel id => ((cancel st id).1, if (cancel st id).2 then 1 else 0)
  | .cancelSelf => ((cancel st self).1, if (cancel st self).2 then 1 else 0)
  | .servers n => ({ st with servers := n }, 0)
  | .running id => (st, if (find st.reqs id).isSome then 1 else 0)
  | .runningSelf => (st, if (find st.reqs self).isSome then 1 else 0)

/-- the body of a callback: the API calls of its script, in order (none of them can run another
callback synchronously) -/
def runScript (self : Nat) : St → List Act → St × List (Act × Nat)
  | st, [] => (st, [])
  | st, a :: as =>
    let r := doAct self st a
    let (st2, outs) := runScript self r.1 as
    (st2, (a, r.2) :: outs)

/-- `Callback cb = std::move(req->cb); deleteRequest(req_id); if (cb) cb(result);`
The lookup is erased BEFORE its callback runs: inside the callback the own id is no longer
outstanding (`isRunning` false, `cancel` of it returns false and is harmless). -/
def finish (st : St) (id : Nat) (r : Req) (res : Result) : St × List Event :=
  let st0 := { st with reqs := erase st.reqs id, called := st.called ++ [r.serial] }
  let (st1, outs) := runScript id st0 r.script
  (st1, [⟨r.serial, res, outs, st.now - r.born⟩])

/-- `onUdpRecv()` given what the parser made of the datagram -/
def applyReply (st : St) : Reply → St × List Event
  | .ignore => (st, [])
  | .answer id a c =>
    match find st.reqs id with
    | none => (st, [])
    | some r => finish st id r { status := .success, a := a, c := c }
  | .rcode id rc =>
    match find st.reqs id with
    | none => (st, [])
    | some r =>
      if rc = 3 then finish st id r { status := .domainError }
      else if rc = 1 then finish st id r { status := .fail }
      else
        -- ++req->response_count;   (in place, on the map's entry)
        if r.responseCount + 1 < st.servers then
          ({ st with reqs := st.reqs.map fun e =>
               if e.1 == id then (e.1, { e.2 with responseCount := e.2.responseCount + 1 }) else e }, [])
        else finish st id r { status := .allDnsFail }

def onRecv (st : St) (d : List Byte) : St × List Event :=
  if st.reqs.isEmpty then (st, [])
  else
    match parseReply d (fun id => (find st.reqs id).isSome) with
    | .ok rep _ => applyReply st rep
    | _ => (st, [])

/-- `UdpSocket::onSocketEvent(kReadEvent)`: one `recvfrom` into the 4096-byte stack buffer;
`rsize > 0` → `recv_cb_(buf, rsize, peer)` (the peer address is passed on and never looked at:
`(void)from`), `rsize == 0` (empty datagram) → nothing, `rsize < 0` → a log line, nothing else. -/
def sockEvent (st : St) : KAns → St × List Event
  | .err _ => (st, [])
  | .data d => if d.isEmpty then (st, []) else onRecv st (d.take 4096)

/-- successive loop passes with the socket readable, the kernel answering `answers` in order -/
def sockRun : St → List KAns → St × List Event
  | st, [] => (st, [])
  | st, a :: as =>
    let r1 := sockEvent st a
    let r2 := sockRun r1.1 as
    (r2.1, r1.2 ++ r2.2)

/-- `onRequestTimeout(token)`: `if (req == nullptr || req->seq != token.seq) return;` -/
def onTimeout (acc : St × List Event) (t : Token) : St × List Event :=
  match find acc.1.reqs t.1 with
  | none => acc
  | some r =>
    if r.serial = t.2 then
      let (st', e) := finish acc.1 t.1 r { status := .timeout }
      (st', acc.2 ++ e)
    else acc

/-- one second passes: the monitor's timer fires iff it is enabled.
`curr_item_ = curr_item_->next; swap(tobe_handle, curr_item_->items); value_number_ -= n;` and only
then the callbacks (oldest entry first): what they `add()` lands in the (now empty) current slot `r0`. -/
def tick (st : St) : St × List Event :=
  if st.valueNumber = 0 then (st, [])
  else
    let items := st.r1.reverse
    let st1 := { st with r0 := [], r1 := st.r2, r2 := st.r3, r3 := st.r4, r4 := st.r0,
                         valueNumber := st.valueNumber - items.length, now := st.now + 1 }
    items.foldl onTimeout (st1, [])

inductive Op where
  | servers (n : Nat)
  | defScript (acts : List Act)
  | lookup (sid : Nat)
  | cancel (id : Nat)
  | running (id : Nat)
  | recv (d : List Byte)       -- onUdpRecv(d) called directly
  | net (d : List Byte)        -- a datagram sent to the client's UDP socket: UdpSocket::onSocketEvent reads at most
                               -- RECV_BUFF_SIZE = 4096 bytes of it and hands them to onUdpRecv
  | tick
  | lookupN (name : List Byte) (sid : Nat) (send : List Nat)
                               -- request(DomainName(name), script sid); `send` = the kernel's answers to the sendto calls
  | sock (answers : List KAns) -- loop passes with the kernel answering the socket's recvfrom calls (fault schedule)
  | recvAt (k : Nat) (d : List Byte)   -- onUdpRecv(d) with the bytes at address ≡ k (mod 8)
deriving Repr, DecidableEq

/-- observable result of one operation: the return value and the callbacks it ran -/
structure Out where
  ret : Nat := 0
  events : List Event := []
deriving Repr, DecidableEq

def step (st : St) : Op → St × Out
  | .servers n => ({ st with servers := n }, {})
  | .defScript acts => ({ st with scripts := st.scripts ++ [acts] }, { ret := st.scripts.length })
  | .lookup sid => let (s, id) := lookup st sid; (s, { ret := id })
  | .cancel id => let (s, b) := cancel st id; (s, { ret := if b then 1 else 0 })
  | .running id => (st, { ret := if (find st.reqs id).isSome then 1 else 0 })
  | .recv d => let (s, e) := onRecv st d; (s, { events := e })
  | .net d => let (s, e) := onRecv st (d.take 4096); (s, { events := e })
  | .tick => let (s, e) := tick st; (s, { events := e })
  | .lookupN _ sid _ => let (s, id) := lookup st sid; (s, { ret := id })
  | .sock answers => let (s, e) := sockRun st answers; (s, { events := e })
  | .recvAt _ d => let (s, e) := onRecv st d; (s, { events := e })

def init : St := {}

def run (st : St) : List Op → St × List Out
  | [] => (st, [])
  | op :: ops =>
    let (s1, o) := step st op
    let (s2, os) := run s1 ops
    (s2, o :: os)

end Tbox.C15
