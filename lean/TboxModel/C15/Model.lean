/-
C15 — model of the DNS client `tbox::network::DnsRequest` (modules/network/dns_request.{h,cpp})
with the timeout ring of `eventx::TimeoutMonitor` (5 slots, one-second tick), transcribed from
the tree WITH patches/C15-01 and C15-02 applied (every fetch checked, locals initialised,
pointer hop limit).  The transcription of the unpatched parser is in `Orig.lean`.

Part 1: reply parsing (`FetchDomain`, the body of `onUdpRecv`).
Part 2: pending lookups (`requests_`), timeout ring, server-failure counting, callbacks.

Ghost fields (never printed, never branch on): `P.acc`, `P.jumps`, `ARec.off`, `Req.born`,
`St.now`.
-/
import TboxModel.C15.Deserializer
namespace Tbox.C15

/-! ### Part 1 — reply parsing -/

/-- `kMaxDomainPointerHops` -/
def maxHops : Nat := 16

/-- `bool FetchDomain(parser, domain, hops)`.  One unit of fuel per loop iteration and per
recursive call.  `first`/`oss` are the loop-carried locals. -/
def fetchDomain (d : List Byte) : Nat → Nat → Bool → List Byte → P → Res (List Byte)
  | 0, _, _, _, p => .diverge p
  | fuel + 1, hops, first, oss, p =>
    -- uint8_t len = 0; if (!parser.fetch(len)) return false;
    (chk (fetchU8 d p (some 0))).bind fun len p =>
    if len = 0 then .ok oss p else
    let oss := sep first oss
    if len / 64 = 3 then
      -- uint8_t offset_low = 0; if (!parser.fetch(offset_low)) return false;
      (chk (fetchU8 d p (some 0))).bind fun lo p =>
      if hops ≥ maxHops then .bad p else
      -- Deserializer sub_parser(parser); if (!sub_parser.set_pos(offset)) return false;
      let r := setPos d p ((len % 64) * 256 + lo)
      if r.1 = false then .bad p else
        (fetchDomain d fuel (hops + 1) true [] { r.2 with jumps := r.2.jumps + 1 }).bind
          fun name sub' => .ok (oss ++ name) { sub' with pos := p.pos }
    else
      -- char str[len + 1]; if (!parser.fetch(str, len)) return false;
      (chk (fetchRaw d len p none)).bind fun str p =>
      fetchDomain d fuel hops false (oss ++ cstr str) p

/-- enough fuel for every datagram (theorem `C15_terminates`) -/
def fuelFor (d : List Byte) : Nat := (maxHops + 1) * (d.length + 2)

structure ARec where
  ttl : Nat
  ip  : List Byte
  off : Nat          -- ghost: datagram offset the address was read from
deriving Repr, DecidableEq

structure CRec where
  ttl  : Nat
  name : List Byte
deriving Repr, DecidableEq

/-- the question loop -/
def skipQuestions (d : List Byte) (fuel : Nat) : Nat → P → Res Unit
  | 0, p => .ok () p
  | n + 1, p =>
    (fetchDomain d fuel 0 true [] p).bind fun _ p =>
    (chk (fetchU16 d p (some 0))).bind fun _ p =>
    (chk (fetchU16 d p (some 0))).bind fun _ p =>
    skipQuestions d fuel n p

/-- the answer loop -/
def answers (d : List Byte) (fuel : Nat) : Nat → List ARec → List CRec → P → Res (List ARec × List CRec)
  | 0, a, c, p => .ok (a, c) p
  | n + 1, a, c, p =>
    (fetchDomain d fuel 0 true [] p).bind fun _ p =>
    (chk (fetchU16 d p (some 0))).bind fun anType p =>
    (chk (fetchU16 d p (some 0))).bind fun _anClass p =>
    (chk (fetchU32 d p (some 0))).bind fun ttl p =>
    (chk (fetchU16 d p (some 0))).bind fun anLen p =>
    if anType = 1 then
      (chk (fetchU32le d p (some [0, 0, 0, 0]))).bind fun ip p' =>
      answers d fuel n (a ++ [⟨ttl, ip, p.pos⟩]) c p'
    else if anType = 5 then
      (fetchDomain d fuel 0 true [] p).bind fun name p =>
      answers d fuel n a (c ++ [⟨ttl, name⟩]) p
    else
      let r := skip d p anLen
      if r.1 = false then .bad p else answers d fuel n a c r.2

/-- what `onUdpRecv` learns from a datagram -/
inductive Reply where
  | ignore                                              -- unknown id / not a response
  | answer (id : Nat) (a : List ARec) (c : List CRec)   -- rcode 0, completely parsed
  | rcode (id : Nat) (rc : Nat)                         -- rcode ≠ 0
deriving Repr, DecidableEq

/-- the parsing part of `onUdpRecv`; `known id` = `findRequest(id) != nullptr`.
`Res.bad` = the datagram is dropped. -/
def parseReply (d : List Byte) (known : Nat → Bool) : Res Reply :=
  (chk (fetchU16 d {} (some 0))).bind fun id p =>
  (chk (fetchU16 d p (some 0))).bind fun flags p =>
  if !known id then .ok .ignore p else
  if flags / 32768 % 2 = 0 then .ok .ignore p else
  if flags % 16 = 0 then
    (chk (fetchU16 d p (some 0))).bind fun qd p =>
    (chk (fetchU16 d p (some 0))).bind fun an p =>
    (chk (fetchU16 d p (some 0))).bind fun _ns p =>
    (chk (fetchU16 d p (some 0))).bind fun _ar p =>
    (skipQuestions d (fuelFor d) qd p).bind fun _ p =>
    (answers d (fuelFor d) an [] [] p).bind fun ac p =>
    .ok (.answer id ac.1 ac.2) p
  else .ok (.rcode id (flags % 16)) p

/-! ### Part 2 — pending lookups, timeout ring, callbacks -/

inductive Status where
  | success | domainError | allDnsFail | timeout | fail
deriving Repr, DecidableEq

structure Result where
  status : Status
  a : List ARec := []
  c : List CRec := []
deriving Repr, DecidableEq

/-- `DnsRequest::Request`; the callback is identified by the serial number of its lookup -/
structure Req where
  serial : Nat
  responseCount : Nat := 0
  born : Nat := 0        -- ghost: value of `St.now` when the lookup was issued
deriving Repr, DecidableEq

/-- a callback invocation -/
structure Event where
  serial : Nat
  result : Result
deriving Repr, DecidableEq

structure St where
  servers : Nat := 1                   -- dns_ip_vec_.size()
  alloc : Nat := 0                     -- req_id_alloc_ (uint16_t)
  reqs : List (Nat × Req) := []        -- requests_
  r0 : List Nat := []                  -- timeout ring: curr_item_->items
  r1 : List Nat := []                  --   curr_item_->next->items  (handled at the next tick)
  r2 : List Nat := []
  r3 : List Nat := []
  r4 : List Nat := []
  valueNumber : Nat := 0               -- value_number_ (timer enabled iff > 0)
  nextSerial : Nat := 0                -- lookups issued so far (harness-side callback index)
  now : Nat := 0                       -- ghost: ticks so far
deriving Repr, DecidableEq

def find (reqs : List (Nat × Req)) (id : Nat) : Option Req :=
  (reqs.find? (fun e => e.1 == id)).map (·.2)

def erase (reqs : List (Nat × Req)) (id : Nat) : List (Nat × Req) :=
  reqs.filter (fun e => e.1 != id)

/-- `if (req->cb) req->cb(result); deleteRequest(req_id);` -/
def finish (st : St) (id : Nat) (r : Req) (res : Result) : St × List Event :=
  ({ st with reqs := erase st.reqs id }, [⟨r.serial, res⟩])

/-- `request()`: returns the id (0 = refused, no server configured) -/
def lookup (st : St) : St × Nat :=
  if st.servers = 0 then ({ st with nextSerial := st.nextSerial + 1 }, 0)
  else
    let id := (st.alloc + 1) % 65536
    -- requests_[req_id] = req; timeout_monitor_.add(req_id);
    ({ st with alloc := id,
               reqs := (id, { serial := st.nextSerial, born := st.now }) :: erase st.reqs id,
               r0 := st.r0 ++ [id],
               valueNumber := st.valueNumber + 1,
               nextSerial := st.nextSerial + 1 }, id)

/-- `cancel()` -/
def cancel (st : St) (id : Nat) : St × Bool :=
  match find st.reqs id with
  | none => (st, false)
  | some _ => ({ st with reqs := erase st.reqs id }, true)

/-- `onUdpRecv()` given what the parser made of the datagram -/
def applyReply (st : St) : Reply → St × List Event
  | .ignore => (st, [])
  | .answer id a c =>
    match find st.reqs id with
    | none => (st, [])
    | some r => finish st id r { status := .success, a := a, c := c }
  | .rcode id rc =>
    match find st.reqs id with
    | none => (st, [])
    | some r =>
      if rc = 3 then finish st id r { status := .domainError }
      else if rc = 1 then finish st id r { status := .fail }
      else
        -- ++req->response_count;   (in place, on the map's entry)
        if r.responseCount + 1 < st.servers then
          ({ st with reqs := st.reqs.map fun e =>
               if e.1 == id then (e.1, { e.2 with responseCount := e.2.responseCount + 1 }) else e }, [])
        else finish st id r { status := .allDnsFail }

def onRecv (st : St) (d : List Byte) : St × List Event :=
  if st.reqs.isEmpty then (st, [])
  else
    match parseReply d (fun id => (find st.reqs id).isSome) with
    | .ok rep _ => applyReply st rep
    | _ => (st, [])

/-- `onRequestTimeout()` -/
def onTimeout (acc : St × List Event) (id : Nat) : St × List Event :=
  match find acc.1.reqs id with
  | none => acc
  | some r =>
    let (st', e) := finish acc.1 id r { status := .timeout }
    (st', acc.2 ++ e)

/-- one second passes: the monitor's timer fires iff it is enabled -/
def tick (st : St) : St × List Event :=
  if st.valueNumber = 0 then (st, [])
  else
    -- curr_item_ = curr_item_->next; swap(tobe_handle, curr_item_->items); value_number_ -= n
    let items := st.r1
    let st1 := { st with r0 := [], r1 := st.r2, r2 := st.r3, r3 := st.r4, r4 := st.r0,
                         valueNumber := st.valueNumber - items.length, now := st.now + 1 }
    items.foldl onTimeout (st1, [])

inductive Op where
  | servers (n : Nat)
  | lookup
  | cancel (id : Nat)
  | running (id : Nat)
  | recv (d : List Byte)
  | tick
deriving Repr, DecidableEq

/-- observable result of one operation: the return value and the callbacks it ran -/
structure Out where
  ret : Nat := 0
  events : List Event := []
deriving Repr, DecidableEq

def step (st : St) : Op → St × Out
  | .servers n => ({ st with servers := n }, {})
  | .lookup => let (s, id) := lookup st; (s, { ret := id })
  | .cancel id => let (s, b) := cancel st id; (s, { ret := if b then 1 else 0 })
  | .running id => (st, { ret := if (find st.reqs id).isSome then 1 else 0 })
  | .recv d => let (s, e) := onRecv st d; (s, { events := e })
  | .tick => let (s, e) := tick st; (s, { events := e })

def init : St := {}

def run (st : St) : List Op → St × List Out
  | [] => (st, [])
  | op :: ops =>
    let (s1, o) := step st op
    let (s2, os) := run s1 ops
    (s2, o :: os)

end Tbox.C15
