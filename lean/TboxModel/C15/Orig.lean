/-
C15 — transcription of the reply parser of the UNPATCHED tree (dns_request.cpp at 53edd72:
`std::string FetchDomain(Deserializer&)` and the body of `onUdpRecv`), kept for the
counterexample theorems (`Props.lean`) and for replaying the findings (`c15 orig`).

Differences to `Model.lean` (= what patches/C15-01, C15-02 change):
* no fetch is checked (`parser >> v`): after a failed fetch the destination keeps its previous
  content — `0` for the two locals the code initialises (`len`, `offset_low`), indeterminate
  for all others;
* the locals of the answer loop are declared inside the loop body without initialiser; the
  compiled code reuses the same stack slot, so from the second iteration on a failed fetch
  leaves the PREVIOUS record's value there (formally still indeterminate).  The model carries
  them from one iteration to the next (`Locals`) — this is what makes one A record with
  `an_count = 5` come out as five addresses;
* `set_pos` failure is not looked at (decoding continues at the current position);
* no hop limit: the recursion on compression pointers has no bound.
-/
import TboxModel.C15.Model
namespace Tbox.C15.Orig

/-- `std::string FetchDomain(util::Deserializer &parser)` (unpatched) -/
def fetchDomain (d : List Byte) : Nat → Bool → List Byte → P → Res (List Byte)
  | 0, _, _, p => .diverge p
  | fuel + 1, first, oss, p =>
    -- uint8_t len = 0; parser >> len;
    (unchk (fetchU8 d p (some 0))).bind fun len p =>
    if len = 0 then .ok oss p else
    let oss := sep first oss
    if len / 64 = 3 then
      -- uint8_t offset_low = 0; parser >> offset_low;
      (unchk (fetchU8 d p (some 0))).bind fun lo p =>
      -- sub_parser.set_pos(offset);   (result ignored)
      let sub := (setPos d p ((len % 64) * 256 + lo)).2
      (fetchDomain d fuel true [] { sub with jumps := sub.jumps + 1 }).bind
        fun name sub' => .ok (oss ++ name) { sub' with pos := p.pos }
    else
      -- char str[len + 1]; parser.fetch(str, len); str[len] = 0; oss << str;
      (unchk (fetchRaw d len p none)).bind fun str p =>
      fetchDomain d fuel false (oss ++ cstr str) p

def skipQuestions (d : List Byte) (fuel : Nat) : Nat → P → Res Unit
  | 0, p => .ok () p
  | n + 1, p =>
    (fetchDomain d fuel true [] p).bind fun _ p =>
    -- uint16_t dns_type, dns_class; parser >> dns_type >> dns_class;   (never read)
    let p := (fetchU16 d p none).2.2
    let p := (fetchU16 d p none).2.2
    skipQuestions d fuel n p

/-- the stack slots of the answer loop's locals -/
structure Locals where
  anType : Loc Nat := none
  anClass : Loc Nat := none
  ttl : Loc Nat := none
  anLen : Loc Nat := none
  ip : Loc (List Byte) := none

def answers (d : List Byte) (fuel : Nat) : Nat → Locals → List ARec → List CRec → P →
    Res (List ARec × List CRec)
  | 0, _, a, c, p => .ok (a, c) p
  | n + 1, L, a, c, p =>
    (fetchDomain d fuel true [] p).bind fun _ p =>
    -- parser >> an_type >> an_class >> an_ttl >> an_len;
    let r1 := fetchU16 d p L.anType
    let r2 := fetchU16 d r1.2.2 L.anClass
    let r3 := fetchU32 d r2.2.2 L.ttl
    let r4 := fetchU16 d r3.2.2 L.anLen
    let p := r4.2.2
    let L := { L with anType := r1.2.1, anClass := r2.2.1, ttl := r3.2.1, anLen := r4.2.1 }
    match L.anType with
    | none => .uninit p
    | some t =>
      if t = 1 then
        let r5 := fetchU32le d p L.ip
        match r5.2.1, L.ttl with
        | some ip, some ttl => answers d fuel n { L with ip := some ip } (a ++ [⟨ttl, ip, p.pos⟩]) c r5.2.2
        | _, _ => .uninit r5.2.2
      else if t = 5 then
        (fetchDomain d fuel true [] p).bind fun name p =>
        match L.ttl with
        | some ttl => answers d fuel n L a (c ++ [⟨ttl, name⟩]) p
        | none => .uninit p
      else
        match L.anLen with
        | some ln => answers d fuel n L a c (skip d p ln).2
        | none => .uninit p

/-- fuel that suffices whenever the pointers do not form a cycle -/
def fuelFor (d : List Byte) : Nat := (d.length + 2) * (d.length + 2)

def parseReply (d : List Byte) (known : Nat → Bool) : Res Reply :=
  -- uint16_t req_id, flags; parser >> req_id >> flags;
  let r1 := fetchU16 d {} none
  let r2 := fetchU16 d r1.2.2 none
  let p := r2.2.2
  match r1.2.1 with
  | none => .uninit p
  | some id =>
    if !known id then .ok .ignore p else
    match r2.2.1 with
    | none => .uninit p
    | some flags =>
      if flags / 32768 % 2 = 0 then .ok .ignore p else
      if flags % 16 = 0 then
        -- uint16_t qd_count, an_count, ns_count, ar_count; parser >> … ;
        let q := fetchU16 d p none
        let a := fetchU16 d q.2.2 none
        let n := fetchU16 d a.2.2 none
        let r := fetchU16 d n.2.2 none
        let p := r.2.2
        match q.2.1 with
        | none => .uninit p
        | some qd =>
          (skipQuestions d (fuelFor d) qd p).bind fun _ p =>
          match a.2.1 with
          | none => .uninit p
          | some an =>
            (answers d (fuelFor d) an {} [] [] p).bind fun ac p =>
            .ok (.answer id ac.1 ac.2) p
      else .ok (.rcode id (flags % 16)) p

/-- `onUdpRecv` of the unpatched tree: `inl` = what goes wrong, `inr` = new state + callbacks -/
def onRecv (st : St) (d : List Byte) : String ⊕ (St × List Event) :=
  if st.reqs.isEmpty then .inr (st, [])
  else
    match parseReply d (fun id => (find st.reqs id).isSome) with
    | .ok rep _ => .inr (applyReply st rep)
    | .bad _ => .inr (st, [])
    | .uninit _ => .inl "uninitialised-read"
    | .diverge _ => .inl "unbounded-recursion"

/-! ### as found before patches/C15-03: the callback ran while its lookup was still in `requests_`

`if (req->cb) req->cb(result); deleteRequest(req_id);` — a `cancel` of the own id from inside the
callback found the entry and erased the map node holding the `std::function` that was executing:
outcome `none` = use of a destroyed callable (heap-use-after-free as soon as the callback touches
a capture). -/

def runScriptOld (self : Nat) : St → List Act → Option (St × List (Act × Nat))
  | st, [] => some (st, [])
  | st, a :: as =>
    let target : Option Nat := match a with
      | .cancel id => some id
      | .cancelSelf => some self
      | _ => none
    if target = some self ∧ (find st.reqs self).isSome then none      -- destroys the running callable
    else
      let r := doAct self st a
      (runScriptOld self r.1 as).map fun (st2, outs) => (st2, (a, r.2) :: outs)

def finishOld (st : St) (id : Nat) (r : Req) (res : Result) : Option (St × List Event) :=
  (runScriptOld id st r.script).map fun (st1, outs) =>
    ({ st1 with reqs := erase st1.reqs id, called := st1.called ++ [r.serial] },
     [⟨r.serial, res, outs, st.now - r.born⟩])

/-! ### as found before patches/C15-04: ids are handed out blindly, the ring stores bare ids

`ReqId req_id = ++req_id_alloc_; … requests_[req_id] = req; timeout_monitor_.add(req_id);` and
`onRequestTimeout(req_id)` looked the id up without knowing which request the entry was for. -/

def lookupOld (st : St) (sid : Nat) : St × Nat :=
  if st.servers = 0 then refuse st
  else
    let id := (st.alloc + 1) % 65536
    ({ st with alloc := id,
               reqs := (id, { serial := st.nextSerial, script := st.scripts.getD sid [], born := st.now })
                        :: erase st.reqs id,
               r0 := (id, st.nextSerial) :: st.r0,
               valueNumber := st.valueNumber + 1,
               nextSerial := st.nextSerial + 1 }, id)

def onTimeoutOld (acc : St × List Event) (t : Token) : St × List Event :=
  match find acc.1.reqs t.1 with
  | none => acc
  | some r =>
    let (st', e) := finish acc.1 t.1 r { status := .timeout }
    (st', acc.2 ++ e)

def tickOld (st : St) : St × List Event :=
  if st.valueNumber = 0 then (st, [])
  else
    let items := st.r1.reverse
    let st1 := { st with r0 := [], r1 := st.r2, r2 := st.r3, r3 := st.r4, r4 := st.r0,
                         valueNumber := st.valueNumber - items.length, now := st.now + 1 }
    items.foldl onTimeoutOld (st1, [])

end Tbox.C15.Orig
