/- C15 — helper lemmas for the pending-lookup state machine (callback at most once, never
after a cancel).  Core Lean only. -/
import TboxModel.C15.Spec
namespace Tbox.C15

/-- serials of outstanding lookups are distinct and below the next serial -/
def WF (st : St) : Prop :=
  (st.reqs.map (·.2.serial)).Nodup ∧ ∀ e ∈ st.reqs, e.2.serial < st.nextSerial

instance (st : St) : Decidable (WF st) := by unfold WF; exact inferInstance

/-- lookup `s` was issued and is no longer outstanding -/
def Dead (st : St) (s : Nat) : Prop :=
  s < st.nextSerial ∧ ∀ e ∈ st.reqs, e.2.serial ≠ s

/-- summary of a transition `st → st'` that ran the callbacks `evs` -/
def StepOK (st st' : St) (evs : List Event) : Prop :=
  WF st' ∧ (∀ s, Dead st s → Dead st' s ∧ ∀ e ∈ evs, e.serial ≠ s) ∧
  (evs.map (·.serial)).Nodup ∧ (∀ e ∈ evs, Dead st' e.serial ∧ ¬ Dead st e.serial)

theorem StepOK.refl {st : St} (h : WF st) : StepOK st st [] :=
  ⟨h, fun _ hs => ⟨hs, by simp⟩, by simp, by simp⟩

theorem StepOK.trans {st st1 st2 : St} {e1 e2 : List Event}
    (h1 : StepOK st st1 e1) (h2 : StepOK st1 st2 e2) : StepOK st st2 (e1 ++ e2) := by
  obtain ⟨_, d1, n1, k1⟩ := h1
  obtain ⟨w2, d2, n2, k2⟩ := h2
  refine ⟨w2, ?_, ?_, ?_⟩
  · intro s hs
    have a := d1 s hs
    have b := d2 s a.1
    refine ⟨b.1, ?_⟩
    intro e he
    rcases List.mem_append.mp he with he | he
    · exact a.2 e he
    · exact b.2 e he
  · rw [List.map_append, List.nodup_append]
    refine ⟨n1, n2, ?_⟩
    intro x hx y hy hxy
    obtain ⟨ex, hex, rfl⟩ := List.mem_map.mp hx
    obtain ⟨ey, hey, rfl⟩ := List.mem_map.mp hy
    exact (d2 _ (k1 ex hex).1).2 ey hey hxy.symm
  · intro e he
    rcases List.mem_append.mp he with he | he
    · exact ⟨(d2 _ (k1 e he).1).1, (k1 e he).2⟩
    · refine ⟨(k2 e he).1, ?_⟩
      intro hd
      exact (k2 e he).2 (d1 _ hd).1

theorem find_mem {reqs : List (Nat × Req)} {id : Nat} {r : Req} (h : find reqs id = some r) :
    (id, r) ∈ reqs := by
  unfold find at h
  cases hf : reqs.find? (fun e => e.1 == id) with
  | none => simp [hf] at h
  | some e =>
    simp [hf] at h
    have hm := List.mem_of_find?_eq_some hf
    have hp := List.find?_some hf
    simp at hp
    obtain ⟨a, b⟩ := e
    simp at hp h
    subst hp; subst h
    exact hm

theorem mem_erase {reqs : List (Nat × Req)} {id : Nat} {e : Nat × Req} (h : e ∈ erase reqs id) :
    e ∈ reqs ∧ e.1 ≠ id := by
  unfold erase at h
  simpa using List.mem_filter.mp h

theorem erase_serials_sublist (reqs : List (Nat × Req)) (id : Nat) :
    ((erase reqs id).map (·.2.serial)).Sublist (reqs.map (·.2.serial)) :=
  (List.filter_sublist (l := reqs)).map _

/-- two entries with the same serial in a list whose serials are distinct are the same entry -/
theorem serial_inj (l : List (Nat × Req)) (hnd : (l.map (·.2.serial)).Nodup) {e e' : Nat × Req}
    (h1 : e ∈ l) (h2 : e' ∈ l) (heq : e.2.serial = e'.2.serial) : e = e' := by
  induction l with
  | nil => cases h1
  | cons x l ih =>
    simp only [List.map_cons, List.nodup_cons] at hnd
    rcases List.mem_cons.mp h1 with a | a <;> rcases List.mem_cons.mp h2 with b | b
    · rw [a, b]
    · exfalso; apply hnd.1; rw [← a, heq]; exact List.mem_map.mpr ⟨_, b, rfl⟩
    · exfalso; apply hnd.1; rw [← b, ← heq]; exact List.mem_map.mpr ⟨_, a, rfl⟩
    · exact ih hnd.2 a b

theorem wf_erase {st st' : St} (id : Nat) (h : WF st) (hr : st'.reqs = erase st.reqs id)
    (hn : st'.nextSerial = st.nextSerial) : WF st' ∧ ∀ s, Dead st s → Dead st' s := by
  refine ⟨⟨?_, ?_⟩, ?_⟩
  · rw [hr]; exact h.1.sublist (erase_serials_sublist _ _)
  · intro e he; rw [hr] at he; rw [hn]; exact h.2 e (mem_erase he).1
  · intro s hs
    refine ⟨by rw [hn]; exact hs.1, ?_⟩
    intro e he; rw [hr] at he; exact hs.2 e (mem_erase he).1

theorem erase_dead {st st' : St} {id : Nat} {r : Req} (h : WF st) (hm : (id, r) ∈ st.reqs)
    (hr : st'.reqs = erase st.reqs id) (hn : st'.nextSerial = st.nextSerial) : Dead st' r.serial := by
  refine ⟨by rw [hn]; exact h.2 _ hm, ?_⟩
  intro e he heq
  rw [hr] at he
  obtain ⟨hmem, hne⟩ := mem_erase he
  have : e = (id, r) := serial_inj st.reqs h.1 hmem hm heq
  exact hne (by rw [this])

theorem wf_erase_wf {st st' : St} (id : Nat) (h : WF st) (hr : st'.reqs = erase st.reqs id)
    (hn : st'.nextSerial = st.nextSerial) : WF st' := (wf_erase id h hr hn).1

theorem wf_erase_dead {st st' : St} (id : Nat) (h : WF st) (hr : st'.reqs = erase st.reqs id)
    (hn : st'.nextSerial = st.nextSerial) {s : Nat} (hs : Dead st s) : Dead st' s := (wf_erase id h hr hn).2 s hs

/-- `st'` has the entries of `st` minus some, plus entries with fresh serials -/
def Ext (st st' : St) : Prop :=
  st.nextSerial ≤ st'.nextSerial ∧ ∀ e ∈ st'.reqs, e ∈ st.reqs ∨ st.nextSerial ≤ e.2.serial

theorem Ext.refl (st : St) : Ext st st := ⟨Nat.le_refl _, fun _ he => Or.inl he⟩

theorem Ext.trans {a b c : St} (h1 : Ext a b) (h2 : Ext b c) : Ext a c := by
  refine ⟨Nat.le_trans h1.1 h2.1, ?_⟩
  intro e he
  rcases h2.2 e he with h | h
  · exact h1.2 e h
  · exact Or.inr (Nat.le_trans h1.1 h)

theorem cancel_ok {st : St} (id : Nat) (h : WF st) :
    StepOK st (cancel st id).1 [] ∧ Ext st (cancel st id).1 := by
  unfold cancel
  cases hf : find st.reqs id with
  | none => exact ⟨StepOK.refl h, Ext.refl st⟩
  | some r =>
    dsimp only
    exact ⟨⟨wf_erase_wf id h rfl rfl, fun s hs => ⟨by apply wf_erase_dead id h ?_ ?_ hs <;> rfl, by simp⟩, by simp, by simp⟩,
           ⟨Nat.le_refl _, fun e he => Or.inl (mem_erase he).1⟩⟩

theorem refuse_ok {st : St} (h : WF st) : StepOK st (refuse st).1 [] ∧ Ext st (refuse st).1 :=
  ⟨⟨⟨h.1, fun e he => Nat.lt_succ_of_lt (h.2 e he)⟩,
    fun s hs => ⟨⟨Nat.lt_succ_of_lt hs.1, hs.2⟩, by simp⟩, by simp, by simp⟩,
   ⟨Nat.le_succ _, fun e he => Or.inl he⟩⟩

theorem lookup_ok {st : St} (sid : Nat) (h : WF st) :
    StepOK st (lookup st sid).1 [] ∧ Ext st (lookup st sid).1 := by
  unfold lookup
  split
  · exact refuse_ok h
  · split
    · exact refuse_ok h
    · refine ⟨⟨⟨?_, ?_⟩, fun s hs => ⟨⟨Nat.lt_succ_of_lt hs.1, ?_⟩, by simp⟩, by simp, by simp⟩, ⟨Nat.le_succ _, ?_⟩⟩
      · simp only [List.map_cons, List.nodup_cons]
        refine ⟨?_, h.1.sublist (erase_serials_sublist _ _)⟩
        intro hm
        obtain ⟨e, he, hs⟩ := List.mem_map.mp hm
        have := h.2 e (mem_erase he).1
        have hs' : e.2.serial = st.nextSerial := hs
        omega
      · intro e he
        rcases List.mem_cons.mp he with rfl | he
        · exact Nat.lt_succ_self _
        · exact Nat.lt_succ_of_lt (h.2 e (mem_erase he).1)
      · intro e he
        rcases List.mem_cons.mp he with rfl | he
        · simp only; have := hs.1; omega
        · exact hs.2 e (mem_erase he).1
      · intro e he
        rcases List.mem_cons.mp he with rfl | he
        · exact Or.inr (Nat.le_refl _)
        · exact Or.inl (mem_erase he).1

theorem doAct_ok (self : Nat) (a : Act) {st : St} (h : WF st) :
    StepOK st (doAct self st a).1 [] ∧ Ext st (doAct self st a).1 := by
  cases a with
  | lookup sid => exact lookup_ok sid h
  | cancel id => exact cancel_ok id h
  | cancelSelf => exact cancel_ok self h
  | servers n => exact ⟨⟨h, fun s hs => ⟨hs, by simp⟩, by simp, by simp⟩, Ext.refl st⟩
  | running id => exact ⟨StepOK.refl h, Ext.refl st⟩
  | runningSelf => exact ⟨StepOK.refl h, Ext.refl st⟩

/-- a callback script only issues and cancels lookups, changes the server list, asks
`isRunning`: it runs no callback -/
theorem runScript_ok (self : Nat) : ∀ (acts : List Act) (st : St), WF st →
    StepOK st (runScript self st acts).1 [] ∧ Ext st (runScript self st acts).1 := by
  intro acts
  induction acts with
  | nil => intro st h; exact ⟨StepOK.refl h, Ext.refl st⟩
  | cons a as ih =>
    intro st h
    have h1 := doAct_ok self a h
    have h2 := ih _ h1.1.1
    exact ⟨by simpa [runScript] using h1.1.trans h2.1, by simpa [runScript] using h1.2.trans h2.2⟩

/-- the lookup `(id, r)` is erased, then its callback runs (its script may issue and cancel
lookups): `r.serial` is dead from the erase on, dead serials stay dead -/
theorem finish_ok {st : St} {id : Nat} {r : Req} (res : Result) (h : WF st) (hf : find st.reqs id = some r) :
    StepOK st (finish st id r res).1 (finish st id r res).2 := by
  have hm := find_mem hf
  have hnd : ¬ Dead st r.serial := fun hd => hd.2 _ hm rfl
  generalize hst0 : ({ st with reqs := erase st.reqs id, called := st.called ++ [r.serial] } : St) = st0
  have hr : st0.reqs = erase st.reqs id := by rw [← hst0]
  have hn : st0.nextSerial = st.nextSerial := by rw [← hst0]
  have w0 : WF st0 := wf_erase_wf id h hr hn
  have d0 : Dead st0 r.serial := erase_dead h hm hr hn
  obtain ⟨hs, _⟩ := runScript_ok id r.script st0 w0
  have hfin : finish st id r res = ((runScript id st0 r.script).1,
      [⟨r.serial, res, (runScript id st0 r.script).2, st.now - r.born⟩]) := by
    rw [← hst0]; rfl
  rw [hfin]
  refine ⟨hs.1, ?_, by simp, ?_⟩
  · intro s hd
    refine ⟨(hs.2.1 s (wf_erase_dead id h hr hn hd)).1, ?_⟩
    intro e he
    simp only [List.mem_singleton] at he
    subst he
    intro heq
    have heq' : r.serial = s := heq
    exact hnd (heq' ▸ hd)
  · intro e he
    simp only [List.mem_singleton] at he
    subst he
    exact ⟨(hs.2.1 _ d0).1, hnd⟩

theorem bump_serials (reqs : List (Nat × Req)) (id : Nat) :
    (reqs.map fun e => if e.1 == id then (e.1, { e.2 with responseCount := e.2.responseCount + 1 }) else e).map
      (·.2.serial) = reqs.map (·.2.serial) := by
  rw [List.map_map]
  apply List.map_congr_left
  intro e _
  simp only [Function.comp]
  split <;> rfl

theorem applyReply_ok {st : St} (rep : Reply) (h : WF st) :
    StepOK st (applyReply st rep).1 (applyReply st rep).2 := by
  cases rep with
  | ignore => exact StepOK.refl h
  | answer id a c =>
    simp only [applyReply]
    cases hf : find st.reqs id with
    | none => exact StepOK.refl h
    | some r => exact finish_ok _ h hf
  | rcode id rc =>
    simp only [applyReply]
    cases hf : find st.reqs id with
    | none => exact StepOK.refl h
    | some r =>
      simp only
      split
      · exact finish_ok _ h hf
      · split
        · exact finish_ok _ h hf
        · split
          · -- only a response counter changes
            refine ⟨⟨?_, ?_⟩, fun s hs => ⟨⟨hs.1, ?_⟩, by simp⟩, by simp, by simp⟩
            · show (List.map _ (List.map _ st.reqs)).Nodup
              rw [bump_serials]; exact h.1
            · intro e he
              obtain ⟨e0, he0, rfl⟩ := List.mem_map.mp he
              have := h.2 e0 he0
              split <;> simpa using this
            · intro e he
              obtain ⟨e0, he0, rfl⟩ := List.mem_map.mp he
              have := hs.2 e0 he0
              split <;> simpa using this
          · exact finish_ok _ h hf

theorem onRecv_ok {st : St} (d : List Byte) (h : WF st) : StepOK st (onRecv st d).1 (onRecv st d).2 := by
  unfold onRecv
  split
  · exact StepOK.refl h
  · split
    · exact applyReply_ok _ h
    · exact StepOK.refl h

theorem onTimeout_ok {st0 : St} {acc : St × List Event} (t : Token) (h : StepOK st0 acc.1 acc.2) :
    StepOK st0 (onTimeout acc t).1 (onTimeout acc t).2 := by
  unfold onTimeout
  cases hf : find acc.1.reqs t.1 with
  | none => exact h
  | some r =>
    dsimp only
    split
    · exact h.trans (finish_ok _ h.1 hf)
    · exact h

theorem foldl_onTimeout_ok {st0 : St} (items : List Token) :
    ∀ (acc : St × List Event), StepOK st0 acc.1 acc.2 →
      StepOK st0 (items.foldl onTimeout acc).1 (items.foldl onTimeout acc).2 := by
  induction items with
  | nil => intro acc h; exact h
  | cons x l ih => intro acc h; exact ih _ (onTimeout_ok x h)

theorem tick_ok {st : St} (h : WF st) : StepOK st (tick st).1 (tick st).2 := by
  unfold tick
  split
  · exact StepOK.refl h
  · apply foldl_onTimeout_ok
    -- rotating the ring touches neither `reqs` nor `nextSerial`
    exact ⟨h, fun s hs => ⟨hs, by simp⟩, by simp, by simp⟩

theorem sockEvent_cases (st : St) (a : KAns) :
    sockEvent st a = (st, []) ∨ ∃ d, sockEvent st a = onRecv st d := by
  cases a with
  | err e => exact Or.inl rfl
  | data d =>
    by_cases h : d.isEmpty = true
    · left; simp [sockEvent, h]
    · right; exact ⟨d.take 4096, by simp [sockEvent, h]⟩

theorem sockEvent_ok {st : St} (a : KAns) (h : WF st) : StepOK st (sockEvent st a).1 (sockEvent st a).2 := by
  rcases sockEvent_cases st a with e | ⟨d, e⟩
  · rw [e]; exact StepOK.refl h
  · rw [e]; exact onRecv_ok _ h

theorem sockRun_ok : ∀ (as : List KAns) {st : St}, WF st → StepOK st (sockRun st as).1 (sockRun st as).2 := by
  intro as
  induction as with
  | nil => intro st h; exact StepOK.refl h
  | cons a as ih =>
    intro st h
    have h1 := sockEvent_ok a h
    exact h1.trans (ih h1.1)

theorem step_ok {st : St} (op : Op) (h : WF st) : StepOK st (step st op).1 (step st op).2.events := by
  cases op with
  | servers n => exact ⟨h, fun s hs => ⟨hs, by simp [step]⟩, by simp [step], by simp [step]⟩
  | defScript acts => exact ⟨h, fun s hs => ⟨hs, by simp [step]⟩, by simp [step], by simp [step]⟩
  | lookup sid => exact (lookup_ok sid h).1
  | cancel id => exact (cancel_ok id h).1
  | running id => exact StepOK.refl h
  | recv d => exact onRecv_ok d h
  | net d => exact onRecv_ok (d.take 4096) h
  | tick => exact tick_ok h
  | lookupN name sid send => exact (lookup_ok sid h).1
  | sock as => exact sockRun_ok as h
  | recvAt k d => exact onRecv_ok d h

/-- all callbacks of a run, in order -/
def allEvents (outs : List Out) : List Event := outs.flatMap (·.events)

theorem run_ok : ∀ (ops : List Op) (st : St), WF st →
    StepOK st (run st ops).1 (allEvents (run st ops).2) := by
  intro ops
  induction ops with
  | nil => intro st h; exact StepOK.refl h
  | cons op ops ih =>
    intro st h
    have h1 := step_ok op h
    have h2 := ih (step st op).1 h1.1
    simpa [run, allEvents] using h1.trans h2

theorem run_append (st : St) (ops1 ops2 : List Op) :
    run st (ops1 ++ ops2) =
      ((run (run st ops1).1 ops2).1, (run st ops1).2 ++ (run (run st ops1).1 ops2).2) := by
  induction ops1 generalizing st with
  | nil => simp [run]
  | cons op ops ih => simp [run, ih]

theorem init_wf : WF init := by simp [WF, init]

end Tbox.C15
