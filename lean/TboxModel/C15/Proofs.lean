/- C15 — helper lemmas for the parser: a small Hoare logic over `Res`, termination of
`fetchDomain`, safety (no unset local read, all accesses in bounds).  Core Lean only. -/
import TboxModel.C15.Spec
namespace Tbox.C15

/-- parser state consistent with datagram `d`: position inside, every logged access inside -/
def Good (d : List Byte) (p : P) : Prop :=
  p.pos ≤ d.length ∧ ∀ a ∈ p.acc, a.off + a.len ≤ d.length

/-- the outcome read no unset local, its state is `Good`, on success `Q` holds, and running out of
fuel is only possible if `dv` -/
def Res.Safe {α : Type} (dv : Prop) (d : List Byte) (r : Res α) (Q : α → P → Prop) : Prop :=
  match r with
  | .ok a p => Good d p ∧ Q a p
  | .bad p => Good d p
  | .uninit _ => False
  | .diverge p => Good d p ∧ dv

def Res.isDiverge {α : Type} : Res α → Bool
  | .diverge _ => true
  | _ => false

def Res.isUninit {α : Type} : Res α → Bool
  | .uninit _ => true
  | _ => false

theorem Res.Safe.good {α : Type} {dv : Prop} {d : List Byte} {r : Res α} {Q : α → P → Prop}
    (h : r.Safe dv d Q) : Good d r.st ∧ r.isUninit = false := by
  cases r <;> simp_all [Res.Safe, Res.st, Res.isUninit]

theorem Res.Safe.bind {α β : Type} {dv : Prop} {d : List Byte} {r : Res α} {Q : α → P → Prop}
    {f : α → P → Res β} {R : β → P → Prop}
    (h : r.Safe dv d Q) (hf : ∀ a p, Good d p → Q a p → (f a p).Safe dv d R) :
    (r.bind f).Safe dv d R := by
  cases r with
  | ok a p => exact hf a p h.1 h.2
  | bad p => exact h
  | uninit p => exact h
  | diverge p => exact h

theorem Res.Safe.mono {α : Type} {dv : Prop} {d : List Byte} {r : Res α} {Q Q' : α → P → Prop}
    (h : r.Safe dv d Q) (hq : ∀ a p, Q a p → Q' a p) : r.Safe dv d Q' := by
  cases r <;> simp_all [Res.Safe]

/-- a checked fetch: either it succeeds, reading exactly `[pos, pos+n)` inside the datagram, or
the code gives up; whatever the destination held before — it is never read unset -/
theorem chk_fetchN_cases {α : Type} (d : List Byte) (n : Nat) (conv : List Byte → α) (p : P) (out : Loc α) :
    (p.pos + n ≤ d.length ∧
      chk (fetchN d n conv p out) =
        .ok (conv (slice d p.pos n)) { p with pos := p.pos + n, acc := ⟨p.pos, n⟩ :: p.acc }) ∨
    (¬ p.pos + n ≤ d.length ∧ chk (fetchN d n conv p out) = .bad p) := by
  unfold fetchN chk
  by_cases h : p.pos + n ≤ d.length
  · left; simp [h]
  · right; simp [h]

theorem good_fetch {d : List Byte} {p : P} {n : Nat} (hp : Good d p) (h : p.pos + n ≤ d.length) :
    Good d { p with pos := p.pos + n, acc := ⟨p.pos, n⟩ :: p.acc } := by
  refine ⟨h, ?_⟩
  intro a ha
  simp only [List.mem_cons] at ha
  rcases ha with rfl | ha
  · exact h
  · exact hp.2 a ha

/-- postcondition of a successful checked fetch -/
def FetchPost {α : Type} (d : List Byte) (n : Nat) (conv : List Byte → α) (p : P) (a : α) (p' : P) : Prop :=
  p'.pos = p.pos + n ∧ p.pos + n ≤ d.length ∧ a = conv (slice d p.pos n) ∧ p'.jumps = p.jumps

theorem safe_chk_fetchN {α : Type} {dv : Prop} (d : List Byte) (n : Nat) (conv : List Byte → α) (p : P) (out : Loc α)
    (hp : Good d p) : (chk (fetchN d n conv p out)).Safe dv d (FetchPost d n conv p) := by
  rcases chk_fetchN_cases d n conv p out with ⟨h, e⟩ | ⟨_, e⟩
  · rw [e]; exact ⟨good_fetch hp h, rfl, h, rfl, rfl⟩
  · rw [e]; exact hp

theorem chk_fetchN_ok {α : Type} {d : List Byte} {n : Nat} {conv : List Byte → α} {p : P} {out : Loc α}
    {a : α} {p' : P} (h : chk (fetchN d n conv p out) = .ok a p') :
    p.pos + n ≤ d.length ∧ p'.pos = p.pos + n ∧ a = conv (slice d p.pos n) ∧ p'.jumps = p.jumps := by
  rcases chk_fetchN_cases d n conv p out with ⟨hb, e⟩ | ⟨_, e⟩
  · rw [e] at h; injection h with h1 h2; subst h1; subst h2; exact ⟨hb, rfl, rfl, rfl⟩
  · rw [e] at h; cases h

theorem chk_not_diverge {α : Type} (r : Bool × Loc α × P) : (chk r).isDiverge = false := by
  obtain ⟨b, l, p⟩ := r
  cases b <;> cases l <;> rfl

theorem setPos_cases (d : List Byte) (p : P) (off : Nat) :
    (off < d.length ∧ setPos d p off = (true, { p with pos := off })) ∨
    (¬ off < d.length ∧ setPos d p off = (false, p)) := by
  unfold setPos
  by_cases h : off < d.length
  · left; simp [h]
  · right; simp [h]

theorem skip_cases (d : List Byte) (p : P) (n : Nat) :
    (p.pos + n ≤ d.length ∧ skip d p n = (true, { p with pos := p.pos + n })) ∨
    (¬ p.pos + n ≤ d.length ∧ skip d p n = (false, p)) := by
  unfold skip
  by_cases h : p.pos + n ≤ d.length
  · left; simp [h]
  · right; simp [h]

/-! ### termination of `fetchDomain` -/

theorem bind_not_diverge {α β : Type} (r : Res α) (f : α → P → Res β)
    (h1 : r.isDiverge = false) (h2 : ∀ a p, r = .ok a p → (f a p).isDiverge = false) :
    (r.bind f).isDiverge = false := by
  cases r with
  | ok a p => exact h2 a p rfl
  | bad p => rfl
  | uninit p => rfl
  | diverge p => simp [Res.isDiverge] at h1

/-- fuel `(maxHops + 1 - hops) * (|d| + 2) - pos` is enough -/
theorem fetchDomain_terminates (d : List Byte) :
    ∀ (fuel hops : Nat) (first : Bool) (oss : List Byte) (p : P),
      p.pos ≤ d.length → hops ≤ maxHops → (maxHops + 1 - hops) * (d.length + 2) ≤ fuel + p.pos →
      (fetchDomain d fuel hops first oss p).isDiverge = false := by
  intro fuel
  induction fuel with
  | zero =>
    intro hops first oss p hp hh hf
    exfalso
    have h1 : maxHops + 1 - hops = (maxHops - hops) + 1 := by omega
    rw [h1, Nat.succ_mul] at hf
    omega
  | succ fuel ih =>
    intro hops first oss p hp hh hf
    have h1 : maxHops + 1 - hops = (maxHops - hops) + 1 := by omega
    rw [h1, Nat.succ_mul] at hf
    unfold fetchDomain fetchU8
    apply bind_not_diverge _ _ (chk_not_diverge _)
    intro len p1 e1
    obtain ⟨hb1, hp1, _, _⟩ := chk_fetchN_ok e1
    split
    · rfl
    · dsimp only
      split
      · -- compression pointer
        apply bind_not_diverge _ _ (chk_not_diverge _)
        intro lo p2 e2
        obtain ⟨hb2, hp2, _, _⟩ := chk_fetchN_ok e2
        split
        · rfl
        · rename_i hlim
          rcases setPos_cases d p2 (len % 64 * 256 + lo) with ⟨hoff, e⟩ | ⟨_, e⟩
          · simp only [e]
            apply bind_not_diverge
            · apply ih
              · exact Nat.le_of_lt hoff
              · omega
              · have h2 : maxHops + 1 - (hops + 1) = maxHops - hops := by omega
                rw [h2]
                show _ ≤ fuel + (len % 64 * 256 + lo)
                omega
            · intros; rfl
          · simp only [e]; rfl
      · -- plain label
        unfold fetchRaw
        apply bind_not_diverge _ _ (chk_not_diverge _)
        intro str p2 e2
        obtain ⟨hb2, hp2, _, _⟩ := chk_fetchN_ok e2
        apply ih
        · omega
        · exact hh
        · rw [h1, Nat.succ_mul]; omega

/-! ### safety of the whole parser -/

/-! ### what a successful parse reports is encoded in the datagram -/

theorem sep_eq (first : Bool) (oss : List Byte) : sep first oss = oss ++ (if first then [] else [46]) := by
  cases first <;> simp [sep]

/-- `fetchDomain` is sound for `Decodes`, never reads an unset local, stays in bounds, and on
success has consumed at least one byte -/
theorem safe_fetchDomain_decodes (d : List Byte) :
    ∀ (fuel hops : Nat) (first : Bool) (oss : List Byte) (p : P), Good d p →
      (fetchDomain d fuel hops first oss p).Safe True d
        (fun name p' => p.pos + 1 ≤ p'.pos ∧ ∃ suf, name = oss ++ suf ∧ Decodes d hops p.pos first suf) := by
  intro fuel
  induction fuel with
  | zero => intro hops first oss p hp; exact ⟨hp, trivial⟩
  | succ fuel ih =>
    intro hops first oss p hp
    unfold fetchDomain fetchU8
    refine (safe_chk_fetchN d 1 beNat p (some 0) hp).bind ?_
    intro len p1 hp1 hq1
    obtain ⟨hpos1, hb1, hlen, _⟩ := hq1
    split
    · rename_i h0
      refine ⟨hp1, by omega, [], by simp, ?_⟩
      exact Decodes.root hb1 (by rw [← hlen]; exact h0)
    · rename_i h0
      dsimp only
      split
      · rename_i hptr
        refine (safe_chk_fetchN d 1 beNat p1 (some 0) hp1).bind ?_
        intro lo p2 hp2 hq2
        obtain ⟨hpos2, hb2, hlo, _⟩ := hq2
        split
        · exact hp2
        · rename_i hlim
          rcases setPos_cases d p2 (len % 64 * 256 + lo) with ⟨hoff, e⟩ | ⟨_, e⟩
          · simp only [e]
            have hs : Good d { pos := len % 64 * 256 + lo, acc := p2.acc, jumps := p2.jumps + 1 } :=
              ⟨Nat.le_of_lt hoff, hp2.2⟩
            refine (ih (hops + 1) true [] _ hs).bind ?_
            intro name sub' hsub hq
            obtain ⟨_, suf, hname, hdec⟩ := hq
            refine ⟨⟨hp2.1, hsub.2⟩, by show p.pos + 1 ≤ p2.pos; omega, (if first then [] else [46]) ++ suf, ?_, ?_⟩
            · rw [hname, sep_eq]; simp
            · have hl1 : p1.pos = p.pos + 1 := hpos1
              rw [hlen, hlo, hl1] at hdec hoff
              rw [hlen] at hptr
              exact Decodes.pointer (by omega) hptr (by omega) hoff hdec
          · simp only [e]; exact hp2
      · rename_i hptr
        unfold fetchRaw
        refine (safe_chk_fetchN d len (fun bs => bs) p1 none hp1).bind ?_
        intro str p2 hp2 hq2
        obtain ⟨hpos2, hb2, hstr, _⟩ := hq2
        refine (ih hops false _ p2 hp2).mono ?_
        intro name p' hq
        obtain ⟨hge, suf, hname, hdec⟩ := hq
        refine ⟨by omega, (if first then [] else [46]) ++ (cstr str ++ suf), ?_, ?_⟩
        · rw [hname, sep_eq]; simp
        · have hl1 : p1.pos = p.pos + 1 := hpos1
          rw [hpos2, hl1, hlen] at hdec
          rw [hstr, hl1, hlen]
          rw [hl1, hlen] at hb2
          rw [hlen] at h0 hptr
          exact Decodes.label hb1 h0 hptr (by omega) hdec

/-- what the loops need to know about `fetchDomain` at their fuel -/
def NameOK (dv : Prop) (d : List Byte) (fuel : Nat) : Prop :=
  ∀ (first : Bool) (oss : List Byte) (p : P), Good d p →
    (fetchDomain d fuel 0 first oss p).Safe dv d
      (fun name p' => p.pos + 1 ≤ p'.pos ∧ ∃ suf, name = oss ++ suf ∧ Decodes d 0 p.pos first suf)

theorem Res.Safe.strengthen {α : Type} {d : List Byte} {r : Res α} {Q : α → P → Prop}
    (h : r.Safe True d Q) (hd : r.isDiverge = false) : r.Safe False d Q := by
  cases r <;> simp_all [Res.Safe, Res.isDiverge]

/-- with `fuelFor d` fuel a name is decoded or rejected: no unset read, no divergence -/
theorem nameOK_fuelFor (d : List Byte) : NameOK False d (fuelFor d) := by
  intro first oss p hp
  refine (safe_fetchDomain_decodes d _ 0 first oss p hp).strengthen ?_
  apply fetchDomain_terminates d _ 0 first oss p hp.1 (Nat.zero_le _)
  show (maxHops + 1 - 0) * (d.length + 2) ≤ (maxHops + 1) * (d.length + 2) + p.pos
  rw [Nat.sub_zero]
  exact Nat.le_add_right _ _

theorem nameOK_any (d : List Byte) (fuel : Nat) : NameOK True d fuel :=
  fun first oss p hp => safe_fetchDomain_decodes d fuel 0 first oss p hp

theorem safe_skipQuestions' {dv : Prop} (d : List Byte) (fuel : Nat) (hfd : NameOK dv d fuel) :
    ∀ (n : Nat) (p : P), Good d p → (skipQuestions d fuel n p).Safe dv d (fun _ p' => p.pos ≤ p'.pos) := by
  intro n
  induction n with
  | zero => intro p hp; exact ⟨hp, Nat.le_refl _⟩
  | succ n ih =>
    intro p hp
    unfold skipQuestions fetchU16
    refine (hfd true [] p hp).bind ?_
    intro _ p1 hp1 h1
    refine (safe_chk_fetchN d 2 beNat p1 (some 0) hp1).bind ?_
    intro _ p2 hp2 h2
    refine (safe_chk_fetchN d 2 beNat p2 (some 0) hp2).bind ?_
    intro _ p3 hp3 h3
    refine (ih p3 hp3).mono ?_
    intro _ p' h
    have := h1.1; have := h2.1; have := h3.1
    omega

/-- postcondition of the answer loop -/
def AnswersPost (d : List Byte) (n : Nat) (a0 : List ARec) (c0 : List CRec) (p : P)
    (ac : List ARec × List CRec) (p' : P) : Prop :=
  (∀ r ∈ ac.1, r ∈ a0 ∨ AddrEncoded d r) ∧ (∀ r ∈ ac.2, r ∈ c0 ∨ NameEncoded d r) ∧
  ac.1.length + ac.2.length ≤ a0.length + c0.length + n ∧ p.pos + 11 * n ≤ p'.pos

theorem safe_answers {dv : Prop} (d : List Byte) (fuel : Nat) (hfd : NameOK dv d fuel) :
    ∀ (n : Nat) (a : List ARec) (c : List CRec) (p : P), Good d p →
      (answers d fuel n a c p).Safe dv d (AnswersPost d n a c p) := by
  intro n
  induction n with
  | zero =>
    intro a c p hp
    exact ⟨hp, fun r hr => Or.inl hr, fun r hr => Or.inl hr, by simp, by simp⟩
  | succ n ih =>
    intro a c p hp
    unfold answers fetchU16 fetchU32 fetchU32le
    refine (hfd true [] p hp).bind ?_
    intro _ p1 hp1 h1
    refine (safe_chk_fetchN d 2 beNat p1 (some 0) hp1).bind ?_
    intro ty p2 hp2 h2
    refine (safe_chk_fetchN d 2 beNat p2 (some 0) hp2).bind ?_
    intro _ p3 hp3 h3
    refine (safe_chk_fetchN d 4 beNat p3 (some 0) hp3).bind ?_
    intro ttl p4 hp4 h4
    refine (safe_chk_fetchN d 2 beNat p4 (some 0) hp4).bind ?_
    intro ln p5 hp5 h5
    have e1 := h1.1; have e2 := h2.1; have e3 := h3.1; have e4 := h4.1; have e5 := h5.1
    split
    · -- A record
      rename_i hty
      refine (safe_chk_fetchN d 4 (fun bs => bs) p5 (some [0, 0, 0, 0]) hp5).bind ?_
      intro ip p6 hp6 h6
      refine (ih _ c p6 hp6).mono ?_
      intro ac p' hq
      obtain ⟨ha, hc, hlen, hpos⟩ := hq
      have e6 := h6.1
      refine ⟨?_, hc, ?_, by omega⟩
      · intro r hr
        rcases ha r hr with hm | henc
        · rcases List.mem_append.mp hm with hm | hm
          · exact Or.inl hm
          · right
            simp only [List.mem_singleton] at hm
            subst hm
            refine ⟨by show 10 ≤ p5.pos; omega, h6.2.1, h6.2.2.1, ?_, ?_⟩
            · show beNat (slice d (p5.pos - 10) 2) = 1
              have : p5.pos - 10 = p1.pos := by omega
              rw [this, ← h2.2.2.1]; exact hty
            · show ttl = beNat (slice d (p5.pos - 6) 4)
              have : p5.pos - 6 = p3.pos := by omega
              rw [this]; exact h4.2.2.1
        · exact Or.inr henc
      · simp only [List.length_append, List.length_singleton] at hlen; omega
    · split
      · -- CNAME record
        refine (hfd true [] p5 hp5).bind ?_
        intro name p6 hp6 h6
        refine (ih a _ p6 hp6).mono ?_
        intro ac p' hq
        obtain ⟨ha, hc, hlen, hpos⟩ := hq
        have e6 := h6.1
        refine ⟨ha, ?_, ?_, by omega⟩
        · intro r hr
          rcases hc r hr with hm | henc
          · rcases List.mem_append.mp hm with hm | hm
            · exact Or.inl hm
            · right
              simp only [List.mem_singleton] at hm
              subst hm
              obtain ⟨_, suf, hname, hdec⟩ := h6
              exact ⟨p5.pos, by simpa [hname] using hdec⟩
          · exact Or.inr henc
        · simp only [List.length_append, List.length_singleton] at hlen; omega
      · -- other record: skipped
        rcases skip_cases d p5 ln with ⟨hok, e⟩ | ⟨_, e⟩
        · simp only [e]
          have hg : Good d { p5 with pos := p5.pos + ln } := ⟨hok, hp5.2⟩
          refine (ih a c _ hg).mono ?_
          intro ac p' hq
          obtain ⟨ha, hc, hlen, hpos⟩ := hq
          refine ⟨ha, hc, by omega, ?_⟩
          have : p5.pos + ln + 11 * n ≤ p'.pos := hpos
          omega
        · simp only [e]; exact hp5

/-- postcondition of `parseReply` -/
def ReplyPost (d : List Byte) : Reply → Prop
  | .answer _ a c =>
      (∀ r ∈ a, AddrEncoded d r) ∧ (∀ r ∈ c, NameEncoded d r) ∧
      a.length + c.length ≤ beNat (slice d 6 2) ∧ 12 + 11 * beNat (slice d 6 2) ≤ d.length
  | _ => True

theorem safe_parseReply (d : List Byte) (known : Nat → Bool) :
    (parseReply d known).Safe False d (fun rep _ => ReplyPost d rep) := by
  unfold parseReply fetchU16
  have g0 : Good d ({} : P) := ⟨Nat.zero_le _, by simp⟩
  refine (safe_chk_fetchN d 2 beNat {} (some 0) g0).bind ?_
  intro id p1 hp1 h1
  refine (safe_chk_fetchN d 2 beNat p1 (some 0) hp1).bind ?_
  intro flags p2 hp2 h2
  split
  · exact ⟨hp2, trivial⟩
  · split
    · exact ⟨hp2, trivial⟩
    · split
      · refine (safe_chk_fetchN d 2 beNat p2 (some 0) hp2).bind ?_
        intro qd p3 hp3 h3
        refine (safe_chk_fetchN d 2 beNat p3 (some 0) hp3).bind ?_
        intro an p4 hp4 h4
        refine (safe_chk_fetchN d 2 beNat p4 (some 0) hp4).bind ?_
        intro _ p5 hp5 h5
        refine (safe_chk_fetchN d 2 beNat p5 (some 0) hp5).bind ?_
        intro _ p6 hp6 h6
        refine (safe_skipQuestions' d _ (nameOK_fuelFor d) qd p6 hp6).bind ?_
        intro _ p7 hp7 h7
        refine (safe_answers d _ (nameOK_fuelFor d) an [] [] p7 hp7).bind ?_
        intro ac p8 hp8 h8
        refine ⟨hp8, ?_⟩
        obtain ⟨ha, hc, hlen, hpos⟩ := h8
        have e1 : p1.pos = 2 := h1.1
        have e2 := h2.1; have e3 := h3.1; have e4 := h4.1; have e5 := h5.1; have e6 := h6.1
        have han : an = beNat (slice d 6 2) := by
          have : p3.pos = 6 := by omega
          rw [← this]; exact h4.2.2.1
        refine ⟨?_, ?_, ?_, ?_⟩
        · intro r hr; rcases ha r hr with h | h
          · simp at h
          · exact h
        · intro r hr; rcases hc r hr with h | h
          · simp at h
          · exact h
        · rw [← han]; simpa using hlen
        · rw [← han]; have := hp8.1; omega
      · exact ⟨hp2, trivial⟩

end Tbox.C15
