/-
C15 — PROPERTY THEOREMS (helper lemmas: Proofs.lean = parser, Pending.lean = lookups).

Property: "Processing any datagram as a DNS reply terminates, performs no out-of-bounds or
uninitialised read, does not recurse without bound on compressed names, and reports only
addresses and names that are actually encoded in that datagram.  Every lookup's callback is
invoked exactly once — with the first acceptable reply, an error status, or a timeout — unless
the lookup was cancelled, in which case it is never invoked; datagrams that match no
outstanding lookup are ignored."

`Model.lean` follows the tree with patches/C15-01 and C15-02 applied; the statements about the
unpatched parser (`Orig.lean`) are the `…_orig_…counterexample` theorems at the end.
-/
import TboxModel.C15.Proofs
import TboxModel.C15.Pending
import TboxModel.C15.Account
import TboxModel.C15.Orig
namespace Tbox.C15

/-! ### termination -/

/-- **C15_terminates.** Decoding a name anywhere in any datagram with `fuelFor d =
(maxHops+1)·(|d|+2)` units of fuel never runs out of fuel: the loop/recursion of `FetchDomain`
is bounded by the hop limit times the datagram length. -/
theorem C15_terminates (d : List Byte) (first : Bool) (oss : List Byte) (p : P) (hp : p.pos ≤ d.length) :
    (fetchDomain d (fuelFor d) 0 first oss p).isDiverge = false := by
  apply fetchDomain_terminates d _ 0 first oss p hp (Nat.zero_le _)
  show (maxHops + 1 - 0) * (d.length + 2) ≤ (maxHops + 1) * (d.length + 2) + p.pos
  rw [Nat.sub_zero]; exact Nat.le_add_right _ _

/-- the general bound: from hop count `hops` and position `pos`,
`(maxHops+1−hops)·(|d|+2) − pos` units suffice -/
theorem C15_terminates_bound (d : List Byte) (fuel hops : Nat) (first : Bool) (oss : List Byte) (p : P)
    (hp : p.pos ≤ d.length) (hh : hops ≤ maxHops)
    (hf : (maxHops + 1 - hops) * (d.length + 2) ≤ fuel + p.pos) :
    (fetchDomain d fuel hops first oss p).isDiverge = false :=
  fetchDomain_terminates d fuel hops first oss p hp hh hf

/-- processing a whole datagram (header, `qd_count` questions, `an_count` answers — the counts
are 16-bit fields of the datagram, the loops are structural on them) never runs out of fuel -/
theorem C15_terminates_reply (d : List Byte) (known : Nat → Bool) :
    (parseReply d known).isDiverge = false := by
  have h := safe_parseReply d known
  cases hr : parseReply d known <;> simp_all [Res.Safe, Res.isDiverge]

/-! ### no uninitialised read, no out-of-bounds read -/

/-- **C15_no_uninit_no_oob.** For every datagram and every set of outstanding ids: the parser
never reads a local that no fetch has written, and every byte range it dereferences lies inside
the datagram. -/
theorem C15_no_uninit_no_oob (d : List Byte) (known : Nat → Bool) :
    (parseReply d known).isUninit = false ∧
    ∀ a ∈ (parseReply d known).st.acc, a.off + a.len ≤ d.length := by
  have h := (safe_parseReply d known).good
  exact ⟨h.2, h.1.2⟩

/-! ### only what is encoded is reported -/

/-- **C15_only_encoded.** If a datagram is accepted as an answer then every reported address is
the four in-bounds rdata bytes of a completely present A record (type field 1, the reported
ttl), every reported name is `Decodes`-encoded at some offset of the datagram, and the number
of reported records is at most the datagram's `an_count`, all of whose records (≥ 11 bytes
each) were present: inflated counts never add records — they make the reply be dropped. -/
theorem C15_only_encoded (d : List Byte) (known : Nat → Bool) (id : Nat) (a : List ARec) (c : List CRec)
    (p : P) (h : parseReply d known = .ok (.answer id a c) p) :
    (∀ r ∈ a, AddrEncoded d r) ∧ (∀ r ∈ c, NameEncoded d r) ∧
    a.length + c.length ≤ beNat (slice d 6 2) ∧ 12 + 11 * beNat (slice d 6 2) ≤ d.length := by
  have hs := safe_parseReply d known
  rw [h] at hs
  exact hs.2

/-- the callbacks of `onUdpRecv` carry exactly what the parser accepted: a success result holds
only encoded addresses and names, every other status holds none -/
theorem C15_only_encoded_callbacks (st : St) (d : List Byte) :
    ∀ e ∈ (onRecv st d).2,
      (∀ r ∈ e.result.a, AddrEncoded d r) ∧ (∀ r ∈ e.result.c, NameEncoded d r) := by
  intro e he
  unfold onRecv at he
  split at he
  · simp at he
  · split at he
    · rename_i rep p hrep
      cases rep with
      | ignore => simp [applyReply] at he
      | answer id a c =>
        have := C15_only_encoded d _ id a c p hrep
        simp only [applyReply] at he
        split at he
        · simp at he
        · simp only [finish, List.mem_singleton] at he
          subst he
          exact ⟨this.1, this.2.1⟩
      | rcode id rc =>
        simp only [applyReply] at he
        split at he
        · simp at he
        · split at he
          · simp only [finish, List.mem_singleton] at he; subst he; simp
          · split at he
            · simp only [finish, List.mem_singleton] at he; subst he; simp
            · split at he
              · simp at he
              · simp only [finish, List.mem_singleton] at he; subst he; simp
    · simp at he

/-- **C15_unknown_ignored.** A datagram too short to carry id and flags, or whose id matches no
outstanding lookup, changes nothing and calls nobody. -/
theorem C15_unknown_ignored (st : St) (d : List Byte)
    (h : d.length < 4 ∨ find st.reqs (beNat (slice d 0 2)) = none) : onRecv st d = (st, []) := by
  unfold onRecv
  split
  · rfl
  · unfold parseReply fetchU16
    rcases chk_fetchN_cases d 2 beNat {} (some 0) with ⟨h1, e1⟩ | ⟨_, e1⟩
    · rw [e1]; simp only [Res.bind]
      rcases chk_fetchN_cases d 2 beNat { ({} : P) with pos := ({} : P).pos + 2, acc := ⟨({} : P).pos, 2⟩ :: ({} : P).acc }
          (some 0) with ⟨h2, e2⟩ | ⟨_, e2⟩
      · rw [e2]
        rcases h with h | h
        · exfalso; simp only [] at h2; omega
        · have : ({} : P).pos = 0 := rfl
          simp [h, applyReply]
      · rw [e2]
    · rw [e1]; rfl

/-! ### each lookup completes once -/

/-- **C15_callback_at_most_once.** For every operation sequence (lookups, cancels, replies in
any order, duplicated, from several servers, with foreign ids, ticks) no lookup's callback runs
twice: the serial numbers of all callback invocations of the run are pairwise distinct. -/
theorem C15_callback_at_most_once (ops : List Op) :
    ((allEvents (run init ops).2).map (·.serial)).Nodup :=
  (run_ok ops init init_wf).2.2.1

/-- **C15_cancelled_never_called.** If `cancel id` hits an outstanding lookup (serial
`r.serial`) then that lookup's callback runs neither before nor after — whatever happens later
(late replies with its id, ticks, new lookups). -/
theorem C15_cancelled_never_called (ops1 ops2 : List Op) (id : Nat) (r : Req)
    (h : find (run init ops1).1.reqs id = some r) :
    ∀ e ∈ allEvents (run init (ops1 ++ Op.cancel id :: ops2)).2, e.serial ≠ r.serial := by
  have h1 := run_ok ops1 init init_wf
  have hm := find_mem h
  obtain ⟨w2, d2, _, k2⟩ := erase_spec h1.1 hm
  have hc : (step (run init ops1).1 (.cancel id)).1 = { (run init ops1).1 with reqs := erase (run init ops1).1.reqs id } := by
    simp [step, cancel, h]
  have hce : (step (run init ops1).1 (.cancel id)).2.events = [] := by
    simp [step, cancel, h]
  have h2 := run_ok ops2 _ w2
  intro e he
  rw [run_append] at he
  simp only [run, allEvents, List.flatMap_append, List.flatMap_cons, hce, hc, List.nil_append,
    List.mem_append] at he
  rcases he with he | he
  · intro heq
    exact (h1.2.2.2 e he).1.2 _ hm heq.symm
  · exact (h2.2.1 _ d2).2 e he

/-
-- OPEN  C15_callback_once (full strength): for every operation sequence from `init`, every
-- lookup that was not refused and not cancelled has had its callback run exactly once by the
-- time five ticks have passed since it was issued:
--   ∀ ops s, s < st.nextSerial →
--     s ∈ h.called ∨ s ∈ h.cancelled ∨ s ∈ h.refused ∨
--     ∃ e ∈ st.reqs, e.2.serial = s ∧ st.now - e.2.born < 5        where (st, h) = runH init {} ops
-- FALSE as stated: `requests_[req_id] = req` overwrites an outstanding lookup when the 16-bit id
-- wraps onto it (`C15_callback_once_counterexample`).  Proved: at most once and never after a
-- cancel — unconditionally; no lookup is ever lost (`C15_callback_once_partial`) under the
-- decidable hypothesis `freshRun`.  NOT proved (time): the bound `st.now - e.2.born < 5` on how
-- long a lookup can stay outstanding (ring invariant: an entry of age a sits in slot r0,r4,r3,r2,r1
-- for a = 0..4 and `valueNumber` = ring population); that part is tied to the code only by the
-- differential runs (every generated case drains the ring with 5–6 ticks and compares callbacks
-- and `isRunning`).
-/

theorem histStep_called (st : St) (h : Hist) (op : Op) :
    (histStep st h op).called = h.called ++ (step st op).2.events.map (·.serial) := by
  cases op <;> simp only [histStep] <;> repeat' (first | rfl | split)

theorem runH_run : ∀ (ops : List Op) (st : St) (h : Hist),
    (runH st h ops).1 = (run st ops).1 ∧
    (runH st h ops).2.called = h.called ++ (allEvents (run st ops).2).map (·.serial) := by
  intro ops
  induction ops with
  | nil => intro st h; simp [runH, run, allEvents]
  | cons op ops ih =>
    intro st h
    have := ih (step st op).1 (histStep st h op)
    simp only [runH, run, allEvents, List.flatMap_cons, List.map_append]
    rw [this.1, this.2, histStep_called, List.append_assoc]
    exact ⟨rfl, rfl⟩

/-- **C15_callback_once_partial.** For every operation sequence in which no lookup is handed a
16-bit id that is still outstanding (`freshRun`, decidable), no lookup is ever lost: at every
point each lookup issued so far is still outstanding, or its callback has run, or it was
cancelled while outstanding, or it was refused (no server configured).  `h.called` is exactly
the list of callback invocations of the run (`runH_run`), which `C15_callback_at_most_once`
shows to be duplicate-free, and `C15_cancelled_never_called` keeps disjoint from the cancelled
ones: so a lookup that has left `requests_` without being cancelled or refused was called back
exactly once. -/
theorem C15_callback_once_partial (ops : List Op) (hf : freshRun init ops = true) :
    ∀ s, s < (runH init {} ops).1.nextSerial →
      s ∈ (runH init {} ops).2.called ∨ s ∈ (runH init {} ops).2.cancelled ∨
      s ∈ (runH init {} ops).2.refused ∨ ∃ e ∈ (runH init {} ops).1.reqs, e.2.serial = s :=
  runH_acc ops init {} (by simp [KU, init]) (by intro s hs; simp [init] at hs) hf

/-- **C15_callback_once_counterexample.** A well-formed state in which `lookup` is handed the id
of an outstanding lookup (reachable from `init` only by wrapping the 16-bit id counter, i.e.
65 536 lookups with the first still outstanding): the older lookup (serial 0) disappears
without its callback having run and without having been cancelled. -/
theorem C15_callback_once_counterexample :
    ∃ st : St, WF st ∧ (∃ e ∈ st.reqs, e.2.serial = 0) ∧ freshRun st [.lookup] = false ∧
      (∀ e ∈ (step st .lookup).1.reqs, e.2.serial ≠ 0) ∧ (step st .lookup).2.events = [] := by
  refine ⟨{ alloc := 0, reqs := [(1, { serial := 0 })], r0 := [1], valueNumber := 1, nextSerial := 1 }, ?_⟩
  decide

/-! ### the unpatched parser violates the first three statements -/

def selfPointer : List Byte := [0xC0, 0x00]

theorem orig_selfPointer_diverges : ∀ (fuel : Nat) (acc : List Access) (jumps : Nat),
    (Orig.fetchDomain selfPointer fuel true [] { pos := 0, acc := acc, jumps := jumps }).isDiverge = true := by
  intro fuel
  induction fuel with
  | zero => intros; rfl
  | succ n ih =>
    intro acc jumps
    unfold Orig.fetchDomain
    have := ih (⟨1, 1⟩ :: ⟨0, 1⟩ :: acc) (jumps + 1)
    revert this
    simp [selfPointer, fetchU8, fetchN, unchk, Res.bind, slice, beNat, setPos, sep]
    cases Orig.fetchDomain [192, 0] n true [] { pos := 0, acc := ⟨1, 1⟩ :: ⟨0, 1⟩ :: acc, jumps := jumps + 1 } <;>
      simp [Res.isDiverge]

/-- **C15_terminates is false of the unpatched `FetchDomain`**: on the two-byte name `C0 00` (a
compression pointer to itself) no amount of fuel suffices — the C++ recurses until the stack
overflows (replayed: `CRASH asan:stack-overflow`). -/
theorem C15_orig_terminates_counterexample (fuel : Nat) :
    (Orig.fetchDomain selfPointer fuel true [] {}).isDiverge = true :=
  orig_selfPointer_diverges fuel [] 0

/-- one outstanding lookup (id 1) -/
def oneLookup : St := (step init .lookup).1

/-- **C15_no_uninit_no_oob is false of the unpatched `onUdpRecv`**: a one-byte datagram makes it
read `req_id`, which no fetch has written. -/
theorem C15_orig_uninit_counterexample_short :
    Orig.onRecv oneLookup [0x00] = .inl "uninitialised-read" := by decide

/-- … and a label whose length byte promises more bytes than the datagram has streams the
never-written `char str[len+1]` into the name. -/
theorem C15_orig_uninit_counterexample_label :
    (Orig.fetchDomain [5, 97] 10 true [] {}).isUninit = true := by decide

/-- header (id 1, response, qd 0, an 5) followed by ONE A record `00 0001 0001 0000003c 0004 5db8d822` -/
def inflated : List Byte :=
  [0, 1, 0x81, 0x80, 0, 0, 0, 5, 0, 0, 0, 0,
   0, 0, 1, 0, 1, 0, 0, 0, 60, 0, 4, 93, 184, 216, 34]

def Reply.ips : Reply → List (List Byte)
  | .answer _ a _ => a.map (·.ip)
  | _ => []

/-- **C15_only_encoded is false of the unpatched `onUdpRecv`**: one A record with `an_count = 5`
is reported as five addresses (the failed fetches of iterations 2–5 leave the previous
record's values in the loop's locals). -/
theorem C15_orig_only_encoded_counterexample :
    (Orig.parseReply inflated (fun _ => true)).val?.map Reply.ips =
      some (List.replicate 5 [93, 184, 216, 34]) := by decide +kernel

/-- the repaired parser drops that datagram -/
example : (parseReply inflated (fun _ => true)).isBad = true := by decide +kernel

/-! ### non-vacuity -/

/-- a compressed CNAME + A reply is accepted and reports what it encodes -/
def sample : List Byte :=
  [0, 1, 0x81, 0x80, 0, 1, 0, 2, 0, 0, 0, 0,
   3, 119, 119, 119, 1, 97, 0, 0, 1, 0, 1,                                   -- www.a A IN
   0xC0, 12, 0, 5, 0, 1, 0, 0, 0, 9, 0, 4, 1, 98, 0xC0, 16,                  -- CNAME b.<a>
   0xC0, 35, 0, 1, 0, 1, 0, 0, 0, 60, 0, 4, 10, 0, 0, 7]                     -- A 10.0.0.7

example : (parseReply sample (fun _ => true)).val? =
    some (.answer 1 [⟨60, [10, 0, 0, 7], 51⟩] [⟨9, [98, 46, 97]⟩]) := by decide +kernel

/-- a run with a duplicate reply, a cancel and a timeout: callbacks 0 (success) and 2 (timeout)
run once each, the cancelled lookup 1 never -/
example :
    let ops := [Op.lookup, .lookup, .lookup, .recv sample, .recv sample, .cancel 2,
                .tick, .tick, .tick, .tick, .tick, .tick]
    (allEvents (run init ops).2).map (fun e => (e.serial, e.result.status)) =
      [(0, Status.success), (2, Status.timeout)] ∧
    find (run init [Op.lookup, .lookup]).1.reqs 2 = some { serial := 1 } ∧
    freshRun init ops = true := by decide +kernel

end Tbox.C15
