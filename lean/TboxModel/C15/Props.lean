/-
C15 — PROPERTY THEOREMS (helper lemmas: Proofs.lean = parser, Pending.lean = lookups).

Property: "Processing any datagram as a DNS reply terminates, performs no out-of-bounds or
uninitialised read, does not recurse without bound on compressed names, and reports only
addresses and names that are actually encoded in that datagram.  Every lookup's callback is
invoked exactly once — with the first acceptable reply, an error status, or a timeout — unless
the lookup was cancelled, in which case it is never invoked; datagrams that match no
outstanding lookup are ignored."

`Model.lean` follows the tree with patches/C15-01 … C15-04 applied; the statements about the
unpatched parser (`Orig.lean`) are the `…_orig_…counterexample` theorems at the end.
-/
import TboxModel.C15.Proofs
import TboxModel.C15.Pending
import TboxModel.C15.Account
import TboxModel.C15.Ring
import TboxModel.C15.Orig
namespace Tbox.C15

/-! ### termination -/

/-- **C15_terminates.** Decoding a name anywhere in any datagram with `fuelFor d =
(maxHops+1)·(|d|+2)` units of fuel never runs out of fuel: the loop/recursion of `FetchDomain`
is bounded by the hop limit times the datagram length. -/
theorem C15_terminates (d : List Byte) (first : Bool) (oss : List Byte) (p : P) (hp : p.pos ≤ d.length) :
    (fetchDomain d (fuelFor d) 0 first oss p).isDiverge = false := by
  apply fetchDomain_terminates d _ 0 first oss p hp (Nat.zero_le _)
  show (maxHops + 1 - 0) * (d.length + 2) ≤ (maxHops + 1) * (d.length + 2) + p.pos
  rw [Nat.sub_zero]; exact Nat.le_add_right _ _

/-- the general bound: from hop count `hops` and position `pos`,
`(maxHops+1−hops)·(|d|+2) − pos` units suffice -/
theorem C15_terminates_bound (d : List Byte) (fuel hops : Nat) (first : Bool) (oss : List Byte) (p : P)
    (hp : p.pos ≤ d.length) (hh : hops ≤ maxHops)
    (hf : (maxHops + 1 - hops) * (d.length + 2) ≤ fuel + p.pos) :
    (fetchDomain d fuel hops first oss p).isDiverge = false :=
  fetchDomain_terminates d fuel hops first oss p hp hh hf

/-- processing a whole datagram (header, `qd_count` questions, `an_count` answers — the counts
are 16-bit fields of the datagram, the loops are structural on them) never runs out of fuel -/
theorem C15_terminates_reply (d : List Byte) (known : Nat → Bool) :
    (parseReply d known).isDiverge = false := by
  have h := safe_parseReply d known
  cases hr : parseReply d known <;> simp_all [Res.Safe, Res.isDiverge]

/-! ### no uninitialised read, no out-of-bounds read -/

/-- **C15_no_uninit_no_oob.** For every datagram and every set of outstanding ids: the parser
never reads a local that no fetch has written, and every byte range it dereferences lies inside
the datagram. -/
theorem C15_no_uninit_no_oob (d : List Byte) (known : Nat → Bool) :
    (parseReply d known).isUninit = false ∧
    ∀ a ∈ (parseReply d known).st.acc, a.off + a.len ≤ d.length := by
  have h := (safe_parseReply d known).good
  exact ⟨h.2, h.1.2⟩

/-! ### only what is encoded is reported -/

/-- **C15_only_encoded.** If a datagram is accepted as an answer then every reported address is
the four in-bounds rdata bytes of a completely present A record (type field 1, the reported
ttl), every reported name is `Decodes`-encoded at some offset of the datagram, and the number
of reported records is at most the datagram's `an_count`, all of whose records (≥ 11 bytes
each) were present: inflated counts never add records — they make the reply be dropped. -/
theorem C15_only_encoded (d : List Byte) (known : Nat → Bool) (id : Nat) (a : List ARec) (c : List CRec)
    (p : P) (h : parseReply d known = .ok (.answer id a c) p) :
    (∀ r ∈ a, AddrEncoded d r) ∧ (∀ r ∈ c, NameEncoded d r) ∧
    a.length + c.length ≤ beNat (slice d 6 2) ∧ 12 + 11 * beNat (slice d 6 2) ≤ d.length := by
  have hs := safe_parseReply d known
  rw [h] at hs
  exact hs.2

/-- the callbacks of `onUdpRecv` carry exactly what the parser accepted: a success result holds
only encoded addresses and names, every other status holds none -/
theorem C15_only_encoded_callbacks (st : St) (d : List Byte) :
    ∀ e ∈ (onRecv st d).2,
      (∀ r ∈ e.result.a, AddrEncoded d r) ∧ (∀ r ∈ e.result.c, NameEncoded d r) := by
  intro e he
  unfold onRecv at he
  split at he
  · simp at he
  · split at he
    · rename_i rep p hrep
      cases rep with
      | ignore => simp [applyReply] at he
      | answer id a c =>
        have := C15_only_encoded d _ id a c p hrep
        simp only [applyReply] at he
        split at he
        · simp at he
        · simp only [finish, List.mem_singleton] at he
          subst he
          exact ⟨this.1, this.2.1⟩
      | rcode id rc =>
        simp only [applyReply] at he
        split at he
        · simp at he
        · split at he
          · simp only [finish, List.mem_singleton] at he; subst he; simp
          · split at he
            · simp only [finish, List.mem_singleton] at he; subst he; simp
            · split at he
              · simp at he
              · simp only [finish, List.mem_singleton] at he; subst he; simp
    · simp at he

/-- **C15_unknown_ignored.** A datagram too short to carry id and flags, or whose id matches no
outstanding lookup, changes nothing and calls nobody. -/
theorem C15_unknown_ignored (st : St) (d : List Byte)
    (h : d.length < 4 ∨ find st.reqs (beNat (slice d 0 2)) = none) : onRecv st d = (st, []) := by
  unfold onRecv
  split
  · rfl
  · unfold parseReply fetchU16
    rcases chk_fetchN_cases d 2 beNat {} (some 0) with ⟨h1, e1⟩ | ⟨_, e1⟩
    · rw [e1]; simp only [Res.bind]
      rcases chk_fetchN_cases d 2 beNat { ({} : P) with pos := ({} : P).pos + 2, acc := ⟨({} : P).pos, 2⟩ :: ({} : P).acc }
          (some 0) with ⟨h2, e2⟩ | ⟨_, e2⟩
      · rw [e2]
        rcases h with h | h
        · exfalso; simp only [] at h2; omega
        · have : ({} : P).pos = 0 := rfl
          simp [h, applyReply]
      · rw [e2]
    · rw [e1]; rfl

/-! ### each lookup completes once -/

/-- **C15_callback_at_most_once.** For every operation sequence (lookups, cancels, replies in
any order, duplicated, from several servers, with foreign ids, ticks) no lookup's callback runs
twice: the serial numbers of all callback invocations of the run are pairwise distinct. -/
theorem C15_callback_at_most_once (ops : List Op) :
    ((allEvents (run init ops).2).map (·.serial)).Nodup :=
  (run_ok ops init init_wf).2.2.1

/-- **C15_cancelled_never_called.** If `cancel id` hits an outstanding lookup (serial
`r.serial`) then that lookup's callback runs neither before nor after — whatever happens later
(late replies with its id, ticks, new lookups). -/
theorem C15_cancelled_never_called (ops1 ops2 : List Op) (id : Nat) (r : Req)
    (h : find (run init ops1).1.reqs id = some r) :
    ∀ e ∈ allEvents (run init (ops1 ++ Op.cancel id :: ops2)).2, e.serial ≠ r.serial := by
  have h1 := run_ok ops1 init init_wf
  have hm := find_mem h
  have hc := (cancel_ok id h1.1).1
  have hd : Dead (cancel (run init ops1).1 id).1 r.serial := by
    apply erase_dead h1.1 hm <;> simp [cancel, h]
  have h2 := run_ok ops2 _ hc.1
  intro e he
  rw [run_append] at he
  simp only [run, allEvents, List.flatMap_append, List.flatMap_cons, step, List.nil_append,
    List.mem_append] at he
  rcases he with he | he
  · intro heq
    exact (h1.2.2.2 e he).1.2 _ hm heq.symm
  · exact (h2.2.1 _ hd).2 e he

/-- once a lookup is no longer outstanding (completed, timed out, or cancelled — by an operation
or from inside any callback) its callback never runs (again), whatever happens later -/
theorem C15_no_callback_once_dead (st : St) (h : WF st) (s : Nat) (hd : Dead st s) (ops : List Op) :
    ∀ e ∈ allEvents (run st ops).2, e.serial ≠ s :=
  ((run_ok ops st h).2.1 s hd).2

/-- the ghost log `St.called` is exactly the list of callback invocations of the run -/
theorem C15_called_log (ops : List Op) :
    (run init ops).1.called = (allEvents (run init ops).2).map (·.serial) := by
  have := run_called ops init
  simpa [CalledOK, init] using this

/-- **C15_callback_once** (full strength, no side condition).  For every operation sequence from
`init` — lookups, cancels, replies in any order, duplicated, from several servers, with foreign
ids, ticks, any number of lookups (the 16-bit id wraps), callbacks that themselves issue and
cancel lookups (their own included), change the server list, ask `isRunning` — with `st` the final state and `evs` all callback invocations:
1. no lookup's callback runs twice, and the log `st.called` is exactly `evs`;
2. every lookup issued so far is called back, or was cancelled while outstanding, or was refused
   (no server / all 65 535 ids in use), or is still outstanding and YOUNGER THAN FIVE TICKS — so
   from its fifth tick on a lookup that was neither cancelled nor refused has been called;
3. a cancelled lookup is never called, a refused one is never called nor cancelled, an outstanding
   one is in none of the logs;
4. a callback is either a timeout delivered exactly at the fifth tick after the lookup was
   issued, or a reply/error callback delivered before that. -/
theorem C15_callback_once (ops : List Op) :
    ((allEvents (run init ops).2).map (·.serial)).Nodup ∧
    (run init ops).1.called = (allEvents (run init ops).2).map (·.serial) ∧
    (∀ s, s < (run init ops).1.nextSerial →
      s ∈ (run init ops).1.called ∨ s ∈ (run init ops).1.cancelled ∨ s ∈ (run init ops).1.refused ∨
      ∃ e ∈ (run init ops).1.reqs, e.2.serial = s ∧ (run init ops).1.now - e.2.born < 5) ∧
    (∀ s ∈ (run init ops).1.cancelled, s ∉ (run init ops).1.called) ∧
    (∀ s ∈ (run init ops).1.refused, s ∉ (run init ops).1.called ∧ s ∉ (run init ops).1.cancelled) ∧
    (∀ e ∈ (run init ops).1.reqs,
      e.2.serial ∉ (run init ops).1.called ∧ e.2.serial ∉ (run init ops).1.cancelled ∧
      e.2.serial ∉ (run init ops).1.refused) ∧
    (∀ e ∈ allEvents (run init ops).2,
      (e.result.status = .timeout → e.age = 5) ∧ (e.result.status ≠ .timeout → e.age < 5)) := by
  have h1 := C15_callback_at_most_once ops
  have h2 := C15_called_log ops
  have h3 := run_ri ops init init_ri
  have h4 := run_inv ops init init_inv
  refine ⟨h1, h2, ?_, h4.2.cc, h4.2.rc, h4.2.out, h3.2⟩
  intro s hs
  rcases h3.1.2.2 s hs with h | h | h | ⟨e, he, hse⟩
  · exact Or.inl h
  · exact Or.inr (Or.inl h)
  · exact Or.inr (Or.inr (Or.inl h))
  · exact Or.inr (Or.inr (Or.inr ⟨e, he, hse, (h3.1.1.1 e he).2.1⟩))

/-- **C15_outstanding_at_most_5_ticks.** Every outstanding lookup was issued fewer than five
ticks ago and its token (id, serial) sits in the ring slot of its age. -/
theorem C15_outstanding_at_most_5_ticks (ops : List Op) :
    ∀ e ∈ (run init ops).1.reqs,
      e.2.born ≤ (run init ops).1.now ∧ (run init ops).1.now - e.2.born < 5 ∧
      (e.1, e.2.serial) ∈ slot (run init ops).1 ((run init ops).1.now - e.2.born) :=
  (run_ri ops init init_ri).1.1.1

/-- the tick is not skipped while something is outstanding: `value_number_` is the ring
population and every outstanding lookup has its token in the ring -/
theorem C15_timer_armed_while_outstanding (ops : List Op) (h : (run init ops).1.reqs ≠ []) :
    (run init ops).1.valueNumber > 0 := by
  have ht := (run_ri ops init init_ri).1.1
  generalize (run init ops).1 = st at h ht
  cases hr : st.reqs with
  | nil => exact absurd hr h
  | cons e l =>
    obtain ⟨_, ha, hm⟩ := ht.1 e (by rw [hr]; exact List.mem_cons_self)
    rw [ht.2.1]
    unfold ringLen
    generalize st.now - e.2.born = a at ha hm
    have : a = 0 ∨ a = 1 ∨ a = 2 ∨ a = 3 ∨ a = 4 := by omega
    rcases this with rfl | rfl | rfl | rfl | rfl <;>
      (have := List.length_pos_of_mem hm; simp only [slot] at this; omega)

/-- **C15_alloc_finds_free_id.** The id allocation loop (`do … while (id == 0 || outstanding)`)
ends within 65 536 steps at an id that is not 0 and not outstanding whenever fewer than 65 535
lookups are outstanding — otherwise `request()` refuses. -/
theorem C15_alloc_finds_free_id (reqs : List (Nat × Req)) (alloc : Nat) (h : reqs.length < 65535) :
    probe reqs 65536 alloc ≠ 0 ∧ find reqs (probe reqs 65536 alloc) = none :=
  probe_good reqs alloc h

/-- **C15_socket_path.** A datagram arriving on the client's UDP socket is what `onUdpRecv` gets,
cut to the 4096 bytes of `UdpSocket`'s receive buffer: every statement above about `recv`
(`C15_only_encoded_callbacks`, `C15_unknown_ignored`, …) holds for `net` with `d.take 4096`. -/
theorem C15_socket_path (st : St) (d : List Byte) :
    step st (.net d) = step st (.recv (d.take 4096)) ∧ (d.take 4096).length ≤ 4096 :=
  ⟨rfl, by simp [List.length_take]; omega⟩

/-! ### the as-found id allocation (before patches/C15-04) violates "exactly once" -/

/-- the id counter stands at 0 again (65 536 lookups later) while lookup 0 (id 1) is outstanding -/
def wrapped : St :=
  { alloc := 0, reqs := [(1, { serial := 0 })], r0 := [(1, 0)], valueNumber := 1, nextSerial := 1 }

/-- **C15_orig_idwrap_counterexample.** As found (`Orig.lookupOld`: `req_id = ++req_id_alloc_;
requests_[req_id] = req`) the next lookup is handed id 1 and overwrites lookup 0, which is then
neither outstanding nor called nor cancelled: its callback never runs.  The repaired `lookup`
skips the outstanding id (returns 2) and keeps lookup 0. -/
theorem C15_orig_idwrap_counterexample :
    WF wrapped ∧ (Orig.lookupOld wrapped 0).2 = 1 ∧
    (∀ e ∈ (Orig.lookupOld wrapped 0).1.reqs, e.2.serial ≠ 0) ∧
    0 ∉ (Orig.lookupOld wrapped 0).1.called ∧ 0 ∉ (Orig.lookupOld wrapped 0).1.cancelled ∧
    (lookup wrapped 0).2 = 2 ∧ (∃ e ∈ (lookup wrapped 0).1.reqs, e.2.serial = 0) := by
  decide +kernel

/-- lookup 3 (id 1) completed two ticks ago, its ring entry is still in slot `r1`; the id counter
has wrapped and lookup 7 was just handed id 1 again -/
def staleToken : St :=
  { alloc := 1, reqs := [(1, { serial := 7, born := 3 })], r0 := [(1, 7)], r1 := [(1, 3)],
    valueNumber := 2, nextSerial := 8, now := 3 }

/-- **C15_orig_timeout_early_counterexample.** As found (`Orig.tickOld`: the ring entry is a bare
id) the stale entry times lookup 7 out at the next tick, at age 1.  The repaired `tick` sees that
the entry belongs to request 3, not 7, and leaves lookup 7 alone. -/
theorem C15_orig_timeout_early_counterexample :
    WF staleToken ∧
    (Orig.tickOld staleToken).2.map (fun e => (e.serial, e.result.status, e.age)) = [(7, Status.timeout, 1)] ∧
    (tick staleToken).2 = [] ∧ (∃ e ∈ (tick staleToken).1.reqs, e.2.serial = 7) := by
  decide +kernel

/-! ### the callback runs after its lookup was erased (patches/C15-03) -/

/-- **C15_callback_after_erase.** When a callback runs, its own id is no longer outstanding: the
state its script starts from has no entry of that id, so `isRunning(own id)` is false there and a
`cancel` of the own id as the script's first call returns "not found" and changes nothing. -/
theorem C15_callback_after_erase (st : St) (id : Nat) :
    find (erase st.reqs id) id = none ∧
    ∀ st0 : St, st0.reqs = erase st.reqs id → cancel st0 id = (st0, false) := by
  have h : find (erase st.reqs id) id = none := by
    unfold find erase
    simp only [Option.map_eq_none_iff, List.find?_eq_none, List.mem_filter]
    intro e he
    simpa using he.2
  refine ⟨h, ?_⟩
  intro st0 h0
  unfold cancel
  rw [h0, h]

/-- **C15_orig_selfcancel_counterexample.** As found (callback first, `deleteRequest`
afterwards; `Orig.finishOld`): a callback whose script cancels its own lookup erases the map node
holding the `std::function` that is executing — outcome `none` (replayed on the unpatched tree:
`CRASH asan:heap-use-after-free`).  The repaired `finish` completes, the cancel returning 0. -/
theorem C15_orig_selfcancel_counterexample :
    let st : St := (step (step init (.defScript [.cancelSelf, .lookup 1])).1 (.lookup 0)).1
    (find st.reqs 1).map (·.script) = some [.cancelSelf, .lookup 1] ∧
    Orig.finishOld st 1 ((find st.reqs 1).getD { serial := 0 }) { status := .domainError } = none ∧
    (finish st 1 ((find st.reqs 1).getD { serial := 0 }) { status := .domainError }).2.map (·.acts) =
      [[(Act.cancelSelf, 0), (Act.lookup 1, 2)]] := by decide +kernel

/-! ### the unpatched parser violates the first three statements -/

def selfPointer : List Byte := [0xC0, 0x00]

theorem orig_selfPointer_diverges : ∀ (fuel : Nat) (acc : List Access) (jumps : Nat),
    (Orig.fetchDomain selfPointer fuel true [] { pos := 0, acc := acc, jumps := jumps }).isDiverge = true := by
  intro fuel
  induction fuel with
  | zero => intros; rfl
  | succ n ih =>
    intro acc jumps
    unfold Orig.fetchDomain
    have := ih (⟨1, 1⟩ :: ⟨0, 1⟩ :: acc) (jumps + 1)
    revert this
    simp [selfPointer, fetchU8, fetchN, unchk, Res.bind, slice, beNat, setPos, sep]
    cases Orig.fetchDomain [192, 0] n true [] { pos := 0, acc := ⟨1, 1⟩ :: ⟨0, 1⟩ :: acc, jumps := jumps + 1 } <;>
      simp [Res.isDiverge]

/-- **C15_terminates is false of the unpatched `FetchDomain`**: on the two-byte name `C0 00` (a
compression pointer to itself) no amount of fuel suffices — the C++ recurses until the stack
overflows (replayed: `CRASH asan:stack-overflow`). -/
theorem C15_orig_terminates_counterexample (fuel : Nat) :
    (Orig.fetchDomain selfPointer fuel true [] {}).isDiverge = true :=
  orig_selfPointer_diverges fuel [] 0

/-- one outstanding lookup (id 1) -/
def oneLookup : St := (step init (.lookup 0)).1

/-- **C15_no_uninit_no_oob is false of the unpatched `onUdpRecv`**: a one-byte datagram makes it
read `req_id`, which no fetch has written. -/
theorem C15_orig_uninit_counterexample_short :
    Orig.onRecv oneLookup [0x00] = .inl "uninitialised-read" := by decide

/-- … and a label whose length byte promises more bytes than the datagram has streams the
never-written `char str[len+1]` into the name. -/
theorem C15_orig_uninit_counterexample_label :
    (Orig.fetchDomain [5, 97] 10 true [] {}).isUninit = true := by decide

/-- header (id 1, response, qd 0, an 5) followed by ONE A record `00 0001 0001 0000003c 0004 5db8d822` -/
def inflated : List Byte :=
  [0, 1, 0x81, 0x80, 0, 0, 0, 5, 0, 0, 0, 0,
   0, 0, 1, 0, 1, 0, 0, 0, 60, 0, 4, 93, 184, 216, 34]

def Reply.ips : Reply → List (List Byte)
  | .answer _ a _ => a.map (·.ip)
  | _ => []

/-- **C15_only_encoded is false of the unpatched `onUdpRecv`**: one A record with `an_count = 5`
is reported as five addresses (the failed fetches of iterations 2–5 leave the previous
record's values in the loop's locals). -/
theorem C15_orig_only_encoded_counterexample :
    (Orig.parseReply inflated (fun _ => true)).val?.map Reply.ips =
      some (List.replicate 5 [93, 184, 216, 34]) := by decide +kernel

/-- the repaired parser drops that datagram -/
example : (parseReply inflated (fun _ => true)).isBad = true := by decide +kernel

/-! ### non-vacuity -/

/-- a compressed CNAME + A reply is accepted and reports what it encodes -/
def sample : List Byte :=
  [0, 1, 0x81, 0x80, 0, 1, 0, 2, 0, 0, 0, 0,
   3, 119, 119, 119, 1, 97, 0, 0, 1, 0, 1,                                   -- www.a A IN
   0xC0, 12, 0, 5, 0, 1, 0, 0, 0, 9, 0, 4, 1, 98, 0xC0, 16,                  -- CNAME b.<a>
   0xC0, 35, 0, 1, 0, 1, 0, 0, 0, 60, 0, 4, 10, 0, 0, 7]                     -- A 10.0.0.7

example : (parseReply sample (fun _ => true)).val? =
    some (.answer 1 [⟨60, [10, 0, 0, 7], 51⟩] [⟨9, [98, 46, 97]⟩]) := by decide +kernel

/-- a run with a duplicate reply, a cancel, a retry issued from inside a timeout callback and a
cancel issued from inside a reply callback: callbacks 0 (success; its script cancels lookup 3),
2 (timeout; its script issues lookup 4) and 4 (timeout, five ticks later) run once each, the
cancelled lookups 1 and 3 never (the self-cancel inside callback 2 finds nothing); nothing is outstanding at the end -/
example :
    let ops := [Op.defScript [.cancel 4], .defScript [.cancelSelf, .lookup 2], .defScript [],
                .lookup 0, .lookup 2, .lookup 1, .lookup 2, .recv sample, .recv sample, .cancel 2,
                .tick, .tick, .tick, .tick, .tick, .tick, .tick, .tick, .tick, .tick]
    (allEvents (run init ops).2).map (fun e => (e.serial, e.result.status, e.age, e.acts)) =
      [(0, Status.success, 0, [(Act.cancel 4, 1)]), (2, Status.timeout, 5, [(Act.cancelSelf, 0), (Act.lookup 2, 5)]),
       (4, Status.timeout, 5, [])] ∧
    (run init ops).1.cancelled = [1, 3] ∧ (run init ops).1.reqs = [] := by decide +kernel

end Tbox.C15
