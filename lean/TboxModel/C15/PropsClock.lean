/-
C15 — PROPERTY THEOREMS, round 4: the clock and the object's lifetime (`Clock.lean`; helper lemmas in
`ClockProofs.lean`).

Histories are lists of `COp`: every operation of `Model.lean` (lookups, cancels, replies through
`onUdpRecv` / the socket with the kernel's `recvfrom` answers, server-list changes, callback scripts),
`advance ms` — the steady clock moves forward by ANY number of milliseconds (sub-second steps: the
loop's passes come early relative to the timer; hours: a clock jump or a pass that comes late under
load) followed by one loop pass, in which the monitor's persistent one-second timer fires once for
every second it is behind (`handleExpiredTimers` catches up) — and `destroy n` — `~DnsRequest()` with
whatever is outstanding, followed by the construction of a fresh object.  `tick` is `advance 1000`.
-/
import TboxModel.C15.ClockProofs
import TboxModel.C15.Props
namespace Tbox.C15

/-- **C15_clock_callback_once.**  `C15_callback_once` for every history with arbitrary clock advances and
object destructions, `st` the final state and `evs` all callback invocations:
1. no lookup's callback runs twice, and the log `st.called` is exactly `evs`;
2. every lookup issued so far was called back, or was cancelled while outstanding (by `cancel()` or by
   the destructor of its object), or was refused, or is still outstanding and has seen FEWER THAN FIVE
   FIRINGS of the timer;
3. a cancelled/destroyed lookup is never called, a refused one neither called nor cancelled, an
   outstanding one is in none of the logs;
4. a timeout callback is delivered exactly at the fifth firing after the lookup was issued, every other
   callback before that — however the firings are spread over loop passes. -/
theorem C15_clock_callback_once (ops : List COp) :
    ((allEvents (crun cinit ops).2).map (·.serial)).Nodup ∧
    (crun cinit ops).1.st.called = (allEvents (crun cinit ops).2).map (·.serial) ∧
    (∀ s, s < (crun cinit ops).1.st.nextSerial →
      s ∈ (crun cinit ops).1.st.called ∨ s ∈ (crun cinit ops).1.st.cancelled ∨ s ∈ (crun cinit ops).1.st.refused ∨
      ∃ e ∈ (crun cinit ops).1.st.reqs, e.2.serial = s ∧ (crun cinit ops).1.st.now - e.2.born < 5) ∧
    (∀ s ∈ (crun cinit ops).1.st.cancelled, s ∉ (crun cinit ops).1.st.called) ∧
    (∀ s ∈ (crun cinit ops).1.st.refused, s ∉ (crun cinit ops).1.st.called ∧ s ∉ (crun cinit ops).1.st.cancelled) ∧
    (∀ e ∈ (crun cinit ops).1.st.reqs,
      e.2.serial ∉ (crun cinit ops).1.st.called ∧ e.2.serial ∉ (crun cinit ops).1.st.cancelled ∧
      e.2.serial ∉ (crun cinit ops).1.st.refused) ∧
    (∀ e ∈ allEvents (crun cinit ops).2,
      (e.result.status = .timeout → e.age = 5) ∧ (e.result.status ≠ .timeout → e.age < 5)) := by
  obtain ⟨⟨hinv, hri⟩, hok, hcalled, hage⟩ := crun_trans ops cinit cinit_allinv
  refine ⟨hok.2.2.1, ?_, ?_, hinv.2.cc, hinv.2.rc, hinv.2.out, hage⟩
  · have : (crun cinit ops).1.st.called = cinit.st.called ++ (allEvents (crun cinit ops).2).map (·.serial) := hcalled
    simpa [cinit] using this
  · intro s hs
    rcases hri.2.2 s hs with h | h | h | ⟨e, he, hse⟩
    · exact Or.inl h
    · exact Or.inr (Or.inl h)
    · exact Or.inr (Or.inr (Or.inl h))
    · exact Or.inr (Or.inr (Or.inr ⟨e, he, hse, (hri.1.1 e he).2.1⟩))

/-- **C15_destroyed_never_called.**  A lookup that is outstanding when its `DnsRequest` is destroyed is
never called back — not before (it was outstanding), not by the destructor, not afterwards, whatever
happens to the new object: replies carrying its id (which the new object hands out again from 1),
clock advances of any size, new lookups.  It is logged as dropped. -/
theorem C15_destroyed_never_called (ops1 ops2 : List COp) (n : Nat) :
    ∀ e0 ∈ (crun cinit ops1).1.st.reqs,
      (∀ e ∈ allEvents (crun cinit (ops1 ++ COp.destroy n :: ops2)).2, e.serial ≠ e0.2.serial) ∧
      e0.2.serial ∈ (cstep (crun cinit ops1).1 (.destroy n)).1.dropped := by
  intro e0 he0
  obtain ⟨hg1, hok1, -, -⟩ := crun_trans ops1 cinit cinit_allinv
  have hd := destroy_trans n hg1
  have hdead : Dead (destroy (crun cinit ops1).1.st n) e0.2.serial :=
    ⟨hg1.1.1.2 e0 he0, by simp [destroy]⟩
  obtain ⟨-, hok2, -, -⟩ := crun_trans ops2 (cstep (crun cinit ops1).1 (.destroy n)).1 hd.1
  refine ⟨?_, ?_⟩
  · intro e he
    rw [crun_append] at he
    simp only [crun, allEvents, List.flatMap_append, List.flatMap_cons, List.mem_append] at he
    rcases he with he | he | he
    · intro heq
      exact (hok1.2.2.2 e he).1.2 e0 he0 heq.symm
    · simp [cstep] at he
    · exact (hok2.2.1 _ hdead).2 e he
  · show e0.2.serial ∈ (crun cinit ops1).1.st.reqs.map (·.2.serial) ++ (crun cinit ops1).1.dropped
    exact List.mem_append.mpr (Or.inl (List.mem_map.mpr ⟨e0, he0, rfl⟩))

/-- **C15_destroy_quiesces.**  Right after the destructor nothing is outstanding, the monitor's timer is
off, and neither the passing of any amount of time nor any datagram calls anybody. -/
theorem C15_destroy_quiesces (c : CSt) (n : Nat) :
    (cstep c (.destroy n)).1.st.reqs = [] ∧ (cstep c (.destroy n)).1.armed = false ∧
    (∀ ms, (advance (cstep c (.destroy n)).1 ms).2 = [] ∧ (advance (cstep c (.destroy n)).1 ms).1.st = destroy c.st n) ∧
    (∀ d, onRecv (cstep c (.destroy n)).1.st d = (destroy c.st n, [])) ∧
    (∀ as, (sockRun (cstep c (.destroy n)).1.st as).2 = []) := by
  refine ⟨rfl, by simp [cstep, CSt.armed, destroy], ?_, ?_, ?_⟩
  · intro ms
    unfold advance passFuel catchUp
    simp [cstep, destroy]
  · intro d
    simp [cstep, onRecv, destroy]
  · intro as
    have hq : ∀ (as : List KAns) (st : St), st.reqs = [] → sockRun st as = (st, []) := by
      intro as
      induction as with
      | nil => intro st _; rfl
      | cons a as ih =>
        intro st h
        have h1 : sockEvent st a = (st, []) := by
          cases a with
          | err e => rfl
          | data d =>
            unfold sockEvent
            simp only []
            split
            · rfl
            · simp [onRecv, h]
        unfold sockRun
        simp only [h1, ih st h, List.nil_append]
    rw [hq as _ rfl]

/-- **C15_pass_is_ticks.**  A loop pass after any clock advance is a sequence of `k` ordinary firings of
the monitor's timer, one after the other (late firings are neither skipped nor doubled nor reordered),
with `k ≤ (time the timer is behind) / 1000 + 1`. -/
theorem C15_pass_is_ticks (c : CSt) (ms : Nat) :
    ∃ k, k ≤ (c.clock + ms - c.deadline) / 1000 + 1 ∧
      (advance c ms).1.st = (run c.st (List.replicate k .tick)).1 ∧
      (advance c ms).2 = allEvents (run c.st (List.replicate k .tick)).2 := by
  have hq : ∀ (f : Nat) (c : CSt), ∃ k, k ≤ f ∧ (catchUp f c).1.st = (run c.st (List.replicate k .tick)).1 ∧
      (catchUp f c).2 = allEvents (run c.st (List.replicate k .tick)).2 := by
    intro f
    induction f with
    | zero => intro c; exact ⟨0, Nat.le_refl _, rfl, rfl⟩
    | succ f ih =>
      intro c
      unfold catchUp
      split
      · obtain ⟨k, hk, h1, h2⟩ := ih (fire c).1
        refine ⟨k + 1, by omega, ?_, ?_⟩
        · simp only [List.replicate_succ, run, step_tick]
          rw [h1, fire_st]
        · simp only [List.replicate_succ, run, step_tick, allEvents, List.flatMap_cons]
          rw [h2, fire_st, fire_ev]
          rfl
      · exact ⟨0, Nat.zero_le _, rfl, rfl⟩
  exact hq _ { c with clock := c.clock + ms }

/-- **C15_timer_phase.**  In every reachable state, between operations: while anything is in the ring the
monitor's timer is armed strictly ahead of the clock and at most one interval ahead — no firing is left
behind by a pass, none is scheduled late; and an outstanding lookup always has its token in the ring
(`C15_timer_armed_while_outstanding`), so it is never left without a running timer. -/
theorem C15_timer_phase (ops : List COp) :
    ((crun cinit ops).1.st.valueNumber > 0 →
      (crun cinit ops).1.clock < (crun cinit ops).1.deadline ∧
      (crun cinit ops).1.deadline ≤ (crun cinit ops).1.clock + 1000) ∧
    ((crun cinit ops).1.st.reqs ≠ [] → (crun cinit ops).1.st.valueNumber > 0) := by
  refine ⟨crun_phase ops cinit (by intro h; simp [cinit] at h), ?_⟩
  intro h
  exact timed_armed (crun_trans ops cinit cinit_allinv).1.2.1 h

/-- **C15_outstanding_at_most_5_seconds** (`C15_timeout_ticks` under coarse passes).  From any reachable
state: after a loop pass that comes 5 000 ms or more after the previous operation — one late pass, a clock
jump of hours — every lookup that was outstanding before has completed (its callback ran in that pass, by
`C15_clock_callback_once` exactly once) or had been cancelled: whatever is outstanding afterwards was issued
DURING the pass, from a callback (`born` counts firings; `c.st.now < born` = issued after the pass's first
firing).  So in wall-clock terms a lookup never stays outstanding beyond the first pass at or after its
fifth second, however the passes are spaced. -/
theorem C15_outstanding_at_most_5_seconds (ops : List COp) (ms : Nat) (h : 5000 ≤ ms) :
    ∀ e ∈ (advance (crun cinit ops).1 ms).1.st.reqs, (crun cinit ops).1.st.now < e.2.born := by
  have hg := (crun_trans ops cinit cinit_allinv).1
  have hp := crun_phase ops cinit (by intro h; simp [cinit] at h)
  generalize (crun cinit ops).1 = c at hg hp
  have hg' := (advance_trans c ms hg).1
  have hdone := catchUp_done (passFuel { c with clock := c.clock + ms }) { c with clock := c.clock + ms } (fun _ => Nat.le_refl _)
  have hclk := (catchUp_clock (passFuel { c with clock := c.clock + ms }) { c with clock := c.clock + ms }).1
  obtain ⟨t1, t2, t3⟩ := catchUp_track c.st.now (passFuel { c with clock := c.clock + ms }) { c with clock := c.clock + ms } hg (Nat.le_refl _)
  intro e he
  by_cases hv : c.st.valueNumber > 0
  · rcases t3 with t3 | t3
    · exact t3 e he
    · -- the timer kept its phase: fewer than five firings would leave it behind the clock
      apply Nat.lt_of_not_le
      intro hle
      have harm : (advance c ms).1.st.valueNumber > 0 := timed_armed hg'.2.1 (List.ne_nil_of_mem he)
      obtain ⟨hb, ha, _⟩ := hg'.2.1.1 e he
      apply hdone
      refine ⟨harm, ?_⟩
      have hp' := (hp hv).2
      show (advance c ms).1.deadline ≤ (advance c ms).1.clock
      have e1 : (advance c ms).1.deadline = c.deadline + 1000 * ((advance c ms).1.st.now - c.st.now) := t3
      have e2 : (advance c ms).1.clock = c.clock + ms := hclk
      have e3 : c.st.now ≤ (advance c ms).1.st.now := t1
      rw [e1, e2]
      omega
  · -- the timer was off: nothing was outstanding and nothing fires
    have h0 : c.st.valueNumber = 0 := by omega
    have hr : c.st.reqs = [] := by
      cases hq : c.st.reqs with
      | nil => rfl
      | cons x l => exact absurd (timed_armed hg.2.1 (by rw [hq]; simp)) (by omega)
    have : (advance c ms).1.st = c.st := by
      unfold advance passFuel catchUp
      simp [h0]
    rw [this, hr] at he
    cases he

/-- **C15_reply_for_next_id_ignored** (state-derived input).  A datagram carrying the id that the NEXT
`request()` will be handed (not outstanding yet) is ignored, and the lookup issued afterwards is exactly
the lookup that would have been issued without it. -/
theorem C15_reply_for_next_id_ignored (st : St) (d : List Byte) (sid : Nat) (hl : st.reqs.length < 65535)
    (hid : beNat (slice d 0 2) = probe st.reqs 65536 st.alloc) :
    onRecv st d = (st, []) ∧ lookup (onRecv st d).1 sid = lookup st sid := by
  have h := C15_unknown_ignored st d (Or.inr (by rw [hid]; exact (probe_good st.reqs st.alloc hl).2))
  exact ⟨h, by rw [h]⟩

/-- **C15_catchup_zero_delay_example** (what "five ticks" means under a clock jump).  Two lookups whose
timeout callbacks retry, issued two seconds apart; the clock jumps by ten minutes.  The timer never drains,
so the ten minutes are caught up in ONE pass: 600 firings, the retries issued inside it time out five
FIRINGS — zero milliseconds — later, 240 callbacks in that pass, each lookup still called exactly once
(`C15_clock_callback_once`).  A timeout is five firings of the timer, not five seconds of the clock. -/
theorem C15_catchup_zero_delay_example :
    let ops := [COp.base (.defScript [.lookup 0]), .base (.lookup 0), .advance 2000, .base (.lookup 0), .advance 600000]
    (crun cinit ops).1.st.now = 602 ∧ (allEvents (crun cinit ops).2).length = 240 ∧
    (crun cinit ops).1.st.reqs.length = 2 ∧ (crun cinit ops).1.clock = 602000 ∧
    (crun cinit ops).1.deadline = 603000 := by decide +kernel

/-! ### non-vacuity -/

/-- sub-second passes, a late pass, a jump, a destruction with two lookups outstanding and a reply for a
dropped lookup's id arriving at the new object, which has handed that id out again -/
example :
    let sf1 : List Byte := [0, 1, 0x81, 0x83]
    let ops := [COp.base (.lookup 0), .advance 400, .base (.lookup 0), .advance 599, .advance 1, .advance 2500,
                .destroy 1, .advance 7200000, .base (.lookup 0), .base (.recv sf1), .advance 999, .advance 4001]
    (crun cinit ops).1.st.now = 8 ∧ (crun cinit ops).1.dropped = [1, 0] ∧
    (allEvents (crun cinit ops).2).map (fun e => (e.serial, e.result.status, e.age)) = [(2, Status.domainError, 0)] ∧
    (crun cinit ops).1.st.cancelled = [1, 0] ∧ (crun cinit ops).1.st.reqs = [] := by decide +kernel

end Tbox.C15
