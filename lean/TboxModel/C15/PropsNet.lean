/-
C15 — PROPERTY THEOREMS, part 2 (round 3): the request encoder, the socket layer with the
kernel's answers as oracle inputs, what `onUdpRecv` accepts as a reply, and the cost of parsing.
Helper lemmas: Encode.lean, Cost.lean.  The history theorems of Props.lean
(`C15_callback_once`, …) quantify over `Op`, which now includes `lookupN` (any name, any answers
of the kernel to the `sendto` calls), `sock` (any schedule of `recvfrom` answers) and `recvAt`.
-/
import TboxModel.C15.Props
import TboxModel.C15.Encode
import TboxModel.C15.Cost
namespace Tbox.C15

/-! ### request encoding -/

/-- a name `AppendDomain` encodes to a well-formed QNAME: every piece between dots is a label of
1..63 bytes without NUL, and the QNAME is at most 255 bytes -/
def WellFormedName (name : List Byte) : Bool :=
  (splitDot name).all labelOK && decide ((appendDomain name).length ≤ 255)

theorem splitDot_ne_nil (s : List Byte) : splitDot s ≠ [] := by
  cases s with
  | nil => simp [splitDot]
  | cons b bs => unfold splitDot; split <;> simp

theorem joinFrom_false {S : List (List Byte)} (h : S ≠ []) : joinFrom false S = 46 :: joinFrom true S := by
  cases S with
  | nil => exact absurd rfl h
  | cons l ls => simp [joinFrom]

/-- `Split` loses nothing: joining the pieces with dots gives the string back -/
theorem join_splitDot (s : List Byte) : joinFrom true (splitDot s) = s := by
  induction s with
  | nil => simp [splitDot, joinFrom]
  | cons b bs ih =>
    unfold splitDot
    split
    · rename_i hb
      simp only [joinFrom, if_true, List.nil_append]
      rw [joinFrom_false (splitDot_ne_nil bs), ih, hb]
    · have hne := splitDot_ne_nil bs
      cases hS : splitDot bs with
      | nil => exact absurd hS hne
      | cons h t =>
        rw [hS] at ih
        simp only [List.headD_cons, List.tail_cons, joinFrom, if_true, List.nil_append, List.cons_append] at ih ⊢
        rw [ih]

theorem length_le_encLabels (ls : List (List Byte)) : ls.length ≤ (encLabels ls).length := by
  induction ls with
  | nil => simp
  | cons l ls ih => rw [encLabels_cons]; simp; omega

/-- the query datagram: 12 header bytes, the QNAME, QTYPE and QCLASS -/
theorem encodeQuery_shape (id : Nat) (name : List Byte) :
    encodeQuery id name =
      (u16be id ++ u16be 256 ++ u16be 1 ++ u16be 0 ++ u16be 0 ++ u16be 0) ++
        (encLabels (splitDot name) ++ 0 :: [0, 1, 0, 1]) := by
  simp [encodeQuery, appendDomain, u16be]

/-- **C15_query_roundtrip_partial.**  FULL STATEMENT (`-- OPEN`, false: see the counterexamples
below — `request()` checks nothing about the name and accepts every string):
  "every name `request()` accepts encodes to a well-formed QNAME of at most 255 bytes which the
   model's own decoder reads back; rejected names leave no pending entry".
Proved under the decidable hypothesis `WellFormedName name`: the query is header ++ QNAME ++
`00 01 00 01`, the QNAME is at most 255 bytes, and `fetchDomain` started at offset 12 of the query
returns exactly `name` and stops at the QTYPE field (so a reply that echoes the question is walked
correctly by `skipQuestions`). -/
theorem C15_query_roundtrip_partial (id : Nat) (name : List Byte) (h : WellFormedName name = true) :
    ∃ p', fetchDomain (encodeQuery id name) (fuelFor (encodeQuery id name)) 0 true [] { pos := 12 } = .ok name p' ∧
      p'.pos = 12 + (appendDomain name).length ∧ (encodeQuery id name).length = p'.pos + 4 ∧
      (appendDomain name).length ≤ 255 := by
  simp only [WellFormedName, Bool.and_eq_true, decide_eq_true_eq, List.all_eq_true] at h
  obtain ⟨hl, h255⟩ := h
  have hshape := encodeQuery_shape id name
  have hlen := length_le_encLabels (splitDot name)
  obtain ⟨p', hres, hpos⟩ := fetchDomain_encLabels (splitDot name) hl
    (u16be id ++ u16be 256 ++ u16be 1 ++ u16be 0 ++ u16be 0 ++ u16be 0) [0, 1, 0, 1] [] true { pos := 12 }
    (fuelFor (encodeQuery id name)) 0 (by simp [u16be])
    (by rw [hshape]; simp [fuelFor, u16be, maxHops]; omega)
  rw [← hshape] at hres
  refine ⟨p', ?_, ?_, ?_, h255⟩
  · rw [hres, join_splitDot]; simp
  · rw [hpos]; simp [u16be, appendDomain]; omega
  · rw [hpos, hshape]; simp [u16be]; omega

/-- non-vacuity: "www.example.com" is well formed -/
example : WellFormedName [119, 119, 119, 46, 101, 120, 97, 109, 112, 108, 101, 46, 99, 111, 109] = true := by decide

/-- **C15_query_never_rejected.** `request()` looks at neither the name nor the results of its
`sendto` calls: whatever the name (`lookupN name`) and whatever the kernel answers to the sends
(`send`), the state change and the returned id are those of a plain `request()`; in particular no
name is rejected, and a lookup whose every send failed is registered like any other (and is then
covered by `C15_callback_once`: it completes exactly once, by timeout or by a reply that arrives
all the same). -/
theorem C15_query_never_rejected (st : St) (name : List Byte) (sid : Nat) (send : List Nat) :
    step st (.lookupN name sid send) = step st (.lookup sid) := rfl

/-- an accepted `request()` (returned id ≠ 0) leaves exactly one pending entry under that id, with
a fresh serial, the script bound at issue time and a token in the current ring slot -/
theorem C15_accepted_lookup_pending (st : St) (sid : Nat) (h : (lookup st sid).2 ≠ 0) :
    find (lookup st sid).1.reqs (lookup st sid).2 =
      some { serial := st.nextSerial, script := st.scripts.getD sid [], born := st.now } ∧
    ((lookup st sid).2, st.nextSerial) ∈ (lookup st sid).1.r0 ∧
    (lookup st sid).1.nextSerial = st.nextSerial + 1 := by
  unfold lookup at h ⊢
  split
  · rename_i h0; simp [h0, refuse] at h
  · split
    · rename_i h0 h1; simp [h0, h1, refuse] at h
    · simp [find]

/-- a refused `request()` (no server configured, or all 65 535 ids outstanding) returns 0 and
leaves no pending entry and no ring token -/
theorem C15_refused_lookup_nothing (st : St) :
    (refuse st).2 = 0 ∧ (refuse st).1.reqs = st.reqs ∧ (refuse st).1.r0 = st.r0 ∧
    (refuse st).1.valueNumber = st.valueNumber := ⟨rfl, rfl, rfl, rfl⟩

/-- the counterexamples to the full round-trip statement, all accepted by `request()`:
`a..b` is sent as the name `a` (the empty piece is the terminator); `a.` carries a second zero byte
which pushes QTYPE/QCLASS one byte out of place; a 192-byte piece is sent with length byte `0xC0`,
a compression pointer; a 256-byte piece is sent with length byte 0 (the length is narrowed to
8 bits) — the name ends before it. -/
theorem C15_query_roundtrip_counterexample_empty_label :
    WellFormedName [97, 46, 46, 98] = false ∧
    (fetchDomain (encodeQuery 1 [97, 46, 46, 98]) 100 0 true [] { pos := 12 }).val? = some [97] := by decide

theorem C15_query_roundtrip_counterexample_trailing_dot :
    WellFormedName [97, 46] = false ∧ appendDomain [97, 46] = [1, 97, 0, 0] ∧
    ((fetchDomain (encodeQuery 1 [97, 46]) 100 0 true [] { pos := 12 }).st.pos + 4 ≠ (encodeQuery 1 [97, 46]).length) := by
  decide

theorem C15_query_roundtrip_counterexample_label192 :
    WellFormedName (List.replicate 192 97) = false ∧
    (appendDomain (List.replicate 192 97)).head? = some 0xC0 ∧
    (fetchDomain (encodeQuery 1 (List.replicate 192 97)) 1000 0 true [] { pos := 12 }).val? ≠
      some (List.replicate 192 97) := by decide +kernel

theorem C15_query_roundtrip_counterexample_label256 :
    WellFormedName (List.replicate 256 97) = false ∧
    (appendDomain (List.replicate 256 97)).head? = some 0 ∧
    (fetchDomain (encodeQuery 1 (List.replicate 256 97)) 1000 0 true [] { pos := 12 }).val? = some [] := by
  decide +kernel

/-! ### width: the 16-bit fields of the query -/

/-- serializer.cpp:80-84 (`p[1] = in & 0xff; in >>= 8; p[0] = in & 0xff`): the two bytes written
carry the value modulo 2^16, so the id in the query is the id returned for every id `request()`
can return (1 … 65 535) -/
theorem C15_u16be_value (v : Nat) : beNat (u16be v) = v % 65536 := by
  simp [u16be, beNat, UInt8.toNat_ofNat']; omega

theorem C15_query_id_field (id : Nat) (name : List Byte) (h : id < 65536) :
    beNat (slice (encodeQuery id name) 0 2) = id := by
  have : slice (encodeQuery id name) 0 2 = u16be id := by simp [encodeQuery, slice, u16be]
  rw [this, C15_u16be_value]; omega

/-! ### the socket layer: the kernel's answers are oracle inputs -/

def KAns.delivers : KAns → Bool
  | .err _ => false
  | .data d => !d.isEmpty

/-- **C15_recv_faults_harmless.**  Failed `recvfrom` calls (EINTR, EAGAIN, ECONNREFUSED from an
ICMP port-unreachable, any errno) and empty datagrams change nothing and call nobody: removing
them from any schedule of kernel answers leaves the final state and the callbacks the same. -/
theorem C15_recv_faults_harmless (st : St) (as : List KAns) :
    sockRun st as = sockRun st (as.filter KAns.delivers) := by
  induction as generalizing st with
  | nil => rfl
  | cons a as ih =>
    cases a with
    | err e => simp [sockRun, sockEvent, List.filter, KAns.delivers, ih]
    | data d =>
      by_cases hd : d.isEmpty = true
      · simp [sockRun, sockEvent, List.filter, KAns.delivers, hd, ih]
      · simp only [List.filter, KAns.delivers, hd, Bool.not_false, sockRun]
        rw [ih]

/-- … and a delivered datagram is what `onUdpRecv` gets, cut to the 4096-byte buffer -/
theorem C15_sock_delivers (st : St) (d : List Byte) (h : d ≠ []) :
    sockEvent st (.data d) = onRecv st (d.take 4096) := by
  cases d with
  | nil => exact absurd rfl h
  | cons b bs => simp [sockEvent]

/-! ### a datagram longer than the receive buffer -/

theorem slice_take (d : List Byte) (n off k : Nat) (h : off + k ≤ (d.take n).length) :
    slice (d.take n) off k = slice d off k := by
  have hn : off + k ≤ n := by rw [List.length_take] at h; omega
  unfold slice
  rw [List.drop_take, List.take_take]
  congr 1
  omega

theorem decodes_take {d : List Byte} {n hops pos : Nat} {first : Bool} {name : List Byte}
    (h : Decodes (d.take n) hops pos first name) : Decodes d hops pos first name := by
  have hle : (d.take n).length ≤ d.length := by rw [List.length_take]; omega
  induction h with
  | root hb hz =>
    rw [slice_take d n _ 1 hb] at hz
    exact Decodes.root (by omega) hz
  | @label hops pos first rest hb hnz hnp hlen _ ih =>
    have e1 := slice_take d n pos 1 hb
    rw [e1] at hnz hnp hlen ih ⊢
    have e2 := slice_take d n (pos + 1) (beNat (slice d pos 1)) (by omega)
    rw [e2]
    exact Decodes.label (by omega) hnz hnp (by omega) ih
  | @pointer hops pos first sub hb hp hh hoff _ ih =>
    have e1 := slice_take d n pos 1 (by omega)
    have e2 := slice_take d n (pos + 1) 1 (by omega)
    rw [e1, e2] at hoff ih
    rw [e1] at hp
    exact Decodes.pointer (by omega) hp hh (by omega) ih

/-- **C15_truncated_only_encoded.**  `UdpSocket` reads at most 4096 bytes without `MSG_TRUNC`: a
longer datagram reaches the parser cut, and is accepted if its answer section ends inside the
buffer.  What is then reported is still encoded in the datagram that was sent — the cut-off part
can only make the reply be dropped, never add or change a record. -/
theorem C15_truncated_only_encoded (st : St) (d : List Byte) :
    ∀ e ∈ (sockEvent st (.data d)).2,
      (∀ r ∈ e.result.a, AddrEncoded d r) ∧ (∀ r ∈ e.result.c, NameEncoded d r) := by
  intro e he
  by_cases hd : d.isEmpty = true
  · simp [sockEvent, hd] at he
  · simp only [sockEvent, hd] at he
    have h := C15_only_encoded_callbacks st (d.take 4096) e he
    have hle : (d.take 4096).length ≤ d.length := by rw [List.length_take]; omega
    refine ⟨?_, ?_⟩
    · intro r hr
      obtain ⟨h1, h2, h3, h4, h5⟩ := h.1 r hr
      refine ⟨h1, by omega, ?_, ?_, ?_⟩
      · rw [h3, slice_take d 4096 r.off 4 h2]
      · rw [← slice_take d 4096 (r.off - 10) 2 (by omega)]; exact h4
      · rw [← slice_take d 4096 (r.off - 6) 4 (by omega)]; exact h5
    · intro r hr
      obtain ⟨pos, hdec⟩ := h.2 r hr
      exact ⟨pos, decodes_take hdec⟩

/-! ### what counts as a reply -/

/-- **C15_query_echo_ignored.**  A datagram whose QR bit is clear — the client's own query echoed
back, with or without an answer section or an rcode — completes nothing, whatever else it holds. -/
theorem C15_query_echo_ignored (st : St) (d : List Byte)
    (h : beNat (slice d 2 2) / 32768 % 2 = 0) : onRecv st d = (st, []) := by
  unfold onRecv
  split
  · rfl
  · unfold parseReply fetchU16
    rcases chk_fetchN_cases d 2 beNat {} (some 0) with ⟨h1, e1⟩ | ⟨_, e1⟩
    · rw [e1]; simp only [Res.bind]
      rcases chk_fetchN_cases d 2 beNat { ({} : P) with pos := ({} : P).pos + 2, acc := ⟨({} : P).pos, 2⟩ :: ({} : P).acc }
          (some 0) with ⟨h2, e2⟩ | ⟨_, e2⟩
      · rw [e2]
        simp only [Nat.zero_add, h, if_true, ite_self, applyReply]
      · rw [e2]
    · rw [e1]; rfl

/-- the client's own query is such a datagram -/
theorem C15_own_query_ignored (st : St) (id : Nat) (name : List Byte) :
    onRecv st (encodeQuery id name) = (st, []) := by
  apply C15_query_echo_ignored
  have : slice (encodeQuery id name) 2 2 = u16be 256 := by simp [encodeQuery, slice, u16be]
  rw [this]; decide

/-- what the code accepts beyond that (stated, not required by the property; all tied on every
run): the question section of a reply is walked but never compared with the name asked, the
source address is never looked at, TC / opcode / AA / RA / Z bits are ignored.  One outstanding
lookup for "verif.example.com": a response about `evil.com` with TC set and opcode 15 completes it. -/
def evilReply : List Byte :=
  [0, 1, 0xFB, 0x80, 0, 1, 0, 1, 0, 0, 0, 0,
   4, 101, 118, 105, 108, 3, 99, 111, 109, 0, 0, 1, 0, 1,
   0xC0, 12, 0, 1, 0, 1, 0, 0, 0, 60, 0, 4, 6, 6, 6, 6]

theorem C15_question_not_compared :
    (onRecv oneLookup evilReply).2.map (fun e => (e.serial, e.result.status, e.result.a.map (·.ip))) =
      [(0, Status.success, [[6, 6, 6, 6]])] := by decide +kernel

/-! ### cost -/

/-- **C15_parse_cost_linear.**  Processing a datagram is the same computation as processing it
with both record counts clipped to what the datagram has room for (`parseReplyClip`: at most
`|d|/5 + 1` iterations of the question loop and `|d|/11 + 1` of the answer loop — both loops are
structural on their count): the number of records the code iterates over is linear in the size of
the datagram and does not depend on the 16-bit counts it claims.  (Each record's names cost at
most `fuelFor d = 17·(|d|+2)` steps by `C15_terminates`, so the total is O(|d|²) in general —
names reached through compression pointers are walked again for every record — and O(|d|) for
datagrams without pointers.) -/
theorem C15_parse_cost_linear (d : List Byte) (known : Nat → Bool) :
    parseReply d known = parseReplyClip d known := parseReply_eq_clip d known

/-- a 12-byte datagram claiming 65 535 questions and 65 535 answers is rejected at the first
iteration of the first loop -/
theorem C15_parse_cost_inflated_example :
    parseReply [0, 1, 0x81, 0x80, 0xFF, 0xFF, 0xFF, 0xFF, 0, 0, 0, 0] (fun _ => true) =
      parseReplyClip [0, 1, 0x81, 0x80, 0xFF, 0xFF, 0xFF, 0xFF, 0, 0, 0, 0] (fun _ => true) ∧
    min 65535 (12 / 5 + 1) = 3 ∧
    (parseReplyClip [0, 1, 0x81, 0x80, 0xFF, 0xFF, 0xFF, 0xFF, 0, 0, 0, 0] (fun _ => true)).isBad = true := by
  refine ⟨parseReply_eq_clip _ _, by decide, by decide +kernel⟩

/-- counts that do not fit make the reply be dropped (never accepted with fewer records) -/
theorem C15_inflated_counts_dropped (d : List Byte) (known : Nat → Bool) (id : Nat) (a : List ARec) (c : List CRec) (p : P)
    (h : d.length < 12 + 11 * beNat (slice d 6 2)) : parseReply d known ≠ .ok (.answer id a c) p := by
  intro hr
  have := (C15_only_encoded d known id a c p hr).2.2.2
  omega

end Tbox.C15
