/- C15 — the timeout ring: a lookup of age `a` (ticks since it was issued) has its id in slot
r0, r4, r3, r2, r1 for a = 0..4, `value_number_` is the ring population, hence no lookup is
outstanding for five ticks or more — including lookups issued from inside callbacks, in
particular from timeout callbacks while the tick is walking the slot it swapped out.
Core Lean only. -/
import TboxModel.C15.Account
namespace Tbox.C15

/-- the slot holding the ids of the lookups of age `a` -/
def slot (st : St) : Nat → List Nat
  | 0 => st.r0
  | 1 => st.r4
  | 2 => st.r3
  | 3 => st.r2
  | _ => st.r1

def ringLen (st : St) : Nat :=
  st.r0.length + st.r1.length + st.r2.length + st.r3.length + st.r4.length

def Timed (st : St) : Prop :=
  (∀ e ∈ st.reqs, e.2.born ≤ st.now ∧ st.now - e.2.born < 5 ∧ e.1 ∈ slot st (st.now - e.2.born)) ∧
  st.valueNumber = ringLen st

/-- between ticks: the clock stands, slots r1..r4 are untouched, r0 and `value_number_` grow
together, and every entry is an old one (same key, same birth) or was born now with its id among
the ids added -/
def Grow (st st' : St) : Prop :=
  st'.now = st.now ∧ st'.r1 = st.r1 ∧ st'.r2 = st.r2 ∧ st'.r3 = st.r3 ∧ st'.r4 = st.r4 ∧
  ∃ extra, st'.r0 = st.r0 ++ extra ∧ st'.valueNumber = st.valueNumber + extra.length ∧
    ∀ e ∈ st'.reqs, (∃ e0 ∈ st.reqs, e0.1 = e.1 ∧ e0.2.born = e.2.born) ∨ (e.2.born = st.now ∧ e.1 ∈ extra)

theorem Grow.refl (st : St) : Grow st st :=
  ⟨rfl, rfl, rfl, rfl, rfl, [], by simp, by simp, fun e he => Or.inl ⟨e, he, rfl, rfl⟩⟩

theorem Grow.trans {a b c : St} (h1 : Grow a b) (h2 : Grow b c) : Grow a c := by
  obtain ⟨n1, a1, a2, a3, a4, x1, hx1, hv1, he1⟩ := h1
  obtain ⟨n2, b1, b2, b3, b4, x2, hx2, hv2, he2⟩ := h2
  refine ⟨n2.trans n1, b1.trans a1, b2.trans a2, b3.trans a3, b4.trans a4, x1 ++ x2, ?_, ?_, ?_⟩
  · rw [hx2, hx1, List.append_assoc]
  · rw [hv2, hv1, List.length_append]; omega
  · intro e he
    rcases he2 e he with ⟨e0, he0, hk, hb⟩ | ⟨hb, hk⟩
    · rcases he1 e0 he0 with ⟨e00, he00, hk0, hb0⟩ | ⟨hb0, hk0⟩
      · exact Or.inl ⟨e00, he00, hk0.trans hk, hb0.trans hb⟩
      · exact Or.inr ⟨by rw [← hb, hb0], List.mem_append.mpr (Or.inl (hk ▸ hk0))⟩
    · exact Or.inr ⟨by rw [hb, n1], List.mem_append.mpr (Or.inr hk)⟩

theorem grow_of_sub {st st' : St} (hn : st'.now = st.now) (h0 : st'.r0 = st.r0) (h1 : st'.r1 = st.r1)
    (h2 : st'.r2 = st.r2) (h3 : st'.r3 = st.r3) (h4 : st'.r4 = st.r4) (hv : st'.valueNumber = st.valueNumber)
    (hr : ∀ e ∈ st'.reqs, ∃ e0 ∈ st.reqs, e0.1 = e.1 ∧ e0.2.born = e.2.born) : Grow st st' :=
  ⟨hn, h1, h2, h3, h4, [], by simp [h0], by simp [hv], fun e he => Or.inl (hr e he)⟩

theorem lookup_grow (st : St) (sid : Nat) : Grow st (lookup st sid).1 := by
  unfold lookup
  split
  · exact grow_of_sub rfl rfl rfl rfl rfl rfl rfl (fun e he => ⟨e, he, rfl, rfl⟩)
  · refine ⟨rfl, rfl, rfl, rfl, rfl, [(st.alloc + 1) % 65536], rfl, rfl, ?_⟩
    intro e he
    rcases List.mem_cons.mp he with rfl | he
    · exact Or.inr ⟨rfl, by simp⟩
    · exact Or.inl ⟨e, (mem_erase he).1, rfl, rfl⟩

theorem cancel_grow (st : St) (id : Nat) : Grow st (cancel st id).1 := by
  unfold cancel
  split
  · exact Grow.refl st
  · exact grow_of_sub rfl rfl rfl rfl rfl rfl rfl (fun e he => ⟨e, (mem_erase he).1, rfl, rfl⟩)

theorem runScript_grow (self : Nat) : ∀ (acts : List Act) (st : St), Grow st (runScript self st acts).1 := by
  intro acts
  induction acts with
  | nil => intro st; exact Grow.refl st
  | cons a as ih =>
    intro st
    cases a with
    | lookup sid => simpa [runScript] using (lookup_grow st sid).trans (ih _)
    | cancel id => simpa [runScript] using (cancel_grow st id).trans (ih _)
    | cancelSelf => simpa [runScript] using (cancel_grow st self).trans (ih _)

theorem finish_grow (st : St) (id : Nat) (r : Req) (res : Result) :
    Grow st (finish st id r res).1 ∧ ∀ e ∈ (finish st id r res).1.reqs, e.1 = id → e.2.born = st.now := by
  generalize hst0 : ({ st with reqs := erase st.reqs id, called := st.called ++ [r.serial] } : St) = st0
  have hfin : (finish st id r res).1 = (runScript id st0 r.script).1 := by rw [← hst0]; rfl
  rw [hfin]
  have g0 : Grow st st0 := by
    rw [← hst0]
    exact grow_of_sub rfl rfl rfl rfl rfl rfl rfl (fun e he => ⟨e, (mem_erase he).1, rfl, rfl⟩)
  have gs := runScript_grow id r.script st0
  refine ⟨g0.trans gs, ?_⟩
  intro e he hk
  obtain ⟨_, _, _, _, _, extra, _, _, hold⟩ := gs
  rcases hold e he with ⟨e0, he0, hk0, _⟩ | ⟨hb, _⟩
  · exfalso
    rw [← hst0] at he0
    exact (mem_erase he0).2 (hk0.trans hk)
  · rw [hb, ← hst0]

theorem applyReply_grow (st : St) (rep : Reply) : Grow st (applyReply st rep).1 := by
  cases rep with
  | ignore => exact Grow.refl st
  | answer id a c =>
    simp only [applyReply]
    split
    · exact Grow.refl st
    · exact (finish_grow _ _ _ _).1
  | rcode id rc =>
    simp only [applyReply]
    split
    · exact Grow.refl st
    · split
      · exact (finish_grow _ _ _ _).1
      · split
        · exact (finish_grow _ _ _ _).1
        · split
          · refine grow_of_sub rfl rfl rfl rfl rfl rfl rfl ?_
            intro e he
            obtain ⟨e0, he0, rfl⟩ := List.mem_map.mp he
            refine ⟨e0, he0, ?_⟩
            split <;> exact ⟨rfl, rfl⟩
          · exact (finish_grow _ _ _ _).1

theorem onRecv_grow (st : St) (d : List Byte) : Grow st (onRecv st d).1 := by
  unfold onRecv
  split
  · exact Grow.refl st
  · split
    · exact applyReply_grow _ _
    · exact Grow.refl st

theorem timed_of_grow {st st' : St} (ht : Timed st) (hg : Grow st st') : Timed st' := by
  obtain ⟨hn, g1, g2, g3, g4, extra, hx, hv, he⟩ := hg
  refine ⟨?_, ?_⟩
  · intro e hmem
    rcases he e hmem with ⟨e0, he0, hk, hb⟩ | ⟨hb, hk⟩
    · obtain ⟨t1, t2, t3⟩ := ht.1 e0 he0
      rw [hn, ← hb, ← hk]
      refine ⟨t1, t2, ?_⟩
      generalize st.now - e0.2.born = a at t2 t3
      have : a = 0 ∨ a = 1 ∨ a = 2 ∨ a = 3 ∨ a = 4 := by omega
      rcases this with rfl | rfl | rfl | rfl | rfl
      · show e0.1 ∈ st'.r0
        rw [hx]; exact List.mem_append.mpr (Or.inl t3)
      · show e0.1 ∈ st'.r4
        rw [g4]; exact t3
      · show e0.1 ∈ st'.r3
        rw [g3]; exact t3
      · show e0.1 ∈ st'.r2
        rw [g2]; exact t3
      · show e0.1 ∈ st'.r1
        rw [g1]; exact t3
    · rw [hn, hb]
      refine ⟨Nat.le_refl _, by omega, ?_⟩
      rw [Nat.sub_self]
      show e.1 ∈ st'.r0
      rw [hx]; exact List.mem_append.mpr (Or.inr hk)
  · have := ht.2
    unfold ringLen at *
    rw [hv, hx, g1, g2, g3, g4, List.length_append]; omega

/-- the walk over the swapped-out slot: ids already handled have no OLD entry left -/
theorem foldl_onTimeout_grow {st1 : St} (items : List Nat) :
    ∀ (done : List Nat) (acc : St × List Event), Grow st1 acc.1 →
      (∀ id ∈ done, ∀ e ∈ acc.1.reqs, e.1 = id → e.2.born = st1.now) →
      Grow st1 (items.foldl onTimeout acc).1 ∧
      ∀ id ∈ done ++ items, ∀ e ∈ (items.foldl onTimeout acc).1.reqs, e.1 = id → e.2.born = st1.now := by
  induction items with
  | nil => intro done acc hg hd; exact ⟨hg, by simpa using hd⟩
  | cons x l ih =>
    intro done acc hg hd
    have key : Grow st1 (onTimeout acc x).1 ∧
        ∀ id ∈ done ++ [x], ∀ e ∈ (onTimeout acc x).1.reqs, e.1 = id → e.2.born = st1.now := by
      unfold onTimeout
      cases hf : find acc.1.reqs x with
      | none =>
        refine ⟨hg, ?_⟩
        intro id hid e he hk
        rcases List.mem_append.mp hid with h | h
        · exact hd id h e he hk
        · simp only [List.mem_singleton] at h
          exact absurd (hk.trans h) (find_none hf e he)
      | some r =>
        have hfin := finish_grow acc.1 x r { status := .timeout }
        refine ⟨hg.trans hfin.1, ?_⟩
        intro id hid e he hk
        rcases List.mem_append.mp hid with h | h
        · obtain ⟨hn, _, _, _, _, extra, _, _, hold⟩ := hfin.1
          rcases hold e he with ⟨e0, he0, hk0, hb0⟩ | ⟨hb, _⟩
          · rw [← hb0]; exact hd id h e0 he0 (hk0.trans hk)
          · rw [hb]; exact hg.1
        · simp only [List.mem_singleton] at h
          rw [hfin.2 e he (hk.trans h)]; exact hg.1
    have := ih (done ++ [x]) (onTimeout acc x) key.1 key.2
    simpa [List.foldl_cons, List.append_assoc] using this

/-- the tick proper: `st1` is `st` with the ring advanced by one slot, the new current slot
swapped out (`st.r1` is being walked, `st1.r0` is empty) and the clock advanced -/
theorem fold_timed (st st1 : St) (ht : Timed st) (e0 : st1.r0 = []) (e1 : st1.r1 = st.r2) (e2 : st1.r2 = st.r3)
    (e3 : st1.r3 = st.r4) (e4 : st1.r4 = st.r0) (ev : st1.valueNumber = st.valueNumber - st.r1.length)
    (en : st1.now = st.now + 1) (er : st1.reqs = st.reqs) :
    Timed (st.r1.foldl onTimeout (st1, [])).1 := by
  · skip
    obtain ⟨hg, hd⟩ := foldl_onTimeout_grow (st1 := st1) st.r1 [] (st1, []) (Grow.refl st1) (by simp)
    generalize (List.foldl onTimeout (st1, []) st.r1).1 = fin at hg hd
    obtain ⟨hn, g1, g2, g3, g4, extra, hx, hv, he⟩ := hg
    refine ⟨?_, ?_⟩
    · intro e hmem
      rcases he e hmem with ⟨e0', he0, hk, hb⟩ | ⟨hb, hk⟩
      · rw [er] at he0
        obtain ⟨t1, t2, t3⟩ := ht.1 e0' he0
        rw [hn, en, ← hb, ← hk]
        have hold : st.now - e0'.2.born ≠ 4 := by
          intro h4
          rw [h4] at t3
          have hb' := hd e0'.1 (by simpa using (show e0'.1 ∈ st.r1 from t3)) e hmem hk.symm
          rw [← hb, en] at hb'
          omega
        refine ⟨by omega, by omega, ?_⟩
        have hs : st.now + 1 - e0'.2.born = (st.now - e0'.2.born) + 1 := by omega
        rw [hs]
        generalize st.now - e0'.2.born = a at t2 t3 hold
        have : a = 0 ∨ a = 1 ∨ a = 2 ∨ a = 3 := by omega
        rcases this with rfl | rfl | rfl | rfl
        · show e0'.1 ∈ fin.r4
          rw [g4, e4]; exact t3
        · show e0'.1 ∈ fin.r3
          rw [g3, e3]; exact t3
        · show e0'.1 ∈ fin.r2
          rw [g2, e2]; exact t3
        · show e0'.1 ∈ fin.r1
          rw [g1, e1]; exact t3
      · rw [hn, hb]
        refine ⟨Nat.le_refl _, by omega, ?_⟩
        rw [Nat.sub_self]
        show e.1 ∈ fin.r0
        rw [hx]; exact List.mem_append.mpr (Or.inr hk)
    · have := ht.2
      unfold ringLen at *
      rw [hv, hx, g1, g2, g3, g4, e0, e1, e2, e3, e4, ev, List.length_append]
      simp only [List.length_nil]
      omega

theorem tick_timed {st : St} (ht : Timed st) : Timed (tick st).1 := by
  unfold tick
  split
  · exact ht
  · exact fold_timed st _ ht rfl rfl rfl rfl rfl rfl rfl rfl

theorem step_timed {st : St} (op : Op) (ht : Timed st) : Timed (step st op).1 := by
  cases op with
  | servers n => exact ht
  | defScript acts => exact ht
  | lookup sid => exact timed_of_grow ht (lookup_grow st sid)
  | cancel id => exact timed_of_grow ht (cancel_grow st id)
  | running id => exact ht
  | recv d => exact timed_of_grow ht (onRecv_grow st d)
  | tick => exact tick_timed ht

theorem run_timed : ∀ (ops : List Op) (st : St), Timed st → Timed (run st ops).1 := by
  intro ops
  induction ops with
  | nil => intro st h; exact h
  | cons op ops ih => intro st h; simpa [run] using ih _ (step_timed op h)

theorem init_timed : Timed init := by simp [Timed, init, ringLen]

end Tbox.C15
