/- C15 — the timeout ring.  A lookup of age `a` (ticks since it was issued) has its token
(id, serial) in slot r0, r4, r3, r2, r1 for a = 0..4; `value_number_` is the ring population; a
token whose lookup is still outstanding sits in the slot of that lookup's age.  Hence: no lookup
is outstanding for five ticks, and a timeout callback comes exactly at the fifth tick — also for
lookups issued from inside callbacks, in particular from timeout callbacks while the tick walks
the slot it swapped out, and also when ids are reused (stale tokens do not match).
Core Lean only. -/
import TboxModel.C15.Account
namespace Tbox.C15

/-- the slot holding the tokens of the lookups of age `a` -/
def slot (st : St) : Nat → List Token
  | 0 => st.r0
  | 1 => st.r4
  | 2 => st.r3
  | 3 => st.r2
  | _ => st.r1

def ringLen (st : St) : Nat :=
  st.r0.length + st.r1.length + st.r2.length + st.r3.length + st.r4.length

def Timed (st : St) : Prop :=
  (∀ e ∈ st.reqs, e.2.born ≤ st.now ∧ st.now - e.2.born < 5 ∧ (e.1, e.2.serial) ∈ slot st (st.now - e.2.born)) ∧
  st.valueNumber = ringLen st ∧
  (∀ a, a < 5 → ∀ t ∈ slot st a, ∀ e ∈ st.reqs, e.2.serial = t.2 → st.now - e.2.born = a) ∧
  (∀ a, a < 5 → ∀ t ∈ slot st a, t.2 < st.nextSerial) ∧
  (∀ e ∈ st.reqs, e.2.serial < st.nextSerial)

/-- between ticks: the clock stands, slots r1..r4 are untouched, r0 and `value_number_` grow
together by tokens of fresh serials, and every entry is an old one (same key, birth, serial) or
was born now with its token among the added ones -/
def Grow (st st' : St) : Prop :=
  st'.now = st.now ∧ st'.r1 = st.r1 ∧ st'.r2 = st.r2 ∧ st'.r3 = st.r3 ∧ st'.r4 = st.r4 ∧
  st.nextSerial ≤ st'.nextSerial ∧
  ∃ extra : List Token, st'.r0 = extra ++ st.r0 ∧ st'.valueNumber = st.valueNumber + extra.length ∧
    (∀ t ∈ extra, st.nextSerial ≤ t.2 ∧ t.2 < st'.nextSerial) ∧
    ∀ e ∈ st'.reqs,
      (∃ e0 ∈ st.reqs, e0.1 = e.1 ∧ e0.2.born = e.2.born ∧ e0.2.serial = e.2.serial) ∨
      (e.2.born = st.now ∧ (e.1, e.2.serial) ∈ extra)

theorem Grow.refl (st : St) : Grow st st :=
  ⟨rfl, rfl, rfl, rfl, rfl, Nat.le_refl _, [], by simp, by simp, by simp,
   fun e he => Or.inl ⟨e, he, rfl, rfl, rfl⟩⟩

theorem Grow.trans {a b c : St} (h1 : Grow a b) (h2 : Grow b c) : Grow a c := by
  obtain ⟨n1, a1, a2, a3, a4, s1, x1, hx1, hv1, ht1, he1⟩ := h1
  obtain ⟨n2, b1, b2, b3, b4, s2, x2, hx2, hv2, ht2, he2⟩ := h2
  refine ⟨n2.trans n1, b1.trans a1, b2.trans a2, b3.trans a3, b4.trans a4, Nat.le_trans s1 s2, x2 ++ x1, ?_, ?_, ?_, ?_⟩
  · rw [hx2, hx1, List.append_assoc]
  · rw [hv2, hv1, List.length_append]; omega
  · intro t ht
    rcases List.mem_append.mp ht with h | h
    · have := ht2 t h; omega
    · have := ht1 t h; omega
  · intro e he
    rcases he2 e he with ⟨e0, he0, hk, hb, hs⟩ | ⟨hb, hk⟩
    · rcases he1 e0 he0 with ⟨e00, he00, hk0, hb0, hs0⟩ | ⟨hb0, hk0⟩
      · exact Or.inl ⟨e00, he00, hk0.trans hk, hb0.trans hb, hs0.trans hs⟩
      · exact Or.inr ⟨by rw [← hb, hb0], List.mem_append.mpr (Or.inr (by rw [← hk, ← hs]; exact hk0))⟩
    · exact Or.inr ⟨by rw [hb, n1], List.mem_append.mpr (Or.inl hk)⟩

theorem grow_of_sub {st st' : St} (hn : st'.now = st.now) (h0 : st'.r0 = st.r0) (h1 : st'.r1 = st.r1)
    (h2 : st'.r2 = st.r2) (h3 : st'.r3 = st.r3) (h4 : st'.r4 = st.r4) (hv : st'.valueNumber = st.valueNumber)
    (hs : st.nextSerial ≤ st'.nextSerial)
    (hr : ∀ e ∈ st'.reqs, ∃ e0 ∈ st.reqs, e0.1 = e.1 ∧ e0.2.born = e.2.born ∧ e0.2.serial = e.2.serial) :
    Grow st st' :=
  ⟨hn, h1, h2, h3, h4, hs, [], by simp [h0], by simp [hv], by simp, fun e he => Or.inl (hr e he)⟩

theorem refuse_grow (st : St) : Grow st (refuse st).1 :=
  grow_of_sub rfl rfl rfl rfl rfl rfl rfl (Nat.le_succ _) (fun e he => ⟨e, he, rfl, rfl, rfl⟩)

theorem lookup_grow (st : St) (sid : Nat) : Grow st (lookup st sid).1 := by
  unfold lookup
  split
  · exact refuse_grow st
  · split
    · exact refuse_grow st
    · refine ⟨rfl, rfl, rfl, rfl, rfl, Nat.le_succ _, [(probe st.reqs 65536 st.alloc, st.nextSerial)], rfl, rfl, ?_, ?_⟩
      · intro t ht
        simp only [List.mem_singleton] at ht
        subst ht
        exact ⟨Nat.le_refl _, Nat.lt_succ_self _⟩
      · intro e he
        rcases List.mem_cons.mp he with rfl | he
        · exact Or.inr ⟨rfl, by simp⟩
        · exact Or.inl ⟨e, (mem_erase he).1, rfl, rfl, rfl⟩

theorem cancel_grow (st : St) (id : Nat) : Grow st (cancel st id).1 := by
  unfold cancel
  split
  · exact Grow.refl st
  · exact grow_of_sub rfl rfl rfl rfl rfl rfl rfl (Nat.le_refl _) (fun e he => ⟨e, (mem_erase he).1, rfl, rfl, rfl⟩)

theorem doAct_grow (self : Nat) (st : St) (a : Act) : Grow st (doAct self st a).1 := by
  cases a with
  | lookup sid => exact lookup_grow st sid
  | cancel id => exact cancel_grow st id
  | cancelSelf => exact cancel_grow st self
  | servers n => exact grow_of_sub rfl rfl rfl rfl rfl rfl rfl (Nat.le_refl _) (fun e he => ⟨e, he, rfl, rfl, rfl⟩)
  | running id => exact Grow.refl st
  | runningSelf => exact Grow.refl st

theorem runScript_grow (self : Nat) : ∀ (acts : List Act) (st : St), Grow st (runScript self st acts).1 := by
  intro acts
  induction acts with
  | nil => intro st; exact Grow.refl st
  | cons a as ih => intro st; simpa [runScript] using (doAct_grow self st a).trans (ih _)

/-- after `finish st id …` every entry of key `id` is a lookup issued by the callback itself -/
theorem finish_grow (st : St) (id : Nat) (r : Req) (res : Result) :
    Grow st (finish st id r res).1 ∧
    ∀ e ∈ (finish st id r res).1.reqs, e.1 = id → st.nextSerial ≤ e.2.serial := by
  generalize hst0 : ({ st with reqs := erase st.reqs id, called := st.called ++ [r.serial] } : St) = st0
  have hfin : (finish st id r res).1 = (runScript id st0 r.script).1 := by rw [← hst0]; rfl
  rw [hfin]
  have g0 : Grow st st0 := by
    rw [← hst0]
    exact grow_of_sub rfl rfl rfl rfl rfl rfl rfl (Nat.le_refl _) (fun e he => ⟨e, (mem_erase he).1, rfl, rfl, rfl⟩)
  have gs := runScript_grow id r.script st0
  refine ⟨g0.trans gs, ?_⟩
  intro e he hk
  obtain ⟨_, _, _, _, _, _, extra, _, _, hext, hold⟩ := gs
  rcases hold e he with ⟨e0, he0, hk0, _, _⟩ | ⟨_, hmem⟩
  · exfalso
    rw [← hst0] at he0
    exact (mem_erase he0).2 (hk0.trans hk)
  · have := (hext _ hmem).1
    rw [← hst0] at this
    exact this

theorem applyReply_grow (st : St) (rep : Reply) : Grow st (applyReply st rep).1 := by
  cases rep with
  | ignore => exact Grow.refl st
  | answer id a c =>
    simp only [applyReply]
    split
    · exact Grow.refl st
    · exact (finish_grow _ _ _ _).1
  | rcode id rc =>
    simp only [applyReply]
    split
    · exact Grow.refl st
    · split
      · exact (finish_grow _ _ _ _).1
      · split
        · exact (finish_grow _ _ _ _).1
        · split
          · refine grow_of_sub rfl rfl rfl rfl rfl rfl rfl (Nat.le_refl _) ?_
            intro e he
            obtain ⟨e0, he0, rfl⟩ := List.mem_map.mp he
            refine ⟨e0, he0, ?_⟩
            split <;> exact ⟨rfl, rfl, rfl⟩
          · exact (finish_grow _ _ _ _).1

theorem onRecv_grow (st : St) (d : List Byte) : Grow st (onRecv st d).1 := by
  unfold onRecv
  split
  · exact Grow.refl st
  · split
    · exact applyReply_grow _ _
    · exact Grow.refl st

/-- a token of `st'` is a token of `st` in the same slot, or a fresh one in slot 0 -/
theorem slot_grow {st st' : St} {extra : List Token} (g1 : st'.r1 = st.r1) (g2 : st'.r2 = st.r2)
    (g3 : st'.r3 = st.r3) (g4 : st'.r4 = st.r4) (hx : st'.r0 = extra ++ st.r0) {a : Nat} (ha : a < 5)
    {t : Token} (ht : t ∈ slot st' a) : t ∈ slot st a ∨ (a = 0 ∧ t ∈ extra) := by
  have : a = 0 ∨ a = 1 ∨ a = 2 ∨ a = 3 ∨ a = 4 := by omega
  rcases this with rfl | rfl | rfl | rfl | rfl
  · have ht' : t ∈ st'.r0 := ht
    rw [hx] at ht'
    rcases List.mem_append.mp ht' with h | h
    · exact Or.inr ⟨rfl, h⟩
    · exact Or.inl h
  · left; show t ∈ st.r4; rw [← g4]; exact ht
  · left; show t ∈ st.r3; rw [← g3]; exact ht
  · left; show t ∈ st.r2; rw [← g2]; exact ht
  · left; show t ∈ st.r1; rw [← g1]; exact ht

theorem slot_mono {st st' : St} {extra : List Token} (g1 : st'.r1 = st.r1) (g2 : st'.r2 = st.r2)
    (g3 : st'.r3 = st.r3) (g4 : st'.r4 = st.r4) (hx : st'.r0 = extra ++ st.r0) {a : Nat} (ha : a < 5)
    {t : Token} (ht : t ∈ slot st a) : t ∈ slot st' a := by
  have : a = 0 ∨ a = 1 ∨ a = 2 ∨ a = 3 ∨ a = 4 := by omega
  rcases this with rfl | rfl | rfl | rfl | rfl
  · show t ∈ st'.r0; rw [hx]; exact List.mem_append.mpr (Or.inr ht)
  · show t ∈ st'.r4; rw [g4]; exact ht
  · show t ∈ st'.r3; rw [g3]; exact ht
  · show t ∈ st'.r2; rw [g2]; exact ht
  · show t ∈ st'.r1; rw [g1]; exact ht

theorem timed_of_grow {st st' : St} (ht : Timed st) (hg : Grow st st') : Timed st' := by
  obtain ⟨hn, g1, g2, g3, g4, hs, extra, hx, hv, hext, he⟩ := hg
  obtain ⟨t1, t2, t3, t4, t5⟩ := ht
  refine ⟨?_, ?_, ?_, ?_, ?_⟩
  · intro e hmem
    rcases he e hmem with ⟨e0, he0, hk, hb, hse⟩ | ⟨hb, hk⟩
    · obtain ⟨u1, u2, u3⟩ := t1 e0 he0
      rw [hn, ← hb, ← hk, ← hse]
      exact ⟨u1, u2, slot_mono g1 g2 g3 g4 hx u2 u3⟩
    · rw [hn, hb]
      refine ⟨Nat.le_refl _, by omega, ?_⟩
      rw [Nat.sub_self]
      show (e.1, e.2.serial) ∈ st'.r0
      rw [hx]; exact List.mem_append.mpr (Or.inl hk)
  · unfold ringLen at *
    rw [hv, hx, g1, g2, g3, g4, List.length_append]; omega
  · intro a ha t htok e hmem hser
    rw [hn]
    rcases slot_grow g1 g2 g3 g4 hx ha htok with hold | ⟨ha0, hnew⟩
    · rcases he e hmem with ⟨e0, he0, _, hb, hse⟩ | ⟨_, hk⟩
      · rw [← hb]; exact t3 a ha t hold e0 he0 (hse.trans hser)
      · exfalso
        have h1 := (hext _ hk).1
        have h2 := t4 a ha t hold
        have h3 : e.2.serial = t.2 := hser
        omega
    · rcases he e hmem with ⟨e0, he0, _, _, hse⟩ | ⟨hb, _⟩
      · exfalso
        have h1 := t5 e0 he0
        have h2 := (hext _ hnew).1
        have h3 : e.2.serial = t.2 := hser
        omega
      · rw [hb, ha0]; exact Nat.sub_self _
  · intro a ha t htok
    rcases slot_grow g1 g2 g3 g4 hx ha htok with hold | ⟨_, hnew⟩
    · exact Nat.lt_of_lt_of_le (t4 a ha t hold) hs
    · exact (hext _ hnew).2
  · intro e hmem
    rcases he e hmem with ⟨e0, he0, _, _, hse⟩ | ⟨_, hk⟩
    · rw [← hse]; exact Nat.lt_of_lt_of_le (t5 e0 he0) hs
    · exact (hext _ hk).2

/-- a callback that is not a timeout comes while the lookup is younger than five ticks -/
theorem finish_age (st : St) (id : Nat) (r : Req) (res : Result) :
    ∀ e ∈ (finish st id r res).2, e.result = res ∧ e.age = st.now - r.born := by
  intro e he
  have : (finish st id r res).2 = [⟨r.serial, res, (runScript id _ r.script).2, st.now - r.born⟩] := rfl
  rw [this] at he
  simp only [List.mem_singleton] at he
  subst he
  exact ⟨rfl, rfl⟩

theorem applyReply_age {st : St} (rep : Reply) (ht : Timed st) :
    ∀ e ∈ (applyReply st rep).2, e.result.status ≠ .timeout ∧ e.age < 5 := by
  have key : ∀ (id : Nat) (r : Req) (res : Result), find st.reqs id = some r → res.status ≠ .timeout →
      ∀ e ∈ (finish st id r res).2, e.result.status ≠ .timeout ∧ e.age < 5 := by
    intro id r res hf hres e he
    obtain ⟨h1, h2⟩ := finish_age st id r res e he
    rw [h1, h2]
    exact ⟨hres, (ht.1 _ (find_mem hf)).2.1⟩
  cases rep with
  | ignore => intro e he; simp [applyReply] at he
  | answer id a c =>
    simp only [applyReply]
    cases hf : find st.reqs id with
    | none => intro e he; simp at he
    | some r => exact key id r _ hf (by simp)
  | rcode id rc =>
    simp only [applyReply]
    cases hf : find st.reqs id with
    | none => intro e he; simp at he
    | some r =>
      simp only
      split
      · exact key id r _ hf (by simp)
      · split
        · exact key id r _ hf (by simp)
        · split
          · intro e he; simp at he
          · exact key id r _ hf (by simp)

theorem onRecv_age {st : St} (d : List Byte) (ht : Timed st) :
    ∀ e ∈ (onRecv st d).2, e.result.status ≠ .timeout ∧ e.age < 5 := by
  unfold onRecv
  split
  · intro e he; simp at he
  · split
    · exact applyReply_age _ ht
    · intro e he; simp at he

theorem onTimeout_pres (acc : St × List Event) (x : Token) : Pres acc.1 (onTimeout acc x).1 := by
  unfold onTimeout
  cases hf : find acc.1.reqs x.1 with
  | none => exact Pres.refl _
  | some r =>
    dsimp only
    split
    · exact finish_pres acc.1 x.1 r { status := .timeout } hf
    · exact Pres.refl _

/-- the walk over the swapped-out slot.  `st1` = state at the start of the walk.  Every token of
the slot belongs to a lookup issued exactly five ticks before `st1.now` (if still outstanding)
and carries an old serial.  Afterwards: no entry matches a walked token, and every callback run
was a timeout at age 5. -/
theorem foldl_onTimeout_grow {st1 : St} (items : List Token) :
    ∀ (done : List Token) (acc : St × List Event),
      (∀ t ∈ items, t.2 < st1.nextSerial ∧ ∀ e ∈ st1.reqs, e.2.serial = t.2 → e.2.born + 5 = st1.now) →
      Grow st1 acc.1 → KU acc.1 → Acc acc.1 →
      (∀ t ∈ done, t.2 < st1.nextSerial ∧ ∀ e ∈ acc.1.reqs, ¬ (e.1 = t.1 ∧ e.2.serial = t.2)) →
      (∀ e ∈ acc.2, e.result.status = .timeout ∧ e.age = 5) →
      Grow st1 (items.foldl onTimeout acc).1 ∧
      (∀ t ∈ done ++ items, ∀ e ∈ (items.foldl onTimeout acc).1.reqs, ¬ (e.1 = t.1 ∧ e.2.serial = t.2)) ∧
      (∀ e ∈ (items.foldl onTimeout acc).2, e.result.status = .timeout ∧ e.age = 5) := by
  induction items with
  | nil =>
    intro done acc _ hg _ _ hd hev
    exact ⟨hg, by simpa using fun t ht => (hd t ht).2, hev⟩
  | cons x l ih =>
    intro done acc hit hg hk ha hd hev
    have hx := hit x List.mem_cons_self
    have hpres := onTimeout_pres acc x hk ha
    have key : Grow st1 (onTimeout acc x).1 ∧
        (∀ t ∈ done ++ [x], t.2 < st1.nextSerial ∧ ∀ e ∈ (onTimeout acc x).1.reqs, ¬ (e.1 = t.1 ∧ e.2.serial = t.2)) ∧
        (∀ e ∈ (onTimeout acc x).2, e.result.status = .timeout ∧ e.age = 5) := by
      unfold onTimeout
      cases hf : find acc.1.reqs x.1 with
      | none =>
        refine ⟨hg, ?_, hev⟩
        intro t ht
        rcases List.mem_append.mp ht with h | h
        · exact hd t h
        · simp only [List.mem_singleton] at h
          subst h
          exact ⟨hx.1, fun e he hm => find_none hf e he hm.1⟩
      | some r =>
        dsimp only
        have hmr := find_mem hf
        by_cases hser : r.serial = x.2
        · simp only [hser, if_true]
          have hfin := finish_grow acc.1 x.1 r { status := .timeout }
          obtain ⟨gn, _, _, _, _, gs, _⟩ := hg
          refine ⟨(show Grow st1 acc.1 from ⟨gn, by assumption, by assumption, by assumption, by assumption, gs, by assumption⟩).trans hfin.1, ?_, ?_⟩
          · intro t ht
            have htlt : t.2 < st1.nextSerial := by
              rcases List.mem_append.mp ht with h | h
              · exact (hd t h).1
              · simp only [List.mem_singleton] at h; subst h; exact hx.1
            refine ⟨htlt, ?_⟩
            intro e he hm
            obtain ⟨_, _, _, _, _, _, extra, _, _, hext, hold⟩ := hfin.1
            rcases hold e he with ⟨e0, he0, hk0, _, hs0⟩ | ⟨_, hnew⟩
            · rcases List.mem_append.mp ht with h | h
              · exact (hd t h).2 e0 he0 ⟨hk0.trans hm.1, hs0.trans hm.2⟩
              · simp only [List.mem_singleton] at h
                subst h
                have := hfin.2 e he hm.1
                have h2 : e.2.serial = t.2 := hm.2
                omega
            · have h1 := (hext _ hnew).1
              have h2 : e.2.serial = t.2 := hm.2
              omega
          · intro e he
            rcases List.mem_append.mp he with h | h
            · exact hev e h
            · obtain ⟨h1, h2⟩ := finish_age acc.1 x.1 r { status := .timeout } e h
              rw [h1, h2]
              refine ⟨rfl, ?_⟩
              -- the lookup found is an old one: its token says it was issued five ticks ago
              obtain ⟨_, _, _, _, _, _, extra, _, _, hext, hold⟩ := (show Grow st1 acc.1 from ⟨gn, by assumption, by assumption, by assumption, by assumption, gs, by assumption⟩)
              rcases hold (x.1, r) hmr with ⟨e0, he0, _, hb0, hs0⟩ | ⟨_, hnew⟩
              · have := hx.2 e0 he0 (hs0.trans hser)
                have hb0' : e0.2.born = r.born := hb0
                rw [gn]; omega
              · exfalso
                have h1 := (hext _ hnew).1
                have h2 : r.serial = x.2 := hser
                have h3 := hx.1
                have h4 : ((x.1, r) : Nat × Req).2.serial = r.serial := rfl
                omega
        · simp only [hser, if_false]
          refine ⟨hg, ?_, hev⟩
          intro t ht
          rcases List.mem_append.mp ht with h | h
          · exact hd t h
          · simp only [List.mem_singleton] at h
            subst h
            refine ⟨hx.1, ?_⟩
            intro e he hm
            have : e = (t.1, r) := key_inj acc.1.reqs hk he hmr hm.1
            rw [this] at hm
            exact hser hm.2
    have := ih (done ++ [x]) (onTimeout acc x) (fun t ht => hit t (List.mem_cons_of_mem _ ht))
      key.1 hpres.1 hpres.2 key.2.1 key.2.2
    simpa [List.foldl_cons, List.append_assoc] using this

/-- the tick proper: `st1` is `st` with the ring advanced by one slot, the new current slot
swapped out (`st.r1` is being walked, `st1.r0` is empty) and the clock advanced -/
theorem fold_timed (st st1 : St) (ht : Timed st) (hk : KU st) (ha : Acc st)
    (e0 : st1.r0 = []) (e1 : st1.r1 = st.r2) (e2 : st1.r2 = st.r3)
    (e3 : st1.r3 = st.r4) (e4 : st1.r4 = st.r0) (ev : st1.valueNumber = st.valueNumber - st.r1.length)
    (en : st1.now = st.now + 1) (er : st1.reqs = st.reqs) (es : st1.nextSerial = st.nextSerial)
    (ec : st1.called = st.called) (ecc : st1.cancelled = st.cancelled) (ef : st1.refused = st.refused) :
    Timed (st.r1.reverse.foldl onTimeout (st1, [])).1 ∧
    ∀ e ∈ (st.r1.reverse.foldl onTimeout (st1, [])).2, e.result.status = .timeout ∧ e.age = 5 := by
  obtain ⟨t1, t2, t3, t4, t5⟩ := ht
  have hk1 : KU st1 := by unfold KU; rw [er]; exact hk
  have ha1 : Acc st1 := by
    intro s hs
    rw [es] at hs
    rw [ec, ecc, ef, er]
    exact ha s hs
  have hit : ∀ t ∈ st.r1.reverse, t.2 < st1.nextSerial ∧ ∀ e ∈ st1.reqs, e.2.serial = t.2 → e.2.born + 5 = st1.now := by
    intro t htm
    have htm' : t ∈ slot st 4 := List.mem_reverse.mp htm
    refine ⟨by rw [es]; exact t4 4 (by omega) t htm', ?_⟩
    intro e he hs
    rw [er] at he
    have := t3 4 (by omega) t htm' e he hs
    have := (t1 e he).1
    rw [en]; omega
  obtain ⟨hg, hd, hev⟩ := foldl_onTimeout_grow (st1 := st1) st.r1.reverse [] (st1, []) hit (Grow.refl st1)
    hk1 ha1 (by simp) (by simp)
  refine ⟨?_, hev⟩
  generalize (List.foldl onTimeout (st1, []) st.r1.reverse).1 = fin at hg hd
  obtain ⟨hn, g1, g2, g3, g4, hs, extra, hx, hv, hext, he⟩ := hg
  -- an old entry of age 4 is gone: its own token was walked
  have gone : ∀ e ∈ fin.reqs, ∀ e0' ∈ st.reqs, e0'.1 = e.1 → e0'.2.serial = e.2.serial → st.now - e0'.2.born ≠ 4 := by
    intro e hmem e0' he0 hk' hs' h4
    have htok := (t1 e0' he0).2.2
    rw [h4] at htok
    have htok' : (e0'.1, e0'.2.serial) ∈ st.r1 := htok
    exact hd (e0'.1, e0'.2.serial) (by simpa using htok') e hmem ⟨hk'.symm, hs'.symm⟩
  refine ⟨?_, ?_, ?_, ?_, ?_⟩
  · intro e hmem
    rcases he e hmem with ⟨e0', he0, hk', hb, hse⟩ | ⟨hb, hk'⟩
    · rw [er] at he0
      obtain ⟨u1, u2, u3⟩ := t1 e0' he0
      have hold := gone e hmem e0' he0 hk' hse
      rw [hn, en, ← hb, ← hk', ← hse]
      refine ⟨by omega, by omega, ?_⟩
      have hsucc : st.now + 1 - e0'.2.born = (st.now - e0'.2.born) + 1 := by omega
      rw [hsucc]
      generalize st.now - e0'.2.born = a at u2 u3 hold
      have : a = 0 ∨ a = 1 ∨ a = 2 ∨ a = 3 := by omega
      rcases this with rfl | rfl | rfl | rfl
      · show _ ∈ fin.r4; rw [g4, e4]; exact u3
      · show _ ∈ fin.r3; rw [g3, e3]; exact u3
      · show _ ∈ fin.r2; rw [g2, e2]; exact u3
      · show _ ∈ fin.r1; rw [g1, e1]; exact u3
    · rw [hn, hb]
      refine ⟨Nat.le_refl _, by omega, ?_⟩
      rw [Nat.sub_self]
      show _ ∈ fin.r0
      rw [hx]; exact List.mem_append.mpr (Or.inl hk')
  · unfold ringLen at *
    rw [hv, hx, g1, g2, g3, g4, e0, e1, e2, e3, e4, ev, List.length_append]
    simp only [List.length_nil]
    omega
  · -- token ↔ age, after the rotation
    intro a ha5 t htok e hmem hser
    rw [hn, en]
    -- where does the token come from?
    have hsrc : (a = 0 ∧ t ∈ extra) ∨ (1 ≤ a ∧ t ∈ slot st (a - 1)) := by
      have : a = 0 ∨ a = 1 ∨ a = 2 ∨ a = 3 ∨ a = 4 := by omega
      rcases this with rfl | rfl | rfl | rfl | rfl
      · left
        have h' : t ∈ fin.r0 := htok
        rw [hx, e0, List.append_nil] at h'
        exact ⟨rfl, h'⟩
      · right; refine ⟨by omega, ?_⟩; show t ∈ st.r0; rw [← e4, ← g4]; exact htok
      · right; refine ⟨by omega, ?_⟩; show t ∈ st.r4; rw [← e3, ← g3]; exact htok
      · right; refine ⟨by omega, ?_⟩; show t ∈ st.r3; rw [← e2, ← g2]; exact htok
      · right; refine ⟨by omega, ?_⟩; show t ∈ st.r2; rw [← e1, ← g1]; exact htok
    rcases hsrc with ⟨ha0, hnew⟩ | ⟨ha1', hold⟩
    · rcases he e hmem with ⟨e0', he0, _, _, hse⟩ | ⟨hb, _⟩
      · exfalso
        rw [er] at he0
        have h1 := t5 e0' he0
        have h2 := (hext _ hnew).1
        rw [es] at h2
        have h3 : e.2.serial = t.2 := hser
        omega
      · rw [hb, en, ha0]; exact Nat.sub_self _
    · rcases he e hmem with ⟨e0', he0, _, hb, hse⟩ | ⟨_, hk'⟩
      · rw [er] at he0
        have := t3 (a - 1) (by omega) t hold e0' he0 (hse.trans hser)
        have := (t1 e0' he0).1
        rw [← hb]; omega
      · exfalso
        have h1 := (hext _ hk').1
        rw [es] at h1
        have h2 := t4 (a - 1) (by omega) t hold
        have h3 : e.2.serial = t.2 := hser
        omega
  · intro a ha5 t htok
    have : a = 0 ∨ a = 1 ∨ a = 2 ∨ a = 3 ∨ a = 4 := by omega
    have hle : st.nextSerial ≤ fin.nextSerial := by rw [← es]; exact hs
    rcases this with rfl | rfl | rfl | rfl | rfl
    · have h' : t ∈ fin.r0 := htok
      rw [hx, e0, List.append_nil] at h'
      exact (hext _ h').2
    · have h' : t ∈ st.r0 := by rw [← e4, ← g4]; exact htok
      exact Nat.lt_of_lt_of_le (t4 0 (by omega) t h') hle
    · have h' : t ∈ st.r4 := by rw [← e3, ← g3]; exact htok
      exact Nat.lt_of_lt_of_le (t4 1 (by omega) t h') hle
    · have h' : t ∈ st.r3 := by rw [← e2, ← g2]; exact htok
      exact Nat.lt_of_lt_of_le (t4 2 (by omega) t h') hle
    · have h' : t ∈ st.r2 := by rw [← e1, ← g1]; exact htok
      exact Nat.lt_of_lt_of_le (t4 3 (by omega) t h') hle
  · intro e hmem
    rcases he e hmem with ⟨e0', he0, _, _, hse⟩ | ⟨_, hk'⟩
    · rw [er] at he0
      rw [← hse]
      exact Nat.lt_of_lt_of_le (t5 e0' he0) (by rw [← es]; exact hs)
    · exact (hext _ hk').2

theorem tick_timed {st : St} (ht : Timed st) (hk : KU st) (ha : Acc st) :
    Timed (tick st).1 ∧ ∀ e ∈ (tick st).2, e.result.status = .timeout ∧ e.age = 5 := by
  unfold tick
  split
  · exact ⟨ht, by simp⟩
  · exact fold_timed st _ ht hk ha rfl rfl rfl rfl rfl (by simp) rfl rfl rfl rfl rfl rfl

/-- the combined invariant of a run -/
def RI (st : St) : Prop := Timed st ∧ KU st ∧ Acc st

/-- a callback is either a timeout at age exactly 5 or a non-timeout at age below 5 -/
def AgeOK (e : Event) : Prop :=
  (e.result.status = .timeout → e.age = 5) ∧ (e.result.status ≠ .timeout → e.age < 5)

theorem sockEvent_ri {st : St} (a : KAns) (h : RI st) :
    RI (sockEvent st a).1 ∧ ∀ e ∈ (sockEvent st a).2, AgeOK e := by
  obtain ⟨ht, hk, ha⟩ := h
  have hp := sockEvent_pres st a hk ha
  rcases sockEvent_cases st a with e | ⟨d, e⟩
  · rw [e]; exact ⟨⟨ht, hk, ha⟩, by simp⟩
  · rw [e] at hp ⊢
    refine ⟨⟨timed_of_grow ht (onRecv_grow st _), hp⟩, ?_⟩
    intro ev he
    have := onRecv_age _ ht ev he
    exact ⟨fun h => absurd h this.1, fun _ => this.2⟩

theorem sockRun_ri : ∀ (as : List KAns) {st : St}, RI st →
    RI (sockRun st as).1 ∧ ∀ e ∈ (sockRun st as).2, AgeOK e := by
  intro as
  induction as with
  | nil => intro st h; exact ⟨h, by simp [sockRun]⟩
  | cons a as ih =>
    intro st h
    have h1 := sockEvent_ri a h
    have h2 := ih h1.1
    refine ⟨h2.1, ?_⟩
    intro e he
    simp only [sockRun, List.mem_append] at he
    rcases he with he | he
    · exact h1.2 e he
    · exact h2.2 e he

theorem step_ri {st : St} (op : Op) (h : RI st) :
    RI (step st op).1 ∧ ∀ e ∈ (step st op).2.events, AgeOK e := by
  obtain ⟨ht, hk, ha⟩ := h
  have hp := step_pres st op hk ha
  cases op with
  | servers n => exact ⟨⟨ht, hp⟩, by simp [step]⟩
  | defScript acts => exact ⟨⟨ht, hp⟩, by simp [step]⟩
  | lookup sid => exact ⟨⟨timed_of_grow ht (lookup_grow st sid), hp⟩, by simp [step]⟩
  | cancel id => exact ⟨⟨timed_of_grow ht (cancel_grow st id), hp⟩, by simp [step]⟩
  | running id => exact ⟨⟨ht, hp⟩, by simp [step]⟩
  | recv d =>
    refine ⟨⟨timed_of_grow ht (onRecv_grow st d), hp⟩, ?_⟩
    intro e he
    have := onRecv_age d ht e he
    exact ⟨fun h => absurd h this.1, fun _ => this.2⟩
  | net d =>
    refine ⟨⟨timed_of_grow ht (onRecv_grow st (d.take 4096)), hp⟩, ?_⟩
    intro e he
    have := onRecv_age (d.take 4096) ht e he
    exact ⟨fun h => absurd h this.1, fun _ => this.2⟩
  | tick =>
    have := tick_timed ht hk ha
    refine ⟨⟨this.1, hp⟩, ?_⟩
    intro e he
    have := this.2 e he
    exact ⟨fun _ => this.2, fun h => absurd this.1 h⟩
  | lookupN name sid send => exact ⟨⟨timed_of_grow ht (lookup_grow st sid), hp⟩, by simp [step]⟩
  | sock as => exact sockRun_ri as ⟨ht, hk, ha⟩
  | recvAt k d =>
    refine ⟨⟨timed_of_grow ht (onRecv_grow st d), hp⟩, ?_⟩
    intro e he
    have := onRecv_age d ht e he
    exact ⟨fun h => absurd h this.1, fun _ => this.2⟩

theorem run_ri : ∀ (ops : List Op) (st : St), RI st →
    RI (run st ops).1 ∧ ∀ e ∈ allEvents (run st ops).2, AgeOK e := by
  intro ops
  induction ops with
  | nil => intro st h; exact ⟨h, by simp [run, allEvents]⟩
  | cons op ops ih =>
    intro st h
    have h1 := step_ri op h
    have h2 := ih _ h1.1
    refine ⟨by simpa [run] using h2.1, ?_⟩
    intro e he
    simp only [run, allEvents, List.flatMap_cons, List.mem_append] at he
    rcases he with he | he
    · exact h1.2 e he
    · exact h2.2 e he

theorem init_slot_empty (a : Nat) : slot init a = [] := by
  unfold slot
  split <;> rfl

theorem init_timed : Timed init := by
  refine ⟨by simp [init], by simp [init, ringLen], ?_, ?_, by simp [init]⟩
  · intro a _ t ht; rw [init_slot_empty] at ht; cases ht
  · intro a _ t ht; rw [init_slot_empty] at ht; cases ht

theorem init_ri : RI init :=
  ⟨init_timed, by simp [KU, init], by intro s hs; simp [init] at hs⟩

end Tbox.C15
