/-
C15 — specification-side definitions.

* `Decodes d hops pos first name`: what it means for `name` to be *encoded in datagram `d`*
  at offset `pos` (RFC 1035 §4.1.4 as this client reads it: labels joined by '.', a label is
  printed up to its first NUL, at most `maxHops` compression pointers in a row, every byte
  used lies inside the datagram).  `first = false` means a label was already printed, so the
  next piece is preceded by '.'.
* The history of an operation sequence as the property talks about it (which lookups had their
  callback run, which were cancelled while outstanding, which were refused) is kept by the model
  itself in the ghost fields `St.called / cancelled / refused`; the (decidable) side condition "no
  lookup was handed a 16-bit id that was still outstanding or still in the timeout ring" is the
  ghost flag `St.idReuse = false`.
-/
import TboxModel.C15.Model
namespace Tbox.C15

inductive Decodes (d : List Byte) : Nat → Nat → Bool → List Byte → Prop
  | root {hops pos : Nat} {first : Bool} :
      pos + 1 ≤ d.length → beNat (slice d pos 1) = 0 → Decodes d hops pos first []
  | label {hops pos : Nat} {first : Bool} {rest : List Byte} :
      pos + 1 ≤ d.length → beNat (slice d pos 1) ≠ 0 → beNat (slice d pos 1) / 64 ≠ 3 →
      pos + 1 + beNat (slice d pos 1) ≤ d.length →
      Decodes d hops (pos + 1 + beNat (slice d pos 1)) false rest →
      Decodes d hops pos first
        ((if first then [] else [46]) ++ (cstr (slice d (pos + 1) (beNat (slice d pos 1))) ++ rest))
  | pointer {hops pos : Nat} {first : Bool} {sub : List Byte} :
      pos + 2 ≤ d.length → beNat (slice d pos 1) / 64 = 3 → hops < maxHops →
      beNat (slice d pos 1) % 64 * 256 + beNat (slice d (pos + 1) 1) < d.length →
      Decodes d (hops + 1) (beNat (slice d pos 1) % 64 * 256 + beNat (slice d (pos + 1) 1)) true sub →
      Decodes d hops pos first ((if first then [] else [46]) ++ sub)

/-- an address reported from offset `off` really is the rdata of an A record lying completely
inside the datagram: type field 1 ten bytes before, ttl six bytes before, four address bytes -/
def AddrEncoded (d : List Byte) (r : ARec) : Prop :=
  10 ≤ r.off ∧ r.off + 4 ≤ d.length ∧ r.ip = slice d r.off 4 ∧
  beNat (slice d (r.off - 10) 2) = 1 ∧ r.ttl = beNat (slice d (r.off - 6) 4)

/-- a reported CNAME is encoded somewhere in the datagram -/
def NameEncoded (d : List Byte) (r : CRec) : Prop :=
  ∃ pos, Decodes d 0 pos true r.name

end Tbox.C15
