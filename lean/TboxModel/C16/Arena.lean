/-
C16 — arena model: ALL machine objects of a case in one store, so that everything the C++
allows is expressible: a callback calling `start/stop/restart/run` or the observers on ANY
machine (parent, sub-machine, sibling, unrelated), calls addressed directly to a sub-machine,
one machine object attached to several states, definition calls after a machine has run.

`state_machine.cpp` is transcribed statement by statement; every member access after a callback
re-reads the store (a nested call may have changed it).  A `StateMachine*` is the index of the
object; `curr_state_->…` on `nullptr` / `sub_sm->…` on `nullptr` is `unmodelled` (the C++ has
undefined behaviour there).  A method invocation — from the harness, from a script, or
`sub_sm->start()/run()/stop()` — is `rec`; `aCall` ties the knot with a fuel that bounds the depth
of nested invocations (out of fuel = `oof`, printed `FOREIGN`; the driver gives `2·#machines + 4`;
`#machines + 1` suffices: `C16_arena_fuel_suffices`).

`Fix` selects the code: `⟨true, true⟩` = /repo with patches C16-01 and C16-02 (what the driver
runs), `⟨true, false⟩` = C16-01 only (the tree as found in round 2).
-/
import TboxModel.C16.Rt
namespace Tbox.C16

abbrev ARec := MachOf Rt Nat
abbrev Arena := List ARec

structure AEv where
  mid : Nat
  kind : Kind
deriving Repr, DecidableEq

abbrev ATrace := List AEv

namespace Arena

def dummy : ARec := { mid := 0, init := -1, states := [], cb := none, rt := {} }
def get (g : Arena) (k : Nat) : ARec := g.getD k dummy
def updRt (g : Arena) (k : Nat) (f : Rt → Rt) : Arena :=
  match g[k]? with
  | some m => g.set k { m with rt := f m.rt }
  | none => g
def view (g : Arena) (k : Nat) : View := (g.get k).rt.view
def incLevel (g : Arena) (k : Nat) : Arena := g.updRt k fun rt => { rt with cbLevel := rt.cbLevel + 1 }
def decLevel (g : Arena) (k : Nat) : Arena := g.updRt k fun rt => { rt with cbLevel := rt.cbLevel - 1 }

/-- `curr_state_` of machine `k` as a `State` object (`none` = `nullptr`) -/
def curState (g : Arena) (k : Nat) : Option (StateDef Nat) :=
  (g.get k).rt.curr.map fun c => (g.get k).stateOf c

end Arena

open Arena

abbrev Rec := Arena → Nat → Call → Arena × Bool × ATrace

def aScript (rec : Rec) (self : Nat) : Arena → Script → Arena × ATrace
  | g, [] => (g, [])
  | g, .obs t :: rest =>
    let r := aScript rec self g rest
    (r.1, ⟨self, .obs t (g.view (t.getD self))⟩ :: r.2)
  | g, .call t c :: rest =>
    let k := t.getD self
    let x := rec g k c
    let r := aScript rec self x.1 rest
    (r.1, x.2.2 ++ ⟨self, .call t c x.2.1 (g.view k) (x.1.view k)⟩ :: r.2)

/-- `if (f) f(event)` -/
def aProbe (rec : Rec) (self : Nat) (g : Arena) (mk : Bool → Kind) (p : Option Script) : Arena × ATrace :=
  match p with
  | none => (g, [⟨self, mk false⟩])
  | some sc => let r := aScript rec self g sc; (r.1, ⟨self, mk true⟩ :: r.2)

def unm (k : Nat) : ATrace := [⟨k, .unmodelled⟩]

/-- out of fuel (in the arena model `.foreign` is used for nothing else; the driver prints it as
`FOREIGN k`, which the harness never prints).  Theorem `C16_arena_fuel_suffices`: with more fuel
than machine objects this is never produced. -/
def oof (k : Nat) : ATrace := [⟨k, .foreign k⟩]

/-- `curr_state_->sub_sm-><method>()` guarded by `if (curr_state_->sub_sm != nullptr)` -/
def aSubCall (rec : Rec) (g : Arena) (k : Nat) (c : Call) : Arena × ATrace :=
  match g.curState k with
  | none => (g, unm k)
  | some cs =>
    match cs.sub with
    | none => (g, [])
    | some j => let r := rec g j c; (r.1, r.2.2)

/-- `Impl::start()` -/
def aStart (fix : Fix) (rec : Rec) (g : Arena) (k : Nat) : Arena × Bool × ATrace :=
  let m := g.get k
  match startReject m.rt with
  | some r => (g, r, [])
  | none =>
    match m.findState m.init with
    | none => (g, false, [])
    | some st =>
      let g1 := (g.updRt k fun rt => { rt with running := true, curr := some st.id }).incLevel k
      let p := aProbe rec k g1 (.enter st.id ev0) st.enter
      if fix.holdGuard then
        let s := aSubCall rec p.1 k .start
        (s.1.decLevel k, true, p.2 ++ s.2)
      else
        let s := aSubCall rec (p.1.decLevel k) k .start
        (s.1, true, p.2 ++ s.2)

/-- `curr_state_->exit_action` with the event -/
def aExit (rec : Rec) (g : Arena) (k : Nat) (e : Event) : Arena × ATrace :=
  match g.curState k with
  | none => (g, unm k)
  | some cs => aProbe rec k g (.exit cs.id e) cs.exit

/-- `Impl::stop()` -/
def aStop (fix : Fix) (rec : Rec) (g : Arena) (k : Nat) : Arena × ATrace :=
  match stopReject (g.get k).rt with
  | some _ => (g, [])
  | none =>
    let d : Arena × ATrace :=
      if fix.holdGuard then
        let g1 := g.incLevel k
        let s := if fix.stopSub then aSubCall rec g1 k .stop else (g1, [])
        let x := aExit rec s.1 k ev0
        (x.1.decLevel k, s.2 ++ x.2)
      else
        let s := if fix.stopSub then aSubCall rec g k .stop else (g, [])
        let x := aExit rec (s.1.incLevel k) k ev0
        (x.1.decLevel k, s.2 ++ x.2)
    (d.1.updRt k fun rt => { rt with curr := none, running := false }, d.2)

/-- the `std::find_if` over `routes`; guards are callbacks -/
def aRouteScan (rec : Rec) (k : Nat) (sid : StateId) (e : Event) : Nat → Arena → List Route → Arena × Option (Nat × Route) × ATrace
  | _, g, [] => (g, none, [])
  | i, g, r :: rs =>
    if !r.matchesEvent e then aRouteScan rec k sid e (i + 1) g rs
    else
      match r.guard with
      | none => (g, some (i, r), [])
      | some gd =>
        let s := aScript rec k g gd.script
        let t : ATrace := ⟨k, .guard sid i e (gd.eval e)⟩ :: s.2
        if gd.eval e then (s.1, some (i, r), t)
        else
          let x := aRouteScan rec k sid e (i + 1) s.1 rs
          (x.1, x.2.1, t ++ x.2.2)

/-- the block "如果有子状态机，则给子状态机处理" of `run()`; `some ret` = `return ret` -/
def aDelegate (fix : Fix) (rec : Rec) (g : Arena) (k : Nat) (e : Event) : Arena × Option Bool × ATrace :=
  match g.curState k with
  | none => (g, some false, unm k)
  | some cs =>
    match cs.sub with
    | none => (g, none, [])
    | some j =>
      let g0 := if fix.holdGuard then g.incLevel k else g
      let r := rec g0 j (.run e)
      -- `curr_state_->sub_sm->isTerminated()`: members are read again
      match r.1.curState k with
      | none => (r.1, some false, r.2.2 ++ unm k)
      | some cs1 =>
        match cs1.sub with
        | none => (r.1, some false, r.2.2 ++ unm k)
        | some j1 =>
          let term := (r.1.get j1).rt.curr == some 0
          if !term then ((if fix.holdGuard then r.1.decLevel k else r.1), some r.2.1, r.2.2)
          else
            let s := aSubCall rec r.1 k .stop
            ((if fix.holdGuard then s.1.decLevel k else s.1), none, r.2.2 ++ s.2)

/-- the event-handler block of `run()`: `events.find(event.id)`, else `default_event`; `-1` = no handler / no target -/
def aHandlers (rec : Rec) (g : Arena) (k : Nat) (cs : StateDef Nat) (e : Event) : Arena × Int × ATrace :=
  let g1 := g.incLevel k
  let h : Arena × Int × ATrace :=
    match cs.events.find? (fun p => p.1 == e.id) with
    | some p => let s := aScript rec k g1 p.2.script
                (s.1, p.2.eval e, ⟨k, .handler cs.id (some p.1) e (p.2.eval e)⟩ :: s.2)
    | none =>
      match cs.dflt with
      | some hd => let s := aScript rec k g1 hd.script
                   (s.1, hd.eval e, ⟨k, .handler cs.id none e (hd.eval e)⟩ :: s.2)
      | none => (g1, -1, [])
  (h.1.decLevel k, h.2.1, h.2.2)

/-- target selection: the handler's answer, else the route scan (`none` = `return false`) -/
def aSelect (rec : Rec) (g2 : Arena) (k : Nat) (e : Event) (hret : Int) :
    Arena × Option (StateId × Option Nat × Option Script) × ATrace :=
  if hret < 0 then
    match g2.curState k with
    | none => (g2, none, unm k)
    | some cs2 =>
      let sc := aRouteScan rec k cs2.id e 0 (g2.incLevel k) cs2.routes
      match sc.2.1 with
      | none => (sc.1.decLevel k, none, sc.2.2)
      | some (i, r) => (sc.1.decLevel k, some (r.to, some i, r.action), sc.2.2)
  else (g2, some (hret, none, none), [])

/-- `if (curr_state_->sub_sm != nullptr) { …; curr_state_->sub_sm->run(event); }` (second statement of the block) -/
def aSubRun (rec : Rec) (g : Arena) (k : Nat) (e : Event) : Arena × ATrace :=
  match g.curState k with
  | some c1 => if c1.sub.isSome then aSubCall rec g k (.run e) else (g, [])
  | none => (g, [])

/-- the tail of `run()` from `next_state_ = findState(next_state_id)` on -/
def aTransition (rec : Rec) (g3 : Arena) (k : Nat) (e : Event) (nextId : StateId) (ridx : Option Nat)
    (action : Option Script) : Arena × Bool × ATrace :=
  match (g3.get k).resolve nextId with
  | none => (g3.updRt k fun rt => { rt with next := none }, false, [])       -- "Should not happen"
  | some ts =>
    let g4 := (g3.updRt k fun rt => { rt with next := some ts.id }).incLevel k
    let x := aExit rec g4 k e
    -- last_state_ = curr_state_; curr_state_ = nullptr;
    let src : StateId := optInt (x.1.get k).rt.curr
    let g5 := x.1.updRt k fun rt => { rt with last := rt.curr, curr := none }
    let a := aProbe rec k g5 (.action src ridx e) action
    -- curr_state_ = next_state_; next_state_ = nullptr;
    let g6 := a.1.updRt k fun rt => { rt with curr := rt.next, next := none }
    match g6.curState k with
    | none => (g6, false, x.2 ++ a.2 ++ unm k)
    | some ns =>
      let en := aProbe rec k g6 (.enter ns.id e) ns.enter
      -- state_changed_cb_(last_state_->id, curr_state_->id, event)
      let m7 := en.1.get k
      let cb := aProbe rec k en.1 (.notify (optInt m7.rt.last) (optInt m7.rt.curr) e) m7.cb
      -- curr_state_->sub_sm->start(); curr_state_->sub_sm->run(event);
      let s1 := aSubCall rec cb.1 k .start
      let s2 := aSubRun rec s1.1 k e
      (s2.1.decLevel k, true, x.2 ++ a.2 ++ en.2 ++ cb.2 ++ s1.2 ++ s2.2)

/-- `Impl::run(Event)` -/
def aRun (fix : Fix) (rec : Rec) (g : Arena) (k : Nat) (e : Event) : Arena × Bool × ATrace :=
  match runReject (g.get k).rt with
  | some r => (g, r, [])
  | none =>
    let d := aDelegate fix rec g k e
    match d.2.1 with
    | some ret => (d.1, ret, d.2.2)
    | none =>
      match d.1.curState k with
      | none => (d.1, false, d.2.2 ++ unm k)
      | some cs =>
        let h := aHandlers rec d.1 k cs e
        let sel := aSelect rec h.1 k e h.2.1
        let pre := d.2.2 ++ h.2.2 ++ sel.2.2
        match sel.2.1 with
        | none => (sel.1, false, pre)
        | some (nextId, ridx, action) =>
          let t := aTransition rec sel.1 k e nextId ridx action
          (t.1, t.2.1, pre ++ t.2.2)

/-- a method invocation on machine `k`, with at most `fuel` nested invocations below it -/
def aCall (fix : Fix) : Nat → Rec
  | 0, g, k, _ => (g, false, oof k)
  | f + 1, g, k, c =>
    if k ≥ g.length then (g, false, unm k) else
    match c with
    | .start => aStart fix (aCall fix f) g k
    | .stop => let r := aStop fix (aCall fix f) g k; (r.1, false, r.2)
    | .restart =>
        let s := aStop fix (aCall fix f) g k
        let r := aStart fix (aCall fix f) s.1 k
        (r.1, r.2.1, s.2 ++ r.2.2)
    | .run e => aRun fix (aCall fix f) g k e
    | .defn _ => (g, false, [])       -- no table of definition calls here: `dCall` (ArenaDef.lean)

def fuelFor (g : Arena) : Nat := 2 * g.length + 4

/-! ### the definition API as coded (with the `is_running_` checks) -/
namespace Def

def guarded (g : Arena) (k : Nat) (f : ARec → ARec × Bool) : Arena × Bool :=
  match g[k]? with
  | none => (g, false)
  | some m =>
    if m.rt.running then (g, false)
    else let r := f m; (g.set k r.1, r.2)

def always (g : Arena) (k : Nat) (f : ARec → ARec) : Arena :=
  match g[k]? with
  | none => g
  | some m => g.set k (f m)

end Def

end Tbox.C16
