/-
C16 — arena model with definition calls issued while the machines run: the fuel of `dCall tpl`
suffices, for every table.  The argument of ArenaFuel.lean does not look at the attachment
structure at all (so `setSubStateMachine` entries of the table creating attachment cycles at run time
change nothing): an accepted invocation makes its machine busy for its whole duration, busy machines
reject (`good_dCall`), definition calls invoke nothing; so the nesting depth of accepted invocations
is bounded by the number of idle machine objects.
-/
import TboxModel.C16.ArenaDProofs
import TboxModel.C16.ArenaFuel
set_option linter.unusedSimpArgs false
set_option linter.unusedVariables false
set_option linter.unusedSectionVars false
namespace Tbox.C16
namespace AD
open Arena AI

theorem sub_of_presD {g g' : Arena} {tr : ATrace} (h : PresD none g g' tr) : Sub g g' :=
  ⟨h.len, fun j hb => (frozen_rtD h hb).2.2⟩

theorem sub_of_presXD {g g' : Arena} {tr : ATrace} {k : Nat} (h : PresD (some k) g g' tr) (hk : busy g k → busy g' k) : Sub g g' := by
  refine ⟨h.len, fun j hb => ?_⟩
  by_cases hj : j = k
  · subst hj; exact hk hb
  · exact busy_of_rt (h.frozen j (by simpa using hj) hb).1 hb

/-- entering a method of the idle machine `k` -/
theorem enter_coverD {g g1 : Arena} {tr : ATrace} {k f : Nat} {S : List Nat} (PX : PresD (some k) g g1 tr) (hb1 : busy g1 k)
    (hk : k < g.length) (hi : ¬ busy g k) (hc : Cover g S) (hS : S.length < f + 1) :
    Cover g1 (S.erase k) ∧ (S.erase k).length < f := by
  have hkS : k ∈ S := hc k hk (by unfold busy at hi; simpa using hi)
  refine ⟨?_, by rw [List.length_erase_of_mem hkS]; have := List.length_pos_of_mem hkS; omega⟩
  intro j hj hi1
  have hjk : j ≠ k := by intro h; subst h; exact hb1 hi1
  have : (g.get j).rt.cbLevel = 0 := by
    apply Classical.byContradiction
    intro hn
    have := (PX.frozen j (by simpa using hjk) hn).1
    rw [← this] at hn; exact hn hi1
  exact (List.mem_erase_of_ne hjk).2 (hc j (by rw [← PX.len]; exact hj) this)

/-- steps of machine `k`'s own code (no `running` needed): the busy machines stay busy -/
theorem probe_sub (rec : Rec) (hg : GoodD rec) (k : Nat) (g : Arena) (mk : Bool → Kind) (p : Option Script) (hb : busy g k) :
    Sub g (aProbe rec k g mk p).1 ∧ busy (aProbe rec k g mk p).1 k := by
  obtain ⟨tr', _, P⟩ := aProbe_presD rec hg k g mk p hb
  exact ⟨sub_of_presD P, (frozen_rtD P hb).2.2⟩

theorem subcall_sub (rec : Rec) (hg : GoodD rec) (k : Nat) (g : Arena) (c : Call) (hb : busy g k) :
    Sub g (aSubCall rec g k c).1 ∧ busy (aSubCall rec g k c).1 k :=
  have P := aSubCall_presD rec hg g k c
  ⟨sub_of_presD P, (frozen_rtD P hb).2.2⟩

theorem exit_sub (rec : Rec) (hg : GoodD rec) (k : Nat) (g : Arena) (e : Event) (hb : busy g k) :
    Sub g (aExit rec g k e).1 ∧ busy (aExit rec g k e).1 k := by
  unfold aExit
  split
  · exact ⟨Sub.refl g, hb⟩
  · exact probe_sub rec hg k g _ _ hb

section Pieces
variable (rec : Rec) (hg : GoodD rec) (f : Nat) (FO : FOk rec f)
include hg FO

theorem nof_scriptD (self : Nat) : ∀ (sc : Script) (g : Arena) (S : List Nat), Cover g S → S.length < f → busy g self →
    NoF (aScript rec self g sc).2
  | [], g, S, _, _, _ => nof_nil
  | .obs t :: rest, g, S, hc, hS, hb => by
    simp only [aScript]
    exact nof_cons (fun t h => by cases h) (nof_scriptD self rest g S hc hS hb)
  | .call t c :: rest, g, S, hc, hS, hb => by
    simp only [aScript]
    have hx := (hg g (t.getD self) c).1
    refine nof_append (FO g _ c S hc hS) (nof_cons (fun t h => by cases h) ?_)
    exact nof_scriptD self rest _ S (cover_sub (sub_of_presD hx) hc) hS (frozen_rtD hx hb).2.2

theorem nof_probeD (k : Nat) (g : Arena) (mk : Bool → Kind) (p : Option Script) (S : List Nat) (hc : Cover g S) (hS : S.length < f)
    (hb : busy g k) (hmk : ∀ b t, mk b ≠ .foreign t) : NoF (aProbe rec k g mk p).2 := by
  cases p with
  | none => exact nof_cons (hmk _) nof_nil
  | some sc => exact nof_cons (hmk _) (nof_scriptD rec hg f FO k sc g S hc hS hb)

theorem nof_subcallD (k : Nat) (g : Arena) (c : Call) (S : List Nat) (hc : Cover g S) (hS : S.length < f) :
    NoF (aSubCall rec g k c).2 := by
  unfold aSubCall
  split
  · exact nof_unm k
  · split
    · exact nof_nil
    · exact FO g _ c S hc hS

theorem nof_exitD (k : Nat) (g : Arena) (e : Event) (S : List Nat) (hc : Cover g S) (hS : S.length < f) (hb : busy g k) :
    NoF (aExit rec g k e).2 := by
  unfold aExit
  split
  · exact nof_unm k
  · exact nof_probeD rec hg f FO k g _ _ S hc hS hb (fun b t h => by cases h)

theorem nof_subRunD (k : Nat) (g : Arena) (e : Event) (S : List Nat) (hc : Cover g S) (hS : S.length < f) :
    NoF (aSubRun rec g k e).2 := by
  unfold aSubRun
  split
  · split
    · exact nof_subcallD rec hg f FO k g _ S hc hS
    · exact nof_nil
  · exact nof_nil

theorem nof_routeScanD (k : Nat) (sid : StateId) (e : Event) : ∀ (rs : List Route) (i : Nat) (g : Arena) (S : List Nat),
    Cover g S → S.length < f → busy g k → NoF (aRouteScan rec k sid e i g rs).2.2
  | [], i, g, S, _, _, _ => nof_nil
  | r :: rs, i, g, S, hc, hS, hb => by
    unfold aRouteScan
    split
    · exact nof_routeScanD k sid e rs (i + 1) g S hc hS hb
    · cases hgd : r.guard with
      | none => exact nof_nil
      | some gd =>
        simp only []
        have N := nof_scriptD rec hg f FO k gd.script g S hc hS hb
        have P := aScript_presD rec hg k gd.script g hb
        split
        · exact nof_cons (fun t h => by cases h) N
        · refine nof_cons (fun t h => by cases h) (nof_append N ?_)
          exact nof_routeScanD k sid e rs (i + 1) _ S (cover_sub (sub_of_presD P) hc) hS (frozen_rtD P hb).2.2

theorem nof_startD (g : Arena) (k : Nat) (hk : k < g.length) (S : List Nat) (hc : Cover g S) (hS : S.length < f + 1) :
    NoF (aStart Fix.all rec g k).2.2 := by
  unfold aStart
  simp only []
  cases h1 : startReject (g.get k).rt with
  | some r => exact nof_nil
  | none =>
    have h0 := startReject_none h1
    have hidle : ¬ busy g k := by unfold busy; simp [h0.2]
    cases h2 : (g.get k).findState (g.get k).init with
    | none => exact nof_nil
    | some st =>
      simp only [Fix.all, if_true]
      have hlen0 : k < (g.updRt k fun rt => { rt with running := true, curr := some st.id }).length := by
        rw [length_updRt]; exact hk
      have hb1 := busy_inc _ k hlen0
      have P1 : PresD (some k) g ((g.updRt k fun rt => { rt with running := true, curr := some st.id }).incLevel k) [] :=
        ((presD_updRt g k _).trans (presD_inc _ k)).of_eq rfl
      generalize ((g.updRt k fun rt => { rt with running := true, curr := some st.id }).incLevel k) = g1 at hb1 P1
      have C1 := enter_coverD P1 hb1 hk hidle hc hS
      have PS := probe_sub rec hg k g1 (.enter st.id ev0) st.enter hb1
      have N1 := nof_probeD rec hg f FO k g1 (.enter st.id ev0) st.enter _ C1.1 C1.2 hb1 (fun b t h => by cases h)
      generalize aProbe rec k g1 (.enter st.id ev0) st.enter = p at PS N1
      have C2 := cover_sub PS.1 C1.1
      exact nof_append N1 (nof_subcallD rec hg f FO k p.1 .start _ C2 C1.2)

theorem nof_stopD (g : Arena) (k : Nat) (hk : k < g.length) (S : List Nat) (hc : Cover g S) (hS : S.length < f + 1) :
    NoF (aStop Fix.all rec g k).2 := by
  unfold aStop
  simp only []
  cases h1 : stopReject (g.get k).rt with
  | some r => exact nof_nil
  | none =>
    have h0 := stopReject_none h1
    have hidle : ¬ busy g k := by unfold busy; simp [h0.2]
    simp only [Fix.all, if_true]
    have hb1 := busy_inc g k hk
    have P1 := presD_inc g k
    generalize g.incLevel k = g1 at hb1 P1
    have C1 := enter_coverD P1 hb1 hk hidle hc hS
    have SS := subcall_sub rec hg k g1 .stop hb1
    have N1 := nof_subcallD rec hg f FO k g1 .stop _ C1.1 C1.2
    generalize aSubCall rec g1 k .stop = s at SS N1
    have C2 := cover_sub SS.1 C1.1
    exact nof_append N1 (nof_exitD rec hg f FO k s.1 ev0 _ C2 C1.2 SS.2)

theorem nof_delegateD (g : Arena) (k : Nat) (e : Event) (hk : k < g.length) (hidle : ¬ busy g k) (S : List Nat) (hc : Cover g S)
    (hS : S.length < f + 1) : NoF (aDelegate Fix.all rec g k e).2.2 := by
  unfold aDelegate
  split
  · exact nof_unm k
  · split
    · exact nof_nil
    · rename_i j _
      simp only [Fix.all, if_true]
      have hb0 := busy_inc g k hk
      have P0 := presD_inc g k
      generalize g.incLevel k = g0 at hb0 P0
      have C0 := enter_coverD P0 hb0 hk hidle hc hS
      have R := (hg g0 j (.run e)).1
      have N0 := FO g0 j (.run e) _ C0.1 C0.2
      generalize rec g0 j (.run e) = r at R N0
      have C1 := cover_sub (sub_of_presD R) C0.1
      split
      · exact nof_append N0 (nof_unm k)
      · split
        · exact nof_append N0 (nof_unm k)
        · split
          · exact N0
          · exact nof_append N0 (nof_subcallD rec hg f FO k r.1 .stop _ C1 C0.2)

theorem nof_handlersD (g : Arena) (k : Nat) (cs : StateDef Nat) (e : Event) (hk : k < g.length) (hidle : ¬ busy g k) (S : List Nat)
    (hc : Cover g S) (hS : S.length < f + 1) : NoF (aHandlers rec g k cs e).2.2 := by
  unfold aHandlers
  simp only []
  have hb0 := busy_inc g k hk
  have P0 := presD_inc g k
  generalize g.incLevel k = g1 at hb0 P0
  have C0 := enter_coverD P0 hb0 hk hidle hc hS
  split
  · exact nof_cons (fun t h => by cases h) (nof_scriptD rec hg f FO k _ g1 _ C0.1 C0.2 hb0)
  · split
    · exact nof_cons (fun t h => by cases h) (nof_scriptD rec hg f FO k _ g1 _ C0.1 C0.2 hb0)
    · exact nof_nil

theorem nof_selectD (g : Arena) (k : Nat) (e : Event) (hret : Int) (hk : k < g.length) (hidle : ¬ busy g k) (S : List Nat)
    (hc : Cover g S) (hS : S.length < f + 1) : NoF (aSelect rec g k e hret).2.2 := by
  unfold aSelect
  split
  · split
    · exact nof_unm k
    · rename_i cs2 _
      simp only []
      have hb0 := busy_inc g k hk
      have P0 := presD_inc g k
      generalize g.incLevel k = g1 at hb0 P0
      have C0 := enter_coverD P0 hb0 hk hidle hc hS
      have N := nof_routeScanD rec hg f FO k cs2.id e cs2.routes 0 g1 _ C0.1 C0.2 hb0
      split
      · exact N
      · exact N
  · exact nof_nil

theorem nof_transitionD (g : Arena) (k : Nat) (e : Event) (nextId : StateId) (ridx : Option Nat) (action : Option Script)
    (hk : k < g.length) (hidle : ¬ busy g k) (S : List Nat) (hc : Cover g S) (hS : S.length < f + 1) :
    NoF (aTransition rec g k e nextId ridx action).2.2 := by
  unfold aTransition
  split
  · exact nof_nil
  · rename_i ts _
    simp only []
    have hlen0 : k < (g.updRt k fun rt => { rt with next := some ts.id }).length := by rw [length_updRt]; exact hk
    have hb4 := busy_inc _ k hlen0
    have P4 : PresD (some k) g ((g.updRt k fun rt => { rt with next := some ts.id }).incLevel k) [] :=
      ((presD_updRt g k _).trans (presD_inc _ k)).of_eq rfl
    generalize ((g.updRt k fun rt => { rt with next := some ts.id }).incLevel k) = g4 at hb4 P4
    have C4 := enter_coverD P4 hb4 hk hidle hc hS
    have X := exit_sub rec hg k g4 e hb4
    have NX := nof_exitD rec hg f FO k g4 e _ C4.1 C4.2 hb4
    generalize aExit rec g4 k e = x at X NX
    have hlx : k < x.1.length := by rw [X.1.1, P4.len]; exact hk
    have CX := cover_sub X.1 C4.1
    have hb5 := busy_updRt_level x.1 k (fun rt => { rt with last := rt.curr, curr := none }) hlx (fun _ => rfl) X.2
    have P5 := presD_updRt x.1 k (fun rt => { rt with last := rt.curr, curr := none })
    generalize (optInt (x.1.get k).rt.curr) = src
    generalize x.1.updRt k (fun rt => { rt with last := rt.curr, curr := none }) = g5 at hb5 P5
    have C5 := cover_sub (sub_of_presXD P5 (fun _ => hb5)) CX
    have A := probe_sub rec hg k g5 (.action src ridx e) action hb5
    have NA := nof_probeD rec hg f FO k g5 (.action src ridx e) action _ C5 C4.2 hb5 (fun b t h => by cases h)
    generalize aProbe rec k g5 (.action src ridx e) action = a at A NA
    have hla : k < a.1.length := by rw [A.1.1, P5.len]; exact hlx
    have CA := cover_sub A.1 C5
    have hb6 := busy_updRt_level a.1 k (fun rt => { rt with curr := rt.next, next := none }) hla (fun _ => rfl) A.2
    have P6 := presD_updRt a.1 k (fun rt => { rt with curr := rt.next, next := none })
    generalize a.1.updRt k (fun rt => { rt with curr := rt.next, next := none }) = g6 at hb6 P6
    have C6 := cover_sub (sub_of_presXD P6 (fun _ => hb6)) CA
    split
    · exact nof_append (nof_append NX NA) (nof_unm k)
    · rename_i ns _
      simp only []
      have EN := probe_sub rec hg k g6 (.enter ns.id e) ns.enter hb6
      have NEN := nof_probeD rec hg f FO k g6 (.enter ns.id e) ns.enter _ C6 C4.2 hb6 (fun b t h => by cases h)
      generalize aProbe rec k g6 (.enter ns.id e) ns.enter = en at EN NEN
      have CEN := cover_sub EN.1 C6
      have CB := probe_sub rec hg k en.1 (.notify (optInt (en.1.get k).rt.last) (optInt (en.1.get k).rt.curr) e) (en.1.get k).cb EN.2
      have NCB := nof_probeD rec hg f FO k en.1 (.notify (optInt (en.1.get k).rt.last) (optInt (en.1.get k).rt.curr) e) (en.1.get k).cb _ CEN C4.2 EN.2 (fun b t h => by cases h)
      generalize aProbe rec k en.1 (.notify (optInt (en.1.get k).rt.last) (optInt (en.1.get k).rt.curr) e) (en.1.get k).cb = cb at CB NCB
      have CCB := cover_sub CB.1 CEN
      have S1 := subcall_sub rec hg k cb.1 .start CB.2
      have NS1 := nof_subcallD rec hg f FO k cb.1 .start _ CCB C4.2
      generalize aSubCall rec cb.1 k .start = s1 at S1 NS1
      have CS1 := cover_sub S1.1 CCB
      have NS2 := nof_subRunD rec hg f FO k s1.1 e _ CS1 C4.2
      exact nof_append (nof_append (nof_append (nof_append (nof_append NX NA) NEN) NCB) NS1) NS2

theorem nof_runD (g : Arena) (k : Nat) (e : Event) (hk : k < g.length) (S : List Nat) (hc : Cover g S) (hS : S.length < f + 1) :
    NoF (aRun Fix.all rec g k e).2.2 := by
  unfold aRun
  cases h1 : runReject (g.get k).rt with
  | some r => exact nof_nil
  | none =>
    have h0 := runReject_none h1
    have hidle : ¬ busy g k := by unfold busy; simp [h0.2]
    simp only []
    have D : QStepD k g (aDelegate Fix.all rec g k e).1 (aDelegate Fix.all rec g k e).2.2 := aDelegate_presXD rec hg g k e hk h0.1
    have ND := nof_delegateD rec hg f FO g k e hk hidle S hc hS
    generalize aDelegate Fix.all rec g k e = d at D ND
    have hld : k < d.1.length := by rw [D.1.len]; exact hk
    have hid : ¬ busy d.1 k := by unfold busy; rw [D.2.1]; exact hidle
    have CD := cover_sub (sub_of_presXD D.1 (fun hb => absurd hb hidle)) hc
    split
    · exact ND
    · split
      · exact nof_append ND (nof_unm k)
      · rename_i cs _
        have H : QStepD k d.1 (aHandlers rec d.1 k cs e).1 (aHandlers rec d.1 k cs e).2.2 := aHandlers_presXD rec hg d.1 k cs e hld (by rw [D.2.1]; exact h0.1)
        have NH := nof_handlersD rec hg f FO d.1 k cs e hld hid S CD hS
        generalize aHandlers rec d.1 k cs e = h at H NH
        have hlh : k < h.1.length := by rw [H.1.len]; exact hld
        have hih : ¬ busy h.1 k := by unfold busy; rw [H.2.1]; exact hid
        have CH := cover_sub (sub_of_presXD H.1 (fun hb => absurd hb hid)) CD
        have SL : QStepD k h.1 (aSelect rec h.1 k e h.2.1).1 (aSelect rec h.1 k e h.2.1).2.2 := aSelect_presXD rec hg h.1 k e h.2.1 hlh (by rw [H.2.1, D.2.1]; exact h0.1)
        have NSL := nof_selectD rec hg f FO h.1 k e h.2.1 hlh hih S CH hS
        generalize aSelect rec h.1 k e h.2.1 = sel at SL NSL
        have hls : k < sel.1.length := by rw [SL.1.len]; exact hlh
        have his : ¬ busy sel.1 k := by unfold busy; rw [SL.2.1]; exact hih
        have CS := cover_sub (sub_of_presXD SL.1 (fun hb => absurd hb hih)) CH
        split
        · exact nof_append (nof_append ND NH) NSL
        · rename_i nextId ridx action _
          simp only []
          exact nof_append (nof_append (nof_append ND NH) NSL) (nof_transitionD rec hg f FO sel.1 k e nextId ridx action hls his S CS hS)

end Pieces

/-- with fuel greater than the number of idle machine objects no invocation runs out of fuel, for
every table of definition calls -/
theorem fuel_okD (tpl : Tpl) : ∀ f, FOk (dCall tpl f) f
  | 0 => fun g k c S _ hS => absurd hS (Nat.not_lt_zero _)
  | f + 1 => by
    have ih := fuel_okD tpl f
    have hg := good_dCall tpl f
    intro g k c S hc hS
    unfold dCall
    split
    · exact nof_unm k
    · rename_i hk
      have hk : k < g.length := Nat.lt_of_not_le hk
      cases c with
      | start => exact nof_startD _ hg f ih g k hk S hc hS
      | stop => exact nof_stopD _ hg f ih g k hk S hc hS
      | restart =>
        simp only []
        have ST := aStop_goodD _ hg g k hk
        have hk' : k < (aStop Fix.all (dCall tpl f) g k).1.length := by rw [ST.1.len]; exact hk
        exact nof_append (nof_stopD _ hg f ih g k hk S hc hS)
          (nof_startD _ hg f ih _ k hk' S (cover_sub (sub_of_presD ST.1) hc) hS)
      | run e => exact nof_runD _ hg f ih g k e hk S hc hS
      | defn i => rw [(applyDef_defStep tpl g k i).2]; exact nof_nil

theorem dProg_nof (tpl : Tpl) : ∀ (ops : List (Nat × Call)) (g : Arena), NoF (dProg tpl g ops).2
  | [], g => nof_nil
  | kc :: ops, g => by
    simp only [dProg]
    exact nof_append (fuel_okD tpl (fuelFor g) g kc.1 kc.2 (List.range g.length) (cover_range g)
      (by simp [fuelFor]; omega)) (dProg_nof tpl ops _)

end AD
end Tbox.C16
