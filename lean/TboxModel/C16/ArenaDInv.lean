/-
C16 — invariants of the ARENA model WITH definition calls issued while the machines run
(`dCall tpl`, ArenaDef.lean), framework part.

`PresX.defs` (every machine keeps its whole definition) is false for `dCall tpl`: a callback may
change `init`/`cb` of ANY machine (`setInitState/setStateChangedCallback` have no check) and the
state table of any machine that is NOT running (`newState/addRoute/addEvent/setSubStateMachine`
test `is_running_`).  `PresD x g g' tr` is the weakened effect summary:
* the store keeps its size, every machine keeps its index;
* a machine that is inside one of its own methods AND running keeps its state table (`defs`): the
  `routes` vector an in-flight `find_if` iterates, the `events` map, the `State` objects
  `curr_state_/next_state_` point to;
* the exempt machine `x` (whose own code the fragment is) keeps its state table (`xdef`);
* `frozen`, `idle` as in `PresX`; `rej`: every `start/stop/restart/run` a callback body made on its
  own machine was refused; every definition call left the addressed machine's five observers alone
  (a definition call on the own machine is NOT necessarily refused).
-/
import TboxModel.C16.ArenaProg
import TboxModel.C16.ArenaDef
set_option linter.unusedSimpArgs false
set_option linter.unusedVariables false
namespace Tbox.C16
namespace AD
open Arena AI

/-! ### store lemmas -/

theorem states_updRt (g : Arena) (k j : Nat) (f : Rt → Rt) : ((g.updRt k f).get j).states = (g.get j).states :=
  (sameDef_updRt g k j f).2.2.1

theorem mid_updRt (g : Arena) (k j : Nat) (f : Rt → Rt) : ((g.updRt k f).get j).mid = (g.get j).mid :=
  (sameDef_updRt g k j f).1

theorem stateOf_states {a b : ARec} (h : a.states = b.states) (c : StateId) : a.stateOf c = b.stateOf c := by
  unfold MachOf.stateOf MachOf.findState; rw [h]

theorem curState_congrD {g g' : Arena} {k : Nat} (hr : (g'.get k).rt.curr = (g.get k).rt.curr)
    (hd : (g'.get k).states = (g.get k).states) : g'.curState k = g.curState k := by
  unfold curState; rw [hr]
  cases (g.get k).rt.curr <;> simp [stateOf_states hd]

/-! ### what one definition call does to the store -/

/-- the effect of one definition call addressed to machine `k` -/
structure DefStep (g : Arena) (k : Nat) (g' : Arena) : Prop where
  len : g'.length = g.length
  other : ∀ j, j ≠ k → g'.get j = g.get j
  rt : (g'.get k).rt = (g.get k).rt
  mid : (g'.get k).mid = (g.get k).mid
  st : (g.get k).rt.running = true → (g'.get k).states = (g.get k).states

theorem DefStep.refl (g : Arena) (k : Nat) : DefStep g k g := ⟨rfl, fun _ _ => rfl, rfl, rfl, fun _ => rfl⟩

theorem DefStep.rt_all {g g' : Arena} {k : Nat} (h : DefStep g k g') (j : Nat) : (g'.get j).rt = (g.get j).rt := by
  by_cases hj : j = k
  · subst hj; exact h.rt
  · rw [h.other j hj]

theorem DefStep.mid_all {g g' : Arena} {k : Nat} (h : DefStep g k g') (j : Nat) : (g'.get j).mid = (g.get j).mid := by
  by_cases hj : j = k
  · subst hj; exact h.mid
  · rw [h.other j hj]

theorem DefStep.st_all {g g' : Arena} {k : Nat} (h : DefStep g k g') (j : Nat) (hr : (g.get j).rt.running = true) :
    (g'.get j).states = (g.get j).states := by
  by_cases hj : j = k
  · subst hj; exact h.st hr
  · rw [h.other j hj]

theorem guarded_running (g : Arena) (k : Nat) (f : ARec → ARec × Bool) (hr : (g.get k).rt.running = true) :
    Def.guarded g k f = (g, false) := by
  unfold Def.guarded
  cases hk : g[k]? with
  | none => rfl
  | some m =>
    have hm := get_of_getElem? hk
    rw [hm.1] at hr
    simp [hr]

theorem guarded_defStep (g : Arena) (k : Nat) (f : ARec → ARec × Bool) (hf : ∀ m, (f m).1.rt = m.rt ∧ (f m).1.mid = m.mid) :
    DefStep g k (Def.guarded g k f).1 := by
  unfold Def.guarded
  cases hk : g[k]? with
  | none => exact DefStep.refl g k
  | some m =>
    have hm := get_of_getElem? hk
    simp only []
    split
    · exact DefStep.refl g k
    · rename_i hrun
      have hself : Arena.get (g.set k (f m).1) k = (f m).1 := by rw [get_set]; simp [hm.2]
      refine ⟨by simp, fun j hj => by rw [get_set]; simp [hj], ?_, ?_, ?_⟩
      · rw [hself, hm.1]; exact (hf m).1
      · rw [hself, hm.1]; exact (hf m).2
      · intro hr; rw [hm.1] at hr; exact absurd hr hrun

theorem always_defStep (g : Arena) (k : Nat) (f : ARec → ARec)
    (hf : ∀ m, (f m).rt = m.rt ∧ (f m).mid = m.mid ∧ (f m).states = m.states) :
    DefStep g k (Def.always g k f) ∧ ((Def.always g k f).get k).states = (g.get k).states := by
  unfold Def.always
  cases hk : g[k]? with
  | none => exact ⟨DefStep.refl g k, rfl⟩
  | some m =>
    have hm := get_of_getElem? hk
    simp only []
    have hself : Arena.get (g.set k (f m)) k = f m := by rw [get_set]; simp [hm.2]
    refine ⟨⟨by simp, fun j hj => by rw [get_set]; simp [hj], ?_, ?_, fun _ => ?_⟩, ?_⟩
    · rw [hself, hm.1]; exact (hf m).1
    · rw [hself, hm.1]; exact (hf m).2.1
    · rw [hself, hm.1]; exact (hf m).2.2
    · rw [hself, hm.1]; exact (hf m).2.2

theorem newState_keeps (m : ARec) (sid : StateId) (en ex : Option Script) :
    (Build.newState m sid en ex).1.rt = m.rt ∧ (Build.newState m sid en ex).1.mid = m.mid := by
  unfold Build.newState; split <;> exact ⟨rfl, rfl⟩

theorem addRoute_keeps (m : ARec) (src : StateId) (r : Route) :
    (Build.addRoute m src r).1.rt = m.rt ∧ (Build.addRoute m src r).1.mid = m.mid := by
  unfold Build.addRoute
  split
  · exact ⟨rfl, rfl⟩
  · split <;> exact ⟨rfl, rfl⟩

theorem addEvent_keeps (m : ARec) (sid : StateId) (ev : EventId) (h : Handler) :
    (Build.addEvent m sid ev h).1.rt = m.rt ∧ (Build.addEvent m sid ev h).1.mid = m.mid := by
  unfold Build.addEvent
  split
  · exact ⟨rfl, rfl⟩
  · split <;> exact ⟨rfl, rfl⟩

theorem setSub_keeps (m : ARec) (sid : StateId) (x : Nat) :
    (Build.setSubStateMachine m sid x).1.rt = m.rt ∧ (Build.setSubStateMachine m sid x).1.mid = m.mid := by
  unfold Build.setSubStateMachine
  split <;> exact ⟨rfl, rfl⟩

/-- every definition call: the run-time records, the indices and the size of the store are kept,
only the addressed machine's definition may change, and not its state table if it is running -/
theorem apply_defStep (d : DefOp) (g : Arena) (k : Nat) : DefStep g k (d.apply g k).1 := by
  cases d with
  | newState sid en ex => exact guarded_defStep g k _ (fun m => newState_keeps m sid en ex)
  | addRoute src r => exact guarded_defStep g k _ (fun m => addRoute_keeps m src r)
  | addEvent sid ev h => exact guarded_defStep g k _ (fun m => addEvent_keeps m sid ev h)
  | setSub sid j => exact guarded_defStep g k _ (fun m => setSub_keeps m sid j)
  | setInit sid => exact (always_defStep g k (fun m => Build.setInitState m sid) (fun m => ⟨rfl, rfl, rfl⟩)).1
  | setCb cb => exact (always_defStep g k (fun m => Build.setStateChangedCallback m cb) (fun m => ⟨rfl, rfl, rfl⟩)).1

/-- the four guarded calls on a running machine: refused, nothing changes -/
theorem apply_running (d : DefOp) (g : Arena) (k : Nat) (hd : d.guarded = true) (hr : (g.get k).rt.running = true) :
    d.apply g k = (g, false) := by
  cases d with
  | newState sid en ex => exact guarded_running g k _ hr
  | addRoute src r => exact guarded_running g k _ hr
  | addEvent sid ev h => exact guarded_running g k _ hr
  | setSub sid j => exact guarded_running g k _ hr
  | setInit sid => cases hd
  | setCb cb => cases hd

/-- no definition call on a running machine returns true -/
theorem apply_res_running (d : DefOp) (g : Arena) (k : Nat) (hr : (g.get k).rt.running = true) : (d.apply g k).2 = false := by
  cases d with
  | newState sid en ex => show (Def.guarded g k _).2 = false; rw [guarded_running g k _ hr]
  | addRoute src r => show (Def.guarded g k _).2 = false; rw [guarded_running g k _ hr]
  | addEvent sid ev h => show (Def.guarded g k _).2 = false; rw [guarded_running g k _ hr]
  | setSub sid j => show (Def.guarded g k _).2 = false; rw [guarded_running g k _ hr]
  | setInit sid => rfl
  | setCb cb => rfl

theorem applyDef_res_running (tpl : Tpl) (g : Arena) (k i : Nat) (hr : (g.get k).rt.running = true) :
    (applyDef tpl g k i).2.1 = false := by
  unfold applyDef
  cases tpl[i]? with
  | none => rfl
  | some d => exact apply_res_running d g k hr

theorem applyDef_defStep (tpl : Tpl) (g : Arena) (k i : Nat) :
    DefStep g k (applyDef tpl g k i).1 ∧ (applyDef tpl g k i).2.2 = [] := by
  unfold applyDef
  cases tpl[i]? with
  | none => exact ⟨DefStep.refl g k, rfl⟩
  | some d => exact ⟨apply_defStep d g k, rfl⟩

/-! ### the effect summary -/

/-- `start/stop/restart/run` made by a callback body on its own machine returned false and changed
nothing; a definition call (on any machine) left the five observers of the addressed machine alone
and, if that machine showed `isRunning()`, did not return true (the four calls that return a value
were refused; the two `void` ones are printed with `false`) -/
def selfRejD (ev : AEv) : Prop :=
  match ev.kind with
  | .call t c res v w =>
    (∀ i, c = .defn i → w = v ∧ (v.running = true → res = false)) ∧
    ((∀ i, c ≠ .defn i) → t.getD ev.mid = ev.mid → res = false ∧ w = v)
  | _ => True

def SelfRejectedD (tr : ATrace) : Prop := ∀ ev ∈ tr, selfRejD ev

theorem selfRejectedD_append {a b : ATrace} (h1 : SelfRejectedD a) (h2 : SelfRejectedD b) : SelfRejectedD (a ++ b) := by
  intro ev he
  rcases List.mem_append.1 he with h | h
  · exact h1 ev h
  · exact h2 ev h

structure PresD (x : Option Nat) (g g' : Arena) (tr : ATrace) : Prop where
  len : g'.length = g.length
  mid : ∀ j, (g'.get j).mid = (g.get j).mid
  /-- inside one of its own methods and running: the state table is not touched -/
  defs : ∀ j, busy g j → (g.get j).rt.running = true → (g'.get j).states = (g.get j).states
  xdef : ∀ j, some j = x → (g'.get j).states = (g.get j).states
  frozen : ∀ j, some j ≠ x → busy g j → (g'.get j).rt = (g.get j).rt ∧ QuietFor j tr
  idle : ∀ j, some j ≠ x → ¬ busy g j → ¬ busy g' j ∧ ∀ T, MInv (g.get j) j T → MInv (g'.get j) j (T ++ tr)
  rej : SelfRejectedD tr

theorem PresD.refl (x : Option Nat) (g : Arena) : PresD x g g [] :=
  ⟨rfl, fun _ => rfl, fun _ _ _ => rfl, fun _ _ => rfl, fun j _ _ => ⟨rfl, quietFor_nil j⟩,
   fun j _ h => ⟨h, fun T hT => by simpa using hT⟩, fun ev he => by cases he⟩

theorem PresD.trans {x : Option Nat} {g g1 g2 : Arena} {t1 t2 : ATrace}
    (h1 : PresD x g g1 t1) (h2 : PresD x g1 g2 t2) : PresD x g g2 (t1 ++ t2) := by
  refine ⟨h2.len.trans h1.len, fun j => (h2.mid j).trans (h1.mid j), ?_, fun j hj => (h2.xdef j hj).trans (h1.xdef j hj),
    ?_, ?_, selfRejectedD_append h1.rej h2.rej⟩
  · intro j hb hr
    by_cases hx : some j = x
    · exact (h2.xdef j hx).trans (h1.xdef j hx)
    · have a := h1.frozen j hx hb
      have hb1 : busy g1 j := by unfold busy; rw [a.1]; exact hb
      exact (h2.defs j hb1 (by rw [a.1]; exact hr)).trans (h1.defs j hb hr)
  · intro j hx hb
    have a := h1.frozen j hx hb
    have hb1 : busy g1 j := by unfold busy; rw [a.1]; exact hb
    have b := h2.frozen j hx hb1
    exact ⟨b.1.trans a.1, quietFor_append a.2 b.2⟩
  · intro j hx hb
    have a := h1.idle j hx hb
    have b := h2.idle j hx a.1
    exact ⟨b.1, fun T hT => by rw [← List.append_assoc]; exact b.2 _ (a.2 T hT)⟩

/-- a complete invocation seen from inside machine `k`'s own code: `k` is inside a method and running -/
theorem PresD.weaken {g g' : Arena} {tr : ATrace} (h : PresD none g g' tr) (k : Nat) (hb : busy g k)
    (hr : (g.get k).rt.running = true) : PresD (some k) g g' tr :=
  ⟨h.len, h.mid, h.defs, fun j hj => (Option.some.inj hj) ▸ h.defs k hb hr,
   fun j _ hb => h.frozen j (by simp) hb, fun j _ hb => h.idle j (by simp) hb, h.rej⟩

theorem PresD.of_eq {x : Option Nat} {g g' : Arena} {tr tr' : ATrace} (h : PresD x g g' tr) (e : tr = tr') : PresD x g g' tr' := e ▸ h

/-- an event printed by a callback body (or `unmodelled`) is neutral for everybody -/
theorem presD_scriptEvent (g : Arena) (ev : AEv) (h1 : isScriptKind ev.kind = true) (h2 : selfRejD ev) : PresD none g g [ev] := by
  refine ⟨rfl, fun _ => rfl, fun _ _ _ => rfl, fun _ _ => rfl, ?_, ?_, ?_⟩
  · intro j _ _
    refine ⟨rfl, ?_⟩
    intro e he _; simp only [List.mem_singleton] at he; subst he; exact h1
  · intro j _ hb
    refine ⟨hb, fun T hT => hT.quiet [ev] ?_⟩
    intro e he _; simp only [List.mem_singleton] at he; subst he; exact h1
  · intro e he; simp only [List.mem_singleton] at he; subst he; exact h2

theorem presD_unm (g : Arena) (k : Nat) : PresD none g g (unm k) :=
  presD_scriptEvent g ⟨k, .unmodelled⟩ rfl (by simp [selfRejD])

theorem presD_oof (g : Arena) (k : Nat) : PresD none g g (oof k) :=
  presD_scriptEvent g ⟨k, .foreign k⟩ rfl (by simp [selfRejD])

/-- `unmodelled` printed by machine `k`'s own code -/
theorem presD_unmX (g : Arena) (k : Nat) : PresD (some k) g g (unm k) :=
  let h := presD_unm g k
  ⟨h.len, h.mid, h.defs, fun _ _ => rfl, fun j _ hb => h.frozen j (by simp) hb, fun j _ hb => h.idle j (by simp) hb, h.rej⟩

/-- an event of machine `k`'s own code is neutral for every other machine -/
theorem presD_ownEvent (g : Arena) (k : Nat) (kd : Kind) (h : notCall kd = true) : PresD (some k) g g [⟨k, kd⟩] := by
  refine ⟨rfl, fun _ => rfl, fun _ _ _ => rfl, fun _ _ => rfl, ?_, ?_, ?_⟩
  · intro j hj _
    refine ⟨rfl, ?_⟩
    intro e he hm; simp only [List.mem_singleton] at he; subst he
    exact absurd (by simpa using hm) (fun (hh : k = j) => hj (by rw [hh]))
  · intro j hj hb
    refine ⟨hb, fun T hT => ⟨hT.wf, hT.cid, fun s => ?_⟩⟩
    have hne : (⟨k, kd⟩ : AEv).mid ≠ j := fun (hh : k = j) => hj (by rw [hh])
    rw [delta_append]; simp only [delta]; rw [evDelta_other j s _ hne, hT.bal s]; simp
  · intro e he; simp only [List.mem_singleton] at he; subst he
    cases kd <;> simp [selfRejD, notCall] at h ⊢

/-- machine `k`'s own code writing its own record is invisible to every other machine -/
theorem presD_updRt (g : Arena) (k : Nat) (f : Rt → Rt) : PresD (some k) g (g.updRt k f) [] := by
  refine ⟨length_updRt g k f, fun j => mid_updRt g k j f, fun j _ _ => states_updRt g k j f, fun j _ => states_updRt g k j f,
    ?_, ?_, fun ev he => by cases he⟩
  · intro j hj _
    have : j ≠ k := fun hh => hj (by rw [hh])
    exact ⟨by rw [get_updRt_ne g k j f this], quietFor_nil j⟩
  · intro j hj hb
    have hne : j ≠ k := fun hh => hj (by rw [hh])
    refine ⟨by unfold busy; rw [get_updRt_ne g k j f hne]; exact hb, fun T hT => ?_⟩
    rw [get_updRt_ne g k j f hne]; simpa using hT

/-- assembling a complete invocation on the idle machine `k` -/
theorem presD_of_presX {g g' : Arena} {tr : ATrace} {k : Nat} (h : PresD (some k) g g' tr) (hidle : ¬ busy g k)
    (h1 : ¬ busy g' k) (h2 : ∀ T, MInv (g.get k) k T → MInv (g'.get k) k (T ++ tr)) : PresD none g g' tr := by
  refine ⟨h.len, h.mid, h.defs, fun j hj => (by cases hj), ?_, ?_, h.rej⟩
  · intro j _ hb
    by_cases hj : j = k
    · subst hj; exact absurd hb hidle
    · exact h.frozen j (by simpa using hj) hb
  · intro j _ hb
    by_cases hj : j = k
    · subst hj; exact ⟨h1, h2⟩
    · exact h.idle j (by simpa using hj) hb

/-- one definition call (from anywhere) as an effect summary -/
theorem presD_defStep {g g' : Arena} {k : Nat} (h : DefStep g k g') : PresD none g g' [] := by
  refine ⟨h.len, h.mid_all, fun j _ hr => h.st_all j hr, fun j hj => (by cases hj), ?_, ?_, fun ev he => by cases he⟩
  · intro j _ _; exact ⟨h.rt_all j, quietFor_nil j⟩
  · intro j _ hb
    refine ⟨by unfold busy; rw [h.rt_all j]; exact hb, fun T hT => ?_⟩
    simp only [List.append_nil]
    have hrt := h.rt_all j
    refine ⟨by rw [hrt]; exact hT.wf, ?_, fun s => by rw [hrt]; exact hT.bal s⟩
    intro c hc
    rw [hrt] at hc
    -- `curr ≠ none`, so the machine is running and its state table was not touched
    have hrun : (g.get j).rt.running = true := by rw [hT.wf, hc]; rfl
    rw [stateOf_states (h.st_all j hrun)]; exact hT.cid c hc

/-- what every invocation (method or definition call) guarantees -/
def GoodD (rec : Rec) : Prop :=
  ∀ g k c, PresD none g (rec g k c).1 (rec g k c).2.2 ∧
    ((∀ i, c ≠ .defn i) → busy g k → (rec g k c).1 = g ∧ (rec g k c).2.1 = false) ∧
    (∀ i, c = .defn i → ((rec g k c).1.get k).rt = (g.get k).rt ∧
      ((g.get k).rt.running = true → (rec g k c).2.1 = false))

end AD
end Tbox.C16
