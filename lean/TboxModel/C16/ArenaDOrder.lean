/-
C16 — arena model with definition calls issued while the machines run: the own phase events of one
`run()` invocation on a machine object under `dCall tpl` (none, or exit / transition action / enter /
notification once each in this order), and the guard evaluations of its `find_if`.  Same arguments as
ArenaOrder.lean / ArenaProg.lean over `GoodD`.
-/
import TboxModel.C16.ArenaDProofs
import TboxModel.C16.ArenaOrder
set_option linter.unusedSimpArgs false
set_option linter.unusedVariables false
namespace Tbox.C16
namespace AD
open Arena AI

theorem noPh_scriptD (rec : Rec) (hg : GoodD rec) (k : Nat) (sc : Script) (g : Arena) (hb : busy g k) : NoPh k (aScript rec k g sc).2 :=
  noPh_of_quiet (frozen_rtD (aScript_presD rec hg k sc g hb) hb).2.1

theorem noPh_subcallD (rec : Rec) (hg : GoodD rec) (k : Nat) (g : Arena) (c : Call) (hb : busy g k) : NoPh k (aSubCall rec g k c).2 :=
  noPh_of_quiet (frozen_rtD (aSubCall_presD rec hg g k c) hb).2.1

theorem noPh_routeScanD (rec : Rec) (hg : GoodD rec) (k : Nat) (sid : StateId) (e : Event) :
    ∀ (rs : List Route) (i : Nat) (g : Arena), busy g k → NoPh k (aRouteScan rec k sid e i g rs).2.2
  | [], i, g, _ => noPh_nil k
  | r :: rs, i, g, hb => by
    unfold aRouteScan
    split
    · exact noPh_routeScanD rec hg k sid e rs (i + 1) g hb
    · cases hgd : r.guard with
      | none => exact noPh_nil k
      | some gd =>
        simp only []
        have N := noPh_scriptD rec hg k gd.script g hb
        have F := frozen_rtD (aScript_presD rec hg k gd.script g hb) hb
        split
        · exact noPh_cons rfl N
        · exact noPh_cons rfl (noPh_append N (noPh_routeScanD rec hg k sid e rs (i + 1) _ F.2.2))

theorem noPh_delegateD (rec : Rec) (hg : GoodD rec) (g : Arena) (k : Nat) (e : Event) (hk : k < g.length) :
    NoPh k (aDelegate Fix.all rec g k e).2.2 := by
  unfold aDelegate
  split
  · exact noPh_unm k k
  · split
    · exact noPh_nil k
    · rename_i j _
      simp only [Fix.all, if_true]
      have hb0 := busy_inc g k hk
      generalize g.incLevel k = g0 at hb0
      have R := (hg g0 j (.run e)).1
      generalize rec g0 j (.run e) = r at R
      have FR := frozen_rtD R hb0
      have N0 := noPh_of_quiet FR.2.1
      split
      · exact noPh_append N0 (noPh_unm k k)
      · split
        · exact noPh_append N0 (noPh_unm k k)
        · split
          · exact N0
          · exact noPh_append N0 (noPh_subcallD rec hg k r.1 .stop FR.2.2)

theorem noPh_handlersD (rec : Rec) (hg : GoodD rec) (g : Arena) (k : Nat) (cs : StateDef Nat) (e : Event) (hk : k < g.length) :
    NoPh k (aHandlers rec g k cs e).2.2 := by
  unfold aHandlers
  simp only []
  have hb0 := busy_inc g k hk
  generalize g.incLevel k = g1 at hb0
  split
  · exact noPh_cons rfl (noPh_scriptD rec hg k _ g1 hb0)
  · split
    · exact noPh_cons rfl (noPh_scriptD rec hg k _ g1 hb0)
    · exact noPh_nil k

theorem noPh_selectD (rec : Rec) (hg : GoodD rec) (g : Arena) (k : Nat) (e : Event) (hret : Int) (hk : k < g.length) :
    NoPh k (aSelect rec g k e hret).2.2 := by
  unfold aSelect
  split
  · split
    · exact noPh_unm k k
    · rename_i cs2 _
      simp only []
      have N := noPh_routeScanD rec hg k cs2.id e cs2.routes 0 _ (busy_inc g k hk)
      split
      · exact N
      · exact N
  · exact noPh_nil k

theorem probe_phasesD (rec : Rec) (hg : GoodD rec) (k : Nat) (g : Arena) (mk : Bool → Kind) (p : Option Script) (hb : busy g k)
    (hph : ∀ b, isPhase (mk b) = true) : aPhases k (aProbe rec k g mk p).2 = [mk p.isSome] := by
  obtain ⟨tr', h1, P⟩ := aProbe_presD rec hg k g mk p hb
  rw [h1]
  simp only [aPhases, hph, and_self, if_true]
  rw [aPhases_noPh k tr' (noPh_of_quiet (frozen_rtD P hb).2.1)]

/-- the phases of the tail of `run()` -/
theorem aTransition_phasesD (rec : Rec) (hg : GoodD rec) (g : Arena) (k : Nat) (e : Event) (nextId : StateId) (ridx : Option Nat)
    (action : Option Script) (hk : k < g.length) (c : StateId) (hc : (g.get k).rt.curr = some c)
    (hcid : ((g.get k).stateOf c).id = c) (hr : (g.get k).rt.running = true) :
    (aPhases k (aTransition rec g k e nextId ridx action).2.2 = [] ∧
      ((aTransition rec g k e nextId ridx action).1.get k).rt.curr = some c) ∨
    ∃ b h1 h2 h3 h4, ((aTransition rec g k e nextId ridx action).1.get k).rt.curr = some b ∧
      aPhases k (aTransition rec g k e nextId ridx action).2.2 = [.exit c e h1, .action c ridx e h2, .enter b e h3, .notify c b e h4] := by
  unfold aTransition
  cases hres : (g.get k).resolve nextId with
  | none =>
    left
    simp only []
    exact ⟨rfl, by rw [rt_updRt_self g k _ hk]; exact hc⟩
  | some ts =>
    right
    simp only []
    have hRS := resolve_stateOf _ _ _ hres
    have hts : (g.get k).stateOf ts.id = ts := by have := hRS.2; rw [← hRS.1] at this; exact this
    have hlen0 : k < (g.updRt k fun rt => { rt with next := some ts.id }).length := by rw [length_updRt]; exact hk
    have hrt4 : (((g.updRt k fun rt => { rt with next := some ts.id }).incLevel k).get k).rt =
        { (g.get k).rt with next := some ts.id, cbLevel := (g.get k).rt.cbLevel + 1 } := by
      rw [incLevel_rt _ k hlen0, rt_updRt_self g k _ hk]
    have hb4 := busy_inc _ k hlen0
    have P4 : PresD (some k) g ((g.updRt k fun rt => { rt with next := some ts.id }).incLevel k) [] :=
      ((presD_updRt g k _).trans (presD_inc _ k)).of_eq rfl
    generalize ((g.updRt k fun rt => { rt with next := some ts.id }).incLevel k) = g4 at hrt4 hb4 P4
    have hr4 : (g4.get k).rt.running = true := by rw [hrt4]; exact hr
    -- exit
    have hcs4 : g4.curState k = some ((g4.get k).stateOf c) := curState_of_curr (by rw [hrt4]; exact hc)
    have hid4 : ((g4.get k).stateOf c).id = c := by rw [stateOf_states (P4.xdef k rfl)]; exact hcid
    have X := aExit_presXD rec hg g4 k e hb4 hr4
    have hXp : aPhases k (aExit rec g4 k e).2 = [.exit c e ((g4.get k).stateOf c).exit.isSome] := by
      have : aExit rec g4 k e = aProbe rec k g4 (.exit ((g4.get k).stateOf c).id e) ((g4.get k).stateOf c).exit := by
        unfold aExit; rw [hcs4]
      rw [this, probe_phasesD rec hg k g4 _ _ hb4 (fun _ => rfl), hid4]
    generalize aExit rec g4 k e = x at X hXp
    have hlx : k < x.1.length := by rw [X.1.len, P4.len]; exact hk
    have hsrc : optInt (x.1.get k).rt.curr = c := by rw [X.2.1, hrt4]; simp [hc, optInt]
    rw [hsrc]
    have hrt5 := rt_updRt_self x.1 k (fun rt => { rt with last := rt.curr, curr := none }) hlx
    have hb5 := busy_updRt_level x.1 k (fun rt => { rt with last := rt.curr, curr := none }) hlx (fun _ => rfl) X.2.2
    have P5 := presD_updRt x.1 k (fun rt => { rt with last := rt.curr, curr := none })
    generalize x.1.updRt k (fun rt => { rt with last := rt.curr, curr := none }) = g5 at hrt5 hb5 P5
    have hr5 : (g5.get k).rt.running = true := by
      rw [hrt5]; show (x.1.get k).rt.running = true; rw [X.2.1]; exact hr4
    have A := probe_stepD rec hg k g5 (.action c ridx e) action hb5 hr5 (fun _ => rfl)
    have hAp := probe_phasesD rec hg k g5 (.action c ridx e) action hb5 (fun _ => rfl)
    generalize aProbe rec k g5 (.action c ridx e) action = a at A hAp
    have hla : k < a.1.length := by rw [A.1.len, P5.len]; exact hlx
    have hrt6 := rt_updRt_self a.1 k (fun rt => { rt with curr := rt.next, next := none }) hla
    have hb6 := busy_updRt_level a.1 k (fun rt => { rt with curr := rt.next, next := none }) hla (fun _ => rfl) A.2.2.1
    have P6 := presD_updRt a.1 k (fun rt => { rt with curr := rt.next, next := none })
    generalize a.1.updRt k (fun rt => { rt with curr := rt.next, next := none }) = g6 at hrt6 hb6 P6
    have hrt6' : (g6.get k).rt = { (g.get k).rt with last := (g.get k).rt.curr, curr := some ts.id, next := none, cbLevel := (g.get k).rt.cbLevel + 1 } := by
      rw [hrt6, A.2.1, hrt5, X.2.1, hrt4]
    have hcs6 : g6.curState k = some ((g6.get k).stateOf ts.id) := curState_of_curr (by rw [hrt6'])
    rw [hcs6]; simp only []
    have hr6 : (g6.get k).rt.running = true := by rw [hrt6']; exact hr
    have hd6 : (g6.get k).states = (g.get k).states :=
      (P6.xdef k rfl).trans ((A.1.xdef k rfl).trans ((P5.xdef k rfl).trans ((X.1.xdef k rfl).trans (P4.xdef k rfl))))
    have hns : ((g6.get k).stateOf ts.id).id = ts.id := by rw [stateOf_states hd6, hts]
    generalize (g6.get k).stateOf ts.id = ns at hns
    rw [hns]
    have EN := probe_stepD rec hg k g6 (.enter ts.id e) ns.enter hb6 hr6 (fun _ => rfl)
    have hENp := probe_phasesD rec hg k g6 (.enter ts.id e) ns.enter hb6 (fun _ => rfl)
    generalize aProbe rec k g6 (.enter ts.id e) ns.enter = en at EN hENp
    have hlast : optInt (en.1.get k).rt.last = c := by rw [EN.2.1, hrt6']; simp [hc, optInt]
    have hcur : optInt (en.1.get k).rt.curr = ts.id := by rw [EN.2.1, hrt6']; simp [optInt]
    rw [hlast, hcur]
    have CB := probe_stepD rec hg k en.1 (.notify c ts.id e) (en.1.get k).cb EN.2.2.1 (by rw [EN.2.1]; exact hr6) (fun _ => rfl)
    have hCBp := probe_phasesD rec hg k en.1 (.notify c ts.id e) (en.1.get k).cb EN.2.2.1 (fun _ => rfl)
    generalize aProbe rec k en.1 (.notify c ts.id e) (en.1.get k).cb = cb at CB hCBp
    have S1 := sub_stepD rec hg k cb.1 .start CB.2.2.1 (by rw [CB.2.1, EN.2.1]; exact hr6)
    have N1 := noPh_subcallD rec hg k cb.1 .start CB.2.2.1
    generalize aSubCall rec cb.1 k .start = s1 at S1 N1
    have S2 : ((aSubRun rec s1.1 k e).1.get k).rt = (s1.1.get k).rt ∧ NoPh k (aSubRun rec s1.1 k e).2 ∧
        (aSubRun rec s1.1 k e).1.length = s1.1.length := by
      unfold aSubRun
      split
      · split
        · have := sub_stepD rec hg k s1.1 (.run e) S1.2.2.1 (by rw [S1.2.1, CB.2.1, EN.2.1]; exact hr6)
          exact ⟨this.2.1, noPh_subcallD rec hg k s1.1 (.run e) S1.2.2.1, this.1.len⟩
        · exact ⟨rfl, noPh_nil k, rfl⟩
      · exact ⟨rfl, noPh_nil k, rfl⟩
    generalize aSubRun rec s1.1 k e = s2 at S2
    have hl2 : k < s2.1.length := by rw [S2.2.2, S1.1.len, CB.1.len, EN.1.len, P6.len]; exact hla
    refine ⟨ts.id, ((g4.get k).stateOf c).exit.isSome, action.isSome, ns.enter.isSome, (en.1.get k).cb.isSome, ?_, ?_⟩
    · rw [decLevel_rt _ k hl2, S2.1, S1.2.1, CB.2.1, EN.2.1, hrt6']
    · simp only [aPhases_append, hXp, hAp, hENp, hCBp, aPhases_noPh k _ N1, aPhases_noPh k _ S2.2.1]
      rfl

theorem aRun_orderD (rec : Rec) (hg : GoodD rec) (g : Arena) (k : Nat) (e : Event) (hk : k < g.length)
    (hwf : (g.get k).rt.running = (g.get k).rt.curr.isSome)
    (hcid : ∀ c, (g.get k).rt.curr = some c → ((g.get k).stateOf c).id = c) :
    AOrderOnce k (g.get k).rt.curr ((aRun Fix.all rec g k e).1.get k).rt.curr e (aRun Fix.all rec g k e).2.2 := by
  unfold aRun
  cases h1 : runReject (g.get k).rt with
  | some r => exact Or.inl ⟨rfl, rfl⟩
  | none =>
    have h0 := runReject_none h1
    simp only []
    have D : QStepD k g (aDelegate Fix.all rec g k e).1 (aDelegate Fix.all rec g k e).2.2 := aDelegate_presXD rec hg g k e hk h0.1
    have ND := noPh_delegateD rec hg g k e hk
    generalize aDelegate Fix.all rec g k e = d at D ND
    have hld : k < d.1.length := by rw [D.1.len]; exact hk
    split
    · exact Or.inl ⟨aPhases_noPh k _ ND, by rw [D.2.1]⟩
    · split
      · exact Or.inl ⟨aPhases_noPh k _ (noPh_append ND (noPh_unm k k)), by rw [D.2.1]⟩
      · rename_i cs _
        have H : QStepD k d.1 (aHandlers rec d.1 k cs e).1 (aHandlers rec d.1 k cs e).2.2 := aHandlers_presXD rec hg d.1 k cs e hld (by rw [D.2.1]; exact h0.1)
        have NH := noPh_handlersD rec hg d.1 k cs e hld
        generalize aHandlers rec d.1 k cs e = h at H NH
        have hlh : k < h.1.length := by rw [H.1.len]; exact hld
        have SL : QStepD k h.1 (aSelect rec h.1 k e h.2.1).1 (aSelect rec h.1 k e h.2.1).2.2 := aSelect_presXD rec hg h.1 k e h.2.1 hlh (by rw [H.2.1, D.2.1]; exact h0.1)
        have NSL := noPh_selectD rec hg h.1 k e h.2.1 hlh
        generalize aSelect rec h.1 k e h.2.1 = sel at SL NSL
        have hls : k < sel.1.length := by rw [SL.1.len]; exact hlh
        have hrtS : (sel.1.get k).rt = (g.get k).rt := by rw [SL.2.1, H.2.1, D.2.1]
        have Npre := noPh_append (noPh_append ND NH) NSL
        split
        · exact Or.inl ⟨aPhases_noPh k _ Npre, by rw [hrtS]⟩
        · rename_i nextId ridx action _
          simp only []
          rw [h0.1] at hwf
          cases hc : (g.get k).rt.curr with
          | none => rw [hc] at hwf; simp at hwf
          | some c =>
            have hdS : (sel.1.get k).states = (g.get k).states := (SL.1.xdef k rfl).trans ((H.1.xdef k rfl).trans (D.1.xdef k rfl))
            have TP := aTransition_phasesD rec hg sel.1 k e nextId ridx action hls c (by rw [hrtS]; exact hc)
              (by rw [stateOf_states hdS]; exact hcid c hc) (by rw [hrtS]; exact h0.1)
            generalize aTransition rec sel.1 k e nextId ridx action = t at TP
            unfold AOrderOnce
            rw [aPhases_append, aPhases_noPh k _ Npre, List.nil_append]
            rcases TP with ⟨hp, hcur⟩ | ⟨b, x1, x2, x3, x4, hcur, hp⟩
            · exact Or.inl ⟨hp, hcur⟩
            · exact Or.inr ⟨c, b, ridx, x1, x2, x3, x4, rfl, hcur, hp⟩


/-- the guard evaluations of the arena's `find_if` under `GoodD` are those of the tree model's -/
theorem aRouteScan_guardsD (rec : Rec) (hg : GoodD rec) (k : Nat) (sid : StateId) (e : Event) (self : Nat) (rt : Rt) (ctx : Ctx) :
    ∀ (rs : List Route) (i : Nat) (g : Arena), busy g k →
      (aRouteScan rec k sid e i g rs).2.2.filterMap (aGuardOf k) = (routeScan sid self rt ctx e i rs).2.filterMap guardOf
  | [], i, g, _ => rfl
  | r :: rs, i, g, hb => by
    unfold aRouteScan routeScan
    split
    · exact aRouteScan_guardsD rec hg k sid e self rt ctx rs (i + 1) g hb
    · cases r.guard with
      | none => rfl
      | some gd =>
        simp only []
        have S := aScript_presD rec hg k gd.script g hb
        have F := frozen_rtD S hb
        have hq := quiet_noGuards k _ F.2.1
        split
        · simp [List.filterMap_cons, aGuardOf, guardOf, here, hq, runScript_noGuards]
        · have ih := aRouteScan_guardsD rec hg k sid e self rt ctx rs (i + 1) _ F.2.2
          simp [List.filterMap_cons, List.filterMap_append, aGuardOf, guardOf, here, hq, runScript_noGuards, ih]

end AD
end Tbox.C16
