/-
C16 — invariants of the ARENA model WITH definition calls issued while the machines run, proofs:
every invocation `dCall tpl fuel` (any table of definition calls, any fuel, any store, any target,
any scripts) satisfies `GoodD`; programs `dProg tpl` keep every machine idle between calls and `MInv`.

Same structure as ArenaProofs.lean; where that file used "every machine keeps its definition"
(`PresX.defs`) this one uses "machine `k`, inside its own method and running, keeps its state table"
(`PresD.defs` for nested invocations, `PresD.xdef` for `k`'s own code), which needs `running` of
`k` at every site: `runReject/stopReject = none` give it, `start()` has just written it.
-/
import TboxModel.C16.ArenaDInv
set_option linter.unusedSimpArgs false
set_option linter.unusedVariables false
namespace Tbox.C16
namespace AD
open Arena AI

theorem frozen_rtD {g g' : Arena} {tr : ATrace} {k : Nat} (h : PresD none g g' tr) (hb : busy g k) :
    (g'.get k).rt = (g.get k).rt ∧ QuietFor k tr ∧ busy g' k :=
  have a := h.frozen k (by simp) hb
  ⟨a.1, a.2, busy_of_rt a.1 hb⟩

theorem aScript_presD (rec : Rec) (hg : GoodD rec) (self : Nat) :
    ∀ (sc : Script) (g : Arena), busy g self → PresD none g (aScript rec self g sc).1 (aScript rec self g sc).2
  | [], g, _ => PresD.refl none g
  | .obs t :: rest, g, hb => by
    simp only [aScript]
    have ih := aScript_presD rec hg self rest g hb
    exact ((presD_scriptEvent g ⟨self, .obs t (g.view (t.getD self))⟩ rfl (by simp [selfRejD])).trans ih).of_eq rfl
  | .call t c :: rest, g, hb => by
    simp only [aScript]
    have hx := hg g (t.getD self) c
    have hb1 : busy (rec g (t.getD self) c).1 self := (frozen_rtD hx.1 hb).2.2
    have ih := aScript_presD rec hg self rest _ hb1
    have hev : selfRejD ⟨self, .call t c (rec g (t.getD self) c).2.1 (g.view (t.getD self)) ((rec g (t.getD self) c).1.view (t.getD self))⟩ := by
      simp only [selfRejD]
      refine ⟨fun i hi => ?_, fun hnd ht => ?_⟩
      · exact ⟨by unfold Arena.view; rw [(hx.2.2 i hi).1], fun hv => (hx.2.2 i hi).2 hv⟩
      · have hb' : busy g (t.getD self) := by rw [ht]; exact hb
        have := hx.2.1 hnd hb'
        exact ⟨this.2, by rw [this.1]⟩
    exact (hx.1.trans ((presD_scriptEvent _ _ rfl hev).trans ih)).of_eq (by simp)

theorem aProbe_presD (rec : Rec) (hg : GoodD rec) (k : Nat) (g : Arena) (mk : Bool → Kind) (p : Option Script) (hb : busy g k) :
    ∃ tr', (aProbe rec k g mk p).2 = ⟨k, mk p.isSome⟩ :: tr' ∧ PresD none g (aProbe rec k g mk p).1 tr' := by
  cases p with
  | none => exact ⟨[], rfl, PresD.refl none g⟩
  | some sc => exact ⟨_, rfl, aScript_presD rec hg k sc g hb⟩

theorem aSubCall_presD (rec : Rec) (hg : GoodD rec) (g : Arena) (k : Nat) (c : Call) :
    PresD none g (aSubCall rec g k c).1 (aSubCall rec g k c).2 := by
  unfold aSubCall
  split
  · exact presD_unm g k
  · split
    · exact PresD.refl none g
    · exact (hg g _ c).1

theorem aExit_presD (rec : Rec) (hg : GoodD rec) (g : Arena) (k : Nat) (e : Event) (cs : StateDef Nat)
    (hcs : g.curState k = some cs) (hb : busy g k) :
    ∃ tr', (aExit rec g k e).2 = ⟨k, .exit cs.id e cs.exit.isSome⟩ :: tr' ∧ PresD none g (aExit rec g k e).1 tr' := by
  unfold aExit; rw [hcs]; exact aProbe_presD rec hg k g _ _ hb

theorem presD_inc (g : Arena) (k : Nat) : PresD (some k) g (g.incLevel k) [] := presD_updRt g k _
theorem presD_dec (g : Arena) (k : Nat) : PresD (some k) g (g.decLevel k) [] := presD_updRt g k _

theorem aStart_goodD (rec : Rec) (hg : GoodD rec) (g : Arena) (k : Nat) (hk : k < g.length) :
    PresD none g (aStart Fix.all rec g k).1 (aStart Fix.all rec g k).2.2 ∧
    (busy g k → (aStart Fix.all rec g k).1 = g ∧ (aStart Fix.all rec g k).2.1 = false) := by
  unfold aStart
  simp only []
  cases h1 : startReject (g.get k).rt with
  | some r => exact ⟨PresD.refl none g, fun _ => ⟨rfl, startReject_false h1⟩⟩
  | none =>
    have h0 := startReject_none h1
    have hidle : ¬ busy g k := by unfold busy; simp [h0.2]
    cases h2 : (g.get k).findState (g.get k).init with
    | none => exact ⟨PresD.refl none g, fun hb => absurd hb hidle⟩
    | some st =>
      refine ⟨?_, fun hb => absurd hb hidle⟩
      simp only [Fix.all, if_true]
      -- g1
      have hlen0 : k < (g.updRt k fun rt => { rt with running := true, curr := some st.id }).length := by
        rw [length_updRt]; exact hk
      generalize hg1 : ((g.updRt k fun rt => { rt with running := true, curr := some st.id }).incLevel k) = g1
      have hrt1 : (g1.get k).rt = { (g.get k).rt with running := true, curr := some st.id, cbLevel := (g.get k).rt.cbLevel + 1 } := by
        rw [← hg1, incLevel_rt _ k hlen0, rt_updRt_self g k _ hk]
      have hb1 : busy g1 k := by rw [← hg1]; exact busy_inc _ k hlen0
      have hr1 : (g1.get k).rt.running = true := by rw [hrt1]
      have P1 : PresD (some k) g g1 [] := by
        rw [← hg1]; exact ((presD_updRt g k _).trans (presD_inc _ k)).of_eq rfl
      obtain ⟨tr', hp2, P2⟩ := aProbe_presD rec hg k g1 (.enter st.id ev0) st.enter hb1
      generalize hp : aProbe rec k g1 (.enter st.id ev0) st.enter = p at hp2 P2
      have F2 := frozen_rtD P2 hb1
      have P3 := aSubCall_presD rec hg p.1 k .start
      generalize hs : aSubCall rec p.1 k .start = s at P3
      have F3 := frozen_rtD P3 F2.2.2
      have hlen3 : k < s.1.length := by rw [P3.len, P2.len, P1.len]; exact hk
      have hrtF : ((s.1.decLevel k).get k).rt = { (g.get k).rt with running := true, curr := some st.id, cbLevel := (g.get k).rt.cbLevel + 1 - 1 } := by
        rw [decLevel_rt _ k hlen3, F3.1, F2.1, hrt1]
      have PX : PresD (some k) g (s.1.decLevel k) (p.2 ++ s.2) :=
        (P1.trans ((presD_ownEvent g1 k (.enter st.id ev0 st.enter.isSome) rfl).trans
          ((P2.weaken k hb1 hr1).trans ((P3.weaken k F2.2.2 (by rw [F2.1]; exact hr1)).trans (presD_dec s.1 k))))).of_eq (by simp [hp2])
      refine presD_of_presX PX hidle ?_ ?_
      · unfold busy; rw [hrtF]; simp [h0.2]
      · intro T hT
        have hcn : (g.get k).rt.curr = none := by
          have := hT.wf; rw [h0.1] at this
          cases hc : (g.get k).rt.curr with
          | none => rfl
          | some c => rw [hc] at this; simp at this
        have hid := findState_id' _ _ _ h2
        refine ⟨by rw [hrtF]; simp, ?_, ?_⟩
        · intro c hc
          rw [hrtF] at hc; simp only [Option.some.injEq] at hc; subst hc
          rw [stateOf_states (PX.xdef k rfl), hid]
          simp [MachOf.stateOf, h2, hid]
        · intro s'
          rw [hrtF, delta_append, delta_append, hp2]
          simp only [AI.delta]
          rw [delta_quiet k s' tr' F2.2.1, delta_quiet k s' s.2 F3.2.1, hT.bal s', hcn]
          simp [AI.evDelta]

/-- `aExit` whatever `curr_state_` is: neutral for the others, `k`'s record untouched -/
theorem aExit_presXD (rec : Rec) (hg : GoodD rec) (g : Arena) (k : Nat) (e : Event) (hb : busy g k)
    (hr : (g.get k).rt.running = true) :
    PresD (some k) g (aExit rec g k e).1 (aExit rec g k e).2 ∧ ((aExit rec g k e).1.get k).rt = (g.get k).rt ∧
    busy (aExit rec g k e).1 k := by
  cases hcs : g.curState k with
  | none =>
    have : aExit rec g k e = (g, unm k) := by unfold aExit; rw [hcs]
    rw [this]; exact ⟨presD_unmX g k, rfl, hb⟩
  | some cs =>
    obtain ⟨tr', h1, P⟩ := aExit_presD rec hg g k e cs hcs hb
    have F := frozen_rtD P hb
    exact ⟨((presD_ownEvent g k _ rfl).trans (P.weaken k hb hr)).of_eq (by rw [h1]; rfl), F.1, F.2.2⟩

theorem aStop_goodD (rec : Rec) (hg : GoodD rec) (g : Arena) (k : Nat) (hk : k < g.length) :
    PresD none g (aStop Fix.all rec g k).1 (aStop Fix.all rec g k).2 ∧ (busy g k → (aStop Fix.all rec g k).1 = g) := by
  unfold aStop
  simp only []
  cases h1 : stopReject (g.get k).rt with
  | some r => exact ⟨PresD.refl none g, fun _ => rfl⟩
  | none =>
    have h0 := stopReject_none h1
    have hidle : ¬ busy g k := by unfold busy; simp [h0.2]
    refine ⟨?_, fun hb => absurd hb hidle⟩
    simp only [Fix.all, if_true]
    have hb1 : busy (g.incLevel k) k := busy_inc g k hk
    have hrt1 := incLevel_rt g k hk
    have P1 := presD_inc g k
    have hr1 : ((g.incLevel k).get k).rt.running = true := by rw [hrt1]; exact h0.1
    generalize g.incLevel k = g1 at hb1 hrt1 P1 hr1
    have P2 := aSubCall_presD rec hg g1 k .stop
    generalize aSubCall rec g1 k .stop = s at P2
    have F2 := frozen_rtD P2 hb1
    have X := aExit_presXD rec hg s.1 k ev0 F2.2.2 (by rw [F2.1]; exact hr1)
    have hlenx : k < (aExit rec s.1 k ev0).1.length := by rw [X.1.len, P2.len, P1.len]; exact hk
    have hlend : k < ((aExit rec s.1 k ev0).1.decLevel k).length := by unfold decLevel; rw [length_updRt]; exact hlenx
    have hrtF : (((((aExit rec s.1 k ev0).1.decLevel k).updRt k fun rt => { rt with curr := none, running := false })).get k).rt
        = { (g.get k).rt with curr := none, running := false, cbLevel := (g.get k).rt.cbLevel + 1 - 1 } := by
      rw [rt_updRt_self _ k _ hlend, decLevel_rt _ k hlenx, X.2.1, F2.1, hrt1]
    have PX : PresD (some k) g ((((aExit rec s.1 k ev0).1.decLevel k).updRt k fun rt => { rt with curr := none, running := false }))
        (s.2 ++ (aExit rec s.1 k ev0).2) :=
      (P1.trans ((P2.weaken k hb1 hr1).trans (X.1.trans ((presD_dec _ k).trans (presD_updRt _ k _))))).of_eq (by simp)
    refine presD_of_presX PX hidle ?_ ?_
    · unfold busy; rw [hrtF]; simp [h0.2]
    · intro T hT
      refine ⟨by rw [hrtF]; simp, fun c hc => by rw [hrtF] at hc; simp at hc, ?_⟩
      intro s'
      have hw := hT.wf; rw [h0.1] at hw
      cases hc : (g.get k).rt.curr with
      | none => rw [hc] at hw; simp at hw
      | some c =>
        have hcs : s.1.curState k = some ((s.1.get k).stateOf c) := curState_of_curr (by rw [F2.1, hrt1]; exact hc)
        obtain ⟨tr', hx, Px⟩ := aExit_presD rec hg s.1 k ev0 _ hcs F2.2.2
        have Fx := frozen_rtD Px F2.2.2
        have hid : ((s.1.get k).stateOf c).id = c := by
          rw [stateOf_states ((P2.defs k hb1 hr1).trans (P1.xdef k rfl))]; exact hT.cid c hc
        rw [hrtF, delta_append, delta_append, hx]
        simp only [AI.delta]
        rw [delta_quiet k s' tr' Fx.2.1, delta_quiet k s' s.2 F2.2.1, hT.bal s', hc, hid]
        simp only [AI.evDelta, Option.some.injEq]
        by_cases hcs' : c = s' <;> simp [hcs']

/-- one `if (f) f(event)` of machine `k`'s own code -/
theorem probe_stepD (rec : Rec) (hg : GoodD rec) (k : Nat) (g : Arena) (mk : Bool → Kind) (p : Option Script) (hb : busy g k)
    (hr : (g.get k).rt.running = true) (hnc : ∀ b, notCall (mk b) = true) :
    PresD (some k) g (aProbe rec k g mk p).1 (aProbe rec k g mk p).2 ∧ ((aProbe rec k g mk p).1.get k).rt = (g.get k).rt ∧
    busy (aProbe rec k g mk p).1 k ∧ ∀ s, AI.delta k s (aProbe rec k g mk p).2 = AI.evDelta k s ⟨k, mk p.isSome⟩ := by
  obtain ⟨tr', h1, P⟩ := aProbe_presD rec hg k g mk p hb
  have F := frozen_rtD P hb
  refine ⟨((presD_ownEvent g k _ (hnc _)).trans (P.weaken k hb hr)).of_eq (by rw [h1]; rfl), F.1, F.2.2, fun s => ?_⟩
  rw [h1]; simp only [AI.delta]; rw [delta_quiet k s tr' F.2.1]; simp

theorem sub_stepD (rec : Rec) (hg : GoodD rec) (k : Nat) (g : Arena) (c : Call) (hb : busy g k)
    (hr : (g.get k).rt.running = true) :
    PresD (some k) g (aSubCall rec g k c).1 (aSubCall rec g k c).2 ∧ ((aSubCall rec g k c).1.get k).rt = (g.get k).rt ∧
    busy (aSubCall rec g k c).1 k ∧ ∀ s, AI.delta k s (aSubCall rec g k c).2 = 0 := by
  have P := aSubCall_presD rec hg g k c
  have F := frozen_rtD P hb
  exact ⟨P.weaken k hb hr, F.1, F.2.2, fun s => delta_quiet k s _ F.2.1⟩

theorem exit_deltaD (rec : Rec) (hg : GoodD rec) (g : Arena) (k : Nat) (e : Event) (cs : StateDef Nat)
    (hcs : g.curState k = some cs) (hb : busy g k) (s : StateId) :
    AI.delta k s (aExit rec g k e).2 = if cs.id = s then -1 else 0 := by
  obtain ⟨tr', h1, P⟩ := aExit_presD rec hg g k e cs hcs hb
  have F := frozen_rtD P hb
  rw [h1]; simp only [AI.delta]; rw [delta_quiet k s tr' F.2.1]; simp [AI.evDelta]

theorem aRouteScan_presXD (rec : Rec) (hg : GoodD rec) (k : Nat) (sid : StateId) (e : Event) :
    ∀ (rs : List Route) (i : Nat) (g : Arena), busy g k → (g.get k).rt.running = true →
      PresD (some k) g (aRouteScan rec k sid e i g rs).1 (aRouteScan rec k sid e i g rs).2.2 ∧
      ((aRouteScan rec k sid e i g rs).1.get k).rt = (g.get k).rt ∧
      ∀ s, AI.delta k s (aRouteScan rec k sid e i g rs).2.2 = 0
  | [], i, g, hb, hr => ⟨PresD.refl _ g, rfl, fun s => rfl⟩
  | r :: rs, i, g, hb, hr => by
    unfold aRouteScan
    split
    · exact aRouteScan_presXD rec hg k sid e rs (i + 1) g hb hr
    · cases hgd : r.guard with
      | none => exact ⟨PresD.refl _ g, rfl, fun s => rfl⟩
      | some gd =>
        simp only []
        have S := aScript_presD rec hg k gd.script g hb
        have F := frozen_rtD S hb
        split
        · refine ⟨((presD_ownEvent g k (.guard sid i e (gd.eval e)) rfl).trans (S.weaken k hb hr)).of_eq rfl, F.1, fun s => ?_⟩
          simp only [AI.delta]; rw [delta_quiet k s _ F.2.1]; simp [AI.evDelta]
        · have ih := aRouteScan_presXD rec hg k sid e rs (i + 1) _ F.2.2 (by rw [F.1]; exact hr)
          refine ⟨((presD_ownEvent g k (.guard sid i e (gd.eval e)) rfl).trans ((S.weaken k hb hr).trans ih.1)).of_eq (by simp), ih.2.1.trans F.1, fun s => ?_⟩
          simp only [List.cons_append, AI.delta]; rw [delta_append, delta_quiet k s _ F.2.1, ih.2.2 s]; simp [AI.evDelta]

theorem aDelegate_presXD (rec : Rec) (hg : GoodD rec) (g : Arena) (k : Nat) (e : Event) (hk : k < g.length)
    (hr : (g.get k).rt.running = true) :
    PresD (some k) g (aDelegate Fix.all rec g k e).1 (aDelegate Fix.all rec g k e).2.2 ∧
    ((aDelegate Fix.all rec g k e).1.get k).rt = (g.get k).rt ∧ ∀ s, AI.delta k s (aDelegate Fix.all rec g k e).2.2 = 0 := by
  unfold aDelegate
  cases hcs : g.curState k with
  | none => exact ⟨presD_unmX g k, rfl, fun s => by simp [unm, AI.delta, AI.evDelta]⟩
  | some cs =>
    simp only []
    cases hsub : cs.sub with
    | none => exact ⟨PresD.refl _ g, rfl, fun s => rfl⟩
    | some j =>
      simp only [Fix.all, if_true]
      have hb0 := busy_inc g k hk
      have hrt0 := incLevel_rt g k hk
      have P0 := presD_inc g k
      have hcs0 : (g.incLevel k).curState k = some cs := by
        rw [curState_congrD (by rw [hrt0]) (P0.xdef k rfl)]; exact hcs
      have hr0 : ((g.incLevel k).get k).rt.running = true := by rw [hrt0]; exact hr
      generalize g.incLevel k = g0 at hb0 hrt0 P0 hcs0 hr0
      have R := (hg g0 j (.run e)).1
      generalize rec g0 j (.run e) = r at R
      have FR := frozen_rtD R hb0
      have hcs1 : r.1.curState k = some cs := by
        rw [curState_congrD (by rw [FR.1]) (R.defs k hb0 hr0)]; exact hcs0
      have hlenr : k < r.1.length := by rw [R.len, P0.len]; exact hk
      rw [hcs1]; simp only [hsub]
      split
      · refine ⟨(P0.trans ((R.weaken k hb0 hr0).trans (presD_dec r.1 k))).of_eq (by simp), ?_, fun s => delta_quiet k s _ FR.2.1⟩
        rw [decLevel_rt _ k hlenr, FR.1, hrt0]; exact rt_inc_dec _
      · have S := sub_stepD rec hg k r.1 .stop FR.2.2 (by rw [FR.1]; exact hr0)
        generalize aSubCall rec r.1 k .stop = s at S
        have hlens : k < s.1.length := by rw [S.1.len]; exact hlenr
        refine ⟨(P0.trans ((R.weaken k hb0 hr0).trans (S.1.trans (presD_dec s.1 k)))).of_eq (by simp), ?_, fun s' => ?_⟩
        · rw [decLevel_rt _ k hlens, S.2.1, FR.1, hrt0]; exact rt_inc_dec _
        · rw [delta_append, delta_quiet k s' _ FR.2.1, S.2.2.2 s']; rfl

theorem aHandlers_presXD (rec : Rec) (hg : GoodD rec) (g : Arena) (k : Nat) (cs : StateDef Nat) (e : Event) (hk : k < g.length)
    (hr : (g.get k).rt.running = true) :
    PresD (some k) g (aHandlers rec g k cs e).1 (aHandlers rec g k cs e).2.2 ∧
    ((aHandlers rec g k cs e).1.get k).rt = (g.get k).rt ∧ ∀ s, AI.delta k s (aHandlers rec g k cs e).2.2 = 0 := by
  unfold aHandlers
  simp only []
  have hb0 := busy_inc g k hk
  have hrt0 := incLevel_rt g k hk
  have P0 := presD_inc g k
  have hr0 : ((g.incLevel k).get k).rt.running = true := by rw [hrt0]; exact hr
  generalize g.incLevel k = g1 at hb0 hrt0 P0 hr0
  have key : ∀ (sc : Script) (kd : Kind), notCall kd = true → (∀ s, AI.evDelta k s ⟨k, kd⟩ = 0) →
      PresD (some k) g ((aScript rec k g1 sc).1.decLevel k) (⟨k, kd⟩ :: (aScript rec k g1 sc).2) ∧
      (((aScript rec k g1 sc).1.decLevel k).get k).rt = (g.get k).rt ∧
      ∀ s, AI.delta k s (⟨k, kd⟩ :: (aScript rec k g1 sc).2) = 0 := by
    intro sc kd hkd hd
    have S := aScript_presD rec hg k sc g1 hb0
    have F := frozen_rtD S hb0
    have hl : k < (aScript rec k g1 sc).1.length := by rw [S.len, P0.len]; exact hk
    refine ⟨(P0.trans ((presD_ownEvent g1 k kd hkd).trans ((S.weaken k hb0 hr0).trans (presD_dec _ k)))).of_eq (by simp), ?_, fun s => ?_⟩
    · rw [decLevel_rt _ k hl, F.1, hrt0]; exact rt_inc_dec _
    · simp only [AI.delta]; rw [hd s, delta_quiet k s _ F.2.1]; rfl
  split
  · exact key _ _ rfl (fun s => by simp [AI.evDelta])
  · split
    · exact key _ _ rfl (fun s => by simp [AI.evDelta])
    · have hl : k < g1.length := by rw [P0.len]; exact hk
      refine ⟨(P0.trans (presD_dec g1 k)).of_eq rfl, ?_, fun s => rfl⟩
      rw [decLevel_rt _ k hl, hrt0]; exact rt_inc_dec _

theorem aSelect_presXD (rec : Rec) (hg : GoodD rec) (g : Arena) (k : Nat) (e : Event) (hret : Int) (hk : k < g.length)
    (hr : (g.get k).rt.running = true) :
    PresD (some k) g (aSelect rec g k e hret).1 (aSelect rec g k e hret).2.2 ∧
    ((aSelect rec g k e hret).1.get k).rt = (g.get k).rt ∧ ∀ s, AI.delta k s (aSelect rec g k e hret).2.2 = 0 := by
  unfold aSelect
  split
  · split
    · exact ⟨presD_unmX g k, rfl, fun s => by simp [unm, AI.delta, AI.evDelta]⟩
    · rename_i cs2 hcs2
      simp only []
      have hb0 := busy_inc g k hk
      have hrt0 := incLevel_rt g k hk
      have P0 := presD_inc g k
      have hr0 : ((g.incLevel k).get k).rt.running = true := by rw [hrt0]; exact hr
      generalize g.incLevel k = g1 at hb0 hrt0 P0 hr0
      have R := aRouteScan_presXD rec hg k cs2.id e cs2.routes 0 g1 hb0 hr0
      generalize aRouteScan rec k cs2.id e 0 g1 cs2.routes = sc at R
      have hl : k < sc.1.length := by rw [R.1.len, P0.len]; exact hk
      have hrt : ((sc.1.decLevel k).get k).rt = (g.get k).rt := by
        rw [decLevel_rt _ k hl, R.2.1, hrt0]; exact rt_inc_dec _
      have PX : PresD (some k) g (sc.1.decLevel k) sc.2.2 := (P0.trans (R.1.trans (presD_dec _ k))).of_eq (by simp)
      split
      · exact ⟨PX, hrt, R.2.2⟩
      · exact ⟨PX, hrt, R.2.2⟩
  · exact ⟨PresD.refl _ g, rfl, fun s => rfl⟩

theorem aTransition_bodyD (rec : Rec) (hg : GoodD rec) (g : Arena) (k : Nat) (e : Event) (nextId : StateId) (ridx : Option Nat)
    (action : Option Script) (hk : k < g.length) (hidle : ¬ busy g k)
    (hr : (g.get k).rt.running = true) :
    PresD (some k) g (aTransition rec g k e nextId ridx action).1 (aTransition rec g k e nextId ridx action).2.2 ∧
    ¬ busy (aTransition rec g k e nextId ridx action).1 k ∧
    ∀ T c, (g.get k).rt.curr = some c → MInv (g.get k) k T →
      MInv ((aTransition rec g k e nextId ridx action).1.get k) k (T ++ (aTransition rec g k e nextId ridx action).2.2) := by
  have hl0 : (g.get k).rt.cbLevel = 0 := by unfold busy at hidle; simpa using hidle
  unfold aTransition
  cases hres : (g.get k).resolve nextId with
  | none =>
    simp only []
    refine ⟨presD_updRt g k _, ?_, ?_⟩
    · unfold busy; rw [rt_updRt_self g k _ hk]; simpa using hl0
    · intro T c hc hT
      have hd := sameDef_updRt g k k (fun rt => { rt with next := none })
      refine ⟨?_, ?_, ?_⟩
      · rw [rt_updRt_self g k _ hk]; exact hT.wf
      · intro c' hc'; rw [rt_updRt_self g k _ hk] at hc'; rw [stateOf_sameDef hd]; exact hT.cid c' hc'
      · intro s; rw [rt_updRt_self g k _ hk]; simpa using hT.bal s
  | some ts =>
    simp only []
    have hRS := resolve_stateOf _ _ _ hres
    have hts : (g.get k).stateOf ts.id = ts := by have := hRS.2; rw [← hRS.1] at this; exact this
    -- g4
    have hlen0 : k < (g.updRt k fun rt => { rt with next := some ts.id }).length := by rw [length_updRt]; exact hk
    have hrt4 : (((g.updRt k fun rt => { rt with next := some ts.id }).incLevel k).get k).rt =
        { (g.get k).rt with next := some ts.id, cbLevel := (g.get k).rt.cbLevel + 1 } := by
      rw [incLevel_rt _ k hlen0, rt_updRt_self g k _ hk]
    have hb4 := busy_inc _ k hlen0
    have P4 : PresD (some k) g ((g.updRt k fun rt => { rt with next := some ts.id }).incLevel k) [] :=
      ((presD_updRt g k _).trans (presD_inc _ k)).of_eq rfl
    generalize ((g.updRt k fun rt => { rt with next := some ts.id }).incLevel k) = g4 at hrt4 hb4 P4
    have hr4 : (g4.get k).rt.running = true := by rw [hrt4]; exact hr
    -- exit
    have X := aExit_presXD rec hg g4 k e hb4 hr4
    have hXd : ∀ c, (g.get k).rt.curr = some c → ∀ s, AI.delta k s (aExit rec g4 k e).2 = if ((g.get k).stateOf c).id = s then -1 else 0 := by
      intro c hc s
      have hcs : g4.curState k = some ((g4.get k).stateOf c) := curState_of_curr (by rw [hrt4]; exact hc)
      rw [exit_deltaD rec hg g4 k e _ hcs hb4 s, stateOf_states (P4.xdef k rfl)]
    generalize aExit rec g4 k e = x at X hXd
    have hlx : k < x.1.length := by rw [X.1.len, P4.len]; exact hk
    -- g5
    have hrt5 := rt_updRt_self x.1 k (fun rt => { rt with last := rt.curr, curr := none }) hlx
    have hb5 := busy_updRt_level x.1 k (fun rt => { rt with last := rt.curr, curr := none }) hlx (fun _ => rfl) X.2.2
    have P5 := presD_updRt x.1 k (fun rt => { rt with last := rt.curr, curr := none })
    generalize (optInt (x.1.get k).rt.curr) = src
    generalize x.1.updRt k (fun rt => { rt with last := rt.curr, curr := none }) = g5 at hrt5 hb5 P5
    have hr5 : (g5.get k).rt.running = true := by
      rw [hrt5]; show (x.1.get k).rt.running = true; rw [X.2.1]; exact hr4
    -- action
    have A := probe_stepD rec hg k g5 (.action src ridx e) action hb5 hr5 (fun _ => rfl)
    generalize aProbe rec k g5 (.action src ridx e) action = a at A
    have hla : k < a.1.length := by rw [A.1.len, P5.len]; exact hlx
    -- g6
    have hrt6 := rt_updRt_self a.1 k (fun rt => { rt with curr := rt.next, next := none }) hla
    have hb6 := busy_updRt_level a.1 k (fun rt => { rt with curr := rt.next, next := none }) hla (fun _ => rfl) A.2.2.1
    have P6 := presD_updRt a.1 k (fun rt => { rt with curr := rt.next, next := none })
    generalize a.1.updRt k (fun rt => { rt with curr := rt.next, next := none }) = g6 at hrt6 hb6 P6
    have hrt6' : (g6.get k).rt = { (g.get k).rt with last := (g.get k).rt.curr, curr := some ts.id, next := none, cbLevel := (g.get k).rt.cbLevel + 1 } := by
      rw [hrt6, A.2.1, hrt5, X.2.1, hrt4]
    have hcs6 : g6.curState k = some ((g6.get k).stateOf ts.id) := curState_of_curr (by rw [hrt6'])
    rw [hcs6]; simp only []
    have hr6 : (g6.get k).rt.running = true := by rw [hrt6']; exact hr
    have hd6 : (g6.get k).states = (g.get k).states :=
      (P6.xdef k rfl).trans ((A.1.xdef k rfl).trans ((P5.xdef k rfl).trans ((X.1.xdef k rfl).trans (P4.xdef k rfl))))
    have hns : ((g6.get k).stateOf ts.id).id = ts.id := by
      rw [stateOf_states hd6, hts]
    generalize (g6.get k).stateOf ts.id = ns at hns
    -- enter, notify
    have EN := probe_stepD rec hg k g6 (.enter ns.id e) ns.enter hb6 hr6 (fun _ => rfl)
    generalize aProbe rec k g6 (.enter ns.id e) ns.enter = en at EN
    have CB := probe_stepD rec hg k en.1 (.notify (optInt (en.1.get k).rt.last) (optInt (en.1.get k).rt.curr) e) (en.1.get k).cb EN.2.2.1
      (by rw [EN.2.1]; exact hr6) (fun _ => rfl)
    generalize aProbe rec k en.1 (.notify (optInt (en.1.get k).rt.last) (optInt (en.1.get k).rt.curr) e) (en.1.get k).cb = cb at CB
    -- sub-machine start / run
    have S1 := sub_stepD rec hg k cb.1 .start CB.2.2.1 (by rw [CB.2.1, EN.2.1]; exact hr6)
    generalize aSubCall rec cb.1 k .start = s1 at S1
    have S2' : PresD (some k) s1.1 (aSubRun rec s1.1 k e).1 (aSubRun rec s1.1 k e).2 ∧
        ((aSubRun rec s1.1 k e).1.get k).rt = (s1.1.get k).rt ∧ ∀ s, AI.delta k s (aSubRun rec s1.1 k e).2 = 0 := by
      unfold aSubRun
      split
      · split
        · have := sub_stepD rec hg k s1.1 (.run e) S1.2.2.1 (by rw [S1.2.1, CB.2.1, EN.2.1]; exact hr6); exact ⟨this.1, this.2.1, this.2.2.2⟩
        · exact ⟨PresD.refl _ _, rfl, fun s => rfl⟩
      · exact ⟨PresD.refl _ _, rfl, fun s => rfl⟩
    generalize aSubRun rec s1.1 k e = s2 at S2'
    have hl2 : k < s2.1.length := by
      rw [S2'.1.len, S1.1.len, CB.1.len, EN.1.len, P6.len]; exact hla
    have hrtF : ((s2.1.decLevel k).get k).rt = { (g.get k).rt with last := (g.get k).rt.curr, curr := some ts.id, next := none, cbLevel := (g.get k).rt.cbLevel + 1 - 1 } := by
      rw [decLevel_rt _ k hl2, S2'.2.1, S1.2.1, CB.2.1, EN.2.1, hrt6']
    have PX : PresD (some k) g (s2.1.decLevel k) (x.2 ++ a.2 ++ en.2 ++ cb.2 ++ s1.2 ++ s2.2) :=
      (P4.trans (X.1.trans (P5.trans (A.1.trans (P6.trans (EN.1.trans (CB.1.trans (S1.1.trans (S2'.1.trans (presD_dec _ k)))))))))).of_eq (by simp)
    refine ⟨PX, ?_, ?_⟩
    · unfold busy; rw [hrtF]; simp [hl0]
    · intro T c hc hT
      refine ⟨?_, ?_, ?_⟩
      · rw [hrtF]; simp; rw [hT.wf, hc]; rfl
      · intro c' hc'
        rw [hrtF] at hc'; simp only [Option.some.injEq] at hc'; subst hc'
        rw [stateOf_states (PX.xdef k rfl), hts]
      · intro s
        rw [hrtF]
        simp only [delta_append]
        rw [hXd c hc s, A.2.2.2 s, EN.2.2.2 s, CB.2.2.2 s, S1.2.2.2 s, S2'.2.2 s, hT.bal s, hc, hT.cid c hc, hns]
        simp only [AI.evDelta, Option.some.injEq]
        by_cases h1 : c = s <;> by_cases h2 : ts.id = s <;> simp [h1, h2]

/-- a fragment of `k`'s own code that leaves `k`'s record and balance alone -/
def QStepD (k : Nat) (g g' : Arena) (tr : ATrace) : Prop :=
  PresD (some k) g g' tr ∧ (g'.get k).rt = (g.get k).rt ∧ ∀ s, AI.delta k s tr = 0

theorem QStepD.trans {k : Nat} {g g1 g2 : Arena} {t1 t2 : ATrace} (h1 : QStepD k g g1 t1) (h2 : QStepD k g1 g2 t2) :
    QStepD k g g2 (t1 ++ t2) :=
  ⟨h1.1.trans h2.1, h2.2.1.trans h1.2.1, fun s => by rw [delta_append, h1.2.2 s, h2.2.2 s]; rfl⟩

theorem QStepD.minv {k : Nat} {g g' : Arena} {tr : ATrace} (h : QStepD k g g' tr) (T : ATrace) (hT : MInv (g.get k) k T) :
    MInv (g'.get k) k (T ++ tr) :=
  ⟨by rw [h.2.1]; exact hT.wf,
   fun c hc => by rw [stateOf_states (h.1.xdef k rfl)]; exact hT.cid c (by rw [← h.2.1]; exact hc),
   fun s => by rw [delta_append, h.2.2 s, h.2.1, hT.bal s]; simp⟩

theorem QStepD.pres {k : Nat} {g g' : Arena} {tr : ATrace} (h : QStepD k g g' tr) (hidle : ¬ busy g k) : PresD none g g' tr :=
  presD_of_presX h.1 hidle (by unfold busy; rw [h.2.1]; exact hidle) (fun T hT => h.minv T hT)

theorem aRun_goodD (rec : Rec) (hg : GoodD rec) (g : Arena) (k : Nat) (e : Event) (hk : k < g.length) :
    PresD none g (aRun Fix.all rec g k e).1 (aRun Fix.all rec g k e).2.2 ∧
    (busy g k → (aRun Fix.all rec g k e).1 = g ∧ (aRun Fix.all rec g k e).2.1 = false) := by
  unfold aRun
  cases h1 : runReject (g.get k).rt with
  | some r => exact ⟨PresD.refl none g, fun _ => ⟨rfl, runReject_false h1⟩⟩
  | none =>
    have h0 := runReject_none h1
    have hidle : ¬ busy g k := by unfold busy; simp [h0.2]
    refine ⟨?_, fun hb => absurd hb hidle⟩
    simp only []
    have D : QStepD k g (aDelegate Fix.all rec g k e).1 (aDelegate Fix.all rec g k e).2.2 := aDelegate_presXD rec hg g k e hk h0.1
    generalize aDelegate Fix.all rec g k e = d at D
    have hld : k < d.1.length := by rw [D.1.len]; exact hk
    split
    · exact D.pres hidle
    · split
      · exact (D.trans ⟨presD_unmX d.1 k, rfl, fun s => by simp [unm, AI.delta, AI.evDelta]⟩).pres hidle
      · rename_i cs hcs
        have H : QStepD k d.1 (aHandlers rec d.1 k cs e).1 (aHandlers rec d.1 k cs e).2.2 := aHandlers_presXD rec hg d.1 k cs e hld (by rw [D.2.1]; exact h0.1)
        generalize aHandlers rec d.1 k cs e = h at H
        have hlh : k < h.1.length := by rw [H.1.len]; exact hld
        have S : QStepD k h.1 (aSelect rec h.1 k e h.2.1).1 (aSelect rec h.1 k e h.2.1).2.2 := aSelect_presXD rec hg h.1 k e h.2.1 hlh (by rw [H.2.1, D.2.1]; exact h0.1)
        generalize aSelect rec h.1 k e h.2.1 = sel at S
        have hls : k < sel.1.length := by rw [S.1.len]; exact hlh
        have Q : QStepD k g sel.1 (d.2.2 ++ h.2.2 ++ sel.2.2) := (D.trans (H.trans S)).1 |> fun _ => by
          have := D.trans (H.trans S); rw [← List.append_assoc] at this; exact this
        split
        · exact Q.pres hidle
        · rename_i nextId ridx action hsel
          simp only []
          have hidleS : ¬ busy sel.1 k := by unfold busy; rw [Q.2.1]; exact hidle
          have TB := aTransition_bodyD rec hg sel.1 k e nextId ridx action hls hidleS (by rw [Q.2.1]; exact h0.1)
          generalize aTransition rec sel.1 k e nextId ridx action = t at TB
          refine presD_of_presX (Q.1.trans TB.1) hidle TB.2.1 ?_
          intro T hT
          have hw := hT.wf; rw [h0.1] at hw
          cases hc : (g.get k).rt.curr with
          | none => rw [hc] at hw; simp at hw
          | some c =>
            have := TB.2.2 (T ++ (d.2.2 ++ h.2.2 ++ sel.2.2)) c (by rw [Q.2.1]; exact hc) (Q.minv T hT)
            rw [List.append_assoc] at this; exact this

/-- **every invocation of the arena model with a table of definition calls satisfies `GoodD`**: any
table, any fuel, any store, any target, any scripts (callbacks may issue definition calls on any
machine of the store, their own included) -/
theorem good_dCall (tpl : Tpl) : ∀ fuel, GoodD (dCall tpl fuel)
  | 0 => fun g k c => ⟨presD_oof g k, fun _ _ => ⟨rfl, rfl⟩, fun _ _ => ⟨rfl, fun _ => rfl⟩⟩
  | f + 1 => by
    have ih := good_dCall tpl f
    intro g k c
    unfold dCall
    split
    · exact ⟨presD_unm g k, fun _ _ => ⟨rfl, rfl⟩, fun _ _ => ⟨rfl, fun _ => rfl⟩⟩
    · rename_i hk
      have hk : k < g.length := Nat.lt_of_not_le hk
      cases c with
      | start => exact ⟨(aStart_goodD _ ih g k hk).1, fun _ hb => (aStart_goodD _ ih g k hk).2 hb, fun i hi => by cases hi⟩
      | stop => exact ⟨(aStop_goodD _ ih g k hk).1, fun _ hb => ⟨(aStop_goodD _ ih g k hk).2 hb, rfl⟩, fun i hi => by cases hi⟩
      | restart =>
        simp only []
        have S := aStop_goodD _ ih g k hk
        have hk' : k < (aStop Fix.all (dCall tpl f) g k).1.length := by rw [S.1.len]; exact hk
        have R := aStart_goodD _ ih (aStop Fix.all (dCall tpl f) g k).1 k hk'
        refine ⟨S.1.trans R.1, fun _ hb => ?_, fun i hi => by cases hi⟩
        have e1 := S.2 hb
        have hb' : busy (aStop Fix.all (dCall tpl f) g k).1 k := by rw [e1]; exact hb
        have := R.2 hb'
        exact ⟨this.1.trans e1, this.2⟩
      | run e => exact ⟨(aRun_goodD _ ih g k e hk).1, fun _ hb => (aRun_goodD _ ih g k e hk).2 hb, fun i hi => by cases hi⟩
      | defn i =>
        have h := applyDef_defStep tpl g k i
        exact ⟨(presD_defStep h.1).of_eq h.2.symm, fun hnd => absurd rfl (hnd i),
          fun _ _ => ⟨h.1.rt, fun hr => applyDef_res_running tpl g k i hr⟩⟩

end AD

/-! ### programs -/

/-- a program on the arena with the table `tpl`: each step is an invocation from outside on machine
`k` — a method, or definition call number `i` of the same table (`.defn i`) -/
def dProg (tpl : Tpl) : Arena → List (Nat × Call) → Arena × ATrace
  | g, [] => (g, [])
  | g, kc :: ops =>
    let r := dCall tpl (fuelFor g) g kc.1 kc.2
    let x := dProg tpl r.1 ops
    (x.1, r.2.2 ++ x.2)

namespace AD
open Arena AI

/-- between calls: every machine object is idle and satisfies its own invariant -/
theorem dProg_inv (tpl : Tpl) : ∀ (ops : List (Nat × Call)) (g : Arena) (T : ATrace), AInv g T →
    AInv (dProg tpl g ops).1 (T ++ (dProg tpl g ops).2)
  | [], g, T, h => by simpa [dProg] using h
  | kc :: ops, g, T, h => by
    simp only [dProg]
    have G := (good_dCall tpl (fuelFor g) g kc.1 kc.2).1
    have h1 : AInv (dCall tpl (fuelFor g) g kc.1 kc.2).1 (T ++ (dCall tpl (fuelFor g) g kc.1 kc.2).2.2) := by
      intro j
      have := G.idle j (by simp) (h j).1
      exact ⟨this.1, this.2 T (h j).2⟩
    have := dProg_inv tpl ops _ _ h1
    rw [List.append_assoc] at this; exact this

theorem dProg_rej (tpl : Tpl) : ∀ (ops : List (Nat × Call)) (g : Arena), SelfRejectedD (dProg tpl g ops).2
  | [], g => by intro ev he; cases he
  | kc :: ops, g => by
    simp only [dProg]
    exact selfRejectedD_append (good_dCall tpl (fuelFor g) g kc.1 kc.2).1.rej (dProg_rej tpl ops _)

end AD
end Tbox.C16
