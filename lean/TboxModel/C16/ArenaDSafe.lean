/-
C16 — arena model with definition calls issued while the machines run: the branches where the C++
would dereference a null `curr_state_` (`unmodelled` events of a machine object of the store) are
unreachable for `dCall tpl` / `dProg tpl`, every table.  Same argument as ArenaSafe.lean; the
definition calls enter through `MInv` being kept by `PresD.idle` (a stopped machine has
`curr_state_ = nullptr`, a running machine keeps its state table).
-/
import TboxModel.C16.ArenaDProofs
import TboxModel.C16.ArenaSafe
set_option linter.unusedSimpArgs false
set_option linter.unusedVariables false
set_option linter.unusedSectionVars false
namespace Tbox.C16
namespace AD
open Arena AI

theorem ctxt_presD {n : Nat} {g g' : Arena} {tr : ATrace} (h : PresD none g g' tr) (c : Ctxt n g) : Ctxt n g' := by
  refine ⟨h.len.trans c.1, fun j hj => ?_⟩
  have hi : ¬ busy g j := fun hb => hj (frozen_rtD h hb).2.2
  exact wfm_preserved (h.idle j (by simp) hi).2 (c.2 j hi)

theorem ctxt_stepD {n k : Nat} {g g' : Arena} {tr : ATrace} (h : PresD (some k) g g' tr) (hb : busy g' k) (c : Ctxt n g) : Ctxt n g' := by
  refine ⟨h.len.trans c.1, fun j hj => ?_⟩
  have hjk : j ≠ k := by intro e; subst e; exact hj hb
  have hi : ¬ busy g j := fun hb' => hj (busy_of_rt (h.frozen j (by simpa using hjk) hb').1 hb')
  exact wfm_preserved (h.idle j (by simpa using hjk) hi).2 (c.2 j hi)

theorem ctxt_qstepD {n k : Nat} {g g' : Arena} {tr : ATrace} (h : QStepD k g g' tr) (c : Ctxt n g) : Ctxt n g' := by
  refine ⟨h.1.len.trans c.1, fun j hj => ?_⟩
  by_cases hjk : j = k
  · subst hjk
    have hi : ¬ busy g j := by unfold busy at *; rw [← h.2.1]; exact hj
    have w := c.2 j hi
    exact ⟨by rw [h.2.1]; exact w.1, fun c' hc' => by rw [stateOf_states (h.1.xdef j rfl)]; exact w.2 c' (by rw [← h.2.1]; exact hc')⟩
  · have hi : ¬ busy g j := fun hb' => hj (busy_of_rt (h.1.frozen j (by simpa using hjk) hb').1 hb')
    exact wfm_preserved (h.1.idle j (by simpa using hjk) hi).2 (c.2 j hi)

/-- a step of busy machine `k`'s own code that consists of complete invocations and script events
only (no `running` of `k` needed): `k` keeps its record and stays busy -/
def WStep (k : Nat) (g g' : Arena) : Prop :=
  (∃ tr, PresD none g g' tr) ∧ (g'.get k).rt = (g.get k).rt ∧ busy g' k

theorem WStep.len {k : Nat} {g g' : Arena} (h : WStep k g g') : g'.length = g.length := by
  obtain ⟨tr, P⟩ := h.1; exact P.len

theorem WStep.ctxt {n k : Nat} {g g' : Arena} (h : WStep k g g') (c : Ctxt n g) : Ctxt n g' := by
  obtain ⟨tr, P⟩ := h.1; exact ctxt_presD P c

theorem wstep_of {k : Nat} {g g' : Arena} {tr : ATrace} (P : PresD none g g' tr) (hb : busy g k) : WStep k g g' :=
  ⟨⟨tr, P⟩, (frozen_rtD P hb).1, (frozen_rtD P hb).2.2⟩

theorem probe_w (rec : Rec) (hg : GoodD rec) (k : Nat) (g : Arena) (mk : Bool → Kind) (p : Option Script) (hb : busy g k) :
    WStep k g (aProbe rec k g mk p).1 := by
  obtain ⟨tr', _, P⟩ := aProbe_presD rec hg k g mk p hb
  exact wstep_of P hb

theorem subcall_w (rec : Rec) (hg : GoodD rec) (k : Nat) (g : Arena) (c : Call) (hb : busy g k) :
    WStep k g (aSubCall rec g k c).1 := wstep_of (aSubCall_presD rec hg g k c) hb

theorem exit_w (rec : Rec) (hg : GoodD rec) (k : Nat) (g : Arena) (e : Event) (hb : busy g k) :
    WStep k g (aExit rec g k e).1 := by
  unfold aExit
  split
  · exact wstep_of (PresD.refl none g) hb
  · exact probe_w rec hg k g _ _ hb

section Pieces
variable (rec : Rec) (hg : GoodD rec) (n : Nat) (UO : UOk rec n)
include hg UO

theorem nou_scriptD (self : Nat) : ∀ (sc : Script) (g : Arena), Ctxt n g → busy g self → NoU n (aScript rec self g sc).2
  | [], g, _, _ => nou_nil n
  | .obs t :: rest, g, hc, hb => by
    simp only [aScript]
    exact nou_cons (fun h => by cases h) (nou_scriptD self rest g hc hb)
  | .call t c :: rest, g, hc, hb => by
    simp only [aScript]
    have hx := (hg g (t.getD self) c).1
    refine nou_append (UO g _ c hc) (nou_cons (fun h => by cases h) ?_)
    exact nou_scriptD self rest _ (ctxt_presD hx hc) (frozen_rtD hx hb).2.2

theorem nou_probeD (k : Nat) (g : Arena) (mk : Bool → Kind) (p : Option Script) (hc : Ctxt n g) (hb : busy g k)
    (hmk : ∀ b, mk b ≠ .unmodelled) : NoU n (aProbe rec k g mk p).2 := by
  cases p with
  | none => exact nou_cons (hmk _) (nou_nil n)
  | some sc => exact nou_cons (hmk _) (nou_scriptD rec hg n UO k sc g hc hb)

theorem nou_subcallD (k : Nat) (g : Arena) (c : Call) (hc : Ctxt n g) (hcur : (g.get k).rt.curr ≠ none) :
    NoU n (aSubCall rec g k c).2 := by
  unfold aSubCall
  split
  · rename_i h; exact absurd h (curState_ne_none hcur)
  · split
    · exact nou_nil n
    · exact UO g _ c hc

theorem nou_exitD (k : Nat) (g : Arena) (e : Event) (hc : Ctxt n g) (hb : busy g k) (hcur : (g.get k).rt.curr ≠ none) :
    NoU n (aExit rec g k e).2 := by
  unfold aExit
  split
  · rename_i h; exact absurd h (curState_ne_none hcur)
  · exact nou_probeD rec hg n UO k g _ _ hc hb (fun b h => by cases h)

theorem nou_subRunD (k : Nat) (g : Arena) (e : Event) (hc : Ctxt n g) (hcur : (g.get k).rt.curr ≠ none) :
    NoU n (aSubRun rec g k e).2 := by
  unfold aSubRun
  split
  · split
    · exact nou_subcallD rec hg n UO k g _ hc hcur
    · exact nou_nil n
  · exact nou_nil n

theorem nou_routeScanD (k : Nat) (sid : StateId) (e : Event) : ∀ (rs : List Route) (i : Nat) (g : Arena),
    Ctxt n g → busy g k → NoU n (aRouteScan rec k sid e i g rs).2.2
  | [], i, g, _, _ => nou_nil n
  | r :: rs, i, g, hc, hb => by
    unfold aRouteScan
    split
    · exact nou_routeScanD k sid e rs (i + 1) g hc hb
    · cases hgd : r.guard with
      | none => exact nou_nil n
      | some gd =>
        simp only []
        have N := nou_scriptD rec hg n UO k gd.script g hc hb
        have P := aScript_presD rec hg k gd.script g hb
        split
        · exact nou_cons (fun h => by cases h) N
        · refine nou_cons (fun h => by cases h) (nou_append N ?_)
          exact nou_routeScanD k sid e rs (i + 1) _ (ctxt_presD P hc) (frozen_rtD P hb).2.2

theorem nou_startD (g : Arena) (k : Nat) (hk : k < g.length) (hc : Ctxt n g) : NoU n (aStart Fix.all rec g k).2.2 := by
  unfold aStart
  simp only []
  cases h1 : startReject (g.get k).rt with
  | some r => exact nou_nil n
  | none =>
    cases h2 : (g.get k).findState (g.get k).init with
    | none => exact nou_nil n
    | some st =>
      simp only [Fix.all, if_true]
      have hlen0 : k < (g.updRt k fun rt => { rt with running := true, curr := some st.id }).length := by
        rw [length_updRt]; exact hk
      have hrt1 : (((g.updRt k fun rt => { rt with running := true, curr := some st.id }).incLevel k).get k).rt.curr = some st.id := by
        rw [incLevel_rt _ k hlen0, rt_updRt_self g k _ hk]
      have hb1 := busy_inc _ k hlen0
      have P1 : PresD (some k) g ((g.updRt k fun rt => { rt with running := true, curr := some st.id }).incLevel k) [] :=
        ((presD_updRt g k _).trans (presD_inc _ k)).of_eq rfl
      generalize ((g.updRt k fun rt => { rt with running := true, curr := some st.id }).incLevel k) = g1 at hrt1 hb1 P1
      have C1 := ctxt_stepD P1 hb1 hc
      have PS := probe_w rec hg k g1 (.enter st.id ev0) st.enter hb1
      have N1 := nou_probeD rec hg n UO k g1 (.enter st.id ev0) st.enter C1 hb1 (fun b h => by cases h)
      generalize aProbe rec k g1 (.enter st.id ev0) st.enter = p at PS N1
      have C2 := PS.ctxt C1
      exact nou_append N1 (nou_subcallD rec hg n UO k p.1 .start C2 (by rw [PS.2.1, hrt1]; simp))

theorem nou_stopD (g : Arena) (k : Nat) (hk : k < g.length) (hc : Ctxt n g) : NoU n (aStop Fix.all rec g k).2 := by
  unfold aStop
  simp only []
  cases h1 : stopReject (g.get k).rt with
  | some r => exact nou_nil n
  | none =>
    have h0 := stopReject_none h1
    have hidle : ¬ busy g k := by unfold busy; simp [h0.2]
    have hcur : (g.get k).rt.curr ≠ none := by
      have := (hc.2 k hidle).1; rw [h0.1] at this
      intro hn; rw [hn] at this; simp at this
    simp only [Fix.all, if_true]
    have hb1 := busy_inc g k hk
    have hrt1 : ((g.incLevel k).get k).rt.curr = (g.get k).rt.curr := by rw [incLevel_rt g k hk]
    have P1 := presD_inc g k
    generalize g.incLevel k = g1 at hb1 hrt1 P1
    have C1 := ctxt_stepD P1 hb1 hc
    have SS := subcall_w rec hg k g1 .stop hb1
    have N1 := nou_subcallD rec hg n UO k g1 .stop C1 (by rw [hrt1]; exact hcur)
    generalize aSubCall rec g1 k .stop = s at SS N1
    have C2 := SS.ctxt C1
    exact nou_append N1 (nou_exitD rec hg n UO k s.1 ev0 C2 SS.2.2 (by rw [SS.2.1, hrt1]; exact hcur))

theorem nou_delegateD (g : Arena) (k : Nat) (e : Event) (hk : k < g.length) (hc : Ctxt n g)
    (hcur : (g.get k).rt.curr ≠ none) (hr : (g.get k).rt.running = true) : NoU n (aDelegate Fix.all rec g k e).2.2 := by
  unfold aDelegate
  cases hcs : g.curState k with
  | none => exact absurd hcs (curState_ne_none hcur)
  | some cs =>
    simp only []
    cases hsub : cs.sub with
    | none => exact nou_nil n
    | some j =>
      simp only [Fix.all, if_true]
      have hb0 := busy_inc g k hk
      have hrt0 := incLevel_rt g k hk
      have P0 := presD_inc g k
      have hcs0 : (g.incLevel k).curState k = some cs := by
        rw [curState_congrD (by rw [hrt0]) (P0.xdef k rfl)]; exact hcs
      have hr0 : ((g.incLevel k).get k).rt.running = true := by rw [hrt0]; exact hr
      generalize g.incLevel k = g0 at hb0 hrt0 P0 hcs0 hr0
      have C0 := ctxt_stepD P0 hb0 hc
      have R := (hg g0 j (.run e)).1
      have N0 := UO g0 j (.run e) C0
      generalize rec g0 j (.run e) = r at R N0
      have FR := frozen_rtD R hb0
      have C1 := ctxt_presD R C0
      have hcs1 : r.1.curState k = some cs := by
        rw [curState_congrD (by rw [FR.1]) (R.defs k hb0 hr0)]; exact hcs0
      rw [hcs1]; simp only [hsub]
      split
      · exact N0
      · exact nou_append N0 (nou_subcallD rec hg n UO k r.1 .stop C1 (by rw [FR.1, hrt0]; exact hcur))

theorem nou_handlersD (g : Arena) (k : Nat) (cs : StateDef Nat) (e : Event) (hk : k < g.length) (hc : Ctxt n g) :
    NoU n (aHandlers rec g k cs e).2.2 := by
  unfold aHandlers
  simp only []
  have hb0 := busy_inc g k hk
  have P0 := presD_inc g k
  generalize g.incLevel k = g1 at hb0 P0
  have C0 := ctxt_stepD P0 hb0 hc
  split
  · exact nou_cons (fun h => by cases h) (nou_scriptD rec hg n UO k _ g1 C0 hb0)
  · split
    · exact nou_cons (fun h => by cases h) (nou_scriptD rec hg n UO k _ g1 C0 hb0)
    · exact nou_nil n

theorem nou_selectD (g : Arena) (k : Nat) (e : Event) (hret : Int) (hk : k < g.length) (hc : Ctxt n g)
    (hcur : (g.get k).rt.curr ≠ none) : NoU n (aSelect rec g k e hret).2.2 := by
  unfold aSelect
  split
  · split
    · rename_i h; exact absurd h (curState_ne_none hcur)
    · rename_i cs2 _
      simp only []
      have hb0 := busy_inc g k hk
      have P0 := presD_inc g k
      generalize g.incLevel k = g1 at hb0 P0
      have C0 := ctxt_stepD P0 hb0 hc
      have N := nou_routeScanD rec hg n UO k cs2.id e cs2.routes 0 g1 C0 hb0
      split
      · exact N
      · exact N
  · exact nou_nil n

theorem nou_transitionD (g : Arena) (k : Nat) (e : Event) (nextId : StateId) (ridx : Option Nat) (action : Option Script)
    (hk : k < g.length) (hc : Ctxt n g) (c : StateId) (hcur : (g.get k).rt.curr = some c) :
    NoU n (aTransition rec g k e nextId ridx action).2.2 := by
  unfold aTransition
  cases hres : (g.get k).resolve nextId with
  | none => exact nou_nil n
  | some ts =>
    simp only []
    have hlen0 : k < (g.updRt k fun rt => { rt with next := some ts.id }).length := by rw [length_updRt]; exact hk
    have hrt4 : (((g.updRt k fun rt => { rt with next := some ts.id }).incLevel k).get k).rt =
        { (g.get k).rt with next := some ts.id, cbLevel := (g.get k).rt.cbLevel + 1 } := by
      rw [incLevel_rt _ k hlen0, rt_updRt_self g k _ hk]
    have hb4 := busy_inc _ k hlen0
    have P4 : PresD (some k) g ((g.updRt k fun rt => { rt with next := some ts.id }).incLevel k) [] :=
      ((presD_updRt g k _).trans (presD_inc _ k)).of_eq rfl
    generalize ((g.updRt k fun rt => { rt with next := some ts.id }).incLevel k) = g4 at hrt4 hb4 P4
    have C4 := ctxt_stepD P4 hb4 hc
    have X := exit_w rec hg k g4 e hb4
    have NX := nou_exitD rec hg n UO k g4 e C4 hb4 (by rw [hrt4]; simp [hcur])
    generalize aExit rec g4 k e = x at X NX
    have hlx : k < x.1.length := by rw [X.len, P4.len]; exact hk
    have CX := X.ctxt C4
    have hrt5 := rt_updRt_self x.1 k (fun rt => { rt with last := rt.curr, curr := none }) hlx
    have hb5 := busy_updRt_level x.1 k (fun rt => { rt with last := rt.curr, curr := none }) hlx (fun _ => rfl) X.2.2
    have P5 := presD_updRt x.1 k (fun rt => { rt with last := rt.curr, curr := none })
    generalize (optInt (x.1.get k).rt.curr) = src
    generalize x.1.updRt k (fun rt => { rt with last := rt.curr, curr := none }) = g5 at hrt5 hb5 P5
    have C5 := ctxt_stepD P5 hb5 CX
    have A := probe_w rec hg k g5 (.action src ridx e) action hb5
    have NA := nou_probeD rec hg n UO k g5 (.action src ridx e) action C5 hb5 (fun b h => by cases h)
    generalize aProbe rec k g5 (.action src ridx e) action = a at A NA
    have hla : k < a.1.length := by rw [A.len, P5.len]; exact hlx
    have CA := A.ctxt C5
    have hrt6 := rt_updRt_self a.1 k (fun rt => { rt with curr := rt.next, next := none }) hla
    have hb6 := busy_updRt_level a.1 k (fun rt => { rt with curr := rt.next, next := none }) hla (fun _ => rfl) A.2.2
    have P6 := presD_updRt a.1 k (fun rt => { rt with curr := rt.next, next := none })
    generalize a.1.updRt k (fun rt => { rt with curr := rt.next, next := none }) = g6 at hrt6 hb6 P6
    have C6 := ctxt_stepD P6 hb6 CA
    have hrt6' : (g6.get k).rt.curr = some ts.id := by rw [hrt6, A.2.1, hrt5, X.2.1, hrt4]
    have hcs6 : g6.curState k = some ((g6.get k).stateOf ts.id) := curState_of_curr hrt6'
    rw [hcs6]; simp only []
    generalize (g6.get k).stateOf ts.id = ns
    have EN := probe_w rec hg k g6 (.enter ns.id e) ns.enter hb6
    have NEN := nou_probeD rec hg n UO k g6 (.enter ns.id e) ns.enter C6 hb6 (fun b h => by cases h)
    generalize aProbe rec k g6 (.enter ns.id e) ns.enter = en at EN NEN
    have CEN := EN.ctxt C6
    have CB := probe_w rec hg k en.1 (.notify (optInt (en.1.get k).rt.last) (optInt (en.1.get k).rt.curr) e) (en.1.get k).cb EN.2.2
    have NCB := nou_probeD rec hg n UO k en.1 (.notify (optInt (en.1.get k).rt.last) (optInt (en.1.get k).rt.curr) e) (en.1.get k).cb CEN EN.2.2 (fun b h => by cases h)
    generalize aProbe rec k en.1 (.notify (optInt (en.1.get k).rt.last) (optInt (en.1.get k).rt.curr) e) (en.1.get k).cb = cb at CB NCB
    have CCB := CB.ctxt CEN
    have hcb : (cb.1.get k).rt.curr ≠ none := by rw [CB.2.1, EN.2.1, hrt6']; simp
    have S1 := subcall_w rec hg k cb.1 .start CB.2.2
    have NS1 := nou_subcallD rec hg n UO k cb.1 .start CCB hcb
    generalize aSubCall rec cb.1 k .start = s1 at S1 NS1
    have CS1 := S1.ctxt CCB
    have NS2 := nou_subRunD rec hg n UO k s1.1 e CS1 (by rw [S1.2.1]; exact hcb)
    exact nou_append (nou_append (nou_append (nou_append (nou_append NX NA) NEN) NCB) NS1) NS2

theorem nou_runD (g : Arena) (k : Nat) (e : Event) (hk : k < g.length) (hc : Ctxt n g) : NoU n (aRun Fix.all rec g k e).2.2 := by
  unfold aRun
  cases h1 : runReject (g.get k).rt with
  | some r => exact nou_nil n
  | none =>
    have h0 := runReject_none h1
    have hidle : ¬ busy g k := by unfold busy; simp [h0.2]
    have hw := (hc.2 k hidle).1; rw [h0.1] at hw
    cases hcur : (g.get k).rt.curr with
    | none => rw [hcur] at hw; simp at hw
    | some c =>
      simp only []
      have hne : (g.get k).rt.curr ≠ none := by rw [hcur]; simp
      have D : QStepD k g (aDelegate Fix.all rec g k e).1 (aDelegate Fix.all rec g k e).2.2 := aDelegate_presXD rec hg g k e hk h0.1
      have ND := nou_delegateD rec hg n UO g k e hk hc hne h0.1
      generalize aDelegate Fix.all rec g k e = d at D ND
      have hld : k < d.1.length := by rw [D.1.len]; exact hk
      have CD := ctxt_qstepD D hc
      have hcd : (d.1.get k).rt.curr = some c := by rw [D.2.1]; exact hcur
      split
      · exact ND
      · split
        · rename_i h; exact absurd h (curState_ne_none (by rw [hcd]; simp))
        · rename_i cs _
          have H : QStepD k d.1 (aHandlers rec d.1 k cs e).1 (aHandlers rec d.1 k cs e).2.2 := aHandlers_presXD rec hg d.1 k cs e hld (by rw [D.2.1]; exact h0.1)
          have NH := nou_handlersD rec hg n UO d.1 k cs e hld CD
          generalize aHandlers rec d.1 k cs e = h at H NH
          have hlh : k < h.1.length := by rw [H.1.len]; exact hld
          have CH := ctxt_qstepD H CD
          have hch : (h.1.get k).rt.curr = some c := by rw [H.2.1]; exact hcd
          have SL : QStepD k h.1 (aSelect rec h.1 k e h.2.1).1 (aSelect rec h.1 k e h.2.1).2.2 := aSelect_presXD rec hg h.1 k e h.2.1 hlh (by rw [H.2.1, D.2.1]; exact h0.1)
          have NSL := nou_selectD rec hg n UO h.1 k e h.2.1 hlh CH (by rw [hch]; simp)
          generalize aSelect rec h.1 k e h.2.1 = sel at SL NSL
          have hls : k < sel.1.length := by rw [SL.1.len]; exact hlh
          have CS := ctxt_qstepD SL CH
          have hcsel : (sel.1.get k).rt.curr = some c := by rw [SL.2.1]; exact hch
          split
          · exact nou_append (nou_append ND NH) NSL
          · rename_i nextId ridx action _
            simp only []
            exact nou_append (nou_append (nou_append ND NH) NSL) (nou_transitionD rec hg n UO sel.1 k e nextId ridx action hls CS c hcsel)

end Pieces

/-- no invocation `dCall tpl` dereferences a null `curr_state_` of a machine of the store -/
theorem safe_dCall (tpl : Tpl) (n : Nat) : ∀ f, UOk (dCall tpl f) n
  | 0 => fun g k c _ => nou_cons (fun h => by cases h) (nou_nil n)
  | f + 1 => by
    have ih := safe_dCall tpl n f
    have hg := good_dCall tpl f
    intro g k c hc
    unfold dCall
    split
    · rename_i hk
      intro ev he hu
      simp only [unm, List.mem_singleton] at he; subst he
      rw [← hc.1]; exact hk
    · rename_i hk
      have hk : k < g.length := Nat.lt_of_not_le hk
      cases c with
      | start => exact nou_startD _ hg n ih g k hk hc
      | stop => exact nou_stopD _ hg n ih g k hk hc
      | restart =>
        simp only []
        have ST := aStop_goodD _ hg g k hk
        have hk' : k < (aStop Fix.all (dCall tpl f) g k).1.length := by rw [ST.1.len]; exact hk
        exact nou_append (nou_stopD _ hg n ih g k hk hc) (nou_startD _ hg n ih _ k hk' (ctxt_presD ST.1 hc))
      | run e => exact nou_runD _ hg n ih g k e hk hc
      | defn i => rw [(applyDef_defStep tpl g k i).2]; exact nou_nil n

theorem dProg_nou (tpl : Tpl) : ∀ (ops : List (Nat × Call)) (g : Arena) (T : ATrace), AInv g T → NoU g.length (dProg tpl g ops).2
  | [], g, T, _ => nou_nil _
  | kc :: ops, g, T, h => by
    simp only [dProg]
    have G := (good_dCall tpl (fuelFor g) g kc.1 kc.2).1
    have h1 : AInv (dCall tpl (fuelFor g) g kc.1 kc.2).1 (T ++ (dCall tpl (fuelFor g) g kc.1 kc.2).2.2) := by
      intro j
      have := G.idle j (by simp) (h j).1
      exact ⟨this.1, this.2 T (h j).2⟩
    have ih := dProg_nou tpl ops _ _ h1
    rw [G.len] at ih
    exact nou_append (safe_dCall tpl g.length (fuelFor g) g kc.1 kc.2 (ctxt_of_ainv h)) ih

end AD
end Tbox.C16
