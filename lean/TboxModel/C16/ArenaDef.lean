/-
C16 — definition calls issued WHILE THE MACHINES RUN (from callback bodies).

`newState / addRoute / addEvent / setSubStateMachine` test `is_running_` (not `cb_level_`) and
answer false on a running machine; `setInitState / setStateChangedCallback` have no check at all
(state_machine.cpp:59 and :63-65): they are performed at any time, also from inside an action, a
guard, a handler or the state-changed notification of the machine they address.

A case carries a table of definition calls (`DefOp`, data: what the C++ call passes); the script
op `.call t (.defn i)` performs entry `i` on machine `t`.  `dCall tpl` is the arena's method
invocation (`aCall Fix.all`, same `aStart / aStop / aRun`) with that table; with the empty table it
IS `aCall Fix.all` (`dCall_nil`).  The driver runs `dCall`.
-/
import TboxModel.C16.Arena
import TboxModel.C16.Model
namespace Tbox.C16
open Arena

/-- one definition call, as data -/
inductive DefOp where
  | newState (sid : StateId) (enter exit : Option Script)
  | addRoute (src : StateId) (r : Route)
  | addEvent (sid : StateId) (ev : EventId) (h : Handler)
  | setInit (sid : StateId)
  | setSub (sid : StateId) (j : Nat)
  | setCb (cb : Script)
deriving Repr, DecidableEq

/-- the call on machine `k` as coded: new store and return value (`false` for the two `void` ones) -/
def DefOp.apply (g : Arena) (k : Nat) : DefOp → Arena × Bool
  | .newState sid en ex => Def.guarded g k (fun r => Build.newState r sid en ex)
  | .addRoute src r => Def.guarded g k (fun m => Build.addRoute m src r)
  | .addEvent sid ev h => Def.guarded g k (fun m => Build.addEvent m sid ev h)
  | .setSub sid j => Def.guarded g k (fun m => Build.setSubStateMachine m sid j)
  | .setInit sid => (Def.always g k (fun m => Build.setInitState m sid), false)
  | .setCb cb => (Def.always g k (fun m => Build.setStateChangedCallback m cb), false)

/-- the four calls that test `is_running_` -/
def DefOp.guarded : DefOp → Bool
  | .setInit _ => false
  | .setCb _ => false
  | _ => true

abbrev Tpl := List DefOp

def applyDef (tpl : Tpl) (g : Arena) (k : Nat) (i : Nat) : Arena × Bool × ATrace :=
  match tpl[i]? with
  | none => (g, false, [])
  | some d => let r := d.apply g k; (r.1, r.2, [])

/-- a method invocation or a definition call on machine `k` (code with both repairs) -/
def dCall (tpl : Tpl) : Nat → Rec
  | 0, g, k, _ => (g, false, oof k)
  | f + 1, g, k, c =>
    if k ≥ g.length then (g, false, unm k) else
    match c with
    | .start => aStart Fix.all (dCall tpl f) g k
    | .stop => let r := aStop Fix.all (dCall tpl f) g k; (r.1, false, r.2)
    | .restart =>
        let s := aStop Fix.all (dCall tpl f) g k
        let r := aStart Fix.all (dCall tpl f) s.1 k
        (r.1, r.2.1, s.2 ++ r.2.2)
    | .run e => aRun Fix.all (dCall tpl f) g k e
    | .defn i => applyDef tpl g k i

theorem dCall_nil : ∀ (fuel : Nat), dCall [] fuel = aCall Fix.all fuel
  | 0 => rfl
  | f + 1 => by
    funext g k c
    unfold dCall aCall
    rw [dCall_nil f]
    split
    · rfl
    · cases c <;> simp [applyDef]

end Tbox.C16
