/-
C16 — arena model: the fuel of `aCall` suffices.  An accepted invocation makes its machine busy
for its whole duration and busy machines reject (`good_aCall`), so the nesting depth of accepted
invocations is bounded by the number of idle machine objects; one more level is needed for the
rejected invocation at the bottom.  `Cover g S`: the list `S` contains every idle machine of `g`.
-/
import TboxModel.C16.ArenaProofs
set_option linter.unusedSimpArgs false
set_option linter.unusedVariables false
namespace Tbox.C16
namespace AI
open Arena

/-- no out-of-fuel marker -/
def NoF (tr : ATrace) : Prop := ∀ ev ∈ tr, ∀ t, ev.kind ≠ .foreign t

theorem nof_nil : NoF [] := by intro ev h; cases h
theorem nof_append {a b : ATrace} (h1 : NoF a) (h2 : NoF b) : NoF (a ++ b) := by
  intro ev he
  rcases List.mem_append.1 he with h | h
  · exact h1 ev h
  · exact h2 ev h
theorem nof_cons {ev : AEv} {a : ATrace} (h1 : ∀ t, ev.kind ≠ .foreign t) (h2 : NoF a) : NoF (ev :: a) := by
  intro e he
  rcases List.mem_cons.1 he with h | h
  · subst h; exact h1
  · exact h2 e h
theorem nof_unm (k : Nat) : NoF (unm k) := nof_cons (fun t h => by cases h) nof_nil

def Cover (g : Arena) (S : List Nat) : Prop := ∀ j, j < g.length → (g.get j).rt.cbLevel = 0 → j ∈ S

def FOk (rec : Rec) (f : Nat) : Prop := ∀ g k c S, Cover g S → S.length < f → NoF (rec g k c).2.2

/-- `g'` has at least the busy machines of `g` -/
def Sub (g g' : Arena) : Prop := g'.length = g.length ∧ ∀ j, busy g j → busy g' j

theorem Sub.refl (g : Arena) : Sub g g := ⟨rfl, fun _ h => h⟩
theorem Sub.trans {a b c : Arena} (h1 : Sub a b) (h2 : Sub b c) : Sub a c := ⟨h2.1.trans h1.1, fun j h => h2.2 j (h1.2 j h)⟩

theorem cover_sub {g g' : Arena} {S : List Nat} (h : Sub g g') (hc : Cover g S) : Cover g' S := by
  intro j hj hi
  refine hc j (by rw [← h.1]; exact hj) ?_
  apply Classical.byContradiction
  intro hn
  have := h.2 j hn
  exact this hi

theorem sub_of_pres {g g' : Arena} {tr : ATrace} (h : Pres g g' tr) : Sub g g' :=
  ⟨h.len, fun j hb => (frozen_rt h hb).2.2⟩

theorem sub_of_presX {g g' : Arena} {tr : ATrace} {k : Nat} (h : PresX (some k) g g' tr) (hk : busy g k → busy g' k) : Sub g g' := by
  refine ⟨h.len, fun j hb => ?_⟩
  by_cases hj : j = k
  · subst hj; exact hk hb
  · exact busy_of_rt (h.frozen j (by simpa using hj) hb).1 hb

/-- entering a method of the idle machine `k` -/
theorem enter_cover {g g1 : Arena} {tr : ATrace} {k f : Nat} {S : List Nat} (PX : PresX (some k) g g1 tr) (hb1 : busy g1 k)
    (hk : k < g.length) (hi : ¬ busy g k) (hc : Cover g S) (hS : S.length < f + 1) :
    Cover g1 (S.erase k) ∧ (S.erase k).length < f := by
  have hkS : k ∈ S := hc k hk (by unfold busy at hi; simpa using hi)
  refine ⟨?_, by rw [List.length_erase_of_mem hkS]; have := List.length_pos_of_mem hkS; omega⟩
  intro j hj hi1
  have hjk : j ≠ k := by intro h; subst h; exact hb1 hi1
  have : (g.get j).rt.cbLevel = 0 := by
    apply Classical.byContradiction
    intro hn
    have := (PX.frozen j (by simpa using hjk) hn).1
    rw [← this] at hn; exact hn hi1
  exact (List.mem_erase_of_ne hjk).2 (hc j (by rw [← PX.len]; exact hj) this)

section Pieces
variable (rec : Rec) (hg : Good rec) (f : Nat) (FO : FOk rec f)
include hg FO

theorem nof_script (self : Nat) : ∀ (sc : Script) (g : Arena) (S : List Nat), Cover g S → S.length < f → busy g self →
    NoF (aScript rec self g sc).2
  | [], g, S, _, _, _ => nof_nil
  | .obs t :: rest, g, S, hc, hS, hb => by
    simp only [aScript]
    exact nof_cons (fun t h => by cases h) (nof_script self rest g S hc hS hb)
  | .call t c :: rest, g, S, hc, hS, hb => by
    simp only [aScript]
    have hx := (hg g (t.getD self) c).1
    refine nof_append (FO g _ c S hc hS) (nof_cons (fun t h => by cases h) ?_)
    exact nof_script self rest _ S (cover_sub (sub_of_pres hx) hc) hS (frozen_rt hx hb).2.2

theorem nof_probe (k : Nat) (g : Arena) (mk : Bool → Kind) (p : Option Script) (S : List Nat) (hc : Cover g S) (hS : S.length < f)
    (hb : busy g k) (hmk : ∀ b t, mk b ≠ .foreign t) : NoF (aProbe rec k g mk p).2 := by
  cases p with
  | none => exact nof_cons (hmk _) nof_nil
  | some sc => exact nof_cons (hmk _) (nof_script rec hg f FO k sc g S hc hS hb)

theorem nof_subcall (k : Nat) (g : Arena) (c : Call) (S : List Nat) (hc : Cover g S) (hS : S.length < f) :
    NoF (aSubCall rec g k c).2 := by
  unfold aSubCall
  split
  · exact nof_unm k
  · split
    · exact nof_nil
    · exact FO g _ c S hc hS

theorem nof_exit (k : Nat) (g : Arena) (e : Event) (S : List Nat) (hc : Cover g S) (hS : S.length < f) (hb : busy g k) :
    NoF (aExit rec g k e).2 := by
  unfold aExit
  split
  · exact nof_unm k
  · exact nof_probe rec hg f FO k g _ _ S hc hS hb (fun b t h => by cases h)

theorem nof_subRun (k : Nat) (g : Arena) (e : Event) (S : List Nat) (hc : Cover g S) (hS : S.length < f) :
    NoF (aSubRun rec g k e).2 := by
  unfold aSubRun
  split
  · split
    · exact nof_subcall rec hg f FO k g _ S hc hS
    · exact nof_nil
  · exact nof_nil

theorem nof_routeScan (k : Nat) (sid : StateId) (e : Event) : ∀ (rs : List Route) (i : Nat) (g : Arena) (S : List Nat),
    Cover g S → S.length < f → busy g k → NoF (aRouteScan rec k sid e i g rs).2.2
  | [], i, g, S, _, _, _ => nof_nil
  | r :: rs, i, g, S, hc, hS, hb => by
    unfold aRouteScan
    split
    · exact nof_routeScan k sid e rs (i + 1) g S hc hS hb
    · cases hgd : r.guard with
      | none => exact nof_nil
      | some gd =>
        simp only []
        have N := nof_script rec hg f FO k gd.script g S hc hS hb
        have P := aScript_pres rec hg k gd.script g hb
        split
        · exact nof_cons (fun t h => by cases h) N
        · refine nof_cons (fun t h => by cases h) (nof_append N ?_)
          exact nof_routeScan k sid e rs (i + 1) _ S (cover_sub (sub_of_pres P) hc) hS (frozen_rt P hb).2.2

theorem nof_start (g : Arena) (k : Nat) (hk : k < g.length) (S : List Nat) (hc : Cover g S) (hS : S.length < f + 1) :
    NoF (aStart Fix.all rec g k).2.2 := by
  unfold aStart
  simp only []
  cases h1 : startReject (g.get k).rt with
  | some r => exact nof_nil
  | none =>
    have h0 := startReject_none h1
    have hidle : ¬ busy g k := by unfold busy; simp [h0.2]
    cases h2 : (g.get k).findState (g.get k).init with
    | none => exact nof_nil
    | some st =>
      simp only [Fix.all, if_true]
      have hlen0 : k < (g.updRt k fun rt => { rt with running := true, curr := some st.id }).length := by
        rw [length_updRt]; exact hk
      have hb1 := busy_inc _ k hlen0
      have P1 : PresX (some k) g ((g.updRt k fun rt => { rt with running := true, curr := some st.id }).incLevel k) [] :=
        ((presX_updRt g k _).trans (presX_inc _ k)).of_eq rfl
      generalize ((g.updRt k fun rt => { rt with running := true, curr := some st.id }).incLevel k) = g1 at hb1 P1
      have C1 := enter_cover P1 hb1 hk hidle hc hS
      have PS := probe_step rec hg k g1 (.enter st.id ev0) st.enter hb1 (fun _ => rfl)
      have N1 := nof_probe rec hg f FO k g1 (.enter st.id ev0) st.enter _ C1.1 C1.2 hb1 (fun b t h => by cases h)
      generalize aProbe rec k g1 (.enter st.id ev0) st.enter = p at PS N1
      have C2 := cover_sub (sub_of_presX PS.1 (fun _ => PS.2.2.1)) C1.1
      exact nof_append N1 (nof_subcall rec hg f FO k p.1 .start _ C2 C1.2)

theorem nof_stop (g : Arena) (k : Nat) (hk : k < g.length) (S : List Nat) (hc : Cover g S) (hS : S.length < f + 1) :
    NoF (aStop Fix.all rec g k).2 := by
  unfold aStop
  simp only []
  cases h1 : stopReject (g.get k).rt with
  | some r => exact nof_nil
  | none =>
    have h0 := stopReject_none h1
    have hidle : ¬ busy g k := by unfold busy; simp [h0.2]
    simp only [Fix.all, if_true]
    have hb1 := busy_inc g k hk
    have P1 := presX_inc g k
    generalize g.incLevel k = g1 at hb1 P1
    have C1 := enter_cover P1 hb1 hk hidle hc hS
    have SS := sub_step rec hg k g1 .stop hb1
    have N1 := nof_subcall rec hg f FO k g1 .stop _ C1.1 C1.2
    generalize aSubCall rec g1 k .stop = s at SS N1
    have C2 := cover_sub (sub_of_presX SS.1 (fun _ => SS.2.2.1)) C1.1
    exact nof_append N1 (nof_exit rec hg f FO k s.1 ev0 _ C2 C1.2 SS.2.2.1)

theorem nof_delegate (g : Arena) (k : Nat) (e : Event) (hk : k < g.length) (hidle : ¬ busy g k) (S : List Nat) (hc : Cover g S)
    (hS : S.length < f + 1) : NoF (aDelegate Fix.all rec g k e).2.2 := by
  unfold aDelegate
  split
  · exact nof_unm k
  · split
    · exact nof_nil
    · rename_i j _
      simp only [Fix.all, if_true]
      have hb0 := busy_inc g k hk
      have P0 := presX_inc g k
      generalize g.incLevel k = g0 at hb0 P0
      have C0 := enter_cover P0 hb0 hk hidle hc hS
      have R := (hg g0 j (.run e)).1
      have N0 := FO g0 j (.run e) _ C0.1 C0.2
      generalize rec g0 j (.run e) = r at R N0
      have C1 := cover_sub (sub_of_pres R) C0.1
      split
      · exact nof_append N0 (nof_unm k)
      · split
        · exact nof_append N0 (nof_unm k)
        · split
          · exact N0
          · exact nof_append N0 (nof_subcall rec hg f FO k r.1 .stop _ C1 C0.2)

theorem nof_handlers (g : Arena) (k : Nat) (cs : StateDef Nat) (e : Event) (hk : k < g.length) (hidle : ¬ busy g k) (S : List Nat)
    (hc : Cover g S) (hS : S.length < f + 1) : NoF (aHandlers rec g k cs e).2.2 := by
  unfold aHandlers
  simp only []
  have hb0 := busy_inc g k hk
  have P0 := presX_inc g k
  generalize g.incLevel k = g1 at hb0 P0
  have C0 := enter_cover P0 hb0 hk hidle hc hS
  split
  · exact nof_cons (fun t h => by cases h) (nof_script rec hg f FO k _ g1 _ C0.1 C0.2 hb0)
  · split
    · exact nof_cons (fun t h => by cases h) (nof_script rec hg f FO k _ g1 _ C0.1 C0.2 hb0)
    · exact nof_nil

theorem nof_select (g : Arena) (k : Nat) (e : Event) (hret : Int) (hk : k < g.length) (hidle : ¬ busy g k) (S : List Nat)
    (hc : Cover g S) (hS : S.length < f + 1) : NoF (aSelect rec g k e hret).2.2 := by
  unfold aSelect
  split
  · split
    · exact nof_unm k
    · rename_i cs2 _
      simp only []
      have hb0 := busy_inc g k hk
      have P0 := presX_inc g k
      generalize g.incLevel k = g1 at hb0 P0
      have C0 := enter_cover P0 hb0 hk hidle hc hS
      have N := nof_routeScan rec hg f FO k cs2.id e cs2.routes 0 g1 _ C0.1 C0.2 hb0
      split
      · exact N
      · exact N
  · exact nof_nil

theorem nof_transition (g : Arena) (k : Nat) (e : Event) (nextId : StateId) (ridx : Option Nat) (action : Option Script)
    (hk : k < g.length) (hidle : ¬ busy g k) (S : List Nat) (hc : Cover g S) (hS : S.length < f + 1) :
    NoF (aTransition rec g k e nextId ridx action).2.2 := by
  unfold aTransition
  split
  · exact nof_nil
  · rename_i ts _
    simp only []
    have hlen0 : k < (g.updRt k fun rt => { rt with next := some ts.id }).length := by rw [length_updRt]; exact hk
    have hb4 := busy_inc _ k hlen0
    have P4 : PresX (some k) g ((g.updRt k fun rt => { rt with next := some ts.id }).incLevel k) [] :=
      ((presX_updRt g k _).trans (presX_inc _ k)).of_eq rfl
    generalize ((g.updRt k fun rt => { rt with next := some ts.id }).incLevel k) = g4 at hb4 P4
    have C4 := enter_cover P4 hb4 hk hidle hc hS
    have X := aExit_presX rec hg g4 k e hb4
    have NX := nof_exit rec hg f FO k g4 e _ C4.1 C4.2 hb4
    generalize aExit rec g4 k e = x at X NX
    have hlx : k < x.1.length := by rw [X.1.len, P4.len]; exact hk
    have CX := cover_sub (sub_of_presX X.1 (fun _ => X.2.2)) C4.1
    have hb5 := busy_updRt_level x.1 k (fun rt => { rt with last := rt.curr, curr := none }) hlx (fun _ => rfl) X.2.2
    have P5 := presX_updRt x.1 k (fun rt => { rt with last := rt.curr, curr := none })
    generalize (optInt (x.1.get k).rt.curr) = src
    generalize x.1.updRt k (fun rt => { rt with last := rt.curr, curr := none }) = g5 at hb5 P5
    have C5 := cover_sub (sub_of_presX P5 (fun _ => hb5)) CX
    have A := probe_step rec hg k g5 (.action src ridx e) action hb5 (fun _ => rfl)
    have NA := nof_probe rec hg f FO k g5 (.action src ridx e) action _ C5 C4.2 hb5 (fun b t h => by cases h)
    generalize aProbe rec k g5 (.action src ridx e) action = a at A NA
    have hla : k < a.1.length := by rw [A.1.len, P5.len]; exact hlx
    have CA := cover_sub (sub_of_presX A.1 (fun _ => A.2.2.1)) C5
    have hb6 := busy_updRt_level a.1 k (fun rt => { rt with curr := rt.next, next := none }) hla (fun _ => rfl) A.2.2.1
    have P6 := presX_updRt a.1 k (fun rt => { rt with curr := rt.next, next := none })
    generalize a.1.updRt k (fun rt => { rt with curr := rt.next, next := none }) = g6 at hb6 P6
    have C6 := cover_sub (sub_of_presX P6 (fun _ => hb6)) CA
    split
    · exact nof_append (nof_append NX NA) (nof_unm k)
    · rename_i ns _
      simp only []
      have EN := probe_step rec hg k g6 (.enter ns.id e) ns.enter hb6 (fun _ => rfl)
      have NEN := nof_probe rec hg f FO k g6 (.enter ns.id e) ns.enter _ C6 C4.2 hb6 (fun b t h => by cases h)
      generalize aProbe rec k g6 (.enter ns.id e) ns.enter = en at EN NEN
      have CEN := cover_sub (sub_of_presX EN.1 (fun _ => EN.2.2.1)) C6
      have CB := probe_step rec hg k en.1 (.notify (optInt (en.1.get k).rt.last) (optInt (en.1.get k).rt.curr) e) (en.1.get k).cb EN.2.2.1 (fun _ => rfl)
      have NCB := nof_probe rec hg f FO k en.1 (.notify (optInt (en.1.get k).rt.last) (optInt (en.1.get k).rt.curr) e) (en.1.get k).cb _ CEN C4.2 EN.2.2.1 (fun b t h => by cases h)
      generalize aProbe rec k en.1 (.notify (optInt (en.1.get k).rt.last) (optInt (en.1.get k).rt.curr) e) (en.1.get k).cb = cb at CB NCB
      have CCB := cover_sub (sub_of_presX CB.1 (fun _ => CB.2.2.1)) CEN
      have S1 := sub_step rec hg k cb.1 .start CB.2.2.1
      have NS1 := nof_subcall rec hg f FO k cb.1 .start _ CCB C4.2
      generalize aSubCall rec cb.1 k .start = s1 at S1 NS1
      have CS1 := cover_sub (sub_of_presX S1.1 (fun _ => S1.2.2.1)) CCB
      have NS2 := nof_subRun rec hg f FO k s1.1 e _ CS1 C4.2
      exact nof_append (nof_append (nof_append (nof_append (nof_append NX NA) NEN) NCB) NS1) NS2

theorem nof_run (g : Arena) (k : Nat) (e : Event) (hk : k < g.length) (S : List Nat) (hc : Cover g S) (hS : S.length < f + 1) :
    NoF (aRun Fix.all rec g k e).2.2 := by
  unfold aRun
  cases h1 : runReject (g.get k).rt with
  | some r => exact nof_nil
  | none =>
    have h0 := runReject_none h1
    have hidle : ¬ busy g k := by unfold busy; simp [h0.2]
    simp only []
    have D : QStep k g (aDelegate Fix.all rec g k e).1 (aDelegate Fix.all rec g k e).2.2 := aDelegate_presX rec hg g k e hk
    have ND := nof_delegate rec hg f FO g k e hk hidle S hc hS
    generalize aDelegate Fix.all rec g k e = d at D ND
    have hld : k < d.1.length := by rw [D.1.len]; exact hk
    have hid : ¬ busy d.1 k := by unfold busy; rw [D.2.1]; exact hidle
    have CD := cover_sub (sub_of_presX D.1 (fun hb => absurd hb hidle)) hc
    split
    · exact ND
    · split
      · exact nof_append ND (nof_unm k)
      · rename_i cs _
        have H : QStep k d.1 (aHandlers rec d.1 k cs e).1 (aHandlers rec d.1 k cs e).2.2 := aHandlers_presX rec hg d.1 k cs e hld
        have NH := nof_handlers rec hg f FO d.1 k cs e hld hid S CD hS
        generalize aHandlers rec d.1 k cs e = h at H NH
        have hlh : k < h.1.length := by rw [H.1.len]; exact hld
        have hih : ¬ busy h.1 k := by unfold busy; rw [H.2.1]; exact hid
        have CH := cover_sub (sub_of_presX H.1 (fun hb => absurd hb hid)) CD
        have SL : QStep k h.1 (aSelect rec h.1 k e h.2.1).1 (aSelect rec h.1 k e h.2.1).2.2 := aSelect_presX rec hg h.1 k e h.2.1 hlh
        have NSL := nof_select rec hg f FO h.1 k e h.2.1 hlh hih S CH hS
        generalize aSelect rec h.1 k e h.2.1 = sel at SL NSL
        have hls : k < sel.1.length := by rw [SL.1.len]; exact hlh
        have his : ¬ busy sel.1 k := by unfold busy; rw [SL.2.1]; exact hih
        have CS := cover_sub (sub_of_presX SL.1 (fun hb => absurd hb hih)) CH
        split
        · exact nof_append (nof_append ND NH) NSL
        · rename_i nextId ridx action _
          simp only []
          exact nof_append (nof_append (nof_append ND NH) NSL) (nof_transition rec hg f FO sel.1 k e nextId ridx action hls his S CS hS)

end Pieces

/-- with fuel greater than the number of idle machine objects no invocation runs out of fuel -/
theorem fuel_ok : ∀ f, FOk (aCall Fix.all f) f
  | 0 => fun g k c S _ hS => absurd hS (Nat.not_lt_zero _)
  | f + 1 => by
    have ih := fuel_ok f
    have hg := good_aCall f
    intro g k c S hc hS
    unfold aCall
    split
    · exact nof_unm k
    · rename_i hk
      have hk : k < g.length := Nat.lt_of_not_le hk
      cases c with
      | start => exact nof_start _ hg f ih g k hk S hc hS
      | stop => exact nof_stop _ hg f ih g k hk S hc hS
      | restart =>
        simp only []
        have ST := aStop_good _ hg g k hk
        have hk' : k < (aStop Fix.all (aCall Fix.all f) g k).1.length := by rw [ST.1.len]; exact hk
        exact nof_append (nof_stop _ hg f ih g k hk S hc hS)
          (nof_start _ hg f ih _ k hk' S (cover_sub (sub_of_pres ST.1) hc) hS)
      | run e => exact nof_run _ hg f ih g k e hk S hc hS
      | defn i => exact nof_nil

theorem cover_range (g : Arena) : Cover g (List.range g.length) := fun j hj _ => List.mem_range.2 hj

end AI
end Tbox.C16
