/-
C16 — invariants of the ARENA model (Arena.lean), framework part.

`PresX x g g' tr` summarises what a fragment of an execution (arena `g` → `g'`, trace `tr`) may do
to every machine object other than the exempted one `x`:
* the store keeps its size and every machine keeps its definition (only `rt` changes);
* a machine that is inside one of its own methods (`cb_level_ ≠ 0`, "busy") keeps its run-time
  record and contributes no event besides what callback bodies print (observations, calls);
* an idle machine stays idle and keeps its own invariant `MInv` (is_running_ ↔ curr_state_ ≠ null,
  `curr_state_` names a real state object, #enter − #exit per state = [state is current]) along
  the extended trace;
* every call a callback body made on its own machine was rejected.
`Pres = PresX none` is what a complete method invocation guarantees (`Good rec`).
-/
import TboxModel.C16.Arena
set_option linter.unusedSimpArgs false
set_option linter.unusedVariables false
namespace Tbox.C16
namespace AI
open Arena

/-! ### store lemmas -/

theorem length_updRt (g : Arena) (k : Nat) (f : Rt → Rt) : (g.updRt k f).length = g.length := by
  unfold updRt; split <;> simp

theorem get_updRt_ne (g : Arena) (k j : Nat) (f : Rt → Rt) (h : j ≠ k) : (g.updRt k f).get j = g.get j := by
  unfold updRt; split
  · simp [Arena.get, List.getD_eq_getElem?_getD, List.getElem?_set, Ne.symm h]
  · rfl

theorem get_updRt_self (g : Arena) (k : Nat) (f : Rt → Rt) (hk : k < g.length) :
    (g.updRt k f).get k = { g.get k with rt := f (g.get k).rt } := by
  unfold updRt
  have : g[k]? = some g[k] := List.getElem?_eq_getElem hk
  rw [this]
  simp [Arena.get, List.getD_eq_getElem?_getD, List.getElem?_set, hk, this]

theorem rt_updRt_self (g : Arena) (k : Nat) (f : Rt → Rt) (hk : k < g.length) :
    ((g.updRt k f).get k).rt = f (g.get k).rt := by rw [get_updRt_self g k f hk]

theorem get_dummy (g : Arena) (k : Nat) (hk : ¬ k < g.length) : g.get k = dummy := by
  simp [Arena.get, List.getD_eq_getElem?_getD, List.getElem?_eq_none (Nat.le_of_not_lt hk)]

def SameDef (a b : ARec) : Prop := a.mid = b.mid ∧ a.init = b.init ∧ a.states = b.states ∧ a.cb = b.cb

theorem SameDef.rfl' (a : ARec) : SameDef a a := ⟨rfl, rfl, rfl, rfl⟩
theorem SameDef.trans' {a b c : ARec} (h1 : SameDef a b) (h2 : SameDef b c) : SameDef a c :=
  ⟨h1.1.trans h2.1, h1.2.1.trans h2.2.1, h1.2.2.1.trans h2.2.2.1, h1.2.2.2.trans h2.2.2.2⟩

theorem sameDef_updRt (g : Arena) (k j : Nat) (f : Rt → Rt) : SameDef ((g.updRt k f).get j) (g.get j) := by
  by_cases h : j = k
  · subst h
    by_cases hk : j < g.length
    · rw [get_updRt_self g j f hk]; exact ⟨rfl, rfl, rfl, rfl⟩
    · have : (g.updRt j f).get j = g.get j := by
        rw [get_dummy g j hk, get_dummy _ j (by rw [length_updRt]; exact hk)]
      rw [this]; exact SameDef.rfl' _
  · rw [get_updRt_ne g k j f h]; exact SameDef.rfl' _

theorem stateOf_sameDef {a b : ARec} (h : SameDef a b) (c : StateId) : a.stateOf c = b.stateOf c := by
  unfold MachOf.stateOf MachOf.findState; rw [h.2.2.1]

theorem resolve_sameDef {a b : ARec} (h : SameDef a b) (c : StateId) : a.resolve c = b.resolve c := by
  unfold MachOf.resolve MachOf.findState; rw [h.2.2.1]

theorem findState_id' (m : ARec) (sid : StateId) (st : StateDef Nat) (h : m.findState sid = some st) : st.id = sid := by
  unfold MachOf.findState at h
  split at h
  · cases h
  · have := List.find?_some h; simpa using this

/-- the state object a successful `resolve` yields is the one `stateOf` finds under its id -/
theorem resolve_stateOf (m : ARec) (x : StateId) (ts : StateDef Nat) (h : m.resolve x = some ts) :
    ts.id = x ∧ m.stateOf x = ts := by
  unfold MachOf.resolve at h
  cases hf : m.findState x with
  | some s =>
    rw [hf] at h; simp only [Option.some.injEq] at h; subst h
    exact ⟨findState_id' m x s hf, by simp [MachOf.stateOf, hf]⟩
  | none =>
    rw [hf] at h
    simp only at h
    split at h
    · rename_i h0; cases h; subst h0
      exact ⟨rfl, by simp [MachOf.stateOf, hf]⟩
    · cases h

/-! ### balance counters -/

def busy (g : Arena) (j : Nat) : Prop := (g.get j).rt.cbLevel ≠ 0

def isScriptKind : Kind → Bool
  | .obs .. => true
  | .call .. => true
  | .unmodelled => true
  | .foreign _ => true
  | _ => false

def evDelta (j : Nat) (s : StateId) (ev : AEv) : Int :=
  if ev.mid = j then
    match ev.kind with
    | .enter s' _ _ => if s' = s then 1 else 0
    | .exit s' _ _ => if s' = s then -1 else 0
    | _ => 0
  else 0

/-- #enter s − #exit s among the events of machine object `j` -/
def delta (j : Nat) (s : StateId) : ATrace → Int
  | [] => 0
  | ev :: T => evDelta j s ev + delta j s T

theorem delta_append (j : Nat) (s : StateId) (a b : ATrace) : delta j s (a ++ b) = delta j s a + delta j s b := by
  induction a with
  | nil => simp [delta]
  | cons ev a ih => simp only [List.cons_append, delta, ih]; omega

def QuietFor (j : Nat) (tr : ATrace) : Prop := ∀ ev ∈ tr, ev.mid = j → isScriptKind ev.kind = true

theorem quietFor_nil (j : Nat) : QuietFor j [] := by intro ev h; cases h

theorem quietFor_append {j : Nat} {a b : ATrace} (h1 : QuietFor j a) (h2 : QuietFor j b) : QuietFor j (a ++ b) := by
  intro ev he
  rcases List.mem_append.1 he with h | h
  · exact h1 ev h
  · exact h2 ev h

theorem evDelta_script (j : Nat) (s : StateId) (ev : AEv) (h : ev.mid = j → isScriptKind ev.kind = true) : evDelta j s ev = 0 := by
  unfold evDelta
  split
  · rename_i hm
    have := h hm
    cases hk : ev.kind <;> simp [hk, isScriptKind] at this ⊢
  · rfl

theorem delta_quiet (j : Nat) (s : StateId) (tr : ATrace) (h : QuietFor j tr) : delta j s tr = 0 := by
  induction tr with
  | nil => rfl
  | cons ev tr ih =>
    simp only [delta]
    rw [evDelta_script j s ev (h ev (List.mem_cons_self ..)), ih (fun e he => h e (List.mem_cons_of_mem _ he))]
    rfl

theorem evDelta_other (j : Nat) (s : StateId) (ev : AEv) (h : ev.mid ≠ j) : evDelta j s ev = 0 := by
  simp [evDelta, h]

/-- a call made by a callback body on its own machine returned false and changed nothing -/
def selfRej (ev : AEv) : Prop :=
  match ev.kind with
  | .call t _ res v w => t.getD ev.mid = ev.mid → res = false ∧ w = v
  | _ => True

def SelfRejected (tr : ATrace) : Prop := ∀ ev ∈ tr, selfRej ev

theorem selfRejected_append {a b : ATrace} (h1 : SelfRejected a) (h2 : SelfRejected b) : SelfRejected (a ++ b) := by
  intro ev he
  rcases List.mem_append.1 he with h | h
  · exact h1 ev h
  · exact h2 ev h

/-- the invariant of ONE machine object `j` with record `m`, relative to the global trace so far -/
structure MInv (m : ARec) (j : Nat) (T : ATrace) : Prop where
  wf : m.rt.running = m.rt.curr.isSome
  cid : ∀ c, m.rt.curr = some c → (m.stateOf c).id = c
  bal : ∀ s, delta j s T = if m.rt.curr = some s then 1 else 0

theorem MInv.quiet {m : ARec} {j : Nat} {T : ATrace} (h : MInv m j T) (tr : ATrace) (hq : QuietFor j tr) : MInv m j (T ++ tr) :=
  ⟨h.wf, h.cid, fun s => by rw [delta_append, delta_quiet j s tr hq, h.bal s]; simp⟩

theorem MInv.congr {m m' : ARec} {j : Nat} {T : ATrace} (h : MInv m j T) (hd : SameDef m' m) (hr : m'.rt = m.rt) : MInv m' j T :=
  ⟨by rw [hr]; exact h.wf, fun c hc => by rw [stateOf_sameDef hd]; exact h.cid c (by rw [← hr]; exact hc),
   fun s => by rw [hr]; exact h.bal s⟩

/-! ### the effect summary -/

structure PresX (x : Option Nat) (g g' : Arena) (tr : ATrace) : Prop where
  len : g'.length = g.length
  defs : ∀ j, SameDef (g'.get j) (g.get j)
  frozen : ∀ j, some j ≠ x → busy g j → (g'.get j).rt = (g.get j).rt ∧ QuietFor j tr
  idle : ∀ j, some j ≠ x → ¬ busy g j → ¬ busy g' j ∧ ∀ T, MInv (g.get j) j T → MInv (g'.get j) j (T ++ tr)
  rej : SelfRejected tr

abbrev Pres := PresX none

theorem PresX.refl (x : Option Nat) (g : Arena) : PresX x g g [] :=
  ⟨rfl, fun j => SameDef.rfl' _, fun j _ _ => ⟨rfl, quietFor_nil j⟩,
   fun j _ h => ⟨h, fun T hT => by simpa using hT⟩, fun ev he => by cases he⟩

theorem PresX.trans {x : Option Nat} {g g1 g2 : Arena} {t1 t2 : ATrace}
    (h1 : PresX x g g1 t1) (h2 : PresX x g1 g2 t2) : PresX x g g2 (t1 ++ t2) := by
  refine ⟨h2.len.trans h1.len, fun j => (h2.defs j).trans' (h1.defs j), ?_, ?_, selfRejected_append h1.rej h2.rej⟩
  · intro j hx hb
    have a := h1.frozen j hx hb
    have hb1 : busy g1 j := by unfold busy; rw [a.1]; exact hb
    have b := h2.frozen j hx hb1
    exact ⟨b.1.trans a.1, quietFor_append a.2 b.2⟩
  · intro j hx hb
    have a := h1.idle j hx hb
    have b := h2.idle j hx a.1
    exact ⟨b.1, fun T hT => by rw [← List.append_assoc]; exact b.2 _ (a.2 T hT)⟩

theorem PresX.weaken {g g' : Arena} {tr : ATrace} (h : Pres g g' tr) (x : Option Nat) : PresX x g g' tr :=
  ⟨h.len, h.defs, fun j _ hb => h.frozen j (by simp) hb, fun j _ hb => h.idle j (by simp) hb, h.rej⟩

theorem PresX.of_eq {x : Option Nat} {g g' : Arena} {tr tr' : ATrace} (h : PresX x g g' tr) (e : tr = tr') : PresX x g g' tr' := e ▸ h

/-- an event printed by a callback body (or `unmodelled`) is neutral for everybody -/
theorem pres_scriptEvent (g : Arena) (ev : AEv) (h1 : isScriptKind ev.kind = true) (h2 : selfRej ev) : Pres g g [ev] := by
  refine ⟨rfl, fun j => SameDef.rfl' _, ?_, ?_, ?_⟩
  · intro j _ _
    refine ⟨rfl, ?_⟩
    intro e he _; simp only [List.mem_singleton] at he; subst he; exact h1
  · intro j _ hb
    refine ⟨hb, fun T hT => hT.quiet [ev] ?_⟩
    intro e he _; simp only [List.mem_singleton] at he; subst he; exact h1
  · intro e he; simp only [List.mem_singleton] at he; subst he; exact h2

theorem pres_unm (g : Arena) (k : Nat) : Pres g g (unm k) :=
  pres_scriptEvent g ⟨k, .unmodelled⟩ rfl (by simp [selfRej])

theorem pres_oof (g : Arena) (k : Nat) : Pres g g (oof k) :=
  pres_scriptEvent g ⟨k, .foreign k⟩ rfl (by simp [selfRej])

def notCall : Kind → Bool
  | .call .. => false
  | _ => true

/-- an event of machine `k`'s own code is neutral for every other machine -/
theorem presX_ownEvent (g : Arena) (k : Nat) (kd : Kind) (h : notCall kd = true) : PresX (some k) g g [⟨k, kd⟩] := by
  refine ⟨rfl, fun j => SameDef.rfl' _, ?_, ?_, ?_⟩
  · intro j hj _
    refine ⟨rfl, ?_⟩
    intro e he hm; simp only [List.mem_singleton] at he; subst he
    exact absurd (by simpa using hm) (fun (hh : k = j) => hj (by rw [hh]))
  · intro j hj hb
    refine ⟨hb, fun T hT => ⟨hT.wf, hT.cid, fun s => ?_⟩⟩
    have hne : (⟨k, kd⟩ : AEv).mid ≠ j := fun (hh : k = j) => hj (by rw [hh])
    rw [delta_append]; simp only [delta]; rw [evDelta_other j s _ hne, hT.bal s]; simp
  · intro e he; simp only [List.mem_singleton] at he; subst he
    cases kd <;> simp [selfRej, notCall] at h ⊢

/-- machine `k`'s own code writing its own record is invisible to every other machine -/
theorem presX_updRt (g : Arena) (k : Nat) (f : Rt → Rt) : PresX (some k) g (g.updRt k f) [] := by
  refine ⟨length_updRt g k f, fun j => sameDef_updRt g k j f, ?_, ?_, fun ev he => by cases he⟩
  · intro j hj _
    have : j ≠ k := fun hh => hj (by rw [hh])
    exact ⟨by rw [get_updRt_ne g k j f this], quietFor_nil j⟩
  · intro j hj hb
    have hne : j ≠ k := fun hh => hj (by rw [hh])
    refine ⟨by unfold busy; rw [get_updRt_ne g k j f hne]; exact hb, fun T hT => ?_⟩
    rw [get_updRt_ne g k j f hne]; simpa using hT

/-- assembling a complete invocation on the idle machine `k` -/
theorem pres_of_presX {g g' : Arena} {tr : ATrace} {k : Nat} (h : PresX (some k) g g' tr) (hidle : ¬ busy g k)
    (h1 : ¬ busy g' k) (h2 : ∀ T, MInv (g.get k) k T → MInv (g'.get k) k (T ++ tr)) : Pres g g' tr := by
  refine ⟨h.len, h.defs, ?_, ?_, h.rej⟩
  · intro j _ hb
    by_cases hj : j = k
    · subst hj; exact absurd hb hidle
    · exact h.frozen j (by simpa using hj) hb
  · intro j _ hb
    by_cases hj : j = k
    · subst hj; exact ⟨h1, h2⟩
    · exact h.idle j (by simpa using hj) hb

/-- what every method invocation guarantees -/
def Good (rec : Rec) : Prop :=
  ∀ g k c, Pres g (rec g k c).1 (rec g k c).2.2 ∧ (busy g k → (rec g k c).1 = g ∧ (rec g k c).2.1 = false)

end AI
end Tbox.C16
