/-
C16 — arena model: the own phase events (exit / transition action / enter / notification) of one
`run()` invocation on a machine object: none, or exactly one of each in that order.
-/
import TboxModel.C16.ArenaProofs
import TboxModel.C16.Order
set_option linter.unusedSimpArgs false
set_option linter.unusedVariables false
namespace Tbox.C16
namespace AI
open Arena

/-- phase events of machine object `k`'s own code, in order -/
def aPhases (k : Nat) : ATrace → List Kind
  | [] => []
  | ev :: t => if ev.mid = k ∧ isPhase ev.kind = true then ev.kind :: aPhases k t else aPhases k t

theorem aPhases_append (k : Nat) (a b : ATrace) : aPhases k (a ++ b) = aPhases k a ++ aPhases k b := by
  induction a with
  | nil => rfl
  | cons ev a ih => simp only [List.cons_append, aPhases]; split <;> simp [ih]

def NoPh (k : Nat) (tr : ATrace) : Prop := ∀ ev ∈ tr, ev.mid = k → isPhase ev.kind = false

theorem noPh_nil (k : Nat) : NoPh k [] := by intro ev h; cases h
theorem noPh_append {k : Nat} {a b : ATrace} (h1 : NoPh k a) (h2 : NoPh k b) : NoPh k (a ++ b) := by
  intro ev he
  rcases List.mem_append.1 he with h | h
  · exact h1 ev h
  · exact h2 ev h
theorem noPh_cons {k : Nat} {ev : AEv} {a : ATrace} (h1 : isPhase ev.kind = false) (h2 : NoPh k a) : NoPh k (ev :: a) := by
  intro e he
  rcases List.mem_cons.1 he with h | h
  · subst h; exact fun _ => h1
  · exact h2 e h
theorem noPh_unm (k j : Nat) : NoPh k (unm j) := noPh_cons rfl (noPh_nil k)

theorem aPhases_noPh (k : Nat) (tr : ATrace) (h : NoPh k tr) : aPhases k tr = [] := by
  induction tr with
  | nil => rfl
  | cons ev tr ih =>
    simp only [aPhases]
    split
    · rename_i hc
      have := h ev (List.mem_cons_self ..) hc.1
      rw [this] at hc; exact absurd hc.2 (by simp)
    · exact ih (fun e he => h e (List.mem_cons_of_mem _ he))

theorem noPh_of_quiet {k : Nat} {tr : ATrace} (h : QuietFor k tr) : NoPh k tr := by
  intro ev he hm
  have := h ev he hm
  cases hk : ev.kind <;> simp [hk, isScriptKind, isPhase] at this ⊢

theorem noPh_script (rec : Rec) (hg : Good rec) (k : Nat) (sc : Script) (g : Arena) (hb : busy g k) : NoPh k (aScript rec k g sc).2 :=
  noPh_of_quiet (frozen_rt (aScript_pres rec hg k sc g hb) hb).2.1

theorem noPh_subcall (rec : Rec) (hg : Good rec) (k : Nat) (g : Arena) (c : Call) (hb : busy g k) : NoPh k (aSubCall rec g k c).2 :=
  noPh_of_quiet (frozen_rt (aSubCall_pres rec hg g k c) hb).2.1

theorem noPh_routeScan (rec : Rec) (hg : Good rec) (k : Nat) (sid : StateId) (e : Event) :
    ∀ (rs : List Route) (i : Nat) (g : Arena), busy g k → NoPh k (aRouteScan rec k sid e i g rs).2.2
  | [], i, g, _ => noPh_nil k
  | r :: rs, i, g, hb => by
    unfold aRouteScan
    split
    · exact noPh_routeScan rec hg k sid e rs (i + 1) g hb
    · cases hgd : r.guard with
      | none => exact noPh_nil k
      | some gd =>
        simp only []
        have N := noPh_script rec hg k gd.script g hb
        have F := frozen_rt (aScript_pres rec hg k gd.script g hb) hb
        split
        · exact noPh_cons rfl N
        · exact noPh_cons rfl (noPh_append N (noPh_routeScan rec hg k sid e rs (i + 1) _ F.2.2))

theorem noPh_delegate (rec : Rec) (hg : Good rec) (g : Arena) (k : Nat) (e : Event) (hk : k < g.length) :
    NoPh k (aDelegate Fix.all rec g k e).2.2 := by
  unfold aDelegate
  split
  · exact noPh_unm k k
  · split
    · exact noPh_nil k
    · rename_i j _
      simp only [Fix.all, if_true]
      have hb0 := busy_inc g k hk
      generalize g.incLevel k = g0 at hb0
      have R := (hg g0 j (.run e)).1
      generalize rec g0 j (.run e) = r at R
      have FR := frozen_rt R hb0
      have N0 := noPh_of_quiet FR.2.1
      split
      · exact noPh_append N0 (noPh_unm k k)
      · split
        · exact noPh_append N0 (noPh_unm k k)
        · split
          · exact N0
          · exact noPh_append N0 (noPh_subcall rec hg k r.1 .stop FR.2.2)

theorem noPh_handlers (rec : Rec) (hg : Good rec) (g : Arena) (k : Nat) (cs : StateDef Nat) (e : Event) (hk : k < g.length) :
    NoPh k (aHandlers rec g k cs e).2.2 := by
  unfold aHandlers
  simp only []
  have hb0 := busy_inc g k hk
  generalize g.incLevel k = g1 at hb0
  split
  · exact noPh_cons rfl (noPh_script rec hg k _ g1 hb0)
  · split
    · exact noPh_cons rfl (noPh_script rec hg k _ g1 hb0)
    · exact noPh_nil k

theorem noPh_select (rec : Rec) (hg : Good rec) (g : Arena) (k : Nat) (e : Event) (hret : Int) (hk : k < g.length) :
    NoPh k (aSelect rec g k e hret).2.2 := by
  unfold aSelect
  split
  · split
    · exact noPh_unm k k
    · rename_i cs2 _
      simp only []
      have N := noPh_routeScan rec hg k cs2.id e cs2.routes 0 _ (busy_inc g k hk)
      split
      · exact N
      · exact N
  · exact noPh_nil k

theorem probe_phases (rec : Rec) (hg : Good rec) (k : Nat) (g : Arena) (mk : Bool → Kind) (p : Option Script) (hb : busy g k)
    (hph : ∀ b, isPhase (mk b) = true) : aPhases k (aProbe rec k g mk p).2 = [mk p.isSome] := by
  obtain ⟨tr', h1, P⟩ := aProbe_pres rec hg k g mk p hb
  rw [h1]
  simp only [aPhases, hph, and_self, if_true]
  rw [aPhases_noPh k tr' (noPh_of_quiet (frozen_rt P hb).2.1)]

/-- the phases of the tail of `run()` -/
theorem aTransition_phases (rec : Rec) (hg : Good rec) (g : Arena) (k : Nat) (e : Event) (nextId : StateId) (ridx : Option Nat)
    (action : Option Script) (hk : k < g.length) (c : StateId) (hc : (g.get k).rt.curr = some c)
    (hcid : ((g.get k).stateOf c).id = c) :
    (aPhases k (aTransition rec g k e nextId ridx action).2.2 = [] ∧
      ((aTransition rec g k e nextId ridx action).1.get k).rt.curr = some c) ∨
    ∃ b h1 h2 h3 h4, ((aTransition rec g k e nextId ridx action).1.get k).rt.curr = some b ∧
      aPhases k (aTransition rec g k e nextId ridx action).2.2 = [.exit c e h1, .action c ridx e h2, .enter b e h3, .notify c b e h4] := by
  unfold aTransition
  cases hres : (g.get k).resolve nextId with
  | none =>
    left
    simp only []
    exact ⟨rfl, by rw [rt_updRt_self g k _ hk]; exact hc⟩
  | some ts =>
    right
    simp only []
    have hRS := resolve_stateOf _ _ _ hres
    have hts : (g.get k).stateOf ts.id = ts := by have := hRS.2; rw [← hRS.1] at this; exact this
    have hlen0 : k < (g.updRt k fun rt => { rt with next := some ts.id }).length := by rw [length_updRt]; exact hk
    have hrt4 : (((g.updRt k fun rt => { rt with next := some ts.id }).incLevel k).get k).rt =
        { (g.get k).rt with next := some ts.id, cbLevel := (g.get k).rt.cbLevel + 1 } := by
      rw [incLevel_rt _ k hlen0, rt_updRt_self g k _ hk]
    have hb4 := busy_inc _ k hlen0
    have P4 : PresX (some k) g ((g.updRt k fun rt => { rt with next := some ts.id }).incLevel k) [] :=
      ((presX_updRt g k _).trans (presX_inc _ k)).of_eq rfl
    generalize ((g.updRt k fun rt => { rt with next := some ts.id }).incLevel k) = g4 at hrt4 hb4 P4
    -- exit
    have hcs4 : g4.curState k = some ((g4.get k).stateOf c) := curState_of_curr (by rw [hrt4]; exact hc)
    have hid4 : ((g4.get k).stateOf c).id = c := by rw [stateOf_sameDef (P4.defs k)]; exact hcid
    have X := aExit_presX rec hg g4 k e hb4
    have hXp : aPhases k (aExit rec g4 k e).2 = [.exit c e ((g4.get k).stateOf c).exit.isSome] := by
      have : aExit rec g4 k e = aProbe rec k g4 (.exit ((g4.get k).stateOf c).id e) ((g4.get k).stateOf c).exit := by
        unfold aExit; rw [hcs4]
      rw [this, probe_phases rec hg k g4 _ _ hb4 (fun _ => rfl), hid4]
    generalize aExit rec g4 k e = x at X hXp
    have hlx : k < x.1.length := by rw [X.1.len, P4.len]; exact hk
    have hsrc : optInt (x.1.get k).rt.curr = c := by rw [X.2.1, hrt4]; simp [hc, optInt]
    rw [hsrc]
    have hrt5 := rt_updRt_self x.1 k (fun rt => { rt with last := rt.curr, curr := none }) hlx
    have hb5 := busy_updRt_level x.1 k (fun rt => { rt with last := rt.curr, curr := none }) hlx (fun _ => rfl) X.2.2
    have P5 := presX_updRt x.1 k (fun rt => { rt with last := rt.curr, curr := none })
    generalize x.1.updRt k (fun rt => { rt with last := rt.curr, curr := none }) = g5 at hrt5 hb5 P5
    have A := probe_step rec hg k g5 (.action c ridx e) action hb5 (fun _ => rfl)
    have hAp := probe_phases rec hg k g5 (.action c ridx e) action hb5 (fun _ => rfl)
    generalize aProbe rec k g5 (.action c ridx e) action = a at A hAp
    have hla : k < a.1.length := by rw [A.1.len, P5.len]; exact hlx
    have hrt6 := rt_updRt_self a.1 k (fun rt => { rt with curr := rt.next, next := none }) hla
    have hb6 := busy_updRt_level a.1 k (fun rt => { rt with curr := rt.next, next := none }) hla (fun _ => rfl) A.2.2.1
    have P6 := presX_updRt a.1 k (fun rt => { rt with curr := rt.next, next := none })
    generalize a.1.updRt k (fun rt => { rt with curr := rt.next, next := none }) = g6 at hrt6 hb6 P6
    have hrt6' : (g6.get k).rt = { (g.get k).rt with last := (g.get k).rt.curr, curr := some ts.id, next := none, cbLevel := (g.get k).rt.cbLevel + 1 } := by
      rw [hrt6, A.2.1, hrt5, X.2.1, hrt4]
    have hcs6 : g6.curState k = some ((g6.get k).stateOf ts.id) := curState_of_curr (by rw [hrt6'])
    rw [hcs6]; simp only []
    have hd6 : SameDef (g6.get k) (g.get k) :=
      (P6.defs k).trans' ((A.1.defs k).trans' ((P5.defs k).trans' ((X.1.defs k).trans' (P4.defs k))))
    have hns : ((g6.get k).stateOf ts.id).id = ts.id := by rw [stateOf_sameDef hd6, hts]
    generalize (g6.get k).stateOf ts.id = ns at hns
    rw [hns]
    have EN := probe_step rec hg k g6 (.enter ts.id e) ns.enter hb6 (fun _ => rfl)
    have hENp := probe_phases rec hg k g6 (.enter ts.id e) ns.enter hb6 (fun _ => rfl)
    generalize aProbe rec k g6 (.enter ts.id e) ns.enter = en at EN hENp
    have hlast : optInt (en.1.get k).rt.last = c := by rw [EN.2.1, hrt6']; simp [hc, optInt]
    have hcur : optInt (en.1.get k).rt.curr = ts.id := by rw [EN.2.1, hrt6']; simp [optInt]
    rw [hlast, hcur]
    have CB := probe_step rec hg k en.1 (.notify c ts.id e) (en.1.get k).cb EN.2.2.1 (fun _ => rfl)
    have hCBp := probe_phases rec hg k en.1 (.notify c ts.id e) (en.1.get k).cb EN.2.2.1 (fun _ => rfl)
    generalize aProbe rec k en.1 (.notify c ts.id e) (en.1.get k).cb = cb at CB hCBp
    have S1 := sub_step rec hg k cb.1 .start CB.2.2.1
    have N1 := noPh_subcall rec hg k cb.1 .start CB.2.2.1
    generalize aSubCall rec cb.1 k .start = s1 at S1 N1
    have S2 : ((aSubRun rec s1.1 k e).1.get k).rt = (s1.1.get k).rt ∧ NoPh k (aSubRun rec s1.1 k e).2 ∧
        (aSubRun rec s1.1 k e).1.length = s1.1.length := by
      unfold aSubRun
      split
      · split
        · have := sub_step rec hg k s1.1 (.run e) S1.2.2.1
          exact ⟨this.2.1, noPh_subcall rec hg k s1.1 (.run e) S1.2.2.1, this.1.len⟩
        · exact ⟨rfl, noPh_nil k, rfl⟩
      · exact ⟨rfl, noPh_nil k, rfl⟩
    generalize aSubRun rec s1.1 k e = s2 at S2
    have hl2 : k < s2.1.length := by rw [S2.2.2, S1.1.len, CB.1.len, EN.1.len, P6.len]; exact hla
    refine ⟨ts.id, ((g4.get k).stateOf c).exit.isSome, action.isSome, ns.enter.isSome, (en.1.get k).cb.isSome, ?_, ?_⟩
    · rw [decLevel_rt _ k hl2, S2.1, S1.2.1, CB.2.1, EN.2.1, hrt6']
    · simp only [aPhases_append, hXp, hAp, hENp, hCBp, aPhases_noPh k _ N1, aPhases_noPh k _ S2.2.1]
      rfl

/-- what one `run()` invocation contributes at machine `k`'s own level -/
def AOrderOnce (k : Nat) (before after : Option StateId) (e : Event) (tr : ATrace) : Prop :=
  (aPhases k tr = [] ∧ after = before) ∨
  ∃ a b ri h1 h2 h3 h4, before = some a ∧ after = some b ∧
    aPhases k tr = [.exit a e h1, .action a ri e h2, .enter b e h3, .notify a b e h4]

theorem aRun_order (rec : Rec) (hg : Good rec) (g : Arena) (k : Nat) (e : Event) (hk : k < g.length)
    (hwf : (g.get k).rt.running = (g.get k).rt.curr.isSome)
    (hcid : ∀ c, (g.get k).rt.curr = some c → ((g.get k).stateOf c).id = c) :
    AOrderOnce k (g.get k).rt.curr ((aRun Fix.all rec g k e).1.get k).rt.curr e (aRun Fix.all rec g k e).2.2 := by
  unfold aRun
  cases h1 : runReject (g.get k).rt with
  | some r => exact Or.inl ⟨rfl, rfl⟩
  | none =>
    have h0 := runReject_none h1
    simp only []
    have D : QStep k g (aDelegate Fix.all rec g k e).1 (aDelegate Fix.all rec g k e).2.2 := aDelegate_presX rec hg g k e hk
    have ND := noPh_delegate rec hg g k e hk
    generalize aDelegate Fix.all rec g k e = d at D ND
    have hld : k < d.1.length := by rw [D.1.len]; exact hk
    split
    · exact Or.inl ⟨aPhases_noPh k _ ND, by rw [D.2.1]⟩
    · split
      · exact Or.inl ⟨aPhases_noPh k _ (noPh_append ND (noPh_unm k k)), by rw [D.2.1]⟩
      · rename_i cs _
        have H : QStep k d.1 (aHandlers rec d.1 k cs e).1 (aHandlers rec d.1 k cs e).2.2 := aHandlers_presX rec hg d.1 k cs e hld
        have NH := noPh_handlers rec hg d.1 k cs e hld
        generalize aHandlers rec d.1 k cs e = h at H NH
        have hlh : k < h.1.length := by rw [H.1.len]; exact hld
        have SL : QStep k h.1 (aSelect rec h.1 k e h.2.1).1 (aSelect rec h.1 k e h.2.1).2.2 := aSelect_presX rec hg h.1 k e h.2.1 hlh
        have NSL := noPh_select rec hg h.1 k e h.2.1 hlh
        generalize aSelect rec h.1 k e h.2.1 = sel at SL NSL
        have hls : k < sel.1.length := by rw [SL.1.len]; exact hlh
        have hrtS : (sel.1.get k).rt = (g.get k).rt := by rw [SL.2.1, H.2.1, D.2.1]
        have Npre := noPh_append (noPh_append ND NH) NSL
        split
        · exact Or.inl ⟨aPhases_noPh k _ Npre, by rw [hrtS]⟩
        · rename_i nextId ridx action _
          simp only []
          rw [h0.1] at hwf
          cases hc : (g.get k).rt.curr with
          | none => rw [hc] at hwf; simp at hwf
          | some c =>
            have hdS : SameDef (sel.1.get k) (g.get k) := (SL.1.defs k).trans' ((H.1.defs k).trans' (D.1.defs k))
            have TP := aTransition_phases rec hg sel.1 k e nextId ridx action hls c (by rw [hrtS]; exact hc)
              (by rw [stateOf_sameDef hdS]; exact hcid c hc)
            generalize aTransition rec sel.1 k e nextId ridx action = t at TP
            unfold AOrderOnce
            rw [aPhases_append, aPhases_noPh k _ Npre, List.nil_append]
            rcases TP with ⟨hp, hcur⟩ | ⟨b, x1, x2, x3, x4, hcur, hp⟩
            · exact Or.inl ⟨hp, hcur⟩
            · exact Or.inr ⟨c, b, ridx, x1, x2, x3, x4, rfl, hcur, hp⟩

end AI
end Tbox.C16
