/-
C16 — arena model: programs (any interleaving of method invocations addressed to ANY machine
object and of definition calls) and the lemmas that lift `good_aCall` to them.
-/
import TboxModel.C16.ArenaProofs
import TboxModel.C16.Model
import TboxModel.C16.GuardOrder
set_option linter.unusedSimpArgs false
set_option linter.unusedVariables false
namespace Tbox.C16
open Arena

/-- one step of a program on the arena: a method invocation from outside on machine `k`, a
definition call that the code refuses while running (`newState/addRoute/addEvent/
setSubStateMachine`), or one it always performs (`setInitState/setStateChangedCallback`) -/
inductive AOp where
  | call (k : Nat) (c : Call)
  | defn (k : Nat) (f : ARec → ARec × Bool)
  | always (k : Nat) (f : ARec → ARec)

/-- a definition call does not touch the run-time record -/
def AOp.Legal : AOp → Prop
  | .call _ _ => True
  | .defn _ f => ∀ m, (f m).1.rt = m.rt
  | .always _ f => ∀ m, (f m).rt = m.rt ∧ (f m).states = m.states

def aOp (g : Arena) : AOp → Arena × ATrace
  | .call k c => let r := aCall Fix.all (fuelFor g) g k c; (r.1, r.2.2)
  | .defn k f => ((Def.guarded g k f).1, [])
  | .always k f => (Def.always g k f, [])

def aProg : Arena → List AOp → Arena × ATrace
  | g, [] => (g, [])
  | g, op :: ops => let r := aOp g op; let x := aProg r.1 ops; (x.1, r.2 ++ x.2)


/-- the arena's `find_if` selects what the tree model's selects (callback bodies cannot influence it) -/
theorem aRouteScan_sel (rec : Rec) (k : Nat) (sid : StateId) (e : Event) (self : Nat) (rt : Rt) (ctx : Ctx) :
    ∀ (rs : List Route) (i : Nat) (g : Arena), (aRouteScan rec k sid e i g rs).2.1 = (routeScan sid self rt ctx e i rs).1
  | [], i, g => rfl
  | r :: rs, i, g => by
    unfold aRouteScan routeScan
    split
    · exact aRouteScan_sel rec k sid e self rt ctx rs (i + 1) g
    · cases r.guard with
      | none => rfl
      | some gd =>
        simp only []
        split
        · rfl
        · exact aRouteScan_sel rec k sid e self rt ctx rs (i + 1) _

/-- a guard evaluation of machine `k`'s own `find_if`: (route index, result) -/
def aGuardOf (k : Nat) (ev : AEv) : Option (Nat × Bool) :=
  if ev.mid = k then (match ev.kind with | .guard _ i _ r => some (i, r) | _ => none) else none

theorem quiet_noGuards (k : Nat) (tr : ATrace) (h : AI.QuietFor k tr) : tr.filterMap (aGuardOf k) = [] := by
  induction tr with
  | nil => rfl
  | cons ev tr ih =>
    have h1 : aGuardOf k ev = none := by
      unfold aGuardOf
      split
      · rename_i hm
        have := h ev (List.mem_cons_self ..) hm
        cases hk : ev.kind <;> simp [hk, AI.isScriptKind] at this ⊢
      · rfl
    simp only [List.filterMap_cons, h1]
    exact ih (fun e he => h e (List.mem_cons_of_mem _ he))

/-- the guard evaluations of the arena's `find_if` are those of the tree model's -/
theorem aRouteScan_guards (rec : Rec) (hg : AI.Good rec) (k : Nat) (sid : StateId) (e : Event) (self : Nat) (rt : Rt) (ctx : Ctx) :
    ∀ (rs : List Route) (i : Nat) (g : Arena), AI.busy g k →
      (aRouteScan rec k sid e i g rs).2.2.filterMap (aGuardOf k) = (routeScan sid self rt ctx e i rs).2.filterMap guardOf
  | [], i, g, _ => rfl
  | r :: rs, i, g, hb => by
    unfold aRouteScan routeScan
    split
    · exact aRouteScan_guards rec hg k sid e self rt ctx rs (i + 1) g hb
    · cases r.guard with
      | none => rfl
      | some gd =>
        simp only []
        have S := AI.aScript_pres rec hg k gd.script g hb
        have F := AI.frozen_rt S hb
        have hq := quiet_noGuards k _ F.2.1
        split
        · simp [List.filterMap_cons, aGuardOf, guardOf, here, hq, runScript_noGuards]
        · have ih := aRouteScan_guards rec hg k sid e self rt ctx rs (i + 1) _ F.2.2
          simp [List.filterMap_cons, List.filterMap_append, aGuardOf, guardOf, here, hq, runScript_noGuards, ih]

namespace AI

/-- between calls: every machine object is idle and satisfies its own invariant -/
def AInv (g : Arena) (T : ATrace) : Prop := ∀ j, ¬ busy g j ∧ MInv (g.get j) j T

theorem get_set (g : Arena) (k j : Nat) (a : ARec) :
    Arena.get (g.set k a) j = if j = k ∧ k < g.length then a else g.get j := by
  unfold Arena.get
  simp only [List.getD_eq_getElem?_getD, List.getElem?_set]
  by_cases h : k = j
  · subst h
    by_cases hk : k < g.length
    · simp [hk]
    · simp [hk]
  · have : ¬ (j = k) := fun hh => h hh.symm
    simp [h, this]

theorem get_of_getElem? {g : Arena} {k : Nat} {m : ARec} (h : g[k]? = some m) : g.get k = m ∧ k < g.length := by
  have hk : k < g.length := by
    rcases Nat.lt_or_ge k g.length with h' | h'
    · exact h'
    · rw [List.getElem?_eq_none h'] at h; cases h
  refine ⟨?_, hk⟩
  unfold Arena.get; simp [List.getD_eq_getElem?_getD, h]

theorem aOp_inv (g : Arena) (T : ATrace) (op : AOp) (hl : op.Legal) (h : AInv g T) : AInv (aOp g op).1 (T ++ (aOp g op).2) := by
  cases op with
  | call k c =>
    have G := (good_aCall (fuelFor g) g k c).1
    intro j
    have := G.idle j (by simp) (h j).1
    exact ⟨this.1, this.2 T (h j).2⟩
  | defn k f =>
    simp only [aOp, List.append_nil]
    unfold Def.guarded
    cases hk : g[k]? with
    | none => exact h
    | some m =>
      simp only []
      have hm := get_of_getElem? hk
      split
      · exact h
      · rename_i hrun
        intro j
        rw [get_set]
        split
        · rename_i hj
          obtain ⟨hj1, _⟩ := hj; subst hj1
          have hj := h j
          rw [hm.1] at hj
          have hrt : (f m).1.rt = m.rt := hl m
          have hcn : m.rt.curr = none := by
            have := hj.2.wf
            cases hc : m.rt.curr with
            | none => rfl
            | some c => rw [hc] at this; simp at this; exact absurd this hrun
          refine ⟨by unfold busy; rw [get_set]; simp [hm.2, hrt]; have := hj.1; unfold busy at this; rw [hm.1] at this; simpa using this, ?_, ?_, ?_⟩
          · rw [hrt]; exact hj.2.wf
          · intro c hc; rw [hrt, hcn] at hc; cases hc
          · intro s; rw [hrt]; exact hj.2.bal s
        · rename_i hj
          refine ⟨?_, (h j).2⟩
          unfold busy; rw [get_set]; simp only [hj, if_false]; exact (h j).1
  | always k f =>
    simp only [aOp, List.append_nil]
    unfold Def.always
    cases hk : g[k]? with
    | none => exact h
    | some m =>
      simp only []
      have hm := get_of_getElem? hk
      intro j
      have hlm := hl m
      by_cases hj : j = k ∧ k < g.length
      · obtain ⟨hj1, _⟩ := hj; subst hj1
        have hj := h j
        rw [hm.1] at hj
        have hg : Arena.get (g.set j (f m)) j = f m := by rw [get_set]; simp [hm.2]
        refine ⟨by have := (h j).1; unfold busy at this ⊢; rw [hm.1] at this; rw [hg, hlm.1]; exact this, ?_⟩
        rw [hg]
        refine ⟨by rw [hlm.1]; exact hj.2.wf, ?_, fun s => by rw [hlm.1]; exact hj.2.bal s⟩
        intro c hc
        have : (f m).stateOf c = m.stateOf c := by unfold MachOf.stateOf MachOf.findState; rw [hlm.2]
        rw [this]; exact hj.2.cid c (by rw [← hlm.1]; exact hc)
      · have hg : Arena.get (g.set k (f m)) j = g.get j := by rw [get_set]; simp only [hj, if_false]
        refine ⟨by unfold busy; rw [hg]; exact (h j).1, by rw [hg]; exact (h j).2⟩

theorem aProg_inv : ∀ (ops : List AOp) (g : Arena) (T : ATrace), (∀ op ∈ ops, op.Legal) → AInv g T →
    AInv (aProg g ops).1 (T ++ (aProg g ops).2)
  | [], g, T, _, h => by simpa [aProg] using h
  | op :: ops, g, T, hl, h => by
    simp only [aProg]
    have h1 := aOp_inv g T op (hl op (List.mem_cons_self ..)) h
    have := aProg_inv ops _ _ (fun o ho => hl o (List.mem_cons_of_mem _ ho)) h1
    rw [List.append_assoc] at this; exact this

theorem aProg_rej : ∀ (ops : List AOp) (g : Arena), SelfRejected (aProg g ops).2
  | [], g => by intro ev he; cases he
  | op :: ops, g => by
    simp only [aProg]
    refine selfRejected_append ?_ (aProg_rej ops _)
    cases op with
    | call k c => exact (good_aCall (fuelFor g) g k c).1.rej
    | defn k f => intro ev he; cases he
    | always k f => intro ev he; cases he

/-- a store in which nothing has been started -/
def Fresh (g : Arena) : Prop := ∀ m ∈ g, m.rt = {}

theorem fresh_ainv (g : Arena) (h : Fresh g) : AInv g [] := by
  intro j
  have hrt : (g.get j).rt = {} := by
    by_cases hj : j < g.length
    · have : g.get j = g[j] := by unfold Arena.get; simp [List.getD_eq_getElem?_getD, hj]
      rw [this]; exact h _ (List.getElem_mem hj)
    · rw [get_dummy g j hj]; rfl
  refine ⟨by unfold busy; rw [hrt]; simp, ⟨by rw [hrt]; rfl, fun c hc => (by rw [hrt] at hc; cases hc), fun s => (by rw [hrt]; rfl)⟩⟩

end AI
end Tbox.C16
