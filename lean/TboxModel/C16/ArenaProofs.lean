/-
C16 — invariants of the ARENA model, proofs: every method invocation `aCall Fix.all fuel` (any
fuel, any store, any target, any scripts) satisfies `Good`.
-/
import TboxModel.C16.ArenaInv
set_option linter.unusedSimpArgs false
set_option linter.unusedVariables false
namespace Tbox.C16
namespace AI
open Arena

theorem busy_of_rt {g g' : Arena} {k : Nat} (h : (g'.get k).rt = (g.get k).rt) (hb : busy g k) : busy g' k := by
  unfold busy; rw [h]; exact hb

theorem frozen_rt {g g' : Arena} {tr : ATrace} {k : Nat} (h : Pres g g' tr) (hb : busy g k) :
    (g'.get k).rt = (g.get k).rt ∧ QuietFor k tr ∧ busy g' k :=
  have a := h.frozen k (by simp) hb
  ⟨a.1, a.2, busy_of_rt a.1 hb⟩

theorem aScript_pres (rec : Rec) (hg : Good rec) (self : Nat) :
    ∀ (sc : Script) (g : Arena), busy g self → Pres g (aScript rec self g sc).1 (aScript rec self g sc).2
  | [], g, _ => PresX.refl none g
  | .obs t :: rest, g, hb => by
    simp only [aScript]
    have ih := aScript_pres rec hg self rest g hb
    exact ((pres_scriptEvent g ⟨self, .obs t (g.view (t.getD self))⟩ rfl (by simp [selfRej])).trans ih).of_eq rfl
  | .call t c :: rest, g, hb => by
    simp only [aScript]
    have hx := hg g (t.getD self) c
    have hb1 : busy (rec g (t.getD self) c).1 self := (frozen_rt hx.1 hb).2.2
    have ih := aScript_pres rec hg self rest _ hb1
    have hev : selfRej ⟨self, .call t c (rec g (t.getD self) c).2.1 (g.view (t.getD self)) ((rec g (t.getD self) c).1.view (t.getD self))⟩ := by
      simp only [selfRej]
      intro ht
      have hb' : busy g (t.getD self) := by rw [ht]; exact hb
      have := hx.2 hb'
      exact ⟨this.2, by rw [this.1]⟩
    exact (hx.1.trans ((pres_scriptEvent _ _ rfl hev).trans ih)).of_eq (by simp)

theorem aProbe_pres (rec : Rec) (hg : Good rec) (k : Nat) (g : Arena) (mk : Bool → Kind) (p : Option Script) (hb : busy g k) :
    ∃ tr', (aProbe rec k g mk p).2 = ⟨k, mk p.isSome⟩ :: tr' ∧ Pres g (aProbe rec k g mk p).1 tr' := by
  cases p with
  | none => exact ⟨[], rfl, PresX.refl none g⟩
  | some sc => exact ⟨_, rfl, aScript_pres rec hg k sc g hb⟩

theorem aSubCall_pres (rec : Rec) (hg : Good rec) (g : Arena) (k : Nat) (c : Call) :
    Pres g (aSubCall rec g k c).1 (aSubCall rec g k c).2 := by
  unfold aSubCall
  split
  · exact pres_unm g k
  · split
    · exact PresX.refl none g
    · exact (hg g _ c).1

theorem curState_of_curr {g : Arena} {k : Nat} {c : StateId} (h : (g.get k).rt.curr = some c) :
    g.curState k = some ((g.get k).stateOf c) := by
  unfold curState; rw [h]; rfl

theorem aExit_pres (rec : Rec) (hg : Good rec) (g : Arena) (k : Nat) (e : Event) (cs : StateDef Nat)
    (hcs : g.curState k = some cs) (hb : busy g k) :
    ∃ tr', (aExit rec g k e).2 = ⟨k, .exit cs.id e cs.exit.isSome⟩ :: tr' ∧ Pres g (aExit rec g k e).1 tr' := by
  unfold aExit; rw [hcs]; exact aProbe_pres rec hg k g _ _ hb

theorem startReject_false {rt : Rt} {r : Bool} (h : startReject rt = some r) : r = false := by
  unfold startReject at h
  split at h
  · cases h; rfl
  · split at h
    · cases h; rfl
    · cases h

theorem startReject_none {rt : Rt} (h : startReject rt = none) : rt.running = false ∧ rt.cbLevel = 0 := by
  unfold startReject at h
  split at h
  · cases h
  · split at h
    · cases h
    · rename_i h1 h2; exact ⟨by simpa using h1, by simpa using h2⟩

theorem runReject_false {rt : Rt} {r : Bool} (h : runReject rt = some r) : r = false := by
  unfold runReject at h
  split at h
  · cases h; rfl
  · split at h
    · cases h; rfl
    · cases h

theorem runReject_none {rt : Rt} (h : runReject rt = none) : rt.running = true ∧ rt.cbLevel = 0 := by
  unfold runReject at h
  split at h
  · cases h
  · split at h
    · cases h
    · rename_i h1 h2; exact ⟨by simpa using h1, by simpa using h2⟩

theorem stopReject_none {rt : Rt} (h : stopReject rt = none) : rt.running = true ∧ rt.cbLevel = 0 := by
  unfold stopReject at h
  split at h
  · cases h
  · split at h
    · cases h
    · rename_i h1 h2; exact ⟨by simpa using h1, by simpa using h2⟩

theorem stopReject_busy {rt : Rt} (h : rt.cbLevel ≠ 0) : stopReject rt ≠ none := by
  unfold stopReject
  split
  · simp
  · simp [h]

/-- what a body of machine `k` (idle at entry) must deliver -/
def BodyOk (g g' : Arena) (k : Nat) (tr : ATrace) : Prop :=
  PresX (some k) g g' tr ∧ ¬ busy g' k ∧ ∀ T, MInv (g.get k) k T → MInv (g'.get k) k (T ++ tr)

theorem incLevel_rt (g : Arena) (k : Nat) (hk : k < g.length) :
    ((g.incLevel k).get k).rt = { (g.get k).rt with cbLevel := (g.get k).rt.cbLevel + 1 } := by
  unfold incLevel; rw [rt_updRt_self g k _ hk]

theorem decLevel_rt (g : Arena) (k : Nat) (hk : k < g.length) :
    ((g.decLevel k).get k).rt = { (g.get k).rt with cbLevel := (g.get k).rt.cbLevel - 1 } := by
  unfold decLevel; rw [rt_updRt_self g k _ hk]

theorem presX_inc (g : Arena) (k : Nat) : PresX (some k) g (g.incLevel k) [] := presX_updRt g k _
theorem presX_dec (g : Arena) (k : Nat) : PresX (some k) g (g.decLevel k) [] := presX_updRt g k _

theorem busy_inc (g : Arena) (k : Nat) (hk : k < g.length) : busy (g.incLevel k) k := by
  unfold busy; rw [incLevel_rt g k hk]; simp

theorem aStart_good (rec : Rec) (hg : Good rec) (g : Arena) (k : Nat) (hk : k < g.length) :
    Pres g (aStart Fix.all rec g k).1 (aStart Fix.all rec g k).2.2 ∧
    (busy g k → (aStart Fix.all rec g k).1 = g ∧ (aStart Fix.all rec g k).2.1 = false) := by
  unfold aStart
  simp only []
  cases h1 : startReject (g.get k).rt with
  | some r => exact ⟨PresX.refl none g, fun _ => ⟨rfl, startReject_false h1⟩⟩
  | none =>
    have h0 := startReject_none h1
    have hidle : ¬ busy g k := by unfold busy; simp [h0.2]
    cases h2 : (g.get k).findState (g.get k).init with
    | none => exact ⟨PresX.refl none g, fun hb => absurd hb hidle⟩
    | some st =>
      refine ⟨?_, fun hb => absurd hb hidle⟩
      simp only [Fix.all, if_true]
      -- g1
      have hlen0 : k < (g.updRt k fun rt => { rt with running := true, curr := some st.id }).length := by
        rw [length_updRt]; exact hk
      generalize hg1 : ((g.updRt k fun rt => { rt with running := true, curr := some st.id }).incLevel k) = g1
      have hrt1 : (g1.get k).rt = { (g.get k).rt with running := true, curr := some st.id, cbLevel := (g.get k).rt.cbLevel + 1 } := by
        rw [← hg1, incLevel_rt _ k hlen0, rt_updRt_self g k _ hk]
      have hb1 : busy g1 k := by rw [← hg1]; exact busy_inc _ k hlen0
      have P1 : PresX (some k) g g1 [] := by
        rw [← hg1]; exact ((presX_updRt g k _).trans (presX_inc _ k)).of_eq rfl
      obtain ⟨tr', hp2, P2⟩ := aProbe_pres rec hg k g1 (.enter st.id ev0) st.enter hb1
      generalize hp : aProbe rec k g1 (.enter st.id ev0) st.enter = p at hp2 P2
      have F2 := frozen_rt P2 hb1
      have P3 := aSubCall_pres rec hg p.1 k .start
      generalize hs : aSubCall rec p.1 k .start = s at P3
      have F3 := frozen_rt P3 F2.2.2
      have hlen3 : k < s.1.length := by rw [P3.len, P2.len, P1.len]; exact hk
      have hrtF : ((s.1.decLevel k).get k).rt = { (g.get k).rt with running := true, curr := some st.id, cbLevel := (g.get k).rt.cbLevel + 1 - 1 } := by
        rw [decLevel_rt _ k hlen3, F3.1, F2.1, hrt1]
      have PX : PresX (some k) g (s.1.decLevel k) (p.2 ++ s.2) :=
        (P1.trans ((presX_ownEvent g1 k (.enter st.id ev0 st.enter.isSome) rfl).trans
          ((P2.weaken _).trans ((P3.weaken _).trans (presX_dec s.1 k))))).of_eq (by simp [hp2])
      refine pres_of_presX PX hidle ?_ ?_
      · unfold busy; rw [hrtF]; simp [h0.2]
      · intro T hT
        have hcn : (g.get k).rt.curr = none := by
          have := hT.wf; rw [h0.1] at this
          cases hc : (g.get k).rt.curr with
          | none => rfl
          | some c => rw [hc] at this; simp at this
        have hid := findState_id' _ _ _ h2
        refine ⟨by rw [hrtF]; simp, ?_, ?_⟩
        · intro c hc
          rw [hrtF] at hc; simp only [Option.some.injEq] at hc; subst hc
          rw [stateOf_sameDef (PX.defs k), hid]
          simp [MachOf.stateOf, h2, hid]
        · intro s'
          rw [hrtF, delta_append, delta_append, hp2]
          simp only [delta]
          rw [delta_quiet k s' tr' F2.2.1, delta_quiet k s' s.2 F3.2.1, hT.bal s', hcn]
          simp [evDelta]

/-- `aExit` whatever `curr_state_` is: neutral for the others, `k`'s record untouched -/
theorem aExit_presX (rec : Rec) (hg : Good rec) (g : Arena) (k : Nat) (e : Event) (hb : busy g k) :
    PresX (some k) g (aExit rec g k e).1 (aExit rec g k e).2 ∧ ((aExit rec g k e).1.get k).rt = (g.get k).rt ∧
    busy (aExit rec g k e).1 k := by
  cases hcs : g.curState k with
  | none =>
    have : aExit rec g k e = (g, unm k) := by unfold aExit; rw [hcs]
    rw [this]; exact ⟨(pres_unm g k).weaken _, rfl, hb⟩
  | some cs =>
    obtain ⟨tr', h1, P⟩ := aExit_pres rec hg g k e cs hcs hb
    have F := frozen_rt P hb
    exact ⟨((presX_ownEvent g k _ rfl).trans (P.weaken _)).of_eq (by rw [h1]; rfl), F.1, F.2.2⟩

theorem aStop_good (rec : Rec) (hg : Good rec) (g : Arena) (k : Nat) (hk : k < g.length) :
    Pres g (aStop Fix.all rec g k).1 (aStop Fix.all rec g k).2 ∧ (busy g k → (aStop Fix.all rec g k).1 = g) := by
  unfold aStop
  simp only []
  cases h1 : stopReject (g.get k).rt with
  | some r => exact ⟨PresX.refl none g, fun _ => rfl⟩
  | none =>
    have h0 := stopReject_none h1
    have hidle : ¬ busy g k := by unfold busy; simp [h0.2]
    refine ⟨?_, fun hb => absurd hb hidle⟩
    simp only [Fix.all, if_true]
    have hb1 : busy (g.incLevel k) k := busy_inc g k hk
    have hrt1 := incLevel_rt g k hk
    have P1 := presX_inc g k
    generalize g.incLevel k = g1 at hb1 hrt1 P1
    have P2 := aSubCall_pres rec hg g1 k .stop
    generalize aSubCall rec g1 k .stop = s at P2
    have F2 := frozen_rt P2 hb1
    have X := aExit_presX rec hg s.1 k ev0 F2.2.2
    have hlenx : k < (aExit rec s.1 k ev0).1.length := by rw [X.1.len, P2.len, P1.len]; exact hk
    have hlend : k < ((aExit rec s.1 k ev0).1.decLevel k).length := by unfold decLevel; rw [length_updRt]; exact hlenx
    have hrtF : (((((aExit rec s.1 k ev0).1.decLevel k).updRt k fun rt => { rt with curr := none, running := false })).get k).rt
        = { (g.get k).rt with curr := none, running := false, cbLevel := (g.get k).rt.cbLevel + 1 - 1 } := by
      rw [rt_updRt_self _ k _ hlend, decLevel_rt _ k hlenx, X.2.1, F2.1, hrt1]
    have PX : PresX (some k) g ((((aExit rec s.1 k ev0).1.decLevel k).updRt k fun rt => { rt with curr := none, running := false }))
        (s.2 ++ (aExit rec s.1 k ev0).2) :=
      (P1.trans ((P2.weaken _).trans (X.1.trans ((presX_dec _ k).trans (presX_updRt _ k _))))).of_eq (by simp)
    refine pres_of_presX PX hidle ?_ ?_
    · unfold busy; rw [hrtF]; simp [h0.2]
    · intro T hT
      refine ⟨by rw [hrtF]; simp, fun c hc => by rw [hrtF] at hc; simp at hc, ?_⟩
      intro s'
      have hw := hT.wf; rw [h0.1] at hw
      cases hc : (g.get k).rt.curr with
      | none => rw [hc] at hw; simp at hw
      | some c =>
        have hcs : s.1.curState k = some ((s.1.get k).stateOf c) := curState_of_curr (by rw [F2.1, hrt1]; exact hc)
        obtain ⟨tr', hx, Px⟩ := aExit_pres rec hg s.1 k ev0 _ hcs F2.2.2
        have Fx := frozen_rt Px F2.2.2
        have hid : ((s.1.get k).stateOf c).id = c := by
          rw [stateOf_sameDef ((P2.defs k).trans' (P1.defs k))]; exact hT.cid c hc
        rw [hrtF, delta_append, delta_append, hx]
        simp only [delta]
        rw [delta_quiet k s' tr' Fx.2.1, delta_quiet k s' s.2 F2.2.1, hT.bal s', hc, hid]
        simp only [evDelta, Option.some.injEq]
        by_cases hcs' : c = s' <;> simp [hcs']

theorem rt_inc_dec (rt : Rt) : ({ ({ rt with cbLevel := rt.cbLevel + 1 } : Rt) with cbLevel := rt.cbLevel + 1 - 1 } : Rt) = rt := by
  cases rt; simp

theorem curState_congr {g g' : Arena} {k : Nat} (hr : (g'.get k).rt.curr = (g.get k).rt.curr)
    (hd : SameDef (g'.get k) (g.get k)) : g'.curState k = g.curState k := by
  unfold curState; rw [hr]
  cases (g.get k).rt.curr <;> simp [stateOf_sameDef hd]

/-- one `if (f) f(event)` of machine `k`'s own code -/
theorem probe_step (rec : Rec) (hg : Good rec) (k : Nat) (g : Arena) (mk : Bool → Kind) (p : Option Script) (hb : busy g k)
    (hnc : ∀ b, notCall (mk b) = true) :
    PresX (some k) g (aProbe rec k g mk p).1 (aProbe rec k g mk p).2 ∧ ((aProbe rec k g mk p).1.get k).rt = (g.get k).rt ∧
    busy (aProbe rec k g mk p).1 k ∧ ∀ s, delta k s (aProbe rec k g mk p).2 = evDelta k s ⟨k, mk p.isSome⟩ := by
  obtain ⟨tr', h1, P⟩ := aProbe_pres rec hg k g mk p hb
  have F := frozen_rt P hb
  refine ⟨((presX_ownEvent g k _ (hnc _)).trans (P.weaken _)).of_eq (by rw [h1]; rfl), F.1, F.2.2, fun s => ?_⟩
  rw [h1]; simp only [delta]; rw [delta_quiet k s tr' F.2.1]; simp

theorem sub_step (rec : Rec) (hg : Good rec) (k : Nat) (g : Arena) (c : Call) (hb : busy g k) :
    PresX (some k) g (aSubCall rec g k c).1 (aSubCall rec g k c).2 ∧ ((aSubCall rec g k c).1.get k).rt = (g.get k).rt ∧
    busy (aSubCall rec g k c).1 k ∧ ∀ s, delta k s (aSubCall rec g k c).2 = 0 := by
  have P := aSubCall_pres rec hg g k c
  have F := frozen_rt P hb
  exact ⟨P.weaken _, F.1, F.2.2, fun s => delta_quiet k s _ F.2.1⟩

theorem exit_delta (rec : Rec) (hg : Good rec) (g : Arena) (k : Nat) (e : Event) (cs : StateDef Nat)
    (hcs : g.curState k = some cs) (hb : busy g k) (s : StateId) :
    delta k s (aExit rec g k e).2 = if cs.id = s then -1 else 0 := by
  obtain ⟨tr', h1, P⟩ := aExit_pres rec hg g k e cs hcs hb
  have F := frozen_rt P hb
  rw [h1]; simp only [delta]; rw [delta_quiet k s tr' F.2.1]; simp [evDelta]

theorem aRouteScan_presX (rec : Rec) (hg : Good rec) (k : Nat) (sid : StateId) (e : Event) :
    ∀ (rs : List Route) (i : Nat) (g : Arena), busy g k →
      PresX (some k) g (aRouteScan rec k sid e i g rs).1 (aRouteScan rec k sid e i g rs).2.2 ∧
      ((aRouteScan rec k sid e i g rs).1.get k).rt = (g.get k).rt ∧
      ∀ s, delta k s (aRouteScan rec k sid e i g rs).2.2 = 0
  | [], i, g, hb => ⟨PresX.refl _ g, rfl, fun s => rfl⟩
  | r :: rs, i, g, hb => by
    unfold aRouteScan
    split
    · exact aRouteScan_presX rec hg k sid e rs (i + 1) g hb
    · cases hgd : r.guard with
      | none => exact ⟨PresX.refl _ g, rfl, fun s => rfl⟩
      | some gd =>
        simp only []
        have S := aScript_pres rec hg k gd.script g hb
        have F := frozen_rt S hb
        split
        · refine ⟨((presX_ownEvent g k (.guard sid i e (gd.eval e)) rfl).trans (S.weaken _)).of_eq rfl, F.1, fun s => ?_⟩
          simp only [delta]; rw [delta_quiet k s _ F.2.1]; simp [evDelta]
        · have ih := aRouteScan_presX rec hg k sid e rs (i + 1) _ F.2.2
          refine ⟨((presX_ownEvent g k (.guard sid i e (gd.eval e)) rfl).trans ((S.weaken _).trans ih.1)).of_eq (by simp), ih.2.1.trans F.1, fun s => ?_⟩
          simp only [List.cons_append, delta]; rw [delta_append, delta_quiet k s _ F.2.1, ih.2.2 s]; simp [evDelta]

theorem aDelegate_presX (rec : Rec) (hg : Good rec) (g : Arena) (k : Nat) (e : Event) (hk : k < g.length) :
    PresX (some k) g (aDelegate Fix.all rec g k e).1 (aDelegate Fix.all rec g k e).2.2 ∧
    ((aDelegate Fix.all rec g k e).1.get k).rt = (g.get k).rt ∧ ∀ s, delta k s (aDelegate Fix.all rec g k e).2.2 = 0 := by
  unfold aDelegate
  cases hcs : g.curState k with
  | none => exact ⟨(pres_unm g k).weaken _, rfl, fun s => by simp [unm, delta, evDelta]⟩
  | some cs =>
    simp only []
    cases hsub : cs.sub with
    | none => exact ⟨PresX.refl _ g, rfl, fun s => rfl⟩
    | some j =>
      simp only [Fix.all, if_true]
      have hb0 := busy_inc g k hk
      have hrt0 := incLevel_rt g k hk
      have P0 := presX_inc g k
      have hcs0 : (g.incLevel k).curState k = some cs := by
        rw [curState_congr (by rw [hrt0]) (P0.defs k)]; exact hcs
      generalize g.incLevel k = g0 at hb0 hrt0 P0 hcs0
      have R := (hg g0 j (.run e)).1
      generalize rec g0 j (.run e) = r at R
      have FR := frozen_rt R hb0
      have hcs1 : r.1.curState k = some cs := by
        rw [curState_congr (by rw [FR.1]) (R.defs k)]; exact hcs0
      have hlenr : k < r.1.length := by rw [R.len, P0.len]; exact hk
      rw [hcs1]; simp only [hsub]
      split
      · refine ⟨(P0.trans ((R.weaken _).trans (presX_dec r.1 k))).of_eq (by simp), ?_, fun s => delta_quiet k s _ FR.2.1⟩
        rw [decLevel_rt _ k hlenr, FR.1, hrt0]; exact rt_inc_dec _
      · have S := sub_step rec hg k r.1 .stop FR.2.2
        generalize aSubCall rec r.1 k .stop = s at S
        have hlens : k < s.1.length := by rw [S.1.len]; exact hlenr
        refine ⟨(P0.trans ((R.weaken _).trans (S.1.trans (presX_dec s.1 k)))).of_eq (by simp), ?_, fun s' => ?_⟩
        · rw [decLevel_rt _ k hlens, S.2.1, FR.1, hrt0]; exact rt_inc_dec _
        · rw [delta_append, delta_quiet k s' _ FR.2.1, S.2.2.2 s']; rfl

theorem aHandlers_presX (rec : Rec) (hg : Good rec) (g : Arena) (k : Nat) (cs : StateDef Nat) (e : Event) (hk : k < g.length) :
    PresX (some k) g (aHandlers rec g k cs e).1 (aHandlers rec g k cs e).2.2 ∧
    ((aHandlers rec g k cs e).1.get k).rt = (g.get k).rt ∧ ∀ s, delta k s (aHandlers rec g k cs e).2.2 = 0 := by
  unfold aHandlers
  simp only []
  have hb0 := busy_inc g k hk
  have hrt0 := incLevel_rt g k hk
  have P0 := presX_inc g k
  generalize g.incLevel k = g1 at hb0 hrt0 P0
  have key : ∀ (sc : Script) (kd : Kind), notCall kd = true → (∀ s, evDelta k s ⟨k, kd⟩ = 0) →
      PresX (some k) g ((aScript rec k g1 sc).1.decLevel k) (⟨k, kd⟩ :: (aScript rec k g1 sc).2) ∧
      (((aScript rec k g1 sc).1.decLevel k).get k).rt = (g.get k).rt ∧
      ∀ s, delta k s (⟨k, kd⟩ :: (aScript rec k g1 sc).2) = 0 := by
    intro sc kd hkd hd
    have S := aScript_pres rec hg k sc g1 hb0
    have F := frozen_rt S hb0
    have hl : k < (aScript rec k g1 sc).1.length := by rw [S.len, P0.len]; exact hk
    refine ⟨(P0.trans ((presX_ownEvent g1 k kd hkd).trans ((S.weaken _).trans (presX_dec _ k)))).of_eq (by simp), ?_, fun s => ?_⟩
    · rw [decLevel_rt _ k hl, F.1, hrt0]; exact rt_inc_dec _
    · simp only [delta]; rw [hd s, delta_quiet k s _ F.2.1]; rfl
  split
  · exact key _ _ rfl (fun s => by simp [evDelta])
  · split
    · exact key _ _ rfl (fun s => by simp [evDelta])
    · have hl : k < g1.length := by rw [P0.len]; exact hk
      refine ⟨(P0.trans (presX_dec g1 k)).of_eq rfl, ?_, fun s => rfl⟩
      rw [decLevel_rt _ k hl, hrt0]; exact rt_inc_dec _

theorem aSelect_presX (rec : Rec) (hg : Good rec) (g : Arena) (k : Nat) (e : Event) (hret : Int) (hk : k < g.length) :
    PresX (some k) g (aSelect rec g k e hret).1 (aSelect rec g k e hret).2.2 ∧
    ((aSelect rec g k e hret).1.get k).rt = (g.get k).rt ∧ ∀ s, delta k s (aSelect rec g k e hret).2.2 = 0 := by
  unfold aSelect
  split
  · split
    · exact ⟨(pres_unm g k).weaken _, rfl, fun s => by simp [unm, delta, evDelta]⟩
    · rename_i cs2 hcs2
      simp only []
      have hb0 := busy_inc g k hk
      have hrt0 := incLevel_rt g k hk
      have P0 := presX_inc g k
      generalize g.incLevel k = g1 at hb0 hrt0 P0
      have R := aRouteScan_presX rec hg k cs2.id e cs2.routes 0 g1 hb0
      generalize aRouteScan rec k cs2.id e 0 g1 cs2.routes = sc at R
      have hl : k < sc.1.length := by rw [R.1.len, P0.len]; exact hk
      have hrt : ((sc.1.decLevel k).get k).rt = (g.get k).rt := by
        rw [decLevel_rt _ k hl, R.2.1, hrt0]; exact rt_inc_dec _
      have PX : PresX (some k) g (sc.1.decLevel k) sc.2.2 := (P0.trans (R.1.trans (presX_dec _ k))).of_eq (by simp)
      split
      · exact ⟨PX, hrt, R.2.2⟩
      · exact ⟨PX, hrt, R.2.2⟩
  · exact ⟨PresX.refl _ g, rfl, fun s => rfl⟩

theorem busy_updRt_level (g : Arena) (k : Nat) (f : Rt → Rt) (hk : k < g.length) (hf : ∀ rt, (f rt).cbLevel = rt.cbLevel)
    (hb : busy g k) : busy (g.updRt k f) k := by
  unfold busy; rw [rt_updRt_self g k f hk, hf]; exact hb

theorem aTransition_body (rec : Rec) (hg : Good rec) (g : Arena) (k : Nat) (e : Event) (nextId : StateId) (ridx : Option Nat)
    (action : Option Script) (hk : k < g.length) (hidle : ¬ busy g k) :
    PresX (some k) g (aTransition rec g k e nextId ridx action).1 (aTransition rec g k e nextId ridx action).2.2 ∧
    ¬ busy (aTransition rec g k e nextId ridx action).1 k ∧
    ∀ T c, (g.get k).rt.curr = some c → MInv (g.get k) k T →
      MInv ((aTransition rec g k e nextId ridx action).1.get k) k (T ++ (aTransition rec g k e nextId ridx action).2.2) := by
  have hl0 : (g.get k).rt.cbLevel = 0 := by unfold busy at hidle; simpa using hidle
  unfold aTransition
  cases hres : (g.get k).resolve nextId with
  | none =>
    simp only []
    refine ⟨presX_updRt g k _, ?_, ?_⟩
    · unfold busy; rw [rt_updRt_self g k _ hk]; simpa using hl0
    · intro T c hc hT
      have hd := sameDef_updRt g k k (fun rt => { rt with next := none })
      refine ⟨?_, ?_, ?_⟩
      · rw [rt_updRt_self g k _ hk]; exact hT.wf
      · intro c' hc'; rw [rt_updRt_self g k _ hk] at hc'; rw [stateOf_sameDef hd]; exact hT.cid c' hc'
      · intro s; rw [rt_updRt_self g k _ hk]; simpa using hT.bal s
  | some ts =>
    simp only []
    have hRS := resolve_stateOf _ _ _ hres
    have hts : (g.get k).stateOf ts.id = ts := by have := hRS.2; rw [← hRS.1] at this; exact this
    -- g4
    have hlen0 : k < (g.updRt k fun rt => { rt with next := some ts.id }).length := by rw [length_updRt]; exact hk
    have hrt4 : (((g.updRt k fun rt => { rt with next := some ts.id }).incLevel k).get k).rt =
        { (g.get k).rt with next := some ts.id, cbLevel := (g.get k).rt.cbLevel + 1 } := by
      rw [incLevel_rt _ k hlen0, rt_updRt_self g k _ hk]
    have hb4 := busy_inc _ k hlen0
    have P4 : PresX (some k) g ((g.updRt k fun rt => { rt with next := some ts.id }).incLevel k) [] :=
      ((presX_updRt g k _).trans (presX_inc _ k)).of_eq rfl
    generalize ((g.updRt k fun rt => { rt with next := some ts.id }).incLevel k) = g4 at hrt4 hb4 P4
    -- exit
    have X := aExit_presX rec hg g4 k e hb4
    have hXd : ∀ c, (g.get k).rt.curr = some c → ∀ s, delta k s (aExit rec g4 k e).2 = if ((g.get k).stateOf c).id = s then -1 else 0 := by
      intro c hc s
      have hcs : g4.curState k = some ((g4.get k).stateOf c) := curState_of_curr (by rw [hrt4]; exact hc)
      rw [exit_delta rec hg g4 k e _ hcs hb4 s, stateOf_sameDef (P4.defs k)]
    generalize aExit rec g4 k e = x at X hXd
    have hlx : k < x.1.length := by rw [X.1.len, P4.len]; exact hk
    -- g5
    have hrt5 := rt_updRt_self x.1 k (fun rt => { rt with last := rt.curr, curr := none }) hlx
    have hb5 := busy_updRt_level x.1 k (fun rt => { rt with last := rt.curr, curr := none }) hlx (fun _ => rfl) X.2.2
    have P5 := presX_updRt x.1 k (fun rt => { rt with last := rt.curr, curr := none })
    generalize (optInt (x.1.get k).rt.curr) = src
    generalize x.1.updRt k (fun rt => { rt with last := rt.curr, curr := none }) = g5 at hrt5 hb5 P5
    -- action
    have A := probe_step rec hg k g5 (.action src ridx e) action hb5 (fun _ => rfl)
    generalize aProbe rec k g5 (.action src ridx e) action = a at A
    have hla : k < a.1.length := by rw [A.1.len, P5.len]; exact hlx
    -- g6
    have hrt6 := rt_updRt_self a.1 k (fun rt => { rt with curr := rt.next, next := none }) hla
    have hb6 := busy_updRt_level a.1 k (fun rt => { rt with curr := rt.next, next := none }) hla (fun _ => rfl) A.2.2.1
    have P6 := presX_updRt a.1 k (fun rt => { rt with curr := rt.next, next := none })
    generalize a.1.updRt k (fun rt => { rt with curr := rt.next, next := none }) = g6 at hrt6 hb6 P6
    have hrt6' : (g6.get k).rt = { (g.get k).rt with last := (g.get k).rt.curr, curr := some ts.id, next := none, cbLevel := (g.get k).rt.cbLevel + 1 } := by
      rw [hrt6, A.2.1, hrt5, X.2.1, hrt4]
    have hcs6 : g6.curState k = some ((g6.get k).stateOf ts.id) := curState_of_curr (by rw [hrt6'])
    rw [hcs6]; simp only []
    have hd6 : SameDef (g6.get k) (g.get k) :=
      (P6.defs k).trans' ((A.1.defs k).trans' ((P5.defs k).trans' ((X.1.defs k).trans' (P4.defs k))))
    have hns : ((g6.get k).stateOf ts.id).id = ts.id := by
      rw [stateOf_sameDef hd6, hts]
    generalize (g6.get k).stateOf ts.id = ns at hns
    -- enter, notify
    have EN := probe_step rec hg k g6 (.enter ns.id e) ns.enter hb6 (fun _ => rfl)
    generalize aProbe rec k g6 (.enter ns.id e) ns.enter = en at EN
    have CB := probe_step rec hg k en.1 (.notify (optInt (en.1.get k).rt.last) (optInt (en.1.get k).rt.curr) e) (en.1.get k).cb EN.2.2.1 (fun _ => rfl)
    generalize aProbe rec k en.1 (.notify (optInt (en.1.get k).rt.last) (optInt (en.1.get k).rt.curr) e) (en.1.get k).cb = cb at CB
    -- sub-machine start / run
    have S1 := sub_step rec hg k cb.1 .start CB.2.2.1
    generalize aSubCall rec cb.1 k .start = s1 at S1
    have S2' : PresX (some k) s1.1 (aSubRun rec s1.1 k e).1 (aSubRun rec s1.1 k e).2 ∧
        ((aSubRun rec s1.1 k e).1.get k).rt = (s1.1.get k).rt ∧ ∀ s, delta k s (aSubRun rec s1.1 k e).2 = 0 := by
      unfold aSubRun
      split
      · split
        · have := sub_step rec hg k s1.1 (.run e) S1.2.2.1; exact ⟨this.1, this.2.1, this.2.2.2⟩
        · exact ⟨PresX.refl _ _, rfl, fun s => rfl⟩
      · exact ⟨PresX.refl _ _, rfl, fun s => rfl⟩
    generalize aSubRun rec s1.1 k e = s2 at S2'
    have hl2 : k < s2.1.length := by
      rw [S2'.1.len, S1.1.len, CB.1.len, EN.1.len, P6.len]; exact hla
    have hrtF : ((s2.1.decLevel k).get k).rt = { (g.get k).rt with last := (g.get k).rt.curr, curr := some ts.id, next := none, cbLevel := (g.get k).rt.cbLevel + 1 - 1 } := by
      rw [decLevel_rt _ k hl2, S2'.2.1, S1.2.1, CB.2.1, EN.2.1, hrt6']
    have PX : PresX (some k) g (s2.1.decLevel k) (x.2 ++ a.2 ++ en.2 ++ cb.2 ++ s1.2 ++ s2.2) :=
      (P4.trans (X.1.trans (P5.trans (A.1.trans (P6.trans (EN.1.trans (CB.1.trans (S1.1.trans (S2'.1.trans (presX_dec _ k)))))))))).of_eq (by simp)
    refine ⟨PX, ?_, ?_⟩
    · unfold busy; rw [hrtF]; simp [hl0]
    · intro T c hc hT
      refine ⟨?_, ?_, ?_⟩
      · rw [hrtF]; simp; rw [hT.wf, hc]; rfl
      · intro c' hc'
        rw [hrtF] at hc'; simp only [Option.some.injEq] at hc'; subst hc'
        rw [stateOf_sameDef (PX.defs k), hts]
      · intro s
        rw [hrtF]
        simp only [delta_append]
        rw [hXd c hc s, A.2.2.2 s, EN.2.2.2 s, CB.2.2.2 s, S1.2.2.2 s, S2'.2.2 s, hT.bal s, hc, hT.cid c hc, hns]
        simp only [evDelta, Option.some.injEq]
        by_cases h1 : c = s <;> by_cases h2 : ts.id = s <;> simp [h1, h2]

/-- a fragment of `k`'s own code that leaves `k`'s record and balance alone -/
def QStep (k : Nat) (g g' : Arena) (tr : ATrace) : Prop :=
  PresX (some k) g g' tr ∧ (g'.get k).rt = (g.get k).rt ∧ ∀ s, delta k s tr = 0

theorem QStep.trans {k : Nat} {g g1 g2 : Arena} {t1 t2 : ATrace} (h1 : QStep k g g1 t1) (h2 : QStep k g1 g2 t2) :
    QStep k g g2 (t1 ++ t2) :=
  ⟨h1.1.trans h2.1, h2.2.1.trans h1.2.1, fun s => by rw [delta_append, h1.2.2 s, h2.2.2 s]; rfl⟩

theorem QStep.minv {k : Nat} {g g' : Arena} {tr : ATrace} (h : QStep k g g' tr) (T : ATrace) (hT : MInv (g.get k) k T) :
    MInv (g'.get k) k (T ++ tr) :=
  ⟨by rw [h.2.1]; exact hT.wf,
   fun c hc => by rw [stateOf_sameDef (h.1.defs k)]; exact hT.cid c (by rw [← h.2.1]; exact hc),
   fun s => by rw [delta_append, h.2.2 s, h.2.1, hT.bal s]; simp⟩

theorem QStep.pres {k : Nat} {g g' : Arena} {tr : ATrace} (h : QStep k g g' tr) (hidle : ¬ busy g k) : Pres g g' tr :=
  pres_of_presX h.1 hidle (by unfold busy; rw [h.2.1]; exact hidle) (fun T hT => h.minv T hT)

theorem aRun_good (rec : Rec) (hg : Good rec) (g : Arena) (k : Nat) (e : Event) (hk : k < g.length) :
    Pres g (aRun Fix.all rec g k e).1 (aRun Fix.all rec g k e).2.2 ∧
    (busy g k → (aRun Fix.all rec g k e).1 = g ∧ (aRun Fix.all rec g k e).2.1 = false) := by
  unfold aRun
  cases h1 : runReject (g.get k).rt with
  | some r => exact ⟨PresX.refl none g, fun _ => ⟨rfl, runReject_false h1⟩⟩
  | none =>
    have h0 := runReject_none h1
    have hidle : ¬ busy g k := by unfold busy; simp [h0.2]
    refine ⟨?_, fun hb => absurd hb hidle⟩
    simp only []
    have D : QStep k g (aDelegate Fix.all rec g k e).1 (aDelegate Fix.all rec g k e).2.2 := aDelegate_presX rec hg g k e hk
    generalize aDelegate Fix.all rec g k e = d at D
    have hld : k < d.1.length := by rw [D.1.len]; exact hk
    split
    · exact D.pres hidle
    · split
      · exact (D.trans ⟨(pres_unm d.1 k).weaken _, rfl, fun s => by simp [unm, delta, evDelta]⟩).pres hidle
      · rename_i cs hcs
        have H : QStep k d.1 (aHandlers rec d.1 k cs e).1 (aHandlers rec d.1 k cs e).2.2 := aHandlers_presX rec hg d.1 k cs e hld
        generalize aHandlers rec d.1 k cs e = h at H
        have hlh : k < h.1.length := by rw [H.1.len]; exact hld
        have S : QStep k h.1 (aSelect rec h.1 k e h.2.1).1 (aSelect rec h.1 k e h.2.1).2.2 := aSelect_presX rec hg h.1 k e h.2.1 hlh
        generalize aSelect rec h.1 k e h.2.1 = sel at S
        have hls : k < sel.1.length := by rw [S.1.len]; exact hlh
        have Q : QStep k g sel.1 (d.2.2 ++ h.2.2 ++ sel.2.2) := (D.trans (H.trans S)).1 |> fun _ => by
          have := D.trans (H.trans S); rw [← List.append_assoc] at this; exact this
        split
        · exact Q.pres hidle
        · rename_i nextId ridx action hsel
          simp only []
          have hidleS : ¬ busy sel.1 k := by unfold busy; rw [Q.2.1]; exact hidle
          have TB := aTransition_body rec hg sel.1 k e nextId ridx action hls hidleS
          generalize aTransition rec sel.1 k e nextId ridx action = t at TB
          refine pres_of_presX (Q.1.trans TB.1) hidle TB.2.1 ?_
          intro T hT
          have hw := hT.wf; rw [h0.1] at hw
          cases hc : (g.get k).rt.curr with
          | none => rw [hc] at hw; simp at hw
          | some c =>
            have := TB.2.2 (T ++ (d.2.2 ++ h.2.2 ++ sel.2.2)) c (by rw [Q.2.1]; exact hc) (Q.minv T hT)
            rw [List.append_assoc] at this; exact this

theorem pres_len {g g' : Arena} {tr : ATrace} (h : Pres g g' tr) : g'.length = g.length := h.len

/-- **every method invocation of the arena model (code with both repairs) satisfies `Good`**, for any
fuel, any store, any target, any scripts -/
theorem good_aCall : ∀ fuel, Good (aCall Fix.all fuel)
  | 0 => fun g k c => ⟨pres_oof g k, fun _ => ⟨rfl, rfl⟩⟩
  | f + 1 => by
    have ih := good_aCall f
    intro g k c
    unfold aCall
    split
    · exact ⟨pres_unm g k, fun _ => ⟨rfl, rfl⟩⟩
    · rename_i hk
      have hk : k < g.length := Nat.lt_of_not_le hk
      cases c with
      | start => exact aStart_good _ ih g k hk
      | stop => exact ⟨(aStop_good _ ih g k hk).1, fun hb => ⟨(aStop_good _ ih g k hk).2 hb, rfl⟩⟩
      | restart =>
        simp only []
        have S := aStop_good _ ih g k hk
        have hk' : k < (aStop Fix.all (aCall Fix.all f) g k).1.length := by rw [S.1.len]; exact hk
        have R := aStart_good _ ih (aStop Fix.all (aCall Fix.all f) g k).1 k hk'
        refine ⟨S.1.trans R.1, fun hb => ?_⟩
        have e1 := S.2 hb
        have hb' : busy (aStop Fix.all (aCall Fix.all f) g k).1 k := by rw [e1]; exact hb
        have := R.2 hb'
        exact ⟨this.1.trans e1, this.2⟩
      | run e => exact aRun_good _ ih g k e hk
      | defn i => exact ⟨PresX.refl none g, fun _ => ⟨rfl, rfl⟩⟩
