/-
C16 — arena model: the branches where the C++ would dereference a null `curr_state_`
(`unmodelled` events of a machine object of the store) are unreachable: every machine that is
outside its methods satisfies `is_running_ ↔ curr_state_ ≠ nullptr`, machines inside a method are
frozen, and each method checks `is_running_` before touching `curr_state_`.
(`unmodelled` with an index beyond the store = a call addressed to a machine that does not exist;
the line protocol refuses those.)
-/
import TboxModel.C16.ArenaProofs
import TboxModel.C16.ArenaProg
set_option linter.unusedSimpArgs false
set_option linter.unusedVariables false
namespace Tbox.C16
namespace AI
open Arena

def NoU (n : Nat) (tr : ATrace) : Prop := ∀ ev ∈ tr, ev.kind = .unmodelled → n ≤ ev.mid

theorem nou_nil (n : Nat) : NoU n [] := by intro ev h; cases h
theorem nou_append {n : Nat} {a b : ATrace} (h1 : NoU n a) (h2 : NoU n b) : NoU n (a ++ b) := by
  intro ev he
  rcases List.mem_append.1 he with h | h
  · exact h1 ev h
  · exact h2 ev h
theorem nou_cons {n : Nat} {ev : AEv} {a : ATrace} (h1 : ev.kind ≠ .unmodelled) (h2 : NoU n a) : NoU n (ev :: a) := by
  intro e he
  rcases List.mem_cons.1 he with h | h
  · subst h; exact fun hk => absurd hk h1
  · exact h2 e h

/-- the trace-independent part of `MInv` -/
def WFm (m : ARec) : Prop := m.rt.running = m.rt.curr.isSome ∧ ∀ c, m.rt.curr = some c → (m.stateOf c).id = c

theorem wfm_preserved {m m' : ARec} {j : Nat} {tr : ATrace} (h : ∀ T, MInv m j T → MInv m' j (T ++ tr)) (w : WFm m) : WFm m' := by
  have : MInv m j (match m.rt.curr with | none => [] | some c => [⟨j, .enter c ev0 false⟩]) := by
    refine ⟨w.1, w.2, fun s => ?_⟩
    cases hc : m.rt.curr with
    | none => simp [delta]
    | some c => simp [delta, evDelta]
  have r := h _ this
  exact ⟨r.wf, r.cid⟩

def Ctxt (n : Nat) (g : Arena) : Prop := g.length = n ∧ ∀ j, ¬ busy g j → WFm (g.get j)

def UOk (rec : Rec) (n : Nat) : Prop := ∀ g k c, Ctxt n g → NoU n (rec g k c).2.2

theorem ctxt_pres {n : Nat} {g g' : Arena} {tr : ATrace} (h : Pres g g' tr) (c : Ctxt n g) : Ctxt n g' := by
  refine ⟨h.len.trans c.1, fun j hj => ?_⟩
  have hi : ¬ busy g j := fun hb => hj (frozen_rt h hb).2.2
  exact wfm_preserved (h.idle j (by simp) hi).2 (c.2 j hi)

theorem ctxt_step {n k : Nat} {g g' : Arena} {tr : ATrace} (h : PresX (some k) g g' tr) (hb : busy g' k) (c : Ctxt n g) : Ctxt n g' := by
  refine ⟨h.len.trans c.1, fun j hj => ?_⟩
  have hjk : j ≠ k := by intro e; subst e; exact hj hb
  have hi : ¬ busy g j := fun hb' => hj (busy_of_rt (h.frozen j (by simpa using hjk) hb').1 hb')
  exact wfm_preserved (h.idle j (by simpa using hjk) hi).2 (c.2 j hi)

theorem ctxt_qstep {n k : Nat} {g g' : Arena} {tr : ATrace} (h : QStep k g g' tr) (c : Ctxt n g) : Ctxt n g' := by
  refine ⟨h.1.len.trans c.1, fun j hj => ?_⟩
  by_cases hjk : j = k
  · subst hjk
    have hi : ¬ busy g j := by unfold busy at *; rw [← h.2.1]; exact hj
    have w := c.2 j hi
    exact ⟨by rw [h.2.1]; exact w.1, fun c' hc' => by rw [stateOf_sameDef (h.1.defs j)]; exact w.2 c' (by rw [← h.2.1]; exact hc')⟩
  · have hi : ¬ busy g j := fun hb' => hj (busy_of_rt (h.1.frozen j (by simpa using hjk) hb').1 hb')
    exact wfm_preserved (h.1.idle j (by simpa using hjk) hi).2 (c.2 j hi)

theorem curState_ne_none {g : Arena} {k : Nat} (h : (g.get k).rt.curr ≠ none) : g.curState k ≠ none := by
  unfold curState
  cases hc : (g.get k).rt.curr with
  | none => exact absurd hc h
  | some c => simp

section Pieces
variable (rec : Rec) (hg : Good rec) (n : Nat) (UO : UOk rec n)
include hg UO

theorem nou_script (self : Nat) : ∀ (sc : Script) (g : Arena), Ctxt n g → busy g self → NoU n (aScript rec self g sc).2
  | [], g, _, _ => nou_nil n
  | .obs t :: rest, g, hc, hb => by
    simp only [aScript]
    exact nou_cons (fun h => by cases h) (nou_script self rest g hc hb)
  | .call t c :: rest, g, hc, hb => by
    simp only [aScript]
    have hx := (hg g (t.getD self) c).1
    refine nou_append (UO g _ c hc) (nou_cons (fun h => by cases h) ?_)
    exact nou_script self rest _ (ctxt_pres hx hc) (frozen_rt hx hb).2.2

theorem nou_probe (k : Nat) (g : Arena) (mk : Bool → Kind) (p : Option Script) (hc : Ctxt n g) (hb : busy g k)
    (hmk : ∀ b, mk b ≠ .unmodelled) : NoU n (aProbe rec k g mk p).2 := by
  cases p with
  | none => exact nou_cons (hmk _) (nou_nil n)
  | some sc => exact nou_cons (hmk _) (nou_script rec hg n UO k sc g hc hb)

theorem nou_subcall (k : Nat) (g : Arena) (c : Call) (hc : Ctxt n g) (hcur : (g.get k).rt.curr ≠ none) :
    NoU n (aSubCall rec g k c).2 := by
  unfold aSubCall
  split
  · rename_i h; exact absurd h (curState_ne_none hcur)
  · split
    · exact nou_nil n
    · exact UO g _ c hc

theorem nou_exit (k : Nat) (g : Arena) (e : Event) (hc : Ctxt n g) (hb : busy g k) (hcur : (g.get k).rt.curr ≠ none) :
    NoU n (aExit rec g k e).2 := by
  unfold aExit
  split
  · rename_i h; exact absurd h (curState_ne_none hcur)
  · exact nou_probe rec hg n UO k g _ _ hc hb (fun b h => by cases h)

theorem nou_subRun (k : Nat) (g : Arena) (e : Event) (hc : Ctxt n g) (hcur : (g.get k).rt.curr ≠ none) :
    NoU n (aSubRun rec g k e).2 := by
  unfold aSubRun
  split
  · split
    · exact nou_subcall rec hg n UO k g _ hc hcur
    · exact nou_nil n
  · exact nou_nil n

theorem nou_routeScan (k : Nat) (sid : StateId) (e : Event) : ∀ (rs : List Route) (i : Nat) (g : Arena),
    Ctxt n g → busy g k → NoU n (aRouteScan rec k sid e i g rs).2.2
  | [], i, g, _, _ => nou_nil n
  | r :: rs, i, g, hc, hb => by
    unfold aRouteScan
    split
    · exact nou_routeScan k sid e rs (i + 1) g hc hb
    · cases hgd : r.guard with
      | none => exact nou_nil n
      | some gd =>
        simp only []
        have N := nou_script rec hg n UO k gd.script g hc hb
        have P := aScript_pres rec hg k gd.script g hb
        split
        · exact nou_cons (fun h => by cases h) N
        · refine nou_cons (fun h => by cases h) (nou_append N ?_)
          exact nou_routeScan k sid e rs (i + 1) _ (ctxt_pres P hc) (frozen_rt P hb).2.2

theorem nou_start (g : Arena) (k : Nat) (hk : k < g.length) (hc : Ctxt n g) : NoU n (aStart Fix.all rec g k).2.2 := by
  unfold aStart
  simp only []
  cases h1 : startReject (g.get k).rt with
  | some r => exact nou_nil n
  | none =>
    cases h2 : (g.get k).findState (g.get k).init with
    | none => exact nou_nil n
    | some st =>
      simp only [Fix.all, if_true]
      have hlen0 : k < (g.updRt k fun rt => { rt with running := true, curr := some st.id }).length := by
        rw [length_updRt]; exact hk
      have hrt1 : (((g.updRt k fun rt => { rt with running := true, curr := some st.id }).incLevel k).get k).rt.curr = some st.id := by
        rw [incLevel_rt _ k hlen0, rt_updRt_self g k _ hk]
      have hb1 := busy_inc _ k hlen0
      have P1 : PresX (some k) g ((g.updRt k fun rt => { rt with running := true, curr := some st.id }).incLevel k) [] :=
        ((presX_updRt g k _).trans (presX_inc _ k)).of_eq rfl
      generalize ((g.updRt k fun rt => { rt with running := true, curr := some st.id }).incLevel k) = g1 at hrt1 hb1 P1
      have C1 := ctxt_step P1 hb1 hc
      have PS := probe_step rec hg k g1 (.enter st.id ev0) st.enter hb1 (fun _ => rfl)
      have N1 := nou_probe rec hg n UO k g1 (.enter st.id ev0) st.enter C1 hb1 (fun b h => by cases h)
      generalize aProbe rec k g1 (.enter st.id ev0) st.enter = p at PS N1
      have C2 := ctxt_step PS.1 PS.2.2.1 C1
      exact nou_append N1 (nou_subcall rec hg n UO k p.1 .start C2 (by rw [PS.2.1, hrt1]; simp))

theorem nou_stop (g : Arena) (k : Nat) (hk : k < g.length) (hc : Ctxt n g) : NoU n (aStop Fix.all rec g k).2 := by
  unfold aStop
  simp only []
  cases h1 : stopReject (g.get k).rt with
  | some r => exact nou_nil n
  | none =>
    have h0 := stopReject_none h1
    have hidle : ¬ busy g k := by unfold busy; simp [h0.2]
    have hcur : (g.get k).rt.curr ≠ none := by
      have := (hc.2 k hidle).1; rw [h0.1] at this
      intro hn; rw [hn] at this; simp at this
    simp only [Fix.all, if_true]
    have hb1 := busy_inc g k hk
    have hrt1 : ((g.incLevel k).get k).rt.curr = (g.get k).rt.curr := by rw [incLevel_rt g k hk]
    have P1 := presX_inc g k
    generalize g.incLevel k = g1 at hb1 hrt1 P1
    have C1 := ctxt_step P1 hb1 hc
    have SS := sub_step rec hg k g1 .stop hb1
    have N1 := nou_subcall rec hg n UO k g1 .stop C1 (by rw [hrt1]; exact hcur)
    generalize aSubCall rec g1 k .stop = s at SS N1
    have C2 := ctxt_step SS.1 SS.2.2.1 C1
    exact nou_append N1 (nou_exit rec hg n UO k s.1 ev0 C2 SS.2.2.1 (by rw [SS.2.1, hrt1]; exact hcur))

theorem nou_delegate (g : Arena) (k : Nat) (e : Event) (hk : k < g.length) (hc : Ctxt n g)
    (hcur : (g.get k).rt.curr ≠ none) : NoU n (aDelegate Fix.all rec g k e).2.2 := by
  unfold aDelegate
  cases hcs : g.curState k with
  | none => exact absurd hcs (curState_ne_none hcur)
  | some cs =>
    simp only []
    cases hsub : cs.sub with
    | none => exact nou_nil n
    | some j =>
      simp only [Fix.all, if_true]
      have hb0 := busy_inc g k hk
      have hrt0 := incLevel_rt g k hk
      have P0 := presX_inc g k
      have hcs0 : (g.incLevel k).curState k = some cs := by
        rw [curState_congr (by rw [hrt0]) (P0.defs k)]; exact hcs
      generalize g.incLevel k = g0 at hb0 hrt0 P0 hcs0
      have C0 := ctxt_step P0 hb0 hc
      have R := (hg g0 j (.run e)).1
      have N0 := UO g0 j (.run e) C0
      generalize rec g0 j (.run e) = r at R N0
      have FR := frozen_rt R hb0
      have C1 := ctxt_pres R C0
      have hcs1 : r.1.curState k = some cs := by
        rw [curState_congr (by rw [FR.1]) (R.defs k)]; exact hcs0
      rw [hcs1]; simp only [hsub]
      split
      · exact N0
      · exact nou_append N0 (nou_subcall rec hg n UO k r.1 .stop C1 (by rw [FR.1, hrt0]; exact hcur))

theorem nou_handlers (g : Arena) (k : Nat) (cs : StateDef Nat) (e : Event) (hk : k < g.length) (hc : Ctxt n g) :
    NoU n (aHandlers rec g k cs e).2.2 := by
  unfold aHandlers
  simp only []
  have hb0 := busy_inc g k hk
  have P0 := presX_inc g k
  generalize g.incLevel k = g1 at hb0 P0
  have C0 := ctxt_step P0 hb0 hc
  split
  · exact nou_cons (fun h => by cases h) (nou_script rec hg n UO k _ g1 C0 hb0)
  · split
    · exact nou_cons (fun h => by cases h) (nou_script rec hg n UO k _ g1 C0 hb0)
    · exact nou_nil n

theorem nou_select (g : Arena) (k : Nat) (e : Event) (hret : Int) (hk : k < g.length) (hc : Ctxt n g)
    (hcur : (g.get k).rt.curr ≠ none) : NoU n (aSelect rec g k e hret).2.2 := by
  unfold aSelect
  split
  · split
    · rename_i h; exact absurd h (curState_ne_none hcur)
    · rename_i cs2 _
      simp only []
      have hb0 := busy_inc g k hk
      have P0 := presX_inc g k
      generalize g.incLevel k = g1 at hb0 P0
      have C0 := ctxt_step P0 hb0 hc
      have N := nou_routeScan rec hg n UO k cs2.id e cs2.routes 0 g1 C0 hb0
      split
      · exact N
      · exact N
  · exact nou_nil n

theorem nou_transition (g : Arena) (k : Nat) (e : Event) (nextId : StateId) (ridx : Option Nat) (action : Option Script)
    (hk : k < g.length) (hc : Ctxt n g) (c : StateId) (hcur : (g.get k).rt.curr = some c) :
    NoU n (aTransition rec g k e nextId ridx action).2.2 := by
  unfold aTransition
  cases hres : (g.get k).resolve nextId with
  | none => exact nou_nil n
  | some ts =>
    simp only []
    have hlen0 : k < (g.updRt k fun rt => { rt with next := some ts.id }).length := by rw [length_updRt]; exact hk
    have hrt4 : (((g.updRt k fun rt => { rt with next := some ts.id }).incLevel k).get k).rt =
        { (g.get k).rt with next := some ts.id, cbLevel := (g.get k).rt.cbLevel + 1 } := by
      rw [incLevel_rt _ k hlen0, rt_updRt_self g k _ hk]
    have hb4 := busy_inc _ k hlen0
    have P4 : PresX (some k) g ((g.updRt k fun rt => { rt with next := some ts.id }).incLevel k) [] :=
      ((presX_updRt g k _).trans (presX_inc _ k)).of_eq rfl
    generalize ((g.updRt k fun rt => { rt with next := some ts.id }).incLevel k) = g4 at hrt4 hb4 P4
    have C4 := ctxt_step P4 hb4 hc
    have X := aExit_presX rec hg g4 k e hb4
    have NX := nou_exit rec hg n UO k g4 e C4 hb4 (by rw [hrt4]; simp [hcur])
    generalize aExit rec g4 k e = x at X NX
    have hlx : k < x.1.length := by rw [X.1.len, P4.len]; exact hk
    have CX := ctxt_step X.1 X.2.2 C4
    have hrt5 := rt_updRt_self x.1 k (fun rt => { rt with last := rt.curr, curr := none }) hlx
    have hb5 := busy_updRt_level x.1 k (fun rt => { rt with last := rt.curr, curr := none }) hlx (fun _ => rfl) X.2.2
    have P5 := presX_updRt x.1 k (fun rt => { rt with last := rt.curr, curr := none })
    generalize (optInt (x.1.get k).rt.curr) = src
    generalize x.1.updRt k (fun rt => { rt with last := rt.curr, curr := none }) = g5 at hrt5 hb5 P5
    have C5 := ctxt_step P5 hb5 CX
    have A := probe_step rec hg k g5 (.action src ridx e) action hb5 (fun _ => rfl)
    have NA := nou_probe rec hg n UO k g5 (.action src ridx e) action C5 hb5 (fun b h => by cases h)
    generalize aProbe rec k g5 (.action src ridx e) action = a at A NA
    have hla : k < a.1.length := by rw [A.1.len, P5.len]; exact hlx
    have CA := ctxt_step A.1 A.2.2.1 C5
    have hrt6 := rt_updRt_self a.1 k (fun rt => { rt with curr := rt.next, next := none }) hla
    have hb6 := busy_updRt_level a.1 k (fun rt => { rt with curr := rt.next, next := none }) hla (fun _ => rfl) A.2.2.1
    have P6 := presX_updRt a.1 k (fun rt => { rt with curr := rt.next, next := none })
    generalize a.1.updRt k (fun rt => { rt with curr := rt.next, next := none }) = g6 at hrt6 hb6 P6
    have C6 := ctxt_step P6 hb6 CA
    have hrt6' : (g6.get k).rt.curr = some ts.id := by rw [hrt6, A.2.1, hrt5, X.2.1, hrt4]
    have hcs6 : g6.curState k = some ((g6.get k).stateOf ts.id) := curState_of_curr hrt6'
    rw [hcs6]; simp only []
    generalize (g6.get k).stateOf ts.id = ns
    have EN := probe_step rec hg k g6 (.enter ns.id e) ns.enter hb6 (fun _ => rfl)
    have NEN := nou_probe rec hg n UO k g6 (.enter ns.id e) ns.enter C6 hb6 (fun b h => by cases h)
    generalize aProbe rec k g6 (.enter ns.id e) ns.enter = en at EN NEN
    have CEN := ctxt_step EN.1 EN.2.2.1 C6
    have CB := probe_step rec hg k en.1 (.notify (optInt (en.1.get k).rt.last) (optInt (en.1.get k).rt.curr) e) (en.1.get k).cb EN.2.2.1 (fun _ => rfl)
    have NCB := nou_probe rec hg n UO k en.1 (.notify (optInt (en.1.get k).rt.last) (optInt (en.1.get k).rt.curr) e) (en.1.get k).cb CEN EN.2.2.1 (fun b h => by cases h)
    generalize aProbe rec k en.1 (.notify (optInt (en.1.get k).rt.last) (optInt (en.1.get k).rt.curr) e) (en.1.get k).cb = cb at CB NCB
    have CCB := ctxt_step CB.1 CB.2.2.1 CEN
    have hcb : (cb.1.get k).rt.curr ≠ none := by rw [CB.2.1, EN.2.1, hrt6']; simp
    have S1 := sub_step rec hg k cb.1 .start CB.2.2.1
    have NS1 := nou_subcall rec hg n UO k cb.1 .start CCB hcb
    generalize aSubCall rec cb.1 k .start = s1 at S1 NS1
    have CS1 := ctxt_step S1.1 S1.2.2.1 CCB
    have NS2 := nou_subRun rec hg n UO k s1.1 e CS1 (by rw [S1.2.1]; exact hcb)
    exact nou_append (nou_append (nou_append (nou_append (nou_append NX NA) NEN) NCB) NS1) NS2

theorem nou_run (g : Arena) (k : Nat) (e : Event) (hk : k < g.length) (hc : Ctxt n g) : NoU n (aRun Fix.all rec g k e).2.2 := by
  unfold aRun
  cases h1 : runReject (g.get k).rt with
  | some r => exact nou_nil n
  | none =>
    have h0 := runReject_none h1
    have hidle : ¬ busy g k := by unfold busy; simp [h0.2]
    have hw := (hc.2 k hidle).1; rw [h0.1] at hw
    cases hcur : (g.get k).rt.curr with
    | none => rw [hcur] at hw; simp at hw
    | some c =>
      simp only []
      have hne : (g.get k).rt.curr ≠ none := by rw [hcur]; simp
      have D : QStep k g (aDelegate Fix.all rec g k e).1 (aDelegate Fix.all rec g k e).2.2 := aDelegate_presX rec hg g k e hk
      have ND := nou_delegate rec hg n UO g k e hk hc hne
      generalize aDelegate Fix.all rec g k e = d at D ND
      have hld : k < d.1.length := by rw [D.1.len]; exact hk
      have CD := ctxt_qstep D hc
      have hcd : (d.1.get k).rt.curr = some c := by rw [D.2.1]; exact hcur
      split
      · exact ND
      · split
        · rename_i h; exact absurd h (curState_ne_none (by rw [hcd]; simp))
        · rename_i cs _
          have H : QStep k d.1 (aHandlers rec d.1 k cs e).1 (aHandlers rec d.1 k cs e).2.2 := aHandlers_presX rec hg d.1 k cs e hld
          have NH := nou_handlers rec hg n UO d.1 k cs e hld CD
          generalize aHandlers rec d.1 k cs e = h at H NH
          have hlh : k < h.1.length := by rw [H.1.len]; exact hld
          have CH := ctxt_qstep H CD
          have hch : (h.1.get k).rt.curr = some c := by rw [H.2.1]; exact hcd
          have SL : QStep k h.1 (aSelect rec h.1 k e h.2.1).1 (aSelect rec h.1 k e h.2.1).2.2 := aSelect_presX rec hg h.1 k e h.2.1 hlh
          have NSL := nou_select rec hg n UO h.1 k e h.2.1 hlh CH (by rw [hch]; simp)
          generalize aSelect rec h.1 k e h.2.1 = sel at SL NSL
          have hls : k < sel.1.length := by rw [SL.1.len]; exact hlh
          have CS := ctxt_qstep SL CH
          have hcsel : (sel.1.get k).rt.curr = some c := by rw [SL.2.1]; exact hch
          split
          · exact nou_append (nou_append ND NH) NSL
          · rename_i nextId ridx action _
            simp only []
            exact nou_append (nou_append (nou_append ND NH) NSL) (nou_transition rec hg n UO sel.1 k e nextId ridx action hls CS c hcsel)

end Pieces

/-- no invocation of the arena model dereferences a null `curr_state_` of a machine of the store -/
theorem safe_aCall (n : Nat) : ∀ f, UOk (aCall Fix.all f) n
  | 0 => fun g k c _ => nou_cons (fun h => by cases h) (nou_nil n)
  | f + 1 => by
    have ih := safe_aCall n f
    have hg := good_aCall f
    intro g k c hc
    unfold aCall
    split
    · rename_i hk
      intro ev he hu
      simp only [unm, List.mem_singleton] at he; subst he
      rw [← hc.1]; exact hk
    · rename_i hk
      have hk : k < g.length := Nat.lt_of_not_le hk
      cases c with
      | start => exact nou_start _ hg n ih g k hk hc
      | stop => exact nou_stop _ hg n ih g k hk hc
      | restart =>
        simp only []
        have ST := aStop_good _ hg g k hk
        have hk' : k < (aStop Fix.all (aCall Fix.all f) g k).1.length := by rw [ST.1.len]; exact hk
        exact nou_append (nou_stop _ hg n ih g k hk hc) (nou_start _ hg n ih _ k hk' (ctxt_pres ST.1 hc))
      | run e => exact nou_run _ hg n ih g k e hk hc
      | defn i => intro ev he; cases he

theorem aOp_len (g : Arena) (op : AOp) : (aOp g op).1.length = g.length := by
  cases op with
  | call k c => exact (good_aCall (fuelFor g) g k c).1.len
  | defn k f =>
    simp only [aOp]; unfold Def.guarded
    split
    · rfl
    · simp only []; split <;> simp
  | always k f =>
    simp only [aOp]; unfold Def.always
    split <;> simp

theorem ctxt_of_ainv {g : Arena} {T : ATrace} (h : AInv g T) : Ctxt g.length g :=
  ⟨rfl, fun j _ => ⟨(h j).2.wf, (h j).2.cid⟩⟩

theorem aProg_nou : ∀ (ops : List AOp) (g : Arena) (T : ATrace), (∀ op ∈ ops, op.Legal) → AInv g T →
    NoU g.length (aProg g ops).2
  | [], g, T, _, _ => nou_nil _
  | op :: ops, g, T, hl, h => by
    simp only [aProg]
    have h1 := aOp_inv g T op (hl op (List.mem_cons_self ..)) h
    have ih := aProg_nou ops _ _ (fun o ho => hl o (List.mem_cons_of_mem _ ho)) h1
    rw [aOp_len] at ih
    refine nou_append ?_ ih
    cases op with
    | call k c => exact safe_aCall g.length (fuelFor g) g k c (ctxt_of_ainv h)
    | defn k f => exact nou_nil _
    | always k f => exact nou_nil _

theorem aProg_len : ∀ (ops : List AOp) (g : Arena), (aProg g ops).1.length = g.length
  | [], g => rfl
  | op :: ops, g => by simp only [aProg]; rw [aProg_len ops, aOp_len]

end AI
end Tbox.C16
