/-
C16 — simulation of the ARENA model by the TREE model on hierarchical stores, framework part:
store lemmas, what one level assumes of the level below (`SubSim`), callback bodies.
-/
import TboxModel.C16.ArenaTreeDefs
import TboxModel.C16.ArenaProofs
import TboxModel.C16.ArenaSafe
import TboxModel.C16.Inv
set_option linter.unusedSimpArgs false
set_option linter.unusedVariables false
namespace Tbox.C16
namespace AT
open Arena AI

/-! ### store lemmas -/

/-- machine `k`'s run-time record replaced by `r` -/
def setRt (g : Arena) (k : Nat) (r : Rt) : Arena := g.updRt k (fun _ => r)

theorem updRt_form (g : Arena) (k : Nat) (f : Rt → Rt) : g.updRt k f = setRt g k (f (g.get k).rt) := by
  unfold setRt updRt
  by_cases hk : k < g.length
  · have h : g[k]? = some g[k] := List.getElem?_eq_getElem hk
    have h2 : g.get k = g[k] := by simp [Arena.get, List.getD_eq_getElem?_getD, h]
    rw [h]; simp [h2]
  · have h : g[k]? = none := List.getElem?_eq_none (Nat.le_of_not_lt hk)
    rw [h]

theorem incLevel_form (g : Arena) (k : Nat) :
    g.incLevel k = setRt g k { (g.get k).rt with cbLevel := (g.get k).rt.cbLevel + 1 } := by
  unfold incLevel; rw [updRt_form]

theorem decLevel_form (g : Arena) (k : Nat) :
    g.decLevel k = setRt g k { (g.get k).rt with cbLevel := (g.get k).rt.cbLevel - 1 } := by
  unfold decLevel; rw [updRt_form]

@[simp] theorem length_setRt (g : Arena) (k : Nat) (r : Rt) : (setRt g k r).length = g.length := length_updRt g k _

theorem get_setRt_self (g : Arena) (k : Nat) (r : Rt) (hk : k < g.length) :
    (setRt g k r).get k = { g.get k with rt := r } := get_updRt_self g k _ hk

theorem rt_setRt_self (g : Arena) (k : Nat) (r : Rt) (hk : k < g.length) : ((setRt g k r).get k).rt = r := by
  rw [get_setRt_self g k r hk]

theorem get_setRt_ne (g : Arena) (k j : Nat) (r : Rt) (h : j ≠ k) : (setRt g k r).get j = g.get j :=
  get_updRt_ne g k j _ h

theorem setRt_setRt (g : Arena) (k : Nat) (a b : Rt) : setRt (setRt g k a) k b = setRt g k b := by
  unfold setRt updRt
  by_cases hk : k < g.length
  · have h : g[k]? = some g[k] := List.getElem?_eq_getElem hk
    simp [h, hk]
  · have h : g[k]? = none := List.getElem?_eq_none (Nat.le_of_not_lt hk)
    simp [h]

theorem defs_setRt (g : Arena) (k : Nat) (r : Rt) : DefsEq g (setRt g k r) :=
  ⟨length_setRt g k r, fun i => sameDef_updRt g k i _⟩

theorem DefsEq.rfl' (g : Arena) : DefsEq g g := ⟨rfl, fun _ => ⟨rfl, rfl, rfl, rfl⟩⟩

theorem DefsEq.trans' {a b c : Arena} (h1 : DefsEq a b) (h2 : DefsEq b c) : DefsEq a c :=
  ⟨h2.1.trans h1.1, fun i => SameDef.trans' (h2.2 i) (h1.2 i)⟩

theorem DefsEq.symm' {a b : Arena} (h : DefsEq a b) : DefsEq b a :=
  ⟨h.1.symm, fun i => ⟨(h.2 i).1.symm, (h.2 i).2.1.symm, (h.2 i).2.2.1.symm, (h.2 i).2.2.2.symm⟩⟩

theorem defs_of_good {rec : Rec} (hg : Good rec) (g : Arena) (k : Nat) (c : Call) : DefsEq g (rec g k c).1 :=
  ⟨(hg g k c).1.len, (hg g k c).1.defs⟩

/-- a record is determined by its definition and its run-time record -/
theorem rec_ext {a b : ARec} (h : SameDef a b) (hr : a.rt = b.rt) : a = b := by
  cases a; cases b
  obtain ⟨h1, h2, h3, h4⟩ := h
  simp only at h1 h2 h3 h4 hr
  subst h1; subst h2; subst h3; subst h4; subst hr; rfl

/-! ### rejected invocations -/

/-- every invocation on a machine that is inside one of its own methods returns false at once,
leaves the store alone and prints nothing -/
def Rej (rec : Rec) : Prop :=
  ∀ g k c, k < g.length → (g.get k).rt.cbLevel ≠ 0 → rec g k c = (g, false, [])

theorem startReject_busy {rt : Rt} (h : rt.cbLevel ≠ 0) : startReject rt = some false := by
  unfold startReject; split
  · rfl
  · simp [h]

theorem runReject_busy {rt : Rt} (h : rt.cbLevel ≠ 0) : runReject rt = some false := by
  unfold runReject; split
  · rfl
  · simp [h]

theorem stopReject_busy' {rt : Rt} (h : rt.cbLevel ≠ 0) : stopReject rt = some () := by
  unfold stopReject; split
  · rfl
  · simp [h]

theorem rej_aCall (f : Nat) : Rej (aCall Fix.all (f + 1)) := by
  intro g k c hk hb
  have hk' : ¬ k ≥ g.length := Nat.not_le.2 hk
  unfold aCall
  simp only [hk', if_false]
  cases c with
  | start => simp [aStart, startReject_busy hb]
  | stop => simp [aStop, stopReject_busy' hb]
  | restart => simp [aStop, aStart, stopReject_busy' hb, startReject_busy hb]
  | run e => simp [aRun, runReject_busy hb]
  | defn i => rfl

/-! ### ancestors -/

/-- the ancestors recorded in `ctx` are machine objects of the store, with exactly these run-time
records, all inside one of their methods -/
def CtxOk (g : Arena) (ctx : Ctx) : Prop :=
  ∀ p ∈ ctx, p.1 < g.length ∧ (g.get p.1).rt = p.2 ∧ p.2.cbLevel ≠ 0

def ancOf (ctx : Ctx) : List Nat := ctx.map (·.1)

theorem ctxOk_frame {g g' : Arena} {ctx : Ctx} (h : CtxOk g ctx) (hl : g'.length = g.length)
    (hf : ∀ i ∈ ancOf ctx, g'.get i = g.get i) : CtxOk g' ctx := by
  intro p hp
  have := h p hp
  have hi : p.1 ∈ ancOf ctx := List.mem_map.2 ⟨p, hp, rfl⟩
  exact ⟨by rw [hl]; exact this.1, by rw [hf _ hi]; exact this.2.1, this.2.2⟩

theorem lookupCtx_ok {g : Arena} {ctx : Ctx} (h : CtxOk g ctx) (j : Nat) (hj : j ∈ ancOf ctx) :
    ∃ r, lookupCtx ctx j = some r ∧ j < g.length ∧ (g.get j).rt = r ∧ r.cbLevel ≠ 0 := by
  unfold lookupCtx
  cases hf : ctx.find? (fun p => p.1 == j) with
  | none =>
    obtain ⟨p, hp, hpj⟩ := List.mem_map.1 hj
    have := List.find?_eq_none.1 hf p hp
    simp at this; exact absurd hpj this
  | some p =>
    have hm := List.mem_of_find?_eq_some hf
    have he := List.find?_some hf
    simp at he; subst he
    have := h p hm
    exact ⟨p.2, rfl, this.1, this.2.1, this.2.2⟩

/-! ### callback bodies -/

/-- events of machine `k`'s own code -/
def own (k : Nat) (tr : Trace) : ATrace := tr.map fun ev => ⟨k, ev.kind⟩

theorem own_append (k : Nat) (a b : Trace) : own k (a ++ b) = own k a ++ own k b := by simp [own]

theorem tgt_cases {k : Nat} {anc : List Nat} {t : Option Nat} (h : tgtOk k anc t = true) :
    t.getD k = k ∨ (t.getD k ∈ anc ∧ t = some (t.getD k) ∧ t.getD k ≠ k) := by
  cases t with
  | none => exact Or.inl rfl
  | some j =>
    simp only [tgtOk, Bool.or_eq_true, beq_iff_eq, List.contains_iff_mem] at h
    by_cases hj : j = k
    · exact Or.inl hj
    · rcases h with h | h
      · exact absurd h hj
      · exact Or.inr ⟨h, rfl, hj⟩

/-- the run-time record the tree model consults for target `t` is the one in the store -/
theorem target_ok {g : Arena} {k : Nat} {ctx : Ctx} {t : Option Nat} (hk : k < g.length)
    (hb : (g.get k).rt.cbLevel ≠ 0) (hc : CtxOk g ctx) (h : tgtOk k (ancOf ctx) t = true) :
    targetRt k (g.get k).rt ctx t = some (g.get (t.getD k)).rt ∧ t.getD k < g.length ∧
      (g.get (t.getD k)).rt.cbLevel ≠ 0 := by
  rcases tgt_cases h with h1 | ⟨h1, h2, h3⟩
  · rw [h1]
    refine ⟨?_, hk, hb⟩
    cases t with
    | none => rfl
    | some j => simp at h1; subst h1; simp [targetRt]
  · obtain ⟨r, hr1, hr2, hr3, hr4⟩ := lookupCtx_ok hc _ h1
    refine ⟨?_, hr2, by rw [hr3]; exact hr4⟩
    rw [h2]; simp only [targetRt, Option.getD_some] at *
    rw [if_neg h3, hr1, hr3]

theorem scriptCall_busy (r : Rt) (t : Option Nat) (c : Call) (hb : r.cbLevel ≠ 0) :
    scriptCall r t c = .call t c false r.view r.view := by
  cases c <;> simp [scriptCall, startReject_busy hb, stopReject_busy' hb, runReject_busy hb]

theorem aScript_sim (rec : Rec) (hr : Rej rec) (k : Nat) (ctx : Ctx) :
    ∀ (sc : Script) (g : Arena), k < g.length → (g.get k).rt.cbLevel ≠ 0 → CtxOk g ctx →
      scriptOk k (ancOf ctx) sc = true →
      aScript rec k g sc = (g, own k (runScript k (g.get k).rt ctx sc))
  | [], g, _, _, _, _ => rfl
  | op :: rest, g, hk, hb, hc, hs => by
    simp only [scriptOk, List.all_cons, Bool.and_eq_true] at hs
    have ih := aScript_sim rec hr k ctx rest g hk hb hc hs.2
    cases op with
    | obs t =>
      have T := target_ok hk hb hc (by simpa [opOk] using hs.1)
      simp only [aScript, ih, runScript, List.map_cons, own, scriptOp, T.1, here, Arena.view]
    | call t c =>
      have hs1 := hs.1
      simp only [opOk, Bool.and_eq_true] at hs1
      have T := target_ok hk hb hc hs1.1
      have R := hr g (t.getD k) c T.2.1 T.2.2
      simp only [aScript, R, ih, runScript, List.map_cons, own, scriptOp, T.1, here, Arena.view,
        scriptCall_busy _ t c T.2.2, List.nil_append]

theorem aProbe_sim (rec : Rec) (hr : Rej rec) (k : Nat) (ctx : Ctx) (g : Arena) (mk : Bool → Kind) (p : Option Script)
    (hk : k < g.length) (hb : (g.get k).rt.cbLevel ≠ 0) (hc : CtxOk g ctx) (hs : optOk k (ancOf ctx) p = true) :
    aProbe rec k g mk p = (g, own k (probe mk p k (g.get k).rt ctx)) := by
  cases p with
  | none => rfl
  | some sc =>
    simp only [aProbe, probe, aScript_sim rec hr k ctx sc g hk hb hc hs, own, List.map_cons, here, Option.isSome]

theorem aRouteScan_sim (rec : Rec) (hr : Rej rec) (k : Nat) (ctx : Ctx) (sid : StateId) (e : Event) (g : Arena)
    (hk : k < g.length) (hb : (g.get k).rt.cbLevel ≠ 0) (hc : CtxOk g ctx) :
    ∀ (rs : List Route) (i : Nat), rs.all (routeOk k (ancOf ctx)) = true →
      aRouteScan rec k sid e i g rs =
        (g, (routeScan sid k (g.get k).rt ctx e i rs).1, own k (routeScan sid k (g.get k).rt ctx e i rs).2)
  | [], i, _ => rfl
  | r :: rs, i, hs => by
    simp only [List.all_cons, Bool.and_eq_true] at hs
    have ih := aRouteScan_sim rec hr k ctx sid e g hk hb hc rs (i + 1) hs.2
    unfold aRouteScan routeScan
    split
    · exact ih
    · cases hgd : r.guard with
      | none => rfl
      | some gd =>
        have hs1 := hs.1
        simp only [routeOk, hgd, Bool.and_eq_true] at hs1
        simp only [aScript_sim rec hr k ctx gd.script g hk hb hc hs1.1]
        split
        · simp [own, here]
        · simp only [ih]; simp [own, here]

/-! ### one level of `conv` -/

def ORel {α β : Type} (R : α → β → Prop) : Option α → Option β → Prop
  | none, none => True
  | some a, some b => R a b
  | _, _ => False

section Level
variable {Sub : Type}

/-- `s'` is the tree state of the store state `s` -/
def CS (cv : Nat → Option Sub) (s : StateDef Nat) (s' : StateDef Sub) : Prop := convState cv s = some s'

theorem cs_fields {cv : Nat → Option Sub} {s : StateDef Nat} {s' : StateDef Sub} (h : CS cv s s') :
    s'.id = s.id ∧ s'.enter = s.enter ∧ s'.exit = s.exit ∧ s'.routes = s.routes ∧ s'.events = s.events ∧
    s'.dflt = s.dflt ∧ ORel (fun j x => cv j = some x) s.sub s'.sub := by
  unfold CS convState at h
  split at h
  · rename_i hs; cases h; simp [StateDef.withSub, hs, ORel]
  · rename_i j hs
    split at h
    · rename_i x hx; cases h; simp [StateDef.withSub, hs, ORel, hx]
    · cases h

theorem cs_term (cv : Nat → Option Sub) : CS cv termState termState := rfl

theorem find_mapOpt (cv : Nat → Option Sub) (c : StateId) :
    ∀ (l : List (StateDef Nat)) (l' : List (StateDef Sub)), mapOpt (convState cv) l = some l' →
      ORel (CS cv) (l.find? (fun s => s.id == c)) (l'.find? (fun s => s.id == c))
  | [], l', h => by simp [mapOpt] at h; subst h; simp [ORel]
  | s :: l, l', h => by
    simp only [mapOpt] at h
    split at h
    · cases h
    · rename_i b hb
      split at h
      · cases h
      · rename_i bs hbs
        cases h
        have ih := find_mapOpt cv c l bs hbs
        have hid := (cs_fields (show CS cv s b from hb)).1
        simp only [List.find?_cons, hid]
        split
        · exact hb
        · exact ih

theorem mapOpt_some_mem {α β : Type} (f : α → Option β) : ∀ (l : List α) (l' : List β), mapOpt f l = some l' →
    ∀ a ∈ l, ∃ b, f a = some b
  | [], _, _, a, ha => by cases ha
  | s :: l, l', h, a, ha => by
    simp only [mapOpt] at h
    split at h
    · cases h
    · rename_i b hb
      split at h
      · cases h
      · rename_i bs hbs
        rcases List.mem_cons.1 ha with rfl | ha'
        · exact ⟨b, hb⟩
        · exact mapOpt_some_mem f l bs hbs a ha'

structure ConvAt (cv : Nat → Option Sub) (g : Arena) (k : Nat) (m : M Sub) : Prop where
  lt : k < g.length
  mid : m.mid = k
  init : m.init = (g.get k).init
  cb : m.cb = (g.get k).cb
  rt : m.rt = (g.get k).rt
  sts : mapOpt (convState cv) (g.get k).states = some m.states

theorem convL_iff (cv : Nat → Option Sub) (g : Arena) (k : Nat) (m : M Sub) :
    convL cv g k = some m ↔ ConvAt cv g k m := by
  unfold convL
  constructor
  · intro h
    split at h
    · rename_i hk
      split at h
      · rename_i sts hs; cases h; exact ⟨hk, rfl, rfl, rfl, rfl, hs⟩
      · cases h
    · cases h
  · intro h
    rw [if_pos h.lt, h.sts]
    cases m
    have h1 := h.mid; have h2 := h.init; have h3 := h.cb; have h4 := h.rt
    simp only at h1 h2 h3 h4
    subst h1; subst h2; subst h3; subst h4; rfl

theorem findState_conv {cv : Nat → Option Sub} {g : Arena} {k : Nat} {m : M Sub} (h : ConvAt cv g k m) (c : StateId) :
    ORel (CS cv) ((g.get k).findState c) (m.findState c) := by
  unfold MachOf.findState
  split
  · simp [ORel]
  · exact find_mapOpt cv c _ _ h.sts

theorem stateOf_conv {cv : Nat → Option Sub} {g : Arena} {k : Nat} {m : M Sub} (h : ConvAt cv g k m) (c : StateId) :
    CS cv ((g.get k).stateOf c) (m.stateOf c) := by
  have := findState_conv h c
  unfold MachOf.stateOf
  cases h1 : (g.get k).findState c <;> cases h2 : m.findState c <;> simp [ORel, h1, h2] at this ⊢
  · exact cs_term cv
  · exact this

theorem resolve_conv {cv : Nat → Option Sub} {g : Arena} {k : Nat} {m : M Sub} (h : ConvAt cv g k m) (x : StateId) :
    ORel (CS cv) ((g.get k).resolve x) (m.resolve x) := by
  have := findState_conv h x
  unfold MachOf.resolve
  cases h1 : (g.get k).findState x <;> cases h2 : m.findState x <;> simp [ORel, h1, h2] at this ⊢
  · by_cases h0 : x = 0
    · simp only [h0, if_true]; exact cs_term cv
    · simp only [h0, if_false]
  · exact this

theorem mapOpt_congr {α β : Type} (f f' : α → Option β) : ∀ (l : List α), (∀ a ∈ l, f' a = f a) → mapOpt f' l = mapOpt f l
  | [], _ => rfl
  | a :: l, h => by
    simp only [mapOpt, h a (List.mem_cons_self ..), mapOpt_congr f f' l (fun b hb => h b (List.mem_cons_of_mem _ hb))]

theorem convState_congr (cv cv' : Nat → Option Sub) (s : StateDef Nat) (h : ∀ j, s.sub = some j → cv' j = cv j) :
    convState cv' s = convState cv s := by
  unfold convState
  cases hs : s.sub with
  | none => rfl
  | some j => simp only [h j hs]

theorem mem_subsOf {r : ARec} {s : StateDef Nat} {j : Nat} (hs : s ∈ r.states) (hj : s.sub = some j) : j ∈ subsOf r :=
  List.mem_filterMap.2 ⟨s, hs, hj⟩

/-- the record of `k` changed only in `rt`, the sub-machines convert as before -/
theorem convAt_rt {cv cv' : Nat → Option Sub} {g g' : Arena} {k : Nat} {m : M Sub} (h : ConvAt cv g k m)
    (hl : g'.length = g.length) (hd : SameDef (g'.get k) (g.get k))
    (hsub : ∀ j ∈ subsOf (g.get k), cv' j = cv j) :
    ConvAt cv' g' k { m with rt := (g'.get k).rt } := by
  refine ⟨by rw [hl]; exact h.lt, h.mid, by rw [hd.2.1]; exact h.init, by rw [hd.2.2.2]; exact h.cb, rfl, ?_⟩
  rw [hd.2.2.1]
  show mapOpt (convState cv') (g.get k).states = some m.states
  rw [mapOpt_congr (convState cv) (convState cv') _ (fun s hs => convState_congr cv cv' s (fun j hj => hsub j (mem_subsOf hs hj)))]
  exact h.sts

theorem mapOpt_updSub (cv cv' : Nat → Option Sub) (c : StateId) (j : Nat) (x' : Sub) (hx : cv' j = some x') :
    ∀ (l : List (StateDef Nat)) (l' : List (StateDef Sub)), mapOpt (convState cv) l = some l' →
      (l.filterMap (·.sub)).Nodup → (∃ s, l.find? (fun s => s.id == c) = some s ∧ s.sub = some j) →
      (∀ j' ∈ l.filterMap (·.sub), j' ≠ j → cv' j' = cv j') →
      mapOpt (convState cv') l = some (MachOf.updSub c x' l')
  | [], l', _, _, hf, _ => by obtain ⟨s, hs, _⟩ := hf; simp at hs
  | s :: l, l', h, hn, hf, ho => by
    simp only [mapOpt] at h
    split at h
    · cases h
    · rename_i b hb
      split at h
      · cases h
      · rename_i bs hbs
        cases h
        have hid := (cs_fields (show CS cv s b from hb)).1
        obtain ⟨s0, hs0, hs0j⟩ := hf
        simp only [List.find?_cons] at hs0
        by_cases hc : s.id = c
        · -- this is the state whose sub-machine changed
          simp only [hc, beq_self_eq_true] at hs0
          cases hs0
          have hnj : j ∉ l.filterMap (·.sub) := by
            simp only [List.filterMap_cons, hs0j, List.nodup_cons] at hn; exact hn.1
          have hrest : mapOpt (convState cv') l = some bs := by
            rw [mapOpt_congr (convState cv) (convState cv') l (fun a ha => convState_congr cv cv' a (fun j' hj' => by
              have hm : j' ∈ l.filterMap (·.sub) := List.mem_filterMap.2 ⟨a, ha, hj'⟩
              exact ho j' (by simp only [List.filterMap_cons, hs0j]; exact List.mem_cons_of_mem _ hm)
                (fun e => hnj (e ▸ hm))))]
            exact hbs
          have hb' : convState cv' s = some { b with sub := some x' } := by
            unfold convState at hb ⊢
            simp only [hs0j, hx] at hb ⊢
            split at hb
            · cases hb; rfl
            · cases hb
          simp only [mapOpt, hb', hrest, MachOf.updSub, hid, hc, beq_self_eq_true, if_true]
        · have hc' : (s.id == c) = false := by simpa using hc
          simp only [hc'] at hs0
          have hs0m : s0 ∈ l := List.mem_of_find?_eq_some hs0
          have hjl : j ∈ l.filterMap (·.sub) := List.mem_filterMap.2 ⟨s0, hs0m, hs0j⟩
          have hn' : (l.filterMap (·.sub)).Nodup ∧ ∀ j', s.sub = some j' → j' ∉ l.filterMap (·.sub) := by
            cases hss : s.sub with
            | none => simp only [List.filterMap_cons, hss] at hn; exact ⟨hn, fun _ h => by cases h⟩
            | some j0 =>
              simp only [List.filterMap_cons, hss, List.nodup_cons] at hn
              exact ⟨hn.2, fun j' h => by cases h; exact hn.1⟩
          have hbs' := mapOpt_updSub cv cv' c j x' hx l bs hbs hn'.1 ⟨s0, hs0, hs0j⟩
            (fun j' hj' hne => ho j' (by
              cases hss : s.sub with
              | none => simp only [List.filterMap_cons, hss]; exact hj'
              | some j0 => simp only [List.filterMap_cons, hss]; exact List.mem_cons_of_mem _ hj') hne)
          have hb' : convState cv' s = some b := by
            rw [convState_congr cv cv' s (fun j' hj' => ho j' (by simp only [List.filterMap_cons, hj']; exact List.mem_cons_self ..)
              (fun e => hn'.2 j' hj' (e ▸ hjl)))]
            exact hb
          simp only [mapOpt, hb', hbs', MachOf.updSub, hid, hc', Bool.false_eq_true, if_false]

/-- the sub-machine `j` of state `c` was called: its new tree is written back -/
theorem convAt_setSub {cv cv' : Nat → Option Sub} {g g' : Arena} {k : Nat} {m : M Sub} (h : ConvAt cv g k m)
    (hl : g'.length = g.length) (hd : SameDef (g'.get k) (g.get k))
    (c : StateId) (j : Nat) (x' : Sub) (hcs : ((g.get k).stateOf c).sub = some j) (hx : cv' j = some x')
    (hn : (subsOf (g.get k)).Nodup) (ho : ∀ j' ∈ subsOf (g.get k), j' ≠ j → cv' j' = cv j') :
    ConvAt cv' g' k { (m.setSub c x') with rt := (g'.get k).rt } := by
  refine ⟨by rw [hl]; exact h.lt, h.mid, by rw [hd.2.1]; exact h.init, by rw [hd.2.2.2]; exact h.cb, rfl, ?_⟩
  rw [hd.2.2.1]
  show mapOpt (convState cv') (g.get k).states = some (MachOf.updSub c x' m.states)
  have hf := find_of_stateOf_sub (g.get k) c j hcs
  have hc1 : c ≠ -1 := by
    intro e; unfold MachOf.findState at hf; simp [e] at hf
  refine mapOpt_updSub cv cv' c j x' hx _ _ h.sts hn ⟨_, ?_, hcs⟩ ho
  unfold MachOf.findState at hf; simpa [hc1] using hf

end Level

/-! ### what one level assumes of the level below -/

/-- the level below: its API in the tree model, conversion / nodes / script check in the store,
path translation -/
structure Env (Sub : Type) where
  ops : SubOps Ctx Sub
  cv : Arena → Nat → Option Sub
  nd : Arena → Nat → List Nat
  ok : Arena → Nat → List Nat → Bool
  mo : Sub → List StateId → Option Nat
  /-- the tree model's invariant of a machine of the level below at the moment it is called -/
  inv : Sub → Prop

section Sim
variable {Sub : Type}

/-- the level above -/
def Env.up (E : Env Sub) : Env (M Sub) :=
  { ops := levelOps E.ops, cv := fun g => convL (E.cv g) g, nd := fun g => nodesL (E.nd g) g,
    ok := fun g => okL (E.ok g) g, mo := midLevel E.mo, inv := InvL E.inv E.ops }

/-- every machine object that is outside all of its methods is well formed: `is_running_ ↔
curr_state_ ≠ nullptr`, and `curr_state_` names the state object it points to -/
def WF (g : Arena) : Prop := ∀ j, ¬ busy g j → WFm (g.get j)

theorem wf_pres {g g' : Arena} {tr : ATrace} (h : Pres g g' tr) (w : WF g) : WF g' :=
  (ctxt_pres (n := g.length) h ⟨rfl, w⟩).2

/-- machine `j` of store `g` is the tree `x`, its ancestors are `ctx` (all busy, records as stored),
its subtree is a tree disjoint from the ancestors, scripts address own machine / ancestors only,
and the fuel `fu` exceeds the number of machines below `j` -/
def Pre (E : Env Sub) (fu : Nat) (g : Arena) (j : Nat) (ctx : Ctx) (x : Sub) : Prop :=
  E.cv g j = some x ∧ CtxOk g ctx ∧ E.ok g j (ancOf ctx) = true ∧ (E.nd g j).Nodup ∧
  (∀ i ∈ E.nd g j, i ∉ ancOf ctx) ∧ (E.nd g j).length < fu ∧ WF g

/-- arena result (`a`, `ar`, `atr`) against tree result (`x'`, `tr`, `tt`) of one invocation on `j` -/
def Post (E : Env Sub) (g : Arena) (j : Nat) (x : Sub) (a : Arena) (ar : Bool) (atr : ATrace)
    (x' : Sub) (tr : Bool) (tt : Trace) : Prop :=
  E.cv a j = some x' ∧ ar = tr ∧ atr = trA (midA g j) tt ∧ ∀ i, i ∉ E.nd g j → a.get i = g.get i

structure SubSim (E : Env Sub) (rec : Rec) (fu : Nat) : Prop where
  good : Good rec
  dfs : ∀ g k c, DefsEq g (rec g k c).1
  cvFrame : ∀ g g' j, g'.length = g.length → (∀ i ∈ E.nd g j, g'.get i = g.get i) → E.cv g' j = E.cv g j
  ndCongr : ∀ g g' j, DefsEq g g' → E.nd g' j = E.nd g j
  okCongr : ∀ g g' j anc, DefsEq g g' → E.ok g' j anc = E.ok g j anc
  selfIn : ∀ g j x, E.cv g j = some x → j ∈ E.nd g j
  term : ∀ g j x, E.cv g j = some x → E.ops.isTerminated x = ((g.get j).rt.curr == some 0)
  sinv : SubInv E.inv E.ops
  start : ∀ g j ctx x, Pre E fu g j ctx x →
    Post E g j x (rec g j .start).1 (rec g j .start).2.1 (rec g j .start).2.2
      (E.ops.start ctx x).1 (E.ops.start ctx x).2.1 (E.ops.start ctx x).2.2
  stop : ∀ g j ctx x, Pre E fu g j ctx x → E.inv x → AllBusy ctx →
    Post E g j x (rec g j .stop).1 false (rec g j .stop).2.2 (E.ops.stop ctx x).1 false (E.ops.stop ctx x).2
  run : ∀ g j ctx x e, Pre E fu g j ctx x → E.inv x → AllBusy ctx →
    Post E g j x (rec g j (.run e)).1 (rec g j (.run e)).2.1 (rec g j (.run e)).2.2
      (E.ops.run ctx x e).1 (E.ops.run ctx x e).2.1 (E.ops.run ctx x e).2.2

/-! the four statements of one level (machine `k`, tree `m : M Sub`) -/

def StartSim (E : Env Sub) (rec : Rec) (fu : Nat) : Prop :=
  ∀ g k ctx m, Pre E.up (fu + 1) g k ctx m →
    Post E.up g k m (aStart Fix.all rec g k).1 (aStart Fix.all rec g k).2.1 (aStart Fix.all rec g k).2.2
      (start E.ops ctx m).1 (start E.ops ctx m).2.1 (start E.ops ctx m).2.2

def StopSim (E : Env Sub) (rec : Rec) (fu : Nat) : Prop :=
  ∀ g k ctx m, Pre E.up (fu + 1) g k ctx m → InvL E.inv E.ops m → AllBusy ctx →
    Post E.up g k m (aStop Fix.all rec g k).1 false (aStop Fix.all rec g k).2 (stop E.ops ctx m).1 false (stop E.ops ctx m).2

/-- the tail of `run()`; `k` is idle, running, in state `c` -/
def TransSim (E : Env Sub) (rec : Rec) (fu : Nat) : Prop :=
  ∀ g k ctx m c e nextId ridx action, Pre E.up (fu + 1) g k ctx m → InvL E.inv E.ops m → AllBusy ctx →
    m.rt.curr = some c → m.rt.cbLevel = 0 →
    optOk k (ancOf ctx) action = true →
    Post E.up g k m (aTransition rec g k e nextId ridx action).1 (aTransition rec g k e nextId ridx action).2.1
      (aTransition rec g k e nextId ridx action).2.2
      (transition E.ops ctx m c e nextId ridx action).1 (transition E.ops ctx m c e nextId ridx action).2.1
      (transition E.ops ctx m c e nextId ridx action).2.2

/-- `run()` after the sub-machine block: handlers, target selection, transition -/
def aRunOwn (rec : Rec) (g : Arena) (k : Nat) (cs : StateDef Nat) (e : Event) : Arena × Bool × ATrace :=
  let h := aHandlers rec g k cs e
  let sel := aSelect rec h.1 k e h.2.1
  match sel.2.1 with
  | none => (sel.1, false, h.2.2 ++ sel.2.2)
  | some (nextId, ridx, action) =>
    let t := aTransition rec sel.1 k e nextId ridx action
    (t.1, t.2.1, h.2.2 ++ sel.2.2 ++ t.2.2)

def RunOwnSim (E : Env Sub) (rec : Rec) (fu : Nat) : Prop :=
  ∀ g k ctx m c e, Pre E.up (fu + 1) g k ctx m → InvL E.inv E.ops m → AllBusy ctx →
    m.rt.curr = some c → m.rt.cbLevel = 0 →
    Post E.up g k m (aRunOwn rec g k ((g.get k).stateOf c) e).1 (aRunOwn rec g k ((g.get k).stateOf c) e).2.1
      (aRunOwn rec g k ((g.get k).stateOf c) e).2.2
      (runOwn E.ops ctx m c e).1 (runOwn E.ops ctx m c e).2.1 (runOwn E.ops ctx m c e).2.2

def RunSim (E : Env Sub) (rec : Rec) (fu : Nat) : Prop :=
  ∀ g k ctx m e, Pre E.up (fu + 1) g k ctx m → InvL E.inv E.ops m → AllBusy ctx →
    Post E.up g k m (aRun Fix.all rec g k e).1 (aRun Fix.all rec g k e).2.1 (aRun Fix.all rec g k e).2.2
      (run E.ops ctx m e).1 (run E.ops ctx m e).2.1 (run E.ops ctx m e).2.2

/-! ### trace translation at one level -/

theorem trA_append (f : List StateId → Option Nat) (a b : Trace) : trA f (a ++ b) = trA f a ++ trA f b := by
  simp [trA]

theorem trA_nil (f : List StateId → Option Nat) : trA f [] = [] := rfl

theorem trA_here (g : Arena) (k : Nat) (kd : Kind) : trA (midA g k) [here kd] = [⟨k, kd⟩] := rfl

theorem trA_runScript (g : Arena) (k : Nat) (self : Nat) (rt : Rt) (ctx : Ctx) (sc : Script) :
    trA (midA g k) (runScript self rt ctx sc) = own k (runScript self rt ctx sc) := by
  simp [trA, own, runScript, here, midA]

theorem trA_probe (g : Arena) (k : Nat) (mk : Bool → Kind) (p : Option Script) (self : Nat)
    (rt : Rt) (ctx : Ctx) : trA (midA g k) (probe mk p self rt ctx) = own k (probe mk p self rt ctx) := by
  cases p <;> simp [probe, trA, own, runScript, here, midA]

/-- events of the sub-machine `j` of state `c`, seen from `k` -/
theorem trA_lift (g : Arena) (k : Nat) (c : StateId) (j : Nat)
    (h : ((g.get k).findState c).bind (·.sub) = some j) (t : Trace) : trA (midA g k) (lift c t) = trA (midA g j) t := by
  simp [trA, lift, midA, h]

theorem trA_lift' (g : Arena) (k : Nat) (c : StateId) (j : Nat)
    (h : ((g.get k).stateOf c).sub = some j) (t : Trace) : trA (midA g k) (lift c t) = trA (midA g j) t := by
  apply trA_lift
  rw [find_of_stateOf_sub _ c j h]; exact h

theorem midA_defs {g g' : Arena} (h : DefsEq g g') : ∀ (p : List StateId) (k : Nat), midA g' k p = midA g k p
  | [], k => rfl
  | s :: rest, k => by
    have e : (g'.get k).findState s = (g.get k).findState s := by unfold MachOf.findState; rw [(h.2 k).2.2.1]
    simp only [midA, e]
    cases ((g.get k).findState s).bind (·.sub) with
    | none => rfl
    | some j => exact midA_defs h rest j

theorem trA_defs {g g' : Arena} (h : DefsEq g g') (k : Nat) (t : Trace) : trA (midA g' k) t = trA (midA g k) t := by
  have : midA g' k = midA g k := funext fun p => midA_defs h p k
  rw [this]

theorem trA_handler (g : Arena) (k : Nat) (cs : StateDef Sub) (self : Nat) (rt : Rt) (ctx : Ctx)
    (e : Event) : trA (midA g k) (handlerPhase cs self rt ctx e).2 = own k (handlerPhase cs self rt ctx e).2 := by
  unfold handlerPhase
  split
  · simp [trA, own, runScript, here, midA]
  · split
    · simp [trA, own, runScript, here, midA]
    · rfl

theorem trA_routeScan (g : Arena) (k : Nat) (sid : StateId) (self : Nat) (rt : Rt) (ctx : Ctx)
    (e : Event) : ∀ (rs : List Route) (i : Nat),
      trA (midA g k) (routeScan sid self rt ctx e i rs).2 = own k (routeScan sid self rt ctx e i rs).2
  | [], i => rfl
  | r :: rs, i => by
    have ih := trA_routeScan g k sid self rt ctx e rs (i + 1)
    unfold routeScan
    split
    · exact ih
    · cases r.guard with
      | none => rfl
      | some gd =>
        simp only []
        split
        · simp [trA, own, runScript, here, midA]
        · rw [trA_append, own_append, ih]; simp [trA, own, runScript, here, midA]

/-! ### what `Pre` at level `k` gives for the machine itself and for its sub-machines -/

theorem pairwise_sym_forall {α : Type} {R : α → α → Prop} (hs : ∀ a b, R a b → R b a) :
    ∀ {l : List α}, l.Pairwise R → ∀ a ∈ l, ∀ b ∈ l, a ≠ b → R a b
  | [], _, a, ha, _, _, _ => by cases ha
  | x :: l, h, a, ha, b, hb, hne => by
    rw [List.pairwise_cons] at h
    rcases List.mem_cons.1 ha with rfl | ha' <;> rcases List.mem_cons.1 hb with rfl | hb'
    · exact absurd rfl hne
    · exact h.1 b hb'
    · exact hs _ _ (h.1 a ha')
    · exact pairwise_sym_forall hs h.2 a ha' b hb' hne

theorem sublist_flatMap {α β : Type} (f : α → List β) (a : α) : ∀ (l : List α), a ∈ l → List.Sublist (f a) (l.flatMap f)
  | [], h => by cases h
  | b :: l, h => by
    simp only [List.flatMap_cons]
    rcases List.mem_cons.1 h with rfl | h'
    · exact List.sublist_append_left _ _
    · exact (sublist_flatMap f a l h').trans (List.sublist_append_right _ _)

structure Local (E : Env Sub) (fu : Nat) (g : Arena) (k : Nat) (ctx : Ctx) (m : M Sub) : Prop where
  conv : ConvAt (E.cv g) g k m
  ctxOk : CtxOk g ctx
  recOk : recOk k (ancOf ctx) (g.get k) = true
  notAnc : k ∉ ancOf ctx
  subsNodup : (subsOf (g.get k)).Nodup
  subOk : ∀ j ∈ subsOf (g.get k), E.ok g j (k :: ancOf ctx) = true
  subNodup : ∀ j ∈ subsOf (g.get k), (E.nd g j).Nodup
  subNotSelf : ∀ j ∈ subsOf (g.get k), k ∉ E.nd g j
  subNotAnc : ∀ j ∈ subsOf (g.get k), ∀ i ∈ E.nd g j, i ∉ k :: ancOf ctx
  subLen : ∀ j ∈ subsOf (g.get k), (E.nd g j).length < fu
  subDisj : ∀ j ∈ subsOf (g.get k), ∀ j' ∈ subsOf (g.get k), j' ≠ j → ∀ i ∈ E.nd g j', i ∉ E.nd g j
  subIn : ∀ j ∈ subsOf (g.get k), ∀ i ∈ E.nd g j, i ∈ nodesL (E.nd g) g k
  /-- every other machine object outside its methods is well formed -/
  wf : ∀ j, j ≠ k → ¬ busy g j → WFm (g.get j)

theorem pre_local {E : Env Sub} {rec : Rec} {fu : Nat} (S : SubSim E rec fu) {g : Arena} {k : Nat} {ctx : Ctx} {m : M Sub}
    (h : Pre E.up (fu + 1) g k ctx m) : Local E fu g k ctx m := by
  obtain ⟨h1, h2, h3, h4, h5, h6, h7⟩ := h
  have h3' : recOk k (ancOf ctx) (g.get k) = true ∧ ∀ j ∈ subsOf (g.get k), E.ok g j (k :: ancOf ctx) = true := by
    have : okL (E.ok g) g k (ancOf ctx) = true := h3
    simpa [okL, Bool.and_eq_true, List.all_eq_true] using this
  have h4' : k ∉ (subsOf (g.get k)).flatMap (E.nd g) ∧ ((subsOf (g.get k)).flatMap (E.nd g)).Nodup := by
    have : (k :: (subsOf (g.get k)).flatMap (E.nd g)).Nodup := h4
    exact List.nodup_cons.1 this
  have hpw := List.pairwise_flatMap.1 h4'.2
  have hin : ∀ j ∈ subsOf (g.get k), ∀ i ∈ E.nd g j, i ∈ (subsOf (g.get k)).flatMap (E.nd g) :=
    fun j hj i hi => List.mem_flatMap.2 ⟨j, hj, hi⟩
  have hdis := pairwise_sym_forall (R := fun a₁ a₂ => ∀ x ∈ E.nd g a₁, ∀ y ∈ E.nd g a₂, x ≠ y)
    (fun a b hab x hx y hy e => hab y hy x hx e.symm) hpw.2
  have h6' : ((subsOf (g.get k)).flatMap (E.nd g)).length < fu := by
    have : (k :: (subsOf (g.get k)).flatMap (E.nd g)).length < fu + 1 := h6
    simpa using this
  refine ⟨(convL_iff _ _ _ _).1 h1, h2, h3'.1, h5 k (List.mem_cons_self ..), ?_, h3'.2, hpw.1, ?_, ?_, ?_, ?_, ?_,
    fun j _ hj => h7 j hj⟩
  · have hcvs : ∀ a ∈ subsOf (g.get k), a ∈ E.nd g a := by
      intro a ha
      obtain ⟨s, hs, hsa⟩ := List.mem_filterMap.1 ha
      obtain ⟨b, hb⟩ := mapOpt_some_mem _ _ _ ((convL_iff _ _ _ _).1 h1).sts s hs
      unfold convState at hb
      simp only [hsa] at hb
      split at hb
      · rename_i x hx; exact S.selfIn g a x hx
      · cases hb
    have hpw2 : List.Pairwise (fun a b => a ∈ subsOf (g.get k) ∧ b ∈ subsOf (g.get k) ∧
        ∀ x ∈ E.nd g a, ∀ y ∈ E.nd g b, x ≠ y) (subsOf (g.get k)) := by
      have := List.Pairwise.and_mem.1 hpw.2
      exact this.imp (fun h => ⟨h.1, h.2.1, h.2.2⟩)
    refine hpw2.imp ?_
    intro a b hab e
    exact hab.2.2 a (hcvs a hab.1) a (e ▸ hcvs b hab.2.1) rfl
  · intro j hj hk; exact h4'.1 (hin j hj k hk)
  · intro j hj i hi hc
    rcases List.mem_cons.1 hc with rfl | hc
    · exact h4'.1 (hin j hj _ hi)
    · exact h5 i (List.mem_cons_of_mem _ (hin j hj i hi)) hc
  · intro j hj
    have hsl : (E.nd g j).length ≤ ((subsOf (g.get k)).flatMap (E.nd g)).length := by
      exact (sublist_flatMap (E.nd g) j _ hj).length_le
    omega
  · intro j hj j' hj' hne i hi hi'
    exact hdis j' hj' j hj hne i hi i hi' rfl
  · intro j hj i hi; exact List.mem_cons_of_mem _ (hin j hj i hi)

/-! ### steps of machine `k`'s own code, in terms of `Local` -/

theorem subsOf_defs {a b : ARec} (h : SameDef a b) : subsOf a = subsOf b := by unfold subsOf; rw [h.2.2.1]

theorem recOk_defs {a b : ARec} (h : SameDef a b) (k : Nat) (anc : List Nat) : recOk k anc a = recOk k anc b := by
  unfold recOk; rw [h.2.2.1, h.2.2.2]

theorem nodesL_defs {E : Env Sub} {rec : Rec} {fu : Nat} (S : SubSim E rec fu) {g g' : Arena} (h : DefsEq g g') (k : Nat) :
    nodesL (E.nd g') g' k = nodesL (E.nd g) g k := by
  unfold nodesL
  rw [subsOf_defs (h.2 k)]
  congr 1
  have : E.nd g' = E.nd g := funext fun j => S.ndCongr g g' j h
  rw [this]

theorem local_congr {E : Env Sub} {rec : Rec} {fu : Nat} (S : SubSim E rec fu) {g g' : Arena} {k : Nat} {ctx : Ctx}
    {m m' : M Sub} (L : Local E fu g k ctx m) (hd : DefsEq g g') (hc : ConvAt (E.cv g') g' k m') (hx : CtxOk g' ctx)
    (hw : ∀ j, j ≠ k → ¬ busy g' j → WFm (g'.get j)) :
    Local E fu g' k ctx m' := by
  have e1 : subsOf (g'.get k) = subsOf (g.get k) := subsOf_defs (hd.2 k)
  have e2 : ∀ j, E.nd g' j = E.nd g j := fun j => S.ndCongr g g' j hd
  have e3 : ∀ j anc, E.ok g' j anc = E.ok g j anc := fun j anc => S.okCongr g g' j anc hd
  refine ⟨hc, hx, by rw [recOk_defs (hd.2 k)]; exact L.recOk, L.notAnc, by rw [e1]; exact L.subsNodup, ?_, ?_, ?_, ?_, ?_, ?_, ?_, hw⟩
  · intro j hj; rw [e3]; exact L.subOk j (e1 ▸ hj)
  · intro j hj; rw [e2]; exact L.subNodup j (e1 ▸ hj)
  · intro j hj; rw [e2]; exact L.subNotSelf j (e1 ▸ hj)
  · intro j hj; rw [e2]; exact L.subNotAnc j (e1 ▸ hj)
  · intro j hj; rw [e2]; exact L.subLen j (e1 ▸ hj)
  · intro j hj j' hj'; rw [e2, e2]; exact L.subDisj j (e1 ▸ hj) j' (e1 ▸ hj')
  · intro j hj i hi; rw [nodesL_defs S hd]; rw [e2] at hi; exact L.subIn j (e1 ▸ hj) i hi

/-- `k`'s own code writes `k`'s record -/
theorem local_setRt {E : Env Sub} {rec : Rec} {fu : Nat} (S : SubSim E rec fu) {g : Arena} {k : Nat} {ctx : Ctx}
    {m : M Sub} (L : Local E fu g k ctx m) (r : Rt) : Local E fu (setRt g k r) k ctx { m with rt := r } := by
  have hk := L.conv.lt
  have hne : ∀ i ∈ ancOf ctx, (setRt g k r).get i = g.get i := fun i hi =>
    get_setRt_ne g k i r (fun e => L.notAnc (e ▸ hi))
  refine local_congr S L (defs_setRt g k r) ?_ (ctxOk_frame L.ctxOk (length_setRt g k r) hne) ?_
  · have := convAt_rt (cv' := E.cv (setRt g k r)) (g' := setRt g k r) L.conv (length_setRt g k r) ((defs_setRt g k r).2 k)
      (fun j hj => S.cvFrame g _ j (length_setRt g k r) (fun i hi => get_setRt_ne g k i r (fun e => L.subNotSelf j hj (e ▸ hi))))
    rw [rt_setRt_self g k r hk] at this; exact this
  · intro j hj hb
    unfold busy at hb
    rw [get_setRt_ne g k j r hj] at hb ⊢
    exact L.wf j hj hb

theorem frame_setRt (g : Arena) (k : Nat) (r : Rt) (N : List Nat) (hk : k ∈ N) : ∀ i, i ∉ N → (setRt g k r).get i = g.get i :=
  fun i hi => get_setRt_ne g k i r (fun e => hi (e ▸ hk))

theorem stateOf_mem_sub (r : ARec) (c : StateId) (j : Nat) (h : (r.stateOf c).sub = some j) : j ∈ subsOf r := by
  have hf := find_of_stateOf_sub r c j h
  unfold MachOf.findState at hf
  split at hf
  · cases hf
  · exact mem_subsOf (List.mem_of_find?_eq_some hf) h

/-- before calling the sub-machine `j` of state `c` (machine `k` is busy) -/
theorem sub_pre {E : Env Sub} {rec : Rec} {fu : Nat} (S : SubSim E rec fu) {g : Arena} {k : Nat} {ctx : Ctx}
    {m : M Sub} (L : Local E fu g k ctx m) (hb : (g.get k).rt.cbLevel ≠ 0) (c : StateId) (j : Nat)
    (hcs : ((g.get k).stateOf c).sub = some j) :
    ∃ x, (m.stateOf c).sub = some x ∧ Pre E fu g j ((k, m.rt) :: ctx) x := by
  have hj := stateOf_mem_sub _ c j hcs
  have F := (cs_fields (stateOf_conv L.conv c)).2.2.2.2.2.2
  rw [hcs] at F
  cases hx : (m.stateOf c).sub with
  | none => rw [hx] at F; exact F.elim
  | some x =>
    rw [hx] at F
    refine ⟨x, rfl, F, ?_, L.subOk j hj, L.subNodup j hj, L.subNotAnc j hj, L.subLen j hj, ?_⟩
    · intro p hp
      rcases List.mem_cons.1 hp with rfl | hp
      · exact ⟨L.conv.lt, L.conv.rt.symm, by rw [L.conv.rt]; exact hb⟩
      · exact L.ctxOk p hp
    · intro i hi
      by_cases hik : i = k
      · subst hik; exact absurd hb hi
      · exact L.wf i hik hi

/-- after the call `c'` on the sub-machine `j` of state `c` -/
theorem sub_post {E : Env Sub} {rec : Rec} {fu : Nat} (S : SubSim E rec fu) {g : Arena} {k : Nat} {ctx : Ctx}
    {m : M Sub} (L : Local E fu g k ctx m) (c : StateId) (j : Nat) (hcs : ((g.get k).stateOf c).sub = some j)
    {x x' : Sub} {c' : Call} {ar tr : Bool} {atr : ATrace} {tt : Trace} (hd : DefsEq g (rec g j c').1)
    (hb : (g.get k).rt.cbLevel ≠ 0)
    (P : Post E g j x (rec g j c').1 ar atr x' tr tt) :
    Local E fu (rec g j c').1 k ctx (m.setSub c x') ∧ ((rec g j c').1.get k).rt = (g.get k).rt ∧
      ∀ i, i ∉ nodesL (E.nd g) g k → (rec g j c').1.get i = g.get i := by
  have hj := stateOf_mem_sub _ c j hcs
  obtain ⟨P1, P2, P3, P4⟩ := P
  have hkk : (rec g j c').1.get k = g.get k := P4 k (L.subNotSelf j hj)
  refine ⟨?_, by rw [hkk], fun i hi => P4 i (fun h => hi (L.subIn j hj i h))⟩
  have hwg : WF g := by
    intro i hi
    by_cases hik : i = k
    · subst hik; exact absurd hb hi
    · exact L.wf i hik hi
  refine local_congr S L hd ?_ (ctxOk_frame L.ctxOk hd.1 (fun i hi => P4 i (fun h => L.subNotAnc j hj i h (List.mem_cons_of_mem _ hi))))
    (fun i _ hi => wf_pres (S.good g j c').1 hwg i hi)
  have := convAt_setSub (cv' := E.cv (rec g j c').1) (g' := (rec g j c').1) L.conv hd.1 (hd.2 k) c j x' hcs P1 L.subsNodup
    (fun j' hj' hne => S.cvFrame g _ j' hd.1 (fun i hi => P4 i (L.subDisj j hj j' hj' hne i hi)))
  rw [hkk, ← L.conv.rt] at this
  exact this

/-- the machine itself is well formed when it is called while outside its methods -/
theorem pre_wfm {E : Env Sub} {fu : Nat} {g : Arena} {k : Nat} {ctx : Ctx} {m : M Sub}
    (h : Pre E.up fu g k ctx m) (hl : (g.get k).rt.cbLevel = 0) : WFm (g.get k) :=
  h.2.2.2.2.2.2 k (by unfold busy; simp [hl])

theorem post_of_local {E : Env Sub} {fu : Nat} {g G : Arena} {k : Nat} {ctx : Ctx} {m mG : M Sub}
    (L : Local E fu G k ctx mG) (hf : ∀ i, i ∉ nodesL (E.nd g) g k → G.get i = g.get i) (r : Bool) (atr : ATrace) (tt : Trace)
    (ht : atr = trA (midA g k) tt) :
    Post E.up g k m G r atr mG r tt :=
  ⟨(convL_iff _ _ _ _).2 L.conv, rfl, ht, hf⟩

theorem stateOk_of_recOk {k : Nat} {anc : List Nat} {r : ARec} (h : recOk k anc r = true) (c : StateId) :
    stateOk k anc (r.stateOf c) = true := by
  unfold MachOf.stateOf
  cases hf : r.findState c with
  | none => rfl
  | some st =>
    unfold MachOf.findState at hf
    split at hf
    · cases hf
    · have hm := List.mem_of_find?_eq_some hf
      simp only [recOk, Bool.and_eq_true, List.all_eq_true] at h
      exact h.2 st hm

theorem stateOk_of_resolve {k : Nat} {anc : List Nat} {r : ARec} (h : recOk k anc r = true) (x : StateId) (ts : StateDef Nat)
    (hr : r.resolve x = some ts) : stateOk k anc ts = true := by
  have := (resolve_stateOf r x ts hr).2
  rw [← this]; exact stateOk_of_recOk h x

end Sim

end AT
end Tbox.C16
