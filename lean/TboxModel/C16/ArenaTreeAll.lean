/-
C16 — simulation of the ARENA model by the TREE model on hierarchical stores: all depths
(induction on the nesting depth, tying `aCall` to `subOps`), one call on the root, call lists.
-/
import TboxModel.C16.ArenaTreeStatic
import TboxModel.C16.ArenaTreeStart
import TboxModel.C16.ArenaTreeTrans
import TboxModel.C16.ArenaTreeRun
import TboxModel.C16.InvProofs
set_option linter.unusedSimpArgs false
set_option linter.unusedVariables false
namespace Tbox.C16
namespace AT
open Arena AI

def env0 : Env Empty :=
  { ops := emptyOps, cv := fun _ _ => none, nd := fun _ _ => [], ok := fun _ _ _ => true, mo := fun x _ => x.elim,
    inv := fun _ => True }

def envOf (n : Nat) : Env (Mach n) :=
  { ops := subOps n, cv := conv n, nd := nodesA n, ok := okA n, mo := midOf n, inv := Inv n }

theorem aCall_start (f : Nat) (g : Arena) (k : Nat) (hk : k < g.length) :
    aCall Fix.all (f + 1) g k .start = aStart Fix.all (aCall Fix.all f) g k := by
  unfold aCall; simp [Nat.not_le.2 hk]

theorem aCall_stop (f : Nat) (g : Arena) (k : Nat) (hk : k < g.length) :
    aCall Fix.all (f + 1) g k .stop = ((aStop Fix.all (aCall Fix.all f) g k).1, false, (aStop Fix.all (aCall Fix.all f) g k).2) := by
  unfold aCall; simp [Nat.not_le.2 hk]

theorem aCall_run (f : Nat) (g : Arena) (k : Nat) (e : Event) (hk : k < g.length) :
    aCall Fix.all (f + 1) g k (.run e) = aRun Fix.all (aCall Fix.all f) g k e := by
  unfold aCall; simp [Nat.not_le.2 hk]

theorem subSim0 (f : Nat) : SubSim env0 (aCall Fix.all f) f where
  good := good_aCall f
  dfs := defs_of_good (good_aCall f)
  cvFrame := fun _ _ _ _ _ => rfl
  ndCongr := fun _ _ _ _ => rfl
  okCongr := fun _ _ _ _ _ => rfl
  selfIn := fun _ _ x _ => x.elim
  term := fun _ _ x _ => x.elim
  sinv := empty_subInv
  start := fun _ _ _ x _ => x.elim
  stop := fun _ _ _ x _ => x.elim
  run := fun _ _ _ x _ => x.elim

theorem envOf_succ (n : Nat) : envOf (n + 1) = (envOf n).up := rfl

theorem nodes_pos (n : Nat) (g : Arena) (k : Nat) : 1 ≤ (nodesA n g k).length := by
  cases n <;> simp [nodesA, nodesL]

/-- `Pre` of level 0 in terms of the generic level above the empty level -/
theorem pre0 {f : Nat} {g : Arena} {j : Nat} {ctx : Ctx} {x : Mach 0} (h : Pre (envOf 0) f g j ctx x) :
    Pre env0.up f g j ctx x := by
  obtain ⟨h1, h2, h3, h4, h5, h6, h7⟩ := h
  refine ⟨h1, h2, ?_, h4, h5, h6, h7⟩
  have : (recOk j (ancOf ctx) (g.get j) && (subsOf (g.get j)).isEmpty) = true := h3
  simp only [Bool.and_eq_true] at this
  show okL (fun _ _ => true) g j (ancOf ctx) = true
  simp [okL, this.1]

theorem staticSim (n : Nat) (f : Nat)
    (hstart : ∀ g j ctx x, Pre (envOf n) f g j ctx x →
      Post (envOf n) g j x (aCall Fix.all f g j .start).1 (aCall Fix.all f g j .start).2.1 (aCall Fix.all f g j .start).2.2
        ((subOps n).start ctx x).1 ((subOps n).start ctx x).2.1 ((subOps n).start ctx x).2.2)
    (hstop : ∀ g j ctx x, Pre (envOf n) f g j ctx x → Inv n x → AllBusy ctx →
      Post (envOf n) g j x (aCall Fix.all f g j .stop).1 false (aCall Fix.all f g j .stop).2.2
        ((subOps n).stop ctx x).1 false ((subOps n).stop ctx x).2)
    (hrun : ∀ g j ctx x e, Pre (envOf n) f g j ctx x → Inv n x → AllBusy ctx →
      Post (envOf n) g j x (aCall Fix.all f g j (.run e)).1 (aCall Fix.all f g j (.run e)).2.1 (aCall Fix.all f g j (.run e)).2.2
        ((subOps n).run ctx x e).1 ((subOps n).run ctx x e).2.1 ((subOps n).run ctx x e).2.2) :
    SubSim (envOf n) (aCall Fix.all f) f where
  good := good_aCall f
  dfs := defs_of_good (good_aCall f)
  cvFrame := fun g g' j hl hf => ATS.conv_frame n g g' j hl hf
  ndCongr := fun g g' j h => ATS.nodesA_congr n g g' j h
  okCongr := fun g g' j anc h => ATS.okA_congr n g g' j anc h
  selfIn := fun g j _ _ => ATS.self_mem_nodesA n g j
  term := fun g j x h => ATS.conv_term n g j x h
  sinv := inv_all n
  start := hstart
  stop := hstop
  run := hrun

/-- **the simulation, every depth**: an invocation `aCall Fix.all f` on machine `j` of a store whose part
below `j` is the tree `x` (with more fuel than machines below `j`) is the tree model's operation -/
theorem sim_all : ∀ (n f : Nat), SubSim (envOf n) (aCall Fix.all f) f
  | 0, f => by
    refine staticSim 0 f ?_ ?_ ?_
    · intro g j ctx x h
      have hk := ATS.conv_lt 0 g j x h.1
      have hl : (nodesA _ g j).length < f := h.2.2.2.2.2.1
      have hp := nodes_pos 0 g j
      obtain ⟨f1, rfl⟩ : ∃ f1, f = f1 + 1 := ⟨f - 1, by omega⟩
      obtain ⟨f2, rfl⟩ : ∃ f2, f1 = f2 + 1 := ⟨f1 - 1, by omega⟩
      rw [aCall_start _ g j hk]
      exact start_sim env0 _ (f2 + 1) (subSim0 _) (rej_aCall f2) g j ctx x (pre0 h)
    · intro g j ctx x h hI hB
      have hk := ATS.conv_lt 0 g j x h.1
      have hl : (nodesA _ g j).length < f := h.2.2.2.2.2.1
      have hp := nodes_pos 0 g j
      obtain ⟨f1, rfl⟩ : ∃ f1, f = f1 + 1 := ⟨f - 1, by omega⟩
      obtain ⟨f2, rfl⟩ : ∃ f2, f1 = f2 + 1 := ⟨f1 - 1, by omega⟩
      rw [aCall_stop _ g j hk]
      exact stop_sim env0 _ (f2 + 1) (subSim0 _) (rej_aCall f2) g j ctx x (pre0 h) hI hB
    · intro g j ctx x e h hI hB
      have hk := ATS.conv_lt 0 g j x h.1
      have hl : (nodesA _ g j).length < f := h.2.2.2.2.2.1
      have hp := nodes_pos 0 g j
      obtain ⟨f1, rfl⟩ : ∃ f1, f = f1 + 1 := ⟨f - 1, by omega⟩
      obtain ⟨f2, rfl⟩ : ∃ f2, f1 = f2 + 1 := ⟨f1 - 1, by omega⟩
      rw [aCall_run _ g j e hk]
      exact run_sim env0 _ (f2 + 1) (subSim0 _) (rej_aCall f2)
        (runOwn_sim env0 _ (f2 + 1) (subSim0 _) (rej_aCall f2)) g j ctx x e (pre0 h) hI hB
  | n + 1, f => by
    refine staticSim (n + 1) f ?_ ?_ ?_
    · intro g j ctx x h
      have hk := ATS.conv_lt (n + 1) g j x h.1
      have hl : (nodesA _ g j).length < f := h.2.2.2.2.2.1
      have hp := nodes_pos (n + 1) g j
      obtain ⟨f1, rfl⟩ : ∃ f1, f = f1 + 1 := ⟨f - 1, by omega⟩
      obtain ⟨f2, rfl⟩ : ∃ f2, f1 = f2 + 1 := ⟨f1 - 1, by omega⟩
      rw [aCall_start _ g j hk]
      exact start_sim (envOf n) _ (f2 + 1) (sim_all n _) (rej_aCall f2) g j ctx x h
    · intro g j ctx x h hI hB
      have hk := ATS.conv_lt (n + 1) g j x h.1
      have hl : (nodesA _ g j).length < f := h.2.2.2.2.2.1
      have hp := nodes_pos (n + 1) g j
      obtain ⟨f1, rfl⟩ : ∃ f1, f = f1 + 1 := ⟨f - 1, by omega⟩
      obtain ⟨f2, rfl⟩ : ∃ f2, f1 = f2 + 1 := ⟨f1 - 1, by omega⟩
      rw [aCall_stop _ g j hk]
      exact stop_sim (envOf n) _ (f2 + 1) (sim_all n _) (rej_aCall f2) g j ctx x h hI hB
    · intro g j ctx x e h hI hB
      have hk := ATS.conv_lt (n + 1) g j x h.1
      have hl : (nodesA _ g j).length < f := h.2.2.2.2.2.1
      have hp := nodes_pos (n + 1) g j
      obtain ⟨f1, rfl⟩ : ∃ f1, f = f1 + 1 := ⟨f - 1, by omega⟩
      obtain ⟨f2, rfl⟩ : ∃ f2, f1 = f2 + 1 := ⟨f1 - 1, by omega⟩
      rw [aCall_run _ g j e hk]
      exact run_sim (envOf n) _ (f2 + 1) (sim_all n _) (rej_aCall f2)
        (runOwn_sim (envOf n) _ (f2 + 1) (sim_all n _) (rej_aCall f2)) g j ctx x e h hI hB

/-! ### calls on the root -/

/-- the situation between two calls on the root: the store below `root` is the tree `m`, it is a
hierarchy, and both sides satisfy their between-calls invariants -/
structure RootOk (n : Nat) (g : Arena) (root : Nat) (m : Mach n) : Prop where
  conv : conv n g root = some m
  hier : hierN n g root = true
  inv : Inv n m
  wf : WF g

theorem rootPre {n : Nat} {g : Arena} {root : Nat} {m : Mach n} (h : RootOk n g root m) (F : Nat) (hF : g.length < F) :
    Pre (envOf n) F g root [] m := by
  have hh := h.hier
  unfold hierN at hh
  rw [Bool.and_eq_true] at hh
  have hn : (nodesA n g root).Nodup := of_decide_eq_true hh.2
  have hc : CtxOk g [] := by intro p hp; cases hp
  have ha : ∀ i ∈ (envOf n).nd g root, i ∉ ancOf [] := by intro i _ hi; cases hi
  have hlen : ((envOf n).nd g root).length < F := by
    have := ATS.nodes_length_le n g root m h.conv hn
    show (nodesA n g root).length < F
    omega
  exact ⟨h.conv, hc, hh.1, hn, ha, hlen, h.wf⟩

/-- one of `start / stop / run(e)` on the root -/
theorem root_simple (n F : Nat) (g : Arena) (root : Nat) (m : Mach n) (h : RootOk n g root m) (hF : g.length < F) (c : Call)
    (hc : c = .start ∨ c = .stop ∨ ∃ e, c = .run e) :
    RootOk n (aCall Fix.all F g root c).1 root (applyCall n m c).1 ∧
    (aCall Fix.all F g root c).2.1 = (applyCall n m c).2.1 ∧
    (aCall Fix.all F g root c).2.2 = trA (midA g root) (applyCall n m c).2.2 ∧
    ∀ i, i ∉ nodesA n g root → (aCall Fix.all F g root c).1.get i = g.get i := by
  have S := sim_all n F
  have P0 := rootPre h F hF
  have hd : DefsEq g (aCall Fix.all F g root c).1 := S.dfs g root c
  have hk := ATS.conv_lt n g root m h.conv
  have key : ∀ (x' : Mach n), conv n (aCall Fix.all F g root c).1 root = some x' → x' = (applyCall n m c).1 →
      RootOk n (aCall Fix.all F g root c).1 root (applyCall n m c).1 := by
    intro x' hx' e
    subst e
    refine ⟨hx', ?_, (applyCall_inv n m c h.inv).1, wf_pres (S.good g root c).1 h.wf⟩
    have hh := h.hier
    unfold hierN at hh ⊢
    rw [ATS.okA_congr n g _ root [] hd, ATS.nodesA_congr n g _ root hd]
    exact hh
  rcases hc with rfl | rfl | ⟨e, rfl⟩
  · have P := S.start g root [] m P0
    exact ⟨key _ P.1 rfl, P.2.1, P.2.2.1, P.2.2.2⟩
  · have P := S.stop g root [] m P0 h.inv allBusy_nil
    refine ⟨key _ P.1 rfl, ?_, P.2.2.1, P.2.2.2⟩
    obtain ⟨f1, rfl⟩ : ∃ f1, F = f1 + 1 := ⟨F - 1, by omega⟩
    rw [aCall_stop _ g root hk]; rfl
  · have P := S.run g root [] m e P0 h.inv allBusy_nil
    exact ⟨key _ P.1 rfl, P.2.1, P.2.2.1, P.2.2.2⟩

theorem aCall_restart (f : Nat) (g : Arena) (k : Nat) (hk : k < g.length) :
    aCall Fix.all (f + 1) g k .restart =
      ((aCall Fix.all (f + 1) (aCall Fix.all (f + 1) g k .stop).1 k .start).1,
       (aCall Fix.all (f + 1) (aCall Fix.all (f + 1) g k .stop).1 k .start).2.1,
       (aCall Fix.all (f + 1) g k .stop).2.2 ++ (aCall Fix.all (f + 1) (aCall Fix.all (f + 1) g k .stop).1 k .start).2.2) := by
  have hl : (aCall Fix.all (f + 1) g k .stop).1.length = g.length := (good_aCall (f + 1) g k .stop).1.len
  rw [aCall_start f _ k (by rw [hl]; exact hk), aCall_stop f g k hk]
  unfold aCall; simp [Nat.not_le.2 hk]

/-- **one call on the root** (any of the four calls of the statement) -/
theorem root_call (n F : Nat) (g : Arena) (root : Nat) (m : Mach n) (h : RootOk n g root m) (hF : g.length < F) (c : Call)
    (hc : noDefn c = true) :
    RootOk n (aCall Fix.all F g root c).1 root (applyCall n m c).1 ∧
    (aCall Fix.all F g root c).2.1 = (applyCall n m c).2.1 ∧
    (aCall Fix.all F g root c).2.2 = trA (midA g root) (applyCall n m c).2.2 ∧
    ∀ i, i ∉ nodesA n g root → (aCall Fix.all F g root c).1.get i = g.get i := by
  cases c with
  | start => exact root_simple n F g root m h hF _ (Or.inl rfl)
  | stop => exact root_simple n F g root m h hF _ (Or.inr (Or.inl rfl))
  | run e => exact root_simple n F g root m h hF _ (Or.inr (Or.inr ⟨e, rfl⟩))
  | defn i => cases hc
  | restart =>
    have hk := ATS.conv_lt n g root m h.conv
    obtain ⟨f1, rfl⟩ : ∃ f1, F = f1 + 1 := ⟨F - 1, by omega⟩
    have A := root_simple n (f1 + 1) g root m h hF .stop (Or.inr (Or.inl rfl))
    have hd : DefsEq g (aCall Fix.all (f1 + 1) g root .stop).1 := defs_of_good (good_aCall _) g root .stop
    have B := root_simple n (f1 + 1) _ root _ A.1 (by rw [hd.1]; exact hF) .start (Or.inl rfl)
    rw [aCall_restart f1 g root hk]
    refine ⟨B.1, B.2.1, ?_, ?_⟩
    · show _ ++ _ = trA (midA g root) (((subOps n).stop [] m).2 ++ _)
      rw [trA_append, A.2.2.1, B.2.2.1, trA_defs hd]; rfl
    · intro i hi
      rw [B.2.2.2 i (by rw [ATS.nodesA_congr n g _ root hd]; exact hi), A.2.2.2 i hi]

end AT
end Tbox.C16
