/-
C16 — hierarchical stores: the ARENA model (Arena.lean) restricted to stores whose attachment graph
below a root is a TREE, and the conversion of such a store into a tree machine `Mach n`
(Model.lean).  Definitions only (core Lean, executable); the simulation is in ArenaTree*.lean and
the property theorems in PropsArena.lean.

* `conv n g k`     : the tree of depth ≤ `n` below machine object `k` (fails when nested deeper or
                     when an attached index is outside the store);
* `nodesA n g k`   : the machine objects below `k` (with `k`), one entry per attachment;
* `okA n g k anc`  : every callback body of every machine below `k` addresses only `none`, its own
                     index or one of its ancestors (`anc` = the ancestors of `k`), makes no
                     definition call, and the nesting depth below `k` is at most `n`;
* `hierN n g root` : `okA` from the root (no ancestors) and every machine object is reached at most
                     once (each machine is the sub-machine of at most one state, no cycles);
* `hier g root`    : `hierN g.length g root` (a tree inside the store is never deeper than the store
                     is long);
* `midOf / viewsOf / toATrace` : path → machine index, all (index, view) pairs of a tree, tree trace
                     → arena trace.
-/
import TboxModel.C16.Arena
import TboxModel.C16.Model
namespace Tbox.C16
open Arena

def StateDef.withSub {A B : Type} (s : StateDef A) (x : Option B) : StateDef B :=
  { id := s.id, enter := s.enter, exit := s.exit, routes := s.routes, events := s.events, dflt := s.dflt, sub := x }

/-- `List.mapM` in `Option`, by structural recursion -/
def mapOpt {α β : Type} (f : α → Option β) : List α → Option (List β)
  | [] => some []
  | a :: l =>
    match f a with
    | none => none
    | some b =>
      match mapOpt f l with
      | none => none
      | some bs => some (b :: bs)

section Level
variable {Sub : Type}

/-- one state of the store as a state of the tree; `cv` converts the attached machine object -/
def convState (cv : Nat → Option Sub) (s : StateDef Nat) : Option (StateDef Sub) :=
  match s.sub with
  | none => some (s.withSub none)
  | some j =>
    match cv j with
    | some x => some (s.withSub (some x))
    | none => none

def convL (cv : Nat → Option Sub) (g : Arena) (k : Nat) : Option (M Sub) :=
  if k < g.length then
    match mapOpt (convState cv) (g.get k).states with
    | some sts => some { mid := k, init := (g.get k).init, states := sts, cb := (g.get k).cb, rt := (g.get k).rt }
    | none => none
  else none

end Level

/-- arena → tree of depth ≤ `n` below machine `k` (fails when nested deeper) -/
def conv : (n : Nat) → Arena → Nat → Option (Mach n)
  | 0, g, k => convL (fun _ => (none : Option Empty)) g k
  | n + 1, g, k => convL (conv n g) g k

/-- the machine objects attached to the states of `r`, in state order -/
def subsOf (r : ARec) : List Nat := r.states.filterMap (·.sub)

def nodesL (nd : Nat → List Nat) (g : Arena) (k : Nat) : List Nat := k :: (subsOf (g.get k)).flatMap nd

/-- the machine objects below `k` (with `k`) down to depth `n`, one entry per attachment -/
def nodesA : (n : Nat) → Arena → Nat → List Nat
  | 0, g, k => nodesL (fun _ => []) g k
  | n + 1, g, k => nodesL (nodesA n g) g k

/-! ### what callback bodies may address -/

def tgtOk (k : Nat) (anc : List Nat) : Option Nat → Bool
  | none => true
  | some j => j == k || anc.contains j

def opOk (k : Nat) (anc : List Nat) : SOp → Bool
  | .obs t => tgtOk k anc t
  | .call t c => tgtOk k anc t && (match c with | .defn _ => false | _ => true)

def scriptOk (k : Nat) (anc : List Nat) (sc : Script) : Bool := sc.all (opOk k anc)

def optOk (k : Nat) (anc : List Nat) : Option Script → Bool
  | none => true
  | some sc => scriptOk k anc sc

def routeOk (k : Nat) (anc : List Nat) (r : Route) : Bool :=
  (match r.guard with | none => true | some gd => scriptOk k anc gd.script) && optOk k anc r.action

def stateOk (k : Nat) (anc : List Nat) (s : StateDef Nat) : Bool :=
  optOk k anc s.enter && optOk k anc s.exit && s.routes.all (routeOk k anc) &&
  s.events.all (fun p => scriptOk k anc p.2.script) &&
  (match s.dflt with | none => true | some h => scriptOk k anc h.script)

/-- all callbacks of one machine object: enter/exit actions, route actions, guard scripts, handler
scripts, the state-changed callback -/
def recOk (k : Nat) (anc : List Nat) (r : ARec) : Bool := optOk k anc r.cb && r.states.all (stateOk k anc)

def okL (okS : Nat → List Nat → Bool) (g : Arena) (k : Nat) (anc : List Nat) : Bool :=
  recOk k anc (g.get k) && (subsOf (g.get k)).all (fun j => okS j (k :: anc))

def okA : (n : Nat) → Arena → Nat → List Nat → Bool
  | 0, g, k, anc => recOk k anc (g.get k) && (subsOf (g.get k)).isEmpty
  | n + 1, g, k, anc => okL (okA n g) g k anc

/-- the statement's domain, for nesting depth ≤ `n`: below `root` every machine object is reached at
most once, and every callback addresses only its own machine or an ancestor, without definition
calls -/
def hierN (n : Nat) (g : Arena) (root : Nat) : Bool :=
  okA n g root [] && decide (nodesA n g root).Nodup

def hier (g : Arena) (root : Nat) : Bool := hierN g.length g root

/-! ### the driver's helpers (kept for its tags) -/

/-- machines below `k` (with `k`), each with the list of its ancestors; `none` if out of fuel -/
def treeNodes : Nat → Arena → Nat → List Nat → Option (List (Nat × List Nat))
  | 0, _, _, _ => none
  | f + 1, g, k, anc => do
      let r ← g[k]?
      let subs := r.states.filterMap (·.sub)
      let below ← subs.mapM (fun j => treeNodes f g j (k :: anc))
      pure ((k, anc) :: below.flatten)

def allScripts (r : ARec) : List Script :=
  r.cb.toList ++ r.states.flatMap (fun s =>
    s.enter.toList ++ s.exit.toList ++
    s.routes.flatMap (fun rt => (rt.guard.map (·.script)).toList ++ rt.action.toList) ++
    s.events.map (fun p => p.2.script) ++ (s.dflt.map (·.script)).toList)

/-! ### tree side: events carry the path from the root; translate to machine indices -/
section
variable {Sub : Type}
def midLevel (subMid : Sub → List StateId → Option Nat) (m : MachOf Rt Sub) : List StateId → Option Nat
  | [] => some m.mid
  | s :: rest => match (m.findState s).bind (·.sub) with
    | some x => subMid x rest
    | none => none
def viewsLevel (subViews : Sub → List (Nat × View)) (m : MachOf Rt Sub) : List (Nat × View) :=
  (m.mid, m.rt.view) :: m.states.flatMap (fun s => match s.sub with | some x => subViews x | none => [])
end

def midOf : (n : Nat) → Mach n → List StateId → Option Nat
  | 0 => midLevel (fun x _ => x.elim)
  | n + 1 => midLevel (midOf n)

def viewsOf : (n : Nat) → Mach n → List (Nat × View)
  | 0 => viewsLevel (fun x => x.elim)
  | n + 1 => viewsLevel (viewsOf n)

/-- a tree trace with every path replaced by the index of the machine object it reaches -/
def trA (f : List StateId → Option Nat) (tr : Trace) : ATrace := tr.map fun ev => ⟨(f ev.path).getD 0, ev.kind⟩

def toATrace (n : Nat) (m : Mach n) (tr : Trace) : ATrace := trA (midOf n m) tr

/-- the same walk in the store -/
def midA (g : Arena) : Nat → List StateId → Option Nat
  | k, [] => some k
  | k, s :: rest => match ((g.get k).findState s).bind (·.sub) with
    | some j => midA g j rest
    | none => none

/-! ### running a call list on the root, the way the driver does -/

/-- per call: return value (`false` for `stop`), trace, the root's five observers afterwards -/
def aExec (g : Arena) (root : Nat) : List Call → Arena × List (Bool × ATrace × View)
  | [] => (g, [])
  | c :: cs =>
    let r := aCall Fix.all (fuelFor g) g root c
    let rest := aExec r.1 root cs
    (rest.1, (r.2.1, r.2.2, r.1.view root) :: rest.2)

/-- same size, and every machine object has the same definition (only run-time records differ) -/
def DefsEq (g g' : Arena) : Prop :=
  g'.length = g.length ∧ ∀ i, (g'.get i).mid = (g.get i).mid ∧ (g'.get i).init = (g.get i).init ∧
    (g'.get i).states = (g.get i).states ∧ (g'.get i).cb = (g.get i).cb

def noDefn : Call → Bool
  | .defn _ => false
  | _ => true

end Tbox.C16
