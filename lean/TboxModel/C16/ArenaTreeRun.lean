/-
C16 — simulation of the ARENA model by the TREE model on hierarchical stores: `run()`.
The sub-machine block of `run()` (`aDelegate`) against the tree model, given the simulation of the
rest of `run()` (`RunOwnSim`).
-/
import TboxModel.C16.ArenaTree
set_option linter.unusedSimpArgs false
set_option linter.unusedVariables false
namespace Tbox.C16
namespace AT
open Arena AI
variable {Sub : Type}

/-! ### small facts -/

theorem rt_inc_dec (r : Rt) :
    ({ ({ r with cbLevel := r.cbLevel + 1 } : Rt) with
        cbLevel := ({ r with cbLevel := r.cbLevel + 1 } : Rt).cbLevel - 1 } : Rt) = r := by
  cases r; simp

theorem updSub_updSub_r (c : StateId) (a b : Sub) :
    ∀ l : List (StateDef Sub), MachOf.updSub c b (MachOf.updSub c a l) = MachOf.updSub c b l
  | [] => rfl
  | s :: l => by
    by_cases h : s.id = c
    · simp [MachOf.updSub, h]
    · simp [MachOf.updSub, h, updSub_updSub_r c a b l]

theorem tree_eq1 (m : M Sub) (r1 : Rt) (c : StateId) (x' : Sub) :
    ({ (({ m with rt := r1 } : M Sub).setSub c x') with rt := m.rt } : M Sub) = m.setSub c x' := by
  cases m; rfl

theorem tree_eq2 (m : M Sub) (r1 : Rt) (c : StateId) (a b : Sub) :
    ({ ((({ m with rt := r1 } : M Sub).setSub c a).setSub c b) with rt := m.rt } : M Sub) = m.setSub c b := by
  cases m; simp [MachOf.setSub, updSub_updSub_r]

/-! ### the definitions of `run` / `aRun`, case by case -/

theorem run_rej (ops : SubOps Ctx Sub) (ctx : Ctx) (m : M Sub) (e : Event) (r : Bool) (h : runReject m.rt = some r) :
    run ops ctx m e = (m, r, []) := by
  unfold run; rw [h]

theorem run_nocurr (ops : SubOps Ctx Sub) (ctx : Ctx) (m : M Sub) (e : Event) (h : runReject m.rt = none)
    (hc : m.rt.curr = none) : run ops ctx m e = (m, false, [here .unmodelled]) := by
  unfold run; rw [h]; simp only []; rw [hc]

theorem run_nosub (ops : SubOps Ctx Sub) (ctx : Ctx) (m : M Sub) (e : Event) (c : StateId) (h : runReject m.rt = none)
    (hc : m.rt.curr = some c) (hs : (m.stateOf c).sub = none) : run ops ctx m e = runOwn ops ctx m c e := by
  unfold run; rw [h]; simp only []; rw [hc]; simp only []; rw [hs]

theorem run_sub (ops : SubOps Ctx Sub) (ctx : Ctx) (m : M Sub) (e : Event) (c : StateId) (x : Sub)
    (h : runReject m.rt = none) (hc : m.rt.curr = some c) (hs : (m.stateOf c).sub = some x) :
    run ops ctx m e =
      if !ops.isTerminated (ops.run ((m.mid, { m.rt with cbLevel := m.rt.cbLevel + 1 }) :: ctx) x e).1 then
        (m.setSub c (ops.run ((m.mid, { m.rt with cbLevel := m.rt.cbLevel + 1 }) :: ctx) x e).1,
          (ops.run ((m.mid, { m.rt with cbLevel := m.rt.cbLevel + 1 }) :: ctx) x e).2.1,
          lift c (ops.run ((m.mid, { m.rt with cbLevel := m.rt.cbLevel + 1 }) :: ctx) x e).2.2)
      else
        ((runOwn ops ctx (m.setSub c (ops.stop ((m.mid, { m.rt with cbLevel := m.rt.cbLevel + 1 }) :: ctx)
            (ops.run ((m.mid, { m.rt with cbLevel := m.rt.cbLevel + 1 }) :: ctx) x e).1).1) c e).1,
         (runOwn ops ctx (m.setSub c (ops.stop ((m.mid, { m.rt with cbLevel := m.rt.cbLevel + 1 }) :: ctx)
            (ops.run ((m.mid, { m.rt with cbLevel := m.rt.cbLevel + 1 }) :: ctx) x e).1).1) c e).2.1,
         lift c ((ops.run ((m.mid, { m.rt with cbLevel := m.rt.cbLevel + 1 }) :: ctx) x e).2.2 ++
            (ops.stop ((m.mid, { m.rt with cbLevel := m.rt.cbLevel + 1 }) :: ctx)
              (ops.run ((m.mid, { m.rt with cbLevel := m.rt.cbLevel + 1 }) :: ctx) x e).1).2) ++
         (runOwn ops ctx (m.setSub c (ops.stop ((m.mid, { m.rt with cbLevel := m.rt.cbLevel + 1 }) :: ctx)
            (ops.run ((m.mid, { m.rt with cbLevel := m.rt.cbLevel + 1 }) :: ctx) x e).1).1) c e).2.2) := by
  unfold run; rw [h]; simp only []; rw [hc]; simp only []; rw [hs]

theorem aRun_rej (rec : Rec) (g : Arena) (k : Nat) (e : Event) (r : Bool) (h : runReject (g.get k).rt = some r) :
    aRun Fix.all rec g k e = (g, r, []) := by
  unfold aRun; rw [h]

theorem aRun_some (rec : Rec) (g : Arena) (k : Nat) (e : Event) (h : runReject (g.get k).rt = none)
    (G : Arena) (ret : Bool) (tr : ATrace) (hd : aDelegate Fix.all rec g k e = (G, some ret, tr)) :
    aRun Fix.all rec g k e = (G, ret, tr) := by
  unfold aRun; rw [h]; simp only [hd]

/-- after the sub-machine block the rest of `aRun` is `aRunOwn` -/
theorem aRun_none (rec : Rec) (g : Arena) (k : Nat) (e : Event) (h : runReject (g.get k).rt = none)
    (G : Arena) (tr : ATrace) (hd : aDelegate Fix.all rec g k e = (G, none, tr)) (cs : StateDef Nat)
    (hcs : G.curState k = some cs) :
    aRun Fix.all rec g k e =
      ((aRunOwn rec G k cs e).1, (aRunOwn rec G k cs e).2.1, tr ++ (aRunOwn rec G k cs e).2.2) := by
  unfold aRun aRunOwn; rw [h]; simp only [hd, hcs]
  generalize aSelect rec (aHandlers rec G k cs e).1 k e (aHandlers rec G k cs e).2.1 = sel
  obtain ⟨s1, s2, s3⟩ := sel
  cases s2 with
  | none => simp [List.append_assoc]
  | some p => obtain ⟨p1, p2, p3⟩ := p; simp [List.append_assoc]

theorem del_nosub (rec : Rec) (g : Arena) (k : Nat) (e : Event) (cs : StateDef Nat) (h1 : g.curState k = some cs)
    (h2 : cs.sub = none) : aDelegate Fix.all rec g k e = (g, none, []) := by
  unfold aDelegate; simp only [h1, h2]

theorem del_sub (rec : Rec) (g : Arena) (k : Nat) (e : Event) (cs : StateDef Nat) (j : Nat) (cs1 : StateDef Nat) (j1 : Nat)
    (h1 : g.curState k = some cs) (h2 : cs.sub = some j)
    (h3 : (rec (g.incLevel k) j (.run e)).1.curState k = some cs1) (h4 : cs1.sub = some j1) :
    aDelegate Fix.all rec g k e =
      if !(((rec (g.incLevel k) j (.run e)).1.get j1).rt.curr == some 0) then
        ((rec (g.incLevel k) j (.run e)).1.decLevel k, some (rec (g.incLevel k) j (.run e)).2.1,
          (rec (g.incLevel k) j (.run e)).2.2)
      else
        ((aSubCall rec (rec (g.incLevel k) j (.run e)).1 k .stop).1.decLevel k, none,
          (rec (g.incLevel k) j (.run e)).2.2 ++ (aSubCall rec (rec (g.incLevel k) j (.run e)).1 k .stop).2) := by
  unfold aDelegate; simp only [h1, h2, Fix.all, if_true, h3, h4]

theorem subCall_sub (rec : Rec) (g : Arena) (k : Nat) (c : Call) (cs : StateDef Nat) (j : Nat)
    (h1 : g.curState k = some cs) (h2 : cs.sub = some j) : aSubCall rec g k c = ((rec g j c).1, (rec g j c).2.2) := by
  unfold aSubCall; simp only [h1, h2]

/-! ### `Pre` along a change of run-time records -/

theorem okL_defs {E : Env Sub} {rec : Rec} {fu : Nat} (S : SubSim E rec fu) {g g' : Arena} (h : DefsEq g g') (k : Nat)
    (anc : List Nat) : okL (E.ok g') g' k anc = okL (E.ok g) g k anc := by
  unfold okL
  rw [subsOf_defs (h.2 k), recOk_defs (h.2 k)]
  have : E.ok g' = E.ok g := funext fun j => funext fun a => S.okCongr g g' j a h
  rw [this]

theorem pre_congr {E : Env Sub} {rec : Rec} {fu : Nat} (S : SubSim E rec fu) {g G : Arena} {k : Nat} {ctx : Ctx}
    {m mG : M Sub} (h : Pre E.up (fu + 1) g k ctx m) (hd : DefsEq g G) (L : Local E fu G k ctx mG)
    (hwk : WFm (G.get k)) : Pre E.up (fu + 1) G k ctx mG := by
  obtain ⟨h1, h2, h3, h4, h5, h6, h7⟩ := h
  have e1 : (E.up).nd G k = (E.up).nd g k := nodesL_defs S hd k
  refine ⟨(convL_iff _ _ _ _).2 L.conv, L.ctxOk, ?_, ?_, ?_, ?_, ?_⟩
  · show okL (E.ok G) G k (ancOf ctx) = true
    rw [okL_defs S hd]; exact h3
  · rw [e1]; exact h4
  · rw [e1]; exact h5
  · rw [e1]; exact h6
  · intro i hi
    by_cases hik : i = k
    · rw [hik]; exact hwk
    · exact L.wf i hik hi

theorem not_head {k i : Nat} {nd : Nat → List Nat} {g : Arena} (hi : i ∉ nodesL nd g k) : i ≠ k :=
  fun e => hi (e ▸ List.mem_cons_self ..)

/-! ### `run()` -/

theorem run_sim (E : Env Sub) (rec : Rec) (fu : Nat) (S : SubSim E rec fu) (hr : Rej rec)
    (RO : RunOwnSim E rec fu) : RunSim E rec fu := by
  intro g k ctx m e h hI hB
  have L := pre_local S h
  have hk := L.conv.lt
  have hrt := L.conv.rt
  have hmid := L.conv.mid
  cases hrr : runReject (g.get k).rt with
  | some r =>
    rw [aRun_rej rec g k e r hrr, run_rej E.ops ctx m e r (by rw [hrt]; exact hrr)]
    exact post_of_local L (fun _ _ => rfl) _ [] [] rfl
  | none =>
    have h0 := runReject_none hrr
    have hrrm : runReject m.rt = none := by rw [hrt]; exact hrr
    cases hcurr : (g.get k).rt.curr with
    | none =>
      have hcs : g.curState k = none := by unfold curState; rw [hcurr]; rfl
      rw [aRun_some rec g k e hrr g false (unm k) (by unfold aDelegate; rw [hcs]),
        run_nocurr E.ops ctx m e hrrm (by rw [hrt]; exact hcurr)]
      exact post_of_local L (fun _ _ => rfl) _ _ _ (trA_here g k _).symm
    | some c =>
      have hcs := curState_of_curr hcurr
      have hcm : m.rt.curr = some c := by rw [hrt]; exact hcurr
      have hlm : m.rt.cbLevel = 0 := by rw [hrt]; exact h0.2
      have F := (cs_fields (stateOf_conv L.conv c)).2.2.2.2.2.2
      cases hsub : ((g.get k).stateOf c).sub with
      | none =>
        rw [hsub] at F
        have hsm : (m.stateOf c).sub = none := by
          cases hx : (m.stateOf c).sub with
          | none => rfl
          | some x => rw [hx] at F; exact F.elim
        rw [aRun_none rec g k e hrr g [] (del_nosub rec g k e _ hcs hsub) _ hcs,
          run_nosub E.ops ctx m e c hrrm hcm hsm]
        exact RO g k ctx m c e h hI hB hcm hlm
      | some j =>
        -- the raised record
        obtain ⟨rtA, hrtA⟩ : ∃ rtA : Rt, rtA = { (g.get k).rt with cbLevel := (g.get k).rt.cbLevel + 1 } := ⟨_, rfl⟩
        have hinc : g.incLevel k = setRt g k rtA := by rw [hrtA]; exact incLevel_form g k
        have hdec : ({ rtA with cbLevel := rtA.cbLevel - 1 } : Rt) = (g.get k).rt := by
          rw [hrtA]; exact rt_inc_dec _
        have hAcurr : rtA.curr = some c := by rw [hrtA]; exact hcurr
        have hAb : rtA.cbLevel ≠ 0 := by rw [hrtA]; exact Nat.succ_ne_zero _
        have hdown : ((m.mid, { m.rt with cbLevel := m.rt.cbLevel + 1 }) :: ctx : Ctx) = (k, rtA) :: ctx := by
          rw [hmid, hrt, hrtA]
        have hd0 : DefsEq g (setRt g k rtA) := defs_setRt g k rtA
        have hg0k : (setRt g k rtA).get k = { g.get k with rt := rtA } := get_setRt_self g k rtA hk
        have L0 := local_setRt S L rtA
        have hbusy : ((setRt g k rtA).get k).rt.cbLevel ≠ 0 := by rw [hg0k]; exact hAb
        have hcs0 : (((setRt g k rtA).get k).stateOf c).sub = some j := by rw [hg0k]; exact hsub
        obtain ⟨x, hx, P0⟩ := sub_pre S L0 hbusy c j hcs0
        have hx' : (m.stateOf c).sub = some x := hx
        have P0' : Pre E fu (setRt g k rtA) j ((k, rtA) :: ctx) x := P0
        -- the call
        have hinvx : E.inv x := (hI.2 c (m.stateOf c) x (find_of_stateOf_sub m c x hx') hx').1
        have hBA : AllBusy ((k, rtA) :: ctx) := allBusy_cons k ⟨by rw [hrtA]; exact h0.1, hAb⟩ hB
        have hinv1 := (S.sinv.run ((k, rtA) :: ctx) x e hBA hinvx).1
        have PR := S.run (setRt g k rtA) j ((k, rtA) :: ctx) x e P0' hinvx hBA
        have hd1 := S.dfs (setRt g k rtA) j (.run e)
        obtain ⟨L1, hrt1, hfr1⟩ := sub_post S L0 c j hcs0 hd1 hbusy PR
        obtain ⟨r, hr_⟩ : ∃ r, r = rec (setRt g k rtA) j (.run e) := ⟨_, rfl⟩
        obtain ⟨tr, htr_⟩ : ∃ tr, tr = E.ops.run ((k, rtA) :: ctx) x e := ⟨_, rfl⟩
        rw [← hr_, ← htr_] at PR L1
        rw [← htr_] at hinv1
        rw [← hr_] at hd1 hrt1 hfr1
        have hrt1' : (r.1.get k).rt = rtA := by rw [hrt1, hg0k]
        have hso1 : (r.1.get k).stateOf c = (g.get k).stateOf c := by
          rw [stateOf_sameDef (hd1.2 k), stateOf_sameDef (hd0.2 k)]
        have hcs1 : r.1.curState k = some ((r.1.get k).stateOf c) := curState_of_curr (by rw [hrt1']; exact hAcurr)
        have hsub1 : ((r.1.get k).stateOf c).sub = some j := by rw [hso1]; exact hsub
        have hterm := S.term r.1 j tr.1 PR.1
        have hdel := del_sub rec g k e _ j _ j hcs hsub (by rw [hinc, ← hr_]; exact hcs1) hsub1
        rw [hinc, ← hr_] at hdel
        have hrun := run_sub E.ops ctx m e c x hrrm hcm hx'
        rw [hdown, ← htr_] at hrun
        have hnd0 : nodesL (E.nd (setRt g k rtA)) (setRt g k rtA) k = nodesL (E.nd g) g k := nodesL_defs S hd0 k
        have hda : DefsEq g r.1 := DefsEq.trans' hd0 hd1
        have hnd1 : nodesL (E.nd r.1) r.1 k = nodesL (E.nd g) g k := nodesL_defs S hda k
        have hlen1 : k < r.1.length := L1.conv.lt
        have hfr1' : ∀ i, i ∉ nodesL (E.nd g) g k → r.1.get i = g.get i := by
          intro i hi
          rw [hfr1 i (by rw [hnd0]; exact hi)]
          exact get_setRt_ne g k i rtA (not_head hi)
        have htrR : r.2.2 = trA (midA g k) (lift c tr.2.2) := by
          rw [trA_lift' g k c j hsub, PR.2.2.1]; exact trA_defs hd0 j _
        cases hT : ((r.1.get j).rt.curr == some 0) with
        | false =>
          have hT' : E.ops.isTerminated tr.1 = false := by rw [hterm]; exact hT
          rw [hT] at hdel; rw [hT'] at hrun
          simp only [Bool.not_false, if_true] at hdel hrun
          rw [aRun_some rec g k e hrr _ _ _ hdel, hrun]
          have hdl : r.1.decLevel k = setRt r.1 k (g.get k).rt := by
            rw [decLevel_form, hrt1', hdec]
          rw [hdl]
          have L2 := local_setRt S L1 (g.get k).rt
          rw [← hrt, tree_eq1] at L2
          have P := post_of_local (g := g) (m := m) L2 (by
            intro i hi
            rw [get_setRt_ne r.1 k i _ (not_head hi)]; exact hfr1' i hi) tr.2.1 r.2.2 (lift c tr.2.2) htrR
          rw [← hrt]
          rw [PR.2.1]
          exact P
        | true =>
          have hT' : E.ops.isTerminated tr.1 = true := by rw [hterm]; exact hT
          rw [hT] at hdel; rw [hT'] at hrun
          simp only [Bool.not_true, Bool.false_eq_true, if_false] at hdel hrun
          rw [subCall_sub rec r.1 k .stop _ j hcs1 hsub1] at hdel
          -- the stop of the terminated sub-machine
          have hb1 : (r.1.get k).rt.cbLevel ≠ 0 := by rw [hrt1']; exact hAb
          obtain ⟨y, hy, P1⟩ := sub_pre S L1 hb1 c j hsub1
          have hyx : y = tr.1 := Option.some.inj (P1.1.symm.trans PR.1)
          subst hyx
          have P1' : Pre E fu r.1 j ((k, rtA) :: ctx) tr.1 := P1
          have PS := S.stop r.1 j ((k, rtA) :: ctx) tr.1 P1' hinv1 hBA
          have hS := S.sinv.stop ((k, rtA) :: ctx) tr.1 hBA hinv1
          have hd2 := S.dfs r.1 j .stop
          obtain ⟨L3, hrt3, hfr3⟩ := sub_post S L1 c j hsub1 hd2 hb1 PS
          obtain ⟨b, hb_⟩ : ∃ b, b = rec r.1 j .stop := ⟨_, rfl⟩
          obtain ⟨sr, hsr_⟩ : ∃ sr, sr = E.ops.stop ((k, rtA) :: ctx) tr.1 := ⟨_, rfl⟩
          rw [← hb_, ← hsr_] at PS L3
          rw [← hsr_] at hS
          rw [← hb_] at hd2 hdel hrt3 hfr3
          rw [← hsr_] at hrun
          have hrt3' : (b.1.get k).rt = rtA := by rw [hrt3, hrt1']
          have hdl : b.1.decLevel k = setRt b.1 k (g.get k).rt := by
            rw [decLevel_form, hrt3', hdec]
          rw [hdl] at hdel
          have L4 := local_setRt S L3 (g.get k).rt
          rw [← hrt, tree_eq2] at L4
          have hlen3 : k < b.1.length := L3.conv.lt
          have hdb : DefsEq g b.1 := DefsEq.trans' hda hd2
          have hdG : DefsEq g (setRt b.1 k m.rt) := DefsEq.trans' hdb (defs_setRt b.1 k m.rt)
          have hGk : ((setRt b.1 k m.rt).get k).rt = m.rt := rt_setRt_self b.1 k m.rt hlen3
          have hsoG : ((setRt b.1 k m.rt).get k).stateOf c = (g.get k).stateOf c := stateOf_sameDef (hdG.2 k) c
          have hcsG : (setRt b.1 k m.rt).curState k = some (((setRt b.1 k m.rt).get k).stateOf c) :=
            curState_of_curr (by rw [hGk]; exact hcm)
          have hwk : WFm ((setRt b.1 k m.rt).get k) := by
            have w := pre_wfm h h0.2
            have e' : ((setRt b.1 k m.rt).get k).rt = (g.get k).rt := by rw [hGk, hrt]
            refine ⟨by rw [e']; exact w.1, fun c' hc' => ?_⟩
            rw [stateOf_sameDef (hdG.2 k)]; exact w.2 c' (by rw [← e']; exact hc')
          have hPG := pre_congr S h hdG L4 hwk
          have hIG : InvL E.inv E.ops (m.setSub c sr.1) := invL_setSub hI hS.1 (fun _ => hS.2.1)
          have PO := RO (setRt b.1 k m.rt) k ctx (m.setSub c sr.1) c e hPG hIG hB hcm hlm
          rw [← hrt] at hdel
          rw [aRun_none rec g k e hrr _ _ hdel _ hcsG, hrun]
          obtain ⟨Q1, Q2, Q3, Q4⟩ := PO
          refine ⟨Q1, Q2, ?_, ?_⟩
          · rw [Q3, trA_defs hdG k, trA_append, trA_lift' g k c j hsub, trA_append, PR.2.2.1, PS.2.2.1,
              trA_defs hd0 j, trA_defs hda j]
          · intro i hi
            have hik := not_head hi
            have hiG : i ∉ (E.up).nd (setRt b.1 k m.rt) k := by
              show i ∉ nodesL (E.nd (setRt b.1 k m.rt)) (setRt b.1 k m.rt) k
              rw [nodesL_defs S hdG k]; exact hi
            rw [Q4 i hiG, get_setRt_ne b.1 k i _ hik, hfr3 i (by rw [hnd1]; exact hi)]
            exact hfr1' i hi

end AT
end Tbox.C16
