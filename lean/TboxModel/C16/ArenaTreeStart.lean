/-
C16 — simulation of the ARENA model by the TREE model, one level: `start()` and `stop()`.
-/
import TboxModel.C16.ArenaTree
set_option linter.unusedSimpArgs false
set_option linter.unusedVariables false
namespace Tbox.C16
namespace AT
open Arena AI
variable {Sub : Type}

theorem stateOf_setRt_s (g : Arena) (k : Nat) (r : Rt) (hk : k < g.length) (c : StateId) :
    ((setRt g k r).get k).stateOf c = (g.get k).stateOf c := by
  rw [get_setRt_self g k r hk]; rfl

theorem curState_setRt_s (g : Arena) (k : Nat) (r : Rt) (hk : k < g.length) (c : StateId) (hc : r.curr = some c) :
    (setRt g k r).curState k = some ((g.get k).stateOf c) := by
  rw [curState_of_curr (by rw [rt_setRt_self g k r hk]; exact hc), stateOf_setRt_s g k r hk]

theorem stateOf_of_find' (r : ARec) (sid : StateId) (st : StateDef Nat) (h : r.findState sid = some st) :
    r.stateOf sid = st := by simp [MachOf.stateOf, h]

theorem start_sim (E : Env Sub) (rec : Rec) (fu : Nat) (S : SubSim E rec fu) (hr : Rej rec) : StartSim E rec fu := by
  intro g k ctx m h
  have L := pre_local S h
  clear h
  have hk := L.conv.lt
  obtain ⟨mid, init, states, cb, rt⟩ := m
  have e1 : mid = k := L.conv.mid
  have e2 : init = (g.get k).init := L.conv.init
  have e3 : rt = (g.get k).rt := L.conv.rt
  subst e1; subst e2; subst e3
  unfold aStart start
  simp only []
  cases h1 : startReject (g.get mid).rt with
  | some r => exact post_of_local L (fun _ _ => rfl) r [] [] rfl
  | none =>
    simp only []
    have F := findState_conv L.conv (g.get mid).init
    cases h2 : (g.get mid).findState (g.get mid).init with
    | none =>
      cases h3 : MachOf.findState ({ mid := mid, init := (g.get mid).init, states := states, cb := cb, rt := (g.get mid).rt } : M Sub) (g.get mid).init with
      | none => exact post_of_local L (fun _ _ => rfl) false [] [] rfl
      | some st' => rw [h2, h3] at F; exact F.elim
    | some st =>
      cases h3 : MachOf.findState ({ mid := mid, init := (g.get mid).init, states := states, cb := cb, rt := (g.get mid).rt } : M Sub) (g.get mid).init with
      | none => rw [h2, h3] at F; exact F.elim
      | some st' =>
        rw [h2, h3] at F
        simp only [Fix.all, if_true]
        obtain ⟨hid, hen, _, _, _, _, hsub⟩ := cs_fields F
        have hst : (g.get mid).stateOf st.id = st := by
          rw [findState_id' _ _ _ h2]; exact stateOf_of_find' _ _ _ h2
        have hst' : MachOf.stateOf ({ mid := mid, init := (g.get mid).init, states := states, cb := cb, rt := (g.get mid).rt } : M Sub) st.id = st' := by
          rw [findState_id' _ _ _ h2]; exact stateOf_of_find _ _ _ h3
        have hsok := stateOk_of_recOk L.recOk st.id
        rw [hst] at hsok
        simp only [stateOk, Bool.and_eq_true] at hsok
        rw [hid, hen]
        -- the store after `is_running_ = true; curr_state_ = init; ++cb_level_`
        generalize hA : ({ (g.get mid).rt with running := true, curr := some st.id, cbLevel := (g.get mid).rt.cbLevel + 1 } : Rt) = rtA
        have hg1 : (g.updRt mid fun rt => { rt with running := true, curr := some st.id }).incLevel mid = setRt g mid rtA := by
          rw [incLevel_form, updRt_form, setRt_setRt, rt_setRt_self g mid _ hk, ← hA]
        rw [hg1]
        have L1 := local_setRt S L rtA
        have hk1 : mid < (setRt g mid rtA).length := by simpa using hk
        have hr1 : ((setRt g mid rtA).get mid).rt = rtA := rt_setRt_self g mid rtA hk
        have hb1 : ((setRt g mid rtA).get mid).rt.cbLevel ≠ 0 := by rw [hr1, ← hA]; simp
        rw [aProbe_sim rec hr mid ctx _ (.enter st.id ev0) st.enter hk1 hb1 L1.ctxOk hsok.1.1.1.1, hr1]
        simp only []
        have hcur : (setRt g mid rtA).curState mid = some st := by
          rw [curState_setRt_s g mid rtA hk st.id (by rw [← hA]), hst]
        unfold aSubCall
        rw [hcur]
        simp only []
        cases hs : st.sub with
        | none =>
          rw [hs] at hsub
          cases hs' : st'.sub with
          | some x => rw [hs'] at hsub; exact hsub.elim
          | none =>
            simp only []
            have hfin : (setRt g mid rtA).decLevel mid = setRt g mid { rtA with cbLevel := rtA.cbLevel - 1 } := by
              rw [decLevel_form, setRt_setRt, hr1]
            rw [hfin]
            subst hA
            refine post_of_local (local_setRt S L _) (frame_setRt g mid _ _ (List.mem_cons_self ..)) true _ _ ?_
            rw [List.append_nil, trA_probe]
        | some j =>
          rw [hs] at hsub
          have hcs1 : (((setRt g mid rtA).get mid).stateOf st.id).sub = some j := by
            rw [stateOf_setRt_s g mid rtA hk, hst]; exact hs
          obtain ⟨x, hx, hpre⟩ := sub_pre S L1 hb1 st.id j hcs1
          have hx' : st'.sub = some x := by
            rw [← hst']; exact hx
          rw [hx']
          simp only []
          have P := S.start _ j _ x hpre
          have hd := S.dfs (setRt g mid rtA) j .start
          obtain ⟨L2, hkr, hfr⟩ := sub_post S L1 st.id j hcs1 hd hb1 P
          generalize rec (setRt g mid rtA) j .start = a at P hd L2 hkr hfr
          have hfin : a.1.decLevel mid = setRt a.1 mid { rtA with cbLevel := rtA.cbLevel - 1 } := by
            rw [decLevel_form, hkr, hr1]
          rw [hfin]
          have L3 := local_setRt S L2 { rtA with cbLevel := rtA.cbLevel - 1 }
          subst hA
          refine post_of_local L3 ?_ true _ _ ?_
          · intro i hi
            have hik : i ≠ mid := fun e => hi (e ▸ List.mem_cons_self ..)
            rw [get_setRt_ne _ mid i _ hik, hfr i (by rw [nodesL_defs S (defs_setRt g mid _)]; exact hi), get_setRt_ne _ mid i _ hik]
          · rw [trA_append, trA_probe, trA_lift' g mid st.id j (by rw [hst]; exact hs), P.2.2.1,
              trA_defs (defs_setRt g mid _)]

theorem stop_sim (E : Env Sub) (rec : Rec) (fu : Nat) (S : SubSim E rec fu) (hr : Rej rec) : StopSim E rec fu := by
  intro g k ctx m h hI hB
  have L := pre_local S h
  have hk := L.conv.lt
  obtain ⟨mid, init, states, cb, rt⟩ := m
  have e1 : mid = k := L.conv.mid
  have e3 : rt = (g.get k).rt := L.conv.rt
  subst e1; subst e3
  unfold aStop stop
  simp only []
  cases h1 : stopReject (g.get mid).rt with
  | some r => exact post_of_local L (fun _ _ => rfl) false [] [] rfl
  | none =>
    simp only [Fix.all, if_true]
    have h0 := stopReject_none h1
    have hw := pre_wfm h h0.2
    have hcs : ∃ c, (g.get mid).rt.curr = some c := by
      have := hw.1; rw [h0.1] at this
      cases hc : (g.get mid).rt.curr with
      | none => rw [hc] at this; simp at this
      | some c => exact ⟨c, rfl⟩
    obtain ⟨c, hc⟩ := hcs
    have hcid := hw.2 c hc
    rw [hc]
    simp only []
    obtain ⟨hid, _, hex, _, _, _, hsub⟩ := cs_fields (stateOf_conv L.conv c)
    have hsok := stateOk_of_recOk L.recOk c
    simp only [stateOk, Bool.and_eq_true] at hsok
    obtain ⟨rtA, hA⟩ : ∃ r : Rt, ({ (g.get mid).rt with curr := some c, cbLevel := (g.get mid).rt.cbLevel + 1 } : Rt) = r := ⟨_, rfl⟩
    have hg1 : g.incLevel mid = setRt g mid rtA := by
      rw [incLevel_form, ← hA]; congr 1
      cases hrt : (g.get mid).rt; rw [hrt] at hc; simp only at hc; simp [hc]
    rw [hg1]
    have L1 := local_setRt S L rtA
    have hk1 : mid < (setRt g mid rtA).length := by simpa using hk
    have hr1 : ((setRt g mid rtA).get mid).rt = rtA := rt_setRt_self g mid rtA hk
    have hb1 : ((setRt g mid rtA).get mid).rt.cbLevel ≠ 0 := by rw [hr1, ← hA]; simp
    have hcA : rtA.curr = some c := by rw [← hA]
    have hcur : (setRt g mid rtA).curState mid = some ((g.get mid).stateOf c) := curState_setRt_s g mid rtA hk c hcA
    have hBA : Busy rtA := ⟨by rw [← hA]; exact h0.1, by rw [← hA]; simp⟩
    unfold aSubCall
    rw [hcur]
    simp only []
    cases hs : ((g.get mid).stateOf c).sub with
    | none =>
      rw [hs] at hsub
      cases hs' : (MachOf.stateOf ({ mid := mid, init := init, states := states, cb := cb, rt := (g.get mid).rt } : M Sub) c).sub with
      | some x => rw [hs'] at hsub; exact hsub.elim
      | none =>
        simp only []
        unfold aExit
        rw [hcur]
        simp only []
        rw [aProbe_sim rec hr mid ctx _ _ _ hk1 hb1 L1.ctxOk hsok.1.1.1.2, hr1, hcid, hex]
        simp only []
        have hfin : ((setRt g mid rtA).decLevel mid).updRt mid (fun rt => { rt with curr := none, running := false }) =
            setRt g mid { rtA with cbLevel := rtA.cbLevel - 1, curr := none, running := false } := by
          rw [decLevel_form, setRt_setRt, hr1, updRt_form, setRt_setRt, rt_setRt_self g mid _ hk]
        rw [hfin]
        subst hA
        refine post_of_local (local_setRt S L _) (frame_setRt g mid _ _ (List.mem_cons_self ..)) false _ _ ?_
        rw [List.nil_append, List.nil_append, trA_probe]
    | some j =>
      rw [hs] at hsub
      have hcs1 : (((setRt g mid rtA).get mid).stateOf c).sub = some j := by
        rw [stateOf_setRt_s g mid rtA hk]; exact hs
      obtain ⟨x, hx, hpre⟩ := sub_pre S L1 hb1 c j hcs1
      have hx' : (MachOf.stateOf ({ mid := mid, init := init, states := states, cb := cb, rt := (g.get mid).rt } : M Sub) c).sub = some x := hx
      rw [hx']
      simp only []
      have hinvx : E.inv x := (hI.2 c _ x (find_of_stateOf_sub _ c x hx') hx').1
      have P := S.stop _ j _ x hpre hinvx (allBusy_cons mid hBA hB)
      have hd := S.dfs (setRt g mid rtA) j .stop
      obtain ⟨L2, hkr, hfr⟩ := sub_post S L1 c j hcs1 hd hb1 P
      generalize rec (setRt g mid rtA) j .stop = a at P hd L2 hkr hfr
      have hk2 : mid < a.1.length := by rw [hd.1]; exact hk1
      have hr2 : (a.1.get mid).rt = rtA := by rw [hkr, hr1]
      have hcur2 : a.1.curState mid = some ((g.get mid).stateOf c) := by
        rw [curState_of_curr (by rw [hr2]; exact hcA)]
        have : SameDef (a.1.get mid) (g.get mid) := SameDef.trans' (hd.2 mid) ((defs_setRt g mid rtA).2 mid)
        rw [stateOf_sameDef this]
      unfold aExit
      rw [hcur2]
      simp only []
      rw [aProbe_sim rec hr mid ctx _ _ _ hk2 (by rw [hr2, ← hA]; simp) L2.ctxOk hsok.1.1.1.2, hr2, hcid, hex]
      simp only []
      have hfin : (a.1.decLevel mid).updRt mid (fun rt => { rt with curr := none, running := false }) =
          setRt a.1 mid { rtA with cbLevel := rtA.cbLevel - 1, curr := none, running := false } := by
        rw [decLevel_form, hr2, updRt_form, setRt_setRt, rt_setRt_self a.1 mid _ hk2]
      rw [hfin]
      have L3 := local_setRt S L2 { rtA with cbLevel := rtA.cbLevel - 1, curr := none, running := false }
      subst hA
      refine post_of_local L3 ?_ false _ _ ?_
      · intro i hi
        have hik : i ≠ mid := fun e => hi (e ▸ List.mem_cons_self ..)
        rw [get_setRt_ne _ mid i _ hik, hfr i (by rw [nodesL_defs S (defs_setRt g mid _)]; exact hi), get_setRt_ne _ mid i _ hik]
      · rw [trA_append, trA_probe, trA_lift' g mid c j hs, P.2.2.1, trA_defs (defs_setRt g mid _)]

end AT
end Tbox.C16
