/-
C16 — static facts about the conversion store → tree (`conv`) and the store-side walks
(`nodesA`, `okA`, `midA`): frame / congruence lemmas, what a converted tree records of the store.
-/
import TboxModel.C16.ArenaTreeDefs
import TboxModel.C16.ArenaProg
import TboxModel.C16.Exec
set_option linter.unusedSimpArgs false
set_option linter.unusedVariables false
namespace Tbox.C16
namespace ATS
open Arena

/-! ### `mapOpt` -/

theorem mapOpt_cons {α β : Type} (f : α → Option β) (a : α) (l : List α) (l' : List β)
    (h : mapOpt f (a :: l) = some l') : ∃ b bs, f a = some b ∧ mapOpt f l = some bs ∧ l' = b :: bs := by
  unfold mapOpt at h
  cases hb : f a with
  | none => simp [hb] at h
  | some b =>
    cases hbs : mapOpt f l with
    | none => simp [hb, hbs] at h
    | some bs =>
      simp only [hb, hbs] at h
      cases h
      exact ⟨b, bs, rfl, rfl, rfl⟩

theorem mapOpt_mem {α β : Type} (f : α → Option β) : ∀ (l : List α) (l' : List β), mapOpt f l = some l' →
    ∀ s' ∈ l', ∃ s ∈ l, f s = some s'
  | [], l', h, s', hs => by
    unfold mapOpt at h; cases h; cases hs
  | a :: l, l', h, s', hs => by
    obtain ⟨b, bs, hb, hbs, rfl⟩ := mapOpt_cons f a l l' h
    cases hs with
    | head => exact ⟨a, List.mem_cons_self .., hb⟩
    | tail _ hs =>
      obtain ⟨s, hs1, hs2⟩ := mapOpt_mem f l bs hbs s' hs
      exact ⟨s, List.mem_cons_of_mem _ hs1, hs2⟩

theorem mapOpt_mem' {α β : Type} (f : α → Option β) : ∀ (l : List α) (l' : List β), mapOpt f l = some l' →
    ∀ s ∈ l, ∃ s', f s = some s' ∧ s' ∈ l'
  | [], l', h, s, hs => by cases hs
  | a :: l, l', h, s, hs => by
    obtain ⟨b, bs, hb, hbs, rfl⟩ := mapOpt_cons f a l l' h
    cases hs with
    | head => exact ⟨b, hb, List.mem_cons_self ..⟩
    | tail _ hs =>
      obtain ⟨s', hs1, hs2⟩ := mapOpt_mem' f l bs hbs s hs
      exact ⟨s', hs1, List.mem_cons_of_mem _ hs2⟩

theorem mapOpt_congr {α β : Type} (f f' : α → Option β) : ∀ (l : List α), (∀ s ∈ l, f s = f' s) → mapOpt f l = mapOpt f' l
  | [], _ => rfl
  | a :: l, h => by
    unfold mapOpt
    rw [h a (List.mem_cons_self ..), mapOpt_congr f f' l (fun s hs => h s (List.mem_cons_of_mem _ hs))]

theorem flatMap_congr' {α β : Type} (f f' : α → List β) : ∀ (l : List α), (∀ s ∈ l, f s = f' s) → l.flatMap f = l.flatMap f'
  | [], _ => rfl
  | a :: l, h => by
    simp only [List.flatMap_cons]
    rw [h a (List.mem_cons_self ..), flatMap_congr' f f' l (fun s hs => h s (List.mem_cons_of_mem _ hs))]

theorem all_congr' {α : Type} (f f' : α → Bool) : ∀ (l : List α), (∀ s ∈ l, f s = f' s) → l.all f = l.all f'
  | [], _ => rfl
  | a :: l, h => by
    simp only [List.all_cons]
    rw [h a (List.mem_cons_self ..), all_congr' f f' l (fun s hs => h s (List.mem_cons_of_mem _ hs))]

/-! ### one level -/
section Level
variable {Sub : Type}

theorem convState_some (cv : Nat → Option Sub) (s : StateDef Nat) (s' : StateDef Sub) (h : convState cv s = some s') :
    s'.id = s.id ∧ (s.sub = none → s'.sub = none) ∧ (∀ j, s.sub = some j → ∃ x, cv j = some x ∧ s'.sub = some x) := by
  cases hs : s.sub with
  | none =>
    simp only [convState, hs] at h
    cases h
    exact ⟨rfl, fun _ => rfl, fun j hj => by cases hj⟩
  | some j =>
    simp only [convState, hs] at h
    cases hx : cv j with
    | none => simp [hx] at h
    | some x =>
      simp only [hx] at h
      cases h
      exact ⟨rfl, fun hj => (by cases hj), fun j' hj' => (by cases hj'; exact ⟨x, hx, rfl⟩)⟩

theorem convState_sub (cv : Nat → Option Sub) (s : StateDef Nat) (s' : StateDef Sub) (h : convState cv s = some s')
    (x : Sub) (hx : s'.sub = some x) : ∃ j, s.sub = some j ∧ cv j = some x := by
  have H := convState_some cv s s' h
  cases hs : s.sub with
  | none => rw [H.2.1 hs] at hx; cases hx
  | some j =>
    obtain ⟨y, hy1, hy2⟩ := H.2.2 j hs
    rw [hy2] at hx; cases hx
    exact ⟨j, rfl, hy1⟩

theorem convState_congr (cv cv' : Nat → Option Sub) (s : StateDef Nat) (h : ∀ j, s.sub = some j → cv' j = cv j) :
    convState cv' s = convState cv s := by
  cases hs : s.sub with
  | none => simp only [convState, hs]
  | some j => simp only [convState, hs, h j hs]

theorem mapOpt_find (cv : Nat → Option Sub) (c : StateId) : ∀ (l : List (StateDef Nat)) (l' : List (StateDef Sub)),
    mapOpt (convState cv) l = some l' →
    l'.find? (fun s => s.id == c) = (l.find? (fun s => s.id == c)).bind (convState cv)
  | [], l', h => by unfold mapOpt at h; cases h; rfl
  | a :: l, l', h => by
    obtain ⟨b, bs, hb, hbs, rfl⟩ := mapOpt_cons _ a l l' h
    have hid := (convState_some cv a b hb).1
    simp only [List.find?_cons, hid]
    cases hc : (a.id == c) with
    | true => simp [hb]
    | false => simp only []; exact mapOpt_find cv c l bs hbs

theorem convL_some (cv : Nat → Option Sub) (g : Arena) (k : Nat) (m : M Sub) (h : convL cv g k = some m) :
    k < g.length ∧ ∃ sts, mapOpt (convState cv) (g.get k).states = some sts ∧
      m = { mid := k, init := (g.get k).init, states := sts, cb := (g.get k).cb, rt := (g.get k).rt } := by
  unfold convL at h
  by_cases hk : k < g.length
  · simp only [hk, if_true] at h
    cases hs : mapOpt (convState cv) (g.get k).states with
    | none => simp [hs] at h
    | some sts =>
      simp only [hs] at h
      cases h
      exact ⟨hk, sts, rfl, rfl⟩
  · simp [hk] at h

theorem mem_subsOf (r : ARec) (j : Nat) : j ∈ subsOf r ↔ ∃ s ∈ r.states, s.sub = some j := by
  unfold subsOf; exact List.mem_filterMap

/-- every attached machine of a converted machine was converted -/
theorem convL_subs (cv : Nat → Option Sub) (g : Arena) (k : Nat) (m : M Sub) (h : convL cv g k = some m) :
    ∀ j ∈ subsOf (g.get k), ∃ x, cv j = some x := by
  intro j hj
  obtain ⟨hk, sts, hs, rfl⟩ := convL_some cv g k m h
  obtain ⟨s, hs1, hs2⟩ := (mem_subsOf _ j).1 hj
  obtain ⟨s', hs', _⟩ := mapOpt_mem' _ _ _ hs s hs1
  obtain ⟨x, hx, _⟩ := (convState_some cv s s' hs').2.2 j hs2
  exact ⟨x, hx⟩

/-- every sub-machine of a converted machine is the conversion of an attached machine -/
theorem convL_sub_of (cv : Nat → Option Sub) (g : Arena) (k : Nat) (m : M Sub) (h : convL cv g k = some m)
    (s' : StateDef Sub) (hs' : s' ∈ m.states) (x : Sub) (hx : s'.sub = some x) :
    ∃ j ∈ subsOf (g.get k), cv j = some x := by
  obtain ⟨hk, sts, hs, rfl⟩ := convL_some cv g k m h
  obtain ⟨s, hs1, hs2⟩ := mapOpt_mem _ _ _ hs s' hs'
  obtain ⟨j, hj1, hj2⟩ := convState_sub cv s s' hs2 x hx
  exact ⟨j, (mem_subsOf _ j).2 ⟨s, hs1, hj1⟩, hj2⟩

theorem convL_frame (cv cv' : Nat → Option Sub) (g g' : Arena) (k : Nat) (hl : g'.length = g.length)
    (hk : g'.get k = g.get k) (hc : ∀ j ∈ subsOf (g.get k), cv' j = cv j) : convL cv' g' k = convL cv g k := by
  unfold convL
  rw [hl, hk]
  rw [mapOpt_congr (convState cv') (convState cv) _ (fun s hs => convState_congr cv cv' s
    (fun j hj => hc j ((mem_subsOf _ j).2 ⟨s, hs, hj⟩)))]

theorem mem_nodesL (nd : Nat → List Nat) (g : Arena) (k i : Nat) :
    i ∈ nodesL nd g k ↔ i = k ∨ ∃ j ∈ subsOf (g.get k), i ∈ nd j := by
  unfold nodesL
  simp only [List.mem_cons, List.mem_flatMap]

theorem findState_conv (cv : Nat → Option Sub) (g : Arena) (k : Nat) (m : M Sub) (h : convL cv g k = some m) (c : StateId) :
    m.findState c = ((g.get k).findState c).bind (convState cv) := by
  obtain ⟨hk, sts, hs, rfl⟩ := convL_some cv g k m h
  unfold MachOf.findState
  by_cases hc : c = -1
  · simp [hc]
  · simp only [hc, if_false]
    exact mapOpt_find cv c _ _ hs

theorem views_level (cv : Nat → Option Sub) (sv : Sub → List (Nat × View)) (g : Arena) (k : Nat) (m : M Sub)
    (h : convL cv g k = some m) (ih : ∀ j x, cv j = some x → ∀ p ∈ sv x, g.view p.1 = p.2) :
    ∀ p ∈ viewsLevel sv m, g.view p.1 = p.2 := by
  intro p hp
  unfold viewsLevel at hp
  rw [List.mem_cons] at hp
  cases hp with
  | inl hp =>
    obtain ⟨hk, sts, hs, rfl⟩ := convL_some cv g k m h
    rw [hp]; rfl
  | inr hp =>
    rw [List.mem_flatMap] at hp
    obtain ⟨s', hs', hp⟩ := hp
    cases hx : s'.sub with
    | none => simp [hx] at hp
    | some x =>
      simp only [hx] at hp
      obtain ⟨j, _, hj⟩ := convL_sub_of cv g k m h s' hs' x hx
      exact ih j x hj p hp

theorem mid_level (cv : Nat → Option Sub) (sm : Sub → List StateId → Option Nat) (g : Arena) (k : Nat) (m : M Sub)
    (h : convL cv g k = some m) (ih : ∀ j x, cv j = some x → ∀ p, sm x p = midA g j p) :
    ∀ p, midLevel sm m p = midA g k p := by
  intro p
  cases p with
  | nil =>
    obtain ⟨hk, sts, hs, rfl⟩ := convL_some cv g k m h
    rfl
  | cons s rest =>
    simp only [midLevel, midA]
    rw [findState_conv cv g k m h s]
    cases hf : (g.get k).findState s with
    | none => rfl
    | some st =>
      simp only [Option.bind_some]
      have hmem : st ∈ (g.get k).states := by
        unfold MachOf.findState at hf
        split at hf
        · cases hf
        · exact List.mem_of_find?_eq_some hf
      obtain ⟨hk, sts, hs, _⟩ := convL_some cv g k m h
      obtain ⟨st', hst', _⟩ := mapOpt_mem' _ _ _ hs st hmem
      have H := convState_some cv st st' hst'
      rw [hst']
      simp only [Option.bind_some]
      cases hsub : st.sub with
      | none => rw [H.2.1 hsub]
      | some j =>
        obtain ⟨x, hx1, hx2⟩ := H.2.2 j hsub
        rw [hx2]
        exact ih j x hx1 rest

theorem fresh_level (cv : Nat → Option Sub) (F : Sub → Prop) (g : Arena) (k : Nat) (m : M Sub)
    (hg : AI.Fresh g) (h : convL cv g k = some m) (ih : ∀ j x, cv j = some x → F x) : FreshL F m := by
  refine ⟨?_, ?_⟩
  · obtain ⟨hk, sts, hs, rfl⟩ := convL_some cv g k m h
    show (g.get k).rt = {}
    have : g.get k = g[k] := by unfold Arena.get; simp [List.getD_eq_getElem?_getD, hk]
    rw [this]; exact hg _ (List.getElem_mem hk)
  · intro sid st x hf hx
    have hmem : st ∈ m.states := by
      unfold MachOf.findState at hf
      split at hf
      · cases hf
      · exact List.mem_of_find?_eq_some hf
    obtain ⟨j, _, hj⟩ := convL_sub_of cv g k m h st hmem x hx
    exact ih j x hj

end Level

theorem recOk_congr (k : Nat) (anc : List Nat) (r r' : ARec) (h1 : r'.cb = r.cb) (h2 : r'.states = r.states) :
    recOk k anc r' = recOk k anc r := by
  unfold recOk; rw [h1, h2]

theorem subsOf_congr (r r' : ARec) (h2 : r'.states = r.states) : subsOf r' = subsOf r := by
  unfold subsOf; rw [h2]

/-! ### the theorems -/

theorem conv_lt (n : Nat) (g : Arena) (k : Nat) (m : Mach n) (h : conv n g k = some m) : k < g.length := by
  cases n with
  | zero => exact (convL_some _ g k m h).1
  | succ n => exact (convL_some _ g k m h).1

theorem self_mem_nodesA (n : Nat) (g : Arena) (k : Nat) : k ∈ nodesA n g k := by
  cases n with
  | zero => exact (mem_nodesL _ g k k).2 (Or.inl rfl)
  | succ n => exact (mem_nodesL _ g k k).2 (Or.inl rfl)

theorem conv_frame : ∀ (n : Nat) (g g' : Arena) (k : Nat), g'.length = g.length →
    (∀ i ∈ nodesA n g k, g'.get i = g.get i) → conv n g' k = conv n g k
  | 0, g, g', k, hl, h => by
    show convL _ g' k = convL _ g k
    exact convL_frame _ _ g g' k hl (h k (self_mem_nodesA 0 g k)) (fun _ _ => rfl)
  | n + 1, g, g', k, hl, h => by
    show convL (conv n g') g' k = convL (conv n g) g k
    refine convL_frame _ _ g g' k hl (h k (self_mem_nodesA (n + 1) g k)) ?_
    intro j hj
    refine conv_frame n g g' j hl ?_
    intro i hi
    exact h i ((mem_nodesL _ g k i).2 (Or.inr ⟨j, hj, hi⟩))

theorem nodesA_congr : ∀ (n : Nat) (g g' : Arena) (k : Nat), DefsEq g g' → nodesA n g' k = nodesA n g k
  | 0, g, g', k, h => by
    show nodesL _ g' k = nodesL _ g k
    unfold nodesL; rw [subsOf_congr _ _ (h.2 k).2.2.1]
  | n + 1, g, g', k, h => by
    show nodesL (nodesA n g') g' k = nodesL (nodesA n g) g k
    unfold nodesL; rw [subsOf_congr _ _ (h.2 k).2.2.1]
    rw [flatMap_congr' (nodesA n g') (nodesA n g) _ (fun j _ => nodesA_congr n g g' j h)]

theorem okA_congr : ∀ (n : Nat) (g g' : Arena) (k : Nat) (anc : List Nat), DefsEq g g' → okA n g' k anc = okA n g k anc
  | 0, g, g', k, anc, h => by
    show (recOk k anc (g'.get k) && (subsOf (g'.get k)).isEmpty) = (recOk k anc (g.get k) && (subsOf (g.get k)).isEmpty)
    rw [subsOf_congr _ _ (h.2 k).2.2.1, recOk_congr k anc _ _ (h.2 k).2.2.2 (h.2 k).2.2.1]
  | n + 1, g, g', k, anc, h => by
    show okL (okA n g') g' k anc = okL (okA n g) g k anc
    unfold okL
    rw [subsOf_congr _ _ (h.2 k).2.2.1, recOk_congr k anc _ _ (h.2 k).2.2.2 (h.2 k).2.2.1]
    rw [all_congr' (fun j => okA n g' j (k :: anc)) (fun j => okA n g j (k :: anc)) _
      (fun j _ => okA_congr n g g' j (k :: anc) h)]

theorem conv_rootRt : ∀ (n : Nat) (g : Arena) (k : Nat) (m : Mach n), conv n g k = some m → rootRt n m = (g.get k).rt
  | 0, g, k, m, h => by
    obtain ⟨hk, sts, hs, rfl⟩ := convL_some _ g k m h
    rfl
  | n + 1, g, k, m, h => by
    obtain ⟨hk, sts, hs, rfl⟩ := convL_some _ g k m h
    rfl

theorem conv_term : ∀ (n : Nat) (g : Arena) (k : Nat) (m : Mach n), conv n g k = some m →
    (subOps n).isTerminated m = ((g.get k).rt.curr == some 0)
  | 0, g, k, m, h => by
    obtain ⟨hk, sts, hs, rfl⟩ := convL_some _ g k m h
    rfl
  | n + 1, g, k, m, h => by
    obtain ⟨hk, sts, hs, rfl⟩ := convL_some _ g k m h
    rfl

theorem conv_views : ∀ (n : Nat) (g : Arena) (k : Nat) (m : Mach n), conv n g k = some m →
    ∀ p ∈ viewsOf n m, g.view p.1 = p.2
  | 0, g, k, m, h => views_level _ _ g k m h (fun j x hx => by cases hx)
  | n + 1, g, k, m, h => views_level (conv n g) (viewsOf n) g k m h (fun j x hx => conv_views n g j x hx)

theorem midOf_conv : ∀ (n : Nat) (g : Arena) (k : Nat) (m : Mach n), conv n g k = some m →
    ∀ p, midOf n m p = midA g k p
  | 0, g, k, m, h => mid_level _ _ g k m h (fun j x hx => by cases hx)
  | n + 1, g, k, m, h => mid_level (conv n g) (midOf n) g k m h (fun j x hx => midOf_conv n g j x hx)

theorem midA_congr (g g' : Arena) (h : DefsEq g g') : ∀ (p : List StateId) (k : Nat), midA g' k p = midA g k p
  | [], k => rfl
  | s :: rest, k => by
    unfold midA
    have : (g'.get k).findState s = (g.get k).findState s := by
      unfold MachOf.findState; rw [(h.2 k).2.2.1]
    rw [this]
    cases ((g.get k).findState s).bind (·.sub) with
    | none => rfl
    | some j => exact midA_congr g g' h rest j

theorem conv_fresh : ∀ (n : Nat) (g : Arena) (k : Nat) (m : Mach n), AI.Fresh g → conv n g k = some m → Fresh n m
  | 0, g, k, m, hg, h => fresh_level _ _ g k m hg h (fun j x hx => by cases hx)
  | n + 1, g, k, m, hg, h => fresh_level (conv n g) (Fresh n) g k m hg h (fun j x hx => conv_fresh n g j x hg hx)

theorem nodes_lt : ∀ (n : Nat) (g : Arena) (k : Nat) (m : Mach n), conv n g k = some m →
    ∀ i ∈ nodesA n g k, i < g.length
  | 0, g, k, m, h, i, hi => by
    rcases (mem_nodesL _ g k i).1 hi with rfl | ⟨j, _, hj⟩
    · exact conv_lt 0 g _ m h
    · cases hj
  | n + 1, g, k, m, h, i, hi => by
    rcases (mem_nodesL _ g k i).1 hi with rfl | ⟨j, hj1, hj⟩
    · exact conv_lt (n + 1) g _ m h
    · obtain ⟨x, hx⟩ := convL_subs (conv n g) g k m h j hj1
      exact nodes_lt n g j x hx i hj

theorem nodes_length_le (n : Nat) (g : Arena) (k : Nat) (m : Mach n) (h : conv n g k = some m)
    (hn : (nodesA n g k).Nodup) : (nodesA n g k).length ≤ g.length := by
  have := List.Nodup.length_le_of_subset hn (l₂ := List.range g.length)
    (fun i hi => List.mem_range.2 (nodes_lt n g k m h i hi))
  rwa [List.length_range] at this

/-! ### depth: `okA F` bounds the nesting below `k` by `F`, `conv n` by `n` -/

theorem okA_leaf (n : Nat) (g : Arena) (k : Nat) (anc : List Nat) (hr : recOk k anc (g.get k) = true)
    (he : subsOf (g.get k) = []) : okA n g k anc = true ∧ nodesA n g k = [k] := by
  cases n with
  | zero =>
    refine ⟨?_, ?_⟩
    · show (recOk k anc (g.get k) && (subsOf (g.get k)).isEmpty) = true
      rw [hr, he]; rfl
    · show nodesL _ g k = [k]
      unfold nodesL; rw [he]; rfl
  | succ n =>
    refine ⟨?_, ?_⟩
    · show okL (okA n g) g k anc = true
      unfold okL; rw [hr, he]; rfl
    · show nodesL _ g k = [k]
      unfold nodesL; rw [he]; rfl

theorem okA_depth : ∀ (F : Nat) (n : Nat) (g : Arena) (k : Nat) (anc : List Nat) (m : Mach n),
    okA F g k anc = true → conv n g k = some m → okA n g k anc = true ∧ nodesA n g k = nodesA F g k
  | 0, n, g, k, anc, m, hF, hc => by
    have hF' : (recOk k anc (g.get k) && (subsOf (g.get k)).isEmpty) = true := hF
    rw [Bool.and_eq_true] at hF'
    have he : subsOf (g.get k) = [] := List.isEmpty_iff.1 hF'.2
    have L := okA_leaf n g k anc hF'.1 he
    have L0 := okA_leaf 0 g k anc hF'.1 he
    exact ⟨L.1, L.2.trans L0.2.symm⟩
  | F + 1, 0, g, k, anc, m, hF, hc => by
    have hF' : okL (okA F g) g k anc = true := hF
    unfold okL at hF'
    rw [Bool.and_eq_true] at hF'
    have he : subsOf (g.get k) = [] := by
      apply List.eq_nil_iff_forall_not_mem.2
      intro j hj
      obtain ⟨x, hx⟩ := convL_subs _ g k m hc j hj
      cases hx
    have L := okA_leaf (F + 1) g k anc hF'.1 he
    have L0 := okA_leaf 0 g k anc hF'.1 he
    exact ⟨L0.1, L0.2.trans L.2.symm⟩
  | F + 1, n + 1, g, k, anc, m, hF, hc => by
    have hF' : okL (okA F g) g k anc = true := hF
    unfold okL at hF'
    rw [Bool.and_eq_true, List.all_eq_true] at hF'
    have ih : ∀ j ∈ subsOf (g.get k), okA n g j (k :: anc) = true ∧ nodesA n g j = nodesA F g j := by
      intro j hj
      obtain ⟨x, hx⟩ := convL_subs (conv n g) g k m hc j hj
      exact okA_depth F n g j (k :: anc) x (hF'.2 j hj) hx
    refine ⟨?_, ?_⟩
    · show okL (okA n g) g k anc = true
      unfold okL
      rw [Bool.and_eq_true, List.all_eq_true]
      exact ⟨hF'.1, fun j hj => (ih j hj).1⟩
    · show nodesL (nodesA n g) g k = nodesL (nodesA F g) g k
      unfold nodesL
      rw [flatMap_congr' (nodesA n g) (nodesA F g) _ (fun j hj => (ih j hj).2)]

theorem hier_hierN (n : Nat) (g : Arena) (root : Nat) (m : Mach n) (h : hier g root = true)
    (hc : conv n g root = some m) : hierN n g root = true := by
  unfold hier hierN at h
  rw [Bool.and_eq_true] at h
  have H := okA_depth g.length n g root [] m h.1 hc
  unfold hierN
  rw [Bool.and_eq_true, H.2]
  exact ⟨H.1, h.2⟩

end ATS
end Tbox.C16
