/-
C16 — simulation of the ARENA model by the TREE model, one level: the tail of `run()`
(`aTransition` against `transition`) and `run()` after the sub-machine block.
-/
import TboxModel.C16.ArenaTree
set_option linter.unusedSimpArgs false
set_option linter.unusedVariables false
namespace Tbox.C16
namespace AT
open Arena AI
variable {Sub : Type}

/-! ### small store / tree lemmas -/

theorem setRt_same (g : Arena) (k : Nat) : setRt g k (g.get k).rt = g := by
  unfold setRt updRt
  by_cases hk : k < g.length
  · have h : g[k]? = some g[k] := List.getElem?_eq_getElem hk
    have h2 : g.get k = g[k] := by simp [Arena.get, List.getD_eq_getElem?_getD, h]
    rw [h]; simp only [h2]; exact List.set_getElem_self hk
  · have h : g[k]? = none := List.getElem?_eq_none (Nat.le_of_not_lt hk)
    rw [h]

theorem upd_inc (g : Arena) (k : Nat) (f : Rt → Rt) (hk : k < g.length) :
    (g.updRt k f).incLevel k = setRt g k { f (g.get k).rt with cbLevel := (f (g.get k).rt).cbLevel + 1 } := by
  rw [incLevel_form, updRt_form, rt_setRt_self _ _ _ hk, setRt_setRt]

theorem upd_setRt (g : Arena) (k : Nat) (r : Rt) (f : Rt → Rt) (hk : k < g.length) :
    (setRt g k r).updRt k f = setRt g k (f r) := by
  rw [updRt_form, rt_setRt_self _ _ _ hk, setRt_setRt]

theorem inc_setRt (g : Arena) (k : Nat) (r : Rt) (hk : k < g.length) :
    (setRt g k r).incLevel k = setRt g k { r with cbLevel := r.cbLevel + 1 } := by
  rw [incLevel_form, rt_setRt_self _ _ _ hk, setRt_setRt]

theorem dec_setRt (g : Arena) (k : Nat) (r : Rt) (hk : k < g.length) :
    (setRt g k r).decLevel k = setRt g k { r with cbLevel := r.cbLevel - 1 } := by
  rw [decLevel_form, rt_setRt_self _ _ _ hk, setRt_setRt]

theorem stateOf_setRt (g : Arena) (k : Nat) (r : Rt) (c : StateId) :
    ((setRt g k r).get k).stateOf c = (g.get k).stateOf c := stateOf_sameDef ((defs_setRt g k r).2 k) c

theorem cb_setRt (g : Arena) (k : Nat) (r : Rt) : ((setRt g k r).get k).cb = (g.get k).cb :=
  ((defs_setRt g k r).2 k).2.2.2

theorem curState_setRt (g : Arena) (k : Nat) (r : Rt) (c : StateId) (hk : k < g.length) (hc : r.curr = some c) :
    (setRt g k r).curState k = some ((g.get k).stateOf c) := by
  rw [curState_of_curr (c := c) (by rw [rt_setRt_self g k r hk]; exact hc), stateOf_setRt]

theorem updSub_updSub (c : StateId) (a b : Sub) :
    ∀ l : List (StateDef Sub), MachOf.updSub c b (MachOf.updSub c a l) = MachOf.updSub c b l
  | [] => rfl
  | s :: rest => by
    by_cases h : (s.id == c) = true
    · simp [MachOf.updSub, h]
    · simp [MachOf.updSub, h, updSub_updSub c a b rest]

theorem resolve_stateOf_gen {R : Type} (m : MachOf R Sub) (x : StateId) (ts : StateDef Sub) (h : m.resolve x = some ts) :
    ts.id = x ∧ m.stateOf x = ts := by
  unfold MachOf.resolve at h
  cases hf : m.findState x with
  | some s =>
    rw [hf] at h; simp only [Option.some.injEq] at h; subst h
    exact ⟨findState_id m x s hf, by simp [MachOf.stateOf, hf]⟩
  | none =>
    rw [hf] at h
    simp only at h
    split at h
    · rename_i h0; cases h; subst h0
      exact ⟨rfl, by simp [MachOf.stateOf, hf]⟩
    · cases h

theorem stateOf_setSub_self {R : Type} (m : MachOf R Sub) (c : StateId) (x x1 : Sub) (h : (m.stateOf c).sub = some x) :
    ((m.setSub c x1).stateOf c).sub = some x1 := by
  have hf := find_of_stateOf_sub m c x h
  unfold MachOf.stateOf
  rw [findState_setSub, if_pos rfl, hf]; rfl

/-! ### callbacks of `k` at the store `setRt g k r` -/

theorem probe_at {E : Env Sub} {rec : Rec} {fu : Nat} (S : SubSim E rec fu) (hr : Rej rec) {g : Arena} {k : Nat}
    {ctx : Ctx} {m : M Sub} (L : Local E fu g k ctx m) (r : Rt) (hb : r.cbLevel ≠ 0) (mk : Bool → Kind)
    (p : Option Script) (hp : optOk k (ancOf ctx) p = true) :
    aProbe rec k (setRt g k r) mk p = (setRt g k r, own k (probe mk p k r ctx)) := by
  have hk := L.conv.lt
  have L' := local_setRt S L r
  have := aProbe_sim rec hr k ctx (setRt g k r) mk p L'.conv.lt (by rw [rt_setRt_self g k r hk]; exact hb) L'.ctxOk hp
  rw [rt_setRt_self g k r hk] at this; exact this

theorem exit_at {E : Env Sub} {rec : Rec} {fu : Nat} (S : SubSim E rec fu) (hr : Rej rec) {g : Arena} {k : Nat}
    {ctx : Ctx} {m : M Sub} (L : Local E fu g k ctx m) (r : Rt) (hb : r.cbLevel ≠ 0) (c : StateId)
    (hcur : r.curr = some c) (e : Event) (hp : optOk k (ancOf ctx) ((g.get k).stateOf c).exit = true) :
    aExit rec (setRt g k r) k e =
      (setRt g k r, own k (probe (.exit ((g.get k).stateOf c).id e) ((g.get k).stateOf c).exit k r ctx)) := by
  unfold aExit
  rw [curState_setRt g k r c L.conv.lt hcur]
  exact probe_at S hr L r hb _ _ hp

theorem transition_sim (E : Env Sub) (rec : Rec) (fu : Nat) (S : SubSim E rec fu) (hr : Rej rec) :
    TransSim E rec fu := by
  intro g k ctx m c e nextId ridx action hP hI hB hc h0 hact
  have L := pre_local S hP
  have hcidA : ((g.get k).stateOf c).id = c :=
    (pre_wfm hP (by rw [← L.conv.rt]; exact h0)).2 c (by rw [← L.conv.rt]; exact hc)
  have hk := L.conv.lt
  have hmid : m.mid = k := L.conv.mid
  rcases hm : m.rt with ⟨rn, cu, la, nx, lv⟩
  rw [hm] at hc; simp only at hc; subst hc
  have hR : (g.get k).rt = ⟨rn, some c, la, nx, lv⟩ := by rw [← L.conv.rt]; exact hm
  have hres := resolve_conv L.conv nextId
  cases h1 : (g.get k).resolve nextId with
  | none =>
    cases h2 : m.resolve nextId with
    | some t => rw [h1, h2] at hres; exact hres.elim
    | none =>
      have hA : aTransition rec g k e nextId ridx action = (setRt g k ⟨rn, some c, la, none, lv⟩, false, []) := by
        simp only [aTransition, h1]; rw [updRt_form, hR]
      have hT : transition E.ops ctx m c e nextId ridx action = ({ m with rt := ⟨rn, some c, la, none, lv⟩ }, false, []) := by
        simp only [transition, h2, hm]
      rw [hA, hT]
      exact post_of_local (local_setRt S L _) (frame_setRt g k _ _ (List.mem_cons_self ..)) false [] [] rfl
  | some ts =>
    cases h2 : m.resolve nextId with
    | none => rw [h1, h2] at hres; exact hres.elim
    | some ts' =>
      rw [h1, h2] at hres
      have hres : CS (E.cv g) ts ts' := hres
      obtain ⟨f1, f2, f3, f4, f5, f6, f7⟩ := cs_fields hres
      obtain ⟨i1, i2⟩ := resolve_stateOf (g.get k) nextId ts h1
      obtain ⟨j1, j2⟩ := resolve_stateOf_gen m nextId ts' h2
      obtain ⟨c1, c2, c3, c4, c5, c6, c7⟩ := cs_fields (stateOf_conv L.conv c)
      have hokc := stateOk_of_recOk L.recOk c
      have hokt := stateOk_of_resolve L.recOk nextId ts h1
      simp only [stateOk, Bool.and_eq_true] at hokc hokt
      have hcbok : optOk k (ancOf ctx) (g.get k).cb = true := by
        have := L.recOk; simp only [recOk, Bool.and_eq_true] at this; exact this.1
      have hoi : ∀ z : Int, optInt (some z) = z := fun _ => rfl
      -- the steps of `k`'s own code
      have h4 : (g.updRt k fun rt => { rt with next := some nextId }).incLevel k =
          setRt g k ⟨rn, some c, la, some nextId, lv + 1⟩ := by
        rw [upd_inc g k _ hk, hR]
      have hx := exit_at S hr L ⟨rn, some c, la, some nextId, lv + 1⟩ (Nat.succ_ne_zero lv) c rfl e hokc.1.1.1.2
      rw [hcidA] at hx
      have hr4 := rt_setRt_self g k ⟨rn, some c, la, some nextId, lv + 1⟩ hk
      have h5 : (setRt g k ⟨rn, some c, la, some nextId, lv + 1⟩).updRt k (fun rt => { rt with last := rt.curr, curr := none }) =
          setRt g k ⟨rn, none, some c, some nextId, lv + 1⟩ := upd_setRt g k _ _ hk
      have ha := probe_at S hr L ⟨rn, none, some c, some nextId, lv + 1⟩ (Nat.succ_ne_zero lv) (.action c ridx e) action hact
      have h6 : (setRt g k ⟨rn, none, some c, some nextId, lv + 1⟩).updRt k (fun rt => { rt with curr := rt.next, next := none }) =
          setRt g k ⟨rn, some nextId, some c, none, lv + 1⟩ := upd_setRt g k _ _ hk
      have hcs6 : (setRt g k ⟨rn, some nextId, some c, none, lv + 1⟩).curState k = some ts := by
        rw [curState_setRt g k _ nextId hk rfl, i2]
      have hen := probe_at S hr L ⟨rn, some nextId, some c, none, lv + 1⟩ (Nat.succ_ne_zero lv) (.enter nextId e) ts.enter
        hokt.1.1.1.1
      have hr6 := rt_setRt_self g k ⟨rn, some nextId, some c, none, lv + 1⟩ hk
      have hcb6 := cb_setRt g k ⟨rn, some nextId, some c, none, lv + 1⟩
      have hcbp := probe_at S hr L ⟨rn, some nextId, some c, none, lv + 1⟩ (Nat.succ_ne_zero lv) (.notify c nextId e)
        (g.get k).cb hcbok
      have L6 := local_setRt S L ⟨rn, some nextId, some c, none, lv + 1⟩
      have hA0 : aTransition rec g k e nextId ridx action =
          ((aSubRun rec (aSubCall rec (setRt g k ⟨rn, some nextId, some c, none, lv + 1⟩) k .start).1 k e).1.decLevel k, true,
            own k (probe (.exit c e) ((g.get k).stateOf c).exit k ⟨rn, some c, la, some nextId, lv + 1⟩ ctx) ++
            own k (probe (.action c ridx e) action k ⟨rn, none, some c, some nextId, lv + 1⟩ ctx) ++
            own k (probe (.enter nextId e) ts.enter k ⟨rn, some nextId, some c, none, lv + 1⟩ ctx) ++
            own k (probe (.notify c nextId e) (g.get k).cb k ⟨rn, some nextId, some c, none, lv + 1⟩ ctx) ++
            (aSubCall rec (setRt g k ⟨rn, some nextId, some c, none, lv + 1⟩) k .start).2 ++
            (aSubRun rec (aSubCall rec (setRt g k ⟨rn, some nextId, some c, none, lv + 1⟩) k .start).1 k e).2) := by
        unfold aTransition
        rw [h1]
        simp only [h4, hx, hr4, h5, hoi, ha, h6, hcs6, i1, hen, hr6, hcb6, hcbp]
      have dg6 : DefsEq g (setRt g k ⟨rn, some nextId, some c, none, lv + 1⟩) := defs_setRt g k _
      have hb6 : ((setRt g k ⟨rn, some nextId, some c, none, lv + 1⟩).get k).rt.cbLevel ≠ 0 := by
        rw [hr6]; exact Nat.succ_ne_zero lv
      cases hs : ts.sub with
      | none =>
        cases hs' : ts'.sub with
        | some x0 => rw [hs, hs'] at f7; exact f7.elim
        | none =>
          have hs1 : aSubCall rec (setRt g k ⟨rn, some nextId, some c, none, lv + 1⟩) k .start =
              (setRt g k ⟨rn, some nextId, some c, none, lv + 1⟩, []) := by
            unfold aSubCall; rw [hcs6]; simp only [hs]
          have hs2 : aSubRun rec (setRt g k ⟨rn, some nextId, some c, none, lv + 1⟩) k e =
              (setRt g k ⟨rn, some nextId, some c, none, lv + 1⟩, []) := by
            unfold aSubRun; rw [hcs6]; simp [hs]
          rw [hA0]
          simp only [hs1, hs2, dec_setRt g k _ hk, List.append_nil, transition, h2, hm, j1, hs']
          refine post_of_local (local_setRt S L _) (frame_setRt g k _ _ (List.mem_cons_self ..)) true _ _ ?_
          simp only [trA_append, trA_probe, hmid, c3, f2, L.conv.cb]
      | some j =>
        cases hs' : ts'.sub with
        | none => rw [hs, hs'] at f7; exact f7.elim
        | some x0 =>
          have hcs6' : (((setRt g k ⟨rn, some nextId, some c, none, lv + 1⟩).get k).stateOf nextId).sub = some j := by
            rw [stateOf_setRt, i2]; exact hs
          have hrn : rn = true := by
            have := hI.1.1; rw [hm] at this; exact this
          have hB' : AllBusy ((k, (⟨rn, some nextId, some c, none, lv + 1⟩ : Rt)) :: ctx) :=
            allBusy_cons k ⟨hrn, Nat.succ_ne_zero lv⟩ hB
          obtain ⟨x, hx1, pre1⟩ := sub_pre S L6 hb6 nextId j hcs6'
          have hx1' : (m.stateOf nextId).sub = some x := hx1
          have hxx : x0 = x := by rw [j2, hs'] at hx1'; exact Option.some.inj hx1'
          subst hxx
          have hinv0 : E.inv x0 := by
            have hf := find_of_stateOf_sub m nextId x0 hx1'
            exact (hI.2 nextId _ x0 hf hx1').1
          have pre1' : Pre E fu (setRt g k ⟨rn, some nextId, some c, none, lv + 1⟩) j
              ((k, (⟨rn, some nextId, some c, none, lv + 1⟩ : Rt)) :: ctx) x0 := pre1
          have P1 := S.start _ j _ x0 pre1'
          have hd1 := S.dfs (setRt g k ⟨rn, some nextId, some c, none, lv + 1⟩) j .start
          obtain ⟨L1, hrt1, fr1⟩ := sub_post S L6 nextId j hcs6' hd1 hb6 P1
          have hinv1 := (S.sinv.start _ x0 hB' hinv0).1
          generalize hr1 : E.ops.start ((k, (⟨rn, some nextId, some c, none, lv + 1⟩ : Rt)) :: ctx) x0 = r1 at P1 L1 hinv1
          generalize hA1 : rec (setRt g k ⟨rn, some nextId, some c, none, lv + 1⟩) j .start = a1 at P1 L1 hd1 hrt1 fr1
          have hs1 : aSubCall rec (setRt g k ⟨rn, some nextId, some c, none, lv + 1⟩) k .start = (a1.1, a1.2.2) := by
            unfold aSubCall; rw [hcs6]; simp only [hs, hA1]
          have hcur1 : (a1.1.get k).rt.curr = some nextId := by rw [hrt1, hr6]
          have hst1 : (a1.1.get k).stateOf nextId = ts := by rw [stateOf_sameDef (hd1.2 k), stateOf_setRt, i2]
          have hcs1 : a1.1.curState k = some ts := by rw [curState_of_curr hcur1, hst1]
          have hcs1' : ((a1.1.get k).stateOf nextId).sub = some j := by rw [hst1]; exact hs
          have hs2 : aSubRun rec a1.1 k e = ((rec a1.1 j (.run e)).1, (rec a1.1 j (.run e)).2.2) := by
            unfold aSubRun aSubCall; rw [hcs1]; simp [hs]
          have hb1 : (a1.1.get k).rt.cbLevel ≠ 0 := by rw [hrt1]; exact hb6
          obtain ⟨x', hx2, pre2⟩ := sub_pre S L1 hb1 nextId j hcs1'
          rw [stateOf_setSub_self _ nextId x0 r1.1 hx1] at hx2
          have hxx2 : r1.1 = x' := Option.some.inj hx2
          subst hxx2
          have pre2' : Pre E fu a1.1 j ((k, (⟨rn, some nextId, some c, none, lv + 1⟩ : Rt)) :: ctx) r1.1 := pre2
          have P2 := S.run a1.1 j _ r1.1 e pre2' hinv1 hB'
          have hd2 := S.dfs a1.1 j (.run e)
          obtain ⟨L2, hrt2, fr2⟩ := sub_post S L1 nextId j hcs1' hd2 hb1 P2
          generalize hr2 : E.ops.run ((k, (⟨rn, some nextId, some c, none, lv + 1⟩ : Rt)) :: ctx) r1.1 e = r2 at P2 L2
          generalize hA2 : rec a1.1 j (.run e) = a2 at P2 L2 hd2 hrt2 fr2 hs2
          have hdec : a2.1.decLevel k = setRt a2.1 k ⟨rn, some nextId, some c, none, lv + 1 - 1⟩ := by
            rw [decLevel_form, hrt2, hrt1, hr6]
          have Lf := local_setRt S L2 ⟨rn, some nextId, some c, none, lv + 1 - 1⟩
          have hmF : ({ (({ m with rt := (⟨rn, some nextId, some c, none, lv + 1⟩ : Rt) } : M Sub).setSub nextId r1.1).setSub nextId r2.1
              with rt := (⟨rn, some nextId, some c, none, lv + 1 - 1⟩ : Rt) } : M Sub) =
              ({ m with rt := (⟨rn, some nextId, some c, none, lv + 1 - 1⟩ : Rt) } : M Sub).setSub nextId r2.1 := by
            simp only [MachOf.setSub, updSub_updSub]
          rw [hmF] at Lf
          have hf : ∀ i, i ∉ nodesL (E.nd g) g k → (setRt a2.1 k ⟨rn, some nextId, some c, none, lv + 1 - 1⟩).get i = g.get i := by
            intro i hi
            have hik : i ≠ k := fun e => hi (e ▸ List.mem_cons_self ..)
            have n6 := nodesL_defs S dg6 k
            have n1 := nodesL_defs S (DefsEq.trans' dg6 hd1) k
            rw [get_setRt_ne a2.1 k i _ hik, fr2 i (by rw [n1]; exact hi), fr1 i (by rw [n6]; exact hi),
              get_setRt_ne g k i _ hik]
          have hr1' : E.ops.start ((m.mid, (⟨rn, some nextId, some c, none, lv + 1⟩ : Rt)) :: ctx) x0 = r1 := by
            rw [hmid]; exact hr1
          have hr2' : E.ops.run ((m.mid, (⟨rn, some nextId, some c, none, lv + 1⟩ : Rt)) :: ctx) r1.1 e = r2 := by
            rw [hmid]; exact hr2
          rw [hA0]
          simp only [hs1, hs2, hdec, transition, h2, hm, j1, hs', hr1', hr2']
          refine post_of_local Lf hf true _ _ ?_
          rw [P1.2.2.1, P2.2.2.1, trA_defs dg6 j, trA_defs (DefsEq.trans' dg6 hd1) j]
          simp only [trA_append, trA_probe, trA_lift' g k nextId j (by rw [i2]; exact hs), List.append_assoc, hmid, c3, f2, L.conv.cb]

/-! ### `run()` after the sub-machine block -/

theorem post_prefix {E' : Env Sub} {g a : Arena} {j : Nat} {x x' : Sub} {ar tr : Bool} {atr pre : ATrace}
    {tt tpre : Trace} (P : Post E' g j x a ar atr x' tr tt) (hp : pre = trA (midA g j) tpre) :
    Post E' g j x a ar (pre ++ atr) x' tr (tpre ++ tt) :=
  ⟨P.1, P.2.1, by rw [trA_append, hp, P.2.2.1], P.2.2.2⟩

theorem routeScan_mem (sid : StateId) (self : Nat) (rt : Rt) (ctx : Ctx) (e : Event) :
    ∀ (rs : List Route) (i j : Nat) (r : Route), (routeScan sid self rt ctx e i rs).1 = some (j, r) → r ∈ rs
  | [], i, j, r, h => by simp [routeScan] at h
  | r0 :: rs, i, j, r, h => by
    unfold routeScan at h
    split at h
    · exact List.mem_cons_of_mem _ (routeScan_mem sid self rt ctx e rs (i + 1) j r h)
    · split at h
      · simp only [Option.some.injEq, Prod.mk.injEq] at h; rw [← h.2]; exact List.mem_cons_self ..
      · simp only [] at h
        split at h
        · simp only [Option.some.injEq, Prod.mk.injEq] at h; rw [← h.2]; exact List.mem_cons_self ..
        · exact List.mem_cons_of_mem _ (routeScan_mem sid self rt ctx e rs (i + 1) j r h)

theorem handlerPhase_cs (cs : StateDef Nat) (cs' : StateDef Sub) (h1 : cs'.id = cs.id) (h2 : cs'.events = cs.events)
    (h3 : cs'.dflt = cs.dflt) (self : Nat) (rt : Rt) (ctx : Ctx) (e : Event) :
    handlerPhase cs' self rt ctx e = handlerPhase cs self rt ctx e := by
  unfold handlerPhase; rw [h1, h2, h3]

theorem setRt_back (g : Arena) (k : Nat) :
    setRt g k { (g.get k).rt with cbLevel := (g.get k).rt.cbLevel + 1 - 1 } = g := by
  have : ({ (g.get k).rt with cbLevel := (g.get k).rt.cbLevel + 1 - 1 } : Rt) = (g.get k).rt := by
    rw [Nat.add_sub_cancel]
  rw [this, setRt_same]

theorem own_cons (k : Nat) (kd : Kind) (t : Trace) : own k (here kd :: t) = ⟨k, kd⟩ :: own k t := rfl

theorem handlers_at {E : Env Sub} {rec : Rec} {fu : Nat} (S : SubSim E rec fu) (hr : Rej rec) {g : Arena} {k : Nat}
    {ctx : Ctx} {m : M Sub} (L : Local E fu g k ctx m) (cs : StateDef Nat) (hok : stateOk k (ancOf ctx) cs = true)
    (e : Event) :
    aHandlers rec g k cs e =
      (g, (handlerPhase cs k { (g.get k).rt with cbLevel := (g.get k).rt.cbLevel + 1 } ctx e).1,
        own k (handlerPhase cs k { (g.get k).rt with cbLevel := (g.get k).rt.cbLevel + 1 } ctx e).2) := by
  have hk := L.conv.lt
  have L' := local_setRt S L { (g.get k).rt with cbLevel := (g.get k).rt.cbLevel + 1 }
  have hsc : ∀ sc, scriptOk k (ancOf ctx) sc = true →
      aScript rec k (setRt g k { (g.get k).rt with cbLevel := (g.get k).rt.cbLevel + 1 }) sc =
        (setRt g k { (g.get k).rt with cbLevel := (g.get k).rt.cbLevel + 1 },
          own k (runScript k { (g.get k).rt with cbLevel := (g.get k).rt.cbLevel + 1 } ctx sc)) := by
    intro sc h
    have := aScript_sim rec hr k ctx sc _ L'.conv.lt
      (by rw [rt_setRt_self g k _ hk]; exact Nat.succ_ne_zero _) L'.ctxOk h
    rw [rt_setRt_self g k _ hk] at this; exact this
  have hback := setRt_back g k
  simp only [stateOk, Bool.and_eq_true, List.all_eq_true] at hok
  unfold aHandlers handlerPhase
  rw [incLevel_form]
  cases hf : cs.events.find? (fun p => p.1 == e.id) with
  | some p =>
    have hp := hok.1.2 p (List.mem_of_find?_eq_some hf)
    simp only [hsc _ hp, dec_setRt g k _ hk, hback, own_cons]
  | none =>
    cases hd : cs.dflt with
    | some h =>
      have hp := hok.2; rw [hd] at hp
      simp only [hsc _ hp, dec_setRt g k _ hk, hback, own_cons]
    | none =>
      simp only [dec_setRt g k _ hk, hback]; rfl

theorem select_at {E : Env Sub} {rec : Rec} {fu : Nat} (S : SubSim E rec fu) (hr : Rej rec) {g : Arena} {k : Nat}
    {ctx : Ctx} {m : M Sub} (L : Local E fu g k ctx m) (c : StateId) (hcur : (g.get k).rt.curr = some c)
    (e : Event) (hret : Int) (hneg : hret < 0) :
    aSelect rec g k e hret =
      (g, (match (routeScan ((g.get k).stateOf c).id k { (g.get k).rt with cbLevel := (g.get k).rt.cbLevel + 1 } ctx e 0
              ((g.get k).stateOf c).routes).1 with
            | none => none
            | some (i, r) => some (r.to, some i, r.action)),
        own k (routeScan ((g.get k).stateOf c).id k { (g.get k).rt with cbLevel := (g.get k).rt.cbLevel + 1 } ctx e 0
              ((g.get k).stateOf c).routes).2) := by
  have hk := L.conv.lt
  have L' := local_setRt S L { (g.get k).rt with cbLevel := (g.get k).rt.cbLevel + 1 }
  have hok := stateOk_of_recOk L.recOk c
  simp only [stateOk, Bool.and_eq_true] at hok
  have hrs := aRouteScan_sim rec hr k ctx ((g.get k).stateOf c).id e _ L'.conv.lt
    (by rw [rt_setRt_self g k _ hk]; exact Nat.succ_ne_zero _) L'.ctxOk ((g.get k).stateOf c).routes 0 hok.1.1.2
  rw [rt_setRt_self g k _ hk] at hrs
  have hback := setRt_back g k
  unfold aSelect
  rw [if_pos hneg, curState_of_curr hcur]
  simp only []
  rw [incLevel_form, hrs]
  generalize routeScan ((g.get k).stateOf c).id k { (g.get k).rt with cbLevel := (g.get k).rt.cbLevel + 1 } ctx e 0
    ((g.get k).stateOf c).routes = X
  obtain ⟨X1, X2⟩ := X
  cases X1 with
  | none => simp only [dec_setRt g k _ hk, hback]
  | some ir => simp only [dec_setRt g k _ hk, hback]

theorem runOwn_sim (E : Env Sub) (rec : Rec) (fu : Nat) (S : SubSim E rec fu) (hr : Rej rec) : RunOwnSim E rec fu := by
  intro g k ctx m c e hP hI hB hc h0
  have T := fun nextId ridx action => transition_sim E rec fu S hr g k ctx m c e nextId ridx action hP hI hB hc h0
  have L := pre_local S hP
  have hcidA : ((g.get k).stateOf c).id = c :=
    (pre_wfm hP (by rw [← L.conv.rt]; exact h0)).2 c (by rw [← L.conv.rt]; exact hc)
  have hk := L.conv.lt
  have hmid := L.conv.mid
  have hR : (g.get k).rt = m.rt := L.conv.rt.symm
  obtain ⟨c1, c2, c3, c4, c5, c6, c7⟩ := cs_fields (stateOf_conv L.conv c)
  have hokc := stateOk_of_recOk L.recOk c
  have hH := handlers_at S hr L ((g.get k).stateOf c) hokc e
  simp only [stateOk, Bool.and_eq_true, List.all_eq_true] at hokc
  have hcurA : (g.get k).rt.curr = some c := by rw [hR]; exact hc
  have hph := handlerPhase_cs ((g.get k).stateOf c) (m.stateOf c) c1 c5 c6 k
    { m.rt with cbLevel := m.rt.cbLevel + 1 } ctx e
  have hHt := (trA_handler g k ((g.get k).stateOf c) k { m.rt with cbLevel := m.rt.cbLevel + 1 } ctx e).symm
  have hXt := (trA_routeScan g k c k { m.rt with cbLevel := m.rt.cbLevel + 1 } ctx e
    ((g.get k).stateOf c).routes 0).symm
  have hXm := routeScan_mem c k { m.rt with cbLevel := m.rt.cbLevel + 1 } ctx e ((g.get k).stateOf c).routes 0
  simp only [aRunOwn, runOwn, hmid, hph, c4, hH, hR]
  generalize handlerPhase ((g.get k).stateOf c) k { m.rt with cbLevel := m.rt.cbLevel + 1 } ctx e = H at hHt
  by_cases hneg : H.1 < 0
  · simp only [select_at S hr L c hcurA e H.1 hneg, hcidA, hR, if_pos hneg]
    generalize routeScan c k { m.rt with cbLevel := m.rt.cbLevel + 1 } ctx e 0 ((g.get k).stateOf c).routes = X at hXt hXm
    obtain ⟨X1, X2⟩ := X
    cases X1 with
    | none =>
      simp only []
      refine post_of_local L (fun i _ => rfl) false _ _ ?_
      rw [trA_append, ← hHt, ← hXt]
    | some ir =>
      obtain ⟨i, r⟩ := ir
      simp only []
      have hmem := hXm i r rfl
      have hro := hokc.1.1.2 r hmem
      simp only [routeOk, Bool.and_eq_true] at hro
      refine post_prefix (T r.to (some i) r.action hro.2) ?_
      rw [trA_append, ← hHt, ← hXt]
  · have hsel : aSelect rec g k e H.1 = (g, some (H.1, none, none), []) := by
      unfold aSelect; rw [if_neg hneg]
    simp only [hsel, if_neg hneg, List.append_nil]
    exact post_prefix (T H.1 none none rfl) hHt

end AT
end Tbox.C16
