/-
C16 — enter/exit balance at every nesting level.  `ownDelta s T` = (#enter s − #exit s) among
the events of the machine itself in `T`; `subTrace sid T` = the events of the sub-machine of
state `sid` (one level down).  `BalL`: for every state `s`, `ownDelta s T = [s is current]`, and
the same recursively for every sub-machine with its part of the trace.
-/
import TboxModel.C16.InvProofs
set_option linter.unusedSimpArgs false
set_option linter.unusedVariables false
namespace Tbox.C16

def evDelta (s : StateId) (ev : Ev) : Int :=
  match ev.path, ev.kind with
  | [], .enter s' _ _ => if s' = s then 1 else 0
  | [], .exit s' _ _ => if s' = s then -1 else 0
  | _, _ => 0

def ownDelta (s : StateId) : Trace → Int
  | [] => 0
  | ev :: t => evDelta s ev + ownDelta s t

def subTrace (sid : StateId) : Trace → Trace
  | [] => []
  | ev :: t =>
    match ev.path with
    | p :: ps => if p = sid then ⟨ps, ev.kind⟩ :: subTrace sid t else subTrace sid t
    | [] => subTrace sid t

theorem ownDelta_append (s : StateId) (a b : Trace) : ownDelta s (a ++ b) = ownDelta s a + ownDelta s b := by
  induction a with
  | nil => simp [ownDelta]
  | cons ev a ih => simp [ownDelta, ih, Int.add_assoc]

theorem subTrace_append (sid : StateId) (a b : Trace) : subTrace sid (a ++ b) = subTrace sid a ++ subTrace sid b := by
  induction a with
  | nil => simp [subTrace]
  | cons ev a ih =>
    simp only [List.cons_append, subTrace]
    split
    · split <;> simp [ih]
    · exact ih

theorem ownDelta_lift (s c : StateId) (t : Trace) : ownDelta s (lift c t) = 0 := by
  induction t with
  | nil => rfl
  | cons ev t ih =>
    simp only [lift, List.map_cons, ownDelta, evDelta] at ih ⊢
    simp [ih]

theorem subTrace_lift_same (c : StateId) (t : Trace) : subTrace c (lift c t) = t := by
  induction t with
  | nil => rfl
  | cons ev t ih =>
    simp only [lift, List.map_cons, subTrace] at ih ⊢
    simp [ih]

theorem subTrace_lift_ne (sid c : StateId) (h : c ≠ sid) (t : Trace) : subTrace sid (lift c t) = [] := by
  induction t with
  | nil => rfl
  | cons ev t ih =>
    simp only [lift, List.map_cons, subTrace] at ih ⊢
    simp [ih, h]

/-- events of the machine itself that are neither enter nor exit -/
def Quiet (t : Trace) : Prop :=
  ∀ ev ∈ t, ev.path = [] ∧ (match ev.kind with | .enter .. => False | .exit .. => False | _ => True)

theorem quiet_nil : Quiet [] := by intro ev h; cases h
theorem quiet_cons {ev : Ev} {t : Trace} (h1 : ev.path = [] ∧ (match ev.kind with | .enter .. => False | .exit .. => False | _ => True))
    (h2 : Quiet t) : Quiet (ev :: t) := by
  intro e he
  cases he with
  | head => exact h1
  | tail _ h => exact h2 e h
theorem quiet_append {a b : Trace} (h1 : Quiet a) (h2 : Quiet b) : Quiet (a ++ b) := by
  intro e he
  rcases List.mem_append.1 he with h | h
  · exact h1 e h
  · exact h2 e h

theorem quiet_ownDelta (s : StateId) (t : Trace) (h : Quiet t) : ownDelta s t = 0 := by
  induction t with
  | nil => rfl
  | cons ev t ih =>
    have h1 := h ev (List.mem_cons_self ..)
    have h2 : Quiet t := fun e he => h e (List.mem_cons_of_mem _ he)
    simp only [ownDelta, ih h2]
    obtain ⟨p, k⟩ := ev
    simp only at h1
    obtain ⟨hp, hk⟩ := h1
    subst hp
    cases k <;> simp_all [evDelta]

theorem quiet_subTrace (sid : StateId) (t : Trace) (h : Quiet t) : subTrace sid t = [] := by
  induction t with
  | nil => rfl
  | cons ev t ih =>
    have h1 := h ev (List.mem_cons_self ..)
    have h2 : Quiet t := fun e he => h e (List.mem_cons_of_mem _ he)
    simp only [subTrace, h1.1, ih h2]

theorem scriptCall_notEE (rt : Rt) (t : Option Nat) (c : Call) :
    match scriptCall rt t c with | .enter .. => False | .exit .. => False | _ => True := by
  cases c <;> simp only [scriptCall]
  · cases startReject rt <;> trivial
  · cases stopReject rt <;> trivial
  · cases stopReject rt
    · trivial
    · cases startReject rt <;> trivial
  · cases runReject rt <;> trivial

theorem scriptOp_notEE (self : Nat) (rt : Rt) (ctx : Ctx) (op : SOp) :
    match scriptOp self rt ctx op with | .enter .. => False | .exit .. => False | _ => True := by
  cases op with
  | obs t => simp only [scriptOp]; cases targetRt self rt ctx t <;> trivial
  | call t c =>
    simp only [scriptOp]
    cases targetRt self rt ctx t with
    | none => trivial
    | some r => exact scriptCall_notEE r t c

theorem runScript_quiet (self : Nat) (rt : Rt) (ctx : Ctx) (sc : Script) : Quiet (runScript self rt ctx sc) := by
  intro ev hev
  unfold runScript at hev
  rcases List.mem_map.1 hev with ⟨op, _, rfl⟩
  exact ⟨rfl, scriptOp_notEE self rt ctx op⟩

theorem probe_subTrace (sid : StateId) (mk : Bool → Kind) (p : Option Script) (self : Nat) (rt : Rt) (ctx : Ctx) :
    subTrace sid (probe mk p self rt ctx) = [] := by
  unfold probe
  simp only [subTrace, here]
  cases p with
  | none => rfl
  | some sc => exact quiet_subTrace sid _ (runScript_quiet self rt ctx sc)

theorem probe_ownDelta (s : StateId) (mk : Bool → Kind) (p : Option Script) (self : Nat) (rt : Rt) (ctx : Ctx) :
    ownDelta s (probe mk p self rt ctx) = evDelta s (here (mk p.isSome)) := by
  unfold probe
  simp only [ownDelta]
  cases p with
  | none => simp [ownDelta]
  | some sc => simp [quiet_ownDelta s _ (runScript_quiet self rt ctx sc)]

theorem handlerPhase_quiet {Sub : Type} (cs : StateDef Sub) (self : Nat) (rt : Rt) (ctx : Ctx) (e : Event) : Quiet (handlerPhase cs self rt ctx e).2 := by
  unfold handlerPhase
  split
  · exact quiet_cons ⟨rfl, trivial⟩ (runScript_quiet _ _ _ _)
  · split
    · exact quiet_cons ⟨rfl, trivial⟩ (runScript_quiet _ _ _ _)
    · exact quiet_nil

theorem routeScan_quiet (sid : StateId) (self : Nat) (rt : Rt) (ctx : Ctx) (e : Event) (i : Nat) (rs : List Route) :
    Quiet (routeScan sid self rt ctx e i rs).2 := by
  induction rs generalizing i with
  | nil => exact quiet_nil
  | cons r rs ih =>
    unfold routeScan
    split
    · exact ih _
    · split
      · exact quiet_nil
      · rename_i g hg
        have ht : Quiet (here (.guard sid i e (g.eval e)) :: runScript self rt ctx g.script) :=
          quiet_cons ⟨rfl, trivial⟩ (runScript_quiet _ _ _ _)
        split
        · exact ht
        · exact quiet_append ht (ih _)

section
variable {Sub : Type} {I : Sub → Prop} {B : Sub → Trace → Prop} {ops : SubOps Ctx Sub}

def cur (m : M Sub) (s : StateId) : Int := if m.rt.curr = some s then 1 else 0

def BalL (B : Sub → Trace → Prop) (m : M Sub) (T : Trace) : Prop :=
  (∀ s, ownDelta s T = cur m s) ∧
  ∀ sid st x, m.findState sid = some st → st.sub = some x → B x (subTrace sid T)

structure SubBal (I : Sub → Prop) (B : Sub → Trace → Prop) (ops : SubOps Ctx Sub) : Prop where
  start : ∀ ctx x T, AllBusy ctx → I x → B x T → B (ops.start ctx x).1 (T ++ (ops.start ctx x).2.2)
  stop : ∀ ctx x T, AllBusy ctx → I x → B x T → B (ops.stop ctx x).1 (T ++ (ops.stop ctx x).2)
  run : ∀ ctx x e T, AllBusy ctx → I x → B x T → B (ops.run ctx x e).1 (T ++ (ops.run ctx x e).2.2)

/-- the sub-machine of state `c` moved from `x0` to `x1` producing `u` -/
theorem bal_delegate {m : M Sub} {T : Trace} (hb : BalL B m T) (c : StateId) (x1 : Sub) (u : Trace)
    (h1 : B x1 (subTrace c T ++ u)) :
    BalL B (m.setSub c x1) (T ++ lift c u) := by
  refine ⟨?_, ?_⟩
  · intro s
    rw [ownDelta_append, ownDelta_lift, Int.add_zero]
    exact hb.1 s
  · intro sid st x hf hs
    rw [subTrace_append]
    rw [findState_setSub] at hf
    by_cases h : sid = c
    · subst h
      simp only [if_true] at hf
      cases hm : m.findState sid with
      | none => simp [hm] at hf
      | some s0 =>
        simp [hm] at hf
        subst hf
        simp at hs
        subst hs
        rw [subTrace_lift_same]; exact h1
    · simp only [h, if_false] at hf
      rw [subTrace_lift_ne sid c (fun h' => h h'.symm), List.append_nil]
      exact hb.2 sid st x hf hs

/-- the machine itself moved: only its own events, run-time record replaced -/
theorem bal_own {m : M Sub} {T : Trace} (hb : BalL B m T) (rt : Rt) (t : Trace)
    (hsub : ∀ sid, subTrace sid t = [])
    (hd : ∀ s, ownDelta s t = (if rt.curr = some s then 1 else 0) - cur m s) :
    BalL B { m with rt := rt } (T ++ t) := by
  refine ⟨?_, ?_⟩
  · intro s
    rw [ownDelta_append, hb.1 s, hd s]
    simp only [cur]
    omega
  · intro sid st x hf hs
    rw [subTrace_append, hsub, List.append_nil]
    exact hb.2 sid st x hf hs

theorem bal_quiet {m : M Sub} {T : Trace} (hb : BalL B m T) (t : Trace) (hq : Quiet t) : BalL B m (T ++ t) := by
  refine ⟨?_, ?_⟩
  · intro s; rw [ownDelta_append, quiet_ownDelta s t hq, Int.add_zero]; exact hb.1 s
  · intro sid st x hf hs
    rw [subTrace_append, quiet_subTrace sid t hq, List.append_nil]
    exact hb.2 sid st x hf hs

theorem cur_eq (m : M Sub) (c s : StateId) (hc : m.rt.curr = some c) : cur m s = if c = s then 1 else 0 := by
  simp [cur, hc]

theorem start_bal (hs : SubInv I ops) (hbS : SubBal I B ops) (ctx : Ctx) (hctx : AllBusy ctx) (m : M Sub) (hm : InvL I ops m) (T : Trace)
    (hb : BalL B m T) : BalL B (start ops ctx m).1 (T ++ (start ops ctx m).2.2) := by
  unfold start
  rw [startReject_ok hm.1]
  by_cases hr : m.rt.running = true
  · simp only [hr, if_true, List.append_nil]; exact hb
  · simp only [hr, if_false, Bool.false_eq_true]
    have hcur := curr_of_not_running hm.1 hr
    cases hf : m.findState m.init with
    | none => simp only [List.append_nil]; exact hb
    | some st =>
      simp only []
      have hid := findState_id _ _ _ hf
      have hb2 := bal_own hb ⟨true, some st.id, m.rt.last, m.rt.next, m.rt.cbLevel + 1 - 1⟩
        (probe (.enter st.id ev0) st.enter m.mid ⟨true, some st.id, m.rt.last, m.rt.next, m.rt.cbLevel + 1⟩ ctx)
        (fun sid => probe_subTrace sid _ _ _ _ _)
        (by intro s; rw [probe_ownDelta]; simp [evDelta, here, cur, hcur])
      cases hsb : st.sub with
      | none => simp only []; exact hb2
      | some sub =>
        simp only []
        have hI := (hm.2 m.init st sub hf hsb).1
        have hBx := hb2.2 st.id st sub (by rw [hid]; exact hf) hsb
        have hdown : AllBusy ((m.mid, (⟨true, some st.id, m.rt.last, m.rt.next, m.rt.cbLevel + 1⟩ : Rt)) :: ctx) :=
          allBusy_cons m.mid ⟨rfl, by simp⟩ hctx
        have := bal_delegate hb2 st.id _ _ (hbS.start _ sub _ hdown hI hBx)
        rw [List.append_assoc] at this
        exact this

theorem stop_bal (hs : SubInv I ops) (hbS : SubBal I B ops) (ctx : Ctx) (hctx : AllBusy ctx) (m : M Sub) (hm : InvL I ops m) (T : Trace)
    (hb : BalL B m T) : BalL B (stop ops ctx m).1 (T ++ (stop ops ctx m).2) := by
  unfold stop
  rw [stopReject_ok hm.1]
  by_cases hr : m.rt.running = true
  · simp only [hr, if_true]
    obtain ⟨c, hc⟩ := curr_of_running hm.1 hr
    simp only [hc]
    cases hsb : (m.stateOf c).sub with
    | none =>
      simp only [List.nil_append]
      exact bal_own hb ⟨false, none, m.rt.last, m.rt.next, m.rt.cbLevel + 1 - 1⟩ _
        (fun sid => probe_subTrace sid _ _ _ _ _)
        (by intro s; rw [probe_ownDelta, cur_eq m c s hc]; simp [evDelta, here]; split <;> simp)
    | some sub =>
      simp only []
      have hfind := find_of_stateOf_sub m c sub hsb
      have hI := (hm.2 c _ sub hfind hsb).1
      have hBx := hb.2 c _ sub hfind hsb
      have hdown : AllBusy ((m.mid, (⟨true, some c, m.rt.last, m.rt.next, m.rt.cbLevel + 1⟩ : Rt)) :: ctx) :=
        allBusy_cons m.mid ⟨rfl, by simp⟩ hctx
      have hb1 := bal_delegate hb c _ _ (hbS.stop _ sub _ hdown hI hBx)
      have := bal_own hb1 ⟨false, none, m.rt.last, m.rt.next, m.rt.cbLevel + 1 - 1⟩
        (probe (.exit c ev0) (m.stateOf c).exit m.mid ⟨true, some c, m.rt.last, m.rt.next, m.rt.cbLevel + 1⟩ ctx)
        (fun sid => probe_subTrace sid _ _ _ _ _)
        (by intro s; rw [probe_ownDelta, cur_eq _ c s (by simpa using hc)]; simp [evDelta, here]; split <;> simp)
      rw [List.append_assoc] at this
      exact this
  · simp only [hr, if_false, Bool.false_eq_true, List.append_nil]
    exact hb

theorem transition_bal (hs : SubInv I ops) (hbS : SubBal I B ops) (ctx : Ctx) (hctx : AllBusy ctx) (m : M Sub) (hm : InvL I ops m) (T : Trace)
    (hb : BalL B m T) (c : StateId) (hr : m.rt.running = true) (hc : m.rt.curr = some c)
    (e : Event) (nextId : StateId) (ridx : Option Nat) (action : Option Script) :
    BalL B (transition ops ctx m c e nextId ridx action).1 (T ++ (transition ops ctx m c e nextId ridx action).2.2) := by
  unfold transition
  cases hres : m.resolve nextId with
  | none =>
    simp only [List.append_nil]
    exact ⟨hb.1, hb.2⟩
  | some ts =>
    simp only []
    have hD := bal_own hb ⟨m.rt.running, some ts.id, some c, none, m.rt.cbLevel + 1 - 1⟩
      (probe (.exit c e) (m.stateOf c).exit m.mid ⟨m.rt.running, m.rt.curr, m.rt.last, some ts.id, m.rt.cbLevel + 1⟩ ctx
        ++ probe (.action c ridx e) action m.mid ⟨m.rt.running, none, some c, some ts.id, m.rt.cbLevel + 1⟩ ctx
        ++ probe (.enter ts.id e) ts.enter m.mid ⟨m.rt.running, some ts.id, some c, none, m.rt.cbLevel + 1⟩ ctx
        ++ probe (.notify c ts.id e) m.cb m.mid ⟨m.rt.running, some ts.id, some c, none, m.rt.cbLevel + 1⟩ ctx)
      (by intro sid; simp only [subTrace_append, probe_subTrace, List.append_nil])
      (by
        intro s
        simp only [ownDelta_append, probe_ownDelta, cur_eq m c s hc]
        simp [evDelta, here]
        split <;> split <;> simp)
    cases hsb : ts.sub with
    | none => simp only []; exact hD
    | some sub =>
      simp only []
      have hfind := resolve_sub m nextId ts sub hres hsb
      have hI := (hm.2 ts.id ts sub hfind hsb).1
      have hdown : AllBusy ((m.mid, (⟨m.rt.running, some ts.id, some c, none, m.rt.cbLevel + 1⟩ : Rt)) :: ctx) :=
        allBusy_cons m.mid ⟨hr, by simp⟩ hctx
      have hI1 := (hs.start _ sub hdown hI).1
      have hBx := hD.2 ts.id ts sub hfind hsb
      have hB1 := hbS.start _ sub _ hdown hI hBx
      have hB2 := hbS.run _ _ e _ hdown hI1 hB1
      rw [List.append_assoc] at hB2
      have := bal_delegate hD ts.id _ _ hB2
      rw [List.append_assoc] at this
      exact this

theorem runOwn_bal (hs : SubInv I ops) (hbS : SubBal I B ops) (ctx : Ctx) (hctx : AllBusy ctx) (m : M Sub) (hm : InvL I ops m) (T : Trace)
    (hb : BalL B m T) (c : StateId) (hr : m.rt.running = true) (hc : m.rt.curr = some c) (e : Event) :
    BalL B (runOwn ops ctx m c e).1 (T ++ (runOwn ops ctx m c e).2.2) := by
  unfold runOwn
  have hH := handlerPhase_quiet (m.stateOf c) m.mid ⟨m.rt.running, m.rt.curr, m.rt.last, m.rt.next, m.rt.cbLevel + 1⟩ ctx e
  have hS := routeScan_quiet c m.mid ⟨m.rt.running, m.rt.curr, m.rt.last, m.rt.next, m.rt.cbLevel + 1⟩ ctx e 0 (m.stateOf c).routes
  simp only []
  split
  · split
    · exact bal_quiet hb _ (quiet_append hH hS)
    · rename_i i r _
      have h1 := bal_quiet hb _ (quiet_append hH hS)
      have := transition_bal hs hbS ctx hctx m hm _ h1 c hr hc e r.to (some i) r.action
      rw [List.append_assoc] at this
      exact this
  · have h1 := bal_quiet hb _ hH
    have := transition_bal hs hbS ctx hctx m hm _ h1 c hr hc e
      (handlerPhase (m.stateOf c) m.mid ⟨m.rt.running, m.rt.curr, m.rt.last, m.rt.next, m.rt.cbLevel + 1⟩ ctx e).1 none none
    rw [List.append_assoc] at this
    exact this

theorem run_bal (hs : SubInv I ops) (hbS : SubBal I B ops) (ctx : Ctx) (hctx : AllBusy ctx) (m : M Sub) (hm : InvL I ops m) (T : Trace)
    (hb : BalL B m T) (e : Event) : BalL B (run ops ctx m e).1 (T ++ (run ops ctx m e).2.2) := by
  unfold run
  rw [runReject_ok hm.1]
  by_cases hr : m.rt.running = true
  · simp only [hr, if_true]
    obtain ⟨c, hc⟩ := curr_of_running hm.1 hr
    simp only [hc]
    cases hsb : (m.stateOf c).sub with
    | none => simp only []; exact runOwn_bal hs hbS ctx hctx m hm T hb c hr hc e
    | some sub =>
      simp only []
      have hfind := find_of_stateOf_sub m c sub hsb
      have hI := (hm.2 c _ sub hfind hsb).1
      have hdown : AllBusy ((m.mid, (⟨true, some c, m.rt.last, m.rt.next, m.rt.cbLevel + 1⟩ : Rt)) :: ctx) :=
        allBusy_cons m.mid ⟨rfl, by simp⟩ hctx
      have h1 := hs.run _ sub e hdown hI
      have hBx := hb.2 c _ sub hfind hsb
      have hB1 := hbS.run _ sub e _ hdown hI hBx
      split
      · exact bal_delegate hb c _ _ hB1
      · have h2 := hs.stop _ _ hdown h1.1
        have hB2 := hbS.stop _ _ _ hdown h1.1 hB1
        rw [List.append_assoc] at hB2
        have hb1 := bal_delegate hb c _ _ hB2
        have hm1 := invL_setSub (c := c) hm h2.1 (fun _ => h2.2.1)
        have := runOwn_bal hs hbS ctx hctx _ hm1 _ hb1 c (by simpa using hr) (by simpa using hc) e
        rw [List.append_assoc] at this
        exact this
  · simp only [hr, if_false, Bool.false_eq_true, List.append_nil]
    exact hb

theorem level_subBal (hs : SubInv I ops) (hbS : SubBal I B ops) :
    SubBal (InvL I ops) (BalL B) (levelOps ops) where
  start := fun ctx m T hctx hm hb => start_bal hs hbS ctx hctx m hm T hb
  stop := fun ctx m T hctx hm hb => stop_bal hs hbS ctx hctx m hm T hb
  run := fun ctx m e T hctx hm hb => run_bal hs hbS ctx hctx m hm T hb e

end

/-- balance at every nesting level of a machine of depth `n` -/
def Bal : (n : Nat) → Mach n → Trace → Prop
  | 0 => BalL (fun (_ : Empty) _ => True)
  | n + 1 => BalL (Bal n)

theorem empty_subBal : SubBal (fun (_ : Empty) => True) (fun (_ : Empty) _ => True) emptyOps :=
  ⟨fun _ x => x.elim, fun _ x => x.elim, fun _ x => x.elim⟩

theorem bal_all : ∀ n, SubBal (Inv n) (Bal n) (subOps n)
  | 0 => level_subBal empty_subInv empty_subBal
  | n + 1 => level_subBal (inv_all n) (bal_all n)

end Tbox.C16
