/-
C16 — helper definitions and lemmas about call sequences (`exec`): fresh hierarchies, one API
call preserves the invariant / refines the spec / keeps the balance, stopped machines have
exited everything.
-/
import TboxModel.C16.Refine
import TboxModel.C16.Balance
set_option linter.unusedSimpArgs false
set_option linter.unusedVariables false
namespace Tbox.C16

/-! ### fresh machines (what the harness builds: nothing started yet) -/

def FreshL {Sub : Type} (F : Sub → Prop) (m : M Sub) : Prop :=
  m.rt = {} ∧ ∀ sid st x, m.findState sid = some st → st.sub = some x → F x

def Fresh : (n : Nat) → Mach n → Prop
  | 0 => FreshL (fun (_ : Empty) => True)
  | n + 1 => FreshL (Fresh n)

theorem fresh_inv : ∀ n (m : Mach n), Fresh n m → Inv n m ∧ (subOps n).isRunning m = false ∧ Bal n m []
  | 0, m, h => by
    refine ⟨⟨by rw [h.1]; decide, fun sid st x _ _ => x.elim⟩, by show m.rt.running = false; rw [h.1], ?_, fun sid st x _ _ => x.elim⟩
    intro s; simp [ownDelta, cur, h.1]
  | n + 1, m, h => by
    refine ⟨⟨by rw [h.1]; decide, ?_⟩, by show m.rt.running = false; rw [h.1], ?_, ?_⟩
    · intro sid st x hf hs
      have := fresh_inv n x (h.2 sid st x hf hs)
      exact ⟨this.1, fun _ => this.2.1⟩
    · intro s; simp [ownDelta, cur, h.1]
    · intro sid st x hf hs
      exact (fresh_inv n x (h.2 sid st x hf hs)).2.2

/-! ### one API call on the root -/

theorem applyCall_inv (n : Nat) (m : Mach n) (c : Call) (hm : Inv n m) :
    Inv n (applyCall n m c).1 ∧ AllRejected (applyCall n m c).2.2 := by
  have H := inv_all n
  cases c with
  | start => exact H.start [] m allBusy_nil hm
  | stop => exact ⟨(H.stop [] m allBusy_nil hm).1, (H.stop [] m allBusy_nil hm).2.2⟩
  | restart =>
    have h1 := H.stop [] m allBusy_nil hm
    have h2 := H.start [] _ allBusy_nil h1.1
    exact ⟨h2.1, allRejected_append.2 ⟨h1.2.2, h2.2⟩⟩
  | run e => exact H.run [] m e allBusy_nil hm
  | defn i => exact ⟨hm, allRejected_nil⟩

theorem applyCall_ref (n : Nat) (m : Mach n) (c : Call) (hm : Inv n m) :
    (abs n (applyCall n m c).1, (applyCall n m c).2) = Spec.applyCall n (abs n m) c := by
  have H := inv_all n
  have R := ref_all n
  cases c with
  | start => exact R.start [] m allBusy_nil hm
  | stop =>
    have := R.stop [] m allBusy_nil hm
    simp only [applyCall, Spec.applyCall]
    rw [show ([] : Spec.SCtx) = absCtx [] from rfl, ← this]
  | restart =>
    have h1 := R.stop [] m allBusy_nil hm
    have h2 := R.start [] _ allBusy_nil (H.stop [] m allBusy_nil hm).1
    simp only [applyCall, Spec.applyCall]
    rw [show ([] : Spec.SCtx) = absCtx [] from rfl, ← h1]; simp only []; rw [← h2]
  | run e => exact R.run [] m e allBusy_nil hm
  | defn i => rfl

theorem rootView_abs : ∀ (n : Nat) (m : Mach n), Inv n m → (rootRt n m).view = Spec.view (Spec.rootRt n (abs n m))
  | 0, m, h => by
    show m.rt.view = Spec.view (absRt m.rt)
    simp [Rt.view, Spec.view, absRt, h.1.1, h.1.2.1, optInt]
  | n + 1, m, h => by
    show m.rt.view = Spec.view (absRt m.rt)
    simp [Rt.view, Spec.view, absRt, h.1.1, h.1.2.1, optInt]


def allTrace (l : List (Bool × Trace × View)) : Trace := l.flatMap (fun r => r.2.1)

theorem exec_bal (n : Nat) (m : Mach n) (hm : Inv n m) (T : Trace) (hb : Bal n m T) (calls : List Call) :
    Bal n (exec n m calls).1 (T ++ allTrace (exec n m calls).2) := by
  induction calls generalizing m T with
  | nil => simpa [exec, allTrace] using hb
  | cons c cs ih =>
    have H := inv_all n
    have BL := bal_all n
    have h1 := applyCall_inv n m c hm
    have hb1 : Bal n (applyCall n m c).1 (T ++ (applyCall n m c).2.2) := by
      cases c with
      | start => exact BL.start [] m T allBusy_nil hm hb
      | stop => exact BL.stop [] m T allBusy_nil hm hb
      | restart =>
        have := BL.start [] _ _ allBusy_nil (H.stop [] m allBusy_nil hm).1 (BL.stop [] m T allBusy_nil hm hb)
        rw [List.append_assoc] at this
        exact this
      | run e => exact BL.run [] m e T allBusy_nil hm hb
      | defn i => simpa [applyCall] using hb
    have := ih _ h1.1 _ hb1
    simp only [exec, allTrace, List.flatMap_cons] at this ⊢
    rw [List.append_assoc] at this
    exact this


/-- every state entered has been exited, at every level -/
def AllExitedL {Sub : Type} (A : Sub → Trace → Prop) (m : M Sub) (T : Trace) : Prop :=
  (∀ s, ownDelta s T = 0) ∧ ∀ sid st x, m.findState sid = some st → st.sub = some x → A x (subTrace sid T)

def AllExited : (n : Nat) → Mach n → Trace → Prop
  | 0 => AllExitedL (fun (_ : Empty) _ => True)
  | n + 1 => AllExitedL (AllExited n)

theorem stopped_allExited : ∀ (n : Nat) (m : Mach n) (T : Trace), Inv n m → (subOps n).isRunning m = false →
    Bal n m T → AllExited n m T
  | 0, m, T, hi, hr, hb => by
    have hr' : ¬ m.rt.running = true := by have : m.rt.running = false := hr; simp [this]
    have hc := curr_of_not_running hi.1 hr'
    exact ⟨fun s => by rw [hb.1 s]; simp [cur, hc], fun sid st x _ _ => x.elim⟩
  | n + 1, m, T, hi, hr, hb => by
    have hr' : ¬ m.rt.running = true := by have : m.rt.running = false := hr; simp [this]
    have hc := curr_of_not_running hi.1 hr'
    refine ⟨fun s => by rw [hb.1 s]; simp [cur, hc], ?_⟩
    intro sid st x hf hs
    have h2 := hi.2 sid st x hf hs
    exact stopped_allExited n x _ h2.1 (h2.2 (by simp [hc])) (hb.2 sid st x hf hs)


/-- a sequence ending in `stop` leaves the root stopped (so the hypothesis above is met) -/
theorem stop_stops (n : Nat) (m : Mach n) (hm : Inv n m) :
    (rootRt n (applyCall n m .stop).1).running = false := by
  have := ((inv_all n).stop [] m allBusy_nil hm).2.1
  cases n with
  | zero => exact this
  | succ k => exact this

end Tbox.C16
