/-
C16 — helper lemmas for `C16_guard_eval_order`: which guards one `find_if` over the routes
evaluates, in which order and how often.
-/
import TboxModel.C16.Order
set_option linter.unusedSimpArgs false
set_option linter.unusedVariables false
namespace Tbox.C16

/-- a guard evaluation of the scanning machine itself: (route index, result) -/
def guardOf (ev : Ev) : Option (Nat × Bool) :=
  match ev.path, ev.kind with
  | [], .guard _ i _ r => some (i, r)
  | _, _ => none

/-- the guards of the candidate routes (event matches or wildcard) among the first `upto` routes,
in registration order, each once, with the value of its truth table on `e` -/
def expectedEvals (e : Event) (k : Nat) (rs : List Route) (upto : Nat) : List (Nat × Bool) :=
  ((Spec.indexed k rs).take upto).filterMap fun p =>
    if p.2.matchesEvent e then p.2.guard.map (fun g => (p.1, g.eval e)) else none

/-- how many routes the scan looked at: up to and including the selected one, else all -/
def scanned (sel : Option (Nat × Route)) (k len : Nat) : Nat :=
  match sel with
  | some (i, _) => i - k + 1
  | none => len

theorem scriptCall_notGuard (rt : Rt) (t : Option Nat) (c : Call) : guardOf (here (scriptCall rt t c)) = none := by
  cases c <;> simp only [scriptCall] <;> (repeat' split) <;> rfl

theorem scriptOp_notGuard (self : Nat) (rt : Rt) (ctx : Ctx) (op : SOp) : guardOf (here (scriptOp self rt ctx op)) = none := by
  cases op with
  | obs t => simp only [scriptOp]; split <;> rfl
  | call t c => simp only [scriptOp]; split
                · exact scriptCall_notGuard _ _ _
                · rfl

theorem runScript_noGuards (self : Nat) (rt : Rt) (ctx : Ctx) (sc : Script) : (runScript self rt ctx sc).filterMap guardOf = [] := by
  unfold runScript
  induction sc with
  | nil => rfl
  | cons op sc ih => simp only [List.map_cons, List.filterMap_cons, scriptOp_notGuard]; exact ih

theorem routeScan_guards (sid : StateId) (self : Nat) (rt : Rt) (ctx : Ctx) (e : Event) (k : Nat) (rs : List Route) :
    (routeScan sid self rt ctx e k rs).2.filterMap guardOf =
      expectedEvals e k rs (scanned (routeScan sid self rt ctx e k rs).1 k rs.length) := by
  unfold scanned
  induction rs generalizing k with
  | nil => simp [routeScan, expectedEvals, Spec.indexed]
  | cons r rs ih =>
    have hfirst := routeScan_first sid self rt ctx e (k + 1) rs
    have hrec : ∀ (n : Nat), expectedEvals e k (r :: rs) (n + 1) =
        (if r.matchesEvent e then (r.guard.map (fun g => (k, g.eval e))).toList else []) ++ expectedEvals e (k + 1) rs n := by
      intro n
      simp only [expectedEvals, Spec.indexed, List.take_succ_cons, List.filterMap_cons]
      by_cases hm : r.matchesEvent e = true
      · cases hg : r.guard <;> simp [hm, hg]
      · simp [hm]
    unfold routeScan
    by_cases hm : r.matchesEvent e = true
    · simp only [hm, Bool.not_true, Bool.false_eq_true, if_false]
      cases hg : r.guard with
      | none => simp [expectedEvals, Spec.indexed, hm, hg]
      | some g =>
        simp only []
        by_cases hv : g.eval e = true
        · simp only [hv, if_true, Nat.sub_self, Nat.zero_add]
          rw [hrec 0]
          simp [hm, hg, hv, guardOf, here, runScript_noGuards, expectedEvals]
        · have hv' : g.eval e = false := by simpa using hv
          simp only [hv', Bool.false_eq_true, if_false]
          have ih' := ih (k + 1)
          cases hx : (routeScan sid self rt ctx e (k + 1) rs).1 with
          | none =>
            rw [hx] at ih'
            simp only [] at ih' ⊢
            rw [List.length_cons, hrec rs.length]
            simp [hm, hg, hv', guardOf, here, runScript_noGuards, ih', List.filterMap_append]
          | some ir =>
            obtain ⟨i, r1⟩ := ir
            rw [hx] at ih' hfirst
            simp only [] at ih' hfirst ⊢
            have : i - k + 1 = (i - (k + 1) + 1) + 1 := by omega
            rw [this, hrec]
            simp [hm, hg, hv', guardOf, here, runScript_noGuards, ih', List.filterMap_append]
    · have hm' : r.matchesEvent e = false := by simpa using hm
      simp only [hm', Bool.not_false, if_true]
      have ih' := ih (k + 1)
      cases hx : (routeScan sid self rt ctx e (k + 1) rs).1 with
      | none =>
        rw [hx] at ih'
        simp only [] at ih' ⊢
        rw [List.length_cons, hrec rs.length]
        simp [hm', ih']
      | some ir =>
        obtain ⟨i, r1⟩ := ir
        rw [hx] at ih' hfirst
        simp only [] at ih' hfirst ⊢
        have : i - k + 1 = (i - (k + 1) + 1) + 1 := by omega
        rw [this, hrec]
        simp [hm', ih']

end Tbox.C16
