/-
C16 — invariants of the model between calls and the facts about callbacks:
* `OKrt`: `cb_level_ = 0`, `next_state_ = nullptr`, `is_running_ ↔ curr_state_ ≠ nullptr`;
* `InvL`: additionally, every sub-machine satisfies the invariant and only the sub-machine of the
  current state may be running (this is what patches/C16-01 establishes);
* `Rejected`: a trace event that is a re-entrant call returned false and changed nothing.
-/
import TboxModel.C16.Model
set_option linter.unusedSimpArgs false
namespace Tbox.C16

def OKrt (rt : Rt) : Prop := rt.running = rt.curr.isSome ∧ rt.next = none ∧ rt.cbLevel = 0

instance (rt : Rt) : Decidable (OKrt rt) := by unfold OKrt; exact inferInstance

def Rejected (ev : Ev) : Prop :=
  match ev.kind with
  | .call _ _ res b a => res = false ∧ a = b
  | .unmodelled => False
  | _ => True

def AllRejected (t : Trace) : Prop := ∀ ev ∈ t, Rejected ev

theorem allRejected_nil : AllRejected [] := by intro ev h; cases h

theorem allRejected_append {a b : Trace} : AllRejected (a ++ b) ↔ AllRejected a ∧ AllRejected b := by
  unfold AllRejected; simp only [List.mem_append]
  constructor
  · intro h; exact ⟨fun ev he => h ev (Or.inl he), fun ev he => h ev (Or.inr he)⟩
  · intro h ev he; cases he with
    | inl he => exact h.1 ev he
    | inr he => exact h.2 ev he

theorem allRejected_cons {a : Ev} {b : Trace} : AllRejected (a :: b) ↔ Rejected a ∧ AllRejected b := by
  unfold AllRejected; simp

theorem allRejected_lift {sid : StateId} {t : Trace} (h : AllRejected t) : AllRejected (lift sid t) := by
  intro ev he
  unfold lift at he
  rcases List.mem_map.1 he with ⟨ev', h', rfl⟩
  exact h ev' h'

/-- a machine inside one of its own methods: `is_running_` and `cb_level_ > 0` -/
def Busy (rt : Rt) : Prop := rt.running = true ∧ rt.cbLevel ≠ 0

/-- every ancestor is inside a call -/
def AllBusy (ctx : Ctx) : Prop := ∀ p ∈ ctx, Busy p.2

theorem allBusy_nil : AllBusy [] := by intro p h; cases h
theorem allBusy_cons (k : Nat) {rt : Rt} {ctx : Ctx} (h1 : Busy rt) (h2 : AllBusy ctx) : AllBusy ((k, rt) :: ctx) := by
  intro p hp
  cases hp with
  | head => exact h1
  | tail _ h => exact h2 p h

/-- a call on a busy machine is rejected -/
theorem scriptCall_rejected (rt : Rt) (t : Option Nat) (c : Call) (h : Busy rt) :
    scriptCall rt t c = .call t c false rt.view rt.view := by
  cases c <;> simp [scriptCall, startReject, stopReject, runReject, h.1, h.2]

theorem targetRt_busy {self : Nat} {rt : Rt} {ctx : Ctx} {t : Option Nat} {r : Rt}
    (h : Busy rt) (hctx : AllBusy ctx) (ht : targetRt self rt ctx t = some r) : Busy r := by
  cases t with
  | none => simp [targetRt] at ht; subst ht; exact h
  | some k =>
    simp only [targetRt] at ht
    split at ht
    · cases ht; exact h
    · unfold lookupCtx at ht
      cases hf : ctx.find? (fun p => p.1 == k) with
      | none => simp [hf] at ht
      | some p =>
        simp [hf] at ht; subst ht
        exact hctx p (List.mem_of_find?_eq_some hf)

theorem scriptOp_rejected (self : Nat) (rt : Rt) (ctx : Ctx) (op : SOp) (h : Busy rt) (hctx : AllBusy ctx) :
    Rejected (here (scriptOp self rt ctx op)) := by
  cases op with
  | obs t =>
    simp only [scriptOp]
    cases targetRt self rt ctx t <;> simp [Rejected, here]
  | call t c =>
    simp only [scriptOp]
    cases ht : targetRt self rt ctx t with
    | none => simp [Rejected, here]
    | some r =>
      simp only []
      rw [scriptCall_rejected r t c (targetRt_busy h hctx ht)]; simp [Rejected, here]

theorem runScript_rejected (self : Nat) (rt : Rt) (ctx : Ctx) (sc : Script) (h : Busy rt) (hctx : AllBusy ctx) :
    AllRejected (runScript self rt ctx sc) := by
  intro ev hev
  unfold runScript at hev
  rcases List.mem_map.1 hev with ⟨op, _, rfl⟩
  exact scriptOp_rejected self rt ctx op h hctx

theorem probe_rejected (mk : Bool → Kind) (p : Option Script) (self : Nat) (rt : Rt) (ctx : Ctx)
    (hmk : ∀ b, Rejected (here (mk b))) (h : Busy rt) (hctx : AllBusy ctx) :
    AllRejected (probe mk p self rt ctx) := by
  unfold probe
  refine allRejected_cons.2 ⟨hmk _, ?_⟩
  cases p with
  | none => exact allRejected_nil
  | some sc => exact runScript_rejected self rt ctx sc h hctx

section
variable {R Sub : Type}

theorem find_updSub (sid c : StateId) (x : Sub) (l : List (StateDef Sub)) :
    (MachOf.updSub c x l).find? (fun s => s.id == sid) =
      if sid = c then (l.find? (fun s => s.id == c)).map (fun s => { s with sub := some x })
      else l.find? (fun s => s.id == sid) := by
  induction l with
  | nil => simp [MachOf.updSub]
  | cons s rest ih =>
    by_cases hs : s.id = c
    · by_cases h : sid = c
      · simp [MachOf.updSub, List.find?_cons, hs, h]
      · have h' : ¬ c = sid := fun e => h e.symm
        simp [MachOf.updSub, List.find?_cons, hs, h, h']
    · by_cases h : sid = c
      · subst h; simp [MachOf.updSub, List.find?_cons, hs, ih]
      · by_cases h3 : s.id = sid
        · simp [MachOf.updSub, List.find?_cons, hs, h, h3]
        · simp [MachOf.updSub, List.find?_cons, hs, h, h3, ih]

theorem findState_setSub (m : MachOf R Sub) (c sid : StateId) (x : Sub) :
    (m.setSub c x).findState sid =
      if sid = c then (m.findState c).map (fun s => { s with sub := some x }) else m.findState sid := by
  unfold MachOf.findState MachOf.setSub
  simp only [find_updSub]
  by_cases h1 : sid = -1
  · subst h1; by_cases h2 : (-1 : Int) = c
    · subst h2; simp
    · simp [h2]
  · by_cases h2 : sid = c
    · subst h2; simp [h1]
    · simp [h1, h2]

theorem findState_id (m : MachOf R Sub) (sid : StateId) (st : StateDef Sub)
    (h : m.findState sid = some st) : st.id = sid := by
  unfold MachOf.findState at h
  split at h
  · cases h
  · have := List.find?_some h; simpa using this

theorem stateOf_of_find (m : MachOf R Sub) (sid : StateId) (st : StateDef Sub)
    (h : m.findState sid = some st) : m.stateOf sid = st := by
  simp [MachOf.stateOf, h]

/-- a state with a sub-machine is a user state -/
theorem find_of_stateOf_sub (m : MachOf R Sub) (c : StateId) (x : Sub)
    (h : (m.stateOf c).sub = some x) : m.findState c = some (m.stateOf c) := by
  unfold MachOf.stateOf at *
  cases hf : m.findState c with
  | none => simp [hf, termState] at h
  | some st => simp

end

section
variable {Sub : Type}

def InvL (I : Sub → Prop) (ops : SubOps Ctx Sub) (m : M Sub) : Prop :=
  OKrt m.rt ∧ ∀ sid st x, m.findState sid = some st → st.sub = some x →
    I x ∧ (m.rt.curr ≠ some sid → ops.isRunning x = false)

/-- what the parent may assume of its sub-machines' API (whenever all ancestors are busy) -/
structure SubInv (I : Sub → Prop) (ops : SubOps Ctx Sub) : Prop where
  start : ∀ ctx x, AllBusy ctx → I x → I (ops.start ctx x).1 ∧ AllRejected (ops.start ctx x).2.2
  stop : ∀ ctx x, AllBusy ctx → I x →
    I (ops.stop ctx x).1 ∧ ops.isRunning (ops.stop ctx x).1 = false ∧ AllRejected (ops.stop ctx x).2
  run : ∀ ctx x e, AllBusy ctx → I x → I (ops.run ctx x e).1 ∧ AllRejected (ops.run ctx x e).2.2

theorem invL_setSub {I : Sub → Prop} {ops : SubOps Ctx Sub} {m : M Sub} {c : StateId} {x : Sub}
    (h : InvL I ops m) (hx : I x) (hrun : m.rt.curr ≠ some c → ops.isRunning x = false) :
    InvL I ops (m.setSub c x) := by
  refine ⟨h.1, ?_⟩
  intro sid st y hf hs
  rw [findState_setSub] at hf
  by_cases hc : sid = c
  · subst hc
    simp only [if_true] at hf
    cases hm : m.findState sid with
    | none => simp [hm] at hf
    | some s0 =>
      simp [hm] at hf
      subst hf
      simp at hs
      subst hs
      exact ⟨hx, hrun⟩
  · simp only [hc, if_false] at hf
    exact h.2 sid st y hf hs

/-- changing only the run-time record -/
theorem invL_setRt {I : Sub → Prop} {ops : SubOps Ctx Sub} {m : M Sub} (rt : Rt)
    (hrt : OKrt rt)
    (hsub : ∀ sid st x, m.findState sid = some st → st.sub = some x →
      I x ∧ (rt.curr ≠ some sid → ops.isRunning x = false)) :
    InvL I ops { m with rt := rt } := ⟨hrt, hsub⟩

end
end Tbox.C16
