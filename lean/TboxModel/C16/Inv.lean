/-
C16 — invariants of the model between calls and the facts about callbacks:
* `OKrt`: `cb_level_ = 0`, `next_state_ = nullptr`, `is_running_ ↔ curr_state_ ≠ nullptr`;
* `InvL`: additionally, every sub-machine satisfies the invariant and only the sub-machine of the
  current state may be running (this is what patches/C16-01 establishes);
* `Rejected`: a trace event that is a re-entrant call returned false and changed nothing.
-/
import TboxModel.C16.Model
set_option linter.unusedSimpArgs false
namespace Tbox.C16

def OKrt (rt : Rt) : Prop := rt.running = rt.curr.isSome ∧ rt.next = none ∧ rt.cbLevel = 0

instance (rt : Rt) : Decidable (OKrt rt) := by unfold OKrt; exact inferInstance

def Rejected (ev : Ev) : Prop :=
  match ev.kind with
  | .call _ res b a => res = false ∧ a = b
  | .unmodelled => False
  | _ => True

def AllRejected (t : Trace) : Prop := ∀ ev ∈ t, Rejected ev

theorem allRejected_nil : AllRejected [] := by intro ev h; cases h

theorem allRejected_append {a b : Trace} : AllRejected (a ++ b) ↔ AllRejected a ∧ AllRejected b := by
  unfold AllRejected; simp only [List.mem_append]
  constructor
  · intro h; exact ⟨fun ev he => h ev (Or.inl he), fun ev he => h ev (Or.inr he)⟩
  · intro h ev he; cases he with
    | inl he => exact h.1 ev he
    | inr he => exact h.2 ev he

theorem allRejected_cons {a : Ev} {b : Trace} : AllRejected (a :: b) ↔ Rejected a ∧ AllRejected b := by
  unfold AllRejected; simp

theorem allRejected_lift {sid : StateId} {t : Trace} (h : AllRejected t) : AllRejected (lift sid t) := by
  intro ev he
  unfold lift at he
  rcases List.mem_map.1 he with ⟨ev', h', rfl⟩
  exact h ev' h'

/-- inside a callback (`is_running_`, `cb_level_ > 0`) every scripted call is rejected -/
theorem scriptCall_rejected (rt : Rt) (c : Call) (hr : rt.running = true) (hc : rt.cbLevel ≠ 0) :
    scriptCall rt c = .call c false rt.view rt.view := by
  cases c <;> simp [scriptCall, startReject, stopReject, runReject, hr, hc]

theorem runScript_rejected (rt : Rt) (sc : Script) (hr : rt.running = true) (hc : rt.cbLevel ≠ 0) :
    AllRejected (runScript rt sc) := by
  induction sc with
  | nil => exact allRejected_nil
  | cons op rest ih =>
    cases op with
    | obs => simp only [runScript]; exact allRejected_cons.2 ⟨by simp [Rejected, here], ih⟩
    | call c =>
      simp only [runScript]
      refine allRejected_cons.2 ⟨?_, ih⟩
      rw [scriptCall_rejected rt c hr hc]; simp [Rejected, here]

theorem probe_rejected (mk : Bool → Kind) (p : Option Script) (rt : Rt)
    (hmk : ∀ b, Rejected (here (mk b))) (hr : rt.running = true) (hc : rt.cbLevel ≠ 0) :
    AllRejected (probe mk p rt) := by
  unfold probe
  refine allRejected_cons.2 ⟨hmk _, ?_⟩
  cases p with
  | none => exact allRejected_nil
  | some sc => exact runScript_rejected rt sc hr hc

section
variable {R Sub : Type}

theorem find_updSub (sid c : StateId) (x : Sub) (l : List (StateDef Sub)) :
    (MachOf.updSub c x l).find? (fun s => s.id == sid) =
      if sid = c then (l.find? (fun s => s.id == c)).map (fun s => { s with sub := some x })
      else l.find? (fun s => s.id == sid) := by
  induction l with
  | nil => simp [MachOf.updSub]
  | cons s rest ih =>
    by_cases hs : s.id = c
    · by_cases h : sid = c
      · simp [MachOf.updSub, List.find?_cons, hs, h]
      · have h' : ¬ c = sid := fun e => h e.symm
        simp [MachOf.updSub, List.find?_cons, hs, h, h']
    · by_cases h : sid = c
      · subst h; simp [MachOf.updSub, List.find?_cons, hs, ih]
      · by_cases h3 : s.id = sid
        · simp [MachOf.updSub, List.find?_cons, hs, h, h3]
        · simp [MachOf.updSub, List.find?_cons, hs, h, h3, ih]

theorem findState_setSub (m : MachOf R Sub) (c sid : StateId) (x : Sub) :
    (m.setSub c x).findState sid =
      if sid = c then (m.findState c).map (fun s => { s with sub := some x }) else m.findState sid := by
  unfold MachOf.findState MachOf.setSub
  simp only [find_updSub]
  by_cases h1 : sid = -1
  · subst h1; by_cases h2 : (-1 : Int) = c
    · subst h2; simp
    · simp [h2]
  · by_cases h2 : sid = c
    · subst h2; simp [h1]
    · simp [h1, h2]

theorem findState_id (m : MachOf R Sub) (sid : StateId) (st : StateDef Sub)
    (h : m.findState sid = some st) : st.id = sid := by
  unfold MachOf.findState at h
  split at h
  · cases h
  · have := List.find?_some h; simpa using this

theorem stateOf_of_find (m : MachOf R Sub) (sid : StateId) (st : StateDef Sub)
    (h : m.findState sid = some st) : m.stateOf sid = st := by
  simp [MachOf.stateOf, h]

/-- a state with a sub-machine is a user state -/
theorem find_of_stateOf_sub (m : MachOf R Sub) (c : StateId) (x : Sub)
    (h : (m.stateOf c).sub = some x) : m.findState c = some (m.stateOf c) := by
  unfold MachOf.stateOf at *
  cases hf : m.findState c with
  | none => simp [hf, termState] at h
  | some st => simp

end

section
variable {Sub : Type}

def InvL (I : Sub → Prop) (ops : SubOps Sub) (m : M Sub) : Prop :=
  OKrt m.rt ∧ ∀ sid st x, m.findState sid = some st → st.sub = some x →
    I x ∧ (m.rt.curr ≠ some sid → ops.isRunning x = false)

/-- what the parent may assume of its sub-machines' API -/
structure SubInv (I : Sub → Prop) (ops : SubOps Sub) : Prop where
  start : ∀ x, I x → I (ops.start x).1 ∧ AllRejected (ops.start x).2.2
  stop : ∀ x, I x → I (ops.stop x).1 ∧ ops.isRunning (ops.stop x).1 = false ∧ AllRejected (ops.stop x).2
  run : ∀ x e, I x → I (ops.run x e).1 ∧ AllRejected (ops.run x e).2.2

theorem invL_setSub {I : Sub → Prop} {ops : SubOps Sub} {m : M Sub} {c : StateId} {x : Sub}
    (h : InvL I ops m) (hx : I x) (hrun : m.rt.curr ≠ some c → ops.isRunning x = false) :
    InvL I ops (m.setSub c x) := by
  refine ⟨h.1, ?_⟩
  intro sid st y hf hs
  rw [findState_setSub] at hf
  by_cases hc : sid = c
  · subst hc
    simp only [if_true] at hf
    cases hm : m.findState sid with
    | none => simp [hm] at hf
    | some s0 =>
      simp [hm] at hf
      subst hf
      simp at hs
      subst hs
      exact ⟨hx, hrun⟩
  · simp only [hc, if_false] at hf
    exact h.2 sid st y hf hs

/-- changing only the run-time record -/
theorem invL_setRt {I : Sub → Prop} {ops : SubOps Sub} {m : M Sub} (rt : Rt)
    (hrt : OKrt rt)
    (hsub : ∀ sid st x, m.findState sid = some st → st.sub = some x →
      I x ∧ (rt.curr ≠ some sid → ops.isRunning x = false)) :
    InvL I ops { m with rt := rt } := ⟨hrt, hsub⟩

end
end Tbox.C16
