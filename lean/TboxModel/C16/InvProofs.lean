/-
C16 — the model preserves `InvL` at every level and every callback call is rejected
(generic in the sub-machine type; `SubInv` is what is assumed of / proved for each level).
-/
import TboxModel.C16.Inv
set_option linter.unusedSimpArgs false
set_option linter.unusedVariables false
namespace Tbox.C16

section
variable {Sub : Type} {I : Sub → Prop} {ops : SubOps Ctx Sub}

theorem rejected_here_noncall (k : Kind) (h : match k with | .call .. => False | .unmodelled => False | _ => True) :
    Rejected (here k) := by
  cases k <;> simp_all [Rejected, here]

@[simp] theorem findState_rt {R R' : Type} (m : MachOf R Sub) (r : R') (sid : StateId) :
    MachOf.findState ({ mid := m.mid, init := m.init, states := m.states, cb := m.cb, rt := r } : MachOf R' Sub) sid
      = (m.findState sid) := rfl

theorem startReject_ok {rt : Rt} (h : OKrt rt) : startReject rt = if rt.running then some false else none := by
  simp [startReject, h.2.2]
theorem stopReject_ok {rt : Rt} (h : OKrt rt) : stopReject rt = if rt.running then none else some () := by
  simp [stopReject, h.2.2]; cases rt.running <;> simp
theorem runReject_ok {rt : Rt} (h : OKrt rt) : runReject rt = if rt.running then none else some false := by
  simp [runReject, h.2.2]; cases rt.running <;> simp

theorem start_inv (hs : SubInv I ops) (ctx : Ctx) (hctx : AllBusy ctx) (m : M Sub) (hm : InvL I ops m) :
    InvL I ops (start ops ctx m).1 ∧ AllRejected (start ops ctx m).2.2 := by
  unfold start
  rw [startReject_ok hm.1]
  by_cases hr : m.rt.running = true
  · simp only [hr, if_true]; exact ⟨hm, allRejected_nil⟩
  · simp only [hr, if_false]
    have hcur : m.rt.curr = none := by
      have := hm.1.1; simp only [Bool.not_eq_true] at hr; rw [hr] at this
      cases hc : m.rt.curr with
      | none => rfl
      | some c => simp [hc] at this
    cases hf : m.findState m.init with
    | none => simp only []; exact ⟨hm, allRejected_nil⟩
    | some st =>
      simp only []
      have hid := findState_id _ _ _ hf
      have hbusy : Busy { running := true, curr := some st.id, last := m.rt.last, next := m.rt.next, cbLevel := m.rt.cbLevel + 1 } :=
        ⟨rfl, by simp⟩
      have hp : AllRejected (probe (.enter st.id ev0) st.enter m.mid
          { running := true, curr := some st.id, last := m.rt.last, next := m.rt.next, cbLevel := m.rt.cbLevel + 1 } ctx) :=
        probe_rejected _ _ _ _ _ (fun b => by simp [Rejected, here]) hbusy hctx
      have hbase : InvL I ops { m with rt :=
          { running := true, curr := some st.id, last := m.rt.last, next := m.rt.next, cbLevel := m.rt.cbLevel + 1 - 1 } } := by
        refine ⟨⟨rfl, hm.1.2.1, by simp [hm.1.2.2]⟩, ?_⟩
        intro sid st' x hf' hs'
        have := hm.2 sid st' x hf' hs'
        exact ⟨this.1, fun _ => this.2 (by simp [hcur])⟩
      cases hsb : st.sub with
      | none => simp only []; exact ⟨hbase, hp⟩
      | some sub =>
        simp only []
        have hI := (hm.2 m.init st sub hf hsb).1
        have h' := hs.start _ sub (allBusy_cons m.mid hbusy hctx) hI
        refine ⟨invL_setSub hbase h'.1 (fun hne => absurd (by simp [hid]) hne), ?_⟩
        exact allRejected_append.2 ⟨hp, allRejected_lift h'.2⟩

theorem curr_of_running {rt : Rt} (h : OKrt rt) (hr : rt.running = true) : ∃ c, rt.curr = some c := by
  have := h.1; rw [hr] at this
  cases hc : rt.curr with
  | none => simp [hc] at this
  | some c => exact ⟨c, rfl⟩

theorem curr_of_not_running {rt : Rt} (h : OKrt rt) (hr : ¬ rt.running = true) : rt.curr = none := by
  have := h.1; simp only [Bool.not_eq_true] at hr; rw [hr] at this
  cases hc : rt.curr with
  | none => rfl
  | some c => simp [hc] at this

@[simp] theorem setSub_rt {R : Type} (m : MachOf R Sub) (c : StateId) (x : Sub) : (m.setSub c x).rt = m.rt := rfl
@[simp] theorem setSub_cb {R : Type} (m : MachOf R Sub) (c : StateId) (x : Sub) : (m.setSub c x).cb = m.cb := rfl
@[simp] theorem setSub_init {R : Type} (m : MachOf R Sub) (c : StateId) (x : Sub) : (m.setSub c x).init = m.init := rfl

/-- after the sub-machine of the current state `c` is known not to run, the machine may leave `c` -/
theorem invL_leave {m : M Sub} {c : StateId} (hm : InvL I ops m) (hc : m.rt.curr = some c)
    (hq : ∀ st x, m.findState c = some st → st.sub = some x → ops.isRunning x = false)
    (rt : Rt) (hrt : OKrt rt) :
    InvL I ops { m with rt := rt } ∧
      ∀ sid st x, m.findState sid = some st → st.sub = some x → ops.isRunning x = false := by
  have hall : ∀ sid st x, m.findState sid = some st → st.sub = some x → ops.isRunning x = false := by
    intro sid st x hf hs
    by_cases h : sid = c
    · subst h; exact hq st x hf hs
    · exact (hm.2 sid st x hf hs).2 (by rw [hc]; intro h'; exact h (Option.some.inj h').symm)
  refine ⟨⟨hrt, ?_⟩, hall⟩
  intro sid st x hf hs
  exact ⟨(hm.2 sid st x hf hs).1, fun _ => hall sid st x hf hs⟩

theorem stop_inv (hs : SubInv I ops) (ctx : Ctx) (hctx : AllBusy ctx) (m : M Sub) (hm : InvL I ops m) :
    InvL I ops (stop ops ctx m).1 ∧ (stop ops ctx m).1.rt.running = false ∧ AllRejected (stop ops ctx m).2 := by
  unfold stop
  rw [stopReject_ok hm.1]
  by_cases hr : m.rt.running = true
  · simp only [hr, if_true]
    obtain ⟨c, hc⟩ := curr_of_running hm.1 hr
    simp only [hc]
    have hbusy : Busy { running := true, curr := some c, last := m.rt.last, next := m.rt.next, cbLevel := m.rt.cbLevel + 1 } :=
      ⟨rfl, by simp⟩
    cases hsb : (m.stateOf c).sub with
    | none =>
      simp only []
      have hq : ∀ st x, m.findState c = some st → st.sub = some x → ops.isRunning x = false := by
        intro st x hf hs'
        rw [stateOf_of_find m c st hf] at hsb; rw [hsb] at hs'; cases hs'
      refine ⟨?_, by first | rfl | trivial, ?_⟩
      · exact (invL_leave hm hc hq ⟨false, none, m.rt.last, m.rt.next, m.rt.cbLevel + 1 - 1⟩ ⟨rfl, hm.1.2.1, by simp [hm.1.2.2]⟩).1
      simp only [List.nil_append]
      exact probe_rejected _ _ _ _ _ (fun b => by simp [Rejected, here]) hbusy hctx
    | some sub =>
      simp only []
      have hfind := find_of_stateOf_sub m c sub hsb
      have hI := (hm.2 c _ sub hfind hsb).1
      have h' := hs.stop _ sub (allBusy_cons m.mid hbusy hctx) hI
      have hm1 := invL_setSub (c := c) hm h'.1 (fun _ => h'.2.1)
      have hq : ∀ st x, (m.setSub c (ops.stop ((m.mid, { running := true, curr := some c, last := m.rt.last, next := m.rt.next, cbLevel := m.rt.cbLevel + 1 }) :: ctx) sub).1).findState c = some st → st.sub = some x → ops.isRunning x = false := by
        intro st x hf hs'
        rw [findState_setSub] at hf
        simp only [if_true, hfind, Option.map_some] at hf
        cases hf
        simp at hs'; subst hs'; exact h'.2.1
      refine ⟨?_, by first | rfl | trivial, ?_⟩
      · exact (invL_leave hm1 (by simpa using hc) hq ⟨false, none, m.rt.last, m.rt.next, m.rt.cbLevel + 1 - 1⟩ ⟨rfl, hm.1.2.1, by simp [hm.1.2.2]⟩).1
      refine allRejected_append.2 ⟨allRejected_lift h'.2.2, ?_⟩
      exact probe_rejected _ _ _ _ _ (fun b => by simp [Rejected, here]) hbusy hctx
  · simp only [hr, if_false]
    simp only [Bool.not_eq_true] at hr
    exact ⟨hm, hr, allRejected_nil⟩

theorem handlerPhase_rejected (cs : StateDef Sub) (self : Nat) (rt : Rt) (ctx : Ctx) (e : Event) (hb : Busy rt) (hctx : AllBusy ctx) :
    AllRejected (handlerPhase cs self rt ctx e).2 := by
  unfold handlerPhase
  split
  · exact allRejected_cons.2 ⟨by simp [Rejected, here], runScript_rejected _ _ _ _ hb hctx⟩
  · split
    · exact allRejected_cons.2 ⟨by simp [Rejected, here], runScript_rejected _ _ _ _ hb hctx⟩
    · exact allRejected_nil

theorem routeScan_rejected (sid : StateId) (self : Nat) (rt : Rt) (ctx : Ctx) (e : Event) (hb : Busy rt) (hctx : AllBusy ctx)
    (i : Nat) (rs : List Route) : AllRejected (routeScan sid self rt ctx e i rs).2 := by
  induction rs generalizing i with
  | nil => exact allRejected_nil
  | cons r rs ih =>
    unfold routeScan
    split
    · exact ih _
    · split
      · exact allRejected_nil
      · rename_i g hg
        have ht : AllRejected (here (.guard sid i e (g.eval e)) :: runScript self rt ctx g.script) :=
          allRejected_cons.2 ⟨by simp [Rejected, here], runScript_rejected _ _ _ _ hb hctx⟩
        split
        · exact ht
        · exact allRejected_append.2 ⟨ht, ih _⟩

theorem resolve_sub {R : Type} (m : MachOf R Sub) (id : StateId) (ts : StateDef Sub) (x : Sub)
    (h : m.resolve id = some ts) (hx : ts.sub = some x) : m.findState ts.id = some ts := by
  unfold MachOf.resolve at h
  cases hf : m.findState id with
  | some s =>
    rw [hf] at h; simp only [Option.some.injEq] at h; subst h
    rw [findState_id m id s hf]; exact hf
  | none =>
    rw [hf] at h
    simp only at h
    split at h
    · cases h; simp [termState] at hx
    · cases h

/-- `transition` from the current state `c` whose sub-machine (if any) is not running -/
theorem transition_inv (hs : SubInv I ops) (ctx : Ctx) (hctx : AllBusy ctx) (m : M Sub) (hm : InvL I ops m) (c : StateId)
    (hr : m.rt.running = true) (hc : m.rt.curr = some c)
    (hq : ∀ st x, m.findState c = some st → st.sub = some x → ops.isRunning x = false)
    (e : Event) (nextId : StateId) (ridx : Option Nat) (action : Option Script) :
    InvL I ops (transition ops ctx m c e nextId ridx action).1 ∧
      AllRejected (transition ops ctx m c e nextId ridx action).2.2 := by
  unfold transition
  cases hres : m.resolve nextId with
  | none =>
    simp only []
    refine ⟨⟨⟨hm.1.1, rfl, hm.1.2.2⟩, hm.2⟩, allRejected_nil⟩
  | some ts =>
    simp only []
    have hlv : m.rt.cbLevel + 1 ≠ 0 := by omega
    have hT : AllRejected (probe (.exit c e) (m.stateOf c).exit m.mid ⟨m.rt.running, m.rt.curr, m.rt.last, some ts.id, m.rt.cbLevel + 1⟩ ctx
        ++ probe (.action c ridx e) action m.mid ⟨m.rt.running, none, some c, some ts.id, m.rt.cbLevel + 1⟩ ctx
        ++ probe (.enter ts.id e) ts.enter m.mid ⟨m.rt.running, some ts.id, some c, none, m.rt.cbLevel + 1⟩ ctx
        ++ probe (.notify c ts.id e) m.cb m.mid ⟨m.rt.running, some ts.id, some c, none, m.rt.cbLevel + 1⟩ ctx) := by
      refine allRejected_append.2 ⟨allRejected_append.2 ⟨allRejected_append.2 ⟨?_, ?_⟩, ?_⟩, ?_⟩ <;>
        exact probe_rejected _ _ _ _ _ (fun b => by simp [Rejected, here]) ⟨hr, hlv⟩ hctx
    have hdown : AllBusy ((m.mid, (⟨m.rt.running, some ts.id, some c, none, m.rt.cbLevel + 1⟩ : Rt)) :: ctx) :=
      allBusy_cons m.mid ⟨hr, hlv⟩ hctx
    have hD := invL_leave hm hc hq ⟨m.rt.running, some ts.id, some c, none, m.rt.cbLevel + 1 - 1⟩
      ⟨by simp [hr], rfl, by simp [hm.1.2.2]⟩
    cases hsb : ts.sub with
    | none => simp only []; exact ⟨hD.1, hT⟩
    | some sub =>
      simp only []
      have hfind := resolve_sub m nextId ts sub hres hsb
      have hI := (hm.2 ts.id ts sub hfind hsb).1
      have h1 := hs.start _ sub hdown hI
      have h2 := hs.run _ _ e hdown h1.1
      refine ⟨invL_setSub hD.1 h2.1 (fun hne => absurd rfl hne), ?_⟩
      exact allRejected_append.2 ⟨hT, allRejected_lift (allRejected_append.2 ⟨h1.2, h2.2⟩)⟩

theorem runOwn_inv (hs : SubInv I ops) (ctx : Ctx) (hctx : AllBusy ctx) (m : M Sub) (hm : InvL I ops m) (c : StateId)
    (hr : m.rt.running = true) (hc : m.rt.curr = some c)
    (hq : ∀ st x, m.findState c = some st → st.sub = some x → ops.isRunning x = false)
    (e : Event) :
    InvL I ops (runOwn ops ctx m c e).1 ∧ AllRejected (runOwn ops ctx m c e).2.2 := by
  unfold runOwn
  have hlv : m.rt.cbLevel + 1 ≠ 0 := by omega
  have hH := handlerPhase_rejected (m.stateOf c) m.mid ⟨m.rt.running, m.rt.curr, m.rt.last, m.rt.next, m.rt.cbLevel + 1⟩ ctx e ⟨hr, hlv⟩ hctx
  have hS := routeScan_rejected c m.mid ⟨m.rt.running, m.rt.curr, m.rt.last, m.rt.next, m.rt.cbLevel + 1⟩ ctx e ⟨hr, hlv⟩ hctx 0 (m.stateOf c).routes
  simp only []
  split
  · split
    · exact ⟨hm, allRejected_append.2 ⟨hH, hS⟩⟩
    · rename_i i r _
      have hT := transition_inv hs ctx hctx m hm c hr hc hq e r.to (some i) r.action
      exact ⟨hT.1, allRejected_append.2 ⟨allRejected_append.2 ⟨hH, hS⟩, hT.2⟩⟩
  · have hT := transition_inv hs ctx hctx m hm c hr hc hq e
      (handlerPhase (m.stateOf c) m.mid ⟨m.rt.running, m.rt.curr, m.rt.last, m.rt.next, m.rt.cbLevel + 1⟩ ctx e).1 none none
    exact ⟨hT.1, allRejected_append.2 ⟨hH, hT.2⟩⟩

theorem run_inv (hs : SubInv I ops) (ctx : Ctx) (hctx : AllBusy ctx) (m : M Sub) (hm : InvL I ops m) (e : Event) :
    InvL I ops (run ops ctx m e).1 ∧ AllRejected (run ops ctx m e).2.2 := by
  unfold run
  rw [runReject_ok hm.1]
  by_cases hr : m.rt.running = true
  · simp only [hr, if_true]
    obtain ⟨c, hc⟩ := curr_of_running hm.1 hr
    simp only [hc]
    cases hsb : (m.stateOf c).sub with
    | none =>
      simp only []
      refine runOwn_inv hs ctx hctx m hm c hr hc ?_ e
      intro st x hf hs'
      rw [stateOf_of_find m c st hf] at hsb; rw [hsb] at hs'; cases hs'
    | some sub =>
      simp only []
      have hfind := find_of_stateOf_sub m c sub hsb
      have hI := (hm.2 c _ sub hfind hsb).1
      have hdown : AllBusy ((m.mid, (⟨true, some c, m.rt.last, m.rt.next, m.rt.cbLevel + 1⟩ : Rt)) :: ctx) :=
        allBusy_cons m.mid ⟨rfl, by simp⟩ hctx
      have h1 := hs.run _ sub e hdown hI
      split
      · exact ⟨invL_setSub hm h1.1 (fun hne => absurd hc hne), allRejected_lift h1.2⟩
      · have h2 := hs.stop _ _ hdown h1.1
        have hm1 := invL_setSub (c := c) hm h2.1 (fun _ => h2.2.1)
        have hq : ∀ st x, (m.setSub c (ops.stop ((m.mid, ⟨true, some c, m.rt.last, m.rt.next, m.rt.cbLevel + 1⟩) :: ctx)
              (ops.run ((m.mid, ⟨true, some c, m.rt.last, m.rt.next, m.rt.cbLevel + 1⟩) :: ctx) sub e).1).1).findState c = some st → st.sub = some x →
            ops.isRunning x = false := by
          intro st x hf hs'
          rw [findState_setSub] at hf
          simp only [if_true, hfind, Option.map_some] at hf
          cases hf
          simp at hs'; subst hs'; exact h2.2.1
        have h3 := runOwn_inv hs ctx hctx _ hm1 c (by simpa using hr) (by simpa using hc) hq e
        exact ⟨h3.1, allRejected_append.2 ⟨allRejected_lift (allRejected_append.2 ⟨h1.2, h2.2.2⟩), h3.2⟩⟩
  · simp only [hr, if_false]
    exact ⟨hm, allRejected_nil⟩

/-- the level theorem: if the sub-machines keep the invariant, so does the machine -/
theorem level_subInv (hs : SubInv I ops) : SubInv (InvL I ops) (levelOps ops) where
  start := fun ctx m hctx hm => start_inv hs ctx hctx m hm
  stop := fun ctx m hctx hm => stop_inv hs ctx hctx m hm
  run := fun ctx m e hctx hm => run_inv hs ctx hctx m hm e

end

/-- the invariant of a machine of nesting depth `n` (all levels) -/
def Inv : (n : Nat) → Mach n → Prop
  | 0 => InvL (fun (_ : Empty) => True) emptyOps
  | n + 1 => InvL (Inv n) (subOps n)

theorem empty_subInv : SubInv (fun (_ : Empty) => True) emptyOps :=
  ⟨fun _ x => x.elim, fun _ x => x.elim, fun _ x => x.elim⟩

theorem inv_all : ∀ n, SubInv (Inv n) (subOps n)
  | 0 => level_subInv empty_subInv
  | n + 1 => level_subInv (inv_all n)

end Tbox.C16
