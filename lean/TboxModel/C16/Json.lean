/-
C16 — `StateMachine::Impl::toJson` transcribed over the arena model, as the canonical text that
props/C16/harness.cpp prints for the nlohmann object the real code fills in (`P J …`):

  machine := {name=<s> run=<b> init=<i> term=<i> curr=<i or -> states=[<state>,…]}
  state   := {id=<i> label=<s> sub=<machine or -> routes=[(<event_id>><next_state_id>:<s>),…] events=[<i>,…]}

`<s>` = the string in double quotes, `<b>` = `true`/`false`, `<i>` = decimal.

What the model does not store is fixed by the line protocol: machine `k` is named `m<k>`
(`setName`), state `sid` is created with label `L<sid>`, the `i`-th route of a state (in
registration order, counting successful `addRoute` calls only) with label `R<i>`.

* `js["curr_state"]` is written only when `curr_state_ != nullptr` (`-` otherwise); a machine in
  the built-in terminal state `_term_state_` shows `curr=0` although no state 0 is in `states_`.
* `states_` is a `std::map<StateID, State*>`: ascending signed id (here: insertion sort of the
  definition-order list); a state with id -1 (`NULL_STATE_ID`) can be stored and is listed.
* `routes` is a `std::vector`: registration order.  `events` is a `std::map<EventID, …>`: keys
  ascending; the default handler (`default_event`) is not listed.
* `state->sub_sm->toJson(js_state["sub_sm"])` recurses into the attached machine object; a machine
  object attached to several states is dumped once per attachment.  The attachments are acyclic by
  protocol; the recursion is bounded by a fuel (`UNMODELLED` when it runs out; the driver passes
  `#machines + 1`, which is never exhausted on an acyclic arena).

`toJson` is `const`: it returns text and no new arena.
-/
import TboxModel.C16.Arena
namespace Tbox.C16

namespace Json

/-- insert into a list sorted ascending by `key` (equal keys: before the first equal one; state
ids and event keys are unique, so this never matters) -/
def insertBy {α : Type} (key : α → Int) (x : α) : List α → List α
  | [] => [x]
  | y :: ys => if key x ≤ key y then x :: y :: ys else y :: insertBy key x ys

/-- insertion sort ascending by `key` (iteration order of a `std::map` with signed keys) -/
def sortBy {α : Type} (key : α → Int) (l : List α) : List α := l.foldr (insertBy key) []

def quote (s : String) : String := "\"" ++ s ++ "\""

def bool (b : Bool) : String := if b then "true" else "false"

def list (l : List String) : String := "[" ++ ",".intercalate l ++ "]"

/-- routes of one state with their registration index -/
def routes : Nat → List Route → List String
  | _, [] => []
  | i, r :: rs => s!"({r.ev}>{r.to}:{quote s!"R{i}"})" :: routes (i + 1) rs

/-- one element of `js["states"]`; `sub` prints the attached machine object -/
def state (sub : Nat → String) (s : StateDef Nat) : String :=
  "{id=" ++ toString s.id ++ " label=" ++ quote s!"L{s.id}" ++
  " sub=" ++ (match s.sub with | some j => sub j | none => "-") ++
  " routes=" ++ list (routes 0 s.routes) ++
  " events=" ++ list ((sortBy id (s.events.map (·.1))).map toString) ++ "}"

end Json

/-- `Impl::toJson` of machine object `k` -/
def aJson : Nat → Arena → Nat → String
  | 0, _, _ => "UNMODELLED"
  | f + 1, g, k =>
    let m := g.get k
    "{name=" ++ Json.quote s!"m{m.mid}" ++ " run=" ++ Json.bool m.rt.running ++
    " init=" ++ toString m.init ++ " term=0" ++
    " curr=" ++ (match m.rt.curr with | some c => toString c | none => "-") ++
    " states=" ++ Json.list ((Json.sortBy (·.id) m.states).map (Json.state (aJson f g))) ++ "}"

end Tbox.C16
