/-
C16 — executable model of `tbox::flow::StateMachine::Impl`
(modules/flow/state_machine.cpp), transcribed function by function.

`Rt` is the mutable part of `Impl`: `is_running_`, `curr_state_`, `last_state_`, `next_state_`
(pointers to `State` become the state's id; `stateOf` recovers the object, `_term_state_` for
id 0 when the user did not define it) and `cb_level_`.  `states_`, `init_state_id_`,
`state_changed_cb_` are the definition (`MachOf`); they cannot change while running and the
protocol has no definition call after the first `start`.

A call on a sub-machine (`curr_state_->sub_sm->start()/run()/stop()/isTerminated()`) goes
through `SubOps`; `ops n` ties the knot by recursion on the nesting depth.

`stop()` exists in two variants: `fix = false` is the code of /repo as found (the active
sub-machine is left running), `fix = true` is the code after patches/C16-01 (the active
sub-machine is stopped first).  The driver, the refinement and the balance theorems use
`fix = true`; the counterexample uses `fix = false`.

Callbacks run `Script`s whose calls target the owning machine.  The C++ enters
`start/stop/run` again; the model evaluates the entry checks of those functions on the current
`Rt` (`startReject/stopReject/runReject`).  If a check let the call through the model emits
`unmodelled` (theorem `C16_reentrancy_rejected`: this never happens).
-/
import TboxModel.C16.Syntax
namespace Tbox.C16

structure Rt where
  running : Bool := false
  curr : Option StateId := none
  last : Option StateId := none
  next : Option StateId := none
  cbLevel : Nat := 0
deriving Repr, DecidableEq

/-- the five observers of the public API -/
def Rt.view (rt : Rt) : View :=
  { curr := optInt rt.curr, last := optInt rt.last, next := optInt rt.next,
    running := rt.running, term := rt.curr == some 0 }

/-- entry checks of `start()`: `some r` = returns `r` at once -/
def startReject (rt : Rt) : Option Bool :=
  if rt.running then some false
  else if rt.cbLevel ≠ 0 then some false
  else none

/-- entry checks of `stop()` -/
def stopReject (rt : Rt) : Option Unit :=
  if !rt.running then some ()
  else if rt.cbLevel ≠ 0 then some ()
  else none

/-- entry checks of `run()` -/
def runReject (rt : Rt) : Option Bool :=
  if !rt.running then some false
  else if rt.cbLevel ≠ 0 then some false
  else none

/-- one call made by a callback of the machine whose run-time record is `rt` -/
def scriptCall (rt : Rt) : Call → Kind
  | .start =>
      match startReject rt with
      | some r => .call .start r rt.view rt.view
      | none => .unmodelled
  | .stop =>
      match stopReject rt with
      | some _ => .call .stop false rt.view rt.view
      | none => .unmodelled
  | .restart =>
      -- impl_->stop(); return impl_->start();
      match stopReject rt with
      | some _ =>
          match startReject rt with
          | some r => .call .restart r rt.view rt.view
          | none => .unmodelled
      | none => .unmodelled
  | .run e =>
      match runReject rt with
      | some r => .call (.run e) r rt.view rt.view
      | none => .unmodelled

def runScript (rt : Rt) : Script → Trace
  | [] => []
  | .obs :: rest => here (.obs rt.view) :: runScript rt rest
  | .call c :: rest => here (scriptCall rt c) :: runScript rt rest

/-- `if (f) f(event)`: the semantic event (with `has` = the callback exists) and what the
callback body does -/
def probe (mk : Bool → Kind) (p : Option Script) (rt : Rt) : Trace :=
  here (mk p.isSome) :: (match p with | some sc => runScript rt sc | none => [])

section Level
variable {Sub : Type}

abbrev M (Sub : Type) := MachOf Rt Sub

def isTerminated (m : M Sub) : Bool := m.rt.curr == some 0

/-- `Impl::start()` -/
def start (ops : SubOps Sub) (m : M Sub) : M Sub × Bool × Trace :=
  match startReject m.rt with
  | some r => (m, r, [])
  | none =>
    match m.findState m.init with
    | none => (m, false, [])
    | some st =>
      let rt1 : Rt := { m.rt with running := true, curr := some st.id }
      let rtA : Rt := { rt1 with cbLevel := rt1.cbLevel + 1 }
      let t1 := probe (.enter st.id 0) st.enter rtA
      let rt2 : Rt := { rtA with cbLevel := rtA.cbLevel - 1 }
      let m2 : M Sub := { m with rt := rt2 }
      match st.sub with
      | none => (m2, true, t1)
      | some sub =>
        let r := ops.start sub
        (m2.setSub st.id r.1, true, t1 ++ lift st.id r.2.2)

/-- `Impl::stop()`; `fix` = with patches/C16-01 applied -/
def stop (fix : Bool) (ops : SubOps Sub) (m : M Sub) : M Sub × Trace :=
  match stopReject m.rt with
  | some _ => (m, [])
  | none =>
    match m.rt.curr with
    | none => (m, [here .unmodelled])       -- `curr_state_->` on nullptr
    | some c =>
      let cs := m.stateOf c
      let d : M Sub × Trace :=
        if fix then
          match cs.sub with
          | some sub => let r := ops.stop sub; (m.setSub c r.1, lift c r.2)
          | none => (m, [])
        else (m, [])
      let m1 := d.1
      let rtA : Rt := { m1.rt with cbLevel := m1.rt.cbLevel + 1 }
      let t1 := probe (.exit c 0) cs.exit rtA
      let rt2 : Rt := { rtA with cbLevel := rtA.cbLevel - 1, curr := none, running := false }
      ({ m1 with rt := rt2 }, d.2 ++ t1)

/-- the event-handler block of `run()`: `events.find(event.id)`, else `default_event` -/
def handlerPhase (cs : StateDef Sub) (rt : Rt) (e : EventId) : Int × Trace :=
  match cs.events.find? (fun p => p.1 == e) with
  | some p => (p.2.eval e, here (.handler cs.id (some p.1) e (p.2.eval e)) :: runScript rt p.2.script)
  | none =>
    match cs.dflt with
    | some h => (h.eval e, here (.handler cs.id none e (h.eval e)) :: runScript rt h.script)
    | none => (-1, [])

/-- the `std::find_if` over `routes` with its lambda; `i` = index of the head of `rs` -/
def routeScan (sid : StateId) (rt : Rt) (e : EventId) : Nat → List Route → Option (Nat × Route) × Trace
  | _, [] => (none, [])
  | i, r :: rs =>
    if !r.matchesEvent e then routeScan sid rt e (i + 1) rs
    else
      match r.guard with
      | none => (some (i, r), [])
      | some g =>
        let t := here (.guard sid i e (g.eval e)) :: runScript rt g.script
        if g.eval e then (some (i, r), t)
        else
          let x := routeScan sid rt e (i + 1) rs
          (x.1, t ++ x.2)

/-- the tail of `run()` from `next_state_ = findState(next_state_id)` on; `m` is the machine
with `cb_level_` as at function entry, `c` the id of `curr_state_` -/
def transition (ops : SubOps Sub) (m : M Sub) (c : StateId) (e : EventId) (nextId : StateId)
    (ridx : Option Nat) (action : Option Script) : M Sub × Bool × Trace :=
  let cs := m.stateOf c
  match m.resolve nextId with
  | none => ({ m with rt := { m.rt with next := none } }, false, [])   -- "Should not happen"
  | some ts =>
    let rt0 : Rt := { m.rt with next := some ts.id }
    let rtA : Rt := { rt0 with cbLevel := rt0.cbLevel + 1 }
    let tExit := probe (.exit c e) cs.exit rtA
    let rtB : Rt := { rtA with last := some c, curr := none }
    let tAct := probe (.action c ridx e) action rtB
    let rtC : Rt := { rtB with curr := some ts.id, next := none }
    let tEnter := probe (.enter ts.id e) ts.enter rtC
    let tCb := probe (.notify c ts.id e) m.cb rtC
    let rtD : Rt := { rtC with cbLevel := rtC.cbLevel - 1 }
    let mD : M Sub := { m with rt := rtD }
    match ts.sub with
    | none => (mD, true, tExit ++ tAct ++ tEnter ++ tCb)
    | some sub =>
      let r1 := ops.start sub
      let r2 := ops.run r1.1 e
      (mD.setSub ts.id r2.1, true, tExit ++ tAct ++ tEnter ++ tCb ++ lift ts.id (r1.2.2 ++ r2.2.2))

/-- `run()` after the sub-machine block -/
def runOwn (ops : SubOps Sub) (m : M Sub) (c : StateId) (e : EventId) : M Sub × Bool × Trace :=
  let cs := m.stateOf c
  let rtA : Rt := { m.rt with cbLevel := m.rt.cbLevel + 1 }
  let h := handlerPhase cs rtA e
  if h.1 = -1 then
    let sc := routeScan c rtA e 0 cs.routes
    match sc.1 with
    | none => (m, false, h.2 ++ sc.2)
    | some (i, r) =>
      let x := transition ops m c e r.to (some i) r.action
      (x.1, x.2.1, h.2 ++ sc.2 ++ x.2.2)
  else
    let x := transition ops m c e h.1 none none
    (x.1, x.2.1, h.2 ++ x.2.2)

/-- `Impl::run(Event)` -/
def run (ops : SubOps Sub) (m : M Sub) (e : EventId) : M Sub × Bool × Trace :=
  match runReject m.rt with
  | some r => (m, r, [])
  | none =>
    match m.rt.curr with
    | none => (m, false, [here .unmodelled])     -- `curr_state_->` on nullptr
    | some c =>
      match (m.stateOf c).sub with
      | none => runOwn ops m c e
      | some sub =>
        let r := ops.run sub e
        if !ops.isTerminated r.1 then (m.setSub c r.1, r.2.1, lift c r.2.2)
        else
          let s := ops.stop r.1
          let x := runOwn ops (m.setSub c s.1) c e
          (x.1, x.2.1, lift c (r.2.2 ++ s.2) ++ x.2.2)

/-- `StateMachine::restart()`: `impl_->stop(); return impl_->start();` -/
def restart (fix : Bool) (ops : SubOps Sub) (m : M Sub) : M Sub × Bool × Trace :=
  let s := stop fix ops m
  let r := start ops s.1
  (r.1, r.2.1, s.2 ++ r.2.2)

def levelOps (fix : Bool) (ops : SubOps Sub) : SubOps (M Sub) :=
  { start := start ops, stop := stop fix ops, run := run ops, isTerminated := isTerminated,
    isRunning := fun m => m.rt.running }

end Level

/-- a machine with at most `n` levels of sub-machines below it -/
def Mach : Nat → Type
  | 0 => MachOf Rt Empty
  | n + 1 => MachOf Rt (Mach n)

def subOps (fix : Bool) : (n : Nat) → SubOps (Mach n)
  | 0 => levelOps fix emptyOps
  | n + 1 => levelOps fix (subOps fix n)

/-- apply one API call to the root machine: new machine, return value (`false` for `stop`), trace -/
def applyCall (fix : Bool) (n : Nat) (m : Mach n) (c : Call) : Mach n × Bool × Trace :=
  match c with
  | .start => (subOps fix n).start m
  | .stop => let r := (subOps fix n).stop m; (r.1, false, r.2)
  | .restart =>
      let s := (subOps fix n).stop m
      let r := (subOps fix n).start s.1
      (r.1, r.2.1, s.2 ++ r.2.2)
  | .run e => (subOps fix n).run m e

/-- the run-time record of the root -/
def rootRt : (n : Nat) → Mach n → Rt
  | 0, m => m.rt
  | _ + 1, m => m.rt

/-- run a call sequence; the observable is, per call, (return value, trace, the root's five
observers after the call) -/
def exec (fix : Bool) (n : Nat) (m : Mach n) : List Call → Mach n × List (Bool × Trace × View)
  | [] => (m, [])
  | c :: cs =>
    let r := applyCall fix n m c
    let rest := exec fix n r.1 cs
    (rest.1, (r.2.1, r.2.2, (rootRt n r.1).view) :: rest.2)

/-! ### the definition API (`newState / addRoute / addEvent / setInitState / setSubStateMachine /
setStateChangedCallback`); `is_running_` is false throughout the definition phase -/
namespace Build
variable {R Sub : Type}

def newState (m : MachOf R Sub) (id : StateId) (enter exit : Option Script) : MachOf R Sub × Bool :=
  if (m.states.find? (fun s => s.id == id)).isSome then (m, false)
  else
    let st : StateDef Sub := { id := id, enter := enter, exit := exit, routes := [], events := [], dflt := none, sub := none }
    ({ m with states := m.states ++ [st], init := if m.init = -1 then id else m.init }, true)

def updState (sid : StateId) (f : StateDef Sub → StateDef Sub) : List (StateDef Sub) → List (StateDef Sub)
  | [] => []
  | s :: rest => if s.id == sid then f s :: rest else s :: updState sid f rest

def addRoute (m : MachOf R Sub) (src : StateId) (r : Route) : MachOf R Sub × Bool :=
  match m.findState src with
  | none => (m, false)
  | some _ =>
    if r.to ≠ 0 && (m.findState r.to).isNone then (m, false)
    else ({ m with states := updState src (fun s => { s with routes := s.routes ++ [r] }) m.states }, true)

def addEvent (m : MachOf R Sub) (sid : StateId) (ev : EventId) (h : Handler) : MachOf R Sub × Bool :=
  match m.findState sid with
  | none => (m, false)
  | some _ =>
    if ev ≠ 0 then
      ({ m with states := updState sid (fun s =>
          { s with events := (s.events.filter (fun p => p.1 != ev)) ++ [(ev, h)] }) m.states }, true)
    else
      ({ m with states := updState sid (fun s => { s with dflt := some h }) m.states }, true)

def setInitState (m : MachOf R Sub) (id : StateId) : MachOf R Sub := { m with init := id }

def setSubStateMachine (m : MachOf R Sub) (sid : StateId) (x : Sub) : MachOf R Sub × Bool :=
  match m.findState sid with
  | none => (m, false)
  | some _ => ({ m with states := updState sid (fun s => { s with sub := some x }) m.states }, true)

def setStateChangedCallback (m : MachOf R Sub) (cb : Script) : MachOf R Sub := { m with cb := some cb }

end Build

end Tbox.C16
