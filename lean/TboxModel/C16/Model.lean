/-
C16 — executable model of `tbox::flow::StateMachine::Impl`
(modules/flow/state_machine.cpp), transcribed function by function.

`Rt` is the mutable part of `Impl`: `is_running_`, `curr_state_`, `last_state_`, `next_state_`
(pointers to `State` become the state's id; `stateOf` recovers the object, `_term_state_` for
id 0 when the user did not define it) and `cb_level_`.  `states_`, `init_state_id_`,
`state_changed_cb_` are the definition (`MachOf`); they cannot change while running and the
protocol has no definition call after the first `start`.

A call on a sub-machine (`curr_state_->sub_sm->start()/run()/stop()/isTerminated()`) goes
through `SubOps`; `ops n` ties the knot by recursion on the nesting depth.

This is the code with patches/C16-01 (stop() stops the active sub-machine first),
patches/C16-02 (`cb_level_` stays raised while start()/stop()/run() call into the sub-machine) and
patches/C16-03 (`if (next_state_id < 0)`: every negative handler answer falls through to the routes).
The code without them is in Arena.lean (`Fix`), where the counterexamples are proved.

Callbacks run `Script`s whose calls target the owning machine or one of its ancestors (`Ctx`:
the ancestors are all inside a call when a callback of a descendant runs).  The C++ enters
`start/stop/run` of the target again; the model evaluates the entry checks of those functions on
the target's `Rt` (`startReject/stopReject/runReject`).  If a check let the call through the
model emits `unmodelled` (theorem `C16_reentrancy_rejected`: this never happens).  A target that
is neither the owner nor an ancestor is `foreign` here (Arena.lean executes those).
-/
import TboxModel.C16.Rt
namespace Tbox.C16

/-- what a machine knows of its ancestors while one of them calls down: index and run-time record
at that moment (nearest first) -/
abbrev Ctx := List (Nat × Rt)

def lookupCtx (ctx : Ctx) (k : Nat) : Option Rt := (ctx.find? (fun p => p.1 == k)).map (·.2)

/-- the machine a script op addresses: the owner, one of its ancestors, or none of these -/
def targetRt (self : Nat) (rt : Rt) (ctx : Ctx) : Option Nat → Option Rt
  | none => some rt
  | some k => if k = self then some rt else lookupCtx ctx k

/-- one call on the machine whose run-time record is `rt`, made from a callback -/
def scriptCall (rt : Rt) (t : Option Nat) : Call → Kind
  | .start =>
      match startReject rt with
      | some r => .call t .start r rt.view rt.view
      | none => .unmodelled
  | .stop =>
      match stopReject rt with
      | some _ => .call t .stop false rt.view rt.view
      | none => .unmodelled
  | .restart =>
      -- impl_->stop(); return impl_->start();
      match stopReject rt with
      | some _ =>
          match startReject rt with
          | some r => .call t .restart r rt.view rt.view
          | none => .unmodelled
      | none => .unmodelled
  | .run e =>
      match runReject rt with
      | some r => .call t (.run e) r rt.view rt.view
      | none => .unmodelled
  -- a definition call on the own machine or an ancestor (all running): `newState/addRoute/
  -- addEvent/setSubStateMachine` answer false at the `is_running_` check and change nothing.
  -- (`setInitState/setStateChangedCallback` are never refused: arena model only, ArenaDef.lean.)
  | .defn i => .call t (.defn i) false rt.view rt.view

def scriptOp (self : Nat) (rt : Rt) (ctx : Ctx) : SOp → Kind
  | .obs t =>
      match targetRt self rt ctx t with
      | some r => .obs t r.view
      | none => .foreign (t.getD 0)
  | .call t c =>
      match targetRt self rt ctx t with
      | some r => scriptCall r t c
      | none => .foreign (t.getD 0)

def runScript (self : Nat) (rt : Rt) (ctx : Ctx) (sc : Script) : Trace :=
  sc.map fun op => here (scriptOp self rt ctx op)

/-- `if (f) f(event)`: the semantic event (with `has` = the callback exists) and what the
callback body does -/
def probe (mk : Bool → Kind) (p : Option Script) (self : Nat) (rt : Rt) (ctx : Ctx) : Trace :=
  here (mk p.isSome) :: (match p with | some sc => runScript self rt ctx sc | none => [])

section Level
variable {Sub : Type}

abbrev M (Sub : Type) := MachOf Rt Sub

def isTerminated (m : M Sub) : Bool := m.rt.curr == some 0

/-- `Impl::start()` -/
def start (ops : SubOps Ctx Sub) (ctx : Ctx) (m : M Sub) : M Sub × Bool × Trace :=
  match startReject m.rt with
  | some r => (m, r, [])
  | none =>
    match m.findState m.init with
    | none => (m, false, [])
    | some st =>
      let rt1 : Rt := { m.rt with running := true, curr := some st.id }
      let rtA : Rt := { rt1 with cbLevel := rt1.cbLevel + 1 }
      let t1 := probe (.enter st.id ev0) st.enter m.mid rtA ctx
      let rt2 : Rt := { rtA with cbLevel := rtA.cbLevel - 1 }
      let m2 : M Sub := { m with rt := rt2 }
      match st.sub with
      | none => (m2, true, t1)
      | some sub =>
        -- the sub-machine starts while `cb_level_` is still raised (patches/C16-02)
        let r := ops.start ((m.mid, rtA) :: ctx) sub
        (m2.setSub st.id r.1, true, t1 ++ lift st.id r.2.2)

/-- `Impl::stop()` -/
def stop (ops : SubOps Ctx Sub) (ctx : Ctx) (m : M Sub) : M Sub × Trace :=
  match stopReject m.rt with
  | some _ => (m, [])
  | none =>
    match m.rt.curr with
    | none => (m, [here .unmodelled])       -- `curr_state_->` on nullptr
    | some c =>
      let cs := m.stateOf c
      let rtA : Rt := { m.rt with cbLevel := m.rt.cbLevel + 1 }
      -- the active sub-machine is stopped first (patches/C16-01), under the raised guard (C16-02)
      let d : M Sub × Trace :=
        match cs.sub with
        | some sub => let r := ops.stop ((m.mid, rtA) :: ctx) sub; (m.setSub c r.1, lift c r.2)
        | none => (m, [])
      let m1 := d.1
      let t1 := probe (.exit c ev0) cs.exit m.mid rtA ctx
      let rt2 : Rt := { rtA with cbLevel := rtA.cbLevel - 1, curr := none, running := false }
      ({ m1 with rt := rt2 }, d.2 ++ t1)

/-- the event-handler block of `run()`: `events.find(event.id)`, else `default_event` -/
def handlerPhase (cs : StateDef Sub) (self : Nat) (rt : Rt) (ctx : Ctx) (e : Event) : Int × Trace :=
  match cs.events.find? (fun p => p.1 == e.id) with
  | some p => (p.2.eval e, here (.handler cs.id (some p.1) e (p.2.eval e)) :: runScript self rt ctx p.2.script)
  | none =>
    match cs.dflt with
    | some h => (h.eval e, here (.handler cs.id none e (h.eval e)) :: runScript self rt ctx h.script)
    | none => (-1, [])

/-- the `std::find_if` over `routes` with its lambda; `i` = index of the head of `rs` -/
def routeScan (sid : StateId) (self : Nat) (rt : Rt) (ctx : Ctx) (e : Event) : Nat → List Route → Option (Nat × Route) × Trace
  | _, [] => (none, [])
  | i, r :: rs =>
    if !r.matchesEvent e then routeScan sid self rt ctx e (i + 1) rs
    else
      match r.guard with
      | none => (some (i, r), [])
      | some g =>
        let t := here (.guard sid i e (g.eval e)) :: runScript self rt ctx g.script
        if g.eval e then (some (i, r), t)
        else
          let x := routeScan sid self rt ctx e (i + 1) rs
          (x.1, t ++ x.2)

/-- the tail of `run()` from `next_state_ = findState(next_state_id)` on; `m` is the machine
with `cb_level_` as at function entry, `c` the id of `curr_state_` -/
def transition (ops : SubOps Ctx Sub) (ctx : Ctx) (m : M Sub) (c : StateId) (e : Event) (nextId : StateId)
    (ridx : Option Nat) (action : Option Script) : M Sub × Bool × Trace :=
  let cs := m.stateOf c
  match m.resolve nextId with
  | none => ({ m with rt := { m.rt with next := none } }, false, [])   -- "Should not happen"
  | some ts =>
    let rt0 : Rt := { m.rt with next := some ts.id }
    let rtA : Rt := { rt0 with cbLevel := rt0.cbLevel + 1 }
    let tExit := probe (.exit c e) cs.exit m.mid rtA ctx
    let rtB : Rt := { rtA with last := some c, curr := none }
    let tAct := probe (.action c ridx e) action m.mid rtB ctx
    let rtC : Rt := { rtB with curr := some ts.id, next := none }
    let tEnter := probe (.enter ts.id e) ts.enter m.mid rtC ctx
    let tCb := probe (.notify c ts.id e) m.cb m.mid rtC ctx
    let rtD : Rt := { rtC with cbLevel := rtC.cbLevel - 1 }
    let mD : M Sub := { m with rt := rtD }
    match ts.sub with
    | none => (mD, true, tExit ++ tAct ++ tEnter ++ tCb)
    | some sub =>
      let r1 := ops.start ((m.mid, rtC) :: ctx) sub
      let r2 := ops.run ((m.mid, rtC) :: ctx) r1.1 e
      (mD.setSub ts.id r2.1, true, tExit ++ tAct ++ tEnter ++ tCb ++ lift ts.id (r1.2.2 ++ r2.2.2))

/-- `run()` after the sub-machine block -/
def runOwn (ops : SubOps Ctx Sub) (ctx : Ctx) (m : M Sub) (c : StateId) (e : Event) : M Sub × Bool × Trace :=
  let cs := m.stateOf c
  let rtA : Rt := { m.rt with cbLevel := m.rt.cbLevel + 1 }
  let h := handlerPhase cs m.mid rtA ctx e
  if h.1 < 0 then
    let sc := routeScan c m.mid rtA ctx e 0 cs.routes
    match sc.1 with
    | none => (m, false, h.2 ++ sc.2)
    | some (i, r) =>
      let x := transition ops ctx m c e r.to (some i) r.action
      (x.1, x.2.1, h.2 ++ sc.2 ++ x.2.2)
  else
    let x := transition ops ctx m c e h.1 none none
    (x.1, x.2.1, h.2 ++ x.2.2)

/-- `Impl::run(Event)` -/
def run (ops : SubOps Ctx Sub) (ctx : Ctx) (m : M Sub) (e : Event) : M Sub × Bool × Trace :=
  match runReject m.rt with
  | some r => (m, r, [])
  | none =>
    match m.rt.curr with
    | none => (m, false, [here .unmodelled])     -- `curr_state_->` on nullptr
    | some c =>
      match (m.stateOf c).sub with
      | none => runOwn ops ctx m c e
      | some sub =>
        -- `cb_level_` is raised while the sub-machine runs / is stopped (patches/C16-02)
        let down : Ctx := (m.mid, { m.rt with cbLevel := m.rt.cbLevel + 1 }) :: ctx
        let r := ops.run down sub e
        if !ops.isTerminated r.1 then (m.setSub c r.1, r.2.1, lift c r.2.2)
        else
          let s := ops.stop down r.1
          let x := runOwn ops ctx (m.setSub c s.1) c e
          (x.1, x.2.1, lift c (r.2.2 ++ s.2) ++ x.2.2)

def levelOps (ops : SubOps Ctx Sub) : SubOps Ctx (M Sub) :=
  { start := start ops, stop := stop ops, run := run ops, isTerminated := isTerminated,
    isRunning := fun m => m.rt.running }

end Level

/-- a machine with at most `n` levels of sub-machines below it -/
def Mach : Nat → Type
  | 0 => MachOf Rt Empty
  | n + 1 => MachOf Rt (Mach n)

def subOps : (n : Nat) → SubOps Ctx (Mach n)
  | 0 => levelOps emptyOps
  | n + 1 => levelOps (subOps n)

/-- apply one API call to the root machine (no ancestors): new machine, return value (`false`
for `stop`), trace -/
def applyCall (n : Nat) (m : Mach n) (c : Call) : Mach n × Bool × Trace :=
  match c with
  | .start => (subOps n).start [] m
  | .stop => let r := (subOps n).stop [] m; (r.1, false, r.2)
  | .restart =>
      let s := (subOps n).stop [] m
      let r := (subOps n).start [] s.1
      (r.1, r.2.1, s.2 ++ r.2.2)
  | .run e => (subOps n).run [] m e
  | .defn _ => (m, false, [])      -- not a call of the tree model

/-- the run-time record of the root -/
def rootRt : (n : Nat) → Mach n → Rt
  | 0, m => m.rt
  | _ + 1, m => m.rt

/-- run a call sequence; the observable is, per call, (return value, trace, the root's five
observers after the call) -/
def exec (n : Nat) (m : Mach n) : List Call → Mach n × List (Bool × Trace × View)
  | [] => (m, [])
  | c :: cs =>
    let r := applyCall n m c
    let rest := exec n r.1 cs
    (rest.1, (r.2.1, r.2.2, (rootRt n r.1).view) :: rest.2)

/-! ### the definition API (`newState / addRoute / addEvent / setInitState / setSubStateMachine /
setStateChangedCallback`); `is_running_` is false throughout the definition phase -/
namespace Build
variable {R Sub : Type}

def newState (m : MachOf R Sub) (id : StateId) (enter exit : Option Script) : MachOf R Sub × Bool :=
  if (m.states.find? (fun s => s.id == id)).isSome then (m, false)
  else
    let st : StateDef Sub := { id := id, enter := enter, exit := exit, routes := [], events := [], dflt := none, sub := none }
    ({ m with states := m.states ++ [st], init := if m.init = -1 then id else m.init }, true)

def updState (sid : StateId) (f : StateDef Sub → StateDef Sub) : List (StateDef Sub) → List (StateDef Sub)
  | [] => []
  | s :: rest => if s.id == sid then f s :: rest else s :: updState sid f rest

def addRoute (m : MachOf R Sub) (src : StateId) (r : Route) : MachOf R Sub × Bool :=
  match m.findState src with
  | none => (m, false)
  | some _ =>
    if r.to ≠ 0 && (m.findState r.to).isNone then (m, false)
    else ({ m with states := updState src (fun s => { s with routes := s.routes ++ [r] }) m.states }, true)

def addEvent (m : MachOf R Sub) (sid : StateId) (ev : EventId) (h : Handler) : MachOf R Sub × Bool :=
  match m.findState sid with
  | none => (m, false)
  | some _ =>
    if ev ≠ 0 then
      ({ m with states := updState sid (fun s =>
          { s with events := (s.events.filter (fun p => p.1 != ev)) ++ [(ev, h)] }) m.states }, true)
    else
      ({ m with states := updState sid (fun s => { s with dflt := some h }) m.states }, true)

def setInitState (m : MachOf R Sub) (id : StateId) : MachOf R Sub := { m with init := id }

def setSubStateMachine (m : MachOf R Sub) (sid : StateId) (x : Sub) : MachOf R Sub × Bool :=
  match m.findState sid with
  | none => (m, false)
  | some _ => ({ m with states := updState sid (fun s => { s with sub := some x }) m.states }, true)

def setStateChangedCallback (m : MachOf R Sub) (cb : Script) : MachOf R Sub := { m with cb := some cb }

end Build

end Tbox.C16
