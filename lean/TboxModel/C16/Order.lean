/-
C16 — helper lemmas for `C16_first_match` (the `find_if` of the model picks the first eligible
route) and `C16_order_once` (the own phase events of one `run()` call).
-/
import TboxModel.C16.Balance
import TboxModel.C16.Spec
set_option linter.unusedSimpArgs false
set_option linter.unusedVariables false
namespace Tbox.C16

/-- a route can be taken on `e`: its event matches (or is the wildcard) and its guard holds -/
def eligible (r : Route) (e : Event) : Bool := r.matchesEvent e && Spec.holds r e

theorem routeScan_first (sid : StateId) (self : Nat) (rt : Rt) (ctx : Ctx) (e : Event) (k : Nat) (rs : List Route) :
    match (routeScan sid self rt ctx e k rs).1 with
    | some (i, r) => k ≤ i ∧ rs[i - k]? = some r ∧ eligible r e = true ∧ ∀ r' ∈ rs.take (i - k), eligible r' e = false
    | none => ∀ r' ∈ rs, eligible r' e = false := by
  induction rs generalizing k with
  | nil => simp [routeScan]
  | cons r rs ih =>
    unfold routeScan
    by_cases hm : r.matchesEvent e = true
    · simp only [hm, Bool.not_true, Bool.false_eq_true, if_false]
      cases hg : r.guard with
      | none => simp [eligible, hm, Spec.holds, hg]
      | some g =>
        simp only []
        by_cases hv : g.eval e = true
        · simp [eligible, hm, Spec.holds, hg, hv]
        · simp only [hv, if_false]
          have hne : eligible r e = false := by simp [eligible, hm, Spec.holds, hg, hv]
          have := ih (k + 1)
          cases hx : (routeScan sid self rt ctx e (k + 1) rs).1 with
          | none =>
            rw [hx] at this
            simp only at this ⊢
            intro r' hr'
            rcases List.mem_cons.1 hr' with h | h
            · subst h; exact hne
            · exact this r' h
          | some ir =>
            obtain ⟨i, r1⟩ := ir
            rw [hx] at this
            simp only at this ⊢
            obtain ⟨h1, h2, h3, h4⟩ := this
            have hik : i - k = (i - (k + 1)) + 1 := by omega
            refine ⟨by omega, ?_, h3, ?_⟩
            · rw [hik, List.getElem?_cons_succ]; exact h2
            · rw [hik, List.take_succ_cons]
              intro r' hr'
              rcases List.mem_cons.1 hr' with h | h
              · subst h; exact hne
              · exact h4 r' h
    · have hm' : r.matchesEvent e = false := by simpa using hm
      have hne : eligible r e = false := by simp [eligible, hm']
      simp only [hm', Bool.not_false, if_true]
      have := ih (k + 1)
      cases hx : (routeScan sid self rt ctx e (k + 1) rs).1 with
      | none =>
        rw [hx] at this
        simp only at this ⊢
        intro r' hr'
        rcases List.mem_cons.1 hr' with h | h
        · subst h; exact hne
        · exact this r' h
      | some ir =>
        obtain ⟨i, r1⟩ := ir
        rw [hx] at this
        simp only at this ⊢
        obtain ⟨h1, h2, h3, h4⟩ := this
        have hik : i - k = (i - (k + 1)) + 1 := by omega
        refine ⟨by omega, ?_, h3, ?_⟩
        · rw [hik, List.getElem?_cons_succ]; exact h2
        · rw [hik, List.take_succ_cons]
          intro r' hr'
          rcases List.mem_cons.1 hr' with h | h
          · subst h; exact hne
          · exact h4 r' h

/-! ### the phase events of the machine itself -/

def isPhase : Kind → Bool
  | .enter .. => true
  | .exit .. => true
  | .action .. => true
  | .notify .. => true
  | _ => false

/-- exit / transition action / enter / notification events of the machine itself, in order -/
def phases : Trace → List Kind
  | [] => []
  | ev :: t => if ev.path.isEmpty && isPhase ev.kind then ev.kind :: phases t else phases t

theorem phases_append (a b : Trace) : phases (a ++ b) = phases a ++ phases b := by
  induction a with
  | nil => rfl
  | cons ev a ih => simp only [List.cons_append, phases]; split <;> simp [ih]

theorem phases_lift (c : StateId) (t : Trace) : phases (lift c t) = [] := by
  induction t with
  | nil => rfl
  | cons ev t ih => simp only [lift, List.map_cons, phases] at ih ⊢; simp [ih]

theorem scriptCall_notPhase (rt : Rt) (t : Option Nat) (c : Call) : isPhase (scriptCall rt t c) = false := by
  cases c <;> simp only [scriptCall]
  · cases startReject rt <;> rfl
  · cases stopReject rt <;> rfl
  · cases stopReject rt
    · rfl
    · cases startReject rt <;> rfl
  · cases runReject rt <;> rfl
  · rfl

theorem scriptOp_notPhase (self : Nat) (rt : Rt) (ctx : Ctx) (op : SOp) : isPhase (scriptOp self rt ctx op) = false := by
  cases op with
  | obs t => simp only [scriptOp]; cases targetRt self rt ctx t <;> rfl
  | call t c =>
    simp only [scriptOp]
    cases targetRt self rt ctx t with
    | none => rfl
    | some r => exact scriptCall_notPhase r t c

theorem phases_runScript (self : Nat) (rt : Rt) (ctx : Ctx) (sc : Script) : phases (runScript self rt ctx sc) = [] := by
  unfold runScript
  induction sc with
  | nil => rfl
  | cons op rest ih =>
    simp only [List.map_cons, phases]
    have : isPhase (here (scriptOp self rt ctx op)).kind = false := scriptOp_notPhase self rt ctx op
    simp only [this, Bool.and_false, Bool.false_eq_true, if_false]
    exact ih

theorem phases_probe (mk : Bool → Kind) (p : Option Script) (self : Nat) (rt : Rt) (ctx : Ctx) (h : ∀ b, isPhase (mk b) = true) :
    phases (probe mk p self rt ctx) = [mk p.isSome] := by
  unfold probe
  simp only [phases, here, List.isEmpty_nil, h, Bool.and_self, if_true]
  cases p with
  | none => rfl
  | some sc => simp [phases_runScript]

theorem phases_probe_exit (s : StateId) (e : Event) (p : Option Script) (self : Nat) (rt : Rt) (ctx : Ctx) :
    phases (probe (.exit s e) p self rt ctx) = [.exit s e p.isSome] := phases_probe _ _ _ _ _ (fun _ => rfl)
theorem phases_probe_enter (s : StateId) (e : Event) (p : Option Script) (self : Nat) (rt : Rt) (ctx : Ctx) :
    phases (probe (.enter s e) p self rt ctx) = [.enter s e p.isSome] := phases_probe _ _ _ _ _ (fun _ => rfl)
theorem phases_probe_action (s : StateId) (ri : Option Nat) (e : Event) (p : Option Script) (self : Nat) (rt : Rt) (ctx : Ctx) :
    phases (probe (.action s ri e) p self rt ctx) = [.action s ri e p.isSome] := phases_probe _ _ _ _ _ (fun _ => rfl)
theorem phases_probe_notify (a b : StateId) (e : Event) (p : Option Script) (self : Nat) (rt : Rt) (ctx : Ctx) :
    phases (probe (.notify a b e) p self rt ctx) = [.notify a b e p.isSome] := phases_probe _ _ _ _ _ (fun _ => rfl)

theorem phases_handlerPhase {Sub : Type} (cs : StateDef Sub) (self : Nat) (rt : Rt) (ctx : Ctx) (e : Event) : phases (handlerPhase cs self rt ctx e).2 = [] := by
  unfold handlerPhase
  split
  · simp [phases, here, isPhase, phases_runScript]
  · split
    · simp [phases, here, isPhase, phases_runScript]
    · rfl

theorem phases_routeScan (sid : StateId) (self : Nat) (rt : Rt) (ctx : Ctx) (e : Event) (i : Nat) (rs : List Route) :
    phases (routeScan sid self rt ctx e i rs).2 = [] := by
  induction rs generalizing i with
  | nil => rfl
  | cons r rs ih =>
    unfold routeScan
    split
    · exact ih _
    · split
      · rfl
      · split
        · simp [phases, here, isPhase, phases_runScript]
        · simp [phases_append, phases, here, isPhase, phases_runScript, ih]

/-- what one `run()` call contributes at the machine's own level -/
def OrderOnce (before after : Option StateId) (e : Event) (tr : Trace) : Prop :=
  (phases tr = [] ∧ after = before) ∨
  ∃ a b ri h1 h2 h3 h4, before = some a ∧ after = some b ∧
    phases tr = [.exit a e h1, .action a ri e h2, .enter b e h3, .notify a b e h4]

section
variable {Sub : Type}

theorem transition_order (ops : SubOps Ctx Sub) (ctx : Ctx) (m : M Sub) (c : StateId) (hc : m.rt.curr = some c) (e : Event)
    (nextId : StateId) (ridx : Option Nat) (action : Option Script) :
    OrderOnce m.rt.curr (transition ops ctx m c e nextId ridx action).1.rt.curr e
      (transition ops ctx m c e nextId ridx action).2.2 := by
  unfold transition
  cases m.resolve nextId with
  | none => exact Or.inl ⟨rfl, rfl⟩
  | some ts =>
    simp only []
    refine Or.inr ⟨c, ts.id, ridx, (m.stateOf c).exit.isSome, action.isSome, ts.enter.isSome, m.cb.isSome, hc, ?_, ?_⟩
    · cases ts.sub <;> rfl
    · cases ts.sub <;>
        simp only [phases_append, phases_lift, List.append_nil, phases_probe_exit, phases_probe_enter,
          phases_probe_action, phases_probe_notify] <;> rfl

theorem runOwn_order (ops : SubOps Ctx Sub) (ctx : Ctx) (m : M Sub) (c : StateId) (hc : m.rt.curr = some c) (e : Event) :
    OrderOnce m.rt.curr (runOwn ops ctx m c e).1.rt.curr e (runOwn ops ctx m c e).2.2 := by
  unfold runOwn
  simp only []
  split
  · split
    · exact Or.inl ⟨by simp [phases_append, phases_handlerPhase, phases_routeScan], rfl⟩
    · rename_i i r _
      have := transition_order ops ctx m c hc e r.to (some i) r.action
      unfold OrderOnce at this ⊢
      simpa [phases_append, phases_handlerPhase, phases_routeScan] using this
  · have := transition_order ops ctx m c hc e
      (handlerPhase (m.stateOf c) m.mid ⟨m.rt.running, m.rt.curr, m.rt.last, m.rt.next, m.rt.cbLevel + 1⟩ ctx e).1 none none
    unfold OrderOnce at this ⊢
    simpa [phases_append, phases_handlerPhase] using this

theorem run_order (ops : SubOps Ctx Sub) (ctx : Ctx) (m : M Sub) (e : Event) :
    OrderOnce m.rt.curr (run ops ctx m e).1.rt.curr e (run ops ctx m e).2.2 := by
  unfold run
  split
  · exact Or.inl ⟨rfl, rfl⟩
  · cases hc : m.rt.curr with
    | none => simp only []; exact Or.inl ⟨by simp [phases, here, isPhase], hc⟩
    | some c =>
      simp only []
      cases (m.stateOf c).sub with
      | none => simp only []; rw [← hc]; exact runOwn_order ops ctx m c hc e
      | some sub =>
        simp only []
        split
        · exact Or.inl ⟨phases_lift _ _, hc⟩
        · have := runOwn_order ops ctx (m.setSub c (ops.stop ((m.mid, ⟨m.rt.running, m.rt.curr, m.rt.last, m.rt.next, m.rt.cbLevel + 1⟩) :: ctx) (ops.run ((m.mid, ⟨m.rt.running, m.rt.curr, m.rt.last, m.rt.next, m.rt.cbLevel + 1⟩) :: ctx) sub e).1).1) c (by simpa using hc) e
          unfold OrderOnce at this ⊢
          simp only [setSub_rt, hc] at this ⊢
          simpa [phases_append, phases_lift] using this

end
end Tbox.C16
