/-
C16 — PROPERTY THEOREMS.  Helper lemmas live in Inv / InvProofs / Refine / Balance / Order / Exec.

Property: "For any hierarchy of state machines and any event sequence, the observable trace of
guard evaluations, exit / transition / enter actions, state-changed notifications and reported
current state equals that of the reference semantics […].  Exit, transition and enter actions
run in that order exactly once per transition, and enter/exit actions are balanced at every
nesting level: every state entered has been exited exactly once by the time the machine is
stopped.  Calls made on a machine from inside its own actions are rejected without changing its
state."

`Mach n` = a machine with at most `n` levels of sub-machines below it; every theorem quantifies
over all `n`, all machines of that depth and all call sequences.  The model (`exec`) is
state_machine.cpp with patches/C16-01 and C16-02; the code without them is `aCall` of Arena.lean
with the corresponding `Fix`, where the counterexamples are proved.  Callbacks may observe and
call their own machine and every ancestor; other targets are `foreign` to these theorems (the
arena model executes them, tied to the C++ by the differential check only).
-/
import TboxModel.C16.Exec
import TboxModel.C16.Order
import TboxModel.C16.Arena
set_option linter.unusedSimpArgs false
set_option linter.unusedVariables false
namespace Tbox.C16

/-! ### C16_conforms -/

/-- **Refinement.** From any state between calls (in particular a freshly built hierarchy), for
every call sequence: the model and the reference semantics produce the same return values, the
same global trace (guard evaluations, handlers, exit/action/enter, notifications, callback
observations) and the same `currentState/lastState/nextState/isRunning/isTerminated` after every
call, and end in corresponding states. -/
theorem C16_conforms (n : Nat) (m : Mach n) (hm : Inv n m) (calls : List Call) :
    (exec n m calls).2 = (Spec.exec n (abs n m) calls).2 ∧
    abs n (exec n m calls).1 = (Spec.exec n (abs n m) calls).1 ∧
    Inv n (exec n m calls).1 := by
  induction calls generalizing m with
  | nil => exact ⟨rfl, rfl, hm⟩
  | cons c cs ih =>
    have h1 := applyCall_inv n m c hm
    have h2 := applyCall_ref n m c hm
    have ih' := ih (applyCall n m c).1 h1.1
    have hv := rootView_abs n _ h1.1
    simp only [exec, Spec.exec]
    rw [← h2]
    simp only []
    exact ⟨by rw [ih'.1, hv], ih'.2.1, ih'.2.2⟩

theorem C16_conforms_fresh (n : Nat) (m : Mach n) (hm : Fresh n m) (calls : List Call) :
    (exec n m calls).2 = (Spec.exec n (abs n m) calls).2 :=
  (C16_conforms n m (fresh_inv n m hm).1 calls).1

/-! ### C16_reentrancy_rejected -/

/-- **Re-entrancy, whole hierarchy.** Every call (`start/stop/restart/run`) that a callback of
any machine of the hierarchy makes on its own machine OR ON ANY OF ITS ANCESTORS — all of which
are inside a call at that moment: the parent is delegating the event, starting or stopping the
sub-machine — returns false, and the five observers of the addressed machine read the same
before and after; the behaviour the model leaves undescribed (`unmodelled`: a call let through
by the entry checks, a null `curr_state_`) never occurs.  (Without patches/C16-02 this is false:
`C16_reentrancy_counterexample_unpatched`.) -/
theorem C16_reentrancy_rejected (n : Nat) (m : Mach n) (hm : Inv n m) (calls : List Call) :
    ∀ r ∈ (exec n m calls).2, ∀ ev ∈ r.2.1,
      match ev.kind with
      | .call _ _ res before after => res = false ∧ after = before
      | .unmodelled => False
      | _ => True := by
  induction calls generalizing m with
  | nil => intro r hr; cases hr
  | cons c cs ih =>
    have h1 := applyCall_inv n m c hm
    intro r hr
    simp only [exec] at hr
    cases hr with
    | head => exact h1.2
    | tail _ h => exact ih _ h1.1 r h

/-! ### C16_balanced -/

/-- **Balance at every nesting level.** After any call sequence on a freshly built hierarchy,
for the root and recursively for every sub-machine (with its part of the global trace): for
every state `s`, #entered s − #exited s = 1 if `s` is the machine's current state, else 0.
(`enter`/`exit` events are counted whether or not the user supplied a callback.) -/
theorem C16_balanced (n : Nat) (m : Mach n) (hm : Fresh n m) (calls : List Call) :
    Bal n (exec n m calls).1 (allTrace (exec n m calls).2) := by
  have h := fresh_inv n m hm
  simpa using exec_bal n m h.1 [] h.2.2 calls

/-- **"… by the time the machine is stopped".** If after a call sequence on a fresh hierarchy the
root is not running (e.g. the sequence ends with `stop`), then at every nesting level every state
has been exited exactly as often as it was entered — in particular no sub-machine is left
running. -/
theorem C16_balanced_after_stop (n : Nat) (m : Mach n) (hm : Fresh n m) (calls : List Call)
    (hstopped : (rootRt n (exec n m calls).1).running = false) :
    AllExited n (exec n m calls).1 (allTrace (exec n m calls).2) := by
  have h := fresh_inv n m hm
  have hi := (C16_conforms n m h.1 calls).2.2
  refine stopped_allExited n _ _ hi ?_ (C16_balanced n m hm calls)
  cases n with
  | zero => exact hstopped
  | succ k => exact hstopped


/-! ### the defects: the code without the patches violates the statement (arena model, `Fix`) -/

def leaf (k : Nat) (sid : StateId) : ARec :=
  { mid := k, init := sid, cb := none, rt := {},
    states := [{ id := sid, enter := some [], exit := some [], routes := [], events := [], dflt := none, sub := none }] }

/-- machine 1 = one state whose sub-machine is machine 0 (one state) -/
def cexArena : Arena :=
  [leaf 0 1,
   { mid := 1, init := 1, cb := none, rt := {},
     states := [{ id := 1, enter := some [], exit := some [], routes := [], events := [], dflt := none, sub := some 0 }] }]

def aSeq (fix : Fix) (g : Arena) (k : Nat) : List Call → Arena × ATrace
  | [] => (g, [])
  | c :: cs => let r := aCall fix (fuelFor g) g k c; let x := aSeq fix r.1 k cs; (x.1, r.2.2 ++ x.2)

def countOf (p : Kind → Bool) (k : Nat) (t : ATrace) : Nat := (t.filter fun ev => ev.mid == k && p ev.kind).length

/-- **DESIGN §7 row 9, code as found in round 1** (`Fix` = none): `start(); stop()` on a machine
whose initial state has a sub-machine leaves the root stopped while the sub-machine is still
running, its state 1 entered once and never exited; a second `start()` does not enter it again. -/
theorem C16_balanced_counterexample_unpatched :
    let r := aSeq ⟨false, false⟩ cexArena 1 [.start, .stop]
    (r.1.get 1).rt.running = false ∧ (r.1.get 0).rt.running = true ∧
    countOf (fun k => match k with | .enter 1 _ _ => true | _ => false) 0 r.2 = 1 ∧
    countOf (fun k => match k with | .exit 1 _ _ => true | _ => false) 0 r.2 = 0 ∧
    countOf (fun k => match k with | .enter 1 _ _ => true | _ => false) 0
      (aSeq ⟨false, false⟩ cexArena 1 [.start, .stop, .start]).2 = 1 := by
  decide

/-- machine 0: state 1 --ev 1--> terminal state; its state-changed callback calls `run(2)` on
machine 1, the parent, whose state 1 carries machine 0 and which goes 1 --ev 2--> 2 -/
def cexUp : Arena :=
  [{ mid := 0, init := 1, cb := some [.call (some 1) (.run ⟨2, 0⟩)], rt := {},
     states := [{ id := 1, enter := none, exit := none, routes := [⟨1, 0, none, none⟩], events := [], dflt := none, sub := none }] },
   { mid := 1, init := 1, cb := none, rt := {},
     states := [{ id := 1, enter := none, exit := none, routes := [⟨2, 2, none, none⟩], events := [], dflt := none, sub := some 0 },
                { id := 2, enter := none, exit := none, routes := [], events := [], dflt := none, sub := none }] }]

def isAcceptedCall (k : Kind) : Bool :=
  match k with
  | .call _ _ res before after => res || before != after
  | _ => false

/-- **Code as found in round 2** (patches/C16-01 only): while the parent's `run(1)` is delegating
to the sub-machine, the sub-machine's state-changed callback calls `parent.run(2)`; the call is
ACCEPTED (returns true) and moves the parent from state 1 to state 2 under its own running
`run()`, which then dereferences the sub-machine pointer of state 2 — null (`unmodelled`; the C++
crashes there: replay in corpus/C16).  With patches/C16-02 the same call is rejected and nothing
is left undescribed. -/
theorem C16_reentrancy_counterexample_unpatched :
    let bad := aSeq ⟨true, false⟩ cexUp 1 [.start, .run ⟨1, 0⟩]
    let good := aSeq Fix.all cexUp 1 [.start, .run ⟨1, 0⟩]
    (bad.2.any fun ev => isAcceptedCall ev.kind) = true ∧
    (bad.2.any fun ev => ev.kind == .unmodelled) = true ∧
    (bad.1.get 1).rt.curr = some 2 ∧
    (good.2.any fun ev => isAcceptedCall ev.kind) = false ∧
    (good.2.any fun ev => ev.kind == .unmodelled) = false ∧
    (good.2.any fun ev => match ev.kind with | .call (some 1) _ false _ _ => true | _ => false) = true := by
  decide

/-! the same definitions as trees, for the non-vacuity examples of the theorems above -/

def cexSub : Mach 0 :=
  { mid := 0, init := 1, cb := none, rt := {},
    states := [{ id := 1, enter := some [], exit := some [], routes := [], events := [], dflt := none, sub := none }] }

def cexRoot : Mach 1 :=
  { mid := 1, init := 1, cb := none, rt := {},
    states := [{ id := 1, enter := some [], exit := some [], routes := [], events := [], dflt := none, sub := some cexSub }] }

theorem cexRoot_fresh : Fresh 1 cexRoot := by
  refine ⟨rfl, ?_⟩
  intro sid st x hf hs
  have hid := findState_id _ _ _ hf
  unfold MachOf.findState at hf
  split at hf
  · cases hf
  · simp only [cexRoot, List.find?_cons] at hf
    split at hf
    · cases hf; cases hs
      exact ⟨rfl, fun sid st x _ _ => x.elim⟩
    · simp at hf

/-- non-vacuity of the hypotheses `Fresh` / `Inv` used above -/
example : Fresh 1 cexRoot ∧ Inv 1 cexRoot := ⟨cexRoot_fresh, (fresh_inv 1 cexRoot cexRoot_fresh).1⟩

/-- with the repairs the sequence of the first counterexample is balanced -/
example : ownDelta 1 (subTrace 1 (allTrace (exec 1 cexRoot [.start, .stop]).2)) = 0 ∧
    (rootRt 1 (exec 1 cexRoot [.start, .stop]).1).running = false := by decide

/-- `cexUp` as a tree: the upward call is made and rejected (non-vacuity of `C16_reentrancy_rejected`) -/
def cexUpSub : Mach 0 :=
  { mid := 0, init := 1, cb := some [.call (some 1) (.run ⟨2, 0⟩)], rt := {},
    states := [{ id := 1, enter := none, exit := none, routes := [⟨1, 0, none, none⟩], events := [], dflt := none, sub := none }] }

def cexUpTree : Mach 1 :=
  { mid := 1, init := 1, cb := none, rt := {},
    states := [{ id := 1, enter := none, exit := none, routes := [⟨2, 2, none, none⟩], events := [], dflt := none, sub := some cexUpSub },
               { id := 2, enter := none, exit := none, routes := [], events := [], dflt := none, sub := none }] }

example : ((allTrace (exec 1 cexUpTree [.start, .run ⟨1, 0⟩]).2).any fun ev =>
    match ev.kind with | .call (some 1) (.run ⟨2, 0⟩) false _ _ => true | _ => false) = true := by decide

/-! ### C16_first_match -/

/-- **First match.** The route the model's `find_if` selects for event `e` (index `i` in
registration order) is eligible — its event is `e` or the wildcard and its guard (if any) holds —
and no route registered before it is eligible; if it selects none, no route is eligible.  (By
`C16_conforms` this is also the route of the reference semantics, `Spec.chosen`.) -/
theorem C16_first_match (sid : StateId) (self : Nat) (rt : Rt) (ctx : Ctx) (e : Event) (rs : List Route) :
    match (routeScan sid self rt ctx e 0 rs).1 with
    | some (i, r) => rs[i]? = some r ∧ eligible r e = true ∧ ∀ r' ∈ rs.take i, eligible r' e = false
    | none => ∀ r' ∈ rs, eligible r' e = false := by
  have := routeScan_first sid self rt ctx e 0 rs
  cases h : (routeScan sid self rt ctx e 0 rs).1 with
  | none => rw [h] at this; exact this
  | some ir =>
    obtain ⟨i, r⟩ := ir
    rw [h] at this
    simp only [Nat.sub_zero] at this ⊢
    exact this.2

/-- non-vacuity: a later specific route wins over an earlier wildcard whose guard fails -/
example : (routeScan 1 0 {} [] ⟨2, 0⟩ 0
    [⟨0, 3, some ⟨[5], []⟩, none⟩, ⟨1, 4, none, none⟩, ⟨2, 5, some ⟨[2], []⟩, none⟩, ⟨0, 6, none, none⟩]).1
    = some (2, ⟨2, 5, some ⟨[2], []⟩, none⟩) := by decide

/-! ### C16_order_once -/

/-- **Order, exactly once.** In one `run(e)` call a machine of any depth either performs no phase
of its own (no exit/transition/enter action, no notification; its current state is unchanged —
the event was refused, consumed by the sub-machine, or matched nothing), or exactly one
transition `a → b`: its own phase events are, in this order and once each, exit `a`, the
transition action, enter `b`, the state-changed notification `a → b`.  (Sub-machines are
machines: the statement applies to them at their own level.) -/
theorem C16_order_once (n : Nat) (ctx : Ctx) (m : Mach n) (e : Event) :
    OrderOnce (rootRt n m).curr (rootRt n ((subOps n).run ctx m e).1).curr e ((subOps n).run ctx m e).2.2 := by
  cases n with
  | zero => exact run_order emptyOps ctx m e
  | succ k => exact run_order (subOps k) ctx m e

/-- non-vacuity: `cexRoot` extended with a route does take a transition with all four phases -/
example : phases ((subOps 0).run []
      ({ mid := 0, init := 1, cb := some [], rt := { running := true, curr := some 1 },
         states := [{ id := 1, enter := none, exit := some [.obs none], routes := [⟨0, 0, none, some []⟩], events := [],
                      dflt := none, sub := none }] } : Mach 0) ⟨7, 3⟩).2.2
    = [.exit 1 ⟨7, 3⟩ true, .action 1 (some 0) ⟨7, 3⟩ true, .enter 0 ⟨7, 3⟩ false, .notify 1 0 ⟨7, 3⟩ true] := by decide

end Tbox.C16
