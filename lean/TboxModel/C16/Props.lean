/-
C16 — PROPERTY THEOREMS.  Helper lemmas live in Inv / InvProofs / Refine / Balance / Order / Exec.

Property: "For any hierarchy of state machines and any event sequence, the observable trace of
guard evaluations, exit / transition / enter actions, state-changed notifications and reported
current state equals that of the reference semantics […].  Exit, transition and enter actions
run in that order exactly once per transition, and enter/exit actions are balanced at every
nesting level: every state entered has been exited exactly once by the time the machine is
stopped.  Calls made on a machine from inside its own actions are rejected without changing its
state."

`Mach n` = a machine with at most `n` levels of sub-machines below it; every theorem quantifies
over all `n`, all machines of that depth and all call sequences.  The model (`exec`) is
state_machine.cpp with patches/C16-01 and C16-02; the code without them is `aCall` of Arena.lean
with the corresponding `Fix`, where the counterexamples are proved.  Callbacks may observe and
call their own machine and every ancestor; other targets are `foreign` to the TREE theorems.

Everything else the API allows — callbacks calling ANY machine object, calls addressed directly
to a sub-machine, one machine object attached to several states / parents, definition calls after
a machine has run — is the ARENA model (`aCall`, `aProg`); section "arena" below proves, per
machine OBJECT and for every program: balance, idle-between-calls, re-entrancy rejected, frame.

What is OUTSIDE the quantifier of the statement ("any hierarchy", "every sequence of
start/run(event)/stop/restart calls"), decided in this round:
* a machine object shared by two PARENTS, or stopped/started by a direct call while its parent
  uses it, is not a hierarchy: the per-object theorems still hold (it is entered and exited once
  per start/stop, whoever calls), but the parent-relative clause "events go to the active
  sub-machine until it has terminated" does not — `C16_arena_shared_sub_stranded` is the witness
  (the second parent keeps delegating to a sub-machine the first parent stopped, and never handles
  the event itself).  Sharing between two states of ONE parent is inside the tree reading and
  harmless (a parent leaves a state only after stopping its sub-machine).
* destroying a machine (`delete` from inside one of its own callbacks, or while running) is not one
  of the four calls; `~Impl` asserts `cb_level_ == 0` and runs no exit action.  Not modelled.
* definition calls issued WHILE THE MACHINES RUN (from callback bodies) are not among the four calls
  of the quantifier, but the API allows them and round 3 models them (ArenaDef.lean, `dCall`; theorems
  in PropsDef.lean): `newState/addRoute/addEvent/setSubStateMachine` test `is_running_` and are refused
  on every running machine — in particular on the machine whose callback is executing, so the `routes`
  vector an in-flight `find_if` iterates is never modified (`C16_def_scan_table_stable`);
  `setInitState/setStateChangedCallback` have no check and are performed at any point of a transition
  (`C16_def_init_and_cb_not_refused`): the last sentence of the statement ("calls made on a machine
  from inside its own actions are rejected") is about the four calls of the quantifier, and per
  machine object balance / order / rejection of those four hold whatever definition calls callbacks
  issue (`C16_def_arena_*`).  `setStateChangedCallback` from inside the notification replaces the
  executing `std::function` (the C++ destroys the closure that is running: a user closure that touches
  its captures afterwards reads freed memory; the harness's closure works on copies); the code itself
  touches nothing of the old closure after the assignment, the model runs the script it read.
* the handler-return convention: state_machine.h documents "< 0 = no state change, >= 0 = change
  state"; the statement says "a per-state event handler MAY pick the target, otherwise the first
  route …".  The code as found tested `== -1` only: an answer of -2 reached "Should not happen" and
  run() returned false WITHOUT scanning the routes (`C16_handler_negative_counterexample_unpatched`).
  Decided a defect (patches/C16-03: `< 0`); model, reference semantics and arena follow the repair
  (`C16_handler_negative_falls_through`).
* attachment cycles: `start/stop/run` terminate on them (the re-entrancy guard cuts the recursion:
  `good_aCall` needs no acyclicity), `toJson` does not (unbounded recursion); not a hierarchy.
-/
import TboxModel.C16.Exec
import TboxModel.C16.Order
import TboxModel.C16.Arena
import TboxModel.C16.ArenaProg
import TboxModel.C16.ArenaFuel
import TboxModel.C16.ArenaOrder
import TboxModel.C16.ArenaSafe
import TboxModel.C16.GuardOrder
set_option linter.unusedSimpArgs false
set_option linter.unusedVariables false
namespace Tbox.C16

/-! ### C16_conforms -/

/-- **Refinement.** From any state between calls (in particular a freshly built hierarchy), for
every call sequence: the model and the reference semantics produce the same return values, the
same global trace (guard evaluations, handlers, exit/action/enter, notifications, callback
observations) and the same `currentState/lastState/nextState/isRunning/isTerminated` after every
call, and end in corresponding states. -/
theorem C16_conforms (n : Nat) (m : Mach n) (hm : Inv n m) (calls : List Call) :
    (exec n m calls).2 = (Spec.exec n (abs n m) calls).2 ∧
    abs n (exec n m calls).1 = (Spec.exec n (abs n m) calls).1 ∧
    Inv n (exec n m calls).1 := by
  induction calls generalizing m with
  | nil => exact ⟨rfl, rfl, hm⟩
  | cons c cs ih =>
    have h1 := applyCall_inv n m c hm
    have h2 := applyCall_ref n m c hm
    have ih' := ih (applyCall n m c).1 h1.1
    have hv := rootView_abs n _ h1.1
    simp only [exec, Spec.exec]
    rw [← h2]
    simp only []
    exact ⟨by rw [ih'.1, hv], ih'.2.1, ih'.2.2⟩

theorem C16_conforms_fresh (n : Nat) (m : Mach n) (hm : Fresh n m) (calls : List Call) :
    (exec n m calls).2 = (Spec.exec n (abs n m) calls).2 :=
  (C16_conforms n m (fresh_inv n m hm).1 calls).1

/-! ### C16_reentrancy_rejected -/

/-- **Re-entrancy, whole hierarchy.** Every call (`start/stop/restart/run`) that a callback of
any machine of the hierarchy makes on its own machine OR ON ANY OF ITS ANCESTORS — all of which
are inside a call at that moment: the parent is delegating the event, starting or stopping the
sub-machine — returns false, and the five observers of the addressed machine read the same
before and after; the behaviour the model leaves undescribed (`unmodelled`: a call let through
by the entry checks, a null `curr_state_`) never occurs.  (Without patches/C16-02 this is false:
`C16_reentrancy_counterexample_unpatched`.) -/
theorem C16_reentrancy_rejected (n : Nat) (m : Mach n) (hm : Inv n m) (calls : List Call) :
    ∀ r ∈ (exec n m calls).2, ∀ ev ∈ r.2.1,
      match ev.kind with
      | .call _ _ res before after => res = false ∧ after = before
      | .unmodelled => False
      | _ => True := by
  induction calls generalizing m with
  | nil => intro r hr; cases hr
  | cons c cs ih =>
    have h1 := applyCall_inv n m c hm
    intro r hr
    simp only [exec] at hr
    cases hr with
    | head => exact h1.2
    | tail _ h => exact ih _ h1.1 r h

/-! ### C16_balanced -/

/-- **Balance at every nesting level.** After any call sequence on a freshly built hierarchy,
for the root and recursively for every sub-machine (with its part of the global trace): for
every state `s`, #entered s − #exited s = 1 if `s` is the machine's current state, else 0.
(`enter`/`exit` events are counted whether or not the user supplied a callback.) -/
theorem C16_balanced (n : Nat) (m : Mach n) (hm : Fresh n m) (calls : List Call) :
    Bal n (exec n m calls).1 (allTrace (exec n m calls).2) := by
  have h := fresh_inv n m hm
  simpa using exec_bal n m h.1 [] h.2.2 calls

/-- **"… by the time the machine is stopped".** If after a call sequence on a fresh hierarchy the
root is not running (e.g. the sequence ends with `stop`), then at every nesting level every state
has been exited exactly as often as it was entered — in particular no sub-machine is left
running. -/
theorem C16_balanced_after_stop (n : Nat) (m : Mach n) (hm : Fresh n m) (calls : List Call)
    (hstopped : (rootRt n (exec n m calls).1).running = false) :
    AllExited n (exec n m calls).1 (allTrace (exec n m calls).2) := by
  have h := fresh_inv n m hm
  have hi := (C16_conforms n m h.1 calls).2.2
  refine stopped_allExited n _ _ hi ?_ (C16_balanced n m hm calls)
  cases n with
  | zero => exact hstopped
  | succ k => exact hstopped


/-! ### the defects: the code without the patches violates the statement (arena model, `Fix`) -/

def leaf (k : Nat) (sid : StateId) : ARec :=
  { mid := k, init := sid, cb := none, rt := {},
    states := [{ id := sid, enter := some [], exit := some [], routes := [], events := [], dflt := none, sub := none }] }

/-- machine 1 = one state whose sub-machine is machine 0 (one state) -/
def cexArena : Arena :=
  [leaf 0 1,
   { mid := 1, init := 1, cb := none, rt := {},
     states := [{ id := 1, enter := some [], exit := some [], routes := [], events := [], dflt := none, sub := some 0 }] }]

def aSeq (fix : Fix) (g : Arena) (k : Nat) : List Call → Arena × ATrace
  | [] => (g, [])
  | c :: cs => let r := aCall fix (fuelFor g) g k c; let x := aSeq fix r.1 k cs; (x.1, r.2.2 ++ x.2)

def countOf (p : Kind → Bool) (k : Nat) (t : ATrace) : Nat := (t.filter fun ev => ev.mid == k && p ev.kind).length

/-- **DESIGN §7 row 9, code as found in round 1** (`Fix` = none): `start(); stop()` on a machine
whose initial state has a sub-machine leaves the root stopped while the sub-machine is still
running, its state 1 entered once and never exited; a second `start()` does not enter it again. -/
theorem C16_balanced_counterexample_unpatched :
    let r := aSeq ⟨false, false⟩ cexArena 1 [.start, .stop]
    (r.1.get 1).rt.running = false ∧ (r.1.get 0).rt.running = true ∧
    countOf (fun k => match k with | .enter 1 _ _ => true | _ => false) 0 r.2 = 1 ∧
    countOf (fun k => match k with | .exit 1 _ _ => true | _ => false) 0 r.2 = 0 ∧
    countOf (fun k => match k with | .enter 1 _ _ => true | _ => false) 0
      (aSeq ⟨false, false⟩ cexArena 1 [.start, .stop, .start]).2 = 1 := by
  decide

/-- machine 0: state 1 --ev 1--> terminal state; its state-changed callback calls `run(2)` on
machine 1, the parent, whose state 1 carries machine 0 and which goes 1 --ev 2--> 2 -/
def cexUp : Arena :=
  [{ mid := 0, init := 1, cb := some [.call (some 1) (.run ⟨2, 0⟩)], rt := {},
     states := [{ id := 1, enter := none, exit := none, routes := [⟨1, 0, none, none⟩], events := [], dflt := none, sub := none }] },
   { mid := 1, init := 1, cb := none, rt := {},
     states := [{ id := 1, enter := none, exit := none, routes := [⟨2, 2, none, none⟩], events := [], dflt := none, sub := some 0 },
                { id := 2, enter := none, exit := none, routes := [], events := [], dflt := none, sub := none }] }]

def isAcceptedCall (k : Kind) : Bool :=
  match k with
  | .call _ _ res before after => res || before != after
  | _ => false

/-- **Code as found in round 2** (patches/C16-01 only): while the parent's `run(1)` is delegating
to the sub-machine, the sub-machine's state-changed callback calls `parent.run(2)`; the call is
ACCEPTED (returns true) and moves the parent from state 1 to state 2 under its own running
`run()`, which then dereferences the sub-machine pointer of state 2 — null (`unmodelled`; the C++
crashes there: replay in corpus/C16).  With patches/C16-02 the same call is rejected and nothing
is left undescribed. -/
theorem C16_reentrancy_counterexample_unpatched :
    let bad := aSeq ⟨true, false⟩ cexUp 1 [.start, .run ⟨1, 0⟩]
    let good := aSeq Fix.all cexUp 1 [.start, .run ⟨1, 0⟩]
    (bad.2.any fun ev => isAcceptedCall ev.kind) = true ∧
    (bad.2.any fun ev => ev.kind == .unmodelled) = true ∧
    (bad.1.get 1).rt.curr = some 2 ∧
    (good.2.any fun ev => isAcceptedCall ev.kind) = false ∧
    (good.2.any fun ev => ev.kind == .unmodelled) = false ∧
    (good.2.any fun ev => match ev.kind with | .call (some 1) _ false _ _ => true | _ => false) = true := by
  decide

/-! the same definitions as trees, for the non-vacuity examples of the theorems above -/

def cexSub : Mach 0 :=
  { mid := 0, init := 1, cb := none, rt := {},
    states := [{ id := 1, enter := some [], exit := some [], routes := [], events := [], dflt := none, sub := none }] }

def cexRoot : Mach 1 :=
  { mid := 1, init := 1, cb := none, rt := {},
    states := [{ id := 1, enter := some [], exit := some [], routes := [], events := [], dflt := none, sub := some cexSub }] }

theorem cexRoot_fresh : Fresh 1 cexRoot := by
  refine ⟨rfl, ?_⟩
  intro sid st x hf hs
  have hid := findState_id _ _ _ hf
  unfold MachOf.findState at hf
  split at hf
  · cases hf
  · simp only [cexRoot, List.find?_cons] at hf
    split at hf
    · cases hf; cases hs
      exact ⟨rfl, fun sid st x _ _ => x.elim⟩
    · simp at hf

/-- non-vacuity of the hypotheses `Fresh` / `Inv` used above -/
example : Fresh 1 cexRoot ∧ Inv 1 cexRoot := ⟨cexRoot_fresh, (fresh_inv 1 cexRoot cexRoot_fresh).1⟩

/-- with the repairs the sequence of the first counterexample is balanced -/
example : ownDelta 1 (subTrace 1 (allTrace (exec 1 cexRoot [.start, .stop]).2)) = 0 ∧
    (rootRt 1 (exec 1 cexRoot [.start, .stop]).1).running = false := by decide

/-- `cexUp` as a tree: the upward call is made and rejected (non-vacuity of `C16_reentrancy_rejected`) -/
def cexUpSub : Mach 0 :=
  { mid := 0, init := 1, cb := some [.call (some 1) (.run ⟨2, 0⟩)], rt := {},
    states := [{ id := 1, enter := none, exit := none, routes := [⟨1, 0, none, none⟩], events := [], dflt := none, sub := none }] }

def cexUpTree : Mach 1 :=
  { mid := 1, init := 1, cb := none, rt := {},
    states := [{ id := 1, enter := none, exit := none, routes := [⟨2, 2, none, none⟩], events := [], dflt := none, sub := some cexUpSub },
               { id := 2, enter := none, exit := none, routes := [], events := [], dflt := none, sub := none }] }

example : ((allTrace (exec 1 cexUpTree [.start, .run ⟨1, 0⟩]).2).any fun ev =>
    match ev.kind with | .call (some 1) (.run ⟨2, 0⟩) false _ _ => true | _ => false) = true := by decide

/-! ### C16_first_match -/

/-- **First match.** The route the model's `find_if` selects for event `e` (index `i` in
registration order) is eligible — its event is `e` or the wildcard and its guard (if any) holds —
and no route registered before it is eligible; if it selects none, no route is eligible.  (By
`C16_conforms` this is also the route of the reference semantics, `Spec.chosen`.) -/
theorem C16_first_match (sid : StateId) (self : Nat) (rt : Rt) (ctx : Ctx) (e : Event) (rs : List Route) :
    match (routeScan sid self rt ctx e 0 rs).1 with
    | some (i, r) => rs[i]? = some r ∧ eligible r e = true ∧ ∀ r' ∈ rs.take i, eligible r' e = false
    | none => ∀ r' ∈ rs, eligible r' e = false := by
  have := routeScan_first sid self rt ctx e 0 rs
  cases h : (routeScan sid self rt ctx e 0 rs).1 with
  | none => rw [h] at this; exact this
  | some ir =>
    obtain ⟨i, r⟩ := ir
    rw [h] at this
    simp only [Nat.sub_zero] at this ⊢
    exact this.2

/-- non-vacuity: a later specific route wins over an earlier wildcard whose guard fails -/
example : (routeScan 1 0 {} [] ⟨2, 0⟩ 0
    [⟨0, 3, some ⟨[5], []⟩, none⟩, ⟨1, 4, none, none⟩, ⟨2, 5, some ⟨[2], []⟩, none⟩, ⟨0, 6, none, none⟩]).1
    = some (2, ⟨2, 5, some ⟨[2], []⟩, none⟩) := by decide

/-! ### C16_order_once -/

/-- **Order, exactly once.** In one `run(e)` call a machine of any depth either performs no phase
of its own (no exit/transition/enter action, no notification; its current state is unchanged —
the event was refused, consumed by the sub-machine, or matched nothing), or exactly one
transition `a → b`: its own phase events are, in this order and once each, exit `a`, the
transition action, enter `b`, the state-changed notification `a → b`.  (Sub-machines are
machines: the statement applies to them at their own level.) -/
theorem C16_order_once (n : Nat) (ctx : Ctx) (m : Mach n) (e : Event) :
    OrderOnce (rootRt n m).curr (rootRt n ((subOps n).run ctx m e).1).curr e ((subOps n).run ctx m e).2.2 := by
  cases n with
  | zero => exact run_order emptyOps ctx m e
  | succ k => exact run_order (subOps k) ctx m e

/-- non-vacuity: `cexRoot` extended with a route does take a transition with all four phases -/
example : phases ((subOps 0).run []
      ({ mid := 0, init := 1, cb := some [], rt := { running := true, curr := some 1 },
         states := [{ id := 1, enter := none, exit := some [.obs none], routes := [⟨0, 0, none, some []⟩], events := [],
                      dflt := none, sub := none }] } : Mach 0) ⟨7, 3⟩).2.2
    = [.exit 1 ⟨7, 3⟩ true, .action 1 (some 0) ⟨7, 3⟩ true, .enter 0 ⟨7, 3⟩ false, .notify 1 0 ⟨7, 3⟩ true] := by decide


/-! ### C16_guard_eval_order -/

/-- **Guards are evaluated once each, in registration order, up to the first match.** In one
`find_if` over the routes of a state for event `e`, the guard evaluations of the scanning machine
(callback bodies of the guards may observe / call, that adds none) are exactly: the guards of the
CANDIDATE routes (event equal or wildcard) among the routes up to and including the selected one
(all routes if none is selected), in registration order, each exactly once, with the value of its
truth table; a route without a guard is never "evaluated", and nothing after the selected route is. -/
theorem C16_guard_eval_order (sid : StateId) (self : Nat) (rt : Rt) (ctx : Ctx) (e : Event) (rs : List Route) :
    (routeScan sid self rt ctx e 0 rs).2.filterMap guardOf =
      expectedEvals e 0 rs (scanned (routeScan sid self rt ctx e 0 rs).1 0 rs.length) :=
  routeScan_guards sid self rt ctx e 0 rs

/-- non-vacuity: the first route does not match the event (no evaluation), the wildcard's guard is
false, the third is true and selected, the fourth is never evaluated -/
example : (routeScan 1 0 {} [] ⟨2, 0⟩ 0
    [⟨1, 4, some ⟨[2], []⟩, none⟩, ⟨0, 3, some ⟨[5], [.obs none]⟩, none⟩, ⟨2, 5, some ⟨[2], []⟩, none⟩, ⟨0, 6, some ⟨[2], []⟩, none⟩]).2.filterMap guardOf
    = [(1, false), (2, true)] := by decide

/-! ### arena: every machine OBJECT, every program (calls on any machine, callbacks calling any
machine, shared sub-machines, late definition calls) -/

open AI in
/-- **Balance per machine object, idle between calls.** After any program on a store in which
nothing had been started — method invocations addressed to any machine, from outside or from any
callback (enter/exit/transition actions, guards, handlers, state-changed callbacks) on any machine,
definition calls in between — every machine object `j` is outside all of its methods
(`cb_level_ = 0`), `is_running_ ↔ curr_state_ ≠ nullptr`, and for every state `s`:
#enter s − #exit s among `j`'s own events = 1 if `s` is `j`'s current state, else 0. -/
theorem C16_arena_balanced (g : Arena) (ops : List AOp) (hf : AI.Fresh g) (hl : ∀ op ∈ ops, op.Legal) (j : Nat) :
    ((aProg g ops).1.get j).rt.cbLevel = 0 ∧
    ((aProg g ops).1.get j).rt.running = ((aProg g ops).1.get j).rt.curr.isSome ∧
    ∀ s, delta j s (aProg g ops).2 = if ((aProg g ops).1.get j).rt.curr = some s then 1 else 0 := by
  have h := aProg_inv ops g [] hl (fresh_ainv g hf) j
  simp only [List.nil_append] at h
  exact ⟨by have := h.1; unfold busy at this; simpa using this, h.2.wf, h.2.bal⟩

open AI in
/-- **"… by the time the machine is stopped", per object.** Whenever after a program machine `j`
is not running (stopped by anybody: from outside, by its parent, by a callback of another machine),
each of its states has been exited exactly as often as it was entered. -/
theorem C16_arena_balanced_after_stop (g : Arena) (ops : List AOp) (hf : AI.Fresh g) (hl : ∀ op ∈ ops, op.Legal) (j : Nat)
    (hstopped : ((aProg g ops).1.get j).rt.running = false) (s : StateId) : delta j s (aProg g ops).2 = 0 := by
  have h := C16_arena_balanced g ops hf hl j
  rw [h.2.2 s]
  have := h.2.1; rw [hstopped] at this
  cases hc : ((aProg g ops).1.get j).rt.curr with
  | none => simp
  | some c => rw [hc] at this; simp at this

open AI in
/-- **Re-entrancy rejected per object.** (1) Whenever a machine object is inside one of its own
methods (`cb_level_ ≠ 0`: running an action, a guard, a handler, the notification, or calling
into a sub-machine), ANY invocation of `start/stop/restart/run` on it — by its own callback, by a
callback of its sub-machine, of a sibling or of an unrelated machine reached through any chain of
calls — returns false and leaves the WHOLE store unchanged.  (2) In the trace of every program,
every call a callback body made on its own machine returned false with the five observers equal
before and after. -/
theorem C16_arena_reentrancy_rejected :
    (∀ (fuel : Nat) (g : Arena) (k : Nat) (c : Call), (g.get k).rt.cbLevel ≠ 0 →
      (aCall Fix.all fuel g k c).1 = g ∧ (aCall Fix.all fuel g k c).2.1 = false) ∧
    (∀ (g : Arena) (ops : List AOp), ∀ ev ∈ (aProg g ops).2,
      match ev.kind with
      | .call t _ res before after => t.getD ev.mid = ev.mid → res = false ∧ after = before
      | _ => True) := by
  refine ⟨fun fuel g k c hb => (good_aCall fuel g k c).2 hb, fun g ops ev he => ?_⟩
  have := aProg_rej ops g ev he
  unfold selfRej at this
  cases hk : ev.kind <;> simp only [hk] at this ⊢ <;> first | exact this | trivial

open AI in
/-- **Frame.** One method invocation (any fuel, any store, any scripts) keeps the size of the store
and every machine's definition; a machine that is inside one of its methods keeps its run-time
record and contributes no event of its own code (only what its callback bodies print); a machine
outside all methods is outside all methods afterwards. -/
theorem C16_arena_frame (fuel : Nat) (g : Arena) (k : Nat) (c : Call) (j : Nat) :
    (aCall Fix.all fuel g k c).1.length = g.length ∧
    SameDef ((aCall Fix.all fuel g k c).1.get j) (g.get j) ∧
    ((g.get j).rt.cbLevel ≠ 0 → ((aCall Fix.all fuel g k c).1.get j).rt = (g.get j).rt ∧
       ∀ ev ∈ (aCall Fix.all fuel g k c).2.2, ev.mid = j → isScriptKind ev.kind = true) ∧
    ((g.get j).rt.cbLevel = 0 → ((aCall Fix.all fuel g k c).1.get j).rt.cbLevel = 0) := by
  have G := (good_aCall fuel g k c).1
  refine ⟨G.len, G.defs j, fun hb => G.frozen j (by simp) hb, fun hi => ?_⟩
  have := (G.idle j (by simp) (by unfold busy; simp [hi])).1
  unfold busy at this; simpa using this

/-- **First match, arena.** Whatever the guards' callback bodies do (call any machine, change the
store), the route the arena's `find_if` selects is the first eligible one in registration order. -/
theorem C16_arena_first_match (rec : Rec) (k : Nat) (sid : StateId) (e : Event) (g : Arena) (rs : List Route) :
    match (aRouteScan rec k sid e 0 g rs).2.1 with
    | some (i, r) => rs[i]? = some r ∧ eligible r e = true ∧ ∀ r' ∈ rs.take i, eligible r' e = false
    | none => ∀ r' ∈ rs, eligible r' e = false := by
  rw [aRouteScan_sel rec k sid e 0 {} [] rs 0 g]
  exact C16_first_match sid 0 {} [] e rs

/-- **Guard evaluation order, arena: re-entrancy through a GUARD.** `cb_level_` is raised around
the `find_if`, so while machine `k` scans (it is busy), whatever the guards' callback bodies do —
`run()` on `k` itself (rejected), calls on any other machine (which may run their own scans and
call back) — the guard evaluations of `k`'s OWN scan are exactly those of `C16_guard_eval_order`:
the candidates' guards up to the selected route, in order, once each. -/
theorem C16_arena_guard_eval_order (fuel : Nat) (k : Nat) (sid : StateId) (e : Event) (g : Arena) (rs : List Route)
    (hb : (g.get k).rt.cbLevel ≠ 0) :
    (aRouteScan (aCall Fix.all fuel) k sid e 0 g rs).2.2.filterMap (aGuardOf k) =
      expectedEvals e 0 rs (scanned (aRouteScan (aCall Fix.all fuel) k sid e 0 g rs).2.1 0 rs.length) := by
  rw [aRouteScan_guards _ (AI.good_aCall fuel) k sid e 0 {} [] rs 0 g hb, aRouteScan_sel _ k sid e 0 {} [] rs 0 g]
  exact routeScan_guards sid 0 {} [] e 0 rs

/-- non-vacuity: machine 0 (busy: inside `run`) scans two guarded wildcard routes; the first guard's
body calls `run` on machine 0 itself and on machine 1, whose own scan evaluates a guard too -/
example :
    let g : Arena :=
      [{ mid := 0, init := 1, cb := none, rt := { running := true, curr := some 1, cbLevel := 1 }, states := [] },
       { mid := 1, init := 1, cb := none, rt := { running := true, curr := some 1 },
         states := [{ id := 1, enter := none, exit := none, routes := [⟨0, 1, some ⟨[], []⟩, none⟩], events := [], dflt := none, sub := none }] }]
    let rs : List Route := [⟨0, 2, some ⟨[], [.call none (.run ⟨7, 0⟩), .call (some 1) (.run ⟨7, 0⟩)]⟩, none⟩, ⟨0, 3, some ⟨[7], []⟩, none⟩]
    let r := aRouteScan (aCall Fix.all 5) 0 1 ⟨7, 0⟩ 0 g rs
    r.2.2.filterMap (aGuardOf 0) = [(0, false), (1, true)] ∧ r.2.2.filterMap (aGuardOf 1) = [(0, false)] ∧
    (r.2.2.any fun ev => match ev with | ⟨0, .call none (.run ⟨7, 0⟩) false _ _⟩ => true | _ => false) = true := by decide

/-- **Order, exactly once — per machine object, arena.** One `run(e)` invocation on machine object
`k` (from outside, from its parent, from any callback of any machine), whatever the callbacks
running inside it do: `k`'s own phase events are either none (current state unchanged: refused,
consumed by the sub-machine, no route) or exactly exit `a`, the transition action, enter `b`, the
notification `a → b`, once each and in this order, and `k` ends in `b`.  The hypotheses hold for
every machine after every program (`C16_arena_order_once_prog`). -/
theorem C16_arena_order_once (fuel : Nat) (g : Arena) (k : Nat) (e : Event)
    (hwf : (g.get k).rt.running = (g.get k).rt.curr.isSome)
    (hcid : ∀ c, (g.get k).rt.curr = some c → ((g.get k).stateOf c).id = c) :
    AI.AOrderOnce k (g.get k).rt.curr ((aCall Fix.all fuel g k (.run e)).1.get k).rt.curr e
      (aCall Fix.all fuel g k (.run e)).2.2 := by
  cases fuel with
  | zero => exact Or.inl ⟨AI.aPhases_noPh k _ (AI.noPh_cons rfl (AI.noPh_nil k)), rfl⟩
  | succ f =>
    unfold aCall
    split
    · exact Or.inl ⟨AI.aPhases_noPh k _ (AI.noPh_unm k k), rfl⟩
    · rename_i hk
      exact AI.aRun_order _ (AI.good_aCall f) g k e (Nat.lt_of_not_le hk) hwf hcid

theorem C16_arena_order_once_prog (g : Arena) (ops : List AOp) (hf : AI.Fresh g) (hl : ∀ op ∈ ops, op.Legal)
    (fuel : Nat) (k : Nat) (e : Event) :
    AI.AOrderOnce k ((aProg g ops).1.get k).rt.curr ((aCall Fix.all fuel (aProg g ops).1 k (.run e)).1.get k).rt.curr e
      (aCall Fix.all fuel (aProg g ops).1 k (.run e)).2.2 := by
  have h := AI.aProg_inv ops g [] hl (AI.fresh_ainv g hf) k
  exact C16_arena_order_once fuel _ k e h.2.wf h.2.cid

/-- **The fuel suffices.** The arena model bounds the depth of nested method invocations by a fuel
and marks exhaustion with a `foreign` event.  With more fuel than there are machine objects — the
driver passes `2·#machines + 4` — no invocation, on any store, with any scripts (cyclic
attachments included), ever runs out: an accepted invocation keeps its machine busy until it
returns and busy machines reject, so at most `#machines` accepted invocations nest. -/
theorem C16_arena_fuel_suffices (fuel : Nat) (g : Arena) (k : Nat) (c : Call) (h : g.length < fuel) :
    ∀ ev ∈ (aCall Fix.all fuel g k c).2.2, ∀ t, ev.kind ≠ .foreign t :=
  AI.fuel_ok fuel g k c (List.range g.length) (AI.cover_range g) (by simpa using h)

/-- … in particular never in a program run the way the driver runs it -/
theorem C16_arena_prog_fuel_suffices : ∀ (ops : List AOp) (g : Arena), ∀ ev ∈ (aProg g ops).2, ∀ t, ev.kind ≠ .foreign t
  | [], g => by intro ev he; cases he
  | op :: ops, g => by
    simp only [aProg]
    refine AI.nof_append ?_ (C16_arena_prog_fuel_suffices ops _)
    cases op with
    | call k c => exact C16_arena_fuel_suffices (fuelFor g) g k c (by unfold fuelFor; omega)
    | defn k f => intro ev he; cases he
    | always k f => intro ev he; cases he

/-- non-vacuity: with too little fuel the marker does appear (`cexArena`: parent + sub-machine, fuel 1) -/
example : ((aCall Fix.all 1 cexArena 1 .start).2.2.any fun ev => match ev.kind with | .foreign _ => true | _ => false) = true ∧
    ((aCall Fix.all 3 cexArena 1 .start).2.2.any fun ev => match ev.kind with | .foreign _ => true | _ => false) = false := by decide

/-- **No null `curr_state_` is ever dereferenced — arena, every program.** The arena model marks
every `curr_state_->…` / `sub_sm->…` on a null pointer (undefined behaviour in the C++) with an
`unmodelled` event of that machine.  After nothing-started, for every program (calls on any machine
from outside and from any callback, shared sub-machines, direct calls to sub-machines, definition
calls in between) no such event of a machine of the store occurs.  (An `unmodelled` event whose
index lies beyond the store is a call addressed to a machine object that does not exist: script
targets out of range, which the line protocol refuses.) -/
theorem C16_arena_no_null_deref (g : Arena) (ops : List AOp) (hf : AI.Fresh g) (hl : ∀ op ∈ ops, op.Legal) :
    ∀ ev ∈ (aProg g ops).2, ev.kind = .unmodelled → g.length ≤ ev.mid :=
  AI.aProg_nou ops g [] hl (AI.fresh_ainv g hf)

/-! Arena refinement to the reference semantics (trace equality with `Spec`) on hierarchical stores:
PropsArena.lean (`C16_arena_refines_tree`, `C16_arena_conforms`). -/

/-! ### the handler-return convention (patches/C16-03) -/

/-- **Every negative handler answer means "no target".** In the repaired code (`if (next_state_id < 0)`)
target selection after a handler answered `hret < 0` is exactly target selection after `-1` (or after
no handler at all): the routes are scanned.  Any machine, any store, any callbacks. -/
theorem C16_handler_negative_falls_through (rec : Rec) (g : Arena) (k : Nat) (e : Event) (hret : Int) (h : hret < 0) :
    aSelect rec g k e hret = aSelect rec g k e (-1) := by
  unfold aSelect
  simp [h]

/-- target selection of `run()` AS FOUND: `if (next_state_id == NULL_STATE_ID)` -/
def aSelectAsFound (rec : Rec) (g : Arena) (k : Nat) (e : Event) (hret : Int) :
    Arena × Option (StateId × Option Nat × Option Script) × ATrace :=
  if hret = -1 then aSelect rec g k e (-1) else (g, some (hret, none, none), [])

/-- machine 0 running in state 1, whose wildcard route leads to state 2 -/
def negArena : Arena :=
  [{ mid := 0, init := 1, cb := none, rt := { running := true, curr := some 1 },
     states := [{ id := 1, enter := none, exit := some [], routes := [⟨0, 2, none, none⟩], events := [], dflt := none, sub := none },
                { id := 2, enter := some [], exit := none, routes := [], events := [], dflt := none, sub := none }] }]

/-- **Code as found: a handler answering -2.** Selection hands -2 to the transition code as if it were
a target; no state -2 exists, so `run()` returns false ("Should not happen") and the machine stays in
state 1 — although the wildcard route 1 → 2 is eligible.  The repaired selection takes that route
(replay: corpus/C16/06-handler-returns-minus-2.ops). -/
theorem C16_handler_negative_counterexample_unpatched :
    let rc := aCall Fix.all 4
    (aSelectAsFound rc negArena 0 ⟨1, 0⟩ (-2)).2.1 = some (-2, none, none) ∧
    (aTransition rc negArena 0 ⟨1, 0⟩ (-2) none none).2.1 = false ∧
    ((aTransition rc negArena 0 ⟨1, 0⟩ (-2) none none).1.get 0).rt.curr = some 1 ∧
    (aSelect rc negArena 0 ⟨1, 0⟩ (-2)).2.1 = some (2, some 0, none) ∧
    ((aTransition rc negArena 0 ⟨1, 0⟩ 2 (some 0) none).1.get 0).rt.curr = some 2 := by
  decide

/-- a handler answering -7 on a machine with an eligible route -/
def negTree : Mach 0 :=
  { mid := 0, init := 1, cb := none, rt := {},
    states := [{ id := 1, enter := none, exit := none, routes := [⟨0, 2, none, none⟩], events := [(1, ⟨[], -7, []⟩)], dflt := none, sub := none },
               { id := 2, enter := none, exit := none, routes := [], events := [], dflt := none, sub := none }] }

/-- non-vacuity of `C16_handler_negative_falls_through`, and the tree model / reference semantics agree on it -/
example :
    (rootRt 0 (exec 0 negTree [.start, .run ⟨1, 0⟩]).1).curr = some 2 ∧
    (exec 0 negTree [.start, .run ⟨1, 0⟩]).2 = (Spec.exec 0 (abs 0 negTree) [.start, .run ⟨1, 0⟩]).2 := by decide



/-- S (machine 0, one state) is the sub-machine of state 1 of BOTH parents P1 (machine 1) and P2
(machine 2); P2 has a route 1 --ev 1--> 2 -/
def sharedArena : Arena :=
  [leaf 0 1,
   { mid := 1, init := 1, cb := none, rt := {},
     states := [{ id := 1, enter := some [], exit := some [], routes := [], events := [], dflt := none, sub := some 0 }] },
   { mid := 2, init := 1, cb := none, rt := {},
     states := [{ id := 1, enter := some [], exit := some [], routes := [⟨1, 2, none, none⟩], events := [], dflt := none, sub := some 0 },
                { id := 2, enter := some [], exit := some [], routes := [], events := [], dflt := none, sub := none }] }]

/-- **A machine object shared by two parents (outside the statement's "hierarchy").** P1.start,
P2.start (S is already running: P2's `sub_sm->start()` is refused), P1.stop (stops S).  Now P2 is
running in state 1 whose sub-machine S is stopped, not terminated: `P2.run(1)` delegates to S,
gets false, and returns false without looking at its own eligible route — P2 stays in state 1.
Per object everything is balanced: S was entered once and exited once. -/
theorem C16_arena_shared_sub_stranded :
    let r := aProg sharedArena [.call 1 .start, .call 2 .start, .call 1 .stop]
    let x := aCall Fix.all (fuelFor r.1) r.1 2 (.run ⟨1, 0⟩)
    (r.1.get 0).rt.running = false ∧ (r.1.get 2).rt.curr = some 1 ∧
    x.2.1 = false ∧ (x.1.get 2).rt.curr = some 1 ∧ x.2.2 = [] ∧
    AI.delta 0 1 r.2 = 0 ∧ countOf (fun k => match k with | .enter 1 _ _ => true | _ => false) 0 r.2 = 1 := by
  decide

/-- two unrelated machines whose transition actions call each other -/
def pingPong : Arena :=
  [{ mid := 0, init := 1, cb := none, rt := {},
     states := [{ id := 1, enter := none, exit := none, routes := [⟨1, 2, none, some [.call (some 1) (.run ⟨1, 0⟩)]⟩], events := [], dflt := none, sub := none },
                { id := 2, enter := none, exit := none, routes := [], events := [], dflt := none, sub := none }] },
   { mid := 1, init := 1, cb := none, rt := {},
     states := [{ id := 1, enter := none, exit := none, routes := [⟨1, 2, none, some [.call (some 0) (.run ⟨2, 0⟩), .call none .stop]⟩], events := [], dflt := none, sub := none },
                { id := 2, enter := none, exit := none, routes := [], events := [], dflt := none, sub := none }] }]

/-- non-vacuity of the arena theorems: `pingPong` is fresh and its ops legal; machine 0's action
calls machine 1 (accepted: machine 1 is idle), whose action calls back machine 0 (rejected: machine
0 is inside its `run`) and then its own `stop` (rejected) -/
example : AI.Fresh pingPong ∧ (∀ op ∈ [AOp.call 0 .start, .call 1 .start, .call 0 (.run ⟨1, 0⟩)], op.Legal) := by
  refine ⟨by intro m hm; simp [pingPong] at hm; rcases hm with h | h <;> subst h <;> rfl, ?_⟩
  intro op hop; simp at hop; rcases hop with h | h | h <;> subst h <;> trivial

example :
    let r := aProg pingPong [.call 0 .start, .call 1 .start, .call 0 (.run ⟨1, 0⟩)]
    (r.2.any fun ev => match ev with | ⟨1, .call (some 0) (.run ⟨2, 0⟩) false _ _⟩ => true | _ => false) = true ∧
    (r.2.any fun ev => match ev with | ⟨1, .call none .stop false _ _⟩ => true | _ => false) = true ∧
    (r.2.any fun ev => match ev with | ⟨0, .call (some 1) (.run ⟨1, 0⟩) true _ _⟩ => true | _ => false) = true ∧
    (r.1.get 0).rt.curr = some 2 ∧ (r.1.get 1).rt.curr = some 2 := by decide

/-- non-vacuity: in `pingPong` machine 0's `run(1)` takes the transition 1 → 2 with all four phases
while its action drives machine 1 through a transition of its own -/
example :
    AI.aPhases 0 (aCall Fix.all 6 (aProg pingPong [.call 0 .start, .call 1 .start]).1 0 (.run ⟨1, 0⟩)).2.2 =
      [.exit 1 ⟨1, 0⟩ false, .action 1 (some 0) ⟨1, 0⟩ true, .enter 2 ⟨1, 0⟩ false, .notify 1 2 ⟨1, 0⟩ false] ∧
    AI.aPhases 1 (aCall Fix.all 6 (aProg pingPong [.call 0 .start, .call 1 .start]).1 0 (.run ⟨1, 0⟩)).2.2 =
      [.exit 1 ⟨1, 0⟩ false, .action 1 (some 0) ⟨1, 0⟩ true, .enter 2 ⟨1, 0⟩ false, .notify 1 2 ⟨1, 0⟩ false] := by decide


/-- non-vacuity of `C16_arena_reentrancy_rejected` (1): a store with a busy machine (machine 1 is
inside its `start`, about to start its sub-machine 0); calls on it from anywhere change nothing -/
example :
    ((((cexArena.updRt 1 fun rt => { rt with running := true, curr := some 1 }).incLevel 1).get 1).rt.cbLevel ≠ 0) ∧
    ((aCall Fix.all 9 ((cexArena.updRt 1 fun rt => { rt with running := true, curr := some 1 }).incLevel 1) 1 .stop).1.view 1
      = ((cexArena.updRt 1 fun rt => { rt with running := true, curr := some 1 }).incLevel 1).view 1) ∧
    (aCall Fix.all 9 ((cexArena.updRt 1 fun rt => { rt with running := true, curr := some 1 }).incLevel 1) 1 (.run ⟨1, 0⟩)).2.1 = false := by decide

end Tbox.C16
