/-
C16 — PROPERTY THEOREMS.  Helper lemmas live in Inv / InvProofs / Refine / Balance / Order / Exec.

Property: "For any hierarchy of state machines and any event sequence, the observable trace of
guard evaluations, exit / transition / enter actions, state-changed notifications and reported
current state equals that of the reference semantics […].  Exit, transition and enter actions
run in that order exactly once per transition, and enter/exit actions are balanced at every
nesting level: every state entered has been exited exactly once by the time the machine is
stopped.  Calls made on a machine from inside its own actions are rejected without changing its
state."

`Mach n` = a machine with at most `n` levels of sub-machines below it; every theorem quantifies
over all `n`, all machines of that depth and all call sequences.  The model is
`exec true` (state_machine.cpp with patches/C16-01); `exec false` is the code as found.
-/
import TboxModel.C16.Exec
import TboxModel.C16.Order
set_option linter.unusedSimpArgs false
set_option linter.unusedVariables false
namespace Tbox.C16

/-! ### C16_conforms -/

/-- **Refinement.** From any state between calls (in particular a freshly built hierarchy), for
every call sequence: the model and the reference semantics produce the same return values, the
same global trace (guard evaluations, handlers, exit/action/enter, notifications, callback
observations) and the same `currentState/lastState/nextState/isRunning/isTerminated` after every
call, and end in corresponding states. -/
theorem C16_conforms (n : Nat) (m : Mach n) (hm : Inv n m) (calls : List Call) :
    (exec true n m calls).2 = (Spec.exec n (abs n m) calls).2 ∧
    abs n (exec true n m calls).1 = (Spec.exec n (abs n m) calls).1 ∧
    Inv n (exec true n m calls).1 := by
  induction calls generalizing m with
  | nil => exact ⟨rfl, rfl, hm⟩
  | cons c cs ih =>
    have h1 := applyCall_inv n m c hm
    have h2 := applyCall_ref n m c hm
    have ih' := ih (applyCall true n m c).1 h1.1
    have hv := rootView_abs n _ h1.1
    simp only [exec, Spec.exec]
    rw [← h2]
    simp only []
    exact ⟨by rw [ih'.1, hv], ih'.2.1, ih'.2.2⟩

theorem C16_conforms_fresh (n : Nat) (m : Mach n) (hm : Fresh n m) (calls : List Call) :
    (exec true n m calls).2 = (Spec.exec n (abs n m) calls).2 :=
  (C16_conforms n m (fresh_inv n m hm).1 calls).1

/-! ### C16_reentrancy_rejected -/

/-- **Re-entrancy.** Every call a callback makes on its own machine (at any nesting level, in
any call of any sequence) returns false and the five observers read the same before and after;
the behaviour the model leaves undescribed (`unmodelled`) never occurs. -/
theorem C16_reentrancy_rejected (n : Nat) (m : Mach n) (hm : Inv n m) (calls : List Call) :
    ∀ r ∈ (exec true n m calls).2, ∀ ev ∈ r.2.1,
      match ev.kind with
      | .call _ res before after => res = false ∧ after = before
      | .unmodelled => False
      | _ => True := by
  induction calls generalizing m with
  | nil => intro r hr; cases hr
  | cons c cs ih =>
    have h1 := applyCall_inv n m c hm
    intro r hr
    simp only [exec] at hr
    cases hr with
    | head => exact h1.2
    | tail _ h => exact ih _ h1.1 r h

/-! ### C16_balanced -/

/-- **Balance at every nesting level.** After any call sequence on a freshly built hierarchy,
for the root and recursively for every sub-machine (with its part of the global trace): for
every state `s`, #entered s − #exited s = 1 if `s` is the machine's current state, else 0.
(`enter`/`exit` events are counted whether or not the user supplied a callback.) -/
theorem C16_balanced (n : Nat) (m : Mach n) (hm : Fresh n m) (calls : List Call) :
    Bal n (exec true n m calls).1 (allTrace (exec true n m calls).2) := by
  have h := fresh_inv n m hm
  simpa using exec_bal n m h.1 [] h.2.2 calls

/-- **"… by the time the machine is stopped".** If after a call sequence on a fresh hierarchy the
root is not running (e.g. the sequence ends with `stop`), then at every nesting level every state
has been exited exactly as often as it was entered — in particular no sub-machine is left
running. -/
theorem C16_balanced_after_stop (n : Nat) (m : Mach n) (hm : Fresh n m) (calls : List Call)
    (hstopped : (rootRt n (exec true n m calls).1).running = false) :
    AllExited n (exec true n m calls).1 (allTrace (exec true n m calls).2) := by
  have h := fresh_inv n m hm
  have hi := (C16_conforms n m h.1 calls).2.2
  refine stopped_allExited n _ _ hi ?_ (C16_balanced n m hm calls)
  cases n with
  | zero => exact hstopped
  | succ k => exact hstopped


/-! ### the defect (DESIGN §7 row 9): the code as found violates the balance -/

def cexSub : Mach 0 :=
  { init := 1, cb := none, rt := {},
    states := [{ id := 1, enter := some [], exit := some [], routes := [], events := [], dflt := none, sub := none }] }

/-- one state whose sub-machine has one state -/
def cexRoot : Mach 1 :=
  { init := 1, cb := none, rt := {},
    states := [{ id := 1, enter := some [], exit := some [], routes := [], events := [], dflt := none, sub := some cexSub }] }

theorem cexRoot_fresh : Fresh 1 cexRoot := by
  refine ⟨rfl, ?_⟩
  intro sid st x hf hs
  have hid := findState_id _ _ _ hf
  unfold MachOf.findState at hf
  split at hf
  · cases hf
  · simp only [cexRoot, List.find?_cons] at hf
    split at hf
    · cases hf; cases hs
      exact ⟨rfl, fun sid st x _ _ => x.elim⟩
    · simp at hf

/-- **Counterexample on the unpatched code** (`exec false`): `start(); stop()` on a machine whose
initial state has a sub-machine leaves the root stopped while state 1 of the sub-machine has been
entered once and never exited, the sub-machine is still running, and a second `start()` does not
enter the sub-machine's initial state again (its `start()` is refused). -/
theorem C16_balanced_counterexample_unpatched :
    (rootRt 1 (exec false 1 cexRoot [.start, .stop]).1).running = false ∧
    ownDelta 1 (subTrace 1 (allTrace (exec false 1 cexRoot [.start, .stop]).2)) = 1 ∧
    ((exec false 1 cexRoot [.start, .stop]).1.states.map (fun s => s.sub.map (fun x => x.rt.running))) = [some true] ∧
    subTrace 1 (allTrace (exec false 1 cexRoot [.start, .stop, .start]).2) = [⟨[], .enter 1 0 true⟩] := by
  decide

/-- non-vacuity of the hypotheses `Fresh` / `Inv` used above -/
example : Fresh 1 cexRoot ∧ Inv 1 cexRoot := ⟨cexRoot_fresh, (fresh_inv 1 cexRoot cexRoot_fresh).1⟩

/-- hence the full-strength statement is false of the code as found -/
theorem C16_balanced_after_stop_false_unpatched :
    ¬ (∀ (n : Nat) (m : Mach n), Fresh n m → ∀ calls,
        (rootRt n (exec false n m calls).1).running = false →
        AllExited n (exec false n m calls).1 (allTrace (exec false n m calls).2)) := by
  intro h
  have h1 := h 1 cexRoot cexRoot_fresh [.start, .stop] C16_balanced_counterexample_unpatched.1
  have hst : ∃ st x, (exec false 1 cexRoot [.start, .stop]).1.findState 1 = some st ∧ st.sub = some x :=
    ⟨_, _, rfl, rfl⟩
  obtain ⟨st, x, hf, hs⟩ := hst
  have h2 := (h1.2 1 st x hf hs).1 1
  have h3 := C16_balanced_counterexample_unpatched.2.1
  rw [h3] at h2
  exact absurd h2 (by decide)

/-- with the repair the same sequence is balanced (non-vacuity of `C16_balanced_after_stop`) -/
example : ownDelta 1 (subTrace 1 (allTrace (exec true 1 cexRoot [.start, .stop]).2)) = 0 ∧
    (rootRt 1 (exec true 1 cexRoot [.start, .stop]).1).running = false := by decide

/-! ### C16_first_match -/

/-- **First match.** The route the model's `find_if` selects for event `e` (index `i` in
registration order) is eligible — its event is `e` or the wildcard and its guard (if any) holds —
and no route registered before it is eligible; if it selects none, no route is eligible.  (By
`C16_conforms` this is also the route of the reference semantics, `Spec.chosen`.) -/
theorem C16_first_match (sid : StateId) (rt : Rt) (e : EventId) (rs : List Route) :
    match (routeScan sid rt e 0 rs).1 with
    | some (i, r) => rs[i]? = some r ∧ eligible r e = true ∧ ∀ r' ∈ rs.take i, eligible r' e = false
    | none => ∀ r' ∈ rs, eligible r' e = false := by
  have := routeScan_first sid rt e 0 rs
  cases h : (routeScan sid rt e 0 rs).1 with
  | none => rw [h] at this; exact this
  | some ir =>
    obtain ⟨i, r⟩ := ir
    rw [h] at this
    simp only [Nat.sub_zero] at this ⊢
    exact this.2

/-- non-vacuity: a later specific route wins over an earlier wildcard whose guard fails -/
example : (routeScan 1 {} 2 0
    [⟨0, 3, some ⟨[5], []⟩, none⟩, ⟨1, 4, none, none⟩, ⟨2, 5, some ⟨[2], []⟩, none⟩, ⟨0, 6, none, none⟩]).1
    = some (2, ⟨2, 5, some ⟨[2], []⟩, none⟩) := by decide

/-! ### C16_order_once -/

/-- **Order, exactly once.** In one `run(e)` call a machine of any depth either performs no phase
of its own (no exit/transition/enter action, no notification; its current state is unchanged —
the event was refused, consumed by the sub-machine, or matched nothing), or exactly one
transition `a → b`: its own phase events are, in this order and once each, exit `a`, the
transition action, enter `b`, the state-changed notification `a → b`.  (Sub-machines are
machines: the statement applies to them at their own level.) -/
theorem C16_order_once (n : Nat) (m : Mach n) (e : EventId) :
    OrderOnce (rootRt n m).curr (rootRt n ((subOps true n).run m e).1).curr e ((subOps true n).run m e).2.2 := by
  cases n with
  | zero => exact run_order emptyOps m e
  | succ k => exact run_order (subOps true k) m e

/-- non-vacuity: `cexRoot` extended with a route does take a transition with all four phases -/
example : phases ((subOps true 0).run
      ({ init := 1, cb := some [], rt := { running := true, curr := some 1 },
         states := [{ id := 1, enter := none, exit := some [.obs], routes := [⟨0, 0, none, some []⟩], events := [],
                      dflt := none, sub := none }] } : Mach 0) 7).2.2
    = [.exit 1 7 true, .action 1 (some 0) 7 true, .enter 0 7 false, .notify 1 0 7 true] := by decide

end Tbox.C16
