/-
C16 — PROPERTY THEOREMS, arena refinement (closes the OPEN of Props.lean): on HIERARCHICAL stores
the ARENA model (`aCall`, every machine object in one store, the model the driver executes) produces
call by call what the TREE model (`exec`) and hence the reference semantics (`Spec.exec`) produce.

Domain (`hier g root`, decidable, ArenaTreeDefs.lean): below `root` every machine object is reached
at most once (each machine is the sub-machine of at most one state, no cycles) and every callback of
every machine below `root` addresses only `none`, its own index or an ancestor's, and makes no
definition call.  The calls are addressed to `root`.  Helper lemmas: ArenaTree*.lean.
-/
import TboxModel.C16.Props
import TboxModel.C16.ArenaTreeAll
set_option linter.unusedSimpArgs false
set_option linter.unusedVariables false
namespace Tbox.C16
open Arena

/-- call by call: return value, trace (tree paths replaced by machine indices), the five observers
of every machine below the root, the rest of the store untouched, and the store below the root is
again the tree -/
def Agree (n : Nat) (root : Nat) : Arena → Mach n → List Call → Prop
  | _, _, [] => True
  | g, m, c :: cs =>
    let a := aCall Fix.all (fuelFor g) g root c
    let t := applyCall n m c
    a.2.1 = t.2.1 ∧ a.2.2 = toATrace n m t.2.2 ∧
    (∀ p ∈ viewsOf n t.1, a.1.view p.1 = p.2) ∧
    (∀ i, i ∉ nodesA n g root → a.1.get i = g.get i) ∧
    conv n a.1 root = some t.1 ∧ Agree n root a.1 t.1 cs

theorem toATrace_eq (n : Nat) (g : Arena) (root : Nat) (m : Mach n) (h : conv n g root = some m) (t : Trace) :
    toATrace n m t = trA (midA g root) t := by
  unfold toATrace
  have : midOf n m = midA g root := funext fun p => ATS.midOf_conv n g root m h p
  rw [this]

theorem agree_of_rootOk (n : Nat) (root : Nat) : ∀ (calls : List Call) (g : Arena) (m : Mach n), AT.RootOk n g root m →
    (∀ c ∈ calls, noDefn c = true) → Agree n root g m calls
  | [], _, _, _, _ => trivial
  | c :: cs, g, m, h, hc => by
    have R := AT.root_call n (fuelFor g) g root m h (by unfold fuelFor; omega) c (hc c (List.mem_cons_self ..))
    refine ⟨R.2.1, by rw [toATrace_eq n g root m h.conv]; exact R.2.2.1, ATS.conv_views n _ root _ R.1.conv, R.2.2.2, R.1.conv, ?_⟩
    exact agree_of_rootOk n root cs _ _ R.1 (fun c' hc' => hc c' (List.mem_cons_of_mem _ hc'))

theorem wf_fresh (g : Arena) (h : AI.Fresh g) : AT.WF g :=
  fun j _ => ⟨(AI.fresh_ainv g h j).2.wf, (AI.fresh_ainv g h j).2.cid⟩

/-- **Arena refines tree, hierarchical stores.** For every depth `n`, store `g`, machine `root` whose
part of the store is the tree `m` (`conv`), inside the domain (`hier`), between two calls (the tree
satisfies `Inv`, every machine object of the store is well formed — in particular after nothing was
started: `C16_arena_refines_tree_fresh`), and every list of `start/stop/restart/run` calls: running
them one after the other on `root` with `aCall Fix.all (fuelFor g)` yields, call by call, the return
value of the tree model, its trace with paths replaced by machine indices, the same five observers for
every machine below the root, and leaves every machine object not below the root untouched. -/
theorem C16_arena_refines_tree (n : Nat) (g : Arena) (root : Nat) (m : Mach n)
    (hc : conv n g root = some m) (hh : hier g root = true) (hi : Inv n m) (hw : AT.WF g)
    (calls : List Call) (hnd : ∀ c ∈ calls, noDefn c = true) :
    Agree n root g m calls :=
  agree_of_rootOk n root calls g m ⟨hc, ATS.hier_hierN n g root m hh hc, hi, hw⟩ hnd

theorem C16_arena_refines_tree_fresh (n : Nat) (g : Arena) (root : Nat) (m : Mach n)
    (hc : conv n g root = some m) (hh : hier g root = true) (hf : AI.Fresh g)
    (calls : List Call) (hnd : ∀ c ∈ calls, noDefn c = true) :
    Agree n root g m calls :=
  C16_arena_refines_tree n g root m hc hh (fresh_inv n m (ATS.conv_fresh n g root m hf hc)).1 (wf_fresh g hf) calls hnd

/-- the observable of a run on the root: per call (return value, trace, root view) -/
theorem aExec_eq_exec (n : Nat) (root : Nat) (g0 : Arena) : ∀ (calls : List Call) (g : Arena) (m : Mach n),
    AT.RootOk n g root m → DefsEq g0 g → (∀ c ∈ calls, noDefn c = true) →
    (aExec g root calls).2 = (exec n m calls).2.map (fun r => (r.1, trA (midA g0 root) r.2.1, r.2.2))
  | [], _, _, _, _, _ => rfl
  | c :: cs, g, m, h, hd, hc => by
    have R := AT.root_call n (fuelFor g) g root m h (by unfold fuelFor; omega) c (hc c (List.mem_cons_self ..))
    have hd1 : DefsEq g (aCall Fix.all (fuelFor g) g root c).1 := AT.defs_of_good (AI.good_aCall _) g root c
    have ih := aExec_eq_exec n root g0 cs _ _ R.1 (AT.DefsEq.trans' hd hd1) (fun c' hc' => hc c' (List.mem_cons_of_mem _ hc'))
    simp only [aExec, exec, List.map_cons, ih]
    congr 1
    rw [R.2.1, R.2.2.1, AT.trA_defs hd]
    congr 2
    unfold Arena.view
    rw [ATS.conv_rootRt n _ root _ R.1.conv]

/-- **Arena conforms to the reference semantics, hierarchical stores** (the composition with
`C16_conforms`): under the same hypotheses the arena's per-call (return value, trace, the root's five
observers) is that of `Spec.exec` on the abstraction of the tree, with the paths of the trace replaced
by machine indices. -/
theorem C16_arena_conforms (n : Nat) (g : Arena) (root : Nat) (m : Mach n)
    (hc : conv n g root = some m) (hh : hier g root = true) (hi : Inv n m) (hw : AT.WF g)
    (calls : List Call) (hnd : ∀ c ∈ calls, noDefn c = true) :
    (aExec g root calls).2 =
      (Spec.exec n (abs n m) calls).2.map (fun r => (r.1, toATrace n m r.2.1, r.2.2)) := by
  rw [← (C16_conforms n m hi calls).1]
  rw [aExec_eq_exec n root g calls g m ⟨hc, ATS.hier_hierN n g root m hh hc, hi, hw⟩ (AT.DefsEq.rfl' g) hnd]
  have : (fun (r : Bool × Trace × View) => (r.1, trA (midA g root) r.2.1, r.2.2)) =
      (fun r => (r.1, toATrace n m r.2.1, r.2.2)) := by
    funext r; rw [toATrace_eq n g root m hc]
  rw [this]

theorem C16_arena_conforms_fresh (n : Nat) (g : Arena) (root : Nat) (m : Mach n)
    (hc : conv n g root = some m) (hh : hier g root = true) (hf : AI.Fresh g)
    (calls : List Call) (hnd : ∀ c ∈ calls, noDefn c = true) :
    (aExec g root calls).2 =
      (Spec.exec n (abs n m) calls).2.map (fun r => (r.1, toATrace n m r.2.1, r.2.2)) :=
  C16_arena_conforms n g root m hc hh (fresh_inv n m (ATS.conv_fresh n g root m hf hc)).1 (wf_fresh g hf) calls hnd

/-! ### non-vacuity -/

/-- `cexUp` (Props.lean): machine 1 with sub-machine 0 whose state-changed callback calls `run` on
its parent — a 2-level store satisfying all hypotheses -/
example : hier cexUp 1 = true ∧ (conv 1 cexUp 1).isSome = true ∧ hier cexArena 1 = true ∧ (conv 1 cexArena 1).isSome = true := by
  decide

example : AI.Fresh cexUp := by
  intro m hm; simp [cexUp] at hm; rcases hm with h | h <;> subst h <;> rfl

/-- … and a call list whose trace is non-empty: the sub-machine's transition, the upward call
(rejected), the parent's handling after the sub-machine terminated -/
example : ((aExec cexUp 1 [.start, .run ⟨1, 0⟩]).2.map fun r => r.2.1.length) = [2, 6] ∧
    ((aExec cexUp 1 [.start, .run ⟨1, 0⟩]).2.any fun r =>
      r.2.1.any fun ev => match ev with | ⟨0, .call (some 1) (.run ⟨2, 0⟩) false _ _⟩ => true | _ => false) = true := by
  decide

/-! ### outside the predicate -/

/-- **"calls addressed to the root only" cannot be dropped.** In `sharedArena` machine 0 is attached
to a state of machine 1 AND of machine 2.  Seen from root 2 alone the store is a hierarchy (`hier`
holds, `conv` succeeds), but after a call addressed to machine 1 (`P1.start`, which starts the shared
machine 0) the arena's `P2.start` no longer does what the tree of P2 — hence the reference semantics —
does: the tree starts its sub-machine (enter event of machine 0, sub-machine view running in state 1),
the arena's `sub_sm->start()` is refused (no event of machine 0).  From root 1 AND root 2 together
machine 0 is reached twice: the list of machines below a common parent is not duplicate free. -/
theorem C16_arena_conforms_counterexample_shared :
    hier sharedArena 2 = true ∧ (conv 1 sharedArena 2).isSome = true ∧
    (let r1 := aProg sharedArena [.call 1 .start]
     let a := aCall Fix.all (fuelFor r1.1) r1.1 2 .start
     match conv 1 sharedArena 2 with
     | some m =>
       (a.2.1 == (applyCall 1 m .start).2.1) && (a.2.2 != toATrace 1 m (applyCall 1 m .start).2.2) &&
       !(a.2.2.any fun ev => ev.mid == 0) &&
       ((toATrace 1 m (applyCall 1 m .start).2.2).any fun ev => ev.mid == 0)
     | none => false) = true ∧
    ¬ (nodesA 1 sharedArena 1 ++ nodesA 1 sharedArena 2).Nodup := by
  decide

end Tbox.C16
