/-
C16 — property theorems about DEFINITION CALLS ISSUED WHILE THE MACHINES RUN.

`newState / addRoute / addEvent / setSubStateMachine` test `is_running_` (not `cb_level_`) and
answer false on a running machine; `setInitState / setStateChangedCallback` have no check at all:
they are performed at any time, also from inside an action / guard / handler / notification of the
machine they address.  A machine is running during all of its own callbacks.  So while the
machines run a callback can (a) be refused on every running machine, (b) change `init` / `cb` of
ANY machine, (c) change the state table of any machine that is NOT running.

The model is `dCall tpl` (ArenaDef.lean): the arena's method invocation with the case's table `tpl`
of definition calls; the script op `.call t (.defn i)` performs entry `i` on machine `t`.  The
theorems below hold for EVERY table, every store, every script, every fuel; they are the
`C16_arena_*` family (Props.lean) redone for `dCall tpl` — `PresX.defs` ("every machine keeps its
definition") is false here and is replaced by `PresD.defs` (ArenaDInv.lean).
-/
import TboxModel.C16.Props
import TboxModel.C16.ArenaDProofs
import TboxModel.C16.ArenaDFuel
import TboxModel.C16.ArenaDSafe
import TboxModel.C16.ArenaDOrder
namespace Tbox.C16
open Arena

/-- **Refused while running.** Each of the four guarded definition calls, addressed to a machine
whose `is_running_` is set — from outside, from any callback of any machine, in particular from an
action / guard / handler / notification of that machine itself — returns false and leaves the
whole store unchanged. -/
theorem C16_def_refused_while_running (g : Arena) (k : Nat) (d : DefOp) (hr : (g.get k).rt.running = true)
    (hd : d.guarded = true) : d.apply g k = (g, false) :=
  AD.apply_running d g k hd hr

/-- **Definition calls never touch the run-time part.** Every definition call (performed or
refused) keeps the size of the store and every machine's run-time record — so the five observers
of every machine read the same before and after — keeps every machine's index, and changes at most
the definition of the addressed machine `k`. -/
theorem C16_def_keeps_runtime (d : DefOp) (g : Arena) (k : Nat) :
    (d.apply g k).1.length = g.length ∧
    (∀ j, ((d.apply g k).1.get j).rt = (g.get j).rt ∧ (d.apply g k).1.view j = g.view j ∧
          ((d.apply g k).1.get j).mid = (g.get j).mid) ∧
    (∀ j, j ≠ k → (d.apply g k).1.get j = g.get j) := by
  have h := AD.apply_defStep d g k
  exact ⟨h.len, fun j => ⟨h.rt_all j, by unfold Arena.view; rw [h.rt_all j], h.mid_all j⟩, h.other⟩

/-! ### witnesses: `setInitState` and `setStateChangedCallback` are NOT refused -/

def dst (id : StateId) (en ex : Option Script) (routes : List Route) : StateDef Nat :=
  { id := id, enter := en, exit := ex, routes := routes, events := [], dflt := none, sub := none }

/-- one machine, states 1 and 2, initial state 1; the exit action of state 1 issues definition call 0 on its own machine -/
def wInit : Arena :=
  [{ mid := 0, init := 1, cb := none, rt := {}, states := [dst 1 none (some [.call none (.defn 0)]) [], dst 2 none none []] }]

/-- states 1 ⇄ 2; the ENTER action of state 2 issues definition call 0 on its own machine; no state-changed callback yet -/
def wCbEnter : Arena :=
  [{ mid := 0, init := 1, cb := none, rt := {},
     states := [dst 1 none none [⟨1, 2, none, none⟩], dst 2 (some [.call none (.defn 0)]) none [⟨2, 1, none, none⟩]] }]

/-- states 1 ⇄ 2; the state-changed callback itself issues definition call 0 on its own machine, then observes -/
def wCbSelf : Arena :=
  [{ mid := 0, init := 1, cb := some [.call none (.defn 0), .obs none], rt := {},
     states := [dst 1 none none [⟨1, 2, none, none⟩], dst 2 none none [⟨2, 1, none, none⟩]] }]

/-- **"Calls made on a machine from inside its own actions are rejected" does NOT extend to
`setInitState` / `setStateChangedCallback`.**
(i) `setInitState(2)` from the exit action of the running machine (inside `restart()`'s `stop()`)
is performed — the call event shows equal views, the stored initial state is 2 afterwards — and it
changes where this very `restart()` goes: state 2, not 1.
(ii) `setStateChangedCallback` issued from the ENTER action of the transition in flight installs
the callback that is notified for this very transition (the code reads `state_changed_cb_` after
the enter action): the machine had no callback, yet `notify 1 2` is printed with a callback and its
body (one observation) runs.
(iii) Issued from inside the notification itself, the running body completes (the observation after
the call is printed) and the new callback (two observations of machine 0) is used from the next
transition on. -/
theorem C16_def_init_and_cb_not_refused :
    (let a := dCall [.setInit 2] 4 wInit 0 .start
     let b := dCall [.setInit 2] 4 a.1 0 .restart
     (a.1.get 0).rt.curr = some 1 ∧ (a.1.get 0).rt.running = true ∧ b.2.1 = true ∧
     b.2.2 = [⟨0, .exit 1 ev0 true⟩,
              ⟨0, .call none (.defn 0) false ⟨1, -1, -1, true, false⟩ ⟨1, -1, -1, true, false⟩⟩,
              ⟨0, .enter 2 ev0 false⟩] ∧
     (b.1.get 0).init = 2 ∧ (b.1.get 0).rt.curr = some 2) ∧
    (let a := dCall [.setCb [.obs none]] 4 wCbEnter 0 .start
     let b := dCall [.setCb [.obs none]] 4 a.1 0 (.run ⟨1, 0⟩)
     (a.1.get 0).cb = none ∧ b.2.1 = true ∧
     b.2.2 = [⟨0, .exit 1 ⟨1, 0⟩ false⟩, ⟨0, .action 1 (some 0) ⟨1, 0⟩ false⟩, ⟨0, .enter 2 ⟨1, 0⟩ true⟩,
              ⟨0, .call none (.defn 0) false ⟨2, 1, -1, true, false⟩ ⟨2, 1, -1, true, false⟩⟩,
              ⟨0, .notify 1 2 ⟨1, 0⟩ true⟩, ⟨0, .obs none ⟨2, 1, -1, true, false⟩⟩]) ∧
    (let tpl : Tpl := [.setCb [.obs (some 0), .obs (some 0)]]
     let a := dCall tpl 4 wCbSelf 0 .start
     let b := dCall tpl 4 a.1 0 (.run ⟨1, 0⟩)
     let c := dCall tpl 4 b.1 0 (.run ⟨2, 0⟩)
     b.2.1 = true ∧
     b.2.2 = [⟨0, .exit 1 ⟨1, 0⟩ false⟩, ⟨0, .action 1 (some 0) ⟨1, 0⟩ false⟩, ⟨0, .enter 2 ⟨1, 0⟩ false⟩,
              ⟨0, .notify 1 2 ⟨1, 0⟩ true⟩,
              ⟨0, .call none (.defn 0) false ⟨2, 1, -1, true, false⟩ ⟨2, 1, -1, true, false⟩⟩,
              ⟨0, .obs none ⟨2, 1, -1, true, false⟩⟩] ∧
     c.2.1 = true ∧
     c.2.2 = [⟨0, .exit 2 ⟨2, 0⟩ false⟩, ⟨0, .action 2 (some 0) ⟨2, 0⟩ false⟩, ⟨0, .enter 1 ⟨2, 0⟩ false⟩,
              ⟨0, .notify 2 1 ⟨2, 0⟩ true⟩,
              ⟨0, .obs (some 0) ⟨1, 2, -1, true, false⟩⟩, ⟨0, .obs (some 0) ⟨1, 2, -1, true, false⟩⟩]) := by
  refine ⟨by decide, by decide, by decide⟩

/-- non-vacuity of `C16_def_refused_while_running`: `wInit` after `start()` is running; `addRoute`
on it is one of the guarded calls -/
example : (((dCall [] 4 wInit 0 .start).1.get 0).rt.running = true) ∧ (DefOp.addRoute 1 ⟨1, 2, none, none⟩).guarded = true := by decide

/-- … and the same call on the stopped machine IS performed (the refusal is about `is_running_` only) -/
example : ((DefOp.addRoute 1 ⟨1, 2, none, none⟩).apply wInit 0).2 = true ∧
    ((((DefOp.addRoute 1 ⟨1, 2, none, none⟩).apply wInit 0).1.get 0).states.map fun s => s.routes.length) = [1, 0] := by decide

/-! ### the arena theorems for `dCall tpl` / `dProg tpl`: every table, every store, every program -/

open AI in
/-- **Balance per machine object, whatever definition calls the callbacks issue.** After any program
(method invocations and definition calls addressed to any machine from outside; callbacks of any
machine calling `start/stop/restart/run` and the six definition calls on ANY machine of the store,
their own included) on a store in which nothing had been started, for every table `tpl`: every
machine object `j` is outside all of its methods, `is_running_ ↔ curr_state_ ≠ nullptr`, and for every
state `s`: #enter s − #exit s among `j`'s own events = 1 if `s` is `j`'s current state, else 0. -/
theorem C16_def_arena_balanced (tpl : Tpl) (g : Arena) (ops : List (Nat × Call)) (hf : AI.Fresh g) (j : Nat) :
    ((dProg tpl g ops).1.get j).rt.cbLevel = 0 ∧
    ((dProg tpl g ops).1.get j).rt.running = ((dProg tpl g ops).1.get j).rt.curr.isSome ∧
    ∀ s, delta j s (dProg tpl g ops).2 = if ((dProg tpl g ops).1.get j).rt.curr = some s then 1 else 0 := by
  have h := AD.dProg_inv tpl ops g [] (fresh_ainv g hf) j
  simp only [List.nil_append] at h
  exact ⟨by have := h.1; unfold busy at this; simpa using this, h.2.wf, h.2.bal⟩

open AI in
/-- **"… by the time the machine is stopped", per object, with definition calls.** -/
theorem C16_def_arena_balanced_after_stop (tpl : Tpl) (g : Arena) (ops : List (Nat × Call)) (hf : AI.Fresh g) (j : Nat)
    (hstopped : ((dProg tpl g ops).1.get j).rt.running = false) (s : StateId) : delta j s (dProg tpl g ops).2 = 0 := by
  have h := C16_def_arena_balanced tpl g ops hf j
  rw [h.2.2 s]
  have := h.2.1; rw [hstopped] at this
  cases hc : ((dProg tpl g ops).1.get j).rt.curr with
  | none => simp
  | some c => rw [hc] at this; simp at this

open AI in
/-- **Re-entrancy rejected per object, with definition calls.** (1) Whenever a machine object is
inside one of its own methods, ANY invocation of `start/stop/restart/run` on it — from any callback of
any machine, whatever definition calls were issued before — returns false and leaves the WHOLE store
(definitions included) unchanged.  (2) In the trace of every program, every `start/stop/restart/run`
a callback body made on its own machine returned false with the five observers equal before and
after.  (3) Every definition call a callback body made, on any machine, left the five observers of
that machine equal, and if the machine showed `isRunning()` it did not return true (the four calls
with a result were refused).  A definition call on the own machine is NOT in general refused:
`C16_def_init_and_cb_not_refused`. -/
theorem C16_def_arena_reentrancy_rejected :
    (∀ (tpl : Tpl) (fuel : Nat) (g : Arena) (k : Nat) (c : Call), (g.get k).rt.cbLevel ≠ 0 → (∀ i, c ≠ .defn i) →
      (dCall tpl fuel g k c).1 = g ∧ (dCall tpl fuel g k c).2.1 = false) ∧
    (∀ (tpl : Tpl) (g : Arena) (ops : List (Nat × Call)), ∀ ev ∈ (dProg tpl g ops).2,
      match ev.kind with
      | .call t c res before after => (∀ i, c ≠ .defn i) → t.getD ev.mid = ev.mid → res = false ∧ after = before
      | _ => True) ∧
    (∀ (tpl : Tpl) (g : Arena) (ops : List (Nat × Call)), ∀ ev ∈ (dProg tpl g ops).2,
      match ev.kind with
      | .call _ (.defn _) res before after => after = before ∧ (before.running = true → res = false)
      | _ => True) := by
  refine ⟨fun tpl fuel g k c hb hnd => (AD.good_dCall tpl fuel g k c).2.1 hnd hb, fun tpl g ops ev he => ?_,
    fun tpl g ops ev he => ?_⟩
  · have := AD.dProg_rej tpl ops g ev he
    unfold AD.selfRejD at this
    cases hk : ev.kind <;> simp only [hk] at this ⊢ <;> first | exact this.2 | trivial
  · have := AD.dProg_rej tpl ops g ev he
    unfold AD.selfRejD at this
    cases hk : ev.kind with
    | call t c res v w =>
      simp only [hk] at this
      cases c with
      | defn i => exact this.1 i rfl
      | _ => trivial
    | _ => trivial

open AI in
/-- **The state table under a running method is never touched (memory safety of the `find_if`).**
While machine `k` is inside one of its own methods and running — inside `run()`: the handler block,
the `find_if` over `routes` with its guards, the exit / transition / enter actions, the notification,
the calls into the sub-machine; inside `start()` after `is_running_ = true`; inside `stop()` — NO
invocation from anywhere (any method or definition call on any machine `j`, from any callback of any
machine, any table, any nesting) changes `k`'s state table: the `routes` vector being iterated, the
`events` map, the `State` objects `curr_state_ / next_state_` point to.  In particular `addRoute` to
the current state from its own exit action or guard never reallocates the vector being iterated:
it is refused (`C16_def_refused_while_running`). -/
theorem C16_def_scan_table_stable (tpl : Tpl) (fuel : Nat) (g : Arena) (j : Nat) (c : Call) (k : Nat)
    (hb : (g.get k).rt.cbLevel ≠ 0) (hr : (g.get k).rt.running = true) :
    ((dCall tpl fuel g j c).1.get k).states = (g.get k).states :=
  (AD.good_dCall tpl fuel g j c).1.defs k hb hr

open AI in
/-- … and the same for everything a callback body of `k` does (a whole script, e.g. a guard's body
during the scan): `k`'s state table, run-time record and balance are what they were. -/
theorem C16_def_scan_table_stable_script (tpl : Tpl) (fuel : Nat) (g : Arena) (k : Nat) (sc : Script)
    (hb : (g.get k).rt.cbLevel ≠ 0) (hr : (g.get k).rt.running = true) :
    ((aScript (dCall tpl fuel) k g sc).1.get k).states = (g.get k).states ∧
    ((aScript (dCall tpl fuel) k g sc).1.get k).rt = (g.get k).rt := by
  have S := AD.aScript_presD (dCall tpl fuel) (AD.good_dCall tpl fuel) k sc g hb
  exact ⟨S.defs k hb hr, (S.frozen k (by simp) hb).1⟩

open AI in
/-- … and for the `find_if` itself: the scan of machine `k` over ANY route list (in `run()` it is
`curr_state_->routes`), guards running arbitrary bodies, ends with `k`'s state table and run-time
record unchanged — at every step of the iteration the vector is the one the scan started with. -/
theorem C16_def_scan_table_stable_scan (tpl : Tpl) (fuel : Nat) (k : Nat) (sid : StateId) (e : Event) (rs : List Route)
    (i : Nat) (g : Arena) (hb : (g.get k).rt.cbLevel ≠ 0) (hr : (g.get k).rt.running = true) :
    ((aRouteScan (dCall tpl fuel) k sid e i g rs).1.get k).states = (g.get k).states ∧
    ((aRouteScan (dCall tpl fuel) k sid e i g rs).1.get k).rt = (g.get k).rt := by
  have R := AD.aRouteScan_presXD (dCall tpl fuel) (AD.good_dCall tpl fuel) k sid e rs i g hb hr
  exact ⟨R.1.xdef k rfl, R.2.1⟩

open AI in
/-- **Frame, with definition calls.** One invocation keeps the size of the store and every machine's
index; a machine inside one of its methods keeps its run-time record and contributes no event of its
own code; a machine outside all methods is outside all methods afterwards. -/
theorem C16_def_arena_frame (tpl : Tpl) (fuel : Nat) (g : Arena) (k : Nat) (c : Call) (j : Nat) :
    (dCall tpl fuel g k c).1.length = g.length ∧
    ((dCall tpl fuel g k c).1.get j).mid = (g.get j).mid ∧
    ((g.get j).rt.cbLevel ≠ 0 → ((dCall tpl fuel g k c).1.get j).rt = (g.get j).rt ∧
       ∀ ev ∈ (dCall tpl fuel g k c).2.2, ev.mid = j → isScriptKind ev.kind = true) ∧
    ((g.get j).rt.cbLevel = 0 → ((dCall tpl fuel g k c).1.get j).rt.cbLevel = 0) := by
  have G := (AD.good_dCall tpl fuel g k c).1
  refine ⟨G.len, G.mid j, fun hb => G.frozen j (by simp) hb, fun hi => ?_⟩
  have := (G.idle j (by simp) (by unfold busy; simp [hi])).1
  unfold busy at this; simpa using this

/-! ### non-vacuity -/

/-- two machines: machine 0 (states 1 → 2 on event 1; the guard of its route issues `addRoute` on
machine 0 itself = call 0, `addRoute` on machine 1 = call 0 again addressed to 1, and `run` on
itself; its transition action issues `newState 3` on machine 1 = call 1 and starts machine 1);
machine 1 (one state) is stopped until then -/
def wScan : Arena :=
  [{ mid := 0, init := 1, cb := none, rt := {},
     states := [dst 1 none none
                  [⟨1, 2, some ⟨[1], [.call none (.defn 0), .call (some 1) (.defn 0), .call none (.run ⟨1, 0⟩)]⟩,
                    some [.call (some 1) (.defn 1), .call (some 1) .start]⟩],
                dst 2 none none []] },
   { mid := 1, init := 1, cb := none, rt := {}, states := [dst 1 none none []] }]

def tplScan : Tpl := [.addRoute 1 ⟨5, 1, none, none⟩, .newState 3 none none]

/-- `wScan` is fresh; the program starts machine 0 and sends event 1.  During the scan the guard's
`addRoute` on the scanning machine 0 is refused (false), the same call on the stopped machine 1 is
performed (true: machine 1's table changes while machine 0 runs), `run` on itself is refused; the
action's `newState` on the stopped machine 1 is performed.  Afterwards machine 0's table is what it
was, machine 1 has the new route and the new state, everything is balanced. -/
example :
    AI.Fresh wScan ∧
    (let r := dProg tplScan wScan [(0, .start), (0, .run ⟨1, 0⟩)]
     (r.2.any fun ev => match ev with | ⟨0, .call none (.defn 0) false _ _⟩ => true | _ => false) = true ∧
     (r.2.any fun ev => match ev with | ⟨0, .call (some 1) (.defn 0) true _ _⟩ => true | _ => false) = true ∧
     (r.2.any fun ev => match ev with | ⟨0, .call none (.run ⟨1, 0⟩) false _ _⟩ => true | _ => false) = true ∧
     (r.2.any fun ev => match ev with | ⟨0, .call (some 1) (.defn 1) true _ _⟩ => true | _ => false) = true ∧
     ((r.1.get 0).states.map fun s => s.routes.length) = [1, 0] ∧
     ((r.1.get 1).states.map fun s => (s.id, s.routes.length)) = [(1, 1), (3, 0)] ∧
     (r.1.get 0).rt.curr = some 2 ∧ (r.1.get 1).rt.curr = some 1 ∧
     AI.delta 0 2 r.2 = 1 ∧ AI.delta 0 1 r.2 = 0 ∧ AI.delta 1 1 r.2 = 1) := by
  refine ⟨by intro m hm; simp [wScan] at hm; rcases hm with h | h <;> subst h <;> rfl, by decide⟩

/-- a top-level definition call in a program is the same table: `addRoute` on the stopped machine 1 is
performed, on the running machine 0 it is refused -/
example :
    (((dProg tplScan wScan [(1, .defn 0), (0, .start), (0, .defn 0)]).1.get 1).states.map fun s => s.routes.length) = [1] ∧
    (((dProg tplScan wScan [(1, .defn 0), (0, .start), (0, .defn 0)]).1.get 0).states.map fun s => s.routes.length) = [1, 0] := by decide

/-- non-vacuity of `C16_def_arena_balanced_after_stop`: after `stop` machine 0 of `wScan` is stopped -/
example : ((dProg tplScan wScan [(0, .start), (0, .run ⟨1, 0⟩), (0, .stop)]).1.get 0).rt.running = false := by decide

/-- non-vacuity of `C16_def_arena_reentrancy_rejected` (1) and `C16_def_scan_table_stable`: machine 0
of `wScan` inside its `run` (busy and running); `restart` on it is refused, and `addRoute` /
`newState` addressed to it from anywhere return false, while the same `addRoute` on the stopped
machine 1 changes machine 1's table -/
example :
    let g := ((dProg tplScan wScan [(0, .start)]).1).incLevel 0
    (g.get 0).rt.cbLevel ≠ 0 ∧ (g.get 0).rt.running = true ∧
    (dCall tplScan 6 g 0 .restart).2.1 = false ∧
    (dCall tplScan 6 g 0 (.defn 0)).2.1 = false ∧ (dCall tplScan 6 g 0 (.defn 1)).2.1 = false ∧
    (dCall tplScan 6 g 1 (.defn 0)).2.1 = true ∧
    (((dCall tplScan 6 g 1 (.defn 0)).1.get 1).states.map fun s => s.routes.length) = [1] := by decide

/-- the hypothesis `running` of `C16_def_scan_table_stable` is needed for the statement, not met
by a gap in programs: `is_running_` is set before and cleared after the `cb_level_` bracket, so a
store with a machine inside a method and NOT running does not arise from a program; on such an
artificial store the guarded calls ARE performed (the code tests `is_running_`, not `cb_level_`) -/
example :
    let g : Arena := [{ mid := 0, init := 1, cb := none, rt := { cbLevel := 1 }, states := [dst 1 none none []] }]
    (g.get 0).rt.cbLevel ≠ 0 ∧ (g.get 0).rt.running = false ∧
    (((dCall tplScan 6 g 0 (.defn 0)).1.get 0).states.map fun s => s.routes.length) = [1] := by decide

/-! ### fuel, null `curr_state_`, order, guard evaluations — for `dCall tpl` / `dProg tpl` -/

/-- **The fuel suffices, with definition calls.** The driver runs `dCall tpl (fuelFor g)`.  With more
fuel than there are machine objects no invocation, on any store, with any scripts and ANY table —
`setSubStateMachine` entries creating attachment cycles at run time included — ever runs out: the
argument never looks at the attachments; an accepted invocation keeps its machine busy until it
returns, busy machines reject, definition calls invoke nothing. -/
theorem C16_def_arena_fuel_suffices (tpl : Tpl) (fuel : Nat) (g : Arena) (k : Nat) (c : Call) (h : g.length < fuel) :
    ∀ ev ∈ (dCall tpl fuel g k c).2.2, ∀ t, ev.kind ≠ .foreign t :=
  AD.fuel_okD tpl fuel g k c (List.range g.length) (AI.cover_range g) (by simpa using h)

/-- … in particular never in a program run the way the driver runs it -/
theorem C16_def_arena_prog_fuel_suffices (tpl : Tpl) (ops : List (Nat × Call)) (g : Arena) :
    ∀ ev ∈ (dProg tpl g ops).2, ∀ t, ev.kind ≠ .foreign t :=
  AD.dProg_nof tpl ops g

/-- two machines with one state each; machine 0's enter action issues definition call 1 on machine 1 -/
def wCyc : Arena :=
  [{ mid := 0, init := 1, cb := none, rt := {}, states := [dst 1 (some [.call (some 1) (.defn 1)]) none []] },
   { mid := 1, init := 1, cb := none, rt := {}, states := [dst 1 none none []] }]

/-- call 0: `setSubStateMachine(1, machine 1)`; call 1: `setSubStateMachine(1, machine 0)` -/
def tplCyc : Tpl := [.setSub 1 1, .setSub 1 0]

/-- non-vacuity: machine 1 is attached to machine 0 from outside; machine 0's enter action attaches
machine 0 to the (stopped) machine 1 — the attachments are cyclic from then on, created at run time —
and `start()` goes on into machine 1, which calls `start()` on machine 0 again (refused: running).
With fuel 1 the marker appears, with fuel 3 (> 2 machines) it does not. -/
example :
    let g := (dProg tplCyc wCyc [(0, .defn 0)]).1
    let r := dCall tplCyc 3 g 0 .start
    ((g.get 0).stateOf 1).sub = some 1 ∧ ((g.get 1).stateOf 1).sub = none ∧
    ((r.1.get 1).stateOf 1).sub = some 0 ∧ (r.1.get 0).rt.running = true ∧ (r.1.get 1).rt.running = true ∧
    (r.2.2.any fun ev => match ev with | ⟨0, .call (some 1) (.defn 1) true _ _⟩ => true | _ => false) = true ∧
    (r.2.2.any fun ev => match ev.kind with | .foreign _ => true | _ => false) = false ∧
    ((dCall tplCyc 1 g 0 .start).2.2.any fun ev => match ev.kind with | .foreign _ => true | _ => false) = true := by decide

/-- **No null `curr_state_` is ever dereferenced, with definition calls.** After nothing-started, for
every table and every program (callbacks issuing method and definition calls on any machine) no
`unmodelled` event of a machine of the store occurs: a definition call cannot take the `State`
object away from under a running machine (its table is kept while it runs), and a stopped machine
has `curr_state_ = nullptr` and every method tests `is_running_` first. -/
theorem C16_def_arena_no_null_deref (tpl : Tpl) (g : Arena) (ops : List (Nat × Call)) (hf : AI.Fresh g) :
    ∀ ev ∈ (dProg tpl g ops).2, ev.kind = .unmodelled → g.length ≤ ev.mid :=
  AD.dProg_nou tpl ops g [] (AI.fresh_ainv g hf)

/-- non-vacuity: `wCyc` is fresh; and on a store that is not reachable from a fresh one (running,
`curr_state_` null) the event does occur -/
example : AI.Fresh wCyc ∧
    (let g : Arena := [{ mid := 0, init := 1, cb := none, rt := { running := true }, states := [] }]
     (dCall tplCyc 3 g 0 (.run ⟨1, 0⟩)).2.2 = [⟨0, .unmodelled⟩]) := by
  refine ⟨by intro m hm; simp [wCyc] at hm; rcases hm with h | h <;> subst h <;> rfl, by decide⟩

/-- **Order, exactly once — per machine object, with definition calls.** One `run(e)` invocation on
machine `k`, whatever the callbacks running inside it do (definition calls on any machine included):
`k`'s own phase events are none, or exactly exit `a`, the transition action, enter `b`, the
notification `a → b`, once each and in this order, and `k` ends in `b`. -/
theorem C16_def_arena_order_once (tpl : Tpl) (fuel : Nat) (g : Arena) (k : Nat) (e : Event)
    (hwf : (g.get k).rt.running = (g.get k).rt.curr.isSome)
    (hcid : ∀ c, (g.get k).rt.curr = some c → ((g.get k).stateOf c).id = c) :
    AI.AOrderOnce k (g.get k).rt.curr ((dCall tpl fuel g k (.run e)).1.get k).rt.curr e
      (dCall tpl fuel g k (.run e)).2.2 := by
  cases fuel with
  | zero => exact Or.inl ⟨AI.aPhases_noPh k _ (AI.noPh_cons rfl (AI.noPh_nil k)), rfl⟩
  | succ f =>
    unfold dCall
    split
    · exact Or.inl ⟨AI.aPhases_noPh k _ (AI.noPh_unm k k), rfl⟩
    · rename_i hk
      exact AD.aRun_orderD _ (AD.good_dCall tpl f) g k e (Nat.lt_of_not_le hk) hwf hcid

/-- the hypotheses hold for every machine after every program -/
theorem C16_def_arena_order_once_prog (tpl : Tpl) (g : Arena) (ops : List (Nat × Call)) (hf : AI.Fresh g)
    (fuel : Nat) (k : Nat) (e : Event) :
    AI.AOrderOnce k ((dProg tpl g ops).1.get k).rt.curr ((dCall tpl fuel (dProg tpl g ops).1 k (.run e)).1.get k).rt.curr e
      (dCall tpl fuel (dProg tpl g ops).1 k (.run e)).2.2 := by
  have h := AD.dProg_inv tpl ops g [] (AI.fresh_ainv g hf) k
  exact C16_def_arena_order_once tpl fuel _ k e h.2.wf h.2.cid

/-- non-vacuity: `wCbEnter` — the enter action of the transition in flight replaces the callback —
takes the transition 1 → 2 with all four phases; `wScan` — the guard and the action issue definition
calls on both machines — likewise -/
example :
    AI.aPhases 0 (dCall [.setCb [.obs none]] 4 (dProg [.setCb [.obs none]] wCbEnter [(0, .start)]).1 0 (.run ⟨1, 0⟩)).2.2 =
      [.exit 1 ⟨1, 0⟩ false, .action 1 (some 0) ⟨1, 0⟩ false, .enter 2 ⟨1, 0⟩ true, .notify 1 2 ⟨1, 0⟩ true] ∧
    AI.aPhases 0 (dCall tplScan 6 (dProg tplScan wScan [(0, .start)]).1 0 (.run ⟨1, 0⟩)).2.2 =
      [.exit 1 ⟨1, 0⟩ false, .action 1 (some 0) ⟨1, 0⟩ true, .enter 2 ⟨1, 0⟩ false, .notify 1 2 ⟨1, 0⟩ false] := by decide

/-- **Guard evaluation order, with definition calls.** While machine `k` scans (it is busy),
whatever the guards' bodies do — method and definition calls on `k` itself and on any other machine —
the guard evaluations of `k`'s own scan are the candidates' guards up to the selected route, in
order, once each. -/
theorem C16_def_arena_guard_eval_order (tpl : Tpl) (fuel : Nat) (k : Nat) (sid : StateId) (e : Event) (g : Arena)
    (rs : List Route) (hb : (g.get k).rt.cbLevel ≠ 0) :
    (aRouteScan (dCall tpl fuel) k sid e 0 g rs).2.2.filterMap (aGuardOf k) =
      expectedEvals e 0 rs (scanned (aRouteScan (dCall tpl fuel) k sid e 0 g rs).2.1 0 rs.length) := by
  rw [AD.aRouteScan_guardsD _ (AD.good_dCall tpl fuel) k sid e 0 {} [] rs 0 g hb, aRouteScan_sel _ k sid e 0 {} [] rs 0 g]
  exact routeScan_guards sid 0 {} [] e 0 rs

/-- non-vacuity: machine 0 of `wScan` inside its `run`; the first guard's body issues `addRoute` on
machine 0 itself (refused) and on machine 1 (performed), and `run` on machine 0 -/
example :
    let g := ((dProg tplScan wScan [(0, .start)]).1).incLevel 0
    let rs : List Route := [⟨0, 2, some ⟨[], [.call none (.defn 0), .call (some 1) (.defn 0), .call none (.run ⟨7, 0⟩)]⟩, none⟩,
                            ⟨0, 3, some ⟨[7], []⟩, none⟩]
    let r := aRouteScan (dCall tplScan 5) 0 1 ⟨7, 0⟩ 0 g rs
    (g.get 0).rt.cbLevel ≠ 0 ∧
    r.2.2.filterMap (aGuardOf 0) = [(0, false), (1, true)] ∧
    (r.2.2.any fun ev => match ev with | ⟨0, .call (some 1) (.defn 0) true _ _⟩ => true | _ => false) = true ∧
    (r.2.2.any fun ev => match ev with | ⟨0, .call none (.defn 0) false _ _⟩ => true | _ => false) = true := by decide

end Tbox.C16
