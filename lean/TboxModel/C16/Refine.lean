/-
C16 — refinement: the transcribed model (with the stop() repair) implements the reference
semantics of Spec.lean, level by level.  `absL` forgets `cb_level_`, `next_state_` and
`is_running_`.
-/
import TboxModel.C16.InvProofs
import TboxModel.C16.Spec
set_option linter.unusedSimpArgs false
set_option linter.unusedVariables false
namespace Tbox.C16
open Spec (S SRt)

def StateDef.map {A B : Type} (f : A → B) (s : StateDef A) : StateDef B :=
  { id := s.id, enter := s.enter, exit := s.exit, routes := s.routes, events := s.events, dflt := s.dflt,
    sub := s.sub.map f }

def absRt (rt : Rt) : SRt := ⟨rt.curr, rt.last⟩

section
variable {Sub SSub : Type}

def absL (f : Sub → SSub) (m : M Sub) : S SSub :=
  { mid := m.mid, init := m.init, states := m.states.map (StateDef.map f), cb := m.cb, rt := absRt m.rt }

def absR (f : Sub → SSub) (r : M Sub × Bool × Trace) : S SSub × Bool × Trace := (absL f r.1, r.2.1, r.2.2)
def absP (f : Sub → SSub) (r : M Sub × Trace) : S SSub × Trace := (absL f r.1, r.2)

theorem findState_absL (f : Sub → SSub) (m : M Sub) (sid : StateId) :
    (absL f m).findState sid = (m.findState sid).map (StateDef.map f) := by
  unfold MachOf.findState absL
  by_cases h : sid = -1
  · simp [h]
  · simp only [h, if_false, List.find?_map]
    congr 1

theorem stateOf_absL (f : Sub → SSub) (m : M Sub) (sid : StateId) :
    (absL f m).stateOf sid = StateDef.map f (m.stateOf sid) := by
  unfold MachOf.stateOf
  rw [findState_absL]
  cases m.findState sid <;> simp [termState, StateDef.map]

theorem resolve_absL (f : Sub → SSub) (m : M Sub) (sid : StateId) :
    (absL f m).resolve sid = (m.resolve sid).map (StateDef.map f) := by
  unfold MachOf.resolve
  rw [findState_absL]
  cases m.findState sid with
  | some s => simp
  | none => by_cases h : sid = 0 <;> simp [h, termState, StateDef.map]

theorem updSub_map (f : Sub → SSub) (c : StateId) (x : Sub) (l : List (StateDef Sub)) :
    (MachOf.updSub c x l).map (StateDef.map f) = MachOf.updSub c (f x) (l.map (StateDef.map f)) := by
  induction l with
  | nil => rfl
  | cons s rest ih =>
    simp only [MachOf.updSub, List.map_cons]
    have : (StateDef.map f s).id = s.id := rfl
    rw [this]
    split
    · simp [StateDef.map]
    · simp [ih]

theorem setSub_absL (f : Sub → SSub) (m : M Sub) (c : StateId) (x : Sub) :
    absL f (m.setSub c x) = (absL f m).setSub c (f x) := by
  unfold absL MachOf.setSub
  simp [updSub_map]

theorem view_running (rt : Rt) (hr : rt.running = true) : rt.view = mkView rt.curr rt.last rt.next := by
  simp [Rt.view, mkView, hr]

/-- what the ancestors look like from outside -/
def absCtx (ctx : Ctx) : Spec.SCtx := ctx.map fun p => (p.1, p.2.view)

theorem lookup_absCtx (ctx : Ctx) (k : Nat) : Spec.lookupCtx (absCtx ctx) k = (lookupCtx ctx k).map Rt.view := by
  unfold Spec.lookupCtx lookupCtx absCtx
  rw [List.find?_map]
  cases h : ctx.find? ((fun p => p.1 == k) ∘ fun p => (p.1, p.2.view)) with
  | none =>
    have : ctx.find? (fun p => p.1 == k) = none := h
    simp [this]
  | some p =>
    have : ctx.find? (fun p => p.1 == k) = some p := h
    simp [this]

theorem targetView_abs (self : Nat) (rt : Rt) (ctx : Ctx) (t : Option Nat) :
    Spec.targetView self rt.view (absCtx ctx) t = (targetRt self rt ctx t).map Rt.view := by
  cases t with
  | none => rfl
  | some k =>
    simp only [Spec.targetView, targetRt]
    split
    · rfl
    · exact lookup_absCtx ctx k

theorem scriptOp_eq_bodyOp (self : Nat) (rt : Rt) (ctx : Ctx) (op : SOp) (h : Busy rt) (hctx : AllBusy ctx) :
    scriptOp self rt ctx op = Spec.bodyOp self (mkView rt.curr rt.last rt.next) (absCtx ctx) op := by
  rw [← view_running rt h.1]
  cases op with
  | obs t =>
    simp only [scriptOp, Spec.bodyOp, targetView_abs]
    cases targetRt self rt ctx t <;> rfl
  | call t c =>
    simp only [scriptOp, Spec.bodyOp, targetView_abs]
    cases ht : targetRt self rt ctx t with
    | none => rfl
    | some r =>
      simp only [Option.map_some]
      exact scriptCall_rejected r t c (targetRt_busy h hctx ht)

theorem runScript_eq_body (self : Nat) (rt : Rt) (ctx : Ctx) (sc : Script) (h : Busy rt) (hctx : AllBusy ctx) :
    runScript self rt ctx sc = Spec.body self (mkView rt.curr rt.last rt.next) (absCtx ctx) sc := by
  unfold runScript Spec.body
  apply List.map_congr_left
  intro op _
  rw [scriptOp_eq_bodyOp self rt ctx op h hctx]

theorem probe_eq_phase (mk : Bool → Kind) (p : Option Script) (self : Nat) (rt : Rt) (ctx : Ctx) (h : Busy rt) (hctx : AllBusy ctx) :
    probe mk p self rt ctx = Spec.phase mk p self (mkView rt.curr rt.last rt.next) (absCtx ctx) := by
  unfold probe Spec.phase
  cases p with
  | none => rfl
  | some sc => simp only [runScript_eq_body self rt ctx sc h hctx]

theorem probe_eq_phase' (mk : Bool → Kind) (p : Option Script) (self : Nat) (r : Bool) (c l n : Option StateId) (lv : Nat)
    (ctx : Ctx) (hr : r = true) (hctx : AllBusy ctx) :
    probe mk p self ⟨r, c, l, n, lv + 1⟩ ctx = Spec.phase mk p self (mkView c l n) (absCtx ctx) :=
  probe_eq_phase mk p self ⟨r, c, l, n, lv + 1⟩ ctx ⟨hr, by simp⟩ hctx

theorem absCtx_cons (k : Nat) (r : Bool) (c l n : Option StateId) (lv : Nat) (ctx : Ctx) (hr : r = true) :
    absCtx ((k, (⟨r, c, l, n, lv⟩ : Rt)) :: ctx) = (k, mkView c l n) :: absCtx ctx := by
  simp [absCtx, view_running ⟨r, c, l, n, lv⟩ hr]

/-- what the parent may assume: the sub-machine API of the model refines that of the spec -/
structure SubRef (I : Sub → Prop) (f : Sub → SSub) (mo : SubOps Ctx Sub) (so : SubOps Spec.SCtx SSub) : Prop where
  start : ∀ ctx x, AllBusy ctx → I x → (f (mo.start ctx x).1, (mo.start ctx x).2) = so.start (absCtx ctx) (f x)
  stop : ∀ ctx x, AllBusy ctx → I x → (f (mo.stop ctx x).1, (mo.stop ctx x).2) = so.stop (absCtx ctx) (f x)
  run : ∀ ctx x e, AllBusy ctx → I x → (f (mo.run ctx x e).1, (mo.run ctx x e).2) = so.run (absCtx ctx) (f x) e
  term : ∀ x, I x → mo.isTerminated x = so.isTerminated (f x)
  running : ∀ x, I x → mo.isRunning x = so.isRunning (f x)

variable {I : Sub → Prop} {f : Sub → SSub} {mo : SubOps Ctx Sub} {so : SubOps Spec.SCtx SSub}

theorem SubRef.start1 (h : SubRef I f mo so) (ctx : Ctx) (x : Sub) (hc : AllBusy ctx) (hx : I x) :
    (so.start (absCtx ctx) (f x)).1 = f (mo.start ctx x).1 := by rw [← h.start ctx x hc hx]
theorem SubRef.start2 (h : SubRef I f mo so) (ctx : Ctx) (x : Sub) (hc : AllBusy ctx) (hx : I x) :
    (so.start (absCtx ctx) (f x)).2 = (mo.start ctx x).2 := by rw [← h.start ctx x hc hx]
theorem SubRef.stop1 (h : SubRef I f mo so) (ctx : Ctx) (x : Sub) (hc : AllBusy ctx) (hx : I x) :
    (so.stop (absCtx ctx) (f x)).1 = f (mo.stop ctx x).1 := by rw [← h.stop ctx x hc hx]
theorem SubRef.stop2 (h : SubRef I f mo so) (ctx : Ctx) (x : Sub) (hc : AllBusy ctx) (hx : I x) :
    (so.stop (absCtx ctx) (f x)).2 = (mo.stop ctx x).2 := by rw [← h.stop ctx x hc hx]
theorem SubRef.run1 (h : SubRef I f mo so) (ctx : Ctx) (x : Sub) (e : Event) (hc : AllBusy ctx) (hx : I x) :
    (so.run (absCtx ctx) (f x) e).1 = f (mo.run ctx x e).1 := by rw [← h.run ctx x e hc hx]
theorem SubRef.run2 (h : SubRef I f mo so) (ctx : Ctx) (x : Sub) (e : Event) (hc : AllBusy ctx) (hx : I x) :
    (so.run (absCtx ctx) (f x) e).2 = (mo.run ctx x e).2 := by rw [← h.run ctx x e hc hx]

theorem start_ref (hs : SubInv I mo) (hr : SubRef I f mo so) (ctx : Ctx) (hctx : AllBusy ctx) (m : M Sub) (hm : InvL I mo m) :
    absR f (start mo ctx m) = Spec.start so (absCtx ctx) (absL f m) := by
  unfold start Spec.start absR
  rw [startReject_ok hm.1]
  by_cases hrun : m.rt.running = true
  · obtain ⟨c, hc⟩ := curr_of_running hm.1 hrun
    simp only [hrun, if_true]
    simp [absL, absRt, hc]
  · have hcur := curr_of_not_running hm.1 hrun
    simp only [hrun, if_false]
    have hact : (absL f m).rt.active = none := hcur
    simp only [hact]
    rw [findState_absL]
    have hinit : (absL f m).init = m.init := rfl
    rw [hinit]
    cases hf : m.findState m.init with
    | none => simp [absL, absRt]
    | some st =>
      simp only [Option.map_some]
      have hmid : (absL f m).mid = m.mid := rfl
      have hlast : (absL f m).rt.last = m.rt.last := rfl
      simp only [hmid, hlast]
      have hp : probe (.enter st.id ev0) st.enter m.mid ⟨true, some st.id, m.rt.last, m.rt.next, m.rt.cbLevel + 1⟩ ctx
          = Spec.phase (.enter st.id ev0) st.enter m.mid (mkView (some st.id) m.rt.last none) (absCtx ctx) := by
        rw [probe_eq_phase' _ _ _ _ _ _ _ _ _ rfl hctx]; simp [hm.1.2.1]
      have hdown : AllBusy ((m.mid, (⟨true, some st.id, m.rt.last, m.rt.next, m.rt.cbLevel + 1⟩ : Rt)) :: ctx) :=
        allBusy_cons m.mid ⟨rfl, by simp⟩ hctx
      have hcx : absCtx ((m.mid, (⟨true, some st.id, m.rt.last, m.rt.next, m.rt.cbLevel + 1⟩ : Rt)) :: ctx)
          = (m.mid, mkView (some st.id) m.rt.last none) :: absCtx ctx := by
        rw [absCtx_cons _ _ _ _ _ _ _ rfl]; simp [hm.1.2.1]
      cases hsb : st.sub with
      | none =>
        simp only [StateDef.map, hsb, Option.map_none]
        simp only [hp]
        simp [absL, absRt, hm.1.2.2, hcur]
      | some sub =>
        have hI := (hm.2 m.init st sub hf hsb).1
        simp only [StateDef.map, hsb, Option.map_some]
        simp only [hp, setSub_absL, ← hcx, hr.start1 _ sub hdown hI, hr.start2 _ sub hdown hI]
        simp [absL, absRt, hm.1.2.2, hcur, MachOf.setSub, updSub_map]

theorem stop_ref (hs : SubInv I mo) (hr : SubRef I f mo so) (ctx : Ctx) (hctx : AllBusy ctx) (m : M Sub) (hm : InvL I mo m) :
    absP f (stop mo ctx m) = Spec.stop so (absCtx ctx) (absL f m) := by
  unfold stop Spec.stop absP
  rw [stopReject_ok hm.1]
  by_cases hrun : m.rt.running = true
  · obtain ⟨c, hc⟩ := curr_of_running hm.1 hrun
    simp only [hrun, if_true, hc]
    have hact : (absL f m).rt.active = some c := hc
    have hmid : (absL f m).mid = m.mid := rfl
    have hlast : (absL f m).rt.last = m.rt.last := rfl
    simp only [hact, stateOf_absL, hmid, hlast]
    have hp : probe (.exit c ev0) (m.stateOf c).exit m.mid ⟨true, some c, m.rt.last, m.rt.next, m.rt.cbLevel + 1⟩ ctx
        = Spec.phase (.exit c ev0) (m.stateOf c).exit m.mid (mkView (some c) m.rt.last none) (absCtx ctx) := by
      rw [probe_eq_phase' _ _ _ _ _ _ _ _ _ rfl hctx]; simp [hm.1.2.1]
    have hdown : AllBusy ((m.mid, (⟨true, some c, m.rt.last, m.rt.next, m.rt.cbLevel + 1⟩ : Rt)) :: ctx) :=
      allBusy_cons m.mid ⟨rfl, by simp⟩ hctx
    have hcx : absCtx ((m.mid, (⟨true, some c, m.rt.last, m.rt.next, m.rt.cbLevel + 1⟩ : Rt)) :: ctx)
        = (m.mid, mkView (some c) m.rt.last none) :: absCtx ctx := by
      rw [absCtx_cons _ _ _ _ _ _ _ rfl]; simp [hm.1.2.1]
    cases hsb : (m.stateOf c).sub with
    | none =>
      simp only [StateDef.map, hsb, Option.map_none, hp, List.nil_append]
      simp [absL, absRt]
    | some sub =>
      have hfind := find_of_stateOf_sub m c sub hsb
      have hI := (hm.2 c _ sub hfind hsb).1
      simp only [StateDef.map, hsb, Option.map_some, setSub_rt, hp, ← hcx, hr.stop1 _ sub hdown hI, hr.stop2 _ sub hdown hI]
      simp [absL, absRt, MachOf.setSub, updSub_map]
  · have hcur := curr_of_not_running hm.1 hrun
    simp only [hrun, if_false, Bool.false_eq_true]
    have hact : (absL f m).rt.active = none := hcur
    simp only [hact]

theorem handlerPhase_ref (cs : StateDef Sub) (self : Nat) (rt : Rt) (ctx : Ctx) (e : Event) (hb : Busy rt) (hctx : AllBusy ctx) :
    handlerPhase cs self rt ctx e =
      match Spec.askHandler (StateDef.map f cs) self (mkView rt.curr rt.last rt.next) (absCtx ctx) e with
      | some r => r
      | none => (-1, []) := by
  unfold handlerPhase Spec.askHandler
  have he : (StateDef.map f cs).events = cs.events := rfl
  have hd : (StateDef.map f cs).dflt = cs.dflt := rfl
  have hi : (StateDef.map f cs).id = cs.id := rfl
  rw [he, hd, hi]
  cases cs.events.find? (fun p => p.1 == e.id) with
  | some p => simp [runScript_eq_body _ _ _ _ hb hctx]
  | none =>
    cases cs.dflt with
    | some h => simp [runScript_eq_body _ _ _ _ hb hctx]
    | none => simp

theorem routeScan_ref (sid : StateId) (self : Nat) (rt : Rt) (ctx : Ctx) (e : Event) (hb : Busy rt) (hctx : AllBusy ctx)
    (i : Nat) (rs : List Route) :
    routeScan sid self rt ctx e i rs =
      (((Spec.indexed i rs).filter (fun p => p.2.matchesEvent e)).find? (fun p => Spec.holds p.2 e),
       ((((Spec.indexed i rs).filter (fun p => p.2.matchesEvent e)).takeWhile (fun p => !Spec.holds p.2 e)) ++
          (((Spec.indexed i rs).filter (fun p => p.2.matchesEvent e)).find? (fun p => Spec.holds p.2 e)).toList).flatMap
            (Spec.guardEvents sid self (mkView rt.curr rt.last rt.next) (absCtx ctx) e)) := by
  induction rs generalizing i with
  | nil => simp [routeScan, Spec.indexed]
  | cons r rs ih =>
    unfold routeScan
    simp only [Spec.indexed]
    by_cases hm : r.matchesEvent e = true
    · simp only [hm, Bool.not_true, Bool.false_eq_true, if_false, List.filter_cons, if_true]
      cases hg : r.guard with
      | none =>
        simp [Spec.holds, hg, Spec.guardEvents]
      | some g =>
        by_cases hv : g.eval e = true
        · simp [Spec.holds, hg, hv, Spec.guardEvents, runScript_eq_body _ _ _ _ hb hctx]
        · simp only [Bool.not_eq_true] at hv
          simp [Spec.holds, hg, hv, Spec.guardEvents, runScript_eq_body _ _ _ _ hb hctx, ih (i + 1)]
    · simp only [Bool.not_eq_true] at hm
      simp only [hm, Bool.not_false, if_true, List.filter_cons, Bool.false_eq_true, if_false]
      exact ih (i + 1)

theorem transition_ref (hs : SubInv I mo) (hr : SubRef I f mo so) (ctx : Ctx) (hctx : AllBusy ctx) (m : M Sub) (hm : InvL I mo m) (c : StateId)
    (hrun : m.rt.running = true) (hc : m.rt.curr = some c)
    (e : Event) (nextId : StateId) (ridx : Option Nat) (action : Option Script) :
    absR f (transition mo ctx m c e nextId ridx action) = Spec.fire so (absCtx ctx) (absL f m) c e nextId ridx action := by
  unfold transition Spec.fire absR
  rw [resolve_absL]
  cases hres : m.resolve nextId with
  | none => simp [absL, absRt]
  | some ts =>
    simp only [Option.map_some, stateOf_absL]
    have hlv : m.rt.cbLevel + 1 ≠ 0 := by omega
    have hcb : (absL f m).cb = m.cb := rfl
    have hmid : (absL f m).mid = m.mid := rfl
    have hlast : (absL f m).rt.last = m.rt.last := rfl
    have hid : (StateDef.map f ts).id = ts.id := rfl
    have hen : (StateDef.map f ts).enter = ts.enter := rfl
    have hex : (StateDef.map f (m.stateOf c)).exit = (m.stateOf c).exit := rfl
    simp only [hcb, hlast, hid, hen, hex, hmid]
    simp only [probe_eq_phase' _ _ _ _ _ _ _ _ _ hrun hctx]
    simp only [hc]
    have hdown : AllBusy ((m.mid, (⟨m.rt.running, some ts.id, some c, none, m.rt.cbLevel + 1⟩ : Rt)) :: ctx) :=
      allBusy_cons m.mid ⟨hrun, hlv⟩ hctx
    have hcx : absCtx ((m.mid, (⟨m.rt.running, some ts.id, some c, none, m.rt.cbLevel + 1⟩ : Rt)) :: ctx)
        = (m.mid, mkView (some ts.id) (some c) none) :: absCtx ctx := absCtx_cons _ _ _ _ _ _ _ hrun
    cases hsb : ts.sub with
    | none =>
      simp only [StateDef.map, hsb, Option.map_none]
      simp [absL, absRt]
    | some sub =>
      have hfind := resolve_sub m nextId ts sub hres hsb
      have hI := (hm.2 ts.id ts sub hfind hsb).1
      have hI1 := (hs.start _ sub hdown hI).1
      simp only [StateDef.map, hsb, Option.map_some, ← hcx, hr.start1 _ sub hdown hI, hr.start2 _ sub hdown hI,
        hr.run1 _ _ e hdown hI1, hr.run2 _ _ e hdown hI1]
      simp [absL, absRt, MachOf.setSub, updSub_map]

theorem runOwn_ref (hs : SubInv I mo) (hr : SubRef I f mo so) (ctx : Ctx) (hctx : AllBusy ctx) (m : M Sub) (hm : InvL I mo m) (c : StateId)
    (hrun : m.rt.running = true) (hc : m.rt.curr = some c) (e : Event) :
    absR f (runOwn mo ctx m c e) = Spec.handle so (absCtx ctx) (absL f m) c e := by
  have hT := fun nextId ridx action => transition_ref hs hr ctx hctx m hm c hrun hc e nextId ridx action
  unfold runOwn Spec.handle
  simp only [absR] at hT ⊢
  have hnext : m.rt.next = none := hm.1.2.1
  have hlast : (absL f m).rt.last = m.rt.last := rfl
  have hmid : (absL f m).mid = m.mid := rfl
  have hroutes : (StateDef.map f (m.stateOf c)).routes = (m.stateOf c).routes := rfl
  rw [handlerPhase_ref (f := f) (m.stateOf c) m.mid ⟨m.rt.running, m.rt.curr, m.rt.last, m.rt.next, m.rt.cbLevel + 1⟩ ctx e ⟨hrun, by simp⟩ hctx]
  rw [routeScan_ref c m.mid ⟨m.rt.running, m.rt.curr, m.rt.last, m.rt.next, m.rt.cbLevel + 1⟩ ctx e ⟨hrun, by simp⟩ hctx]
  simp only [stateOf_absL, hc, hnext, hlast, hmid, hroutes, Spec.scanEvents, Spec.chosen, Spec.candidates]
  cases hA : Spec.askHandler (StateDef.map f (m.stateOf c)) m.mid (mkView (some c) m.rt.last none) (absCtx ctx) e with
  | none =>
    have hneg : ((-1 : Int) < 0) = True := by decide
    simp only [hneg, if_true, List.nil_append]
    cases hch : List.find? (fun p => Spec.holds p.2 e)
        (List.filter (fun p => p.2.matchesEvent e) (Spec.indexed 0 (m.stateOf c).routes)) with
    | none => simp
    | some ir =>
      obtain ⟨i, r⟩ := ir
      simp only []
      have := hT r.to (some i) r.action
      rw [← this]
  | some tt =>
    obtain ⟨target, t⟩ := tt
    simp only []
    by_cases htg : target < 0
    · simp only [htg, if_true]
      cases hch : List.find? (fun p => Spec.holds p.2 e)
          (List.filter (fun p => p.2.matchesEvent e) (Spec.indexed 0 (m.stateOf c).routes)) with
      | none => simp
      | some ir =>
        obtain ⟨i, r⟩ := ir
        simp only []
        have := hT r.to (some i) r.action
        rw [← this]
    · simp only [htg, if_false]
      have := hT target none none
      rw [← this]

theorem run_ref (hs : SubInv I mo) (hr : SubRef I f mo so) (ctx : Ctx) (hctx : AllBusy ctx) (m : M Sub) (hm : InvL I mo m) (e : Event) :
    absR f (run mo ctx m e) = Spec.run so (absCtx ctx) (absL f m) e := by
  unfold run Spec.run
  rw [runReject_ok hm.1]
  by_cases hrun : m.rt.running = true
  · obtain ⟨c, hc⟩ := curr_of_running hm.1 hrun
    simp only [hrun, if_true, hc]
    have hact : (absL f m).rt.active = some c := hc
    have hmid : (absL f m).mid = m.mid := rfl
    have hlast : (absL f m).rt.last = m.rt.last := rfl
    simp only [hact, stateOf_absL, hmid, hlast]
    cases hsb : (m.stateOf c).sub with
    | none =>
      simp only [StateDef.map, hsb, Option.map_none]
      exact runOwn_ref hs hr ctx hctx m hm c hrun hc e
    | some sub =>
      have hfind := find_of_stateOf_sub m c sub hsb
      have hI := (hm.2 c _ sub hfind hsb).1
      have hdown : AllBusy ((m.mid, (⟨true, some c, m.rt.last, m.rt.next, m.rt.cbLevel + 1⟩ : Rt)) :: ctx) :=
        allBusy_cons m.mid ⟨rfl, by simp⟩ hctx
      have hcx : absCtx ((m.mid, (⟨true, some c, m.rt.last, m.rt.next, m.rt.cbLevel + 1⟩ : Rt)) :: ctx)
          = (m.mid, mkView (some c) m.rt.last none) :: absCtx ctx := by
        rw [absCtx_cons _ _ _ _ _ _ _ rfl]; simp [hm.1.2.1]
      have h1 := hs.run _ sub e hdown hI
      simp only [StateDef.map, hsb, Option.map_some, ← hcx, hr.run1 _ sub e hdown hI, hr.run2 _ sub e hdown hI, ← hr.term _ h1.1]
      by_cases ht : mo.isTerminated (mo.run ((m.mid, (⟨true, some c, m.rt.last, m.rt.next, m.rt.cbLevel + 1⟩ : Rt)) :: ctx) sub e).1 = true
      · simp only [ht, Bool.not_true, Bool.false_eq_true, if_false, if_true]
        have h2 := hs.stop _ _ hdown h1.1
        have hm1 := invL_setSub (c := c) hm h2.1 (fun _ => h2.2.1)
        have h3 := runOwn_ref hs hr ctx hctx _ hm1 c (by simpa using hrun) (by simpa using hc) e
        simp only [hr.stop1 _ _ hdown h1.1, hr.stop2 _ _ hdown h1.1, ← setSub_absL, ← h3]
        simp [absR]
      · simp only [Bool.not_eq_true] at ht
        simp only [ht, Bool.not_false, if_true, Bool.false_eq_true, if_false]
        simp [absR, setSub_absL]
  · have hcur := curr_of_not_running hm.1 hrun
    simp only [hrun, if_false, Bool.false_eq_true]
    have hact : (absL f m).rt.active = none := hcur
    simp only [hact]
    simp [absR]

/-- the level theorem of the refinement -/
theorem level_subRef (hs : SubInv I mo) (hr : SubRef I f mo so) :
    SubRef (InvL I mo) (absL f) (levelOps mo) (Spec.levelOps so) where
  start := fun ctx m hctx hm => start_ref hs hr ctx hctx m hm
  stop := fun ctx m hctx hm => stop_ref hs hr ctx hctx m hm
  run := fun ctx m e hctx hm => run_ref hs hr ctx hctx m hm e
  term := fun m _ => rfl
  running := fun m hm => by
    show m.rt.running = (absL f m).rt.active.isSome
    exact hm.1.1

end

/-- forget the bookkeeping of the implementation at every level -/
def abs : (n : Nat) → Mach n → Spec.SMach n
  | 0 => absL (fun (x : Empty) => x)
  | n + 1 => absL (abs n)

theorem empty_subRef : SubRef (fun (_ : Empty) => True) (fun (x : Empty) => x) emptyOps emptyOps :=
  ⟨fun _ x => x.elim, fun _ x => x.elim, fun _ x => x.elim, fun x => x.elim, fun x => x.elim⟩

theorem ref_all : ∀ n, SubRef (Inv n) (abs n) (subOps n) (Spec.subOps n)
  | 0 => level_subRef empty_subInv empty_subRef
  | n + 1 => level_subRef (inv_all n) (ref_all n)

end Tbox.C16
