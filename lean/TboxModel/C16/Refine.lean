/-
C16 — refinement: the transcribed model (with the stop() repair) implements the reference
semantics of Spec.lean, level by level.  `absL` forgets `cb_level_`, `next_state_` and
`is_running_`.
-/
import TboxModel.C16.InvProofs
import TboxModel.C16.Spec
set_option linter.unusedSimpArgs false
set_option linter.unusedVariables false
namespace Tbox.C16
open Spec (S SRt)

def StateDef.map {A B : Type} (f : A → B) (s : StateDef A) : StateDef B :=
  { id := s.id, enter := s.enter, exit := s.exit, routes := s.routes, events := s.events, dflt := s.dflt,
    sub := s.sub.map f }

def absRt (rt : Rt) : SRt := ⟨rt.curr, rt.last⟩

section
variable {Sub SSub : Type}

def absL (f : Sub → SSub) (m : M Sub) : S SSub :=
  { init := m.init, states := m.states.map (StateDef.map f), cb := m.cb, rt := absRt m.rt }

def absR (f : Sub → SSub) (r : M Sub × Bool × Trace) : S SSub × Bool × Trace := (absL f r.1, r.2.1, r.2.2)
def absP (f : Sub → SSub) (r : M Sub × Trace) : S SSub × Trace := (absL f r.1, r.2)

theorem findState_absL (f : Sub → SSub) (m : M Sub) (sid : StateId) :
    (absL f m).findState sid = (m.findState sid).map (StateDef.map f) := by
  unfold MachOf.findState absL
  by_cases h : sid = -1
  · simp [h]
  · simp only [h, if_false, List.find?_map]
    congr 1

theorem stateOf_absL (f : Sub → SSub) (m : M Sub) (sid : StateId) :
    (absL f m).stateOf sid = StateDef.map f (m.stateOf sid) := by
  unfold MachOf.stateOf
  rw [findState_absL]
  cases m.findState sid <;> simp [termState, StateDef.map]

theorem resolve_absL (f : Sub → SSub) (m : M Sub) (sid : StateId) :
    (absL f m).resolve sid = (m.resolve sid).map (StateDef.map f) := by
  unfold MachOf.resolve
  rw [findState_absL]
  cases m.findState sid with
  | some s => simp
  | none => by_cases h : sid = 0 <;> simp [h, termState, StateDef.map]

theorem updSub_map (f : Sub → SSub) (c : StateId) (x : Sub) (l : List (StateDef Sub)) :
    (MachOf.updSub c x l).map (StateDef.map f) = MachOf.updSub c (f x) (l.map (StateDef.map f)) := by
  induction l with
  | nil => rfl
  | cons s rest ih =>
    simp only [MachOf.updSub, List.map_cons]
    have : (StateDef.map f s).id = s.id := rfl
    rw [this]
    split
    · simp [StateDef.map]
    · simp [ih]

theorem setSub_absL (f : Sub → SSub) (m : M Sub) (c : StateId) (x : Sub) :
    absL f (m.setSub c x) = (absL f m).setSub c (f x) := by
  unfold absL MachOf.setSub
  simp [updSub_map]

theorem view_running (rt : Rt) (hr : rt.running = true) : rt.view = mkView rt.curr rt.last rt.next := by
  simp [Rt.view, mkView, hr]

theorem runScript_eq_body (rt : Rt) (sc : Script) (hr : rt.running = true) (hc : rt.cbLevel ≠ 0) :
    runScript rt sc = Spec.body (mkView rt.curr rt.last rt.next) sc := by
  induction sc with
  | nil => rfl
  | cons op rest ih =>
    cases op with
    | obs => simp only [runScript, Spec.body, ih, view_running rt hr]
    | call c => simp only [runScript, Spec.body, ih, scriptCall_rejected rt c hr hc, view_running rt hr]

theorem probe_eq_phase (mk : Bool → Kind) (p : Option Script) (rt : Rt) (hr : rt.running = true) (hc : rt.cbLevel ≠ 0) :
    probe mk p rt = Spec.phase mk p (mkView rt.curr rt.last rt.next) := by
  unfold probe Spec.phase
  cases p with
  | none => rfl
  | some sc => simp only [runScript_eq_body rt sc hr hc]

theorem probe_eq_phase' (mk : Bool → Kind) (p : Option Script) (r : Bool) (c l n : Option StateId) (lv : Nat)
    (hr : r = true) : probe mk p ⟨r, c, l, n, lv + 1⟩ = Spec.phase mk p (mkView c l n) :=
  probe_eq_phase mk p ⟨r, c, l, n, lv + 1⟩ hr (by simp)

/-- what the parent may assume: the sub-machine API of the model refines that of the spec -/
structure SubRef (I : Sub → Prop) (f : Sub → SSub) (mo : SubOps Sub) (so : SubOps SSub) : Prop where
  start : ∀ x, I x → (f (mo.start x).1, (mo.start x).2) = so.start (f x)
  stop : ∀ x, I x → (f (mo.stop x).1, (mo.stop x).2) = so.stop (f x)
  run : ∀ x e, I x → (f (mo.run x e).1, (mo.run x e).2) = so.run (f x) e
  term : ∀ x, I x → mo.isTerminated x = so.isTerminated (f x)
  running : ∀ x, I x → mo.isRunning x = so.isRunning (f x)

variable {I : Sub → Prop} {f : Sub → SSub} {mo : SubOps Sub} {so : SubOps SSub}

theorem SubRef.start1 (h : SubRef I f mo so) (x : Sub) (hx : I x) : (so.start (f x)).1 = f (mo.start x).1 := by
  rw [← h.start x hx]
theorem SubRef.start2 (h : SubRef I f mo so) (x : Sub) (hx : I x) : (so.start (f x)).2 = (mo.start x).2 := by
  rw [← h.start x hx]
theorem SubRef.stop1 (h : SubRef I f mo so) (x : Sub) (hx : I x) : (so.stop (f x)).1 = f (mo.stop x).1 := by
  rw [← h.stop x hx]
theorem SubRef.stop2 (h : SubRef I f mo so) (x : Sub) (hx : I x) : (so.stop (f x)).2 = (mo.stop x).2 := by
  rw [← h.stop x hx]
theorem SubRef.run1 (h : SubRef I f mo so) (x : Sub) (e : EventId) (hx : I x) : (so.run (f x) e).1 = f (mo.run x e).1 := by
  rw [← h.run x e hx]
theorem SubRef.run2 (h : SubRef I f mo so) (x : Sub) (e : EventId) (hx : I x) : (so.run (f x) e).2 = (mo.run x e).2 := by
  rw [← h.run x e hx]

theorem start_ref (hs : SubInv I mo) (hr : SubRef I f mo so) (m : M Sub) (hm : InvL I mo m) :
    absR f (start mo m) = Spec.start so (absL f m) := by
  unfold start Spec.start absR
  rw [startReject_ok hm.1]
  by_cases hrun : m.rt.running = true
  · obtain ⟨c, hc⟩ := curr_of_running hm.1 hrun
    simp only [hrun, if_true]
    simp [absL, absRt, hc]
  · have hcur := curr_of_not_running hm.1 hrun
    simp only [hrun, if_false]
    have hact : (absL f m).rt.active = none := hcur
    simp only [hact]
    rw [findState_absL]
    have hinit : (absL f m).init = m.init := rfl
    rw [hinit]
    cases hf : m.findState m.init with
    | none => simp [absL, absRt]
    | some st =>
      simp only [Option.map_some]
      have hp : probe (.enter st.id 0) st.enter ⟨true, some st.id, m.rt.last, m.rt.next, m.rt.cbLevel + 1⟩
          = Spec.phase (.enter st.id 0) st.enter (mkView (some st.id) m.rt.last none) := by
        rw [probe_eq_phase _ _ _ rfl (by simp)]; simp [hm.1.2.1]
      cases hsb : st.sub with
      | none =>
        simp only [StateDef.map, hsb, Option.map_none]
        simp only [hp]
        simp [absL, absRt, hm.1.2.2, hcur]
      | some sub =>
        have hI := (hm.2 m.init st sub hf hsb).1
        simp only [StateDef.map, hsb, Option.map_some]
        simp only [hp, setSub_absL, hr.start1 sub hI, hr.start2 sub hI]
        simp [absL, absRt, hm.1.2.2, hcur, MachOf.setSub, updSub_map]

theorem stop_ref (hs : SubInv I mo) (hr : SubRef I f mo so) (m : M Sub) (hm : InvL I mo m) :
    absP f (stop true mo m) = Spec.stop so (absL f m) := by
  unfold stop Spec.stop absP
  rw [stopReject_ok hm.1]
  by_cases hrun : m.rt.running = true
  · obtain ⟨c, hc⟩ := curr_of_running hm.1 hrun
    simp only [hrun, if_true, hc]
    have hact : (absL f m).rt.active = some c := hc
    simp only [hact, stateOf_absL]
    have hp : probe (.exit c 0) (m.stateOf c).exit ⟨m.rt.running, m.rt.curr, m.rt.last, m.rt.next, m.rt.cbLevel + 1⟩
        = Spec.phase (.exit c 0) (m.stateOf c).exit (mkView (some c) m.rt.last none) := by
      rw [probe_eq_phase' _ _ _ _ _ _ _ hrun]; simp [hm.1.2.1, hc]
    cases hsb : (m.stateOf c).sub with
    | none =>
      simp only [StateDef.map, hsb, Option.map_none, hp, List.nil_append]
      simp [absL, absRt]
    | some sub =>
      have hfind := find_of_stateOf_sub m c sub hsb
      have hI := (hm.2 c _ sub hfind hsb).1
      simp only [StateDef.map, hsb, Option.map_some, setSub_rt, hp, hr.stop1 sub hI, hr.stop2 sub hI]
      simp [absL, absRt, MachOf.setSub, updSub_map]
  · have hcur := curr_of_not_running hm.1 hrun
    simp only [hrun, if_false, Bool.false_eq_true]
    have hact : (absL f m).rt.active = none := hcur
    simp only [hact]

theorem handlerPhase_ref (cs : StateDef Sub) (rt : Rt) (e : EventId) (hr : rt.running = true) (hc : rt.cbLevel ≠ 0) :
    handlerPhase cs rt e =
      match Spec.askHandler (StateDef.map f cs) (mkView rt.curr rt.last rt.next) e with
      | some r => r
      | none => (-1, []) := by
  unfold handlerPhase Spec.askHandler
  have he : (StateDef.map f cs).events = cs.events := rfl
  have hd : (StateDef.map f cs).dflt = cs.dflt := rfl
  have hi : (StateDef.map f cs).id = cs.id := rfl
  rw [he, hd, hi]
  cases cs.events.find? (fun p => p.1 == e) with
  | some p => simp [runScript_eq_body _ _ hr hc]
  | none =>
    cases cs.dflt with
    | some h => simp [runScript_eq_body _ _ hr hc]
    | none => simp

theorem routeScan_ref (sid : StateId) (rt : Rt) (e : EventId) (hr : rt.running = true) (hc : rt.cbLevel ≠ 0)
    (i : Nat) (rs : List Route) :
    routeScan sid rt e i rs =
      (((Spec.indexed i rs).filter (fun p => p.2.matchesEvent e)).find? (fun p => Spec.holds p.2 e),
       ((((Spec.indexed i rs).filter (fun p => p.2.matchesEvent e)).takeWhile (fun p => !Spec.holds p.2 e)) ++
          (((Spec.indexed i rs).filter (fun p => p.2.matchesEvent e)).find? (fun p => Spec.holds p.2 e)).toList).flatMap
            (Spec.guardEvents sid (mkView rt.curr rt.last rt.next) e)) := by
  induction rs generalizing i with
  | nil => simp [routeScan, Spec.indexed]
  | cons r rs ih =>
    unfold routeScan
    simp only [Spec.indexed]
    by_cases hm : r.matchesEvent e = true
    · simp only [hm, Bool.not_true, Bool.false_eq_true, if_false, List.filter_cons, if_true]
      cases hg : r.guard with
      | none =>
        simp [Spec.holds, hg, Spec.guardEvents]
      | some g =>
        by_cases hv : g.eval e = true
        · simp [Spec.holds, hg, hv, Spec.guardEvents, runScript_eq_body _ _ hr hc]
        · simp only [Bool.not_eq_true] at hv
          simp [Spec.holds, hg, hv, Spec.guardEvents, runScript_eq_body _ _ hr hc, ih (i + 1)]
    · simp only [Bool.not_eq_true] at hm
      simp only [hm, Bool.not_false, if_true, List.filter_cons, Bool.false_eq_true, if_false]
      exact ih (i + 1)

theorem transition_ref (hs : SubInv I mo) (hr : SubRef I f mo so) (m : M Sub) (hm : InvL I mo m) (c : StateId)
    (hrun : m.rt.running = true) (hc : m.rt.curr = some c)
    (e : EventId) (nextId : StateId) (ridx : Option Nat) (action : Option Script) :
    absR f (transition mo m c e nextId ridx action) = Spec.fire so (absL f m) c e nextId ridx action := by
  unfold transition Spec.fire absR
  rw [resolve_absL]
  cases hres : m.resolve nextId with
  | none => simp [absL, absRt]
  | some ts =>
    simp only [Option.map_some, stateOf_absL]
    have hlv : m.rt.cbLevel + 1 ≠ 0 := by omega
    have hcb : (absL f m).cb = m.cb := rfl
    have hlast : (absL f m).rt.last = m.rt.last := rfl
    have hid : (StateDef.map f ts).id = ts.id := rfl
    have hen : (StateDef.map f ts).enter = ts.enter := rfl
    have hex : (StateDef.map f (m.stateOf c)).exit = (m.stateOf c).exit := rfl
    simp only [hcb, hlast, hid, hen, hex]
    simp only [probe_eq_phase' _ _ _ _ _ _ _ hrun]
    simp only [hc]
    cases hsb : ts.sub with
    | none =>
      simp only [StateDef.map, hsb, Option.map_none]
      simp [absL, absRt]
    | some sub =>
      have hfind := resolve_sub m nextId ts sub hres hsb
      have hI := (hm.2 ts.id ts sub hfind hsb).1
      have hI1 := (hs.start sub hI).1
      simp only [StateDef.map, hsb, Option.map_some, hr.start1 sub hI, hr.start2 sub hI,
        hr.run1 _ e hI1, hr.run2 _ e hI1]
      simp [absL, absRt, MachOf.setSub, updSub_map]

theorem runOwn_ref (hs : SubInv I mo) (hr : SubRef I f mo so) (m : M Sub) (hm : InvL I mo m) (c : StateId)
    (hrun : m.rt.running = true) (hc : m.rt.curr = some c) (e : EventId) :
    absR f (runOwn mo m c e) = Spec.handle so (absL f m) c e := by
  have hT := fun nextId ridx action => transition_ref hs hr m hm c hrun hc e nextId ridx action
  unfold runOwn Spec.handle
  simp only [absR] at hT ⊢
  have hnext : m.rt.next = none := hm.1.2.1
  have hlast : (absL f m).rt.last = m.rt.last := rfl
  have hroutes : (StateDef.map f (m.stateOf c)).routes = (m.stateOf c).routes := rfl
  rw [handlerPhase_ref (f := f) (m.stateOf c) ⟨m.rt.running, m.rt.curr, m.rt.last, m.rt.next, m.rt.cbLevel + 1⟩ e hrun (by simp)]
  rw [routeScan_ref c ⟨m.rt.running, m.rt.curr, m.rt.last, m.rt.next, m.rt.cbLevel + 1⟩ e hrun (by simp)]
  simp only [stateOf_absL, hc, hnext, hlast, hroutes, Spec.scanEvents, Spec.chosen, Spec.candidates]
  cases hA : Spec.askHandler (StateDef.map f (m.stateOf c)) (mkView (some c) m.rt.last none) e with
  | none =>
    simp only [if_true, List.nil_append]
    cases hch : List.find? (fun p => Spec.holds p.2 e)
        (List.filter (fun p => p.2.matchesEvent e) (Spec.indexed 0 (m.stateOf c).routes)) with
    | none => simp
    | some ir =>
      obtain ⟨i, r⟩ := ir
      simp only []
      have := hT r.to (some i) r.action
      rw [← this]
  | some tt =>
    obtain ⟨target, t⟩ := tt
    simp only []
    by_cases htg : target = -1
    · simp only [htg, if_true]
      cases hch : List.find? (fun p => Spec.holds p.2 e)
          (List.filter (fun p => p.2.matchesEvent e) (Spec.indexed 0 (m.stateOf c).routes)) with
      | none => simp
      | some ir =>
        obtain ⟨i, r⟩ := ir
        simp only []
        have := hT r.to (some i) r.action
        rw [← this]
    · simp only [htg, if_false]
      have := hT target none none
      rw [← this]

theorem run_ref (hs : SubInv I mo) (hr : SubRef I f mo so) (m : M Sub) (hm : InvL I mo m) (e : EventId) :
    absR f (run mo m e) = Spec.run so (absL f m) e := by
  unfold run Spec.run
  rw [runReject_ok hm.1]
  by_cases hrun : m.rt.running = true
  · obtain ⟨c, hc⟩ := curr_of_running hm.1 hrun
    simp only [hrun, if_true, hc]
    have hact : (absL f m).rt.active = some c := hc
    simp only [hact, stateOf_absL]
    cases hsb : (m.stateOf c).sub with
    | none =>
      simp only [StateDef.map, hsb, Option.map_none]
      exact runOwn_ref hs hr m hm c hrun hc e
    | some sub =>
      have hfind := find_of_stateOf_sub m c sub hsb
      have hI := (hm.2 c _ sub hfind hsb).1
      have h1 := hs.run sub e hI
      simp only [StateDef.map, hsb, Option.map_some, hr.run1 sub e hI, hr.run2 sub e hI, ← hr.term _ h1.1]
      by_cases ht : mo.isTerminated (mo.run sub e).1 = true
      · simp only [ht, Bool.not_true, Bool.false_eq_true, if_false, if_true]
        have h2 := hs.stop (mo.run sub e).1 h1.1
        have hm1 : InvL I mo (m.setSub c (mo.stop (mo.run sub e).1).1) := invL_setSub hm h2.1 (fun _ => h2.2.1)
        have h3 := runOwn_ref hs hr _ hm1 c (by simpa using hrun) (by simpa using hc) e
        simp only [hr.stop1 _ h1.1, hr.stop2 _ h1.1, ← setSub_absL, ← h3]
        simp [absR]
      · simp only [Bool.not_eq_true] at ht
        simp only [ht, Bool.not_false, if_true, Bool.false_eq_true, if_false]
        simp [absR, setSub_absL]
  · have hcur := curr_of_not_running hm.1 hrun
    simp only [hrun, if_false, Bool.false_eq_true]
    have hact : (absL f m).rt.active = none := hcur
    simp only [hact]
    simp [absR]

/-- the level theorem of the refinement -/
theorem level_subRef (hs : SubInv I mo) (hr : SubRef I f mo so) :
    SubRef (InvL I mo) (absL f) (levelOps true mo) (Spec.levelOps so) where
  start := fun m hm => start_ref hs hr m hm
  stop := fun m hm => stop_ref hs hr m hm
  run := fun m e hm => run_ref hs hr m hm e
  term := fun m _ => rfl
  running := fun m hm => by
    show m.rt.running = (absL f m).rt.active.isSome
    exact hm.1.1

end

/-- forget the bookkeeping of the implementation at every level -/
def abs : (n : Nat) → Mach n → Spec.SMach n
  | 0 => absL (fun (x : Empty) => x)
  | n + 1 => absL (abs n)

theorem empty_subRef : SubRef (fun (_ : Empty) => True) (fun (x : Empty) => x) emptyOps emptyOps :=
  ⟨fun x => x.elim, fun x => x.elim, fun x => x.elim, fun x => x.elim, fun x => x.elim⟩

theorem ref_all : ∀ n, SubRef (Inv n) (abs n) (subOps true n) (Spec.subOps n)
  | 0 => level_subRef empty_subInv empty_subRef
  | n + 1 => level_subRef (inv_all n) (ref_all n)

end Tbox.C16
