/-
C16 — the mutable part of `StateMachine::Impl` and the entry checks of `start/stop/run`
(shared by the tree model `Model.lean` and the arena model `Arena.lean`).
-/
import TboxModel.C16.Syntax
namespace Tbox.C16

structure Rt where
  running : Bool := false
  curr : Option StateId := none
  last : Option StateId := none
  next : Option StateId := none
  cbLevel : Nat := 0
deriving Repr, DecidableEq

/-- the five observers of the public API -/
def Rt.view (rt : Rt) : View :=
  { curr := optInt rt.curr, last := optInt rt.last, next := optInt rt.next,
    running := rt.running, term := rt.curr == some 0 }

/-- entry checks of `start()`: `some r` = returns `r` at once -/
def startReject (rt : Rt) : Option Bool :=
  if rt.running then some false
  else if rt.cbLevel ≠ 0 then some false
  else none

/-- entry checks of `stop()` -/
def stopReject (rt : Rt) : Option Unit :=
  if !rt.running then some ()
  else if rt.cbLevel ≠ 0 then some ()
  else none

/-- entry checks of `run()` -/
def runReject (rt : Rt) : Option Bool :=
  if !rt.running then some false
  else if rt.cbLevel ≠ 0 then some false
  else none

/-- which repairs are applied: `stopSub` = patches/C16-01 (stop() stops the active sub-machine),
`holdGuard` = patches/C16-02 (`cb_level_` stays raised while calling into the sub-machine) -/
structure Fix where
  stopSub : Bool
  holdGuard : Bool
deriving Repr, DecidableEq

def Fix.all : Fix := ⟨true, true⟩

end Tbox.C16
