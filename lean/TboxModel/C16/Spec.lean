/-
C16 — reference semantics of the hierarchical state machine, written from the property
statement (not from the C++):

* a machine is either stopped or *in* a state (`active`); it remembers the state it left last;
* an event goes to the sub-machine of the active state; only when that sub-machine has reached
  its terminal state (id 0) it is stopped and the machine handles the event itself;
* handling: the handler registered for the event (else the default handler) may pick the target
  (an answer >= 0; a negative answer picks none — state_machine.h: "< 0 = no state change");
  otherwise the FIRST route in registration order whose event matches (or is the wildcard 0)
  and whose guard holds is taken; no candidate = nothing happens;
* a transition is: exit action of the source, route action, enter action of the target,
  state-changed notification, then the target's sub-machine is started and given the event;
* `start` enters the initial state and starts its sub-machine; `stop` stops the active
  sub-machine first (inner exits before outer ones), then exits the active state;
* callbacks see: handler/guard: current = source; exit: current = source, next = target;
  route action: current = none, last = source, next = target; enter/notification:
  current = target, last = source;
* every call a callback makes on its own machine OR ON AN ANCESTOR is rejected: it returns false
  and nothing changes (a machine whose sub-machine is working is itself inside a call).

There is no re-entrancy counter, no `next` field and no running flag here.
-/
import TboxModel.C16.Syntax
namespace Tbox.C16.Spec

structure SRt where
  active : Option StateId := none
  last : Option StateId := none
deriving Repr, DecidableEq

abbrev S (Sub : Type) := MachOf SRt Sub

/-- what a machine knows of its ancestors while a callback runs: index and the view their
observers give at that moment (nearest first).  Every ancestor is inside a call. -/
abbrev SCtx := List (Nat × View)

def lookupCtx (ctx : SCtx) (k : Nat) : Option View := (ctx.find? (fun p => p.1 == k)).map (·.2)

def targetView (self : Nat) (v : View) (ctx : SCtx) : Option Nat → Option View
  | none => some v
  | some k => if k = self then some v else lookupCtx ctx k

/-- one operation of a callback body: an observation yields the view of the addressed machine;
a call on the own machine or on an ancestor (all of them are inside a call) is rejected: it
returns false and nothing changes.  Other machines are outside this semantics (`foreign`). -/
def bodyOp (self : Nat) (v : View) (ctx : SCtx) : SOp → Kind
  | .obs t =>
      match targetView self v ctx t with
      | some w => .obs t w
      | none => .foreign (t.getD 0)
  | .call t c =>
      match targetView self v ctx t with
      | some w => .call t c false w w
      | none => .foreign (t.getD 0)

def body (self : Nat) (v : View) (ctx : SCtx) (sc : Script) : Trace :=
  sc.map fun op => here (bodyOp self v ctx op)

/-- a phase: the semantic event and, if the callback exists, its body -/
def phase (mk : Bool → Kind) (p : Option Script) (self : Nat) (v : View) (ctx : SCtx) : Trace :=
  here (mk p.isSome) :: (match p with | some sc => body self v ctx sc | none => [])

/-- routes with their registration index -/
def indexed : Nat → List Route → List (Nat × Route)
  | _, [] => []
  | i, r :: rs => (i, r) :: indexed (i + 1) rs

def holds (r : Route) (e : Event) : Bool :=
  match r.guard with
  | none => true
  | some g => g.eval e

/-- the routes that can be taken on `e`, in registration order -/
def candidates (rs : List Route) (e : Event) : List (Nat × Route) :=
  (indexed 0 rs).filter (fun p => p.2.matchesEvent e)

/-- the route taken: the first candidate whose guard holds -/
def chosen (rs : List Route) (e : Event) : Option (Nat × Route) :=
  (candidates rs e).find? (fun p => holds p.2 e)

def guardEvents (sid : StateId) (self : Nat) (v : View) (ctx : SCtx) (e : Event) (p : Nat × Route) : Trace :=
  match p.2.guard with
  | none => []
  | some g => here (.guard sid p.1 e (g.eval e)) :: body self v ctx g.script

/-- guards are evaluated for the candidates up to and including the chosen one -/
def scanEvents (sid : StateId) (self : Nat) (v : View) (ctx : SCtx) (e : Event) (rs : List Route) : Trace :=
  (((candidates rs e).takeWhile (fun p => !holds p.2 e)) ++ (chosen rs e).toList).flatMap (guardEvents sid self v ctx e)

section Level
variable {Sub : Type}

def isTerminated (m : S Sub) : Bool := m.rt.active == some 0

def start (ops : SubOps SCtx Sub) (ctx : SCtx) (m : S Sub) : S Sub × Bool × Trace :=
  match m.rt.active with
  | some _ => (m, false, [])                   -- already started
  | none =>
    match m.findState m.init with
    | none => (m, false, [])                   -- no initial state
    | some st =>
      let v := mkView (some st.id) m.rt.last none
      let t := phase (.enter st.id ev0) st.enter m.mid v ctx
      let m' : S Sub := { m with rt := { m.rt with active := some st.id } }
      match st.sub with
      | none => (m', true, t)
      | some sub =>
        let r := ops.start ((m.mid, v) :: ctx) sub
        (m'.setSub st.id r.1, true, t ++ lift st.id r.2.2)

def stop (ops : SubOps SCtx Sub) (ctx : SCtx) (m : S Sub) : S Sub × Trace :=
  match m.rt.active with
  | none => (m, [])
  | some a =>
    let st := m.stateOf a
    let v := mkView (some a) m.rt.last none
    let t := phase (.exit a ev0) st.exit m.mid v ctx
    match st.sub with
    | none => ({ m with rt := { m.rt with active := none } }, t)
    | some sub =>
      let r := ops.stop ((m.mid, v) :: ctx) sub
      let m' := m.setSub a r.1
      ({ m' with rt := { m'.rt with active := none } }, lift a r.2 ++ t)

/-- who decides: a handler's answer (if a handler applies) -/
def askHandler (st : StateDef Sub) (self : Nat) (v : View) (ctx : SCtx) (e : Event) : Option (Int × Trace) :=
  let h : Option (Option EventId × Handler) :=
    match st.events.find? (fun p => p.1 == e.id) with
    | some p => some (some p.1, p.2)
    | none => st.dflt.map (fun h => (none, h))
  h.map fun kh => (kh.2.eval e, here (.handler st.id kh.1 e (kh.2.eval e)) :: body self v ctx kh.2.script)

/-- take the transition `a → target` -/
def fire (ops : SubOps SCtx Sub) (ctx : SCtx) (m : S Sub) (a : StateId) (e : Event) (target : StateId)
    (ridx : Option Nat) (action : Option Script) : S Sub × Bool × Trace :=
  let st := m.stateOf a
  match m.resolve target with
  | none => (m, false, [])                     -- a handler named a state that does not exist
  | some ts =>
    let t := phase (.exit a e) st.exit m.mid (mkView (some a) m.rt.last (some ts.id)) ctx
          ++ phase (.action a ridx e) action m.mid (mkView none (some a) (some ts.id)) ctx
          ++ phase (.enter ts.id e) ts.enter m.mid (mkView (some ts.id) (some a) none) ctx
          ++ phase (.notify a ts.id e) m.cb m.mid (mkView (some ts.id) (some a) none) ctx
    let m' : S Sub := { m with rt := { active := some ts.id, last := some a } }
    match ts.sub with
    | none => (m', true, t)
    | some sub =>
      let down : SCtx := (m.mid, mkView (some ts.id) (some a) none) :: ctx
      let r1 := ops.start down sub
      let r2 := ops.run down r1.1 e
      (m'.setSub ts.id r2.1, true, t ++ lift ts.id (r1.2.2 ++ r2.2.2))

/-- the machine in state `a` handles `e` itself -/
def handle (ops : SubOps SCtx Sub) (ctx : SCtx) (m : S Sub) (a : StateId) (e : Event) : S Sub × Bool × Trace :=
  let st := m.stateOf a
  let v := mkView (some a) m.rt.last none
  let viaRoute (pre : Trace) : S Sub × Bool × Trace :=
    let tr := pre ++ scanEvents a m.mid v ctx e st.routes
    match chosen st.routes e with
    | none => (m, false, tr)
    | some (i, r) =>
      let x := fire ops ctx m a e r.to (some i) r.action
      (x.1, x.2.1, tr ++ x.2.2)
  match askHandler st m.mid v ctx e with
  | some (target, t) =>
    if target < 0 then viaRoute t
    else
      let x := fire ops ctx m a e target none none
      (x.1, x.2.1, t ++ x.2.2)
  | none => viaRoute []

def run (ops : SubOps SCtx Sub) (ctx : SCtx) (m : S Sub) (e : Event) : S Sub × Bool × Trace :=
  match m.rt.active with
  | none => (m, false, [])
  | some a =>
    match (m.stateOf a).sub with
    | none => handle ops ctx m a e
    | some sub =>
      -- the machine is inside `run` while its sub-machine works
      let down : SCtx := (m.mid, mkView (some a) m.rt.last none) :: ctx
      let r := ops.run down sub e
      if ops.isTerminated r.1 then
        let s := ops.stop down r.1
        let x := handle ops ctx (m.setSub a s.1) a e
        (x.1, x.2.1, lift a (r.2.2 ++ s.2) ++ x.2.2)
      else (m.setSub a r.1, r.2.1, lift a r.2.2)

def levelOps (ops : SubOps SCtx Sub) : SubOps SCtx (S Sub) :=
  { start := start ops, stop := stop ops, run := run ops, isTerminated := isTerminated,
    isRunning := fun m => m.rt.active.isSome }

end Level

def SMach : Nat → Type
  | 0 => MachOf SRt Empty
  | n + 1 => MachOf SRt (SMach n)

def subOps : (n : Nat) → SubOps SCtx (SMach n)
  | 0 => levelOps emptyOps
  | n + 1 => levelOps (subOps n)

def applyCall (n : Nat) (m : SMach n) (c : Call) : SMach n × Bool × Trace :=
  match c with
  | .start => (subOps n).start [] m
  | .stop => let r := (subOps n).stop [] m; (r.1, false, r.2)
  | .restart =>
      let s := (subOps n).stop [] m
      let r := (subOps n).start [] s.1
      (r.1, r.2.1, s.2 ++ r.2.2)
  | .run e => (subOps n).run [] m e
  | .defn _ => (m, false, [])

/-- what the five observers answer between calls -/
def view (rt : SRt) : View :=
  { curr := optInt rt.active, last := optInt rt.last, next := -1,
    running := rt.active.isSome, term := rt.active == some 0 }

def rootRt : (n : Nat) → SMach n → SRt
  | 0, m => m.rt
  | _ + 1, m => m.rt

def exec (n : Nat) (m : SMach n) : List Call → SMach n × List (Bool × Trace × View)
  | [] => (m, [])
  | c :: cs =>
    let r := applyCall n m c
    let rest := exec n r.1 cs
    (rest.1, (r.2.1, r.2.2, view (rootRt n r.1)) :: rest.2)

end Tbox.C16.Spec
