/-
C16 — shared syntax: machine definitions as data, scripted callbacks, trace events.

A machine definition is what the user of `tbox::flow::StateMachine` supplies through
`newState / addRoute / addEvent / setInitState / setSubStateMachine / setStateChangedCallback`.
Callbacks (`std::function`s) are data here:
* an action / the state-changed callback is `Option Script` (`none` = `nullptr`);
* a guard is `Option Guard` (`none` = `nullptr`), its value a truth table on the event id;
* an event handler is a `Handler`, its return value a table on the event id.
A `Script` is what the callback body does besides being logged: observe the owning machine
(`currentState/lastState/nextState/isRunning/isTerminated`) or call `start/stop/restart/run`
on the OWNING machine (re-entrant call).

Nesting: `MachOf R Sub` is one machine whose sub-machines have type `Sub` and whose run-time
record has type `R`.  `Mach n` (Model) / `SMach n` (Spec) iterate this `n` times, so a value of
`Mach n` is a machine with at most `n` levels of sub-machines below it; theorems quantify over
all `n`.
-/
namespace Tbox.C16

abbrev StateId := Int
abbrev EventId := Int

/-- `tbox::flow::Event`: the id and the `extra` pointer (0 = `nullptr`, otherwise the tag of the
object it points to).  The machine never looks at `extra`; it hands the event to every callback. -/
structure Event where
  id : EventId
  extra : Nat := 0
deriving Repr, DecidableEq

/-- `Event()` as passed by `start()` and `stop()` -/
def ev0 : Event := { id := 0, extra := 0 }

/-- a call on a machine -/
inductive Call where
  | start | stop | restart
  | run (e : Event)
  /-- definition call number `i` of the case's table of definition calls (`DefOp`, ArenaDef.lean):
  `newState / addRoute / addEvent / setInitState / setSubStateMachine / setStateChangedCallback`
  issued while the machines run (from a callback body).  Not one of the four calls of the
  statement: the tree model and the reference semantics treat it as refused; the arena executes it. -/
  | defn (i : Nat)
deriving Repr, DecidableEq

/-- what a callback body does: observe / call machine `t` of the case (`none` = the machine that
owns the callback, otherwise the index of the machine object) -/
inductive SOp where
  | obs (t : Option Nat)
  | call (t : Option Nat) (c : Call)
deriving Repr, DecidableEq

abbrev Script := List SOp

/-- `currentState() lastState() nextState() isRunning() isTerminated()`; `-1` = none -/
structure View where
  curr : Int
  last : Int
  next : Int
  running : Bool
  term : Bool
deriving Repr, DecidableEq

inductive Kind where
  /-- the machine enters state `s` (callback invoked iff `has`) -/
  | enter (s : StateId) (e : Event) (has : Bool)
  | exit (s : StateId) (e : Event) (has : Bool)
  /-- transition action of route `ridx` of state `s` (`none`: transition chosen by a handler) -/
  | action (s : StateId) (ridx : Option Nat) (e : Event) (has : Bool)
  | guard (s : StateId) (ridx : Nat) (e : Event) (res : Bool)
  /-- event handler of state `s` registered for `key` (`none` = the default handler) -/
  | handler (s : StateId) (key : Option EventId) (e : Event) (ret : Int)
  | notify (src dst : StateId) (e : Event) (has : Bool)
  | obs (t : Option Nat) (v : View)
  /-- a call made from inside a callback on machine `t`: result (`false` for `stop`, which
  returns `void`), view of `t` before and after -/
  | call (t : Option Nat) (c : Call) (res : Bool) (before after : View)
  /-- a callback addressed machine `t`, which is neither its own machine nor one of its
  ancestors: outside the tree model (the arena model executes such calls) -/
  | foreign (t : Nat)
  /-- behaviour the model does not describe (never produced from reachable states: theorem) -/
  | unmodelled
deriving Repr, DecidableEq

/-- a trace event of the machine reached from the root through the sub-machines of the states
`path` -/
structure Ev where
  path : List StateId
  kind : Kind
deriving Repr, DecidableEq

abbrev Trace := List Ev

def here (k : Kind) : Ev := ⟨[], k⟩

/-- events of the sub-machine of state `sid`, seen from the parent -/
def lift (sid : StateId) (t : Trace) : Trace := t.map fun ev => { ev with path := sid :: ev.path }

structure Guard where
  trueOn : List EventId
  script : Script
deriving Repr, DecidableEq

def Guard.eval (g : Guard) (e : Event) : Bool := g.trueOn.contains e.id

structure Handler where
  tbl : List (EventId × Int)
  dflt : Int
  script : Script
deriving Repr, DecidableEq

def Handler.eval (h : Handler) (e : Event) : Int :=
  match h.tbl.find? (fun p => p.1 == e.id) with
  | some p => p.2
  | none => h.dflt

structure Route where
  ev : EventId             -- 0 = any event
  to : StateId
  guard : Option Guard
  action : Option Script
deriving Repr, DecidableEq

/-- `item.event_id != ANY_EVENT_ID && item.event_id != event.id` negated -/
def Route.matchesEvent (r : Route) (e : Event) : Bool := r.ev == 0 || r.ev == e.id

structure StateDef (Sub : Type) where
  id : StateId
  enter : Option Script
  exit : Option Script
  routes : List Route
  /-- `std::map<EventID, EventFunc>`; keys are unique and never 0 -/
  events : List (EventId × Handler)
  dflt : Option Handler
  sub : Option Sub

structure MachOf (R Sub : Type) where
  /-- index of the machine object in the case (what script targets refer to) -/
  mid : Nat
  init : StateId
  states : List (StateDef Sub)
  cb : Option Script
  rt : R

/-- the static `_term_state_` object: id 0, no actions, no routes, no sub-machine -/
def termState {Sub : Type} : StateDef Sub :=
  { id := 0, enter := none, exit := none, routes := [], events := [], dflt := none, sub := none }

namespace MachOf
variable {R Sub : Type}

/-- `findState`: `NULL_STATE_ID` is never found -/
def findState (m : MachOf R Sub) (id : StateId) : Option (StateDef Sub) :=
  if id = -1 then none else m.states.find? (fun s => s.id == id)

/-- the `State` object a non-null `curr_state_`/`next_state_` with this id points to: the user's
state if it exists, otherwise `_term_state_` (only id 0 can be in that case) -/
def stateOf (m : MachOf R Sub) (id : StateId) : StateDef Sub := (m.findState id).getD termState

/-- `next_state_ = findState(id)`, falling back to `&_term_state_` for id 0; `none` = the
"Should not happen" branch -/
def resolve (m : MachOf R Sub) (id : StateId) : Option (StateDef Sub) :=
  match m.findState id with
  | some s => some s
  | none => if id = 0 then some termState else none

def updSub (sid : StateId) (x : Sub) : List (StateDef Sub) → List (StateDef Sub)
  | [] => []
  | s :: rest => if s.id == sid then { s with sub := some x } :: rest else s :: updSub sid x rest

/-- write back the new value of the sub-machine object of state `sid` -/
def setSub (m : MachOf R Sub) (sid : StateId) (x : Sub) : MachOf R Sub :=
  { m with states := updSub sid x m.states }

end MachOf

def optInt (o : Option Int) : Int := o.getD (-1)

/-- the public API of a (sub-)machine object as the parent uses it: new object value, return
value, trace.  `C` is what a sub-machine is told about its ancestors (all of them are inside a
call when they call down).  Both the model and the reference semantics are written against it. -/
structure SubOps (C Sub : Type) where
  start : C → Sub → Sub × Bool × Trace
  stop : C → Sub → Sub × Trace
  run : C → Sub → Event → Sub × Bool × Trace
  isTerminated : Sub → Bool
  isRunning : Sub → Bool

/-- there is no machine of type `Empty` -/
def emptyOps {C : Type} : SubOps C Empty :=
  { start := fun _ x => x.elim, stop := fun _ x => x.elim, run := fun _ x _ => x.elim, isTerminated := fun x => x.elim,
    isRunning := fun x => x.elim }

/-- a view while the machine is running -/
def mkView (curr last next : Option StateId) : View :=
  { curr := optInt curr, last := optInt last, next := optInt next, running := true, term := curr == some 0 }

end Tbox.C16
