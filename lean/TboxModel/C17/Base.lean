/-
C17 layer 1 — the Action base lifecycle with the loop's deferred queue, for one action whose
behaviour is entirely driven from outside (a DummyAction: its owner calls finish()/block() at any
time, in any state).  `bstep` is built from the functions of Model.lean only.
-/
import TboxModel.C17.Inv
namespace Tbox.C17

/-- everything that can happen to one action -/
inductive BOp where
  | start | pause | resume | stop | reset
  | fin (s : Bool) (w : Nat)      -- the action calls finish(s, w)   (any state)
  | blk (w : Nat)                 -- the action calls block(w)       (any state)
  | fire                          -- the timeout timer fires (if armed)
  | run (id : Nat)                -- the loop runs the queued task `id` (if still queued)
  | tick (ms : Nat)               -- the clock moves on
deriving Repr

def bstep (t : T) (g : G) : BOp → T × G
  | .start => let r := start t g; (r.1, r.2.1)
  | .pause => let r := pause t g; (r.1, r.2.1)
  | .resume => let r := resume t g; (r.1, r.2.1)
  | .stop => stop t g
  | .reset => reset t g
  | .fin s w => modifyAt t [] (fun d cs g => let r := finish d cs g s w; (r.1, r.2.1, r.2.2.1)) g
  | .blk w => modifyAt t [] (fun d cs g => let r := block d g w; (r.1, cs, r.2.1)) g
  | .fire => modifyAt t [] (fun d cs g => if d.tmoAt.isSome then onTimer d cs g false else (d, cs, g)) g
  | .run id => runTask t g id
  | .tick ms => (t, { g with now := g.now + ms })

def brun (t : T) (g : G) : List BOp → T × G
  | [] => (t, g)
  | op :: ops => let r := bstep t g op; brun r.1 r.2 ops

/-- finish notifications delivered to the owner since the last reset of action 0 (log is newest first) -/
def finsSinceReset : List Ev → Nat
  | [] => 0
  | .rst 0 :: _ => 0
  | .rootFin _ _ _ :: rest => finsSinceReset rest + 1
  | _ :: rest => finsSinceReset rest

def pendingFins (d : Node) : Nat := (d.tasks.filter fun p => p.2.isFin).length

/-- the invariant of the base lifecycle (repaired code: `fixBlk`), over the fields it reads -/
structure BInvP (id : Nat) (kind : Kind) (st : St) (tasks : List (Nat × TK)) (finId blkId nextId : Nat) (fb : Bool) (log : List Ev) : Prop where
  idz : id = 0
  kind : kind = .dummy
  idpos : 1 ≤ nextId
  fixb : fb = true
  fins : ∀ p ∈ tasks, p.2.isFin = true → st = .finished ∧ p.1 = finId ∧ finId ≠ 0
  blks : ∀ p ∈ tasks, p.2.isBlk = true → p.1 = blkId ∧ blkId ≠ 0 ∧ st ≠ .idle ∧ st ≠ .stoped
  only : ∀ p ∈ tasks, p.2.isFin = true ∨ p.2.isBlk = true
  once : (tasks.filter fun p => p.2.isFin).length + finsSinceReset log ≤ 1
  ended : finsSinceReset log = 0 ∨ st = .finished
  logFin : ∀ s w st', Ev.rootFin s w st' ∈ log → st' = .finished
  logBlk : ∀ w st', Ev.rootBlk w st' ∈ log → st' ≠ .idle ∧ st' ≠ .stoped

def BInv (d : Node) (g : G) : Prop := BInvP d.id d.kind d.st d.tasks d.finId d.blkId g.nextId g.cfg.fixBlk g.log

end Tbox.C17
