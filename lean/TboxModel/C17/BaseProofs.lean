/-
C17 layer 1 — proofs: `BInv` is an inductive invariant of every operation on one action
(start/pause/resume/stop/reset, finish()/block() called in any state, timeout, the loop running
any queued task, clock steps).
-/
import TboxModel.C17.Base
namespace Tbox.C17
set_option linter.unusedSimpArgs false

@[simp] theorem armTmo_kind (d : Node) (n : Nat) : (armTmo d n).kind = d.kind := by unfold armTmo; split <;> (try split) <;> rfl
@[simp] theorem armTmo_tasks (d : Node) (n : Nat) : (armTmo d n).tasks = d.tasks := by unfold armTmo; split <;> (try split) <;> rfl
@[simp] theorem armTmo_finId (d : Node) (n : Nat) : (armTmo d n).finId = d.finId := by unfold armTmo; split <;> (try split) <;> rfl
@[simp] theorem armTmo_blkId (d : Node) (n : Nat) : (armTmo d n).blkId = d.blkId := by unfold armTmo; split <;> (try split) <;> rfl
@[simp] theorem armTmo_st (d : Node) (n : Nat) : (armTmo d n).st = d.st := by unfold armTmo; split <;> (try split) <;> rfl
@[simp] theorem armTmo_id (d : Node) (n : Nat) : (armTmo d n).id = d.id := by unfold armTmo; split <;> (try split) <;> rfl

@[simp, grind =] theorem fsr_dcb (n c : Nat) (l : List Ev) : finsSinceReset (.dcb n c :: l) = finsSinceReset l := rfl
@[simp, grind =] theorem fsr_final (n : Nat) (l : List Ev) : finsSinceReset (.final n :: l) = finsSinceReset l := rfl
@[simp, grind =] theorem fsr_rst0 (l : List Ev) : finsSinceReset (.rst 0 :: l) = 0 := rfl
@[simp, grind =] theorem fsr_fin (s w st) (l : List Ev) : finsSinceReset (.rootFin s w st :: l) = finsSinceReset l + 1 := rfl
@[simp, grind =] theorem fsr_blk (w st) (l : List Ev) : finsSinceReset (.rootBlk w st :: l) = finsSinceReset l := rfl

theorem start_inv (d : Node) (g : G) (h : BInv d g) :
    ∃ d', (bstep (.node d .nil) g .start).1 = .node d' .nil ∧ BInv d' (bstep (.node d .nil) g .start).2 := by
  have hk := h.kind
  have hsh : d.shape = .leaf := by simp [Node.shape, Node.isLeaf, hk]
  simp only [bstep, start, hk, hsh]
  split
  · exact ⟨d, rfl, h⟩
  · split
    · exact ⟨d, rfl, h⟩
    · rename_i h1 h2
      have hi : d.st = .idle := by simpa using h2
      simp [hi, BInv, G.emit, Node.started, leafEv, hk]
      obtain ⟨a0, a1, a2, a3, a4, a5, a6, a7, a8, a9, a10⟩ := h
      constructor <;> grind

theorem pause_inv (d : Node) (g : G) (h : BInv d g) :
    ∃ d', (bstep (.node d .nil) g .pause).1 = .node d' .nil ∧ BInv d' (bstep (.node d .nil) g .pause).2 := by
  have hk := h.kind
  have hsh : d.shape = .leaf := by simp [Node.shape, Node.isLeaf, hk]
  simp only [bstep, pause, hk, hsh]
  split
  · exact ⟨d, rfl, h⟩
  · split
    · exact ⟨d, rfl, h⟩
    · rename_i h1 h2
      have hi : d.st = .running := by simpa using h2
      simp [hi, BInv, G.emit, Node.paused, leafEv, hk]
      obtain ⟨a0, a1, a2, a3, a4, a5, a6, a7, a8, a9, a10⟩ := h
      constructor <;> grind

theorem resume_inv (d : Node) (g : G) (h : BInv d g) :
    ∃ d', (bstep (.node d .nil) g .resume).1 = .node d' .nil ∧ BInv d' (bstep (.node d .nil) g .resume).2 := by
  have hk := h.kind
  have hsh : d.shape = .leaf := by simp [Node.shape, Node.isLeaf, hk]
  simp only [bstep, resume, hk, hsh]
  split
  · exact ⟨d, rfl, h⟩
  · split
    · exact ⟨d, rfl, h⟩
    · rename_i h1 h2
      have hi : d.st = .pause := by simpa using h2
      simp [hi, BInv, G.emit, Node.resumed, leafEv, hk]
      obtain ⟨a0, a1, a2, a3, a4, a5, a6, a7, a8, a9, a10⟩ := h
      constructor <;> grind

theorem cancelDispatched_spec (d : Node) :
    (∀ p ∈ (cancelDispatched d).tasks, p ∈ d.tasks ∧ (d.finId ≠ 0 → p.1 ≠ d.finId) ∧ (d.blkId ≠ 0 → p.1 ≠ d.blkId)) ∧
    (cancelDispatched d).st = d.st ∧ (cancelDispatched d).kind = d.kind ∧ (cancelDispatched d).id = d.id := by
  simp only [cancelDispatched, List.mem_filter]
  refine ⟨?_, trivial, trivial, trivial⟩
  intro p hp
  have := hp.2
  simp at this
  refine ⟨hp.1, fun h e => ?_, fun h e => ?_⟩
  · rcases this.1 with x | x
    · exact h x
    · exact x e
  · rcases this.2 with x | x
    · exact h x
    · exact x e

@[simp] theorem cancelDispatched_kind (d : Node) : (cancelDispatched d).kind = d.kind := (cancelDispatched_spec d).2.2.1
@[simp] theorem cancelDispatched_st (d : Node) : (cancelDispatched d).st = d.st := (cancelDispatched_spec d).2.1
@[simp] theorem cancelDispatched_id (d : Node) : (cancelDispatched d).id = d.id := (cancelDispatched_spec d).2.2.2
@[simp] theorem cancelDispatched_finId (d : Node) : (cancelDispatched d).finId = 0 := rfl
@[simp] theorem cancelDispatched_blkId (d : Node) : (cancelDispatched d).blkId = 0 := rfl

/-- with every queued task tracked, cancelDispatchedCallback() empties the node's queue -/
theorem cancelDispatched_empty (d : Node)
    (hf : ∀ p ∈ d.tasks, p.2.isFin = true → p.1 = d.finId ∧ d.finId ≠ 0)
    (hb : ∀ p ∈ d.tasks, p.2.isBlk = true → p.1 = d.blkId ∧ d.blkId ≠ 0)
    (ho : ∀ p ∈ d.tasks, p.2.isFin = true ∨ p.2.isBlk = true) : (cancelDispatched d).tasks = [] := by
  cases hl : (cancelDispatched d).tasks with
  | nil => rfl
  | cons p ps =>
    have hp : p ∈ (cancelDispatched d).tasks := by rw [hl]; simp
    obtain ⟨h1, h2, h3⟩ := (cancelDispatched_spec d).1 p hp
    rcases ho p h1 with h | h
    · have := hf p h1 h; exact absurd this.1 (h2 this.2)
    · have := hb p h1 h; exact absurd this.1 (h3 this.2)

theorem filter_isFin_nil (l : List (Nat × TK)) (h : ∀ p ∈ l, p.2.isFin = false) : (l.filter fun p => p.2.isFin) = [] := by
  simp [List.filter_eq_nil_iff]; intro a b hab; have := h _ hab; simpa using this

theorem cancelReplay_spec (c : Cfg) (d : Node) :
    (∀ p ∈ (cancelReplay c d).tasks, p ∈ d.tasks) ∧ (cancelReplay c d).st = d.st ∧ (cancelReplay c d).kind = d.kind ∧
    (cancelReplay c d).id = d.id ∧ (cancelReplay c d).finId = d.finId ∧ (cancelReplay c d).blkId = d.blkId := by
  unfold cancelReplay
  generalize (if d.isPar = true then c.fixPar else c.fixReplay) = b
  cases b
  · exact ⟨fun p hp => hp, rfl, rfl, rfl, rfl, rfl⟩
  · refine ⟨?_, rfl, rfl, rfl, rfl, rfl⟩
    intro p hp; simp only [↓reduceIte, List.mem_filter] at hp; exact hp.1

theorem stopped_spec (c : Cfg) (d : Node) (hb : c.fixBlk = true) :
    (∀ p ∈ (d.stopped c).tasks, p ∈ d.tasks ∧ (d.finId ≠ 0 → p.1 ≠ d.finId) ∧ (d.blkId ≠ 0 → p.1 ≠ d.blkId)) ∧
    (d.stopped c).st = .stoped ∧ (d.stopped c).kind = d.kind ∧ (d.stopped c).id = d.id ∧ (d.stopped c).finId = 0 ∧ (d.stopped c).blkId = 0 := by
  simp only [Node.stopped, hb, ↓reduceIte]
  obtain ⟨r1, r2, r3, r4, r5, r6⟩ := cancelReplay_spec c (cancelDispatched { d with st := St.stoped, tmoAt := none, sleepAt := none, curr := none, held := none, heldPar := [] })
  refine ⟨?_, by rw [r2]; rfl, by rw [r3]; rfl, by rw [r4]; rfl, by rw [r5]; rfl, by rw [r6]; rfl⟩
  intro p hp
  exact (cancelDispatched_spec _).1 p (r1 p hp)

theorem resetted_spec (c : Cfg) (d : Node) :
    (∀ p ∈ (d.resetted c).tasks, p ∈ d.tasks ∧ (d.finId ≠ 0 → p.1 ≠ d.finId) ∧ (d.blkId ≠ 0 → p.1 ≠ d.blkId)) ∧
    (d.resetted c).st = .idle ∧ (d.resetted c).kind = d.kind ∧ (d.resetted c).id = d.id ∧ (d.resetted c).finId = 0 ∧ (d.resetted c).blkId = 0 := by
  obtain ⟨r1, r2, r3, r4, r5, r6⟩ := cancelReplay_spec c d
  simp only [Node.resetted]
  refine ⟨?_, trivial, ?_, ?_, rfl, rfl⟩
  · intro p hp
    have := (cancelDispatched_spec (cancelReplay c d)).1 p hp
    rw [r5, r6] at this
    exact ⟨r1 p this.1, this.2.1, this.2.2⟩
  · show (cancelDispatched (cancelReplay c d)).kind = d.kind
    rw [cancelDispatched_kind, r3]
  · show (cancelDispatched (cancelReplay c d)).id = d.id
    rw [cancelDispatched_id, r4]

/-- with every queued task tracked, nothing survives the cancellation -/
theorem tracked_empty (d d' : Node)
    (sub : ∀ p ∈ d'.tasks, p ∈ d.tasks ∧ (d.finId ≠ 0 → p.1 ≠ d.finId) ∧ (d.blkId ≠ 0 → p.1 ≠ d.blkId))
    (hf : ∀ p ∈ d.tasks, p.2.isFin = true → p.1 = d.finId ∧ d.finId ≠ 0)
    (hb : ∀ p ∈ d.tasks, p.2.isBlk = true → p.1 = d.blkId ∧ d.blkId ≠ 0)
    (ho : ∀ p ∈ d.tasks, p.2.isFin = true ∨ p.2.isBlk = true) : d'.tasks = [] := by
  cases hl : d'.tasks with
  | nil => rfl
  | cons p ps =>
    have hp : p ∈ d'.tasks := by rw [hl]; simp
    obtain ⟨h1, h2, h3⟩ := sub p hp
    rcases ho p h1 with h | h
    · have := hf p h1 h; exact absurd this.1 (h2 this.2)
    · have := hb p h1 h; exact absurd this.1 (h3 this.2)

theorem stop_inv (d : Node) (g : G) (h : BInv d g) :
    ∃ d', (bstep (.node d .nil) g .stop).1 = .node d' .nil ∧ BInv d' (bstep (.node d .nil) g .stop).2 := by
  have hk := h.kind
  have hsh : d.shape = .leaf := by simp [Node.shape, Node.isLeaf, hk]
  obtain ⟨a0, a1, a2, a3, a4, a5, a6, a7, a8, a9, a10⟩ := h
  simp only [bstep, stop, hsh]
  split
  · exact ⟨d, rfl, ⟨a0, a1, a2, a3, a4, a5, a6, a7, a8, a9, a10⟩⟩
  · rename_i h1
    have hu : d.st = .running ∨ d.st = .pause := by
      simp [Node.underway] at h1; rcases hs : d.st <;> simp_all
    refine ⟨_, rfl, ?_⟩
    obtain ⟨s1, s2, s3, s4, s5, s6⟩ := stopped_spec g.cfg d a3
    have hempty : (d.stopped g.cfg).tasks = [] :=
      tracked_empty d _ s1 (fun p hp hf => (a4 p hp hf).2) (fun p hp hf => ⟨(a5 p hp hf).1, (a5 p hp hf).2.1⟩) a6
    have nofin : (d.tasks.filter fun p => p.2.isFin) = [] := by
      apply filter_isFin_nil; intro p hp
      cases hf : p.2.isFin with
      | false => rfl
      | true => have := a4 p hp hf; grind
    have hleaf : (d.stopped g.cfg).isLeaf = true := by simp [Node.isLeaf, s3, hk]
    simp only [BInv, onFinal, leafEv, hk, G.emit, hleaf, ↓reduceIte, beq_self_eq_true, s2, s3, s4, s5, s6, hempty]
    constructor <;> simp_all <;> grind

theorem reset_inv (d : Node) (g : G) (h : BInv d g) :
    ∃ d', (bstep (.node d .nil) g .reset).1 = .node d' .nil ∧ BInv d' (bstep (.node d .nil) g .reset).2 := by
  have hk := h.kind
  have hl : d.isLeaf = true := by simp [Node.isLeaf, hk]
  obtain ⟨a0, a1, a2, a3, a4, a5, a6, a7, a8, a9, a10⟩ := h
  simp only [bstep, reset, hl, ↓reduceIte]
  split
  · exact ⟨d, rfl, ⟨a0, a1, a2, a3, a4, a5, a6, a7, a8, a9, a10⟩⟩
  · refine ⟨_, rfl, ?_⟩
    obtain ⟨s1, s2, s3, s4, s5, s6⟩ := resetted_spec (g.emit (Ev.rst d.id)).cfg d
    have hempty : (d.resetted (g.emit (Ev.rst d.id)).cfg).tasks = [] :=
      tracked_empty d _ s1 (fun p hp hf => (a4 p hp hf).2) (fun p hp hf => ⟨(a5 p hp hf).1, (a5 p hp hf).2.1⟩) a6
    have e : (leafEv d (g.emit (Ev.rst d.id)) 4) = (g.emit (Ev.rst d.id)).emit (.dcb d.id 4) := by simp [leafEv, hk]
    rw [e]
    refine ⟨s4.trans a0, s3.trans a1, a2, a3, ?_, ?_, ?_, ?_, ?_, ?_, ?_⟩
    · intro p hp; rw [hempty] at hp; cases hp
    · intro p hp; rw [hempty] at hp; cases hp
    · intro p hp; rw [hempty] at hp; cases hp
    · have hempty' : (Node.resetted g.cfg d).tasks = [] := hempty
      simp [hempty', G.emit, a0]
    · left; simp [G.emit, a0]
    · intro s w st' hm; simp [G.emit] at hm; exact a9 s w st' hm
    · intro w st' hm; simp [G.emit] at hm; exact a10 w st' hm

theorem finish_inv (d : Node) (g : G) (s : Bool) (w : Nat) (h : BInv d g) :
    BInv (finish d .nil g s w).1 (finish d .nil g s w).2.2.1 ∧ (finish d .nil g s w).2.1 = .nil := by
  have hk := h.kind
  obtain ⟨a0, a1, a2, a3, a4, a5, a6, a7, a8, a9, a10⟩ := h
  unfold finish
  split
  · exact ⟨⟨a0, a1, a2, a3, a4, a5, a6, a7, a8, a9, a10⟩, rfl⟩
  · rename_i h1
    have hs : d.st ≠ .finished ∧ d.st ≠ .stoped := by simpa using h1
    have nofin : (d.tasks.filter fun p => p.2.isFin) = [] := by
      apply filter_isFin_nil; intro p hp
      cases hf : p.2.isFin with
      | false => rfl
      | true => have := a4 p hp hf; grind
    have hz : finsSinceReset g.log = 0 := by rcases a8 with h | h; exact h; exact absurd h hs.1
    simp only [Node.isLeaf, hk, ↓reduceIte, post, onFinal, BInv]
    refine ⟨?_, trivial⟩
    constructor <;> simp_all [TK.isFin, TK.isBlk, List.filter_append] <;> grind

theorem fin_inv (d : Node) (g : G) (s : Bool) (w : Nat) (h : BInv d g) :
    ∃ d', (bstep (.node d .nil) g (.fin s w)).1 = .node d' .nil ∧ BInv d' (bstep (.node d .nil) g (.fin s w)).2 := by
  simp only [bstep, modifyAt]
  have := finish_inv d g s w h
  exact ⟨_, by rw [this.2], this.1⟩

theorem block_inv (d : Node) (g : G) (w : Nat) (h : BInv d g) : BInv (block d g w).1 (block d g w).2.1 := by
  have hk := h.kind
  obtain ⟨a0, a1, a2, a3, a4, a5, a6, a7, a8, a9, a10⟩ := h
  unfold block
  split
  · exact ⟨a0, a1, a2, a3, a4, a5, a6, a7, a8, a9, a10⟩
  · rename_i h1
    have hs : d.st ≠ .finished ∧ d.st ≠ .stoped := by simpa using h1
    have nofin : ∀ p ∈ d.tasks, p.2.isFin = false := by
      intro p hp
      cases hf : p.2.isFin with
      | false => rfl
      | true => have := a4 p hp hf; grind
    have hz : finsSinceReset g.log = 0 := by rcases a8 with h | h; exact h; exact absurd h hs.1
    simp only [a3, Bool.true_and, post, BInv]
    by_cases hb : d.blkId = 0
    · have noblk : ∀ p ∈ d.tasks, p.2.isBlk = false := by
        intro p hp
        cases hf : p.2.isBlk with
        | false => rfl
        | true => have := a5 p hp hf; grind
      have : d.tasks = [] := by
        cases hl : d.tasks with
        | nil => rfl
        | cons p ps => have hp : p ∈ d.tasks := by rw [hl]; simp
                       have := a6 p hp; have := nofin p hp; have := noblk p hp; grind
      constructor <;> simp_all [TK.isFin, TK.isBlk, List.filter_append, cancelId] <;> first | omega | assumption | grind
    · have hemp : (cancelId d d.blkId).tasks = [] := by
        unfold cancelId
        simp only [List.filter_eq_nil_iff]
        intro p hp
        rcases a6 p hp with h | h
        · have := nofin p hp; simp_all
        · have := a5 p hp h; simp [this.1]
      have e1 : (cancelId d d.blkId).id = d.id := rfl
      have e2 : (cancelId d d.blkId).kind = d.kind := rfl
      constructor <;> simp_all [TK.isFin, TK.isBlk, List.filter_append] <;> first | omega | assumption | grind

theorem blk_inv (d : Node) (g : G) (w : Nat) (h : BInv d g) :
    ∃ d', (bstep (.node d .nil) g (.blk w)).1 = .node d' .nil ∧ BInv d' (bstep (.node d .nil) g (.blk w)).2 := by
  simp only [bstep, modifyAt]
  exact ⟨_, rfl, block_inv d g w h⟩

theorem fire_inv (d : Node) (g : G) (h : BInv d g) :
    ∃ d', (bstep (.node d .nil) g .fire).1 = .node d' .nil ∧ BInv d' (bstep (.node d .nil) g .fire).2 := by
  simp only [bstep, modifyAt]
  split
  · simp only [onTimer, finish3]
    have h' : BInv { d with tmoAt := none } g := h
    have := finish_inv { d with tmoAt := none } g false 1 h'
    exact ⟨_, by simp only [Bool.false_eq_true, ↓reduceIte]; rw [this.2], this.1⟩
  · exact ⟨d, rfl, h⟩

theorem allTasks_leaf (d : Node) : allTasks (.node d .nil) [] = d.tasks.map (fun p => (p.1, ([] : List Nat), p.2)) := by
  rw [allTasks, allTasksL]; simp

theorem filter_cancel_le (l : List (Nat × TK)) (id : Nat) :
    ((l.filter (fun p => p.1 != id)).filter fun q => q.2.isFin).length ≤ (l.filter fun q => q.2.isFin).length := by
  induction l with
  | nil => simp
  | cons x xs ih =>
    simp only [List.filter_cons]
    split <;> split <;> simp_all [List.filter_cons] <;> omega

theorem filter_cancel_lt (l : List (Nat × TK)) (id : Nat) (p : Nat × TK) (hp : p ∈ l) (hid : p.1 = id) (hf : p.2.isFin = true) :
    ((l.filter (fun p => p.1 != id)).filter fun q => q.2.isFin).length + 1 ≤ (l.filter fun q => q.2.isFin).length := by
  induction l with
  | nil => simp at hp
  | cons x xs ih =>
    simp only [List.mem_cons] at hp
    rcases hp with h | h
    · subst h
      have := filter_cancel_le xs id
      simp [List.filter_cons, hid, hf] at this ⊢
      omega
    · have := ih h
      simp only [List.filter_cons]
      split <;> split <;> simp_all [List.filter_cons] <;> omega

theorem cancelId_filter_len (d : Node) (id : Nat) (p : Nat × TK) (hp : p ∈ d.tasks) (hid : p.1 = id) (hf : p.2.isFin = true) :
    ((cancelId d id).tasks.filter fun q => q.2.isFin).length + 1 ≤ (d.tasks.filter fun q => q.2.isFin).length :=
  filter_cancel_lt d.tasks id p hp hid hf

theorem run_inv (d : Node) (g : G) (id : Nat) (h : BInv d g) :
    ∃ d', (bstep (.node d .nil) g (.run id)).1 = .node d' .nil ∧ BInv d' (bstep (.node d .nil) g (.run id)).2 := by
  obtain ⟨a0, a1, a2, a3, a4, a5, a6, a7, a8, a9, a10⟩ := h
  simp only [bstep, runTask, allTasks_leaf, List.find?_map]
  cases hfind : d.tasks.find? ((fun x => x.1 == id) ∘ fun p => (p.1, ([] : List Nat), p.2)) with
  | none => exact ⟨d, rfl, ⟨a0, a1, a2, a3, a4, a5, a6, a7, a8, a9, a10⟩⟩
  | some p =>
    have hmem : p ∈ d.tasks := List.mem_of_find?_eq_some hfind
    have hid : p.1 = id := by have := List.find?_some hfind; simpa using this
    have sub : ∀ q ∈ (cancelId d id).tasks, q ∈ d.tasks := by
      intro q hq; unfold cancelId at hq; simp at hq; exact hq.1
    simp only [Option.map_some, modifyAt, splitLast]
    cases htk : p.2 with
    | fin s w =>
      have hf : p.2.isFin = true := by rw [htk]; rfl
      have hst := (a4 p hmem hf).1
      have hlen := cancelId_filter_len d id p hmem hid hf
      refine ⟨cancelId d id, rfl, ?_⟩
      have e1 : (cancelId d id).st = d.st := rfl
      simp only [BInv, G.emit]
      constructor <;> (try simp only [e1, fsr_fin, T.data, List.mem_cons]) <;> first
        | exact a0 | exact a1 | exact a2 | exact a3
        | (intro q hq hqf; exact a4 q (sub q hq) hqf)
        | (intro q hq hqf; exact a5 q (sub q hq) hqf)
        | (intro q hq; exact a6 q (sub q hq))
        | (show _ + (_ + 1) ≤ 1; have e2 : (cancelId d id).tasks = (cancelId d id).tasks := rfl; omega)
        | (exact Or.inr hst)
        | (intro s' w' st' hm; rcases hm with hm | hm
           · cases hm; exact hst
           · exact a9 s' w' st' hm)
        | (intro w' st' hm; rcases hm with hm | hm
           · cases hm
           · exact a10 w' st' hm)
    | blk w =>
      have hf : p.2.isBlk = true := by rw [htk]; rfl
      have hst := (a5 p hmem hf)
      refine ⟨cancelId d id, rfl, ?_⟩
      have e1 : (cancelId d id).st = d.st := rfl
      have hlen : ((cancelId d id).tasks.filter fun q => q.2.isFin).length ≤ (d.tasks.filter fun q => q.2.isFin).length := by
        exact filter_cancel_le d.tasks id
      simp only [BInv, G.emit]
      constructor <;> (try simp only [e1, fsr_blk, T.data, List.mem_cons]) <;> first
        | exact a0 | exact a1 | exact a2 | exact a3
        | (intro q hq hqf; exact a4 q (sub q hq) hqf)
        | (intro q hq hqf; exact a5 q (sub q hq) hqf)
        | (intro q hq; exact a6 q (sub q hq))
        | omega
        | exact a8
        | (intro s' w' st' hm; rcases hm with hm | hm
           · cases hm
           · exact a9 s' w' st' hm)
        | (intro w' st' hm; rcases hm with hm | hm
           · cases hm; exact ⟨hst.2.2.1, hst.2.2.2⟩
           · exact a10 w' st' hm)
    | replay hh => have := a6 p hmem; rw [htk] at this; simp [TK.isFin, TK.isBlk] at this
    | replayPar => have := a6 p hmem; rw [htk] at this; simp [TK.isFin, TK.isBlk] at this


theorem bstep_inv (d : Node) (g : G) (op : BOp) (h : BInv d g) :
    ∃ d', (bstep (.node d .nil) g op).1 = .node d' .nil ∧ BInv d' (bstep (.node d .nil) g op).2 := by
  cases op with
  | start => exact start_inv d g h
  | pause => exact pause_inv d g h
  | resume => exact resume_inv d g h
  | stop => exact stop_inv d g h
  | reset => exact reset_inv d g h
  | fin s w => exact fin_inv d g s w h
  | blk w => exact blk_inv d g w h
  | fire => exact fire_inv d g h
  | run id => exact run_inv d g id h
  | tick ms => exact ⟨d, rfl, h⟩

theorem brun_inv (ops : List BOp) (d : Node) (g : G) (h : BInv d g) :
    ∃ d', (brun (.node d .nil) g ops).1 = .node d' .nil ∧ BInv d' (brun (.node d .nil) g ops).2 := by
  induction ops generalizing d g with
  | nil => exact ⟨d, rfl, h⟩
  | cons op ops ih =>
    obtain ⟨d1, e1, h1⟩ := bstep_inv d g op h
    simp only [brun]
    rw [e1]
    exact ih d1 _ h1

/-- a freshly built action (any timeout setting) on a fresh loop -/
def action0 (tmo : Option Nat) : Node := { id := 0, kind := .dummy, tmo := tmo }

theorem init_inv (tmo : Option Nat) : BInv (action0 tmo) {} := by
  constructor <;> simp [action0, finsSinceReset]

end Tbox.C17
