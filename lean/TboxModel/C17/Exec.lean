/-
C17 — model of ActionExecutor (modules/flow/action_executor.cpp): three priority deques of actions,
one action running at a time, higher priority first and FIFO within a priority, pre-emption by
pause/resume, cancel of the current / of any action, callbacks started / finished / allFinished.

The actions the executor runs are seen through the Action base lifecycle only (Model.lean proves what
a whole tree does): a `dummy` runs until its owner completes it (emit), a `func` finishes inside
start(), a `dead` one was stopped before it was appended.  The finish callback installed by the
executor is `[this]{ schedule(); }`, posted with runNext like every finish notification; it is
withdrawn when the action is deleted (Action::~Action → cancelDispatchedCallback).

The model follows the repaired code (patches/C17-06): `curr_action_deque_index_` is reset when the
deque it points to has become empty (cancelCurrent / cancel of the last action left it dangling:
current() and the pre-emption check then read front() of an empty deque).
-/
import TboxModel.C17.Model
namespace Tbox.C17.Exec
open Tbox.C17

inductive AKind where | dummy | func (succ : Bool) | dead
deriving DecidableEq, Repr

structure XAct where
  id : Nat
  kind : AKind
  st : St
  fin : Option Nat := none        -- run id of the queued finish notification (→ schedule())
deriving DecidableEq, Repr

inductive XEv where
  | started (id : Nat) | finished (id : Nat) | allFinished
deriving DecidableEq, Repr

structure XS where
  q0 : List XAct := []
  q1 : List XAct := []
  q2 : List XAct := []
  curr : Option Nat := none       -- curr_action_deque_index_ (none = -1)
  idc : Nat := 0                  -- action_id_alloc_counter_
  nextRun : Nat := 1
  log : List XEv := []            -- newest first
deriving Repr

def XS.q (s : XS) : Nat → List XAct
  | 0 => s.q0 | 1 => s.q1 | _ => s.q2
def XS.setQ (s : XS) (i : Nat) (l : List XAct) : XS :=
  match i with | 0 => { s with q0 := l } | 1 => { s with q1 := l } | _ => { s with q2 := l }
def XS.emit (s : XS) (e : XEv) : XS := { s with log := e :: s.log }

/-- Action::start of an idle action; returns the action and the run id it consumed, if any -/
def actStart (a : XAct) (run : Nat) : XAct × Bool × Bool :=   -- (action, start() result, posted a notification)
  if a.st == .running then (a, true, false)
  else if a.st != .idle then (a, false, false)
  else match a.kind with
    | .func _ => ({ a with st := .finished, fin := some run }, true, true)
    | _ => ({ a with st := .running }, true, false)

def actPause (a : XAct) : XAct := if a.st == .running then { a with st := .pause } else a
def actResume (a : XAct) : XAct := if a.st == .pause then { a with st := .running } else a
def actStop (a : XAct) : XAct := if a.st == .running || a.st == .pause then { a with st := .stoped } else a

/-- index of the first non-empty deque -/
def ready (s : XS) : Option Nat :=
  if !s.q0.isEmpty then some 0 else if !s.q1.isEmpty then some 1 else if !s.q2.isEmpty then some 2 else none

def mapFront (f : XAct → XAct) : List XAct → List XAct
  | [] => []
  | a :: as => f a :: as

/-- (repaired) `curr_action_deque_index_` is forgotten when the deque it points to is empty -/
def dropDangling (s : XS) : XS :=
  match s.curr with
  | some c => if (s.q c).isEmpty then { s with curr := none } else s
  | none => s

/-- a higher-priority deque `r` is ready: pause the head of the current one -/
def preempt (s : XS) (r : Nat) : XS :=
  match s.curr with
  | some c => if r < c then s.setQ c (mapFront actPause (s.q c)) else s
  | none => s

/-- one iteration of the inner loop on the head `a` of the ready deque `r`; `none` = return -/
def schedHead (s : XS) (r : Nat) (a : XAct) (rest : List XAct) : Option XS :=
  if a.st == .idle then
    let r3 := actStart a s.nextRun
    if r3.2.1 then
      some (({ (s.setQ r (r3.1 :: rest)) with curr := some r, nextRun := if r3.2.2 then s.nextRun + 1 else s.nextRun }).emit (.started a.id))
    else some (({ (s.setQ r rest) with curr := none }).emit (.finished a.id))
  else if a.st == .pause then some { (s.setQ r (actResume a :: rest)) with curr := some r }
  else if a.st == .finished || a.st == .stoped then some (({ (s.setQ r rest) with curr := none }).emit (.finished a.id))
  else none   -- running: nothing to do

/-- `ActionExecutor::schedule()`; `fuel` bounds the loop (every iteration returns, pops an item or
moves the head out of Idle/Pause: `schedFuel` suffices) -/
def sched : Nat → XS → XS
  | 0, s => s
  | fuel + 1, s =>
    match ready (dropDangling s) with
    | none => (dropDangling s).emit .allFinished
    | some r =>
      match (preempt (dropDangling s) r).q r with
      | [] => preempt (dropDangling s) r
      | a :: rest =>
        match schedHead (preempt (dropDangling s) r) r a rest with
        | some s' => sched fuel s'
        | none => preempt (dropDangling s) r

def total (s : XS) : Nat := s.q0.length + s.q1.length + s.q2.length
def schedFuel (s : XS) : Nat := 2 * total s + 4
def schedule (s : XS) : XS := sched (schedFuel s) s

inductive XOp where
  | append (k : AKind) (prio : Nat)      -- prio 0..2
  | cancel (id : Nat)
  | cancelCurrent
  | cancelAll
  | emit (id : Nat) (succ : Bool)        -- the owner completes dummy `id` (only while it is running)
  | pass                                 -- the loop runs the queued finish notifications
deriving Repr

def current (s : XS) : Int :=
  match s.curr with
  | some c => match s.q c with | a :: _ => a.id | [] => -1
  | none => -1

def removeId (id : Nat) (l : List XAct) : List XAct := l.filter (fun a => a.id != id)
def hasId (id : Nat) (l : List XAct) : Bool := l.any (fun a => a.id == id)

/-- result of the op (for the harness) and the new state -/
def xstep (s : XS) : XOp → XS × Int
  | .append k prio =>
      let id := s.idc + 1
      let a : XAct := { id := id, kind := k, st := if k == .dead then .stoped else .idle }
      let s := { (s.setQ prio (s.q prio ++ [a])) with idc := id }
      (schedule s, id)
  | .cancel id =>
      if hasId id s.q0 then (schedule { s with q0 := removeId id s.q0 }, 1)
      else if hasId id s.q1 then (schedule { s with q1 := removeId id s.q1 }, 1)
      else if hasId id s.q2 then (schedule { s with q2 := removeId id s.q2 }, 1)
      else (s, 0)
  | .cancelCurrent =>
      match s.curr with
      | none => (s, 0)
      | some c =>
        match s.q c with
        | [] => (s, 0)
        | _ :: rest => (schedule (s.setQ c rest), 1)
  | .cancelAll =>
      ({ s with q0 := mapFront actStop s.q0, q1 := mapFront actStop s.q1, q2 := mapFront actStop s.q2 }, 1)
  | .emit id _succ =>
      let fin (a : XAct) : XAct :=
        if a.id == id && a.kind == .dummy && a.st == .running then { a with st := .finished, fin := some s.nextRun } else a
      let hit := (s.q0 ++ s.q1 ++ s.q2).any (fun a => a.id == id && a.kind == .dummy && a.st == .running)
      if hit then ({ s with q0 := s.q0.map fin, q1 := s.q1.map fin, q2 := s.q2.map fin, nextRun := s.nextRun + 1 }, 1)
      else (s, 0)
  | .pass =>
      -- the batch of queued notifications, in FIFO order; each one calls schedule()
      let ids := ((s.q0 ++ s.q1 ++ s.q2).filterMap (fun a => a.fin)).mergeSort (· ≤ ·)
      let s' := ids.foldl (fun (s : XS) (rid : Nat) =>
        if (s.q0 ++ s.q1 ++ s.q2).any (fun a => a.fin == some rid) then
          let clr (a : XAct) : XAct := if a.fin == some rid then { a with fin := none } else a
          schedule { s with q0 := s.q0.map clr, q1 := s.q1.map clr, q2 := s.q2.map clr }
        else s) s
      (s', 1)

end Tbox.C17.Exec

namespace Tbox.C17.Exec

/-- what may sit behind the head of a deque: actions that were never started -/
def tailOk (l : List XAct) : Bool := l.all fun a => a.st == .idle || (a.kind == .dead && a.st == .stoped)

/-- the head of deque `i` given the current index -/
def headOk (curr : Option Nat) (i : Nat) (l : List XAct) : Bool :=
  match l with
  | [] => true
  | a :: rest =>
    tailOk rest &&
    (match a.st with
     | .running => curr == some i
     | .pause => (match curr with | some c => c < i | none => false)     -- pre-empted by a higher priority
     | _ => true)

/-- invariant of the executor: only the head of the current deque runs; heads of lower-priority deques
may be paused; everything else has never been started; ids are distinct and below the counter -/
def xinv (s : XS) : Bool :=
  headOk s.curr 0 s.q0 && headOk s.curr 1 s.q1 && headOk s.curr 2 s.q2 &&
  (match s.curr with | some c => c ≤ 2 && !(s.q c).isEmpty | none => true) &&
  ((s.q0 ++ s.q1 ++ s.q2).map (·.id)).Nodup && (s.q0 ++ s.q1 ++ s.q2).all (fun a => 1 ≤ a.id && a.id ≤ s.idc) &&
  (s.q0 ++ s.q1 ++ s.q2).all (fun a => match a.fin with | some r => r < s.nextRun | none => true)

end Tbox.C17.Exec
