/-
C17 — ActionExecutor: the started / finished callbacks fire at most once per action id.
Invariant `LI`: ids are distinct and at most the counter; an id whose `started` is in the log belongs to
no Idle action; an id whose `finished` is in the log belongs to no action at all.
-/
import TboxModel.C17.ExecProofs
namespace Tbox.C17.Exec
open Tbox.C17
set_option linter.unusedSimpArgs false
set_option linter.unusedVariables false

/-- how many actions of the three deques satisfy `P` -/
def cP (s : XS) (P : XAct → Bool) : Nat := s.q0.countP P + s.q1.countP P + s.q2.countP P

def idP (id : Nat) (a : XAct) : Bool := a.id == id
def idleP (id : Nat) (a : XAct) : Bool := a.id == id && a.st == .idle

structure LI (s : XS) : Prop where
  n : ∀ id, cP s (idP id) ≤ 1
  b : ∀ id, s.idc < id → cP s (idP id) = 0
  lg : ∀ id, (XEv.started id ∈ s.log ∨ XEv.finished id ∈ s.log) → id ≤ s.idc
  a : ∀ id, XEv.started id ∈ s.log → cP s (idleP id) = 0
  f : ∀ id, XEv.finished id ∈ s.log → cP s (idP id) = 0
  c : ∀ id, s.log.count (.started id) ≤ 1 ∧ s.log.count (.finished id) ≤ 1

theorem idle_le_id (s : XS) (id : Nat) : cP s (idleP id) ≤ cP s (idP id) := by
  unfold cP
  have h : ∀ l : List XAct, l.countP (idleP id) ≤ l.countP (idP id) := fun l =>
    List.countP_mono_left (fun x _ hx => by simp only [idleP, Bool.and_eq_true] at hx; exact hx.1)
  have := h s.q0; have := h s.q1; have := h s.q2; omega

/-- the deques change so that no count of ids or idle ids grows; log and counter stay -/
theorem li_mono (s s' : XS) (h : LI s) (h1 : ∀ id, cP s' (idP id) ≤ cP s (idP id)) (h2 : ∀ id, cP s' (idleP id) ≤ cP s (idleP id))
    (hl : s'.log = s.log) (hi : s'.idc = s.idc) : LI s' :=
  ⟨fun id => Nat.le_trans (h1 id) (h.n id), fun id hid => by have := h.b id (by rw [← hi]; exact hid); have := h1 id; omega,
   fun id hx => by rw [hi]; exact h.lg id (by rw [← hl]; exact hx),
   fun id hx => by have := h.a id (by rw [← hl]; exact hx); have := h2 id; omega,
   fun id hx => by have := h.f id (by rw [← hl]; exact hx); have := h1 id; omega,
   fun id => by rw [hl]; exact h.c id⟩

theorem cP_setQ (s : XS) (r : Nat) (hr : r ≤ 2) (l : List XAct) (P : XAct → Bool) :
    cP (s.setQ r l) P + (s.q r).countP P = cP s P + l.countP P := by
  rcases r with _ | _ | _ | r
  · simp [cP, XS.setQ, XS.q]; omega
  · simp [cP, XS.setQ, XS.q]; omega
  · simp [cP, XS.setQ, XS.q]; omega
  · omega

theorem cP_pos (s : XS) (r : Nat) (a : XAct) (rest : List XAct) (P : XAct → Bool) (hq : s.q r = a :: rest) (hp : P a = true) : 1 ≤ cP s P := by
  have : 1 ≤ (s.q r).countP P := by rw [hq]; simp [List.countP_cons, hp]
  rcases r with _ | _ | r <;> simp only [XS.q] at this <;> unfold cP <;> omega

theorem li_emit_other (s : XS) (h : LI s) : LI (s.emit .allFinished) :=
  ⟨h.n, h.b, fun id hx => h.lg id (by simpa [XS.emit] using hx), fun id hx => h.a id (by simpa [XS.emit] using hx),
   fun id hx => h.f id (by simpa [XS.emit] using hx), fun id => by simpa [XS.emit, List.count_cons] using h.c id⟩

theorem countP_mapFront_le (f : XAct → XAct) (P : XAct → Bool) (hf : ∀ a, P (f a) = true → P a = true) (l : List XAct) :
    (mapFront f l).countP P ≤ l.countP P := by
  cases l with
  | nil => exact Nat.le_refl _
  | cons a rest =>
    simp only [mapFront, List.countP_cons]
    have := hf a
    by_cases h : P (f a) = true
    · simp [h, this h]
    · simp [h]

theorem countP_map_le (f : XAct → XAct) (P : XAct → Bool) (hf : ∀ a, P (f a) = true → P a = true) (l : List XAct) :
    (l.map f).countP P ≤ l.countP P := by
  rw [List.countP_map]
  exact List.countP_mono_left (fun x _ hx => hf x hx)

/-- `f` keeps ids and never makes an action Idle -/
def Keeps (f : XAct → XAct) : Prop := ∀ a, (f a).id = a.id ∧ ((f a).st = .idle → a.st = .idle)

theorem keeps_idP (f : XAct → XAct) (hf : Keeps f) (id : Nat) (a : XAct) (h : idP id (f a) = true) : idP id a = true := by
  simp only [idP] at h ⊢; rw [(hf a).1] at h; exact h
theorem keeps_idleP (f : XAct → XAct) (hf : Keeps f) (id : Nat) (a : XAct) (h : idleP id (f a) = true) : idleP id a = true := by
  simp only [idleP, Bool.and_eq_true, beq_iff_eq] at h ⊢
  exact ⟨by rw [← (hf a).1]; exact h.1, (hf a).2 h.2⟩

theorem keeps_pause : Keeps actPause := fun a => by unfold actPause; split <;> simp_all
theorem keeps_resume : Keeps actResume := fun a => by unfold actResume; split <;> simp_all
theorem keeps_stop : Keeps actStop := fun a => by unfold actStop; split <;> simp_all

theorem dropDangling_li (s : XS) (h : LI s) : LI (dropDangling s) := by
  have e : ∀ P, cP (dropDangling s) P = cP s P ∧ (dropDangling s).log = s.log ∧ (dropDangling s).idc = s.idc := by
    intro P; unfold dropDangling; split
    · split <;> exact ⟨rfl, rfl, rfl⟩
    · exact ⟨rfl, rfl, rfl⟩
  exact li_mono s _ h (fun id => Nat.le_of_eq (e _).1) (fun id => Nat.le_of_eq (e _).1) (e (idP 0)).2.1 (e (idP 0)).2.2

theorem setQ_log (s : XS) (i : Nat) (l : List XAct) : (s.setQ i l).log = s.log ∧ (s.setQ i l).idc = s.idc := by
  unfold XS.setQ; rcases i with _ | _ | i <;> exact ⟨rfl, rfl⟩

theorem preempt_li (s : XS) (r : Nat) (h : LI s) (hc : ∀ c, s.curr = some c → c ≤ 2) : LI (preempt s r) := by
  unfold preempt
  cases hcur : s.curr with
  | none => exact h
  | some c =>
    simp only []
    split
    · have hc2 := hc c hcur
      have key : ∀ P, (∀ a, P (actPause a) = true → P a = true) → cP (s.setQ c (mapFront actPause (s.q c))) P ≤ cP s P := by
        intro P hP
        have a := cP_setQ s c hc2 (mapFront actPause (s.q c)) P
        have b := countP_mapFront_le actPause P hP (s.q c)
        omega
      exact li_mono s _ h (fun id => key _ (keeps_idP _ keeps_pause id)) (fun id => key _ (keeps_idleP _ keeps_pause id))
        (setQ_log s c _).1 (setQ_log s c _).2
    · exact h

theorem count_cons_ne (e e' : XEv) (l : List XEv) (h : e' ≠ e) : (e' :: l).count e = l.count e := by
  simp [List.count_cons, h]

theorem schedHead_li (s1 : XS) (r : Nat) (hr : r ≤ 2) (a : XAct) (rest : List XAct) (h : LI s1) (hq : s1.q r = a :: rest)
    (s' : XS) (hs : schedHead s1 r a rest = some s') : LI s' := by
  -- how a predicate count changes when the head of deque r is replaced / removed
  have repl : ∀ (x : XAct) (P : XAct → Bool), cP (s1.setQ r (x :: rest)) P + (if P a then 1 else 0) = cP s1 P + (if P x then 1 else 0) := by
    intro x P
    have := cP_setQ s1 r hr (x :: rest) P
    rw [hq] at this
    simp only [List.countP_cons] at this
    omega
  have pop : ∀ (P : XAct → Bool), cP (s1.setQ r rest) P + (if P a then 1 else 0) = cP s1 P := by
    intro P
    have := cP_setQ s1 r hr rest P
    rw [hq] at this
    simp only [List.countP_cons] at this
    omega
  have hida : idP a.id a = true := by simp [idP]
  have hpos := cP_pos s1 r a rest (idP a.id) hq hida
  have hle : a.id ≤ s1.idc := by
    rcases Nat.lt_or_ge s1.idc a.id with x | x
    · have := h.b a.id x; omega
    · exact x
  unfold schedHead at hs
  by_cases hi : a.st = .idle
  · have c1 : (a.st == St.idle) = true := by simp [hi]
    have hst := actStart_idle a s1.nextRun hi
    simp only [c1, ↓reduceIte, hst.1, Option.some.injEq] at hs
    subst hs
    -- the started callback of a.id has not fired yet: a is Idle
    have hidle : idleP a.id a = true := by simp [idleP, hi]
    have hns : XEv.started a.id ∉ s1.log := fun hx => by
      have := h.a a.id hx; have := cP_pos s1 r a rest (idleP a.id) hq hidle; omega
    have hid' : (actStart a s1.nextRun).1.id = a.id := by unfold actStart; simp [hi]; split <;> rfl
    have hni' : (actStart a s1.nextRun).1.st ≠ .idle := by rcases hst.2 with x | x <;> rw [x] <;> simp
    have eP : ∀ P, cP ((({ (s1.setQ r ((actStart a s1.nextRun).1 :: rest)) with curr := some r, nextRun := if (actStart a s1.nextRun).2.2 then s1.nextRun + 1 else s1.nextRun } : XS)).emit (.started a.id)) P =
        cP (s1.setQ r ((actStart a s1.nextRun).1 :: rest)) P := fun P => rfl
    have e1 : ∀ id, idP id (actStart a s1.nextRun).1 = idP id a := fun id => by simp [idP, hid']
    have e2 : ∀ id, idleP id (actStart a s1.nextRun).1 = false := fun id => by simp [idleP, hni']
    refine ⟨fun id => ?_, fun id hid => ?_, fun id hx => ?_, fun id hx => ?_, fun id hx => ?_, fun id => ?_⟩
    · rw [eP]; have := repl (actStart a s1.nextRun).1 (idP id); rw [e1] at this; have := h.n id; omega
    · rw [eP]; have := repl (actStart a s1.nextRun).1 (idP id); rw [e1] at this
      have : s1.idc < id := by simpa [XS.emit, (setQ_log s1 r _).2] using hid
      have := h.b id this; omega
    · have hx' : id = a.id ∨ (XEv.started id ∈ s1.log ∨ XEv.finished id ∈ s1.log) := by
        simp only [XS.emit, (setQ_log s1 r _).1, List.mem_cons] at hx
        rcases hx with (x | x) | (x | x)
        · left; injection x
        · right; left; exact x
        · cases x
        · right; right; exact x
      show id ≤ (s1.setQ r _).idc
      rw [(setQ_log s1 r _).2]
      rcases hx' with x | x
      · rw [x]; exact hle
      · exact h.lg id x
    · rw [eP]
      have rp := repl (actStart a s1.nextRun).1 (idleP id); rw [e2] at rp
      simp only [XS.emit, (setQ_log s1 r _).1, List.mem_cons] at hx
      rcases hx with x | x
      · injection x with x; subst x
        have := idle_le_id s1 a.id; have := h.n a.id
        simp only [hidle, ↓reduceIte, Bool.false_eq_true] at rp; omega
      · have := h.a id x; simp only [Bool.false_eq_true, ↓reduceIte] at rp; split at rp <;> omega
    · rw [eP]; have rp := repl (actStart a s1.nextRun).1 (idP id); rw [e1] at rp
      simp only [XS.emit, (setQ_log s1 r _).1, List.mem_cons] at hx
      rcases hx with x | x
      · cases x
      · have := h.f id x; omega
    · show ((XEv.started a.id) :: (s1.setQ r _).log).count (.started id) ≤ 1 ∧ ((XEv.started a.id) :: (s1.setQ r _).log).count (.finished id) ≤ 1
      rw [(setQ_log s1 r _).1]
      refine ⟨?_, by rw [count_cons_ne _ _ _ (by simp)]; exact (h.c id).2⟩
      by_cases e : a.id = id
      · subst e
        have : s1.log.count (.started a.id) = 0 := List.count_eq_zero.2 hns
        simp [List.count_cons, this]
      · rw [count_cons_ne _ _ _ (by simp [e])]; exact (h.c id).1
  · have c1 : (a.st == St.idle) = false := by simpa using hi
    simp only [c1, Bool.false_eq_true, ↓reduceIte] at hs
    by_cases hp : a.st = .pause
    · have c2 : (a.st == St.pause) = true := by simp [hp]
      simp only [c2, ↓reduceIte, Option.some.injEq] at hs
      subst hs
      have key : ∀ P, (∀ x, P (actResume x) = true → P x = true) → cP ({ (s1.setQ r (actResume a :: rest)) with curr := some r } : XS) P ≤ cP s1 P := by
        intro P hP
        have rp := repl (actResume a) P
        have : cP ({ (s1.setQ r (actResume a :: rest)) with curr := some r } : XS) P = cP (s1.setQ r (actResume a :: rest)) P := rfl
        rw [this]
        have := hP a
        by_cases x : P (actResume a) = true
        · simp only [x, this x, ↓reduceIte] at rp; omega
        · simp only [x, Bool.false_eq_true, ↓reduceIte] at rp; split at rp <;> omega
      exact li_mono s1 _ h (fun id => key _ (keeps_idP _ keeps_resume id)) (fun id => key _ (keeps_idleP _ keeps_resume id))
        (setQ_log s1 r _).1 (setQ_log s1 r _).2
    · have c2 : (a.st == St.pause) = false := by simpa using hp
      simp only [c2, Bool.false_eq_true, ↓reduceIte] at hs
      by_cases hf : (a.st == St.finished || a.st == St.stoped) = true
      · simp only [hf, ↓reduceIte, Option.some.injEq] at hs
        subst hs
        have hnf : XEv.finished a.id ∉ s1.log := fun hx => by have := h.f a.id hx; omega
        have eP : ∀ P, cP (({ (s1.setQ r rest) with curr := none } : XS).emit (.finished a.id)) P = cP (s1.setQ r rest) P := fun P => rfl
        refine ⟨fun id => ?_, fun id hid => ?_, fun id hx => ?_, fun id hx => ?_, fun id hx => ?_, fun id => ?_⟩
        · rw [eP]; have := pop (idP id); have := h.n id; omega
        · rw [eP]; have := pop (idP id)
          have : s1.idc < id := by simpa [XS.emit, (setQ_log s1 r _).2] using hid
          have := h.b id this; omega
        · have hx' : id = a.id ∨ (XEv.started id ∈ s1.log ∨ XEv.finished id ∈ s1.log) := by
            simp only [XS.emit, (setQ_log s1 r _).1, List.mem_cons] at hx
            rcases hx with (x | x) | (x | x)
            · cases x
            · right; left; exact x
            · left; injection x
            · right; right; exact x
          show id ≤ (s1.setQ r _).idc
          rw [(setQ_log s1 r _).2]
          rcases hx' with x | x
          · rw [x]; exact hle
          · exact h.lg id x
        · rw [eP]; have pp := pop (idleP id)
          simp only [XS.emit, (setQ_log s1 r _).1, List.mem_cons] at hx
          rcases hx with x | x
          · cases x
          · have := h.a id x; omega
        · rw [eP]; have pp := pop (idP id)
          simp only [XS.emit, (setQ_log s1 r _).1, List.mem_cons] at hx
          rcases hx with x | x
          · injection x with x; subst x
            have := h.n a.id
            simp only [hida, ↓reduceIte] at pp; omega
          · have := h.f id x; omega
        · show ((XEv.finished a.id) :: (s1.setQ r _).log).count (.started id) ≤ 1 ∧ ((XEv.finished a.id) :: (s1.setQ r _).log).count (.finished id) ≤ 1
          rw [(setQ_log s1 r _).1]
          refine ⟨by rw [count_cons_ne _ _ _ (by simp)]; exact (h.c id).1, ?_⟩
          by_cases e : a.id = id
          · subst e
            have : s1.log.count (.finished a.id) = 0 := List.count_eq_zero.2 hnf
            simp [List.count_cons, this]
          · rw [count_cons_ne _ _ _ (by simp [e])]; exact (h.c id).2
      · simp [hf] at hs

theorem sched_li : ∀ (fuel : Nat) (s : XS), Inv1 s → LI s → LI (sched fuel s)
  | 0, s, _, h => h
  | fuel + 1, s, hi, h => by
    rw [sched]
    have h0 := dropDangling_inv s hi
    have l0 := dropDangling_li s h
    cases hr : ready (dropDangling s) with
    | none => exact li_emit_other _ l0
    | some r =>
      obtain ⟨hr2, hne, hlow⟩ := ready_spec _ r hr
      have h1 := preempt_inv _ r h0 hlow
      have l1 := preempt_li _ r l0 h0.2
      simp only []
      cases hq : (preempt (dropDangling s) r).q r with
      | nil => exact l1
      | cons a rest =>
        simp only []
        cases hs : schedHead (preempt (dropDangling s) r) r a rest with
        | none => exact l1
        | some s' =>
          exact sched_li fuel s' (schedHead_inv _ r hr2 a rest h1.1 h1.2 hq s' hs) (schedHead_li _ r hr2 a rest l1 hq s' hs)

theorem schedule_li (s : XS) (hi : Inv1 s) (h : LI s) : LI (schedule s) := sched_li _ s hi h

theorem li_init : LI {} :=
  ⟨fun _ => by simp [cP], fun _ _ => by simp [cP], fun _ hx => by simp at hx, fun _ hx => by simp at hx, fun _ hx => by simp at hx, fun _ => by simp⟩

/-- queue-wise transformation that loses actions or changes them by a `Keeps` function -/
theorem li_queues (s s' : XS) (h : LI s) (hl : s'.log = s.log) (hi : s'.idc = s.idc)
    (h0 : ∀ P : XAct → Bool, (∀ id, P = idP id ∨ P = idleP id) → True)
    (k0 : ∀ id, s'.q0.countP (idP id) ≤ s.q0.countP (idP id) ∧ s'.q0.countP (idleP id) ≤ s.q0.countP (idleP id))
    (k1 : ∀ id, s'.q1.countP (idP id) ≤ s.q1.countP (idP id) ∧ s'.q1.countP (idleP id) ≤ s.q1.countP (idleP id))
    (k2 : ∀ id, s'.q2.countP (idP id) ≤ s.q2.countP (idP id) ∧ s'.q2.countP (idleP id) ≤ s.q2.countP (idleP id)) : LI s' :=
  li_mono s s' h (fun id => by unfold cP; have := (k0 id).1; have := (k1 id).1; have := (k2 id).1; omega)
    (fun id => by unfold cP; have := (k0 id).2; have := (k1 id).2; have := (k2 id).2; omega) hl hi

theorem same_q (l : List XAct) (id : Nat) : l.countP (idP id) ≤ l.countP (idP id) ∧ l.countP (idleP id) ≤ l.countP (idleP id) := ⟨Nat.le_refl _, Nat.le_refl _⟩

theorem filter_q (l : List XAct) (p : XAct → Bool) (id : Nat) :
    (l.filter p).countP (idP id) ≤ l.countP (idP id) ∧ (l.filter p).countP (idleP id) ≤ l.countP (idleP id) := by
  constructor <;> (rw [List.countP_filter]; exact List.countP_mono_left (fun x _ hx => by simp only [Bool.and_eq_true] at hx; exact hx.1))

theorem map_q (l : List XAct) (f : XAct → XAct) (hf : Keeps f) (id : Nat) :
    (l.map f).countP (idP id) ≤ l.countP (idP id) ∧ (l.map f).countP (idleP id) ≤ l.countP (idleP id) :=
  ⟨countP_map_le f _ (keeps_idP f hf id) l, countP_map_le f _ (keeps_idleP f hf id) l⟩

theorem mapFront_q (l : List XAct) (f : XAct → XAct) (hf : Keeps f) (id : Nat) :
    (mapFront f l).countP (idP id) ≤ l.countP (idP id) ∧ (mapFront f l).countP (idleP id) ≤ l.countP (idleP id) :=
  ⟨countP_mapFront_le f _ (keeps_idP f hf id) l, countP_mapFront_le f _ (keeps_idleP f hf id) l⟩

theorem xstep_li (s : XS) (op : XOp) (hp : opOk op = true) (hi : Inv1 s) (h : LI s) : LI (xstep s op).1 := by
  have h4 := (inv1_iff s).1 hi
  obtain ⟨h0, h1, h2, hc⟩ := h4
  cases op with
  | append k prio =>
    simp only [xstep]
    have hp' : prio ≤ 2 := by simpa [opOk] using hp
    -- the invariant of the state handed to schedule(): reuse xstep_inv's argument through schedule_inv's premise
    have hpre : Inv1 ({ (s.setQ prio (s.q prio ++ [{ id := s.idc + 1, kind := k, st := if k == .dead then .stoped else .idle }])) with idc := s.idc + 1 } : XS) := by
      have ha : (({ id := s.idc + 1, kind := k, st := if k == .dead then .stoped else .idle } : XAct).st = .idle ∨
          (({ id := s.idc + 1, kind := k, st := if k == .dead then .stoped else .idle } : XAct).kind = .dead ∧
           ({ id := s.idc + 1, kind := k, st := if k == .dead then .stoped else .idle } : XAct).st = .stoped)) := by
        by_cases hk : k = .dead
        · right; simp [hk]
        · left; simp [hk]
      rw [inv1_iff]
      rcases prio with _ | _ | _ | p
      · exact ⟨headI_append _ _ _ _ h0 ha, h1, h2, hc⟩
      · exact ⟨h0, headI_append _ _ _ _ h1 ha, h2, hc⟩
      · exact ⟨h0, h1, headI_append _ _ _ _ h2 ha, hc⟩
      · omega
    apply schedule_li _ hpre
    -- a new id, above everything in the deques and in the log
    have cnew : ∀ (P : XAct → Bool), cP ({ (s.setQ prio (s.q prio ++ [{ id := s.idc + 1, kind := k, st := if k == .dead then .stoped else .idle }])) with idc := s.idc + 1 } : XS) P =
        cP s P + (if P { id := s.idc + 1, kind := k, st := if k == .dead then .stoped else .idle } then 1 else 0) := by
      intro P
      have := cP_setQ s prio hp' (s.q prio ++ [{ id := s.idc + 1, kind := k, st := if k == .dead then .stoped else .idle }]) P
      simp only [List.countP_append, List.countP_cons, List.countP_nil] at this
      show cP (s.setQ prio _) P = _
      omega
    have hlog : ({ (s.setQ prio (s.q prio ++ [{ id := s.idc + 1, kind := k, st := if k == .dead then .stoped else .idle }])) with idc := s.idc + 1 } : XS).log = s.log := (setQ_log s prio _).1
    refine ⟨fun id => ?_, fun id hid => ?_, fun id hx => ?_, fun id hx => ?_, fun id hx => ?_, fun id => by rw [hlog]; exact h.c id⟩
    · rw [cnew]
      by_cases e : s.idc + 1 = id
      · have := h.b id (by omega); simp [idP, e]; omega
      · have := h.n id; simp [idP, e]; omega
    · rw [cnew]
      have hid' : s.idc + 1 < id := hid
      have := h.b id (by omega)
      have e : ¬ s.idc + 1 = id := by omega
      simp [idP, e]; omega
    · rw [hlog] at hx; have := h.lg id hx; show id ≤ s.idc + 1; omega
    · rw [hlog] at hx; rw [cnew]
      have := h.lg id (Or.inl hx); have := h.a id hx
      have e : ¬ s.idc + 1 = id := by omega
      simp [idleP, e]; omega
    · rw [hlog] at hx; rw [cnew]
      have := h.lg id (Or.inr hx); have := h.f id hx
      have e : ¬ s.idc + 1 = id := by omega
      simp [idP, e]; omega
  | cancel id =>
    simp only [xstep]
    split
    · exact schedule_li _ ((inv1_iff _).2 ⟨headI_filter _ _ _ _ h0, h1, h2, hc⟩)
        (li_queues s _ h rfl rfl (fun _ _ => trivial) (fun k => filter_q _ _ k) (fun k => same_q _ k) (fun k => same_q _ k))
    · split
      · exact schedule_li _ ((inv1_iff _).2 ⟨h0, headI_filter _ _ _ _ h1, h2, hc⟩)
          (li_queues s _ h rfl rfl (fun _ _ => trivial) (fun k => same_q _ k) (fun k => filter_q _ _ k) (fun k => same_q _ k))
      · split
        · exact schedule_li _ ((inv1_iff _).2 ⟨h0, h1, headI_filter _ _ _ _ h2, hc⟩)
            (li_queues s _ h rfl rfl (fun _ _ => trivial) (fun k => same_q _ k) (fun k => same_q _ k) (fun k => filter_q _ _ k))
        · exact h
  | cancelCurrent =>
    simp only [xstep]
    cases hcur : s.curr with
    | none => simpa [hcur] using h
    | some c =>
      simp only []
      cases hq : s.q c with
      | nil => simpa using h
      | cons a rest =>
        simp only []
        have hc2 := hc c hcur
        have hcc : (s.setQ c rest).curr = s.curr := setQ_curr s c rest
        have hpre : Inv1 (s.setQ c rest) := by
          rw [inv1_iff, hcc]
          rcases c with _ | _ | c
          · have e : s.q0 = a :: rest := hq
            rw [e] at h0
            exact ⟨headI_tail _ _ a rest h0 _, h1, h2, hc⟩
          · have e : s.q1 = a :: rest := hq
            rw [e] at h1
            exact ⟨h0, headI_tail _ _ a rest h1 _, h2, hc⟩
          · have e : s.q2 = a :: rest := hq
            rw [e] at h2
            exact ⟨h0, h1, headI_tail _ _ a rest h2 _, hc⟩
        apply schedule_li _ hpre
        have key : ∀ P, cP (s.setQ c rest) P ≤ cP s P := by
          intro P
          have := cP_setQ s c hc2 rest P
          rw [hq] at this; simp only [List.countP_cons] at this; omega
        exact li_mono s _ h (fun id => key _) (fun id => key _) (setQ_log s c _).1 (setQ_log s c _).2
  | cancelAll =>
    simp only [xstep]
    exact li_queues s _ h rfl rfl (fun _ _ => trivial) (fun k => mapFront_q _ _ keeps_stop k) (fun k => mapFront_q _ _ keeps_stop k) (fun k => mapFront_q _ _ keeps_stop k)
  | emit id succ =>
    simp only [xstep]
    split
    · have kf : Keeps (fun a : XAct => if a.id == id && a.kind == .dummy && a.st == .running then { a with st := .finished, fin := some s.nextRun } else a) := by
        intro a; simp only; split <;> simp_all
      exact li_queues s _ h rfl rfl (fun _ _ => trivial) (fun k => map_q _ _ kf k) (fun k => map_q _ _ kf k) (fun k => map_q _ _ kf k)
    · exact h
  | pass =>
    simp only [xstep]
    generalize (((s.q0 ++ s.q1 ++ s.q2).filterMap (fun a => a.fin)).mergeSort (· ≤ ·)) = ids
    induction ids generalizing s with
    | nil => exact h
    | cons rid ids ih =>
      simp only [List.foldl_cons]
      split
      · have hf : ∀ (a : XAct), a.st ≠ .running → ((if a.fin == some rid then { a with fin := none } else a).st = a.st ∧ (if a.fin == some rid then { a with fin := none } else a).kind = a.kind) := by
          intro a _; split <;> simp
        have hr : ∀ (a : XAct), (if a.fin == some rid then { a with fin := none } else a).st = .running → a.st = .running := by
          intro a; split <;> simp
        have hpre : Inv1 { s with q0 := s.q0.map (fun a => if a.fin == some rid then { a with fin := none } else a),
                                  q1 := s.q1.map (fun a => if a.fin == some rid then { a with fin := none } else a),
                                  q2 := s.q2.map (fun a => if a.fin == some rid then { a with fin := none } else a) } :=
          (inv1_iff _).2 ⟨headI_map _ _ _ _ h0 hf hr, headI_map _ _ _ _ h1 hf hr, headI_map _ _ _ _ h2 hf hr, hc⟩
        have kf : Keeps (fun a : XAct => if a.fin == some rid then { a with fin := none } else a) := by
          intro a; simp only; split <;> simp_all
        have lpre : LI { s with q0 := s.q0.map (fun a => if a.fin == some rid then { a with fin := none } else a),
                                q1 := s.q1.map (fun a => if a.fin == some rid then { a with fin := none } else a),
                                q2 := s.q2.map (fun a => if a.fin == some rid then { a with fin := none } else a) } :=
          li_queues s _ h rfl rfl (fun _ _ => trivial) (fun k => map_q _ _ kf k) (fun k => map_q _ _ kf k) (fun k => map_q _ _ kf k)
        have h' := schedule_inv _ hpre
        have h4' := (inv1_iff _).1 h'
        exact ih _ h' (schedule_li _ hpre lpre) h4'.1 h4'.2.1 h4'.2.2.1 h4'.2.2.2
      · exact ih s hi h h0 h1 h2 hc

theorem xrun_li : ∀ (ops : List XOp) (s : XS), ops.all opOk = true → Inv1 s → LI s → LI (xrun s ops)
  | [], s, _, _, h => h
  | op :: ops, s, hok, hi, h => by
    simp only [List.all_cons, Bool.and_eq_true] at hok
    exact xrun_li ops _ hok.2 (xstep_inv s op hok.1 hi) (xstep_li s op hok.1 hi h)

/-- **callbacks at most once**: in the whole history of any sequence of executor operations the started
callback and the finished callback fire at most once per action id; an action whose finished callback
fired is gone; one whose started callback fired is not Idle (it is never started again) -/
theorem exec_callbacks_once (ops : List XOp) (hok : ops.all opOk = true) (id : Nat) :
    (xrun {} ops).log.count (.started id) ≤ 1 ∧ (xrun {} ops).log.count (.finished id) ≤ 1 ∧
    (XEv.finished id ∈ (xrun {} ops).log → cP (xrun {} ops) (idP id) = 0) ∧
    (XEv.started id ∈ (xrun {} ops).log → cP (xrun {} ops) (idleP id) = 0) := by
  have h := xrun_li ops {} hok init_inv1 li_init
  exact ⟨(h.c id).1, (h.c id).2, h.f id, h.a id⟩

end Tbox.C17.Exec
