/-
C17 — ActionExecutor: invariant of `schedule` and of every operation (one action runs at a time: only
the head of the current deque may be Running; nothing behind a head was ever started).
-/
import TboxModel.C17.Exec
namespace Tbox.C17.Exec
open Tbox.C17
set_option linter.unusedSimpArgs false
set_option linter.unusedVariables false

def nrm (i : Nat) : Nat := if i = 0 then 0 else if i = 1 then 1 else 2

theorem q_nrm (s : XS) (i : Nat) : s.q (nrm i) = s.q i := by
  unfold nrm XS.q
  rcases i with _ | _ | i <;> simp

theorem q_setQ (s : XS) (i j : Nat) (l : List XAct) : (s.setQ i l).q j = if nrm i = nrm j then l else s.q j := by
  unfold XS.setQ XS.q nrm
  rcases i with _ | _ | i <;> rcases j with _ | _ | j <;> simp

theorem setQ_curr (s : XS) (i : Nat) (l : List XAct) : (s.setQ i l).curr = s.curr := by
  unfold XS.setQ; rcases i with _ | _ | i <;> rfl

/-- head condition used inside the loop: a Running head is the current one; tails were never started -/
def headI (curr : Option Nat) (i : Nat) (l : List XAct) : Prop :=
  match l with
  | [] => True
  | a :: rest => tailOk rest = true ∧ (a.st = .running → curr = some (nrm i))

def Inv1 (s : XS) : Prop := (∀ i, headI s.curr i (s.q i)) ∧ (∀ c, s.curr = some c → c ≤ 2)

theorem ready_spec (s : XS) (r : Nat) (h : ready s = some r) : r ≤ 2 ∧ s.q r ≠ [] ∧ ∀ j, j < r → s.q j = [] := by
  unfold ready at h
  by_cases h0 : s.q0 = []
  · by_cases h1 : s.q1 = []
    · by_cases h2 : s.q2 = []
      · simp [h0, h1, h2] at h
      · simp [h0, h1, h2] at h; subst h
        refine ⟨by omega, by simpa [XS.q] using h2, ?_⟩
        intro j hj; rcases j with _ | _ | j
        · simpa [XS.q] using h0
        · simpa [XS.q] using h1
        · omega
    · simp [h0, h1] at h; subst h
      refine ⟨by omega, by simpa [XS.q] using h1, ?_⟩
      intro j hj; rcases j with _ | j
      · simpa [XS.q] using h0
      · omega
  · simp [h0] at h; subst h
    exact ⟨by omega, by simpa [XS.q] using h0, fun j hj => by omega⟩

theorem nrm_le (r : Nat) (h : r ≤ 2) : nrm r = r := by
  unfold nrm; rcases r with _ | _ | _ | r <;> simp <;> omega

theorem tailOk_head_not_running (l : List XAct) (h : tailOk l = true) : headI none 0 l ∧ (∀ a rest, l = a :: rest → a.st ≠ .running ∧ tailOk rest = true) := by
  cases l with
  | nil => exact ⟨trivial, fun a rest h => by cases h⟩
  | cons b bs =>
    simp only [tailOk, List.all_cons, Bool.and_eq_true, Bool.or_eq_true, beq_iff_eq] at h
    have hb : b.st ≠ .running := by
      rcases h.1 with h1 | h1
      · rw [h1]; simp
      · rw [h1.2]; simp
    refine ⟨⟨h.2, fun x => absurd x hb⟩, ?_⟩
    intro a rest e; cases e; exact ⟨hb, h.2⟩

/-- a state in which no head is Running satisfies the invariant for any `curr ≤ 2` once tails are fine -/
def NoRun (s : XS) : Prop := ∀ i a rest, s.q i = a :: rest → a.st ≠ .running
def Tails (s : XS) : Prop := ∀ i a rest, s.q i = a :: rest → tailOk rest = true

theorem inv1_tails (s : XS) (h : Inv1 s) : Tails s := by
  intro i a rest e; have := h.1 i; rw [e] at this; exact this.1

/-- put a new head on deque `r` and make it current -/
theorem inv1_set_head (s : XS) (r : Nat) (hr : r ≤ 2) (a : XAct) (rest : List XAct) (ht : Tails s) (hn : ∀ i, nrm i ≠ r → ∀ b bs, s.q i = b :: bs → b.st ≠ .running)
    (hrest : tailOk rest = true) (s' : XS) (hq : ∀ j, s'.q j = if r = nrm j then a :: rest else s.q j) (hc : s'.curr = some r) : Inv1 s' := by
  refine ⟨?_, fun c hcc => by rw [hc] at hcc; cases hcc; exact hr⟩
  intro i
  rw [hq i]
  by_cases e : r = nrm i
  · simp only [e, ↓reduceIte, headI]; exact ⟨hrest, fun _ => by rw [hc, e]⟩
  · simp only [e, ↓reduceIte]
    cases hl : s.q i with
    | nil => trivial
    | cons b bs => exact ⟨ht i b bs hl, fun x => absurd x (hn i (fun h => e h.symm) b bs hl)⟩

/-- drop the head of deque `r`, nothing is current -/
theorem inv1_pop (s : XS) (r : Nat) (a : XAct) (rest : List XAct) (ht : Tails s)
    (hn : ∀ i, nrm i ≠ nrm r → ∀ b bs, s.q i = b :: bs → b.st ≠ .running) (hrest : tailOk rest = true)
    (s' : XS) (hq : ∀ j, s'.q j = if nrm r = nrm j then rest else s.q j) (hc : s'.curr = none) : Inv1 s' := by
  refine ⟨?_, fun c hcc => by rw [hc] at hcc; cases hcc⟩
  intro i
  rw [hq i]
  by_cases e : nrm r = nrm i
  · simp only [e, ↓reduceIte]
    have := tailOk_head_not_running rest hrest
    cases hl : rest with
    | nil => trivial
    | cons b bs => have h2 := this.2 b bs hl; exact ⟨h2.2, fun x => absurd x h2.1⟩
  · simp only [e, ↓reduceIte]
    cases hl : s.q i with
    | nil => trivial
    | cons b bs => exact ⟨ht i b bs hl, fun x => absurd x (hn i (fun h => e h.symm) b bs hl)⟩

theorem emit_q (s : XS) (e : XEv) (j : Nat) : (s.emit e).q j = s.q j := by
  unfold XS.emit XS.q; rcases j with _ | _ | j <;> rfl

theorem actStart_idle (a : XAct) (run : Nat) (h : a.st = .idle) :
    (actStart a run).2.1 = true ∧ ((actStart a run).1.st = .running ∨ (actStart a run).1.st = .finished) := by
  unfold actStart
  simp only [h]
  cases a.kind <;> simp

theorem dropDangling_inv (s : XS) (h : Inv1 s) : Inv1 (dropDangling s) := by
  unfold dropDangling
  cases hc : s.curr with
  | none => simpa [hc] using h
  | some c =>
    simp only []
    by_cases he : (s.q c).isEmpty = true
    · simp only [he, ↓reduceIte]
      refine ⟨?_, fun c' hc' => by cases hc'⟩
      intro i
      have hi := h.1 i
      show headI none i (s.q i)
      cases hl : s.q i with
      | nil => trivial
      | cons a rest =>
        rw [hl] at hi
        refine ⟨hi.1, fun hr => ?_⟩
        have := hi.2 hr; rw [hc] at this; cases this
        rw [q_nrm] at he; rw [hl] at he; simp at he
    · simp only [he, Bool.false_eq_true, ↓reduceIte]; exact h

theorem preempt_inv (s0 : XS) (r : Nat) (h0 : Inv1 s0) (hlow : ∀ j, j < r → s0.q j = []) :
    Inv1 (preempt s0 r) ∧ (∀ i, nrm i ≠ r → ∀ b bs, (preempt s0 r).q i = b :: bs → b.st ≠ .running) := by
  unfold preempt
  cases hc : s0.curr with
  | none =>
    simp only []
    refine ⟨h0, ?_⟩
    intro i _ b bs hl hrun
    have := h0.1 i; rw [hl] at this; have := this.2 hrun; rw [hc] at this; cases this
  | some c =>
    simp only []
    have hc2 := h0.2 c hc
    by_cases hlt : r < c
    · simp only [hlt, ↓reduceIte]
      have hq : ∀ j, (s0.setQ c (mapFront actPause (s0.q c))).q j = if nrm c = nrm j then mapFront actPause (s0.q c) else s0.q j := fun j => q_setQ s0 c j _
      have notrun : ∀ i b bs, (s0.setQ c (mapFront actPause (s0.q c))).q i = b :: bs → b.st ≠ .running := by
        intro i b bs hl hrun
        rw [hq i] at hl
        by_cases e : nrm c = nrm i
        · simp only [e, ↓reduceIte] at hl
          cases hqc : s0.q c with
          | nil => rw [hqc] at hl; simp [mapFront] at hl
          | cons x xs =>
            rw [hqc] at hl; simp only [mapFront, List.cons.injEq] at hl
            rw [← hl.1] at hrun
            unfold actPause at hrun
            split at hrun <;> simp_all
        · simp only [e, ↓reduceIte] at hl
          have := h0.1 i; rw [hl] at this; have := this.2 hrun; rw [hc] at this; cases this
          exact e (nrm_le _ hc2)
      refine ⟨⟨?_, fun c' hc' => by rw [setQ_curr] at hc'; exact h0.2 c' hc'⟩, fun i _ b bs hl => notrun i b bs hl⟩
      intro i
      cases hl : (s0.setQ c (mapFront actPause (s0.q c))).q i with
      | nil => trivial
      | cons b bs =>
        refine ⟨?_, fun x => absurd x (notrun i b bs hl)⟩
        rw [hq i] at hl
        by_cases e : nrm c = nrm i
        · simp only [e, ↓reduceIte] at hl
          cases hqc : s0.q c with
          | nil => rw [hqc] at hl; simp [mapFront] at hl
          | cons x xs =>
            rw [hqc] at hl; simp only [mapFront, List.cons.injEq] at hl
            have := h0.1 c; rw [hqc] at this; rw [← hl.2]; exact this.1
        · simp only [e, ↓reduceIte] at hl
          have := h0.1 i; rw [hl] at this; exact this.1
    · simp only [hlt, ↓reduceIte]
      refine ⟨h0, ?_⟩
      intro i hi b bs hl hrun
      have := h0.1 i; rw [hl] at this; have e := this.2 hrun; rw [hc] at e; cases e
      have : ¬ nrm i < r := by
        intro hlt2
        have := hlow (nrm i) hlt2
        rw [q_nrm] at this; rw [hl] at this; cases this
      omega

theorem schedHead_inv (s1 : XS) (r : Nat) (hr2 : r ≤ 2) (a : XAct) (rest : List XAct) (h1i : Inv1 s1)
    (h1n : ∀ i, nrm i ≠ r → ∀ b bs, s1.q i = b :: bs → b.st ≠ .running) (hq : s1.q r = a :: rest)
    (s' : XS) (hs : schedHead s1 r a rest = some s') : Inv1 s' := by
  have ht1 := inv1_tails s1 h1i
  have hrest := ht1 r a rest hq
  have hnr : ∀ i, nrm i ≠ nrm r → ∀ b bs, s1.q i = b :: bs → b.st ≠ .running := by
    rw [nrm_le r hr2]; exact h1n
  unfold schedHead at hs
  by_cases hi : a.st = .idle
  · have c1 : (a.st == St.idle) = true := by simp [hi]
    have hst := actStart_idle a s1.nextRun hi
    simp only [c1, ↓reduceIte, hst.1, Option.some.injEq] at hs
    subst hs
    refine inv1_set_head s1 r hr2 (actStart a s1.nextRun).1 rest ht1 h1n hrest _ ?_ rfl
    intro j
    rw [emit_q]
    have := q_setQ s1 r j ((actStart a s1.nextRun).1 :: rest)
    rw [nrm_le r hr2] at this
    simpa [XS.q] using this
  · have c1 : (a.st == St.idle) = false := by simpa using hi
    simp only [c1, Bool.false_eq_true, ↓reduceIte] at hs
    by_cases hp : a.st = .pause
    · have c2 : (a.st == St.pause) = true := by simp [hp]
      simp only [c2, ↓reduceIte, Option.some.injEq] at hs
      subst hs
      refine inv1_set_head s1 r hr2 (actResume a) rest ht1 h1n hrest _ ?_ rfl
      intro j
      have := q_setQ s1 r j (actResume a :: rest)
      rw [nrm_le r hr2] at this
      simpa [XS.q] using this
    · have c2 : (a.st == St.pause) = false := by simpa using hp
      simp only [c2, Bool.false_eq_true, ↓reduceIte] at hs
      by_cases hf : (a.st == St.finished || a.st == St.stoped) = true
      · simp only [hf, ↓reduceIte, Option.some.injEq] at hs
        subst hs
        refine inv1_pop s1 r a rest ht1 hnr hrest _ ?_ rfl
        intro j
        rw [emit_q]
        have := q_setQ s1 r j rest
        simpa [XS.q] using this
      · simp [hf] at hs

theorem sched_inv : ∀ (fuel : Nat) (s : XS), Inv1 s → Inv1 (sched fuel s)
  | 0, s, h => h
  | fuel + 1, s, h => by
    rw [sched]
    have h0 := dropDangling_inv s h
    cases hr : ready (dropDangling s) with
    | none => exact ⟨fun i => by rw [emit_q]; exact h0.1 i, h0.2⟩
    | some r =>
      obtain ⟨hr2, hne, hlow⟩ := ready_spec _ r hr
      have h1 := preempt_inv _ r h0 hlow
      simp only []
      cases hq : (preempt (dropDangling s) r).q r with
      | nil => exact h1.1
      | cons a rest =>
        simp only []
        cases hs : schedHead (preempt (dropDangling s) r) r a rest with
        | none => exact h1.1
        | some s' => exact sched_inv fuel s' (schedHead_inv _ r hr2 a rest h1.1 h1.2 hq s' hs)

/-! ### the operations -/

theorem inv1_iff (s : XS) : Inv1 s ↔ (headI s.curr 0 s.q0 ∧ headI s.curr 1 s.q1 ∧ headI s.curr 2 s.q2 ∧ ∀ c, s.curr = some c → c ≤ 2) := by
  constructor
  · intro h; exact ⟨h.1 0, h.1 1, h.1 2, h.2⟩
  · intro ⟨h0, h1, h2, hc⟩
    refine ⟨fun i => ?_, hc⟩
    rcases i with _ | _ | i
    · exact h0
    · exact h1
    · have : nrm (i + 2) = nrm 2 := by simp [nrm]
      show headI s.curr (i + 2) s.q2
      unfold headI at h2 ⊢; rw [this]; exact h2

/-- a list all of whose elements are not Running, with never-started tail, is a fine deque for any `curr` -/
theorem headI_of_notrun (curr : Option Nat) (i : Nat) (l : List XAct) (ht : ∀ a rest, l = a :: rest → tailOk rest = true ∧ a.st ≠ .running) :
    headI curr i l := by
  cases l with
  | nil => trivial
  | cons a rest => exact ⟨(ht a rest rfl).1, fun x => absurd x (ht a rest rfl).2⟩

theorem tailOk_filter (p : XAct → Bool) (l : List XAct) (h : tailOk l = true) : tailOk (l.filter p) = true := by
  simp only [tailOk, List.all_eq_true, List.mem_filter] at *; intro x hx; exact h x hx.1

theorem tailOk_append (l : List XAct) (a : XAct) (h : tailOk l = true) (ha : a.st = .idle ∨ (a.kind = .dead ∧ a.st = .stoped)) :
    tailOk (l ++ [a]) = true := by
  simp only [tailOk, List.all_append, List.all_cons, List.all_nil, Bool.and_true, Bool.and_eq_true] at *
  refine ⟨h, ?_⟩
  rcases ha with ha | ha <;> simp [ha]

theorem tailOk_map_same (f : XAct → XAct) (l : List XAct) (h : tailOk l = true) (hf : ∀ a, a.st ≠ .running → (f a).st = a.st ∧ (f a).kind = a.kind) :
    tailOk (l.map f) = true := by
  simp only [tailOk, List.all_eq_true, List.mem_map] at *
  intro x ⟨a, ha, e⟩
  have := h a ha
  simp only [Bool.or_eq_true, beq_iff_eq, Bool.and_eq_true] at this ⊢
  have hnr : a.st ≠ .running := by rcases this with h | h <;> simp [h]
  rw [← e, (hf a hnr).1, (hf a hnr).2]; exact this

/-- generic: transform each deque so that heads keep "Running ⇒ was Running head" and tails stay never-started -/
theorem headI_map (curr : Option Nat) (i : Nat) (f : XAct → XAct) (l : List XAct) (h : headI curr i l)
    (hf : ∀ a, a.st ≠ .running → (f a).st = a.st ∧ (f a).kind = a.kind) (hr : ∀ a, (f a).st = .running → a.st = .running) :
    headI curr i (l.map f) := by
  cases l with
  | nil => trivial
  | cons a rest => exact ⟨tailOk_map_same f rest h.1 hf, fun x => h.2 (hr a x)⟩

theorem headI_filter (curr : Option Nat) (i : Nat) (p : XAct → Bool) (l : List XAct) (h : headI curr i l) :
    headI curr i (l.filter p) := by
  cases l with
  | nil => trivial
  | cons a rest =>
    simp only [List.filter_cons]
    split
    · exact ⟨tailOk_filter p rest h.1, h.2⟩
    · have := tailOk_head_not_running (rest.filter p) (tailOk_filter p rest h.1)
      exact headI_of_notrun curr i _ (fun b bs e => ⟨(this.2 b bs e).2, (this.2 b bs e).1⟩)

theorem headI_append (curr : Option Nat) (i : Nat) (l : List XAct) (a : XAct) (h : headI curr i l)
    (ha : a.st = .idle ∨ (a.kind = .dead ∧ a.st = .stoped)) : headI curr i (l ++ [a]) := by
  cases l with
  | nil =>
    refine ⟨by simp [tailOk], fun x => ?_⟩
    rcases ha with ha | ha <;> simp [ha] at x
  | cons b rest => exact ⟨tailOk_append rest a h.1 ha, h.2⟩

theorem headI_mapFront_stop (curr : Option Nat) (i : Nat) (l : List XAct) (h : headI curr i l) : headI curr i (mapFront actStop l) := by
  cases l with
  | nil => trivial
  | cons a rest =>
    refine ⟨h.1, fun x => ?_⟩
    have x' : (actStop a).st = .running := x
    unfold actStop at x'; split at x' <;> simp_all

theorem headI_tail (curr : Option Nat) (i : Nat) (a : XAct) (rest : List XAct) (h : headI curr i (a :: rest)) (c' : Option Nat) :
    headI c' i rest := by
  have := tailOk_head_not_running rest h.1
  exact headI_of_notrun c' i _ (fun b bs e => ⟨(this.2 b bs e).2, (this.2 b bs e).1⟩)

theorem schedule_inv (s : XS) (h : Inv1 s) : Inv1 (schedule s) := sched_inv _ s h

def opOk : XOp → Bool
  | .append _ p => p ≤ 2
  | _ => true

theorem xstep_inv (s : XS) (op : XOp) (hp : opOk op = true) (h : Inv1 s) : Inv1 (xstep s op).1 := by
  have h4 := (inv1_iff s).1 h
  obtain ⟨h0, h1, h2, hc⟩ := h4
  cases op with
  | append k prio =>
    simp only [xstep]
    apply schedule_inv
    have ha : (({ id := s.idc + 1, kind := k, st := if k == .dead then .stoped else .idle } : XAct).st = .idle ∨
        (({ id := s.idc + 1, kind := k, st := if k == .dead then .stoped else .idle } : XAct).kind = .dead ∧
         ({ id := s.idc + 1, kind := k, st := if k == .dead then .stoped else .idle } : XAct).st = .stoped)) := by
      by_cases hk : k = .dead
      · right; simp [hk]
      · left; simp [hk]
    rw [inv1_iff]
    have hp' : prio ≤ 2 := by simpa [opOk] using hp
    rcases prio with _ | _ | _ | p
    · exact ⟨headI_append _ _ _ _ h0 ha, h1, h2, hc⟩
    · exact ⟨h0, headI_append _ _ _ _ h1 ha, h2, hc⟩
    · exact ⟨h0, h1, headI_append _ _ _ _ h2 ha, hc⟩
    · omega
  | cancel id =>
    simp only [xstep]
    split
    · exact schedule_inv _ ((inv1_iff _).2 ⟨headI_filter _ _ _ _ h0, h1, h2, hc⟩)
    · split
      · exact schedule_inv _ ((inv1_iff _).2 ⟨h0, headI_filter _ _ _ _ h1, h2, hc⟩)
      · split
        · exact schedule_inv _ ((inv1_iff _).2 ⟨h0, h1, headI_filter _ _ _ _ h2, hc⟩)
        · exact h
  | cancelCurrent =>
    simp only [xstep]
    cases hcur : s.curr with
    | none => simpa [hcur] using h
    | some c =>
      simp only []
      cases hq : s.q c with
      | nil => simpa using h
      | cons a rest =>
        simp only []
        apply schedule_inv
        have hcc : (s.setQ c rest).curr = s.curr := setQ_curr s c rest
        rw [inv1_iff, hcc]
        rcases c with _ | _ | c
        · have e : s.q0 = a :: rest := hq
          rw [e] at h0
          exact ⟨headI_tail _ _ a rest h0 _, h1, h2, hc⟩
        · have e : s.q1 = a :: rest := hq
          rw [e] at h1
          exact ⟨h0, headI_tail _ _ a rest h1 _, h2, hc⟩
        · have e : s.q2 = a :: rest := hq
          rw [e] at h2
          exact ⟨h0, h1, headI_tail _ _ a rest h2 _, hc⟩
  | cancelAll =>
    simp only [xstep]
    exact (inv1_iff _).2 ⟨headI_mapFront_stop _ _ _ h0, headI_mapFront_stop _ _ _ h1, headI_mapFront_stop _ _ _ h2, hc⟩
  | emit id succ =>
    simp only [xstep]
    split
    · have hf : ∀ (a : XAct), a.st ≠ .running →
          ((if a.id == id && a.kind == .dummy && a.st == .running then { a with st := .finished, fin := some s.nextRun } else a).st = a.st ∧
           (if a.id == id && a.kind == .dummy && a.st == .running then { a with st := .finished, fin := some s.nextRun } else a).kind = a.kind) := by
        intro a ha; split <;> simp_all
      have hr : ∀ (a : XAct), (if a.id == id && a.kind == .dummy && a.st == .running then { a with st := .finished, fin := some s.nextRun } else a).st = .running → a.st = .running := by
        intro a; split <;> simp_all
      exact (inv1_iff _).2 ⟨headI_map _ _ _ _ h0 hf hr, headI_map _ _ _ _ h1 hf hr, headI_map _ _ _ _ h2 hf hr, hc⟩
    · exact h
  | pass =>
    simp only [xstep]
    generalize (((s.q0 ++ s.q1 ++ s.q2).filterMap (fun a => a.fin)).mergeSort (· ≤ ·)) = ids
    induction ids generalizing s with
    | nil => exact h
    | cons rid ids ih =>
      simp only [List.foldl_cons]
      split
      · have hf : ∀ (a : XAct), a.st ≠ .running → ((if a.fin == some rid then { a with fin := none } else a).st = a.st ∧ (if a.fin == some rid then { a with fin := none } else a).kind = a.kind) := by
          intro a _; split <;> simp
        have hr : ∀ (a : XAct), (if a.fin == some rid then { a with fin := none } else a).st = .running → a.st = .running := by
          intro a; split <;> simp
        have h' : Inv1 (schedule { s with q0 := s.q0.map (fun a => if a.fin == some rid then { a with fin := none } else a),
                                          q1 := s.q1.map (fun a => if a.fin == some rid then { a with fin := none } else a),
                                          q2 := s.q2.map (fun a => if a.fin == some rid then { a with fin := none } else a) }) :=
          schedule_inv _ ((inv1_iff _).2 ⟨headI_map _ _ _ _ h0 hf hr, headI_map _ _ _ _ h1 hf hr, headI_map _ _ _ _ h2 hf hr, hc⟩)
        have h4' := (inv1_iff _).1 h'
        exact ih _ h' h4'.1 h4'.2.1 h4'.2.2.1 h4'.2.2.2
      · exact ih s h h0 h1 h2 hc

/-! ### every operation sequence -/

def xrun (s : XS) : List XOp → XS
  | [] => s
  | op :: ops => xrun (xstep s op).1 ops

theorem init_inv1 : Inv1 {} := ⟨fun i => by simp only [XS.q]; rcases i with _ | _ | i <;> trivial, fun c h => by cases h⟩

theorem xrun_inv : ∀ (ops : List XOp) (s : XS), ops.all opOk = true → Inv1 s → Inv1 (xrun s ops)
  | [], s, _, h => h
  | op :: ops, s, hok, h => by
    simp only [List.all_cons, Bool.and_eq_true] at hok
    exact xrun_inv ops _ hok.2 (xstep_inv s op hok.1 h)

def running (l : List XAct) : List XAct := l.filter (fun a => a.st == .running)

theorem running_tail (l : List XAct) (h : tailOk l = true) : running l = [] := by
  simp only [running, List.filter_eq_nil_iff]
  intro a ha
  simp only [tailOk, List.all_eq_true] at h
  have := h a ha
  simp only [Bool.or_eq_true, beq_iff_eq, Bool.and_eq_true] at this
  rcases this with h | h <;> simp [h]

theorem running_deque (curr : Option Nat) (i : Nat) (l : List XAct) (h : headI curr i l) :
    running l = [] ∨ (∃ a, running l = [a] ∧ curr = some (nrm i)) := by
  cases l with
  | nil => left; rfl
  | cons a rest =>
    have ht := running_tail rest h.1
    by_cases hr : a.st = .running
    · right; refine ⟨a, ?_, h.2 hr⟩
      simp only [running, List.filter_cons, hr, beq_self_eq_true, ↓reduceIte]
      have : rest.filter (fun a => a.st == .running) = [] := ht
      rw [this]
    · left
      simp only [running, List.filter_cons]
      have : (a.st == St.running) = false := by simpa using hr
      simp only [this, Bool.false_eq_true, ↓reduceIte]; exact ht

/-- **one action runs at a time**: after any sequence of executor operations at most one action of
the executor is Running -/
theorem exec_one_running (ops : List XOp) (hok : ops.all opOk = true) :
    (running ((xrun {} ops).q0 ++ (xrun {} ops).q1 ++ (xrun {} ops).q2)).length ≤ 1 := by
  have h := xrun_inv ops {} hok init_inv1
  obtain ⟨h0, h1, h2, _⟩ := (inv1_iff _).1 h
  have r0 := running_deque _ 0 _ h0
  have r1 := running_deque _ 1 _ h1
  have r2 := running_deque _ 2 _ h2
  have e : running ((xrun {} ops).q0 ++ (xrun {} ops).q1 ++ (xrun {} ops).q2) =
      running (xrun {} ops).q0 ++ running (xrun {} ops).q1 ++ running (xrun {} ops).q2 := by
    simp [running, List.filter_append]
  rw [e]
  rcases r0 with r0 | ⟨a0, r0, c0⟩ <;> rcases r1 with r1 | ⟨a1, r1, c1⟩ <;> rcases r2 with r2 | ⟨a2, r2, c2⟩ <;>
    rw [r0, r1, r2] <;> simp <;> simp_all [nrm]

/-- **nothing behind a head was ever started**: FIFO within a priority — the actions behind the head
of a deque are still Idle (or were stopped before they were appended) -/
theorem exec_tails_never_started (ops : List XOp) (hok : ops.all opOk = true) :
    ∀ i a rest, (xrun {} ops).q i = a :: rest → tailOk rest = true :=
  inv1_tails _ (xrun_inv ops {} hok init_inv1)

/-! ### highest priority first -/

/-- a Running head sits in the highest-priority non-empty deque -/
def HP (s : XS) : Prop := ∀ i a rest, s.q i = a :: rest → a.st = .running → ∀ j, j < nrm i → s.q j = []

theorem ready_none (s : XS) (h : ready s = none) : ∀ i, s.q i = [] := by
  unfold ready at h
  by_cases h0 : s.q0 = [] <;> by_cases h1 : s.q1 = [] <;> by_cases h2 : s.q2 = [] <;> simp [h0, h1, h2] at h
  intro i; rcases i with _ | _ | i <;> simp [XS.q, h0, h1, h2]

theorem preempt_q_empty (s0 : XS) (r j : Nat) (h : s0.q j = []) : (preempt s0 r).q j = [] := by
  unfold preempt
  cases hc : s0.curr with
  | none => exact h
  | some c =>
    simp only []
    split
    · rw [q_setQ]
      split
      · rename_i e
        have : s0.q c = [] := by rw [← q_nrm s0 c, e, q_nrm]; exact h
        rw [this]; rfl
      · exact h
    · exact h

theorem schedHead_q (s1 : XS) (r : Nat) (hr2 : r ≤ 2) (a : XAct) (rest : List XAct) (s' : XS) (hs : schedHead s1 r a rest = some s') :
    ∃ X, (∀ j, s'.q j = if r = nrm j then X else s1.q j) ∧ (X = rest ∨ ∃ a', X = a' :: rest) := by
  have hq : ∀ (X : List XAct) j, (s1.setQ r X).q j = if r = nrm j then X else s1.q j := by
    intro X j; have := q_setQ s1 r j X; rw [nrm_le r hr2] at this; exact this
  unfold schedHead at hs
  by_cases hi : (a.st == St.idle) = true
  · simp only [hi, ↓reduceIte] at hs
    split at hs
    · simp only [Option.some.injEq] at hs; subst hs
      exact ⟨_, fun j => by rw [emit_q]; exact hq _ j, Or.inr ⟨_, rfl⟩⟩
    · simp only [Option.some.injEq] at hs; subst hs
      exact ⟨_, fun j => by rw [emit_q]; exact hq _ j, Or.inl rfl⟩
  · simp only [hi, Bool.false_eq_true, ↓reduceIte] at hs
    split at hs
    · simp only [Option.some.injEq] at hs; subst hs
      exact ⟨_, fun j => hq _ j, Or.inr ⟨_, rfl⟩⟩
    · split at hs
      · simp only [Option.some.injEq] at hs; subst hs
        exact ⟨_, fun j => by rw [emit_q]; exact hq _ j, Or.inl rfl⟩
      · cases hs

theorem sched_hp : ∀ (fuel : Nat) (s : XS), Inv1 s → (fuel = 0 → HP s) → HP (sched fuel s)
  | 0, s, _, h => h rfl
  | fuel + 1, s, h, _ => by
    rw [sched]
    have h0 := dropDangling_inv s h
    cases hr : ready (dropDangling s) with
    | none =>
      intro i a rest e
      rw [emit_q, ready_none _ hr i] at e; cases e
    | some r =>
      obtain ⟨hr2, hne, hlow⟩ := ready_spec _ r hr
      have h1 := preempt_inv _ r h0 hlow
      have hlow1 : ∀ j, j < r → (preempt (dropDangling s) r).q j = [] := fun j hj => preempt_q_empty _ r j (hlow j hj)
      have hp1 : HP (preempt (dropDangling s) r) := by
        intro i b bs e hrun j hj
        have : nrm i = r := by
          by_cases x : nrm i = r
          · exact x
          · exact absurd hrun (h1.2 i x b bs e)
        exact hlow1 j (by omega)
      simp only []
      cases hq : (preempt (dropDangling s) r).q r with
      | nil => exact hp1
      | cons a rest =>
        simp only []
        cases hs : schedHead (preempt (dropDangling s) r) r a rest with
        | none => exact hp1
        | some s' =>
          have hi' := schedHead_inv _ r hr2 a rest h1.1 h1.2 hq s' hs
          refine sched_hp fuel s' hi' (fun _ => ?_)
          obtain ⟨X, hX, _⟩ := schedHead_q _ r hr2 a rest s' hs
          intro i b bs e hrun j hj
          rw [hX i] at e
          by_cases x : r = nrm i
          · rw [hX j]
            have hjr : j < r := by omega
            have : r ≠ nrm j := by rw [nrm_le j (by omega)]; omega
            simp only [this, ↓reduceIte]
            exact hlow1 j hjr
          · simp only [x, ↓reduceIte] at e
            exact absurd hrun (h1.2 i (fun y => x y.symm) b bs e)

theorem schedule_hp (s : XS) (h : Inv1 s) : HP (schedule s) :=
  sched_hp _ s h (fun e => by simp [schedFuel] at e)

theorem hp_of_q (s s' : XS) (h : HP s) (hemp : ∀ j, s.q j = [] → s'.q j = [])
    (hrun : ∀ i b bs, s'.q i = b :: bs → b.st = .running → ∃ a rest, s.q i = a :: rest ∧ a.st = .running) : HP s' := by
  intro i b bs e hr j hj
  obtain ⟨a, rest, e0, hr0⟩ := hrun i b bs e hr
  exact hemp j (h i a rest e0 hr0 j hj)

theorem q_map (s s' : XS) (f : XAct → XAct) (e0 : s'.q0 = s.q0.map f) (e1 : s'.q1 = s.q1.map f) (e2 : s'.q2 = s.q2.map f) (j : Nat) :
    s'.q j = (s.q j).map f := by
  rcases j with _ | _ | j <;> simp [XS.q, e0, e1, e2]

theorem xstep_hp (s : XS) (op : XOp) (hp : opOk op = true) (h : Inv1 s) (hh : HP s) : HP (xstep s op).1 := by
  have h4 := (inv1_iff s).1 h
  obtain ⟨h0, h1, h2, hc⟩ := h4
  cases op with
  | append k prio =>
    simp only [xstep]
    apply schedule_hp
    have ha : (({ id := s.idc + 1, kind := k, st := if k == .dead then .stoped else .idle } : XAct).st = .idle ∨
        (({ id := s.idc + 1, kind := k, st := if k == .dead then .stoped else .idle } : XAct).kind = .dead ∧
         ({ id := s.idc + 1, kind := k, st := if k == .dead then .stoped else .idle } : XAct).st = .stoped)) := by
      by_cases hk : k = .dead
      · right; simp [hk]
      · left; simp [hk]
    rw [inv1_iff]
    have hp' : prio ≤ 2 := by simpa [opOk] using hp
    rcases prio with _ | _ | _ | p
    · exact ⟨headI_append _ _ _ _ h0 ha, h1, h2, hc⟩
    · exact ⟨h0, headI_append _ _ _ _ h1 ha, h2, hc⟩
    · exact ⟨h0, h1, headI_append _ _ _ _ h2 ha, hc⟩
    · omega
  | cancel id =>
    simp only [xstep]
    split
    · exact schedule_hp _ ((inv1_iff _).2 ⟨headI_filter _ _ _ _ h0, h1, h2, hc⟩)
    · split
      · exact schedule_hp _ ((inv1_iff _).2 ⟨h0, headI_filter _ _ _ _ h1, h2, hc⟩)
      · split
        · exact schedule_hp _ ((inv1_iff _).2 ⟨h0, h1, headI_filter _ _ _ _ h2, hc⟩)
        · exact hh
  | cancelCurrent =>
    simp only [xstep]
    cases hcur : s.curr with
    | none => simpa [hcur] using hh
    | some c =>
      simp only []
      cases hq : s.q c with
      | nil => simpa using hh
      | cons a rest =>
        simp only []
        apply schedule_hp
        have hcc : (s.setQ c rest).curr = s.curr := setQ_curr s c rest
        rw [inv1_iff, hcc]
        rcases c with _ | _ | c
        · have e : s.q0 = a :: rest := hq
          rw [e] at h0
          exact ⟨headI_tail _ _ a rest h0 _, h1, h2, hc⟩
        · have e : s.q1 = a :: rest := hq
          rw [e] at h1
          exact ⟨h0, headI_tail _ _ a rest h1 _, h2, hc⟩
        · have e : s.q2 = a :: rest := hq
          rw [e] at h2
          exact ⟨h0, h1, headI_tail _ _ a rest h2 _, hc⟩
  | cancelAll =>
    simp only [xstep]
    -- every head is stopped: no head is Running
    intro i b bs e hr
    exfalso
    have e' : mapFront actStop (s.q i) = b :: bs := by rcases i with _ | _ | i <;> exact e
    cases hl : s.q i with
    | nil => rw [hl] at e'; cases e'
    | cons a rest =>
      rw [hl] at e'
      simp only [mapFront, List.cons.injEq] at e'
      rw [← e'.1] at hr
      unfold actStop at hr; split at hr <;> simp_all
  | emit id succ =>
    simp only [xstep]
    split
    · refine hp_of_q s _ hh (fun j hj => by rw [q_map s _ _ rfl rfl rfl j, hj]; rfl) ?_
      intro i b bs e hr
      rw [q_map s _ _ rfl rfl rfl i] at e
      cases hl : s.q i with
      | nil => rw [hl] at e; cases e
      | cons a rest =>
        rw [hl] at e
        simp only [List.map_cons, List.cons.injEq] at e
        refine ⟨a, rest, rfl, ?_⟩
        rw [← e.1] at hr
        split at hr <;> simp_all
    · exact hh
  | pass =>
    simp only [xstep]
    generalize (((s.q0 ++ s.q1 ++ s.q2).filterMap (fun a => a.fin)).mergeSort (· ≤ ·)) = ids
    induction ids generalizing s with
    | nil => exact hh
    | cons rid ids ih =>
      simp only [List.foldl_cons]
      split
      · have hf : ∀ (a : XAct), a.st ≠ .running → ((if a.fin == some rid then { a with fin := none } else a).st = a.st ∧ (if a.fin == some rid then { a with fin := none } else a).kind = a.kind) := by
          intro a _; split <;> simp
        have hr : ∀ (a : XAct), (if a.fin == some rid then { a with fin := none } else a).st = .running → a.st = .running := by
          intro a; split <;> simp
        have hpre : Inv1 { s with q0 := s.q0.map (fun a => if a.fin == some rid then { a with fin := none } else a),
                                  q1 := s.q1.map (fun a => if a.fin == some rid then { a with fin := none } else a),
                                  q2 := s.q2.map (fun a => if a.fin == some rid then { a with fin := none } else a) } :=
          (inv1_iff _).2 ⟨headI_map _ _ _ _ h0 hf hr, headI_map _ _ _ _ h1 hf hr, headI_map _ _ _ _ h2 hf hr, hc⟩
        have h' := schedule_inv _ hpre
        have h4' := (inv1_iff _).1 h'
        exact ih _ h' (schedule_hp _ hpre) h4'.1 h4'.2.1 h4'.2.2.1 h4'.2.2.2
      · exact ih s h hh h0 h1 h2 hc

theorem xrun_hp : ∀ (ops : List XOp) (s : XS), ops.all opOk = true → Inv1 s → HP s → HP (xrun s ops)
  | [], s, _, _, h => h
  | op :: ops, s, hok, h, hh => by
    simp only [List.all_cons, Bool.and_eq_true] at hok
    exact xrun_hp ops _ hok.2 (xstep_inv s op hok.1 h) (xstep_hp s op hok.1 h hh)

/-- **highest priority first**: after any sequence of executor operations, a Running action is the head
of the highest-priority non-empty deque (every deque of higher priority is empty) -/
theorem exec_highest_first (ops : List XOp) (hok : ops.all opOk = true) :
    ∀ i a rest, (xrun {} ops).q i = a :: rest → a.st = .running → ∀ j, j < nrm i → (xrun {} ops).q j = [] :=
  xrun_hp ops {} hok init_inv1 (fun i a rest e => by rcases i with _ | _ | i <;> cases e)

end Tbox.C17.Exec
